package main

// Access-summary extractor for C11 (the one syntactic tie in the design: "is synchronised" has no
// behavioural observation short of running schedules).  For every package of the library it
// lists each package-level variable and every access to it, classified by where it sits:
//
//   init      inside func init() or a package-level initialiser (happens before main)
//   once:<o>  inside a function literal passed to <o>.Do(...)
//   after:<o> in a function body, after an unconditional call <o>.Do(...) earlier in the same body
//   plain     anywhere else
//
// plus, for every function literal handed to parallel.RunWorkers, the writes it makes to
// variables captured from outside (other than element writes through an index expression).
// Anything the extractor does not understand on a shared variable (address taken, passed to
// sync/atomic, a mutex in sight) is reported as "unknown" and makes the Lean checker refuse.

import (
	"fmt"
	"go/ast"
	"go/parser"
	"go/token"
	"os"
	"path/filepath"
	"sort"
	"strings"
)

type accRec struct {
	pkg, variable, kind, ctx, fn string
	line                         int
}

func extractAccess(repo string) (recs []accRec, onces map[string]bool, workerWrites []string, err error) {
	onces = map[string]bool{}
	var dirs []string
	filepath.Walk(repo, func(p string, info os.FileInfo, e error) error {
		if e != nil {
			return nil
		}
		if info.IsDir() {
			n := info.Name()
			if strings.HasPrefix(n, ".") || n == "test-images" || n == "test-profiles" || n == "doc-images" || n == "example-output" {
				return filepath.SkipDir
			}
			dirs = append(dirs, p)
		}
		return nil
	})
	sort.Strings(dirs)
	for _, dir := range dirs {
		fset := token.NewFileSet()
		pkgs, perr := parser.ParseDir(fset, dir, func(fi os.FileInfo) bool { return !strings.HasSuffix(fi.Name(), "_test.go") }, 0)
		if perr != nil {
			return nil, nil, nil, perr
		}
		for pname, pkg := range pkgs {
			rel, _ := filepath.Rel(repo, dir)
			pkgID := rel + ":" + pname
			// package-level variables
			vars := map[string]bool{}
			for _, f := range pkg.Files {
				for _, d := range f.Decls {
					gd, ok := d.(*ast.GenDecl)
					if !ok || gd.Tok != token.VAR {
						continue
					}
					for _, sp := range gd.Specs {
						vs := sp.(*ast.ValueSpec)
						isOnce := false
						if se, ok := vs.Type.(*ast.SelectorExpr); ok {
							if x, ok := se.X.(*ast.Ident); ok && x.Name == "sync" && se.Sel.Name == "Once" {
								isOnce = true
							}
						}
						for _, n := range vs.Names {
							if n.Name == "_" {
								continue
							}
							if isOnce {
								onces[pkgID+"."+n.Name] = true
							} else {
								vars[n.Name] = true
							}
						}
					}
				}
			}
			isPkgVar := func(id *ast.Ident) bool {
				if !vars[id.Name] {
					return false
				}
				// resolved by the parser to a declaration: a package-level one has a *ast.ValueSpec
				// at file scope; a local shadow resolves to something declared inside a function.
				if id.Obj != nil {
					if vs, ok := id.Obj.Decl.(*ast.ValueSpec); ok {
						_ = vs
						return id.Obj.Kind == ast.Var && fileScoped(pkg, id.Obj)
					}
					return false
				}
				return true // unresolved in this file: declared in another file of the package
			}
			for fname, f := range pkg.Files {
				_ = fname
				for _, d := range f.Decls {
					fd, ok := d.(*ast.FuncDecl)
					if !ok || fd.Body == nil {
						continue
					}
					fnName := fd.Name.Name
					if fd.Recv != nil {
						fnName = "(method)." + fnName
					}
					baseCtx := "plain"
					if fd.Name.Name == "init" && fd.Recv == nil {
						baseCtx = "init"
					}
					w := &accWalker{fset: fset, pkgID: pkgID, fn: fnName, isPkgVar: isPkgVar, onces: onces}
					w.block(fd.Body.List, baseCtx)
					recs = append(recs, w.recs...)
					workerWrites = append(workerWrites, w.workerWrites...)
				}
			}
		}
	}
	return
}

func fileScoped(pkg *ast.Package, obj *ast.Object) bool {
	for _, f := range pkg.Files {
		if f.Scope != nil && f.Scope.Lookup(obj.Name) == obj {
			return true
		}
	}
	// package scope objects are registered in the file scopes' outer scope by ParseDir
	return pkg.Scope != nil && pkg.Scope.Lookup(obj.Name) == obj
}

type accWalker struct {
	fset         *token.FileSet
	pkgID, fn    string
	isPkgVar     func(*ast.Ident) bool
	onces        map[string]bool
	recs         []accRec
	workerWrites []string
}

func (w *accWalker) add(id *ast.Ident, kind, ctx string) {
	w.recs = append(w.recs, accRec{w.pkgID, id.Name, kind, ctx, w.fn, w.fset.Position(id.Pos()).Line})
}

// onceDoCall returns the Once a statement unconditionally calls Do on, and the closure.
func (w *accWalker) onceDoCall(s ast.Stmt) (string, *ast.FuncLit) {
	es, ok := s.(*ast.ExprStmt)
	if !ok {
		return "", nil
	}
	call, ok := es.X.(*ast.CallExpr)
	if !ok {
		return "", nil
	}
	sel, ok := call.Fun.(*ast.SelectorExpr)
	if !ok || sel.Sel.Name != "Do" || len(call.Args) != 1 {
		return "", nil
	}
	x, ok := sel.X.(*ast.Ident)
	if !ok || !w.onces[w.pkgID+"."+x.Name] {
		return "", nil
	}
	fl, _ := call.Args[0].(*ast.FuncLit)
	return x.Name, fl
}

// block walks statements in order; after an unconditional <o>.Do(...) the context becomes after:<o>.
func (w *accWalker) block(stmts []ast.Stmt, ctx string) {
	for _, s := range stmts {
		if o, fl := w.onceDoCall(s); o != "" {
			if fl != nil {
				if ctx == "init" {
					w.block(fl.Body.List, "init") // a Once run from init(): still before main
				} else {
					w.block(fl.Body.List, "once:"+o)
				}
			} else {
				w.recs = append(w.recs, accRec{w.pkgID, o, "unknown", ctx, w.fn, w.fset.Position(s.Pos()).Line})
			}
			if ctx == "plain" {
				ctx = "after:" + o
			}
			continue
		}
		w.stmt(s, ctx)
	}
}

func (w *accWalker) stmt(s ast.Stmt, ctx string) {
	switch t := s.(type) {
	case *ast.AssignStmt:
		for _, l := range t.Lhs {
			w.lhs(l, ctx)
		}
		for _, r := range t.Rhs {
			w.expr(r, ctx)
		}
	case *ast.IncDecStmt:
		w.lhs(t.X, ctx)
	case *ast.BlockStmt:
		w.block(t.List, ctx)
	case *ast.IfStmt:
		if t.Init != nil {
			w.stmt(t.Init, ctx)
		}
		w.expr(t.Cond, ctx)
		// a Do inside a branch does not order what follows the if
		w.block(t.Body.List, ctx)
		if t.Else != nil {
			w.stmt(t.Else, ctx)
		}
	case *ast.ForStmt:
		if t.Init != nil {
			w.stmt(t.Init, ctx)
		}
		if t.Cond != nil {
			w.expr(t.Cond, ctx)
		}
		if t.Post != nil {
			w.stmt(t.Post, ctx)
		}
		w.block(t.Body.List, ctx)
	case *ast.RangeStmt:
		w.expr(t.X, ctx)
		w.block(t.Body.List, ctx)
	case *ast.SwitchStmt:
		if t.Init != nil {
			w.stmt(t.Init, ctx)
		}
		if t.Tag != nil {
			w.expr(t.Tag, ctx)
		}
		for _, c := range t.Body.List {
			cc := c.(*ast.CaseClause)
			for _, e := range cc.List {
				w.expr(e, ctx)
			}
			w.block(cc.Body, ctx)
		}
	case *ast.TypeSwitchStmt:
		if t.Init != nil {
			w.stmt(t.Init, ctx)
		}
		w.stmt(t.Assign, ctx)
		for _, c := range t.Body.List {
			w.block(c.(*ast.CaseClause).Body, ctx)
		}
	case *ast.ReturnStmt:
		for _, e := range t.Results {
			w.expr(e, ctx)
		}
	case *ast.ExprStmt:
		w.expr(t.X, ctx)
	case *ast.DeclStmt:
		if gd, ok := t.Decl.(*ast.GenDecl); ok {
			for _, sp := range gd.Specs {
				if vs, ok := sp.(*ast.ValueSpec); ok {
					for _, v := range vs.Values {
						w.expr(v, ctx)
					}
				}
			}
		}
	case *ast.DeferStmt:
		w.expr(t.Call, ctx)
	case *ast.GoStmt:
		w.expr(t.Call, ctx)
	case *ast.LabeledStmt:
		w.stmt(t.Stmt, ctx)
	case *ast.SendStmt, *ast.SelectStmt:
		w.recs = append(w.recs, accRec{w.pkgID, "<channel>", "unknown", ctx, w.fn, w.fset.Position(s.Pos()).Line})
	}
}

func (w *accWalker) lhs(e ast.Expr, ctx string) {
	switch t := e.(type) {
	case *ast.Ident:
		if w.isPkgVar(t) {
			w.add(t, "write", ctx)
		}
	case *ast.IndexExpr:
		if id, ok := t.X.(*ast.Ident); ok && w.isPkgVar(id) {
			w.add(id, "elemwrite", ctx)
		} else {
			w.expr(t.X, ctx)
		}
		w.expr(t.Index, ctx)
	case *ast.SelectorExpr:
		if id, ok := t.X.(*ast.Ident); ok && w.isPkgVar(id) {
			w.add(id, "write", ctx)
		} else {
			w.expr(t.X, ctx)
		}
	case *ast.StarExpr:
		w.expr(t.X, ctx)
	default:
		w.expr(e, ctx)
	}
}

func (w *accWalker) expr(e ast.Expr, ctx string) {
	if e == nil {
		return
	}
	ast.Inspect(e, func(n ast.Node) bool {
		switch t := n.(type) {
		case *ast.Ident:
			if w.isPkgVar(t) {
				w.add(t, "read", ctx)
			}
		case *ast.UnaryExpr:
			if t.Op == token.AND {
				if id, ok := t.X.(*ast.Ident); ok && w.isPkgVar(id) {
					w.add(id, "unknown", ctx) // address taken: aliasing the extractor cannot follow
					return false
				}
			}
		case *ast.SliceExpr:
			// v[a:b] of a package-level array or slice: the callee it is handed to may write through the alias
			if id, ok := t.X.(*ast.Ident); ok && w.isPkgVar(id) {
				w.add(id, "unknown", ctx)
				w.expr(t.Low, ctx)
				w.expr(t.High, ctx)
				w.expr(t.Max, ctx)
				return false
			}
		case *ast.SelectorExpr:
			// qualified identifiers pkg.Name: the selector's Sel is not a local reference
			w.expr(t.X, ctx)
			return false
		case *ast.KeyValueExpr:
			w.expr(t.Value, ctx)
			return false
		case *ast.CallExpr:
			// closures handed to parallel.RunWorkers run on worker goroutines
			if sel, ok := t.Fun.(*ast.SelectorExpr); ok && sel.Sel.Name == "RunWorkers" {
				for _, a := range t.Args {
					if fl, ok := a.(*ast.FuncLit); ok {
						w.workerClosure(fl)
					}
				}
			}
		case *ast.FuncLit:
			w.block(t.Body.List, ctx)
			return false
		}
		return true
	})
}

// workerClosure records writes to variables captured from outside a worker closure.
func (w *accWalker) workerClosure(fl *ast.FuncLit) {
	declared := map[*ast.Object]bool{}
	for _, p := range fl.Type.Params.List {
		for _, n := range p.Names {
			declared[n.Obj] = true
		}
	}
	ast.Inspect(fl.Body, func(n ast.Node) bool {
		switch t := n.(type) {
		case *ast.AssignStmt:
			for _, l := range t.Lhs {
				if id, ok := l.(*ast.Ident); ok {
					if t.Tok == token.DEFINE {
						declared[id.Obj] = true
					} else if id.Obj != nil && !declared[id.Obj] && !w.declaredInside(fl, id.Obj) {
						w.workerWrites = append(w.workerWrites, fmt.Sprintf("%s:%s:%s:%d", w.pkgID, w.fn, id.Name, w.fset.Position(id.Pos()).Line))
					}
				}
			}
		case *ast.IncDecStmt:
			if id, ok := t.X.(*ast.Ident); ok && id.Obj != nil && !declared[id.Obj] && !w.declaredInside(fl, id.Obj) {
				w.workerWrites = append(w.workerWrites, fmt.Sprintf("%s:%s:%s:%d", w.pkgID, w.fn, id.Name, w.fset.Position(id.Pos()).Line))
			}
		}
		return true
	})
}

func (w *accWalker) declaredInside(fl *ast.FuncLit, obj *ast.Object) bool {
	if obj == nil {
		return false
	}
	pos := obj.Pos()
	return pos >= fl.Pos() && pos <= fl.End()
}

// emitAccessLean renders the summary as Prism/Gen/Access.lean.
func emitAccessLean(repo string) (string, error) {
	recs, onces, ww, err := extractAccess(repo)
	if err != nil {
		return "", err
	}
	var sb strings.Builder
	sb.WriteString(genHeader)
	sb.WriteString("import Prism.Model.Race\n\nnamespace Prism.Gen\nopen Prism.Race\n\n")
	sb.WriteString("/-- every access to a package-level variable of the library: (package, variable, kind, context) -/\n")
	sb.WriteString("def accesses : List Access := [\n")
	sort.Slice(recs, func(i, j int) bool {
		a, b := recs[i], recs[j]
		if a.pkg != b.pkg {
			return a.pkg < b.pkg
		}
		if a.variable != b.variable {
			return a.variable < b.variable
		}
		if a.fn != b.fn {
			return a.fn < b.fn
		}
		if a.kind != b.kind {
			return a.kind < b.kind
		}
		return a.ctx < b.ctx
	})
	// line numbers are deliberately left out: a harmless edit that moves code regenerates the same file
	seen := map[string]bool{}
	first := true
	for _, r := range recs {
		ctx := ""
		switch {
		case r.ctx == "init":
			ctx = ".init"
		case r.ctx == "plain":
			ctx = ".plain"
		case strings.HasPrefix(r.ctx, "once:"):
			ctx = fmt.Sprintf("(.insideOnce %q)", r.ctx[5:])
		case strings.HasPrefix(r.ctx, "after:"):
			ctx = fmt.Sprintf("(.afterOnce %q)", r.ctx[6:])
		}
		line := fmt.Sprintf("  ⟨%q, %q, .%s, %s, %q⟩", r.pkg, r.variable, r.kind, ctx, r.fn)
		if seen[line] {
			continue
		}
		seen[line] = true
		if !first {
			sb.WriteString(",\n")
		}
		first = false
		sb.WriteString(line)
	}
	sb.WriteString("]\n\n")
	var on []string
	for o := range onces {
		on = append(on, o)
	}
	sort.Strings(on)
	sb.WriteString("def onceVars : List String := [")
	for i, o := range on {
		if i > 0 {
			sb.WriteString(", ")
		}
		fmt.Fprintf(&sb, "%q", o)
	}
	sb.WriteString("]\n\n")
	sort.Strings(ww)
	sb.WriteString("/-- writes to captured variables inside closures handed to parallel.RunWorkers (pkg:func:var), line numbers dropped -/\n")
	sb.WriteString("def workerCapturedWrites : List String := [")
	seenw := map[string]bool{}
	firstw := true
	for _, x := range ww {
		k := x[:strings.LastIndex(x, ":")]
		if seenw[k] {
			continue
		}
		seenw[k] = true
		if !firstw {
			sb.WriteString(", ")
		}
		firstw = false
		fmt.Fprintf(&sb, "%q", k)
	}
	sb.WriteString("]\n\nend Prism.Gen\n")
	return sb.String(), nil
}
