package main

// Builders of well-formed (and deliberately damaged) PNG, JPEG, WebP and ICC byte streams
// from small descriptions.  Every random choice comes from the caller's rng.

import (
	"bytes"
	"compress/zlib"
	"encoding/binary"
	"hash/crc32"
	"unicode/utf16"
)

func be32(v uint32) []byte { b := make([]byte, 4); binary.BigEndian.PutUint32(b, v); return b }
func be16(v uint16) []byte { b := make([]byte, 2); binary.BigEndian.PutUint16(b, v); return b }
func le32(v uint32) []byte { b := make([]byte, 4); binary.LittleEndian.PutUint32(b, v); return b }

// ---------------------------------------------------------------------------------- PNG

var pngSig = []byte{0x89, 'P', 'N', 'G', 0x0D, 0x0A, 0x1A, 0x0A}

type pngChunk struct {
	typ  string
	data []byte
}

func pngChunkBytes(typ string, data []byte) []byte {
	var b bytes.Buffer
	b.Write(be32(uint32(len(data))))
	b.WriteString(typ)
	b.Write(data)
	c := crc32.NewIEEE()
	c.Write([]byte(typ))
	c.Write(data)
	b.Write(be32(c.Sum32()))
	return b.Bytes()
}

type pngDesc struct {
	w, h      uint32
	depth     byte
	ctype     byte
	interlace byte
	pre       []pngChunk // ancillary chunks between IHDR and iCCP
	iccName   string     // "" = no iCCP chunk
	iccZ      []byte     // compressed profile stream as stored
	post      []pngChunk // ancillary chunks between iCCP and IDAT
	body      []byte     // IDAT payload
	noIEND    bool
}

func zlibCompress(p []byte, level int) []byte {
	var b bytes.Buffer
	w, _ := zlib.NewWriterLevel(&b, level)
	w.Write(p)
	w.Close()
	return b.Bytes()
}

// bytes up to and including the last structure the loader needs (see C18)
func (d *pngDesc) build() (all []byte, needed int) {
	var b bytes.Buffer
	b.Write(pngSig)
	ihdr := append(append(be32(d.w), be32(d.h)...), d.depth, d.ctype, 0, 0, d.interlace)
	b.Write(pngChunkBytes("IHDR", ihdr))
	for _, c := range d.pre {
		b.Write(pngChunkBytes(c.typ, c.data))
	}
	if d.iccName != "" {
		data := append([]byte(d.iccName), 0, 0)
		data = append(data, d.iccZ...)
		b.Write(pngChunkBytes("iCCP", data))
		needed = b.Len()
	}
	for _, c := range d.post {
		b.Write(pngChunkBytes(c.typ, c.data))
	}
	if d.iccName == "" {
		needed = b.Len() + 8 // up to and including the IDAT chunk header
	}
	b.Write(pngChunkBytes("IDAT", d.body))
	if !d.noIEND {
		b.Write(pngChunkBytes("IEND", nil))
	}
	return b.Bytes(), needed
}

var pngCombos = [][2]byte{{0, 1}, {0, 2}, {0, 4}, {0, 8}, {0, 16}, {2, 8}, {2, 16}, {3, 1}, {3, 2}, {3, 4}, {3, 8}, {4, 8}, {4, 16}, {6, 8}, {6, 16}}

var pngAncillary = []string{"gAMA", "cHRM", "sRGB", "pHYs", "tEXt", "zTXt", "iTXt", "tIME", "bKGD", "sBIT", "eXIf", "prVt"}

func randAncillary(r *rng, maxLen int) pngChunk {
	t := pngAncillary[r.intn(len(pngAncillary))]
	n := r.intn(maxLen + 1)
	if r.intn(4) == 0 {
		n = r.pick(0, 1, 4095, 4096, 4097, 8192)
		if n > maxLen {
			n = maxLen
		}
	}
	return pngChunk{t, r.bytes(n)}
}

func boundary32(r *rng, bits uint) uint32 {
	max := uint32(1)<<bits - 1
	switch r.intn(8) {
	case 0:
		return 1
	case 1:
		return 2
	case 2:
		return max
	case 3:
		return max - 1
	case 4:
		return 1 << uint(r.intn(int(bits)))
	case 5:
		return (1 << uint(r.intn(int(bits)))) - 1 | 1
	default:
		v := uint32(r.next()) & max
		if v == 0 {
			v = 1
		}
		return v
	}
}

func randProfilePayload(r *rng, n int) []byte {
	// mixture of incompressible and compressible content
	b := make([]byte, n)
	switch r.intn(3) {
	case 0:
		for i := range b {
			b[i] = byte(r.next())
		}
	case 1:
		for i := range b {
			b[i] = byte(i / 7)
		}
	default:
		for i := range b {
			if i%64 < 48 {
				b[i] = byte(i)
			} else {
				b[i] = byte(r.next())
			}
		}
	}
	return b
}

// validAncillary gives a chunk of a known ancillary type the payload the PNG specification defines for
// it in an image of this colour type and depth (what real encoders write), instead of random bytes.
func validAncillary(r *rng, typ string, ctype, depth byte) ([]byte, bool) {
	sig := func() byte { // a significant-bit count: 1..depth (1..8 for palette images)
		m := int(depth)
		if ctype == 3 {
			m = 8
		}
		return byte(1 + r.intn(m))
	}
	switch typ {
	case "sBIT":
		n := map[byte]int{0: 1, 2: 3, 3: 3, 4: 2, 6: 4}[ctype]
		b := make([]byte, n)
		for i := range b {
			b[i] = sig()
		}
		return b, true
	case "gAMA":
		return be32(uint32(r.pick(45455, 100000, 55556, 1))), true
	case "cHRM":
		var b []byte
		for _, v := range []uint32{31270, 32900, 64000, 33000, 30000, 60000, 15000, 6000} {
			b = append(b, be32(v)...)
		}
		return b, true
	case "sRGB":
		return []byte{byte(r.intn(4))}, true
	case "pHYs":
		return append(append(be32(uint32(r.pick(2835, 3780, 1))), be32(uint32(r.pick(2835, 3780, 1)))...), byte(r.intn(2))), true
	case "tIME":
		return []byte{0x07, 0xe8, byte(1 + r.intn(12)), byte(1 + r.intn(28)), byte(r.intn(24)), byte(r.intn(60)), byte(r.intn(61))}, true
	case "bKGD":
		switch ctype {
		case 3:
			return []byte{byte(r.intn(2))}, true
		case 0, 4:
			return be16(uint16(r.intn(1 << depth))), true
		default:
			return append(append(be16(uint16(r.intn(1<<depth))), be16(uint16(r.intn(1<<depth)))...), be16(uint16(r.intn(1<<depth)))...), true
		}
	case "tEXt":
		return append(append([]byte("Comment"), 0), []byte("made by pv")...), true
	}
	return nil, false
}

func randPngDesc(r *rng, withICC bool, profile []byte) *pngDesc {
	cb := pngCombos[r.intn(len(pngCombos))]
	d := &pngDesc{w: boundary32(r, 31), h: boundary32(r, 31), ctype: cb[0], depth: cb[1], interlace: byte(r.intn(2))}
	for i := r.intn(4); i > 0; i-- {
		d.pre = append(d.pre, randAncillary(r, 300))
	}
	for i := r.intn(3); i > 0; i-- {
		d.post = append(d.post, randAncillary(r, 300))
	}
	// two ancillary chunks in three carry the payload the specification defines for their type
	for _, l := range []*[]pngChunk{&d.pre, &d.post} {
		for k := range *l {
			if r.intn(3) != 0 {
				if b, ok := validAncillary(r, (*l)[k].typ, d.ctype, d.depth); ok {
					(*l)[k].data = b
				}
			}
		}
	}
	if withICC {
		n := 1 + r.intn(79)
		if r.intn(4) == 0 {
			n = r.pick(1, 2, 78, 79, 79)
		}
		name := make([]byte, n)
		latin1 := r.intn(3) == 0 // PNG keywords are Latin-1: printable 161-255 are legal too
		for i := range name {
			name[i] = byte(32 + r.intn(95))
			if latin1 && r.intn(3) == 0 {
				name[i] = byte(161 + r.intn(95))
			}
		}
		d.iccName = string(name)
		d.iccZ = zlibCompress(profile, []int{zlib.NoCompression, zlib.BestSpeed, zlib.DefaultCompression, zlib.BestCompression, zlib.HuffmanOnly}[r.intn(5)])
	}
	d.body = r.bytes(r.intn(64))
	return d
}

// ---------------------------------------------------------------------------------- JPEG

type jpegSeg struct {
	marker byte
	data   []byte // payload after the 2-byte length (nil for SOI/EOI/RSTn)
}

func (s jpegSeg) bytes() []byte {
	out := []byte{0xff, s.marker}
	if s.marker == 0xd8 || s.marker == 0xd9 || (s.marker >= 0xd0 && s.marker <= 0xd7) {
		return out
	}
	out = append(out, be16(uint16(len(s.data)+2))...)
	return append(out, s.data...)
}

type jpegDesc struct {
	progressive bool
	precision   byte
	w, h        uint16
	comps       [][3]byte // id, sampling (H<<4|V), Tq
	segsBefore  []jpegSeg // other segments, before SOF unless sofFirst
	iccSegs     []jpegSeg // APP2 ICC_PROFILE segments in emission order
	iccAfterSOF bool      // emit the ICC segments after the SOF segment
	interleave  []jpegSeg // segments interleaved between ICC chunks
	body        []byte    // entropy-coded data after SOS
}

func iccApp2(num, total byte, payload []byte) jpegSeg {
	d := append([]byte("ICC_PROFILE\x00"), num, total)
	return jpegSeg{0xe2, append(d, payload...)}
}

func (d *jpegDesc) sof() jpegSeg {
	m := byte(0xc0)
	if d.progressive {
		m = 0xc2
	}
	p := []byte{d.precision}
	p = append(p, be16(d.h)...)
	p = append(p, be16(d.w)...)
	p = append(p, byte(len(d.comps)))
	for _, c := range d.comps {
		p = append(p, c[0], c[1], c[2])
	}
	return jpegSeg{m, p}
}

func (d *jpegDesc) build() (all []byte, needed int) {
	var b bytes.Buffer
	b.Write(jpegSeg{marker: 0xd8}.bytes())
	for _, s := range d.segsBefore {
		b.Write(s.bytes())
	}
	writeICC := func() {
		for i, s := range d.iccSegs {
			b.Write(s.bytes())
			if i < len(d.interleave) {
				b.Write(d.interleave[i].bytes())
			}
		}
	}
	if !d.iccAfterSOF {
		writeICC()
	}
	b.Write(d.sof().bytes())
	if d.iccAfterSOF {
		writeICC()
	}
	needed = b.Len()
	sos := jpegSeg{0xda, []byte{byte(len(d.comps))}}
	for _, c := range d.comps {
		sos.data = append(sos.data, c[0], 0)
	}
	sos.data = append(sos.data, 0, 63, 0)
	if len(d.iccSegs) == 0 {
		needed = b.Len() + len(sos.bytes())
	}
	b.Write(sos.bytes())
	b.Write(d.body)
	b.Write(jpegSeg{marker: 0xd9}.bytes())
	return b.Bytes(), needed
}

func randJpegOther(r *rng) jpegSeg {
	switch r.intn(6) {
	case 0:
		return jpegSeg{0xfe, r.bytes(r.intn(40))} // COM
	case 1: // DQT, one 8-bit table
		return jpegSeg{0xdb, append([]byte{byte(r.intn(4))}, bytes.Repeat([]byte{byte(1 + r.intn(200))}, 64)...)}
	case 2:
		return jpegSeg{0xdd, be16(uint16(r.intn(65536)))} // DRI
	case 3:
		if r.intn(2) == 0 {
			// APP2 that starts like an ICC chunk but is too short to be one (identifier alone, identifier + 1
			// byte), or carries another identifier of the same length
			switch r.intn(4) {
			case 0:
				return jpegSeg{0xe2, []byte("ICC_PROFILE\x00")}
			case 1:
				return jpegSeg{0xe2, append([]byte("ICC_PROFILE\x00"), byte(r.next()))}
			case 2:
				return jpegSeg{0xe2, []byte("ICC_PROFILE")}
			default:
				return jpegSeg{0xe2, append([]byte("ICC_PROFILF\x00\x01\x01"), r.bytes(r.intn(20))...)}
			}
		}
		return jpegSeg{0xe2, r.bytes(r.intn(30))} // APP2 that is not an ICC profile
	case 4:
		return jpegSeg{0xe1, append([]byte("Exif\x00\x00"), r.bytes(r.intn(100))...)}
	default:
		m := byte(0xe3 + r.intn(13)) // APP3..APP15
		return jpegSeg{m, r.bytes(r.intn(200))}
	}
}

func randJpegDesc(r *rng) *jpegDesc {
	d := &jpegDesc{progressive: r.intn(2) == 0, precision: 8, w: uint16(boundary32(r, 16)), h: uint16(boundary32(r, 16))}
	switch r.intn(3) {
	case 0:
		d.comps = [][3]byte{{1, 0x11, 0}}
	case 1:
		hv := []byte{0x11, 0x21, 0x22, 0x12}[r.intn(4)]
		d.comps = [][3]byte{{1, hv, 0}, {2, 0x11, 1}, {3, 0x11, 1}}
	default:
		d.comps = [][3]byte{{1, 0x11, 0}, {2, 0x11, 0}, {3, 0x11, 0}, {4, 0x11, 0}}
	}
	// a JFIF APP0 first in half the cases, as real files have
	if r.intn(2) == 0 {
		d.segsBefore = append(d.segsBefore, jpegSeg{0xe0, []byte("JFIF\x00\x01\x01\x00\x00\x01\x00\x01\x00\x00")})
	}
	for i := r.intn(4); i > 0; i-- {
		d.segsBefore = append(d.segsBefore, randJpegOther(r))
	}
	d.body = r.bytes(r.intn(40))
	for i := range d.body { // entropy-coded data never contains a bare marker
		if d.body[i] == 0xff {
			d.body[i] = 0xfe
		}
	}
	return d
}

// splitICC splits a profile into n chunks with the given sizes, numbered 1..n.
func splitICC(profile []byte, sizes []int) []jpegSeg {
	var segs []jpegSeg
	off := 0
	for i, sz := range sizes {
		segs = append(segs, iccApp2(byte(i+1), byte(len(sizes)), profile[off:off+sz]))
		off += sz
	}
	return segs
}

// ---------------------------------------------------------------------------------- WebP

type webpDesc struct {
	kind    string // "VP8", "VP8L", "VP8X"
	w, h    uint32 // true pixel dimensions
	icc     []byte // VP8X only: nil = no ICC flag
	noICCP  bool   // VP8X with the flag set but another chunk where ICCP should be
	body    []byte
	alpha   bool
	xscale  byte // VP8 only: 2-bit horizontal / vertical upscaling hints
	yscale  byte
	between []byte // not used by well-formed files
}

func riffChunk(fourcc string, data []byte) []byte {
	out := append([]byte(fourcc), le32(uint32(len(data)))...)
	out = append(out, data...)
	if len(data)%2 == 1 {
		out = append(out, 0)
	}
	return out
}

func vp8Header(w, h uint32, xscale, yscale byte) []byte {
	// frame tag: key frame (bit0 = 0), version 0, show_frame 1, first partition size 0;
	// each 16-bit word is 14 bits of dimension and 2 bits of upscaling hint
	return []byte{0x10, 0x00, 0x00, 0x9d, 0x01, 0x2a, byte(w), byte(w>>8&0x3f) | xscale<<6, byte(h), byte(h>>8&0x3f) | yscale<<6}
}

func vp8lHeader(w, h uint32, alpha bool) []byte {
	v := (w - 1) | (h-1)<<14
	if alpha {
		v |= 1 << 28
	}
	return []byte{0x2f, byte(v), byte(v >> 8), byte(v >> 16), byte(v >> 24)}
}

func (d *webpDesc) build() (all []byte, needed int) {
	var payload bytes.Buffer
	payload.WriteString("WEBP")
	switch d.kind {
	case "VP8":
		payload.Write(riffChunk("VP8 ", append(vp8Header(d.w, d.h, d.xscale, d.yscale), d.body...)))
		needed = 12 + 8 + 10
	case "VP8L":
		payload.Write(riffChunk("VP8L", append(vp8lHeader(d.w, d.h, d.alpha), d.body...)))
		needed = 12 + 8 + 5
	case "VP8X":
		flags := byte(0)
		if d.icc != nil || d.noICCP {
			flags |= 1 << 5
		}
		if d.alpha {
			flags |= 1 << 4
		}
		w1, h1 := d.w-1, d.h-1
		x := []byte{flags, 0, 0, 0, byte(w1), byte(w1 >> 8), byte(w1 >> 16), byte(h1), byte(h1 >> 8), byte(h1 >> 16)}
		payload.Write(riffChunk("VP8X", x))
		needed = 12 + 8 + 10
		if d.icc != nil {
			payload.Write(riffChunk("ICCP", d.icc))
			needed += 8 + len(d.icc)
		} else if d.noICCP {
			payload.Write(riffChunk("EXIF", []byte{1, 2, 3, 4}))
			needed += 8
		}
		if d.between != nil {
			payload.Write(d.between) // chunks of the extended format between the header part and the image data (ALPH, ANIM, EXIF, ...)
		}
		payload.Write(riffChunk("VP8L", append(vp8lHeader(d.w&0x3fff|1, d.h&0x3fff|1, d.alpha), d.body...)))
	}
	out := append([]byte("RIFF"), le32(uint32(payload.Len()))...)
	return append(out, payload.Bytes()...), needed
}

func randWebpDesc(r *rng, kind string, icc []byte) *webpDesc {
	d := &webpDesc{kind: kind, body: r.bytes(r.intn(40)), alpha: r.intn(2) == 0}
	switch kind {
	case "VP8":
		d.w, d.h = boundary32(r, 14), boundary32(r, 14)
		d.xscale, d.yscale = byte(r.intn(4)), byte(r.intn(4))
	case "VP8L":
		d.w, d.h = boundary32(r, 14), boundary32(r, 14)
		// the fields store the dimension minus one: the largest legal value is one more than the field's maximum
		if r.intn(5) == 0 {
			d.w = 1 << 14
		}
		if r.intn(5) == 0 {
			d.h = 1 << 14
		}
	default:
		d.w, d.h = boundary32(r, 24), boundary32(r, 24)
		if r.intn(5) == 0 {
			d.w = 1 << 24
		}
		if r.intn(5) == 0 {
			d.h = 1 << 24
		}
		d.icc = icc
	}
	return d
}

// ---------------------------------------------------------------------------------- ICC

type iccTag struct {
	sig  uint32
	data []byte
}

type iccDesc struct {
	header  [128]byte
	tags    []iccTag    // in table order
	layout  []int       // order in which tag data blocks are laid out (indices into tags)
	share   map[int]int // tag i shares the data block of tag j (same offset/size)
	padding []int       // bytes of padding after each laid-out block
}

func iccHeader(r *rng) [128]byte {
	var h [128]byte
	copy(h[:], r.bytes(128))
	copy(h[36:40], "acsp")
	// a valid date-time
	binary.BigEndian.PutUint16(h[24:], uint16(1990+r.intn(60)))
	binary.BigEndian.PutUint16(h[26:], uint16(1+r.intn(12)))
	binary.BigEndian.PutUint16(h[28:], uint16(1+r.intn(28)))
	binary.BigEndian.PutUint16(h[30:], uint16(r.intn(24)))
	binary.BigEndian.PutUint16(h[32:], uint16(r.intn(60)))
	binary.BigEndian.PutUint16(h[34:], uint16(r.intn(60)))
	return h
}

func (d *iccDesc) build() []byte {
	n := len(d.tags)
	tdo := 128 + 4 + 12*n
	offsets := make([]int, n)
	var data bytes.Buffer
	order := d.layout
	if order == nil {
		for i := 0; i < n; i++ {
			order = append(order, i)
		}
	}
	for k, i := range order {
		if _, shared := d.share[i]; shared {
			continue
		}
		offsets[i] = tdo + data.Len()
		data.Write(d.tags[i].data)
		pad := 0
		if k < len(d.padding) {
			pad = d.padding[k]
		}
		data.Write(make([]byte, pad))
	}
	for i, j := range d.share {
		offsets[i] = offsets[j]
	}
	var b bytes.Buffer
	h := d.header
	binary.BigEndian.PutUint32(h[0:], uint32(tdo+data.Len()))
	b.Write(h[:])
	b.Write(be32(uint32(n)))
	for i, t := range d.tags {
		sz := len(t.data)
		if j, ok := d.share[i]; ok {
			sz = len(d.tags[j].data)
		}
		b.Write(be32(t.sig))
		b.Write(be32(uint32(offsets[i])))
		b.Write(be32(uint32(sz)))
	}
	b.Write(data.Bytes())
	return b.Bytes()
}

func textDescTag(ascii []byte) []byte { return textDescTagFull(ascii, nil, nil) }

// textDescTagFull: a v2 textDescriptionType element with all three of its parts — the 7-bit ASCII
// description, the Unicode description (language code, count of UTF-16BE units including the
// terminator, units) and the Macintosh ScriptCode description (code, count, 67 bytes).
func textDescTagFull(ascii []byte, uni []uint16, script []byte) []byte {
	var b bytes.Buffer
	b.WriteString("desc")
	b.Write(be32(0))
	b.Write(be32(uint32(len(ascii) + 1)))
	b.Write(ascii)
	b.WriteByte(0)
	if len(uni) == 0 {
		b.Write(be32(0))
		b.Write(be32(0))
	} else {
		b.WriteString("enUS")
		b.Write(be32(uint32(len(uni) + 1)))
		b.Write(utf16be(uni))
		b.Write([]byte{0, 0})
	}
	sc := make([]byte, 67)
	n := copy(sc, script)
	if n > 0 && n < 67 {
		n++ // terminator counted
	}
	b.Write(be16(0))
	b.WriteByte(byte(n))
	b.Write(sc)
	return b.Bytes()
}

type mlucRec struct {
	lang, country [2]byte
	text          []uint16
}

func utf16be(u []uint16) []byte {
	b := make([]byte, 2*len(u))
	for i, x := range u {
		b[2*i] = byte(x >> 8)
		b[2*i+1] = byte(x)
	}
	return b
}

// mlucTag lays the strings out in the order given by strOrder (indices into recs);
// share[i]=j makes record i point at record j's string; overlap makes consecutive strings
// overlap by that many bytes (when possible).
func mlucTag(recs []mlucRec, strOrder []int, share map[int]int, recordSize int, gap int) []byte {
	n := len(recs)
	if recordSize < 12 {
		recordSize = 12
	}
	tableEnd := 16 + recordSize*n
	offs := make([]int, n)
	lens := make([]int, n)
	var strs bytes.Buffer
	if strOrder == nil {
		for i := 0; i < n; i++ {
			strOrder = append(strOrder, i)
		}
	}
	for _, i := range strOrder {
		if _, ok := share[i]; ok {
			continue
		}
		offs[i] = tableEnd + strs.Len()
		sb := utf16be(recs[i].text)
		lens[i] = len(sb)
		strs.Write(sb)
		strs.Write(make([]byte, gap))
	}
	for i, j := range share {
		// record i points at the start of record j's string; its own text is that string or a prefix of it
		offs[i], lens[i] = offs[j], len(utf16be(recs[i].text))
	}
	var b bytes.Buffer
	b.WriteString("mluc")
	b.Write(be32(0))
	b.Write(be32(uint32(n)))
	b.Write(be32(uint32(recordSize)))
	for i, rc := range recs {
		b.Write(rc.lang[:])
		b.Write(rc.country[:])
		b.Write(be32(uint32(lens[i])))
		b.Write(be32(uint32(offs[i])))
		b.Write(make([]byte, recordSize-12))
	}
	b.Write(strs.Bytes())
	return b.Bytes()
}

func randText(r *rng, n int) []uint16 {
	var runes []rune
	// one text in three is drawn from a single repertoire: plain ASCII, Latin-1 (every unit below U+0100, some
	// at or above U+0080: "Café Monitor 27°"), or one script — not a uniform mixture
	mode := r.intn(9)
	for i := 0; i < n; i++ {
		if mode == 0 {
			runes = append(runes, rune(0x20+r.intn(0x5f)))
			continue
		}
		if mode == 1 {
			if i == 0 || r.intn(4) == 0 {
				runes = append(runes, rune(0xa0+r.intn(0x60)))
			} else {
				runes = append(runes, rune(0x20+r.intn(0x5f)))
			}
			continue
		}
		if mode == 2 {
			runes = append(runes, rune(0x80+r.intn(0x80)))
			continue
		}
		switch r.intn(4) {
		case 0:
			runes = append(runes, rune(0x20+r.intn(0x5f)))
		case 1:
			runes = append(runes, rune(0xa0+r.intn(0x2000)))
		case 2:
			runes = append(runes, rune(0x4e00+r.intn(0x5000)))
		default:
			runes = append(runes, rune(0x10000+r.intn(0xfffff)))
		}
	}
	// code points a decoder may be tempted to treat specially (byte order mark / zero width no-break space, its
	// byte-swapped twin, the replacement character, invisible formatting characters): first, last or in the middle
	if len(runes) > 0 && r.intn(5) == 0 {
		sp := []rune{0xfeff, 0xfffe, 0xfffd, 0x200b, 0x00ad, 0xfeff}[r.intn(6)]
		switch r.intn(3) {
		case 0:
			runes[0] = sp
		case 1:
			runes[len(runes)-1] = sp
		default:
			runes[r.intn(len(runes))] = sp
		}
	}
	return utf16.Encode(runes)
}

var iccOtherSigs = []uint32{0x63707274, 0x77747074, 0x7258595A, 0x6758595A, 0x6258595A, 0x72545243, 0x67545243, 0x62545243, 0x63686164, 0x646D6E64, 0x646D6464, 0x6C756D69, 0x74656368, 0x76756564, 0x76696577, 0x6D656173}

// randIccDesc builds a well-formed profile; returns it and the admissible descriptions
// (UTF-8), or nil when it has no description tag.
func randIccDesc(r *rng, maxTags int) (*iccDesc, [][]byte) {
	d := &iccDesc{header: iccHeader(r), share: map[int]int{}}
	var want [][]byte
	ntags := r.intn(maxTags + 1)
	descAt := -1
	if ntags > 0 && r.intn(8) != 0 {
		descAt = r.intn(ntags)
	}
	used := map[uint32]bool{0x64657363: true}
	for i := 0; i < ntags; i++ {
		if i == descAt {
			if r.intn(2) == 0 {
				n := r.intn(40)
				if r.intn(6) == 0 {
					n = r.intn(2001)
				}
				if r.intn(6) == 0 {
					n = 0 // an empty ASCII part (profiles whose name is given in the other parts only)
				}
				ascii := make([]byte, n)
				for k := range ascii {
					ascii[k] = byte(0x20 + r.intn(0x5f))
				}
				// half of the v2 descriptions carry the Unicode and ScriptCode parts as well, with other text
				var uni []uint16
				var script []byte
				if r.intn(2) == 0 {
					uni = randText(r, 1+r.intn(30))
					if r.intn(2) == 0 {
						script = []byte("Mac script name")[:1+r.intn(15)]
					}
				}
				d.tags = append(d.tags, iccTag{0x64657363, textDescTagFull(ascii, uni, script)})
				want = [][]byte{ascii}
			} else {
				nrec := 1 + r.intn(5)
				if r.intn(6) == 0 {
					nrec = 1 + r.intn(40)
				}
				recs := make([]mlucRec, nrec)
				seen := map[[4]byte]bool{}
				hasEn := r.intn(3) != 0
				for k := range recs {
					for {
						l := [2]byte{byte('a' + r.intn(26)), byte('a' + r.intn(26))}
						if r.intn(2) == 0 {
							// languages real profiles carry (and process locales name)
							cl := []string{"de", "fr", "ja", "es", "zh", "it", "ko", "pt", "nl", "ru", "sv", "da"}[r.intn(12)]
							l = [2]byte{cl[0], cl[1]}
						}
						if l == [2]byte{'e', 'n'} {
							continue
						}
						c := [2]byte{byte('A' + r.intn(26)), byte('A' + r.intn(26))}
						key := [4]byte{l[0], l[1], c[0], c[1]}
						if !seen[key] {
							seen[key] = true
							recs[k].lang, recs[k].country = l, c
							break
						}
					}
					n := 1 + r.intn(30)
					if r.intn(10) == 0 {
						n = r.intn(2001)
					}
					recs[k].text = randText(r, n)
				}
				if hasEn {
					recs[r.intn(nrec)].lang = [2]byte{'e', 'n'}
				}
				var order []int
				switch r.intn(3) {
				case 0: // table order
				case 1: // reverse
					for k := nrec - 1; k >= 0; k-- {
						order = append(order, k)
					}
				default: // shuffled
					for k := 0; k < nrec; k++ {
						order = append(order, k)
					}
					for k := nrec - 1; k > 0; k-- {
						j := r.intn(k + 1)
						order[k], order[j] = order[j], order[k]
					}
				}
				share := map[int]int{}
				if nrec > 1 && r.intn(3) == 0 {
					a, b := r.intn(nrec), r.intn(nrec)
					if a != b {
						if _, ok := share[b]; !ok {
							share[a] = b
						}
					}
				}
				for i, j := range share {
					recs[i].text = recs[j].text
					if r.intn(2) == 0 && len(recs[j].text) > 1 {
						// the same start, a shorter length: a prefix (cut between code points)
						k := 1 + r.intn(len(recs[j].text)-1)
						if u := recs[j].text[k-1]; u >= 0xd800 && u < 0xdc00 {
							k--
						}
						if k > 0 {
							recs[i].text = recs[j].text[:k]
						}
					}
				}
				recSize := 12
				if r.intn(5) == 0 {
					recSize = 12 + r.intn(8)
				}
				d.tags = append(d.tags, iccTag{0x64657363, mlucTag(recs, order, share, recSize, r.intn(3))})
				var en, all [][]byte
				for _, rc := range recs {
					s := []byte(string(utf16.Decode(rc.text)))
					all = append(all, s)
					if rc.lang == [2]byte{'e', 'n'} {
						en = append(en, s)
					}
				}
				nonEmptyEn := false
				for _, s := range en {
					if len(s) > 0 {
						nonEmptyEn = true
					}
				}
				if nonEmptyEn {
					want = en
				} else {
					want = all
				}
			}
			continue
		}
		var sig uint32
		for {
			sig = iccOtherSigs[r.intn(len(iccOtherSigs))]
			if r.intn(4) == 0 {
				sig = uint32(r.next()) | 0x20202020
			}
			if !used[sig] {
				used[sig] = true
				break
			}
		}
		d.tags = append(d.tags, iccTag{sig, r.bytes(4 * (1 + r.intn(30)))})
	}
	// layout: table order, reverse, or shuffled; sharing; padding 0-3
	n := len(d.tags)
	switch r.intn(3) {
	case 1:
		for k := n - 1; k >= 0; k-- {
			d.layout = append(d.layout, k)
		}
	case 2:
		for k := 0; k < n; k++ {
			d.layout = append(d.layout, k)
		}
		for k := n - 1; k > 0; k-- {
			j := r.intn(k + 1)
			d.layout[k], d.layout[j] = d.layout[j], d.layout[k]
		}
	}
	if n > 2 && r.intn(3) == 0 {
		a, b := r.intn(n), r.intn(n)
		if a != b && a != descAt && b != descAt {
			d.share[a] = b
		}
	}
	if n > 1 && descAt >= 0 && r.intn(3) == 0 {
		// another tag (listed before or after it in the table) shares the description's data block
		a := r.intn(n)
		_, already := d.share[a]
		for _, tgt := range d.share {
			if tgt == a {
				already = true // no chains: a is itself the owner of a shared block
			}
		}
		if a != descAt && !already {
			d.share[a] = descAt
		}
	}
	for k := 0; k < n; k++ {
		d.padding = append(d.padding, r.intn(4))
	}
	return d, want
}
