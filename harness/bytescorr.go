package main

import (
	"bufio"
	"bytes"
	"compress/zlib"
	"encoding/hex"
	"encoding/json"
	"fmt"
	"io"
	"os"
	"os/exec"
	"strings"

	"github.com/mandykoh/prism/meta"
	"github.com/mandykoh/prism/meta/autometa"
	"github.com/mandykoh/prism/meta/jpegmeta"
	"github.com/mandykoh/prism/meta/pngmeta"
	"github.com/mandykoh/prism/meta/webpmeta"
)

type loaderFn func(io.Reader) (*meta.Data, io.Reader, error)

var loaders = map[string]loaderFn{"png": pngmeta.Load, "jpeg": jpegmeta.Load, "webp": webpmeta.Load, "auto": autometa.Load}
var loaderNames = []string{"png", "jpeg", "webp", "auto"}

func hexs(b []byte) string {
	if len(b) == 0 {
		return "-"
	}
	return hex.EncodeToString(b)
}

func fnvBytes(b []byte) uint64 {
	h := uint64(0xcbf29ce484222325)
	for _, x := range b {
		h ^= uint64(x)
		h *= 0x100000001b3
	}
	return h
}

func bytesDigest(b []byte) string {
	if len(b) <= 24 {
		return hexs(b)
	}
	return fmt.Sprintf("%d:%016x", len(b), fnvBytes(b))
}

// safeLoad runs a loader; a panic escaping it is reported, not propagated.
func safeLoad(f loaderFn, r io.Reader) (md *meta.Data, rest io.Reader, err error, panicked interface{}) {
	defer func() {
		if p := recover(); p != nil {
			panicked = p
		}
	}()
	md, rest, err = f(r)
	return
}

func metaOut(md *meta.Data, err error, panicked interface{}) string {
	if panicked != nil {
		return "panic-escaped"
	}
	if err != nil {
		return "err"
	}
	if md == nil {
		return "nil-metadata"
	}
	data, ierr := md.ICCProfileData()
	icc := "none"
	if ierr != nil {
		icc = "err"
	} else if data != nil {
		icc = "data:" + bytesDigest(data)
	}
	return fmt.Sprintf("ok %s %d %d %d icc=%s", md.Format, md.PixelWidth, md.PixelHeight, md.BitsPerComponent, icc)
}

// ---- the model driver as a subprocess (used only to resolve zlib payloads) ---------------

type driverProc struct {
	cmd *exec.Cmd
	in  *bufio.Writer
	out *bufio.Reader
}

var theDriver *driverProc

func driver() *driverProc {
	if theDriver != nil {
		return theDriver
	}
	path := os.Getenv("PV_DRIVER")
	if path == "" {
		path = "/verif/lean/.lake/build/bin/driver"
	}
	cmd := exec.Command(path)
	stdin, _ := cmd.StdinPipe()
	stdout, _ := cmd.StdoutPipe()
	cmd.Stderr = os.Stderr
	if err := cmd.Start(); err != nil {
		fmt.Fprintln(os.Stderr, "cannot start model driver:", err)
		os.Exit(2)
	}
	theDriver = &driverProc{cmd, bufio.NewWriterSize(stdin, 1<<20), bufio.NewReaderSize(stdout, 1<<20)}
	return theDriver
}

func (d *driverProc) ask(line string) string {
	d.in.WriteString(line)
	d.in.WriteByte('\n')
	d.in.Flush()
	s, err := d.out.ReadString('\n')
	if err != nil {
		fmt.Fprintln(os.Stderr, "model driver died:", err)
		os.Exit(2)
	}
	return strings.TrimRight(s, "\n")
}

func goInflate(z []byte) (string, []byte) {
	zr, err := zlib.NewReader(bytes.NewReader(z))
	if err != nil {
		return "err", nil
	}
	var out bytes.Buffer
	_, err = io.Copy(&out, zr)
	zr.Close()
	if err != nil {
		return "err", nil
	}
	return "ok", out.Bytes()
}

// pngOracle asks the model which payloads its PNG extractor hands to zlib on this input and
// answers each with Go's compress/zlib; returns the oracle tokens for the protocol line.
func pngOracle(data []byte) string {
	if !bytes.Contains(data, []byte("iCCP")) {
		return ""
	}
	oracle := ""
	dh := hexs(data)
	for i := 0; i < 32; i++ {
		ans := driver().ask("pngneed " + dh + oracle)
		if !strings.HasPrefix(ans, "need ") {
			break
		}
		zh := strings.TrimPrefix(ans, "need ")
		var z []byte
		if zh != "-" {
			z, _ = hex.DecodeString(zh)
		}
		st, out := goInflate(z)
		oracle += " " + zh + " " + st + " " + hexs(out)
	}
	return oracle
}

// emitLoad records one "load" case: the real loader's answer and the op for the model.
func emitLoad(c *corrCtx, class, name string, data []byte) string {
	md, _, err, p := safeLoad(loaders[name], bytes.NewReader(data))
	out := metaOut(md, err, p)
	retainCheck(c, name, md, len(data))
	oracle := ""
	if name == "png" || name == "auto" {
		oracle = pngOracle(data)
	}
	c.emit(class, "load "+name+" eof "+hexs(data)+oracle, out)
	return out
}

func (c *corrCtx) direct(key, what string, fields map[string]interface{}) {
	m := map[string]interface{}{"key": key, "what": what}
	for k, v := range fields {
		// values JSON cannot carry (NaN, infinities, channels, ...) are recorded as text
		if _, err := json.Marshal(v); err != nil {
			v = fmt.Sprintf("%v", v)
		}
		m[k] = v
	}
	lst, _ := c.extra["direct"].([]interface{})
	if len(lst) < 20 {
		c.extra["direct"] = append(lst, m)
	}
	n, _ := c.extra["direct_count"].(int)
	c.extra["direct_count"] = n + 1
}

// ---- results stay what they were ----------------------------------------------------------
// The ICC bytes a loader returned are the caller's: they must still be the same bytes after any
// number of later loads.  The last few results are kept and re-hashed after every load.

type retainedICC struct {
	md      *meta.Data
	sum     uint64
	n       int
	loader  string
	fileLen int
	seq     int
}

var retained []retainedICC
var retainSeq int

func retainCheck(c *corrCtx, loader string, md *meta.Data, fileLen int) {
	retainSeq++
	for _, e := range retained {
		d, err := e.md.ICCProfileData()
		if err != nil || len(d) != e.n || fnvBytes(d) != e.sum {
			c.direct(fmt.Sprintf("%s/retained/%s/len%d", c.id, e.loader, e.n), "ICC bytes returned by an earlier load changed after a later load (the result aliases recycled storage)",
				map[string]interface{}{"loader": e.loader, "profile_len": e.n, "file_len": e.fileLen, "loads_later": retainSeq - e.seq, "later_loader": loader, "later_file_len": fileLen})
		}
	}
	if md == nil {
		return
	}
	d, err := md.ICCProfileData()
	if err != nil || len(d) == 0 {
		return
	}
	retained = append(retained, retainedICC{md, fnvBytes(d), len(d), loader, fileLen, retainSeq})
	if len(retained) > 5 {
		retained = retained[1:]
	}
}
