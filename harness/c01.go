package main

import (
	"fmt"
	"image/color"
	"math"
)

func init() { corrFuncs["C01"] = corrC01; corrFuncs["SF"] = func(c *corrCtx) { sfCross(c, 20000) } }

func sentinel8(ch int) uint8   { return []uint8{0x33, 0x77, 0xc4}[ch] }
func sentinel16(ch int) uint16 { return []uint16{0x3355, 0x7711, 0xc4d2}[ch] }

// c01Case evaluates one decode entry point of the real code on one code value.
func c01Case(s *space, entry string, ch int, c int) []uint64 {
	set8 := func() (r, g, b uint8) {
		v := [3]uint8{sentinel8(0), sentinel8(1), sentinel8(2)}
		v[ch] = uint8(c)
		return v[0], v[1], v[2]
	}
	set16 := func() (r, g, b uint16) {
		v := [3]uint16{sentinel16(0), sentinel16(1), sentinel16(2)}
		v[ch] = uint16(c)
		return v[0], v[1], v[2]
	}
	switch entry {
	case "from8":
		return []uint64{f32bits(s.from8(uint8(c)))}
	case "from16":
		return []uint64{f32bits(s.from16(uint16(c)))}
	case "nrgba":
		r, g, b := set8()
		l, a := s.fromNRGBA(color.NRGBA{R: r, G: g, B: b, A: 255})
		return []uint64{f32bits(l[0]), f32bits(l[1]), f32bits(l[2]), f32bits(a)}
	case "rgba":
		r, g, b := set8()
		l, a := s.fromRGBA(color.RGBA{R: r, G: g, B: b, A: 255})
		return []uint64{f32bits(l[0]), f32bits(l[1]), f32bits(l[2]), f32bits(a)}
	case "enc":
		r, g, b := set16()
		l, a := s.fromEnc(color.RGBA64{R: r, G: g, B: b, A: 0xffff})
		return []uint64{f32bits(l[0]), f32bits(l[1]), f32bits(l[2]), f32bits(a)}
	case "lin":
		r, g, b := set16()
		p := s.linearise(color.RGBA64{R: r, G: g, B: b, A: 0xffff})
		return []uint64{uint64(p.R), uint64(p.G), uint64(p.B), uint64(p.A)}
	}
	return nil
}

// corrC01: exhaustive over every code, space, decode entry point and channel (both tiers —
// the property's quantifier is finite), compared per 256-code block by hash.
func corrC01(c *corrCtx) {
	sfCross(c, 4000)
	type ent struct {
		name  string
		max   int
		chans int
	}
	ents := []ent{{"from8", 256, 1}, {"from16", 65536, 1}, {"nrgba", 256, 3}, {"rgba", 256, 3}, {"enc", 65536, 3}, {"lin", 65536, 3}}
	cases := 0
	for i := range spaces {
		s := &spaces[i]
		for _, e := range ents {
			for ch := 0; ch < e.chans; ch++ {
				for lo := 0; lo < e.max; lo += 256 {
					h := newFnv()
					for code := lo; code < lo+256; code++ {
						for _, w := range c01Case(s, e.name, ch, code) {
							h.word(w)
						}
						cases++
					}
					c.emit("c01/"+e.name, fmt.Sprintf("c01 %s %s %x %x %x", s.name, e.name, ch, lo, lo+256), fmt.Sprintf("%016x", h.h))
				}
			}
		}
	}
	// every dynamic colour type through the generic constructors (opaque colours)
	typedColourCases(c, "C01", true, 300)
	c.extra["codes_evaluated"] = cases
	c.extra["exhaustive"] = true
}

// sfCross cross-checks the Lean softfloat against this machine's IEEE-754 arithmetic.
func sfCross(c *corrCtx, n int) {
	r := c.rng
	special32 := []uint32{0, 0x80000000, 0x3f800000, 0xbf800000, 0x7f800000, 0xff800000, 0x7fc00000, 1, 0x007fffff, 0x00800000, 0x7f7fffff, 0x3f000000, 0x477fff00, 0x437f0000, 0x43ff8000, 0x33800000, 0x34000000}
	special64 := []uint64{0, 1 << 63, 0x3ff0000000000000, 0xbff0000000000000, 0x7ff0000000000000, 0xfff0000000000000, 0x7ff8000000000000, 1, 0x000fffffffffffff, 0x0010000000000000, 0x7fefffffffffffff}
	rnd32 := func() uint32 {
		switch r.intn(6) {
		case 0:
			return special32[r.intn(len(special32))]
		case 1: // near 1
			return 0x3f800000 + uint32(r.intn(64)) - 32
		case 2: // [0,1] uniform-ish in exponent
			return uint32(r.intn(0x3f800000))
		case 3: // subnormal / tiny
			return uint32(r.intn(0x01000000))
		default:
			return uint32(r.next())
		}
	}
	rnd64 := func() uint64 {
		switch r.intn(5) {
		case 0:
			return special64[r.intn(len(special64))]
		case 1:
			return 0x3ff0000000000000 + uint64(r.intn(64)) - 32
		case 2:
			return uint64(r.next()) % 0x4010000000000000
		case 3:
			return uint64(r.next()) % 0x0020000000000000
		default:
			return r.next()
		}
	}
	b2s := func(b bool) string {
		if b {
			return "1"
		}
		return "0"
	}
	canon32 := func(x float32) uint32 {
		if x != x {
			return 0x7fc00000
		}
		return math.Float32bits(x)
	}
	canon64 := func(x float64) uint64 {
		if x != x {
			return 0x7ff8000000000000
		}
		return math.Float64bits(x)
	}
	ops := []string{"add", "sub", "mul", "div", "lt", "le", "eq"}
	for i := 0; i < n; i++ {
		op := ops[r.intn(len(ops))]
		switch r.intn(5) {
		case 0, 1:
			a, b := rnd32(), rnd32()
			x, y := math.Float32frombits(a), math.Float32frombits(b)
			var out string
			switch op {
			case "add":
				out = fmt.Sprintf("%08x", canon32(x+y))
			case "sub":
				out = fmt.Sprintf("%08x", canon32(x-y))
			case "mul":
				out = fmt.Sprintf("%08x", canon32(x*y))
			case "div":
				out = fmt.Sprintf("%08x", canon32(x/y))
			case "lt":
				out = b2s(x < y)
			case "le":
				out = b2s(x <= y)
			case "eq":
				out = b2s(x == y)
			}
			c.emit("sf/32/"+op, fmt.Sprintf("sf 32 %s %08x %08x", op, a, b), out)
		case 2, 3:
			a, b := rnd64(), rnd64()
			x, y := math.Float64frombits(a), math.Float64frombits(b)
			var out string
			switch op {
			case "add":
				out = fmt.Sprintf("%016x", canon64(x+y))
			case "sub":
				out = fmt.Sprintf("%016x", canon64(x-y))
			case "mul":
				out = fmt.Sprintf("%016x", canon64(x*y))
			case "div":
				out = fmt.Sprintf("%016x", canon64(x/y))
			case "lt":
				out = b2s(x < y)
			case "le":
				out = b2s(x <= y)
			case "eq":
				out = b2s(x == y)
			}
			c.emit("sf/64/"+op, fmt.Sprintf("sf 64 %s %016x %016x", op, a, b), out)
		default:
			switch r.intn(3) {
			case 0:
				a := rnd32()
				c.emit("sf/cvt", fmt.Sprintf("sfcvt 32to64 %08x", a), fmt.Sprintf("%016x", canon64(float64(math.Float32frombits(a)))))
			case 1:
				a := rnd64()
				c.emit("sf/cvt", fmt.Sprintf("sfcvt 64to32 %016x", a), fmt.Sprintf("%08x", canon32(float32(math.Float64frombits(a)))))
			default:
				k := r.next() >> uint(r.intn(64))
				c.emit("sf/ofnat", fmt.Sprintf("sfofnat 32 %x", k), fmt.Sprintf("%08x", canon32(float32(k))))
			}
		}
	}
}
