package main

import (
	"fmt"
	"image/color"
	"math"
)

func init() { searchFuncs["C01"] = searchC01 }

func eotfRef(space string, v float64) float64 {
	switch space {
	case "srgb", "p3":
		if v <= 0.04045 {
			return v / 12.92
		}
		return math.Pow((v+0.055)/1.055, 2.4)
	case "adobe":
		return math.Pow(v, 563.0/256)
	case "prophoto":
		if v < 16.0/512 {
			return v / 16
		}
		return math.Pow(v, 1.8)
	}
	return math.NaN()
}

// searchC01 evaluates C01's own statement on the real code, exhaustively (finite domain):
// accuracy against a float64 reference of the published curve, end points, strict
// monotonicity, 8-bit = 16-bit at 257v, and every colour-constructor entry point.
func searchC01(args []string) int {
	const tol = 3e-7 + 1e-12
	for i := range spaces {
		s := &spaces[i]
		prev := float32(-1)
		for c := 0; c < 65536; c++ {
			got := s.from16(uint16(c))
			want := eotfRef(s.name, float64(c)/65535)
			if !(math.Abs(float64(got)-want) <= tol) {
				witness(fmt.Sprintf("C01/%s/from16/%d", s.name, c), "16-bit decode differs from the published EOTF by more than 3e-7",
					map[string]interface{}{"space": s.name, "code": c, "got": got, "got_bits": fmt.Sprintf("%08x", f32bits(got)), "want": want})
				return 0
			}
			if !(got > prev) {
				witness(fmt.Sprintf("C01/%s/mono16/%d", s.name, c), "16-bit decode is not strictly increasing", map[string]interface{}{"space": s.name, "code": c, "got": got, "prev": prev})
				return 0
			}
			prev = got
		}
		if s.from16(0) != 0 || s.from16(65535) != 1 || s.from8(0) != 0 || s.from8(255) != 1 {
			witness(fmt.Sprintf("C01/%s/endpoints", s.name), "end points are not exactly 0 and 1", map[string]interface{}{"space": s.name,
				"from16(0)": s.from16(0), "from16(65535)": s.from16(65535), "from8(0)": s.from8(0), "from8(255)": s.from8(255)})
			return 0
		}
		for v := 0; v < 256; v++ {
			got := s.from8(uint8(v))
			if got != s.from16(uint16(257*v)) {
				witness(fmt.Sprintf("C01/%s/8eq16/%d", s.name, v), "8-bit decode differs from 16-bit decode of 257*v", map[string]interface{}{"space": s.name, "code": v, "got8": got, "got16": s.from16(uint16(257 * v))})
				return 0
			}
			want := eotfRef(s.name, float64(v)/255)
			if !(math.Abs(float64(got)-want) <= tol) {
				witness(fmt.Sprintf("C01/%s/from8/%d", s.name, v), "8-bit decode differs from the published EOTF by more than 3e-7", map[string]interface{}{"space": s.name, "code": v, "got": got, "want": want})
				return 0
			}
		}
		// entry points on opaque colours, each channel
		for ch := 0; ch < 3; ch++ {
			for v := 0; v < 256; v++ {
				px := [3]uint8{sentinel8(0), sentinel8(1), sentinel8(2)}
				px[ch] = uint8(v)
				for _, e := range []string{"nrgba", "rgba"} {
					var l [3]float32
					var a float32
					if e == "nrgba" {
						l, a = s.fromNRGBA(color.NRGBA{R: px[0], G: px[1], B: px[2], A: 255})
					} else {
						l, a = s.fromRGBA(color.RGBA{R: px[0], G: px[1], B: px[2], A: 255})
					}
					for k := 0; k < 3; k++ {
						want := eotfRef(s.name, float64(px[k])/255)
						if !(math.Abs(float64(l[k])-want) <= tol) || a != 1 {
							witness(fmt.Sprintf("C01/%s/%s/ch%d/%d", s.name, e, ch, v), "colour constructor on an opaque colour differs from the published EOTF",
								map[string]interface{}{"space": s.name, "entry": e, "pixel": px, "channel": k, "got": l[k], "want": want, "alpha": a})
							return 0
						}
					}
				}
			}
			for v := 0; v < 65536; v++ {
				px := [3]uint16{sentinel16(0), sentinel16(1), sentinel16(2)}
				px[ch] = uint16(v)
				l, a := s.fromEnc(color.RGBA64{R: px[0], G: px[1], B: px[2], A: 0xffff})
				lin := s.linearise(color.RGBA64{R: px[0], G: px[1], B: px[2], A: 0xffff})
				lv := [3]uint16{lin.R, lin.G, lin.B}
				for k := 0; k < 3; k++ {
					want := eotfRef(s.name, float64(px[k])/65535)
					if !(math.Abs(float64(l[k])-want) <= tol) || a != 1 {
						witness(fmt.Sprintf("C01/%s/enc/ch%d/%d", s.name, ch, v), "ColorFromEncodedColor on an opaque colour differs from the published EOTF",
							map[string]interface{}{"space": s.name, "pixel": px, "channel": k, "got": l[k], "want": want, "alpha": a})
						return 0
					}
					if math.Abs(float64(lv[k])-want*65535) > 0.5+0.03 || lin.A != 0xffff {
						witness(fmt.Sprintf("C01/%s/lin/ch%d/%d", s.name, ch, v), "LineariseColor on an opaque colour is not the rounded published EOTF",
							map[string]interface{}{"space": s.name, "pixel": px, "channel": k, "got": lv[k], "want": want * 65535, "alpha": lin.A})
						return 0
					}
				}
			}
		}
	}
	return 0
}
