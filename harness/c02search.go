package main

import (
	"fmt"
	"math"
	"runtime"
	"sync"
)

func init() { searchFuncs["C02"] = searchC02 }

// searchC02 evaluates C02's own statement on the real code over every float32 bit pattern of
// every encoder: no panic; x <= 0 -> 0; x >= 1 -> max; NaN -> no panic; never decreasing over the
// ordered non-negative floats; and, inside [0,1], within half a code of the published OETF
// evaluated somewhere within half a table step of x (with the same allowances as the
// correspondence run's per-entry oracle).
func searchC02(args []string) int {
	fns := encFns()
	type hit struct {
		key, what string
		f         map[string]interface{}
	}
	for _, fn := range fns {
		nw := runtime.NumCPU()
		hits := make([]*hit, nw)
		var wg sync.WaitGroup
		N, etaP := float64(fn.max), 1.0/64
		if fn.name == "to8" {
			N, etaP = 511, 1.0/1024
		}
		if fn.max == 255 || fn.max == 511 {
			etaP = 1.0 / 1024
		}
		const eta = 1.0 / (1 << 20)
		curve := fn.space
		if fn.name[0] == 'q' {
			curve = "" // plain quantiser: identity curve
		}
		ref := func(v float64) float64 {
			if curve == "" {
				return math.Max(0, math.Min(1, v))
			}
			return oetfRef(curve, v)
		}
		for w := 0; w < nw; w++ {
			wg.Add(1)
			go func(w int) {
				defer wg.Done()
				const top = 0x7f800000 // +Inf
				lo := uint32(uint64(top+1) * uint64(w) / uint64(nw))
				hi := uint32(uint64(top+1)*uint64(w+1)/uint64(nw)) - 1
				start := lo
				if start > 0 {
					start-- // overlap by one so that adjacent pairs across workers are compared
				}
				prev := -1
				for b := start; b <= hi; b++ {
					x := bf(b)
					v, p := safeEnc(fn.f, x)
					var h *hit
					switch {
					case p:
						h = &hit{fmt.Sprintf("C02/panic/%s/%s/%08x", fn.name, fn.space, b), "encoder panics", nil}
					case v < prev:
						h = &hit{fmt.Sprintf("C02/mono/%s/%s/%08x", fn.name, fn.space, b), "encoder result decreases as x increases", map[string]interface{}{"prev_bits": fmt.Sprintf("%08x", b-1), "prev": prev}}
					case x >= 1 && v != fn.max, b == 0 && v != 0:
						h = &hit{fmt.Sprintf("C02/clip/%s/%s/%08x", fn.name, fn.space, b), "out-of-range input is not clipped to 0 / max", nil}
					case x > 0 && x < 1:
						step := 0.5 * (1 + eta) / N
						lo := float64(fn.max)*ref(float64(x)-step) - 0.5 - etaP
						hi := float64(fn.max)*ref(float64(x)+step) + 0.5 + etaP
						if float64(v) < lo || float64(v) > hi {
							h = &hit{fmt.Sprintf("C02/accuracy/%s/%s/%08x", fn.name, fn.space, b), "encoded value is not within half a code of the published OETF within half a table step of x", map[string]interface{}{"lo": lo, "hi": hi}}
						}
					}
					if h != nil && hits[w] == nil {
						if h.f == nil {
							h.f = map[string]interface{}{}
						}
						h.f["fn"], h.f["space"], h.f["bits"], h.f["x"], h.f["got"] = fn.name, fn.space, fmt.Sprintf("%08x", b), x, v
						hits[w] = h
						return
					}
					prev = v
					// negative twin and NaNs: same mantissa/exponent with the sign set
					if nv, np := safeEnc(fn.f, bf(b|0x80000000)); np || nv != 0 {
						hits[w] = &hit{fmt.Sprintf("C02/clip/%s/%s/%08x", fn.name, fn.space, b|0x80000000), "a negative input does not encode to 0 (or panics)",
							map[string]interface{}{"fn": fn.name, "space": fn.space, "bits": fmt.Sprintf("%08x", b|0x80000000), "got": nv, "panicked": np}}
						return
					}
					if b == hi {
						break
					}
				}
			}(w)
		}
		wg.Wait()
		// NaN patterns (positive and negative): must not panic
		for _, b := range []uint32{0x7f800001, 0x7fc00000, 0x7fffffff, 0xff800001, 0xffc00000, 0xffffffff} {
			if _, p := safeEnc(fn.f, bf(b)); p {
				witness(fmt.Sprintf("C02/panic/%s/%s/%08x", fn.name, fn.space, b), "encoder panics on NaN", map[string]interface{}{"fn": fn.name, "space": fn.space, "bits": fmt.Sprintf("%08x", b)})
				return 0
			}
		}
		for _, h := range hits {
			if h != nil {
				witness(h.key, h.what, h.f)
				return 0
			}
		}
	}
	return 0
}
