package main

import (
	"bytes"
	"fmt"
	"image"
	_ "image/jpeg"
	_ "image/png"
	"os"
	"path/filepath"

	_ "golang.org/x/image/webp"
)

func init() { corrFuncs["C05"] = corrC05 }

// c05Case: one well-formed file with known header values. Runs the format loader and the
// auto loader (model vs implementation through emitLoad) and evaluates the property's own
// oracle on the real code: header values, and what the standard decoders' DecodeConfig says.
func c05Case(c *corrCtx, class, format string, data []byte, w, h, depth uint32, useDecodeConfig bool) {
	wantFmt := map[string]string{"png": "PNG", "jpeg": "JPEG", "webp": "WebP"}[format]
	for _, ld := range []string{format, "auto"} {
		out := emitLoad(c, class+"/"+ld, ld, data)
		prefix := fmt.Sprintf("ok %s %d %d %d ", wantFmt, w, h, depth)
		if len(out) < len(prefix) || out[:len(prefix)] != prefix {
			c.direct(fmt.Sprintf("C05/%s/%s/%dx%d/%d", class, ld, w, h, depth), "loader does not report the header's width/height/depth/format",
				map[string]interface{}{"loader": ld, "want": prefix, "got": out, "file_hex": hexs(trunc(data, 256))})
		}
	}
	// the same image stored behind other bytes in a seekable source (a container file, the second image
	// of a file) with the reader positioned at the image: every fifth case
	c05Turn++
	if c05Turn%5 == 0 {
		for _, k := range []int{1, 16, 4096} {
			var pre []byte
			if k == 4096 {
				pre = append(append(pre, data...), make([]byte, 4096)...)[:4096] // another image first
			} else {
				pre = c.rng.bytes(k)
			}
			all := append(append([]byte{}, pre...), data...)
			for _, ld := range []string{format, "auto"} {
				src := bytes.NewReader(all)
				src.Seek(int64(len(pre)), 0)
				md, _, err, p := safeLoad(loaders[ld], src)
				got := metaOut(md, err, p)
				prefix := fmt.Sprintf("ok %s %d %d %d ", wantFmt, w, h, depth)
				if len(got) < len(prefix) || got[:len(prefix)] != prefix {
					c.direct(fmt.Sprintf("C05/%s/%s/seekable-offset%d", class, ld, len(pre)), "loader does not report the header values of the image a seekable source is positioned at",
						map[string]interface{}{"loader": ld, "start_offset": len(pre), "want": prefix, "got": got, "file_hex": hexs(trunc(data, 128))})
				}
			}
		}
	}
	if useDecodeConfig {
		cfg, name, err := image.DecodeConfig(bytes.NewReader(data))
		c.stats["decodeconfig/"+format]++
		if err != nil {
			// our builder must produce what a real decoder accepts; not a property failure
			c.stats["decodeconfig-rejected/"+format]++
			if _, ok := c.extra["decodeconfig_rejected_example"]; !ok {
				c.extra["decodeconfig_rejected_example"] = fmt.Sprintf("%s %v %s", class, err, hexs(trunc(data, 128)))
			}
		} else if uint32(cfg.Width) != w || uint32(cfg.Height) != h || name != format {
			c.direct(fmt.Sprintf("C05/decodeconfig/%s/%dx%d", class, w, h), "builder and DecodeConfig disagree (harness defect or decoder limit)",
				map[string]interface{}{"cfg": fmt.Sprint(cfg.Width, cfg.Height, name), "want": fmt.Sprint(w, h, format)})
		}
	}
}

var c05Turn int

func trunc(b []byte, n int) []byte {
	if len(b) > n {
		return b[:n]
	}
	return b
}

func corrC05(c *corrCtx) {
	r := c.rng
	n := 150
	if c.thorough() {
		n = 1500
	}
	// PNG: every colour-type/bit-depth pair, both interlace settings
	for _, cb := range pngCombos {
		for il := byte(0); il < 2; il++ {
			d := randPngDesc(r, false, nil)
			d.ctype, d.depth, d.interlace = cb[0], cb[1], il
			d.w, d.h = 1+uint32(r.intn(4000)), 1+uint32(r.intn(4000))
			if cb[0] == 3 {
				d.pre = append([]pngChunk{{"PLTE", []byte{0, 0, 0, 255, 255, 255}}}, d.pre...)
			}
			data, _ := d.build()
			c05Case(c, fmt.Sprintf("png/combo%d-%d", cb[0], cb[1]), "png", data, d.w, d.h, uint32(d.depth), true)
		}
	}
	// more than a megabyte of legal ancillary data in front of the pixel data (comments, text, private chunks, an
	// application's own segments): the header values are still the header's (direct oracle only — too large for the
	// line protocol)
	{
		bigCheck := func(class, format string, data []byte, w, h, depth uint32) {
			wantFmt := map[string]string{"png": "PNG", "jpeg": "JPEG", "webp": "WebP"}[format]
			prefix := fmt.Sprintf("ok %s %d %d %d ", wantFmt, w, h, depth)
			for _, ld := range []string{format, "auto"} {
				md, _, err, p := safeLoad(loaders[ld], bytes.NewReader(data))
				got := metaOut(md, err, p)
				c.stats["big-ancillary/"+ld]++
				if len(got) < len(prefix) || got[:len(prefix)] != prefix {
					c.direct(fmt.Sprintf("C05/%s/%s/len%d", class, ld, len(data)), "loader does not report the header's width/height/depth/format when more than 1 MiB of ancillary data precedes the pixel data",
						map[string]interface{}{"loader": ld, "want": prefix, "got": got, "len": len(data), "file_hex": hexs(trunc(data, 128))})
				}
			}
			if cfg, _, err := image.DecodeConfig(bytes.NewReader(data)); err == nil && (uint32(cfg.Width) != w || uint32(cfg.Height) != h) {
				c.stats["big-ancillary/builder-disagrees"]++
			}
		}
		for _, sofFirst := range []bool{false, true} {
			jd := randJpegDesc(r)
			jd.segsBefore = nil
			for k := 0; k < 17+r.intn(4); k++ {
				jd.segsBefore = append(jd.segsBefore, jpegSeg{[]byte{0xfe, 0xe1, 0xed}[k%3], r.bytes(65533 - r.intn(3))})
			}
			if sofFirst {
				// the frame header first, the megabyte of segments between it and the scan
				jd.interleave, jd.segsBefore = jd.segsBefore, nil
				p := randProfilePayload(r, 600)
				jd.iccSegs = splitICC(p, []int{300, 300})
				jd.iccAfterSOF = true
			}
			data, _ := jd.build()
			bigCheck(fmt.Sprintf("jpeg/big-ancillary/sof-first=%v", sofFirst), "jpeg", data, uint32(jd.w), uint32(jd.h), uint32(jd.precision))
		}
		for k := 0; k < 2; k++ {
			d := randPngDesc(r, false, nil)
			d.ctype, d.depth = 2, 8
			d.w, d.h = 1+uint32(r.intn(4000)), 1+uint32(r.intn(4000))
			if k == 0 {
				d.pre = []pngChunk{{"tEXt", append([]byte("Comment\x00"), r.bytes(1048584+r.intn(5000))...)}}
			} else {
				d.pre = nil
				for q := 0; q < 24; q++ {
					d.pre = append(d.pre, pngChunk{"prVt", r.bytes(50000)})
				}
			}
			data, _ := d.build()
			bigCheck(fmt.Sprintf("png/big-ancillary/%d", k), "png", data, d.w, d.h, 8)
		}
	}
	// PNG: field sweeps (walking bits of width and height), random ancillary chunks
	for bit := uint(0); bit < 31; bit++ {
		for _, which := range []int{0, 1} {
			d := randPngDesc(r, false, nil)
			d.ctype, d.depth = 2, 8
			if which == 0 {
				d.w = 1 << bit
			} else {
				d.h = 1 << bit
			}
			data, _ := d.build()
			// image/png rejects dimensions whose pixel count overflows; compare only when small
			small := uint64(d.w)*uint64(d.h) < 1<<28
			c05Case(c, "png/walk", "png", data, d.w, d.h, 8, small)
		}
	}
	// PNG with an iCCP chunk before IDAT: every boundary of the profile-name length (1..79 legal)
	for _, nl := range []int{1, 2, 39, 40, 77, 78, 79} {
		d := randPngDesc(r, true, randProfilePayload(r, 1+r.intn(600)))
		name := make([]byte, nl)
		for k := range name {
			name[k] = byte(33 + r.intn(90))
		}
		d.iccName = string(name)
		if d.ctype == 3 {
			d.pre = append([]pngChunk{{"PLTE", []byte{0, 0, 0, 255, 255, 255}}}, d.pre...)
		}
		data, _ := d.build()
		small := uint64(d.w)*uint64(d.h)*8 < 1<<31
		c05Case(c, "png/iccp-name", "png", data, d.w, d.h, uint32(d.depth), small)
	}
	for i := 0; i < n; i++ {
		withICC := r.intn(3) == 0
		d := randPngDesc(r, withICC, randProfilePayload(r, 1+r.intn(3000)))
		if d.ctype == 3 {
			d.pre = append([]pngChunk{{"PLTE", []byte{0, 0, 0, 255, 255, 255}}}, d.pre...)
		}
		data, _ := d.build()
		small := uint64(d.w)*uint64(d.h)*8 < 1<<31
		c05Case(c, "png/random", "png", data, d.w, d.h, uint32(d.depth), small)
	}
	// JPEG
	for i := 0; i < n; i++ {
		d := randJpegDesc(r)
		if r.intn(8) == 0 {
			d.precision = 12
		}
		if r.intn(3) == 0 {
			p := randProfilePayload(r, 1+r.intn(2000))
			d.iccSegs = splitICC(p, []int{len(p)})
		}
		data, _ := d.build()
		c05Case(c, "jpeg/random", "jpeg", data, uint32(d.w), uint32(d.h), uint32(d.precision), d.precision == 8)
	}
	for bit := uint(0); bit < 16; bit++ {
		for _, which := range []int{0, 1} {
			d := randJpegDesc(r)
			if which == 0 {
				d.w = 1 << bit
			} else {
				d.h = 1 << bit
			}
			data, _ := d.build()
			c05Case(c, "jpeg/walk", "jpeg", data, uint32(d.w), uint32(d.h), 8, true)
		}
	}
	// WebP: the three kinds; thorough sweeps each 14-bit field exhaustively
	for _, kind := range []string{"VP8", "VP8L", "VP8X"} {
		bits := uint(14)
		if kind == "VP8X" {
			bits = 24
		}
		for i := 0; i < n/3; i++ {
			var icc []byte
			if kind == "VP8X" && r.intn(2) == 0 {
				icc = randProfilePayload(r, 1+r.intn(2000))
			}
			d := randWebpDesc(r, kind, icc)
			data, _ := d.build()
			// x/image/webp's VP8 decoder wants a partition; compare DecodeConfig for VP8L/VP8X only
			c05Case(c, "webp/"+kind, "webp", data, d.w, d.h, 8, kind != "VP8" && d.w < 1<<14 && d.h < 1<<14 || kind == "VP8X")
		}
		for bit := uint(0); bit < bits; bit++ {
			for _, which := range []int{0, 1} {
				d := randWebpDesc(r, kind, nil)
				if which == 0 {
					d.w = 1 << bit
				} else {
					d.h = 1 << bit
				}
				data, _ := d.build()
				c05Case(c, "webp/walk/"+kind, "webp", data, d.w, d.h, 8, kind != "VP8")
			}
		}
		// the largest legal value of each dimension (fields that store the dimension minus one reach one past the field's maximum)
		if kind != "VP8" {
			for _, which := range []int{0, 1, 2} {
				d := randWebpDesc(r, kind, nil)
				if which != 1 {
					d.w = 1 << bits
				}
				if which != 0 {
					d.h = 1 << bits
				}
				data, _ := d.build()
				c05Case(c, "webp/max/"+kind, "webp", data, d.w, d.h, 8, kind == "VP8X")
			}
		}
		// extended-format canvases at the largest area the container allows (width * height just below 2^32)
		if kind == "VP8X" {
			for _, wh := range [][2]uint32{{65537, 65535}, {65535, 65537}, {3579139, 1200}, {1200, 3579139}, {16711935, 257}, {65536, 65535}, {1 << 24, 255}, {255, 1 << 24}, {1 << 24, 256}} {
				d := randWebpDesc(r, kind, nil)
				d.w, d.h = wh[0], wh[1]
				data, _ := d.build()
				c05Case(c, "webp/area-limit/"+kind, "webp", data, d.w, d.h, 8, false)
			}
		}
		if c.thorough() && kind != "VP8X" {
			for v := uint32(1); v < 1<<14; v++ {
				for _, which := range []int{0, 1} {
					d := &webpDesc{kind: kind, w: 0x1234, h: 0x0abc}
					if which == 0 {
						d.w = v
					} else {
						d.h = v
					}
					data, _ := d.build()
					c05Case(c, "webp/sweep/"+kind, "webp", data, d.w, d.h, 8, false)
				}
			}
		}
	}
	// the real files shipped with the repository
	files, _ := filepath.Glob("/repo/test-images/*")
	for _, f := range files {
		data, err := os.ReadFile(f)
		if err != nil {
			continue
		}
		cfg, name, err := image.DecodeConfig(bytes.NewReader(data))
		if err != nil {
			continue
		}
		emitLoad(c, "real/"+name, name, data)
		out := emitLoad(c, "real/auto", "auto", data)
		want := fmt.Sprintf(" %d %d 8 ", cfg.Width, cfg.Height)
		if !bytes.Contains([]byte(out), []byte(want)) {
			c.direct("C05/real/"+filepath.Base(f), "loader disagrees with DecodeConfig on a real file", map[string]interface{}{"got": out, "want": want})
		}
	}
}
