package main

import (
	"bytes"
	"compress/zlib"
	"fmt"
	"os"
)

func init() { corrFuncs["C06"] = corrC06 }

// c06Check: run loader (format-specific and auto), compare with the model through emitLoad,
// and evaluate the property's own oracle: wantICC = exact bytes | "none" | "err".
func c06Check(c *corrCtx, class, format string, data []byte, want string, profile []byte) {
	for _, ld := range []string{format, "auto"} {
		out := emitLoad(c, class+"/"+ld, ld, data)
		var exp string
		switch want {
		case "data":
			exp = "icc=data:" + bytesDigest(profile)
		case "none":
			exp = "icc=none"
		default:
			exp = "icc=err"
		}
		if len(out) < 3 || out[:3] != "ok " || !bytes.HasSuffix([]byte(out), []byte(exp)) {
			c.direct(fmt.Sprintf("C06/%s/%s/len%d", class, ld, len(profile)), "embedded ICC profile is not returned byte-for-byte / absent / as an error as the property requires",
				map[string]interface{}{"loader": ld, "want": exp, "got": out, "profile_len": len(profile), "file_len": len(data), "file_hex_prefix": hexs(trunc(data, 96))})
		}
	}
}

// c06Big: profiles of several MiB (too large for the line protocol): the property's own oracle only —
// the bytes that come back are the bytes that went in, for every container, format loader and auto.
func c06Big(c *corrCtx) {
	r := c.rng
	sizes := []int{1<<20 + 1, 5 << 20}
	if c.thorough() {
		sizes = append(sizes, 16<<20+3, 16700000)
	}
	type bigCase struct {
		n    int
		fill int // -1: incompressible; otherwise the one byte value the whole profile consists of
	}
	var cases []bigCase
	for _, n := range sizes {
		cases = append(cases, bigCase{n, -1})
	}
	// the most compressible profiles there are (one byte value throughout: DEFLATE reaches its 1032:1 limit), best and
	// default compression — a profile is returned whole however small its compressed form
	cases = append(cases, bigCase{4 << 20, 0x00}, bigCase{6<<20 + 1, 0xa5})
	for ci, bc := range cases {
		n := bc.n
		p := make([]byte, n)
		seed := r.next()
		for i := range p {
			if bc.fill >= 0 {
				p[i] = byte(bc.fill)
				continue
			}
			seed = seed*6364136223846793005 + 1442695040888963407
			p[i] = byte(seed >> 56)
		}
		var files []seedFile
		pd := randPngDesc(r, true, p)
		if bc.fill >= 0 {
			pd.iccZ = zlibCompress(p, []int{zlib.BestCompression, zlib.DefaultCompression}[ci%2])
		}
		b, _ := pd.build()
		files = append(files, seedFile{"png", "png", b, 0})
		wd := randWebpDesc(r, "VP8X", p)
		b, _ = wd.build()
		files = append(files, seedFile{"webp", "webp", b, 0})
		if n <= 255*65519 {
			jd := randJpegDesc(r)
			var szs []int
			for rem := n; rem > 0; {
				k := 65519
				if k > rem {
					k = rem
				}
				szs = append(szs, k)
				rem -= k
			}
			jd.iccSegs = splitICC(p, szs)
			b, _ = jd.build()
			files = append(files, seedFile{"jpeg", "jpeg", b, 0})
		}
		for _, f := range files {
			for _, ld := range []string{f.format, "auto"} {
				md, _, err, pan := safeLoad(loaders[ld], bytes.NewReader(f.data))
				c.stats["big/"+ld]++
				ok := false
				if pan == nil && err == nil && md != nil {
					if d, e := md.ICCProfileData(); e == nil && bytes.Equal(d, p) {
						ok = true
					}
				}
				if !ok {
					c.direct(fmt.Sprintf("C06/big/%s/%s/len%d", f.format, ld, n), "a large embedded ICC profile is not returned byte-for-byte",
						map[string]interface{}{"loader": ld, "profile_len": n, "file_len": len(f.data), "result": metaOut(md, err, pan)})
				}
			}
		}
	}
}

func permutations(n int) [][]int {
	if n == 1 {
		return [][]int{{0}}
	}
	var out [][]int
	for _, p := range permutations(n - 1) {
		for i := 0; i <= len(p); i++ {
			q := append(append(append([]int{}, p[:i]...), n-1), p[i:]...)
			out = append(out, q)
		}
	}
	return out
}

func corrC06(c *corrCtx) {
	r := c.rng
	c06Big(c)
	sizes := []int{1, 2, 3, 127, 128, 4095, 4096, 4097, 5000, 8191, 8192, 8193, 20000, 65518, 65519, 65520, 65521, 70000, 140000}
	if c.thorough() {
		sizes = append(sizes, 300000, 1<<20, 1<<20+1, 3<<20)
	}
	for _, n := range sizes {
		for rep := 0; rep < 2; rep++ {
			p := randProfilePayload(r, n)
			// PNG iCCP
			pd := randPngDesc(r, true, p)
			data, _ := pd.build()
			c06Check(c, "png/size", "png", data, "data", p)
			// WebP ICCP
			wd := randWebpDesc(r, "VP8X", p)
			data, _ = wd.build()
			c06Check(c, "webp/size", "webp", data, "data", p)
			// JPEG: minimal number of chunks, boundary chunk size 65519
			jd := randJpegDesc(r)
			var szs []int
			for rem := n; rem > 0; {
				k := 65519
				if rep == 1 && rem > 1 {
					k = 1 + r.intn(65519)
				}
				if k > rem {
					k = rem
				}
				szs = append(szs, k)
				rem -= k
			}
			jd.iccSegs = splitICC(p, szs)
			jd.iccAfterSOF = r.intn(2) == 0
			data, _ = jd.build()
			c06Check(c, "jpeg/size", "jpeg", data, "data", p)
		}
	}
	// carriers ending at every offset around the 4096-byte buffer boundaries
	al, alp := alignedFiles(r, alignTargets(c.thorough()))
	for i, s := range al {
		c06Check(c, "aligned/"+s.format, s.format, s.data, "data", alp[i])
	}
	// JPEG: every permutation of up to 5 chunks, interleaved with other segments
	maxPerm := 4
	if c.thorough() {
		maxPerm = 5
	}
	for n := 1; n <= maxPerm; n++ {
		for _, perm := range permutations(n) {
			szs := make([]int, n)
			total := 0
			for i := range szs {
				szs[i] = 1 + r.intn(300)
				total += szs[i]
			}
			p := randProfilePayload(r, total)
			segs := splitICC(p, szs)
			jd := randJpegDesc(r)
			for _, i := range perm {
				jd.iccSegs = append(jd.iccSegs, segs[i])
				if r.intn(2) == 0 {
					jd.interleave = append(jd.interleave, randJpegOther(r))
				} else {
					jd.interleave = append(jd.interleave, jpegSeg{0xfe, nil})
				}
			}
			jd.iccAfterSOF = r.intn(2) == 0
			data, _ := jd.build()
			c06Check(c, fmt.Sprintf("jpeg/perm%d", n), "jpeg", data, "data", p)
		}
	}
	// JPEG: many chunks (up to 255) in random order
	for _, n := range []int{16, 100, 254, 255} {
		szs := make([]int, n)
		total := 0
		for i := range szs {
			szs[i] = 1 + r.intn(40)
			total += szs[i]
		}
		p := randProfilePayload(r, total)
		segs := splitICC(p, szs)
		for k := n - 1; k > 0; k-- {
			j := r.intn(k + 1)
			segs[k], segs[j] = segs[j], segs[k]
		}
		jd := randJpegDesc(r)
		jd.iccSegs = segs
		data, _ := jd.build()
		c06Check(c, "jpeg/many", "jpeg", data, "data", p)
	}
	// no profile
	n := 30
	if c.thorough() {
		n = 300
	}
	for i := 0; i < n; i++ {
		pd := randPngDesc(r, false, nil)
		data, _ := pd.build()
		c06Check(c, "png/none", "png", data, "none", nil)
		jd := randJpegDesc(r)
		data, _ = jd.build()
		c06Check(c, "jpeg/none", "jpeg", data, "none", nil)
		wd := randWebpDesc(r, []string{"VP8", "VP8L", "VP8X"}[r.intn(3)], nil)
		data, _ = wd.build()
		c06Check(c, "webp/none", "webp", data, "none", nil)
	}
	// damage classes
	for i := 0; i < n; i++ {
		p := randProfilePayload(r, 50+r.intn(3000))
		if i%3 == 0 {
			// large streams too: the damage is noticed long before the end of the chunk
			p = randProfilePayload(r, r.pick(4095, 4096, 5000, 9000, 20000, 70000))
		}
		// PNG: corrupt zlib stream (header, body or checksum)
		pd := randPngDesc(r, true, p)
		z := append([]byte{}, pd.iccZ...)
		switch r.intn(5) {
		case 0:
			z[0] ^= 0x0f
		case 1:
			z[len(z)-1] ^= 0x55
		case 2:
			z[1] ^= 0x01 // FLG check bits
		case 3:
			z[2] |= 0x06 // reserved deflate block type in the first block header
		default:
			z = z[:len(z)/2]
		}
		pd.iccZ = z
		data, _ := pd.build()
		c06Check(c, "png/damaged", "png", data, "err", p)
		// JPEG: missing chunk
		k := 2 + r.intn(4)
		szs := make([]int, k)
		tot := 0
		for j := range szs {
			szs[j] = 1 + r.intn(200)
			tot += szs[j]
		}
		p2 := randProfilePayload(r, tot)
		segs := splitICC(p2, szs)
		drop := r.intn(k)
		jd := randJpegDesc(r)
		jd.iccSegs = append(append([]jpegSeg{}, segs[:drop]...), segs[drop+1:]...)
		jd.iccAfterSOF = r.intn(2) == 0
		data, _ = jd.build()
		c06Check(c, "jpeg/missing", "jpeg", data, "err", p2)
		// JPEG: inconsistent totals (one chunk declares another total)
		jd = randJpegDesc(r)
		segs = splitICC(p2, szs)
		bad := r.intn(k)
		if bad == 0 && r.intn(2) == 0 {
			bad = k - 1
		}
		if bad == 0 {
			bad = 1 % k
		}
		if bad != 0 {
			segs[bad].data[13] = byte(k + 1 + r.intn(3))
			jd.iccSegs = segs
			data, _ = jd.build()
			c06Check(c, "jpeg/inconsistent", "jpeg", data, "err", p2)
		}
		// JPEG: a complete set followed by a chunk declaring another total (before SOF)
		jd = randJpegDesc(r)
		segs = splitICC(p2, szs)
		extra := iccApp2(1, byte(k+1), []byte("extra"))
		jd.iccSegs = append(segs, extra)
		jd.iccAfterSOF = false
		data, _ = jd.build()
		c06Check(c, "jpeg/inconsistent-after-complete", "jpeg", data, "err", p2)
		// JPEG: chunk number 0 or above the total
		jd = randJpegDesc(r)
		segs = splitICC(p2, szs)
		if r.intn(2) == 0 {
			segs[r.intn(k)].data[12] = 0
		} else {
			segs[r.intn(k)].data[12] = byte(k + 1 + r.intn(5))
		}
		jd.iccSegs = segs
		data, _ = jd.build()
		c06Check(c, "jpeg/badnumber", "jpeg", data, "err", p2)
		// JPEG: duplicated chunk
		jd = randJpegDesc(r)
		segs = splitICC(p2, szs)
		d := r.intn(k - 1)
		segs[d+1] = segs[d]
		jd.iccSegs = segs
		data, _ = jd.build()
		c06Check(c, "jpeg/duplicate", "jpeg", data, "err", p2)
		// WebP: flag set but no ICCP chunk follows
		wd := randWebpDesc(r, "VP8X", nil)
		wd.noICCP = true
		data, _ = wd.build()
		c06Check(c, "webp/noiccp", "webp", data, "err", nil)
	}
	// the real files (incl. the multi-chunk CMYK JPEG no test references)
	for _, f := range []string{"pizza-cmyk8-usswop.jpg", "pizza-rgb8-adobergb.jpg", "pizza-rgb8-srgb.png", "pizza-rgb8-displayp3-vp8x.webp", "checkerboard-srgb.png"} {
		data, err := os.ReadFile("/repo/test-images/" + f)
		if err != nil {
			continue
		}
		emitLoad(c, "real", "auto", data)
	}
}
