package main

import (
	"bytes"
	"fmt"
)

func init() {
	corrFuncs["C07"] = corrC07
	corrFuncs["C08"] = corrC08
	corrFuncs["C19"] = corrC19
}

// c07Case: one (loader, data, schedule, fault?) run; model vs implementation, and the
// property's own oracle: non-nil stream replaying exactly the delivered bytes, then the
// source's terminal error; no panic.
func c07Case(c *corrCtx, class, ld string, data []byte, sched []int, fault, ewd bool) {
	res := emitLoadx(c, class+"/"+ld, ld, data, sched, fault, ewd)
	wantEnd := "eof"
	if fault {
		wantEnd = "fault"
	}
	if !bytes.Equal(res.replay, data) || res.end != wantEnd || res.meta == "panic-escaped" {
		c.direct(fmt.Sprintf("C07/%s/%s/len%d/fault=%v", class, ld, len(data), fault),
			"returned stream does not replay the delivered bytes followed by the source's terminal error",
			map[string]interface{}{"loader": ld, "len": len(data), "sched": schedStr(sched), "fault": fault, "eofWithData": ewd,
				"got_len": len(res.replay), "end": res.end, "meta": res.meta, "data": hexs(trunc(data, 200))})
	}
}

func corrC07(c *corrCtx) {
	r := c.rng
	seeds := append(seedFiles(r, true), junkFiles(r)...)
	stride := 7
	if c.thorough() {
		stride = 1
	}
	for _, s := range seeds {
		n := len(s.data)
		for cut := 0; cut <= n; cut++ {
			boundary := cut <= 40 || cut >= n-12 || cut == s.needed || cut == s.needed-1 || cut == s.needed+1
			if !boundary && (cut+int(r.next()%uint64(stride)))%stride != 0 {
				continue
			}
			data := s.data[:cut]
			for _, ld := range loaderNames {
				if !c.thorough() && ld != "auto" && ld != s.format && !boundary {
					continue
				}
				sched := fixedScheds[r.intn(len(fixedScheds))]
				if r.intn(3) == 0 {
					sched = randSched(r)
				}
				c07Case(c, "trunc/"+s.name, ld, data, sched, false, r.intn(4) == 0)
				c07Case(c, "fault/"+s.name, ld, data, sched, true, r.intn(4) == 0)
			}
		}
	}
	// seekable sources (bytes.Reader, as os.File would be) already advanced past k foreign bytes:
	// "the original source" is what it would deliver from its current position
	for _, s := range seeds {
		for _, k := range []int{1, 5, 4096} {
			for _, ld := range []string{s.format, "auto"} {
				if ld == "none" {
					ld = "auto"
				}
				c07Seekable(c, "seekable/"+s.name, ld, s.data, k, r)
			}
		}
	}
	// one length field at a time set to an extreme or off-by-one value
	for _, s := range fieldFiles(r, c.thorough()) {
		for _, ld := range []string{s.format, "auto"} {
			sched := fixedScheds[r.intn(len(fixedScheds))]
			c07Case(c, "trunc/"+classOf(s.name)+"/len-field", ld, s.data, sched, false, r.intn(4) == 0)
			c07Case(c, "fault/"+classOf(s.name)+"/len-field", ld, s.data, sched, true, r.intn(4) == 0)
		}
	}
	c07Huge(c)
	// the same files (whole and truncated) through sources of every dynamic type
	var typed []seedFile
	for _, s := range seeds {
		typed = append(typed, s)
		if len(s.data) > 20 {
			typed = append(typed, seedFile{s.name + "/cut", s.format, s.data[:len(s.data)*2/3], 0})
		}
	}
	typedSourceCases(c, "C07", append(typed, seedFiles(r, false)...))
	// larger files: structural boundaries ± 1
	big := append(seedFiles(r, false), realFiles()...)
	for _, s := range big {
		cuts := map[int]bool{0: true, len(s.data): true, 4095: true, 4096: true, 4097: true, 8192: true}
		if s.needed > 0 {
			for d := -1; d <= 1; d++ {
				cuts[s.needed+d] = true
			}
		}
		for i := 0; i < 6; i++ {
			cuts[r.intn(len(s.data)+1)] = true
		}
		// exact multiples of 64 KiB (any block-structured recording of what was read would have its seams there)
		for k := 65536; k <= len(s.data) && k <= 4*65536; k += 65536 {
			cuts[k] = true
		}
		for cut := range sortedKeys(cuts) {
			_ = cut
		}
		for _, cut := range sortedKeys(cuts) {
			if cut < 0 || cut > len(s.data) {
				continue
			}
			ld := []string{s.format, "auto"}[r.intn(2)]
			if s.format == "none" {
				ld = "auto"
			}
			c07Case(c, "bigtrunc/"+s.name, ld, s.data[:cut], fixedScheds[r.intn(len(fixedScheds))], r.intn(2) == 0, false)
		}
	}
}

// c07Huge: files whose metadata scan has to pass tens of MiB of ancillary data before it can stop.
// Too large for the line protocol: the property's own oracle (the stream replays the source) is
// evaluated directly; the theorem (C07_replay) is for every size.
func c07Huge(c *corrCtx) {
	r := c.rng
	sizes := []int{34 << 20}
	if c.thorough() {
		sizes = append(sizes, 70<<20, 130<<20)
	}
	for _, total := range sizes {
		filler := func(n int) []byte {
			b := make([]byte, n)
			seed := r.next()
			for i := range b {
				seed = seed*6364136223846793005 + 1442695040888963407
				b[i] = byte(seed >> 56)
				if b[i] == 0xff {
					b[i] = 0xfe
				}
			}
			return b
		}
		var files []seedFile
		pd := randPngDesc(r, false, nil)
		pd.pre, pd.post = nil, nil
		for n := 0; n < total; n += 1 << 20 {
			pd.pre = append(pd.pre, pngChunk{"zTXt", filler(1 << 20)})
		}
		b, _ := pd.build()
		files = append(files, seedFile{"png-huge-ancillary", "png", b, 0})
		jd := randJpegDesc(r)
		jd.segsBefore = nil
		for n := 0; n < total; n += 65533 {
			jd.segsBefore = append(jd.segsBefore, jpegSeg{0xfe, filler(65533)})
		}
		b, _ = jd.build()
		files = append(files, seedFile{"jpeg-huge-comments", "jpeg", b, 0})
		wd := randWebpDesc(r, "VP8X", filler(total))
		b, _ = wd.build()
		files = append(files, seedFile{"webp-huge-iccp", "webp", b, 0})
		if total == sizes[0] {
			// a marker position followed by megabytes of 0xFF (fill bytes are legal before a marker)
			ff := append([]byte{0xff, 0xd8}, bytes.Repeat([]byte{0xff}, 16<<20)...)
			files = append(files, seedFile{"jpeg-ff-run-16MiB", "jpeg", ff, 0},
				seedFile{"jpeg-ff-run-then-frame", "jpeg", append(append([]byte{}, ff...), 0xc0, 0x00, 0x0b, 8, 0, 16, 0, 16, 1, 1, 0x11, 0, 0xff, 0xd9), 0})
		}
		for _, f := range files {
			for _, ld := range []string{f.format, "auto"} {
				c.mark(fmt.Sprintf("huge input class=%s loader=%s len=%d", f.name, ld, len(f.data)))
				res := runLoadx(ld, f.data, []int{1 << 20}, false, false)
				c.stats["huge/"+ld]++
				if !bytes.Equal(res.replay, f.data) || res.end != "eof" {
					first := 0
					for first < len(res.replay) && first < len(f.data) && res.replay[first] == f.data[first] {
						first++
					}
					c.direct(fmt.Sprintf("C07/huge/%s/%s/%dMiB", f.name, ld, total>>20), "the returned stream does not replay a source with tens of MiB of ancillary data before the image data",
						map[string]interface{}{"loader": ld, "file": f.name, "len": len(f.data), "got_len": len(res.replay), "first_difference_at": first, "end": res.end, "meta": res.meta})
				}
			}
		}
	}
}

// c07Seekable: the loader is handed a *bytes.Reader positioned k bytes into (foreign prefix ++ data).
func c07Seekable(c *corrCtx, class, ld string, data []byte, k int, r *rng) {
	all := append(r.bytes(k), data...)
	src := bytes.NewReader(all)
	skip := make([]byte, k)
	src.Read(skip)
	md, rest, err, p := safeLoad(loaders[ld], src)
	meta := metaOut(md, err, p)
	var replay []byte
	end := "nil-stream"
	if rest != nil {
		replay, end = drain(rest, len(all)+16)
	}
	oracle := ""
	if ld == "png" || ld == "auto" {
		oracle = pngOracle(data)
	}
	pulledUnknown := "" // a bytes.Reader is not instrumented: compare result and replay only
	_ = pulledUnknown
	c.emit(class+"/"+ld, fmt.Sprintf("loadr %s %s%s", ld, hexs(data), oracle), fmt.Sprintf("%s replay=%s end=%s", meta, bytesDigest(replay), end))
	if !bytes.Equal(replay, data) || end != "eof" {
		c.direct(fmt.Sprintf("C07/%s/%s/offset%d", class, ld, k), "a seekable source positioned past a prefix is not replayed from its current position",
			map[string]interface{}{"loader": ld, "start_offset": k, "want_len": len(data), "got_len": len(replay), "end": end, "meta": meta})
	}
}

func sortedKeys(m map[int]bool) []int {
	var ks []int
	for k := range m {
		ks = append(ks, k)
	}
	for i := 1; i < len(ks); i++ {
		for j := i; j > 0 && ks[j] < ks[j-1]; j-- {
			ks[j], ks[j-1] = ks[j-1], ks[j]
		}
	}
	return ks
}

// corrC08: every input under every schedule; oracle: the outcome equals the all-at-once one.
func corrC08(c *corrCtx) {
	r := c.rng
	var inputs []seedFile
	inputs = append(inputs, seedFiles(r, true)...)
	inputs = append(inputs, seedFiles(r, false)...)
	inputs = append(inputs, junkFiles(r)...)
	inputs = append(inputs, realFiles()...)
	// truncated and corrupted variants
	base := seedFiles(r, false)
	for _, s := range base {
		for k := 0; k < 3; k++ {
			cut := r.intn(len(s.data) + 1)
			inputs = append(inputs, seedFile{s.name + "/cut", s.format, s.data[:cut], 0})
			m := append([]byte{}, s.data...)
			m[r.intn(len(m))] ^= byte(1 << uint(r.intn(8)))
			inputs = append(inputs, seedFile{s.name + "/flip", s.format, m, 0})
		}
	}
	// streams that end exactly where a declared-length payload ends, with payloads large enough to
	// be read directly (not through the bufio buffer): data + EOF in one call must not lose bytes
	for _, psz := range []int{3000, 20000, 40000, 70000} {
		prof := randProfilePayload(r, psz)
		wd := randWebpDesc(r, "VP8X", prof)
		full, needed := wd.build()
		inputs = append(inputs, seedFile{fmt.Sprintf("webp-icc-exact-end-%d", psz), "webp", full[:needed], needed})
		jd := randJpegDesc(r)
		jd.iccSegs = splitICC(prof, []int{len(prof) % 65000, len(prof) - len(prof)%65000}[:1+len(prof)/65001])
		if len(prof) <= 65000 {
			jd.iccSegs = splitICC(prof, []int{len(prof)})
		}
		jd.iccAfterSOF = true
		jfull, jneeded := jd.build()
		inputs = append(inputs, seedFile{fmt.Sprintf("jpeg-icc-exact-end-%d", psz), "jpeg", jfull[:jneeded], jneeded})
	}
	// PNG iCCP payloads that zlib rejects at once, part way through, or that end early — with chunks
	// and image data behind them (what follows the payload must be found again under every schedule)
	for k := 0; k < 6; k++ {
		prof := randProfilePayload(r, 300+r.intn(5000))
		pd := randPngDesc(r, true, prof)
		good := pd.iccZ
		switch k % 6 {
		case 0:
			pd.iccZ = r.bytes(40 + r.intn(3000)) // not zlib at all
		case 1:
			pd.iccZ = append(append([]byte{}, good[:len(good)/2]...), r.bytes(len(good)/2+50)...) // corrupt part way
		case 2:
			pd.iccZ = good[:1+len(good)/3] // truncated stream
		case 3:
			pd.iccZ = append(append([]byte{}, good...), r.bytes(200+r.intn(2000))...) // trailing bytes after the stream
		case 4:
			pd.iccZ = []byte{0x78} // one byte
		default:
			pd.iccZ = append([]byte{0x78, 0x9c}, r.bytes(900)...) // valid zlib header, garbage deflate
		}
		pd.post = []pngChunk{randAncillary(r, 300), randAncillary(r, 5000)}
		pd.body = r.bytes(3000 + r.intn(6000))
		d, n := pd.build()
		inputs = append(inputs, seedFile{fmt.Sprintf("png-iccp-badzlib-%d", k%6), "png", d, n})
	}
	// ICC carriers ending at every offset around the 4096-byte buffer boundaries
	al, _ := alignedFiles(r, alignTargets(c.thorough()))
	inputs = append(inputs, al...)
	// one length field at a time set to an extreme or off-by-one value
	inputs = append(inputs, fieldFiles(r, c.thorough())...)
	for _, s := range inputs {
		lds := []string{"auto"}
		if s.format != "none" {
			lds = append(lds, s.format)
		} else {
			lds = loaderNames
		}
		for _, ld := range lds {
			ref := runLoadx(ld, s.data, nil, false, false).meta
			scheds := append([][]int{}, fixedScheds...)
			nr := 2
			if c.thorough() {
				nr = 12
			}
			for i := 0; i < nr; i++ {
				scheds = append(scheds, randSched(r))
			}
			for _, sc := range scheds {
				for _, ewd := range []bool{false, true} {
					if ewd && len(sc) > 0 && sc[0] != 1 && sc[0] != 4096 && r.intn(3) != 0 {
						continue
					}
					res := emitLoadx(c, "sched/"+ld, ld, s.data, sc, false, ewd)
					if res.meta != ref {
						c.direct(fmt.Sprintf("C08/%s/%s/sched=%s/ewd=%v", s.name, ld, schedStr(sc), ewd),
							"result depends on how the source segments its data",
							map[string]interface{}{"loader": ld, "sched": schedStr(sc), "eofWithData": ewd, "all_at_once": ref, "got": res.meta, "len": len(s.data), "data": hexs(trunc(s.data, 300))})
					}
				}
			}
		}
	}
	// every truncation inside the leading structures (the first 160 bytes: signature, first chunk/segment headers and
	// the header after them) and around the last needed byte, all at once against byte by byte and in threes: where a
	// stream ends inside a fixed-size field, what the loader says must not depend on how the bytes arrived
	for _, s := range base {
		cuts := map[int]bool{}
		for k := 0; k <= 160 && k <= len(s.data); k++ {
			cuts[k] = true
		}
		for k := s.needed - 12; k <= s.needed+12; k++ {
			if k >= 0 && k <= len(s.data) {
				cuts[k] = true
			}
		}
		lds := []string{"auto"}
		if s.format != "none" {
			lds = append(lds, s.format)
		}
		for cut := range cuts {
			for _, ld := range lds {
				ref := runLoadx(ld, s.data[:cut], nil, false, false).meta
				for _, sc := range [][]int{{1}, {3}, {5, 2}} {
					for _, ewd := range []bool{false, true} {
						got := runLoadx(ld, s.data[:cut], sc, false, ewd).meta
						c.stats["head-cuts/"+ld]++
						if got != ref {
							c.direct(fmt.Sprintf("C08/head-cut/%s/%s/cut%d/sched=%s/ewd=%v", s.name, ld, cut, schedStr(sc), ewd), "result depends on how the source segments its data (a stream ending inside a leading structure)",
								map[string]interface{}{"loader": ld, "sched": schedStr(sc), "eofWithData": ewd, "all_at_once": ref, "got": got, "cut": cut, "data": hexs(s.data[:cut])})
						}
					}
				}
			}
		}
	}
	typedSourceCases(c, "C08", append(seedFiles(r, true), seedFiles(r, false)...))
	// sources that now and then return (0, nil) — discouraged by the io.Reader contract but allowed, and
	// tolerated by bufio and io.ReadFull: the result must still be the all-at-once one (direct oracle only;
	// the model's sources always make progress)
	for _, s := range append(seedFiles(r, true), append(seedFiles(r, false), realFiles()...)...) {
		if len(s.data) > 1<<20 {
			continue
		}
		lds := []string{"auto"}
		if s.format != "none" {
			lds = append(lds, s.format)
		}
		for _, ld := range lds {
			ref := runLoadx(ld, s.data, nil, false, false).meta
			for _, sc := range [][]int{{7, -1, 7, 7}, {4096, -1}, {-1, 1}, {40, -1, -1, 9000}, {1, 1, 1, -1}} {
				got := runLoadx(ld, s.data, sc, false, false).meta
				c.stats["empty-reads/"+ld]++
				if got != ref {
					c.direct(fmt.Sprintf("C08/empty-reads/%s/%s/sched=%s", s.name, ld, schedStr(sc)), "result depends on how the source segments its data (a schedule with occasional empty reads (0, nil))",
						map[string]interface{}{"loader": ld, "sched": schedStr(sc), "all_at_once": ref, "got": got, "len": len(s.data)})
				}
			}
		}
	}
	// far into a stream: the structure the loader still needs ends shortly after a round number of MiB
	// of ancillary data (any limit on how much is read or recorded would sit at such a place); too large
	// for the line protocol, so only the property's own oracle runs: every schedule gives the same answer
	marks := []int{1 << 20, 16 << 20}
	if c.thorough() {
		marks = []int{1 << 20, 4 << 20, 8 << 20, 16 << 20, 32 << 20, 64 << 20}
	}
	for _, mark := range marks {
		for _, past := range []int{2000, 4095, 5000} {
			prof := randProfilePayload(r, 3000)
			pd := randPngDesc(r, true, prof)
			pd.pre, pd.post = nil, nil
			probe, _ := pd.build()
			_ = probe
			// iCCP chunk: 12 + name + 2 + len(z) bytes; IHDR ends at 33; filler chunk has 12 bytes of framing
			iccLen := 12 + len(pd.iccName) + 2 + len(pd.iccZ)
			fill := mark + past - 33 - 12 - iccLen
			if fill < 0 {
				continue
			}
			pd.pre = []pngChunk{{"prVt", make([]byte, fill)}}
			data, _ := pd.build()
			ref := runLoadx("png", data, nil, false, false).meta
			for _, sc := range [][]int{{4096}, {4097}, {7}, {65536, 3}, {1 << 20}} {
				for _, ld := range []string{"png", "auto"} {
					got := runLoadx(ld, data, sc, false, false).meta
					c.stats["far/"+ld]++
					if got != ref {
						c.direct(fmt.Sprintf("C08/far/%dMiB+%d/%s/sched=%s", mark>>20, past, ld, schedStr(sc)), "result depends on how the source segments its data (metadata ending far into the stream)",
							map[string]interface{}{"loader": ld, "sched": schedStr(sc), "all_at_once": ref, "got": got, "len": len(data), "metadata_ends_at": mark + past})
					}
				}
			}
		}
	}
	// the ICC reader behind buffered readers of several sizes over scheduled sources
	corrC08Icc(c)
}

// corrC19: auto vs the first succeeding format-specific loader, same bytes and schedule.
func corrC19(c *corrCtx) {
	r := c.rng
	var inputs []seedFile
	inputs = append(inputs, seedFiles(r, true)...)
	inputs = append(inputs, seedFiles(r, false)...)
	inputs = append(inputs, junkFiles(r)...)
	inputs = append(inputs, realFiles()...)
	inputs = append(inputs, fieldFiles(r, c.thorough())...)
	typedSourceCases(c, "C19", inputs)
	// ... and the same files cut exactly where the needed structures end (and one byte either side)
	var cutFiles []seedFile
	for _, s := range inputs {
		if s.needed > 1 && s.needed <= len(s.data) && len(s.data) < 1<<20 {
			for d := -1; d <= 1; d++ {
				if k := s.needed + d; k >= 0 && k <= len(s.data) {
					cutFiles = append(cutFiles, seedFile{fmt.Sprintf("%s/cut-at-needed%+d", s.name, d), s.format, s.data[:k], 0})
				}
			}
		}
	}
	typedSourceCases(c, "C19", cutFiles)
	n := 40
	if c.thorough() {
		n = 600
	}
	base := seedFiles(r, true)
	for i := 0; i < n; i++ {
		s := base[r.intn(len(base))]
		m := append([]byte{}, s.data...)
		switch r.intn(4) {
		case 0:
			m = m[:r.intn(len(m)+1)]
		case 1:
			m[r.intn(len(m))] ^= byte(1 << uint(r.intn(8)))
		case 2:
			o := base[r.intn(len(base))]
			k := r.intn(len(m) + 1)
			m = append(append([]byte{}, m[:k]...), o.data...)
		default:
			k := r.intn(len(m))
			m[k] = byte(r.next())
		}
		inputs = append(inputs, seedFile{s.name + "/mut", "none", m, 0})
	}
	for _, s := range inputs {
		sched := fixedScheds[r.intn(len(fixedScheds))]
		if r.intn(3) == 0 {
			sched = randSched(r)
		}
		auto := emitLoadx(c, "auto/"+classOf(s.name), "auto", s.data, sched, false, false)
		want := "err"
		for _, ld := range []string{"png", "jpeg", "webp"} {
			res := runLoadx(ld, s.data, sched, false, false)
			if len(res.meta) >= 3 && res.meta[:3] == "ok " {
				want = res.meta
				break
			}
		}
		if auto.meta != want || !bytes.Equal(auto.replay, s.data) {
			c.direct(fmt.Sprintf("C19/%s/sched=%s", s.name, schedStr(sched)), "auto-detecting loader differs from the first format-specific loader that succeeds",
				map[string]interface{}{"auto": auto.meta, "first_success": want, "sched": schedStr(sched), "len": len(s.data), "data": hexs(trunc(s.data, 300)), "replay_ok": bytes.Equal(auto.replay, s.data)})
		}
		// the same bytes behind a foreign prefix in a seekable source (*bytes.Reader, as an *os.File would
		// be) already positioned past the prefix: auto must behave as the specific loader does on what the
		// source delivers from its current position
		if len(s.data) < 1<<20 {
			for _, k := range []int{3, 20, 4096}[:1+r.intn(3)] {
				all := append(r.bytes(k), s.data...)
				src := bytes.NewReader(all)
				src.Read(make([]byte, k))
				md, rest, err, p := safeLoad(loaders["auto"], src)
				got := metaOut(md, err, p)
				var replay []byte
				if rest != nil {
					replay, _ = drain(rest, len(all)+16)
				}
				oracle := pngOracle(s.data)
				c.emit("auto-seekable/"+classOf(s.name), fmt.Sprintf("loadr auto %s%s", hexs(s.data), oracle), fmt.Sprintf("%s replay=%s end=eof", got, bytesDigest(replay)))
				if got != want || !bytes.Equal(replay, s.data) {
					c.direct(fmt.Sprintf("C19/seekable/%s/offset%d", s.name, k), "on a seekable source positioned past a prefix the auto-detecting loader differs from the first format-specific loader that succeeds on the remaining bytes",
						map[string]interface{}{"auto": got, "first_success": want, "start_offset": k, "len": len(s.data), "replay_ok": bytes.Equal(replay, s.data)})
				}
			}
		}
	}
}

func classOf(name string) string {
	for i := 0; i < len(name); i++ {
		if name[i] == '/' {
			return name[:i]
		}
	}
	return name
}
