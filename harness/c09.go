package main

import (
	"bytes"
	"encoding/binary"
	"fmt"
	"os"
	"runtime"
	"strconv"
	"strings"
	"time"
)

func init() { corrFuncs["C09"] = corrC09 }

// the 40 boundary values of the property statement (a field's own value ±1 is added per field)
var boundaryVals = []uint64{0, 1, 2, 3, 4, 7, 8, 9, 10, 11, 12, 13, 14, 15, 16, 79, 80, 81, 127, 128, 131, 132, 133, 255, 256,
	4095, 4096, 4097, 65535, 65536, 0x7ffffffe, 0x7fffffff, 0x80000000, 0x80000001, 0xfffffff0, 0xfffffff4, 0xfffffff7, 0xfffffffd, 0xfffffffe, 0xffffffff}

type field struct {
	off   int
	width int
	be    bool
}

// fieldsOf walks a well-formed file and lists its length / count / offset fields.
func fieldsOf(format string, d []byte) []field {
	var fs []field
	switch format {
	case "png":
		for p := 8; p+8 <= len(d); {
			l := int(binary.BigEndian.Uint32(d[p:]))
			fs = append(fs, field{p, 4, true})
			if string(d[p+4:p+8]) == "IHDR" {
				fs = append(fs, field{p + 8, 4, true}, field{p + 12, 4, true})
			}
			p += 12 + l
		}
	case "jpeg":
		for p := 2; p+4 <= len(d) && d[p] == 0xff; {
			m := d[p+1]
			if m == 0xd9 || m == 0xd8 || (m >= 0xd0 && m <= 0xd7) {
				p += 2
				continue
			}
			l := int(binary.BigEndian.Uint16(d[p+2:]))
			fs = append(fs, field{p + 2, 2, true})
			if m == 0xe2 && l >= 16 {
				fs = append(fs, field{p + 16, 1, true}, field{p + 17, 1, true})
			}
			if m == 0xc0 || m == 0xc2 {
				fs = append(fs, field{p + 5, 2, true}, field{p + 7, 2, true}, field{p + 9, 1, true})
			}
			if m == 0xda {
				break
			}
			p += 2 + l
		}
	case "webp":
		fs = append(fs, field{4, 4, false})
		for p := 12; p+8 <= len(d); {
			l := int(binary.LittleEndian.Uint32(d[p+4:]))
			fs = append(fs, field{p + 4, 4, false})
			p += 8 + l + l%2
		}
	case "icc":
		fs = append(fs, field{0, 4, true}, field{128, 4, true})
		n := int(binary.BigEndian.Uint32(d[128:]))
		for i := 0; i < n && 132+12*i+12 <= len(d); i++ {
			fs = append(fs, field{132 + 12*i + 4, 4, true}, field{132 + 12*i + 8, 4, true})
			sig := binary.BigEndian.Uint32(d[132+12*i:])
			off := int(binary.BigEndian.Uint32(d[132+12*i+4:]))
			if sig == 0x64657363 && off+16 <= len(d) {
				switch string(d[off : off+4]) {
				case "desc":
					fs = append(fs, field{off + 8, 4, true})
				case "mluc":
					fs = append(fs, field{off + 8, 4, true}, field{off + 12, 4, true})
					cnt := int(binary.BigEndian.Uint32(d[off+8:]))
					rs := int(binary.BigEndian.Uint32(d[off+12:]))
					for k := 0; k < cnt && k < 4 && off+16+k*rs+12 <= len(d); k++ {
						fs = append(fs, field{off + 16 + k*rs + 4, 4, true}, field{off + 16 + k*rs + 8, 4, true})
					}
				}
			}
		}
	}
	return fs
}

func setField(d []byte, f field, v uint64) []byte {
	out := append([]byte{}, d...)
	if f.off+f.width > len(out) {
		return out
	}
	for i := 0; i < f.width; i++ {
		sh := uint(8 * i)
		if f.be {
			out[f.off+f.width-1-i] = byte(v >> sh)
		} else {
			out[f.off+i] = byte(v >> sh)
		}
	}
	return out
}

func getField(d []byte, f field) uint64 {
	var v uint64
	for i := 0; i < f.width; i++ {
		if f.be {
			v = v<<8 | uint64(d[f.off+i])
		} else {
			v |= uint64(d[f.off+i]) << uint(8*i)
		}
	}
	return v
}

type measured struct {
	out     string
	alloc   uint64
	elapsed time.Duration
}

// measureLoad runs loader + profile + description accessors on hostile bytes, measuring what
// the call allocated and how long it took.
// withDeadline runs f; if it does not finish within a budget that grows with the input size only,
// the case is recorded as a C09 time violation and the harness stops (a spinning goroutine cannot
// be cancelled): the remaining cases are skipped, the finding carries the input.
func withDeadline(c *corrCtx, what string, data []byte, f func() measured) measured {
	done := make(chan measured, 1)
	go func() { done <- f() }()
	budget := 4*time.Second + time.Duration(len(data))*40*time.Microsecond
	select {
	case m := <-done:
		return m
	case <-time.After(budget):
		c.direct(fmt.Sprintf("C09/hang/%s/%016x", what, fnvBytes(data)), "the call did not return within a time budget that depends on the input size only (numbers written in the input drive the running time)",
			map[string]interface{}{"what": what, "len": len(data), "budget_ms": budget.Milliseconds(), "data": hexs(trunc(data, 4000))})
		c.extra["aborted_after_hang"] = true
		c.finish()
		os.Exit(0)
	}
	return measured{}
}

func measureLoad(name string, data []byte) measured {
	var m0, m1 runtime.MemStats
	runtime.ReadMemStats(&m0)
	t0 := time.Now()
	md, _, err, p := safeLoad(loaders[name], bytes.NewReader(data))
	out := metaOut(md, err, p)
	if strings.HasPrefix(out, "ok ") {
		prof := "none"
		func() {
			defer func() {
				if x := recover(); x != nil {
					prof = "panic-escaped"
				}
			}()
			pr, perr := md.ICCProfile()
			switch {
			case perr != nil:
				prof = "err"
			case pr == nil:
				prof = "none"
			default:
				s, derr := pr.Description()
				if derr != nil {
					prof = "ok desc=err"
				} else {
					prof = "ok desc=" + hexs([]byte(s))
				}
			}
		}()
		out += " prof=" + prof
	}
	el := time.Since(t0)
	runtime.ReadMemStats(&m1)
	return measured{out, m1.TotalAlloc - m0.TotalAlloc, el}
}

func measureIcc(data []byte) measured {
	var m0, m1 runtime.MemStats
	runtime.ReadMemStats(&m0)
	t0 := time.Now()
	out, _ := iccOut(data)
	el := time.Since(t0)
	runtime.ReadMemStats(&m1)
	return measured{out, m1.TotalAlloc - m0.TotalAlloc, el}
}

// modelCost asks the model how many reader steps and allocated bytes its run of this input costs.
func modelCost(format string, data []byte, oracle string) (steps, alloc uint64, ok bool) {
	ans := driver().ask("cost " + format + " " + hexs(data) + oracle)
	for _, t := range strings.Fields(ans) {
		if strings.HasPrefix(t, "steps=") {
			steps, _ = strconv.ParseUint(t[6:], 10, 64)
			ok = true
		}
		if strings.HasPrefix(t, "alloc=") {
			alloc, _ = strconv.ParseUint(t[6:], 10, 64)
		}
	}
	return
}

func c09Case(c *corrCtx, class, format string, data []byte) {
	n := uint64(len(data))
	c.mark(fmt.Sprintf("hostile input class=%s format=%s len=%d hex=%s", class, format, len(data), hexs(trunc(data, 2000))))
	if format == "icc" {
		m := withDeadline(c, "icc", data, func() measured { return measureIcc(data) })
		c.emit(class+"/icc", "icc eof "+hexs(data), m.out)
		c09Budget(c, class, "icc", data, m, 64*n+(1<<20))
		return
	}
	for _, ld := range []string{format, "auto"} {
		m := withDeadline(c, ld, data, func() measured { return measureLoad(ld, data) })
		oracle := ""
		if ld == "png" || ld == "auto" {
			oracle = pngOracle(data)
		}
		c.emit(class+"/"+ld, "loadp "+ld+" "+hexs(data)+oracle, m.out)
		bound := 64*n + (1 << 20)
		if format == "png" || ld == "auto" {
			// zlib may legitimately expand 1032:1; take the model's accounting of what was inflated
			if _, alloc, ok := modelCost("png", data, oracle); ok {
				bound += 8 * alloc
			}
		}
		c09Budget(c, class, ld, data, m, bound)
	}
}

func c09Budget(c *corrCtx, class, ld string, data []byte, m measured, allocBound uint64) {
	if strings.Contains(m.out, "panic-escaped") {
		c.direct(fmt.Sprintf("C09/panic/%s/%s/%016x", class, ld, fnvBytes(data)), "a panic escaped to the caller",
			map[string]interface{}{"loader": ld, "len": len(data), "data": hexs(trunc(data, 400)), "out": m.out})
	}
	if m.alloc > allocBound {
		c.direct(fmt.Sprintf("C09/alloc/%s/%s/%016x", class, ld, fnvBytes(data)), "allocation is not bounded by a linear function of the input size",
			map[string]interface{}{"loader": ld, "len": len(data), "allocated": m.alloc, "bound": allocBound, "data": hexs(trunc(data, 400))})
	}
	if m.elapsed > time.Second+time.Duration(len(data))*20*time.Microsecond {
		c.direct(fmt.Sprintf("C09/time/%s/%s/%016x", class, ld, fnvBytes(data)), "running time grows with numbers written in the input, not its size",
			map[string]interface{}{"loader": ld, "len": len(data), "elapsed_ms": m.elapsed.Milliseconds(), "data": hexs(trunc(data, 400))})
	}
	if m.alloc > uint64Max(c.extra, "max_alloc") {
		c.extra["max_alloc"] = m.alloc
		c.extra["max_alloc_len"] = len(data)
	}
}

func uint64Max(m map[string]interface{}, k string) uint64 {
	if v, ok := m[k].(uint64); ok {
		return v
	}
	return 0
}

func mutate(r *rng, d []byte) []byte {
	out := append([]byte{}, d...)
	for k := 1 + r.intn(3); k > 0 && len(out) > 0; k-- {
		switch r.intn(6) {
		case 0:
			out[r.intn(len(out))] ^= byte(1 << uint(r.intn(8)))
		case 1:
			out[r.intn(len(out))] = byte(r.pick(0, 1, 0x7f, 0x80, 0xff))
		case 2:
			i := r.intn(len(out))
			out = append(out[:i], out[i+1:]...)
		case 3:
			i := r.intn(len(out) + 1)
			out = append(out[:i], append([]byte{byte(r.next())}, out[i:]...)...)
		case 4:
			out = out[:r.intn(len(out)+1)]
		default:
			i := r.intn(len(out))
			j := i + r.intn(8)
			if j > len(out) {
				j = len(out)
			}
			copy(out[i:j], r.bytes(j-i))
		}
	}
	return out
}

func corrC09(c *corrCtx) {
	// ICC: many tags, distinct signatures, every one declaring the whole (genuinely present) data block
	for _, sh := range [][2]int{{200, 20000}, {2000, 70000}} {
		nt, bl := sh[0], sh[1]
		hd := iccHeader(c.rng)
		prof := append([]byte{}, hd[:]...)
		prof = append(prof, be32(uint32(nt))...)
		tdo := uint32(132 + 12*nt)
		for k := 0; k < nt; k++ {
			prof = append(prof, be32(0x74300000+uint32(k))...)
			prof = append(prof, be32(tdo)...)
			prof = append(prof, be32(uint32(bl))...)
		}
		prof = append(prof, c.rng.bytes(bl)...)
		c09Case(c, "icc/shared-block", "icc", prof)
	}
	r := c.rng
	type seed struct {
		format string
		data   []byte
	}
	var seeds []seed
	for _, s := range seedFiles(r, true) {
		seeds = append(seeds, seed{s.format, s.data})
	}
	for i := 0; i < 4; i++ {
		d, _ := randIccDesc(r, 5)
		for len(d.tags) == 0 {
			d, _ = randIccDesc(r, 5)
		}
		prof := d.build()
		seeds = append(seeds, seed{"icc", prof})
		// the same profile embedded in each container, so the accessors are reached through loaders
		pd := randPngDesc(r, true, prof)
		pd.pre, pd.post = nil, nil
		b, _ := pd.build()
		seeds = append(seeds, seed{"png", b})
		jd := randJpegDesc(r)
		jd.segsBefore = nil
		jd.iccSegs = splitICC(prof, []int{len(prof)})
		b, _ = jd.build()
		seeds = append(seeds, seed{"jpeg", b})
		wd := randWebpDesc(r, "VP8X", prof)
		b, _ = wd.build()
		seeds = append(seeds, seed{"webp", b})
	}
	// zero-tag profile and other hand-made corner cases
	hd := iccHeader(r)
	seeds = append(seeds, seed{"icc", append(hd[:], 0, 0, 0, 0)})
	// description blocks that are the last bytes of the profile (nothing behind them to over-read into),
	// alone and after other tags, both encodings
	for k := 0; k < 4; k++ {
		d := &iccDesc{header: iccHeader(r), share: map[int]int{}}
		if k >= 2 {
			d.tags = append(d.tags, iccTag{0x63707274, r.bytes(24)}, iccTag{0x77747074, r.bytes(20)})
		}
		if k%2 == 0 {
			d.tags = append(d.tags, iccTag{0x64657363, textDescTag([]byte("Display P3"))})
		} else {
			d.tags = append(d.tags, iccTag{0x64657363, mlucTag([]mlucRec{{lang: [2]byte{'e', 'n'}, country: [2]byte{'U', 'S'}, text: randText(r, 9)}}, nil, map[int]int{}, 12, 0)})
		}
		seeds = append(seeds, seed{"icc", d.build()})
	}
	// the larger well-formed files as they are (structures at their extremes — 255 ICC chunks, profiles beyond the
	// buffer size, kilobytes of ancillary segments): a valid file is the first thing that must return within budget
	for _, s := range seedFiles(r, false) {
		c09Case(c, "valid/"+s.name, s.format, s.data)
	}
	// (a) field matrix
	perField := 10
	if c.thorough() {
		perField = len(boundaryVals) + 6
	}
	for _, s := range seeds {
		for _, f := range fieldsOf(s.format, s.data) {
			cur := getField(s.data, f)
			vals := append([]uint64{}, boundaryVals...)
			vals = append(vals, cur+1, cur-1, (1<<32)-cur, (1<<32)-cur-1, cur+4, cur*2)
			// relational values: around the number of bytes actually present behind the field
			rest := uint64(len(s.data) - f.off - f.width)
			var rel []uint64
			for k := -14; k <= 14; k++ {
				if v := int64(rest) + int64(k); v >= 0 {
					rel = append(rel, uint64(v))
				}
			}
			if s.format == "icc" {
				for _, v := range rel {
					c09Case(c, "field-rel/"+s.format, s.format, setField(s.data, f, v))
				}
			} else if len(rel) > 0 {
				vals = append(vals, rel[r.intn(len(rel))], rest, rest+1)
			}
			if !c.thorough() {
				// a deterministic-per-seed sample of the matrix; always the extremes
				for k := len(vals) - 1; k > 0; k-- {
					j := r.intn(k + 1)
					vals[k], vals[j] = vals[j], vals[k]
				}
				vals = append(vals[:perField-3], 0, 0xffffffff, (1<<32)-cur)
			}
			for _, v := range vals {
				c09Case(c, "field/"+s.format, s.format, setField(s.data, f, v))
			}
		}
	}
	// (a') pairs of neighbouring fields driven together (a count with its record size, a length with
	// its offset, ...): the extremes always, a seeded sample of the rest
	extremes := []uint64{0, 1, 12, 0x7fffffff, 0xfffffff0, 0xffffffff}
	for _, s := range seeds {
		fs := fieldsOf(s.format, s.data)
		for i := 0; i+1 < len(fs); i++ {
			if fs[i+1].off-fs[i].off > 16 {
				continue
			}
			for _, v1 := range extremes {
				for _, v2 := range extremes {
					if !c.thorough() && r.intn(3) != 0 && !(v1 == 0 || v2 == 0) {
						continue
					}
					c09Case(c, "pair/"+s.format, s.format, setField(setField(s.data, fs[i], v1), fs[i+1], v2))
				}
			}
		}
	}
	// (b) structure-aware mutation
	nm := 25
	if c.thorough() {
		nm = 600
	}
	for _, s := range seeds {
		for i := 0; i < nm; i++ {
			c09Case(c, "mutate/"+s.format, s.format, mutate(r, s.data))
		}
	}
	// (c) every truncation of every (small) seed
	for _, s := range seeds {
		stride := 1
		if !c.thorough() && len(s.data) > 300 {
			stride = len(s.data)/300 + 1
		}
		for cut := 0; cut < len(s.data); cut += stride {
			c09Case(c, "trunc/"+s.format, s.format, s.data[:cut])
		}
	}
	// (d) zlib bomb: a small iCCP payload that inflates 1000:1
	bomb := zlibCompress(make([]byte, 2<<20), 9)
	pd := randPngDesc(r, true, nil)
	pd.iccZ = bomb
	b, _ := pd.build()
	c09Case(c, "zlibbomb", "png", b)
}
