package main

import (
	"bytes"
	"fmt"
	"io"
	"strings"
)

func init() { corrFuncs["C18"] = corrC18 }

// tailSource: prefix bytes followed by `tail` zero bytes that are never materialised.
type tailSource struct {
	prefix []byte
	tail   int64
	pos    int64
	sched  []int
	calls  int
}

func (t *tailSource) Read(p []byte) (int, error) {
	total := int64(len(t.prefix)) + t.tail
	if len(p) == 0 {
		return 0, nil
	}
	if t.pos >= total {
		return 0, io.EOF
	}
	want := len(p)
	if len(t.sched) > 0 {
		want = t.sched[t.calls%len(t.sched)]
	}
	if want == 0 {
		want = 1
	}
	if want > len(p) {
		want = len(p)
	}
	if int64(want) > total-t.pos {
		want = int(total - t.pos)
	}
	for i := 0; i < want; i++ {
		q := t.pos + int64(i)
		if q < int64(len(t.prefix)) {
			p[i] = t.prefix[q]
		} else {
			p[i] = 0
		}
	}
	t.pos += int64(want)
	t.calls++
	return want, nil
}

func c18Case(c *corrCtx, class, ld string, prefix []byte, needed int, tail int64, sched []int) {
	src := &tailSource{prefix: prefix, tail: tail, sched: sched}
	md, _, err, p := safeLoad(loaders[ld], src)
	meta := metaOut(md, err, p)
	pulled := src.pos
	oracle := ""
	if ld == "png" || ld == "auto" {
		oracle = pngOracle(prefix)
	}
	c.emit(class+"/"+ld, fmt.Sprintf("pullx %s %s %d %s%s", ld, schedStr(sched), tail, hexs(prefix), oracle), fmt.Sprintf("%s pulled=%d", meta, pulled))
	// the property's own oracle
	if pulled > int64(needed)+65536 {
		c.direct(fmt.Sprintf("C18/%s/%s/pulled", class, ld), "loader pulled more than the needed bytes plus 64 KiB of read-ahead",
			map[string]interface{}{"loader": ld, "needed": needed, "pulled": pulled, "body": tail, "sched": schedStr(sched), "prefix": hexs(trunc(prefix, 200))})
	}
	if needed <= len(prefix) {
		cut := runLoadx(ld, prefix[:needed], nil, false, false).meta
		if cut != meta {
			c.direct(fmt.Sprintf("C18/%s/%s/truncated", class, ld), "loading the file truncated after the last needed structure gives a different result",
				map[string]interface{}{"loader": ld, "needed": needed, "full": meta, "truncated": cut, "prefix": hexs(trunc(prefix, 200))})
		}
		// ... and when the truncated file arrives through a reader whose type reveals how much is left (in-memory readers
		// with Len(), seekable ones): knowing that the body is absent must not change what the header says
		for _, ts := range []struct {
			name string
			mk   func(b []byte) io.Reader
		}{
			{"*bytes.Reader", func(b []byte) io.Reader { return bytes.NewReader(b) }},
			{"*bytes.Buffer", func(b []byte) io.Reader { return bytes.NewBuffer(append([]byte{}, b...)) }},
			{"*strings.Reader", func(b []byte) io.Reader { return strings.NewReader(string(b)) }},
			{"*io.SectionReader", func(b []byte) io.Reader { return io.NewSectionReader(bytes.NewReader(b), 0, int64(len(b))) }},
		} {
			md, _, err, p := safeLoad(loaders[ld], ts.mk(prefix[:needed]))
			if got := metaOut(md, err, p); got != meta {
				c.direct(fmt.Sprintf("C18/%s/%s/truncated-typed/%s", class, ld, ts.name), "loading the file truncated after the last needed structure gives a different result when the source's type reveals its remaining size",
					map[string]interface{}{"loader": ld, "source_type": ts.name, "needed": needed, "full": meta, "truncated": got, "prefix": hexs(trunc(prefix, 200))})
				break
			}
		}
		// ... also when the source hands over its last bytes together with io.EOF (whole, or in large pieces)
		for _, sc := range [][]int{nil, {65536}, {4096}, {32768, 5000}} {
			cutE := runLoadx(ld, prefix[:needed], sc, false, true).meta
			if cutE != meta {
				c.direct(fmt.Sprintf("C18/%s/%s/truncated-eof-with-data", class, ld), "loading the file truncated after the last needed structure gives a different result when the source returns its final bytes together with io.EOF",
					map[string]interface{}{"loader": ld, "needed": needed, "full": meta, "truncated": cutE, "sched": schedStr(sc), "prefix": hexs(trunc(prefix, 200))})
				break
			}
		}
	}
}

func corrC18(c *corrCtx) {
	r := c.rng
	tails := []int64{0, 1, 4095, 4096, 4097, 65536, 100000, 1 << 20}
	if c.thorough() {
		tails = append(tails, 16<<20, 64<<20)
	}
	reps := 3
	if c.thorough() {
		reps = 14
	}
	for rep := 0; rep < reps; rep++ {
		for _, withICC := range []bool{false, true} {
			psz := []int{70001, 557, 140000, 4096, 1, 9000, 65537, 4000, 700000, 65536}[rep%10]
			if rep >= 10 {
				psz = r.pick(1, 300, 4000, 4096, 9000, 70000, 100000)
			}
			p := randProfilePayload(r, psz)
			// PNG: ICC before or after other ancillary data
			pd := randPngDesc(r, withICC, p)
			pd.body = nil
			full, needed := pd.build()
			idat := needed
			if withICC {
				// prefix must reach the IDAT header; find it
				idat = len(full) - 12 - 12 // IDAT(empty)+IEND
			} else {
				idat = needed - 8
			}
			prefix := append(append([]byte{}, full[:idat]...), 0x7f, 0xff, 0xff, 0xff, 'I', 'D', 'A', 'T')
			// JPEG
			jd := randJpegDesc(r)
			jd.body = nil
			switch rep % 4 {
			case 1: // a frame header that defers its line count (lines = 0), or zero samples per line
				jd.h = 0
				if jd.w == 0 {
					jd.w = 640
				}
			case 2:
				jd.w = 0
			case 3:
				jd.w, jd.h = 65535, 65535
			}
			if withICC {
				k := 1 + r.intn(3)
				szs := make([]int, k)
				rem := len(p)
				for j := 0; j < k; j++ {
					szs[j] = rem / (k - j)
					rem -= szs[j]
				}
				if szs[0] == 0 {
					szs = []int{len(p)}
				}
				jd.iccSegs = splitICC(p, szs)
				jd.iccAfterSOF = r.intn(2) == 0
			}
			jfull, jneeded := jd.build()
			jprefix := jfull[:len(jfull)-2] // drop EOI: entropy-coded data follows
			// WebP
			kind := []string{"VP8", "VP8L", "VP8X"}[rep%3]
			r.intn(3)
			var icc []byte
			if withICC {
				kind = "VP8X"
				icc = p
			}
			wd := randWebpDesc(r, kind, icc)
			wd.body = nil
			if kind == "VP8X" && (rep%2 == 0 || withICC) {
				// extended-format chunks that are image data too (an alpha plane, animation frames) in front
				// of the bitstream chunk: nothing behind the header part (and the ICCP chunk) is needed
				wd.alpha = true
				wd.between = append(riffChunk("ALPH", make([]byte, r.pick(70000, 300000, 1<<20))), riffChunk("EXIF", r.bytes(100))...)
			}
			wfull, wneeded := wd.build()
			for _, tail := range tails {
				scheds := [][]int{nil, fixedScheds[1+r.intn(len(fixedScheds)-1)], randSched(r)}
				for _, sc := range scheds {
					if tail > 1<<20 && len(sc) > 0 && sc[0] < 64 {
						continue
					}
					for _, ld := range []string{"png", "auto"} {
						c18Case(c, fmt.Sprintf("png/icc=%v", withICC), ld, prefix, needed, tail, sc)
					}
					for _, ld := range []string{"jpeg", "auto"} {
						c18Case(c, fmt.Sprintf("jpeg/icc=%v", withICC), ld, jprefix, jneeded, tail, sc)
					}
					for _, ld := range []string{"webp", "auto"} {
						c18Case(c, fmt.Sprintf("webp/%s/icc=%v", kind, withICC), ld, wfull, wneeded, tail, sc)
					}
				}
			}
		}
	}
	// PNG iCCP with every boundary length of the profile name (1..79 bytes are legal), Latin-1 names included
	for _, nl := range []int{1, 2, 40, 77, 78, 79} {
		for _, latin1 := range []bool{false, true} {
			pd := randPngDesc(r, true, randProfilePayload(r, r.pick(300, 3000, 9000)))
			name := make([]byte, nl)
			for k := range name {
				name[k] = byte(33 + r.intn(90))
				if latin1 && k%2 == 0 {
					name[k] = byte(161 + r.intn(95))
				}
			}
			pd.iccName = string(name)
			pd.body = nil
			full, needed := pd.build()
			prefix := append(append([]byte{}, full[:len(full)-24]...), 0x7f, 0xff, 0xff, 0xff, 'I', 'D', 'A', 'T')
			for _, tail := range []int64{0, 4097, 100000, 1 << 20} {
				for _, sc := range [][]int{nil, {7}} {
					for _, ld := range []string{"png", "auto"} {
						c18Case(c, fmt.Sprintf("png/name-len/%d", nl), ld, prefix, needed, tail, sc)
					}
				}
			}
		}
	}
}
