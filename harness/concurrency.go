package main

import (
	"fmt"
	"go/ast"
	"go/parser"
	"go/token"
	"os"
	"os/exec"
	"path/filepath"
	"sort"
	"strings"
)

// The concurrency surface of the library, syntactically (go/ast), regenerated on every run as
// Prism/Gen/Concurrency.lean.  C11's model has two protocols — sync.Once-guarded lazy initialisation and the
// fork/join of parallel.RunWorkers — and is only a model of the library if those are all the concurrency there
// is: no `go` statement, no channel, no sync primitive other than Once in the library's own (non-test) source,
// and a RunWorkers (in the pinned dependency github.com/mandykoh/go-parallel) of the shape the model has:
// WaitGroup.Add(n) before any goroutine is started, `defer Done()` first in each goroutine, Wait() last.

type concSurface struct {
	goStmts  []string // pkg:func of every `go` statement
	syncUses []string // distinct sync.X selectors used
	chans    []string // pkg:func of every channel type, make(chan), send, receive or select
	rwCalls  int      // number of parallel.RunWorkers call sites
	rwShape  []string // facts about RunWorkers in the dependency
}

func walkRepoDirs(repo string) []string {
	var dirs []string
	filepath.Walk(repo, func(p string, info os.FileInfo, e error) error {
		if e != nil {
			return nil
		}
		if info.IsDir() {
			n := info.Name()
			if strings.HasPrefix(n, ".") || n == "test-images" || n == "test-profiles" || n == "doc-images" || n == "example-output" {
				return filepath.SkipDir
			}
			dirs = append(dirs, p)
		}
		return nil
	})
	sort.Strings(dirs)
	return dirs
}

func extractConcurrency(repo string) (concSurface, error) {
	var cs concSurface
	syncSet := map[string]bool{}
	for _, dir := range walkRepoDirs(repo) {
		fset := token.NewFileSet()
		pkgs, err := parser.ParseDir(fset, dir, func(fi os.FileInfo) bool { return !strings.HasSuffix(fi.Name(), "_test.go") }, 0)
		if err != nil {
			return cs, err
		}
		rel, _ := filepath.Rel(repo, dir)
		for pname, pkg := range pkgs {
			for _, f := range pkg.Files {
				// local name of the sync and go-parallel imports in this file
				syncName, parName := "", ""
				for _, im := range f.Imports {
					path := strings.Trim(im.Path.Value, `"`)
					name := filepath.Base(path)
					if im.Name != nil {
						name = im.Name.Name
					}
					switch path {
					case "sync":
						syncName = name
					case "sync/atomic":
						syncSet["sync/atomic"] = true
					case "github.com/mandykoh/go-parallel":
						if im.Name == nil {
							name = "parallel"
						}
						parName = name
					}
				}
				for _, d := range f.Decls {
					fn := "<decl>"
					if fd, ok := d.(*ast.FuncDecl); ok {
						fn = fd.Name.Name
					}
					where := rel + ":" + pname + ":" + fn
					ast.Inspect(d, func(n ast.Node) bool {
						switch t := n.(type) {
						case *ast.GoStmt:
							cs.goStmts = append(cs.goStmts, where)
						case *ast.ChanType, *ast.SendStmt, *ast.SelectStmt:
							cs.chans = append(cs.chans, where)
						case *ast.UnaryExpr:
							if t.Op == token.ARROW {
								cs.chans = append(cs.chans, where)
							}
						case *ast.SelectorExpr:
							if x, ok := t.X.(*ast.Ident); ok {
								if syncName != "" && x.Name == syncName && x.Obj == nil {
									syncSet["sync."+t.Sel.Name] = true
								}
								if parName != "" && x.Name == parName && x.Obj == nil && t.Sel.Name == "RunWorkers" {
									cs.rwCalls++
								}
							}
						}
						return true
					})
				}
			}
		}
	}
	for k := range syncSet {
		cs.syncUses = append(cs.syncUses, k)
	}
	sort.Strings(cs.syncUses)
	sort.Strings(cs.goStmts)
	sort.Strings(cs.chans)
	cs.rwShape = runWorkersShape(repo)
	return cs, nil
}

// runWorkersShape parses RunWorkers in the dependency the library's go.mod pins.
func runWorkersShape(repo string) []string {
	cmd := exec.Command("go", "list", "-m", "-f", "{{.Dir}}", "github.com/mandykoh/go-parallel")
	cmd.Dir = repo
	cmd.Env = append(os.Environ(), "GOFLAGS=-mod=mod", "GOPROXY=off", "GOSUMDB=off", "GOTOOLCHAIN=local")
	out, err := cmd.Output()
	dir := strings.TrimSpace(string(out))
	if err != nil || dir == "" {
		return []string{"dependency-not-found"}
	}
	fset := token.NewFileSet()
	pkgs, err := parser.ParseDir(fset, dir, func(fi os.FileInfo) bool { return !strings.HasSuffix(fi.Name(), "_test.go") }, 0)
	if err != nil {
		return []string{"dependency-does-not-parse"}
	}
	var facts []string
	found := false
	for _, pkg := range pkgs {
		for _, f := range pkg.Files {
			for _, d := range f.Decls {
				fd, ok := d.(*ast.FuncDecl)
				if !ok || fd.Name.Name != "RunWorkers" || fd.Recv != nil || fd.Body == nil {
					continue
				}
				found = true
				isCall := func(s ast.Stmt, method string) bool {
					es, ok := s.(*ast.ExprStmt)
					if !ok {
						return false
					}
					c, ok := es.X.(*ast.CallExpr)
					if !ok {
						return false
					}
					se, ok := c.Fun.(*ast.SelectorExpr)
					return ok && se.Sel.Name == method
				}
				body := fd.Body.List
				// Add(n) as a statement of the function itself, before the first statement that contains a `go`
				addAt, goAt := -1, -1
				for i, s := range body {
					if addAt < 0 && isCall(s, "Add") {
						if c := s.(*ast.ExprStmt).X.(*ast.CallExpr); len(c.Args) == 1 {
							if id, ok := c.Args[0].(*ast.Ident); ok && len(fd.Type.Params.List) > 0 && len(fd.Type.Params.List[0].Names) > 0 && id.Name == fd.Type.Params.List[0].Names[0].Name {
								addAt = i
							}
						}
					}
					hasGo := false
					ast.Inspect(s, func(n ast.Node) bool {
						if _, ok := n.(*ast.GoStmt); ok {
							hasGo = true
						}
						return true
					})
					if hasGo && goAt < 0 {
						goAt = i
					}
				}
				if addAt >= 0 && goAt > addAt {
					facts = append(facts, "add-n-before-spawn")
				}
				// inside each goroutine: `defer X.Done()` first, no Add
				ngo, deferFirst, addInside := 0, 0, 0
				ast.Inspect(fd.Body, func(n ast.Node) bool {
					g, ok := n.(*ast.GoStmt)
					if !ok {
						return true
					}
					ngo++
					if fl, ok := g.Call.Fun.(*ast.FuncLit); ok {
						if len(fl.Body.List) > 0 {
							if ds, ok := fl.Body.List[0].(*ast.DeferStmt); ok {
								if se, ok := ds.Call.Fun.(*ast.SelectorExpr); ok && se.Sel.Name == "Done" {
									deferFirst++
								}
							}
						}
						ast.Inspect(fl.Body, func(m ast.Node) bool {
							if c, ok := m.(*ast.CallExpr); ok {
								if se, ok := c.Fun.(*ast.SelectorExpr); ok && se.Sel.Name == "Add" {
									addInside++
								}
							}
							return true
						})
					}
					return true
				})
				if ngo == 1 && deferFirst == 1 {
					facts = append(facts, "defer-done-first")
				}
				if addInside > 0 {
					facts = append(facts, "add-inside-goroutine")
				}
				if len(body) > 0 && isCall(body[len(body)-1], "Wait") {
					facts = append(facts, "wait-last")
				}
			}
		}
	}
	if !found {
		return []string{"RunWorkers-not-found"}
	}
	return facts
}

func leanStrList(xs []string) string {
	var sb strings.Builder
	sb.WriteString("[")
	for i, x := range xs {
		if i > 0 {
			sb.WriteString(", ")
		}
		fmt.Fprintf(&sb, "%q", x)
	}
	sb.WriteString("]")
	return sb.String()
}

func emitConcurrencyLean(repo string) (string, error) {
	cs, err := extractConcurrency(repo)
	if err != nil {
		return "", err
	}
	var sb strings.Builder
	sb.WriteString(genHeader)
	sb.WriteString("namespace Prism.Gen\n\n")
	sb.WriteString("/-- every `go` statement in the library's own non-test source (directory:package:function) -/\n")
	sb.WriteString("def goStatements : List String := " + leanStrList(cs.goStmts) + "\n\n")
	sb.WriteString("/-- every channel type, send, receive or select in the library's own non-test source -/\n")
	sb.WriteString("def channelUses : List String := " + leanStrList(cs.chans) + "\n\n")
	sb.WriteString("/-- the distinct `sync` (and sync/atomic) names the library's own non-test source uses -/\n")
	sb.WriteString("def syncUses : List String := " + leanStrList(cs.syncUses) + "\n\n")
	sb.WriteString("/-- call sites of parallel.RunWorkers -/\n")
	fmt.Fprintf(&sb, "def runWorkersCalls : Nat := %d\n\n", cs.rwCalls)
	sb.WriteString("/-- shape of RunWorkers in the pinned dependency github.com/mandykoh/go-parallel -/\n")
	sb.WriteString("def runWorkersShape : List String := " + leanStrList(cs.rwShape) + "\n\nend Prism.Gen\n")
	return sb.String(), nil
}
