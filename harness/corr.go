package main

import (
	"fmt"
	"os"
	"strconv"
)

// runCorr writes <outdir>/ops.txt (one operation per line, for the Lean model driver),
// <outdir>/impl.txt (what the real code answered, same line order) and
// <outdir>/stats.json (generator distribution). The check script pipes ops.txt through
// the driver and diffs.
func runCorr(id, tier, seedStr, outdir string) int {
	seed, _ := strconv.ParseUint(seedStr, 10, 64)
	if err := os.MkdirAll(outdir, 0o755); err != nil {
		fmt.Fprintln(os.Stderr, err)
		return 2
	}
	ctx, err := newCorrCtx(id, tier, seed, outdir)
	if err != nil {
		fmt.Fprintln(os.Stderr, err)
		return 2
	}
	f, ok := corrFuncs[id]
	if !ok {
		fmt.Fprintln(os.Stderr, "no correspondence generator for", id)
		return 2
	}
	f(ctx)
	if err := ctx.finish(); err != nil {
		fmt.Fprintln(os.Stderr, err)
		return 2
	}
	return 0
}

var corrFuncs = map[string]func(*corrCtx){}

func runSearch(args []string) int {
	if len(args) < 1 {
		usage()
	}
	f, ok := searchFuncs[args[0]]
	if !ok {
		fmt.Fprintln(os.Stderr, "no search for", args[0])
		return 2
	}
	return f(args[1:])
}

var searchFuncs = map[string]func([]string) int{}
