package main

import (
	"encoding/json"
	"fmt"
	"os"
	"path/filepath"
	"sort"
)

// corrCtx collects the two line streams of one correspondence run and its statistics.
type corrCtx struct {
	id, tier string
	seed     uint64
	rng      *rng
	outdir   string
	ops      *lineWriter
	impl     *lineWriter
	stats    map[string]int
	samples  []string
	distinct map[uint64]struct{}
	extra    map[string]interface{}
}

func newCorrCtx(id, tier string, seed uint64, outdir string) (*corrCtx, error) {
	ops, err := newLineWriter(filepath.Join(outdir, "ops.txt"))
	if err != nil {
		return nil, err
	}
	impl, err := newLineWriter(filepath.Join(outdir, "impl.txt"))
	if err != nil {
		return nil, err
	}
	return &corrCtx{id: id, tier: tier, seed: seed, rng: newRng(seed), outdir: outdir, ops: ops, impl: impl,
		stats: map[string]int{}, distinct: map[uint64]struct{}{}, extra: map[string]interface{}{}}, nil
}

func (c *corrCtx) thorough() bool { return c.tier == "thorough" }

// mark records the case about to be run, so that if the library kills the process (a panic in
// one of its worker goroutines, an out-of-memory kill) the check can name the input.
func (c *corrCtx) mark(desc string) {
	_ = os.WriteFile(filepath.Join(c.outdir, "current_case.txt"), []byte(desc), 0o644)
}

// emit records one case: the op line for the model and the implementation's answer.
// class names the generator branch (for the distribution in the evidence).
func (c *corrCtx) emit(class, op, implOut string) {
	c.ops.printf("%s\n", op)
	c.impl.printf("%s\n", implOut)
	c.stats[class]++
	h := newFnv()
	for i := 0; i < len(op); i++ {
		h.h ^= uint64(op[i])
		h.h *= 0x100000001b3
	}
	c.distinct[h.h] = struct{}{}
	if len(c.samples) < 6 || (c.stats[class] == 1 && len(c.samples) < 24) {
		s := op
		if len(s) > 300 {
			s = s[:300] + "…"
		}
		o := implOut
		if len(o) > 200 {
			o = o[:200] + "…"
		}
		c.samples = append(c.samples, s+" => "+o)
	}
}

func (c *corrCtx) finish() error {
	if err := c.ops.close(); err != nil {
		return err
	}
	if err := c.impl.close(); err != nil {
		return err
	}
	keys := make([]string, 0, len(c.stats))
	for k := range c.stats {
		keys = append(keys, k)
	}
	sort.Strings(keys)
	out := map[string]interface{}{
		"lines":        c.ops.n,
		"distinct_ops": len(c.distinct),
		"classes":      c.stats,
		"samples":      c.samples,
		"extra":        c.extra,
	}
	b, err := json.MarshalIndent(out, "", " ")
	if err != nil {
		return fmt.Errorf("cannot encode the run's statistics: %v", err)
	}
	return os.WriteFile(filepath.Join(c.outdir, "stats.json"), b, 0o644)
}
