package main

import (
	"fmt"

	"github.com/mandykoh/prism/adobergb"
	"github.com/mandykoh/prism/ciexyy"
	"github.com/mandykoh/prism/ciexyz"
	"github.com/mandykoh/prism/displayp3"
	"github.com/mandykoh/prism/prophotorgb"
	"github.com/mandykoh/prism/srgb"
)

// the exported declarations of each space (package-level variables a caller can assign to)
var declVars = map[string][4]*ciexyy.Color{
	"srgb":     {&srgb.PrimaryRed, &srgb.PrimaryGreen, &srgb.PrimaryBlue, &srgb.StandardWhitePoint},
	"adobe":    {&adobergb.PrimaryRed, &adobergb.PrimaryGreen, &adobergb.PrimaryBlue, &adobergb.StandardWhitePoint},
	"prophoto": {&prophotorgb.PrimaryRed, &prophotorgb.PrimaryGreen, &prophotorgb.PrimaryBlue, &prophotorgb.StandardWhitePoint},
	"p3":       {&displayp3.PrimaryRed, &displayp3.PrimaryGreen, &displayp3.PrimaryBlue, &displayp3.StandardWhitePoint},
}

// declHistories: the declared chromaticities are exported variables.  Whatever a caller does to them in between,
// once every one of them holds its published value again the conversions must be what they were: assign other values to
// one, several or all of them, convert, restore in every order (converting between the steps), and compare with the
// results taken before — bit for bit.  Runs last in C03 and always restores.
func declHistories(c *corrCtx) {
	r := c.rng
	probes := [][3]float32{{1, 1, 1}, {1, 0, 0}, {0, 1, 0}, {0, 0, 1}, {0.25, 0.5, 0.75}}
	// other values: the corresponding declaration of another published space (so that every intermediate
	// declaration is still a proper triangle with the white inside)
	altSets := [][4]ciexyy.Color{
		{{X: 0.64, Y: 0.33, YY: 1}, {X: 0.21, Y: 0.71, YY: 1}, {X: 0.15, Y: 0.06, YY: 1}, ciexyy.D50},
		{{X: 0.68, Y: 0.32, YY: 1}, {X: 0.265, Y: 0.69, YY: 1}, {X: 0.15, Y: 0.06, YY: 1}, ciexyy.D65},
		{{X: 0.708, Y: 0.292, YY: 1}, {X: 0.17, Y: 0.797, YY: 1}, {X: 0.131, Y: 0.046, YY: 1}, {X: 0.34567, Y: 0.3585, YY: 1}},
		{{X: 0.63, Y: 0.34, YY: 1}, {X: 0.31, Y: 0.595, YY: 1}, {X: 0.155, Y: 0.07, YY: 1}, {X: 0.31006, Y: 0.31616, YY: 1}},
	}
	orders := [][]int{{0, 1, 2, 3}, {3, 2, 1, 0}, {3, 0, 1, 2}, {1, 3, 0, 2}, {2, 0, 3, 1}, {0, 3, 2, 1}}
	for i := range spaces {
		s := &spaces[i]
		vars, ok := declVars[s.name]
		if !ok {
			continue
		}
		orig := [4]ciexyy.Color{*vars[0], *vars[1], *vars[2], *vars[3]}
		restore := func() {
			for k := range vars {
				*vars[k] = orig[k]
			}
		}
		type snap struct {
			to   [5]ciexyz.Color
			from [5][3]float32
		}
		take := func() (sn snap) {
			defer func() { recover() }() // an intermediate declaration the code cannot handle is not what is being checked
			for k, p := range probes {
				sn.to[k] = s.toXYZ(p)
				sn.from[k] = s.fromXYZ(ciexyz.Color{X: p[0], Y: p[1], Z: p[2]})
			}
			return
		}
		base := take()
		func() {
			defer restore()
			for sc := 0; sc < 24; sc++ {
				// which declarations get another value
				mask := 1 + r.intn(15)
				if sc < 4 {
					mask = 1 << uint(sc)
				} else if sc == 4 {
					mask = 15
				} else if sc < 9 {
					mask = 8 | 1<<uint(sc-5) // the white and one primary
				}
				alt := altSets[r.intn(len(altSets))]
				for k := 0; k < 4; k++ {
					if mask&(1<<uint(k)) != 0 {
						*vars[k] = alt[k]
					}
				}
				take()
				ord := orders[sc%len(orders)]
				for _, k := range ord {
					*vars[k] = orig[k]
					take() // a conversion between the steps of the restoration
				}
				after := take()
				c.stats["decl-history/"+s.name]++
				if after != base {
					c.direct(fmt.Sprintf("C03/decl-history/%s/mask%d/order%v", s.name, mask, ord),
						"after the exported declarations (primaries, white point) were assigned other values and restored to the published ones, ToXYZ / ColorFromXYZ differ from before (state that survives the restoration)",
						map[string]interface{}{"space": s.name, "assigned_mask_rgbw": mask, "restore_order": ord,
							"ToXYZ(1,1,1)_before": []float32{base.to[0].X, base.to[0].Y, base.to[0].Z}, "ToXYZ(1,1,1)_after": []float32{after.to[0].X, after.to[0].Y, after.to[0].Z}})
					restore()
					return
				}
			}
		}()
	}
}
