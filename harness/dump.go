package main

import (
	"bytes"
	"fmt"
	"image/color"
	"io"
	"os"
	"path/filepath"
	"strings"

	"github.com/mandykoh/prism/adobergb"
	"github.com/mandykoh/prism/ciexyy"
	"github.com/mandykoh/prism/ciexyz"
	"github.com/mandykoh/prism/displayp3"
	"github.com/mandykoh/prism/meta"
	"github.com/mandykoh/prism/meta/autometa"
	"github.com/mandykoh/prism/meta/jpegmeta"
	"github.com/mandykoh/prism/meta/pngmeta"
	"github.com/mandykoh/prism/meta/webpmeta"
	"github.com/mandykoh/prism/prophotorgb"
	"github.com/mandykoh/prism/srgb"
)

// space bundles the public API of one RGB space so that generic code can drive all four.
type space struct {
	name        string
	from8       func(uint8) float32
	from16      func(uint16) float32
	to8         func(float32) uint8
	to16        func(float32) uint16
	fromNRGBA   func(color.NRGBA) (lin [3]float32, a float32)
	fromRGBA    func(color.RGBA) (lin [3]float32, a float32)
	fromEnc     func(color.Color) (lin [3]float32, a float32)
	fromLinCol  func(color.Color) (lin [3]float32, a float32)
	toNRGBA     func(lin [3]float32, a float32) color.NRGBA
	toRGBA      func(lin [3]float32, a float32) color.RGBA
	toRGBA64    func(lin [3]float32, a float32) color.RGBA64
	toLinRGBA64 func(lin [3]float32, a float32) color.RGBA64
	toXYZ       func(lin [3]float32) ciexyz.Color
	fromXYZ     func(ciexyz.Color) [3]float32
	linearise   func(color.Color) color.RGBA64
	encode      func(color.Color) color.RGBA64
	prim        [3]ciexyy.Color
	white       ciexyy.Color
}

var spaces = []space{
	{
		name: "srgb", from8: srgb.From8Bit, from16: srgb.From16Bit, to8: srgb.To8Bit, to16: srgb.To16Bit,
		fromNRGBA: func(c color.NRGBA) ([3]float32, float32) {
			x, a := srgb.ColorFromNRGBA(c)
			return [3]float32{x.R, x.G, x.B}, a
		},
		fromRGBA: func(c color.RGBA) ([3]float32, float32) {
			x, a := srgb.ColorFromRGBA(c)
			return [3]float32{x.R, x.G, x.B}, a
		},
		fromEnc: func(c color.Color) ([3]float32, float32) {
			x, a := srgb.ColorFromEncodedColor(c)
			return [3]float32{x.R, x.G, x.B}, a
		},
		fromLinCol: func(c color.Color) ([3]float32, float32) {
			x, a := srgb.ColorFromLinearColor(c)
			return [3]float32{x.R, x.G, x.B}, a
		},
		toNRGBA:  func(l [3]float32, a float32) color.NRGBA { return srgb.ColorFromLinear(l[0], l[1], l[2]).ToNRGBA(a) },
		toRGBA:   func(l [3]float32, a float32) color.RGBA { return srgb.ColorFromLinear(l[0], l[1], l[2]).ToRGBA(a) },
		toRGBA64: func(l [3]float32, a float32) color.RGBA64 { return srgb.ColorFromLinear(l[0], l[1], l[2]).ToRGBA64(a) },
		toLinRGBA64: func(l [3]float32, a float32) color.RGBA64 {
			return srgb.ColorFromLinear(l[0], l[1], l[2]).ToLinearRGBA64(a)
		},
		toXYZ:     func(l [3]float32) ciexyz.Color { return srgb.ColorFromLinear(l[0], l[1], l[2]).ToXYZ() },
		fromXYZ:   func(c ciexyz.Color) [3]float32 { x := srgb.ColorFromXYZ(c); return [3]float32{x.R, x.G, x.B} },
		linearise: srgb.LineariseColor, encode: srgb.EncodeColor,
		prim: [3]ciexyy.Color{srgb.PrimaryRed, srgb.PrimaryGreen, srgb.PrimaryBlue}, white: srgb.StandardWhitePoint,
	},
	{
		name: "adobe", from8: adobergb.From8Bit, from16: adobergb.From16Bit, to8: adobergb.To8Bit, to16: adobergb.To16Bit,
		fromNRGBA: func(c color.NRGBA) ([3]float32, float32) {
			x, a := adobergb.ColorFromNRGBA(c)
			return [3]float32{x.R, x.G, x.B}, a
		},
		fromRGBA: func(c color.RGBA) ([3]float32, float32) {
			x, a := adobergb.ColorFromRGBA(c)
			return [3]float32{x.R, x.G, x.B}, a
		},
		fromEnc: func(c color.Color) ([3]float32, float32) {
			x, a := adobergb.ColorFromEncodedColor(c)
			return [3]float32{x.R, x.G, x.B}, a
		},
		fromLinCol: func(c color.Color) ([3]float32, float32) {
			x, a := adobergb.ColorFromLinearColor(c)
			return [3]float32{x.R, x.G, x.B}, a
		},
		toNRGBA: func(l [3]float32, a float32) color.NRGBA {
			return adobergb.ColorFromLinear(l[0], l[1], l[2]).ToNRGBA(a)
		},
		toRGBA: func(l [3]float32, a float32) color.RGBA { return adobergb.ColorFromLinear(l[0], l[1], l[2]).ToRGBA(a) },
		toRGBA64: func(l [3]float32, a float32) color.RGBA64 {
			return adobergb.ColorFromLinear(l[0], l[1], l[2]).ToRGBA64(a)
		},
		toLinRGBA64: func(l [3]float32, a float32) color.RGBA64 {
			return adobergb.ColorFromLinear(l[0], l[1], l[2]).ToLinearRGBA64(a)
		},
		toXYZ:     func(l [3]float32) ciexyz.Color { return adobergb.ColorFromLinear(l[0], l[1], l[2]).ToXYZ() },
		fromXYZ:   func(c ciexyz.Color) [3]float32 { x := adobergb.ColorFromXYZ(c); return [3]float32{x.R, x.G, x.B} },
		linearise: adobergb.LineariseColor, encode: adobergb.EncodeColor,
		prim: [3]ciexyy.Color{adobergb.PrimaryRed, adobergb.PrimaryGreen, adobergb.PrimaryBlue}, white: adobergb.StandardWhitePoint,
	},
	{
		name: "prophoto", from8: prophotorgb.From8Bit, from16: prophotorgb.From16Bit, to8: prophotorgb.To8Bit, to16: prophotorgb.To16Bit,
		fromNRGBA: func(c color.NRGBA) ([3]float32, float32) {
			x, a := prophotorgb.ColorFromNRGBA(c)
			return [3]float32{x.R, x.G, x.B}, a
		},
		fromRGBA: func(c color.RGBA) ([3]float32, float32) {
			x, a := prophotorgb.ColorFromRGBA(c)
			return [3]float32{x.R, x.G, x.B}, a
		},
		fromEnc: func(c color.Color) ([3]float32, float32) {
			x, a := prophotorgb.ColorFromEncodedColor(c)
			return [3]float32{x.R, x.G, x.B}, a
		},
		fromLinCol: func(c color.Color) ([3]float32, float32) {
			x, a := prophotorgb.ColorFromLinearColor(c)
			return [3]float32{x.R, x.G, x.B}, a
		},
		toNRGBA: func(l [3]float32, a float32) color.NRGBA {
			return prophotorgb.ColorFromLinear(l[0], l[1], l[2]).ToNRGBA(a)
		},
		toRGBA: func(l [3]float32, a float32) color.RGBA {
			return prophotorgb.ColorFromLinear(l[0], l[1], l[2]).ToRGBA(a)
		},
		toRGBA64: func(l [3]float32, a float32) color.RGBA64 {
			return prophotorgb.ColorFromLinear(l[0], l[1], l[2]).ToRGBA64(a)
		},
		toLinRGBA64: func(l [3]float32, a float32) color.RGBA64 {
			return prophotorgb.ColorFromLinear(l[0], l[1], l[2]).ToLinearRGBA64(a)
		},
		toXYZ:     func(l [3]float32) ciexyz.Color { return prophotorgb.ColorFromLinear(l[0], l[1], l[2]).ToXYZ() },
		fromXYZ:   func(c ciexyz.Color) [3]float32 { x := prophotorgb.ColorFromXYZ(c); return [3]float32{x.R, x.G, x.B} },
		linearise: prophotorgb.LineariseColor, encode: prophotorgb.EncodeColor,
		prim: [3]ciexyy.Color{prophotorgb.PrimaryRed, prophotorgb.PrimaryGreen, prophotorgb.PrimaryBlue}, white: prophotorgb.StandardWhitePoint,
	},
	{
		name: "p3",
		// Display P3 exposes no per-component functions; they are observed through its colour type.
		from8: func(v uint8) float32 { c, _ := displayp3.ColorFromNRGBA(color.NRGBA{R: v, A: 255}); return c.R },
		from16: func(v uint16) float32 {
			c, _ := displayp3.ColorFromEncodedColor(color.RGBA64{R: v, A: 0xffff})
			return c.R
		},
		to8:  func(v float32) uint8 { return displayp3.ColorFromLinear(v, 0, 0).ToNRGBA(1).R },
		to16: func(v float32) uint16 { return displayp3.ColorFromLinear(v, 0, 0).ToRGBA64(1).R },
		fromNRGBA: func(c color.NRGBA) ([3]float32, float32) {
			x, a := displayp3.ColorFromNRGBA(c)
			return [3]float32{x.R, x.G, x.B}, a
		},
		fromRGBA: func(c color.RGBA) ([3]float32, float32) {
			x, a := displayp3.ColorFromRGBA(c)
			return [3]float32{x.R, x.G, x.B}, a
		},
		fromEnc: func(c color.Color) ([3]float32, float32) {
			x, a := displayp3.ColorFromEncodedColor(c)
			return [3]float32{x.R, x.G, x.B}, a
		},
		fromLinCol: func(c color.Color) ([3]float32, float32) {
			x, a := displayp3.ColorFromLinearColor(c)
			return [3]float32{x.R, x.G, x.B}, a
		},
		toNRGBA: func(l [3]float32, a float32) color.NRGBA {
			return displayp3.ColorFromLinear(l[0], l[1], l[2]).ToNRGBA(a)
		},
		toRGBA: func(l [3]float32, a float32) color.RGBA { return displayp3.ColorFromLinear(l[0], l[1], l[2]).ToRGBA(a) },
		toRGBA64: func(l [3]float32, a float32) color.RGBA64 {
			return displayp3.ColorFromLinear(l[0], l[1], l[2]).ToRGBA64(a)
		},
		toLinRGBA64: func(l [3]float32, a float32) color.RGBA64 {
			return displayp3.ColorFromLinear(l[0], l[1], l[2]).ToLinearRGBA64(a)
		},
		toXYZ:     func(l [3]float32) ciexyz.Color { return displayp3.ColorFromLinear(l[0], l[1], l[2]).ToXYZ() },
		fromXYZ:   func(c ciexyz.Color) [3]float32 { x := displayp3.ColorFromXYZ(c); return [3]float32{x.R, x.G, x.B} },
		linearise: displayp3.LineariseColor, encode: displayp3.EncodeColor,
		prim: [3]ciexyy.Color{displayp3.PrimaryRed, displayp3.PrimaryGreen, displayp3.PrimaryBlue}, white: displayp3.StandardWhitePoint,
	},
}

func spaceByName(n string) *space {
	for i := range spaces {
		if spaces[i].name == n {
			return &spaces[i]
		}
	}
	return nil
}

const genHeader = "-- GENERATED by `pv dump` from /repo's current working tree. Do not edit.\n"

func dumpAll(dir string) error {
	// --- decode and encode tables, one file per table -------------------------------
	for _, s := range spaces {
		d8 := make([]uint64, 256)
		for i := range d8 {
			d8[i] = f32bits(s.from8(uint8(i)))
		}
		d16 := make([]uint64, 65536)
		for i := range d16 {
			d16[i] = f32bits(s.from16(uint16(i)))
		}
		e8 := make([]uint64, 512)
		for i := range e8 {
			e8[i] = uint64(s.to8(float32(i) / 511))
		}
		e16 := make([]uint64, 65536)
		for i := range e16 {
			e16[i] = uint64(s.to16(float32(i) / 65535))
		}
		for _, t := range []struct {
			suffix string
			width  uint
			data   []uint64
		}{{"Dec8", 32, d8}, {"Dec16", 32, d16}, {"Enc8", 8, e8}, {"Enc16", 16, e16}} {
			var sb strings.Builder
			sb.WriteString(genHeader)
			sb.WriteString("namespace Prism.Gen\n")
			name := s.name + t.suffix
			emitTable(&sb, name, t.width, t.data)
			sb.WriteString("end Prism.Gen\n")
			fn := strings.ToUpper(name[:1]) + name[1:]
			if err := writeIfChanged(filepath.Join(dir, fn+".lean"), []byte(sb.String())); err != nil {
				return err
			}
		}
	}

	// --- constants: XYZ coefficients, chromaticities, adaptation matrices, IO ------
	var sb strings.Builder
	sb.WriteString(genHeader)
	sb.WriteString("namespace Prism.Gen\n")
	for _, s := range spaces {
		// probe with unit vectors: 1*c = c, 0*c = 0, c + 0 = c exactly in IEEE-754
		fmt.Fprintf(&sb, "/-- %s: float32 bits of the RGB→XYZ coefficients, row-major (X,Y,Z rows; R,G,B columns) -/\n", s.name)
		fmt.Fprintf(&sb, "def %sToXYZ : List Nat := [", s.name)
		var cols [3]ciexyz.Color
		for k := 0; k < 3; k++ {
			var e [3]float32
			e[k] = 1
			cols[k] = s.toXYZ(e)
		}
		first := true
		for row := 0; row < 3; row++ {
			for k := 0; k < 3; k++ {
				v := []float32{cols[k].X, cols[k].Y, cols[k].Z}[row]
				if !first {
					sb.WriteString(", ")
				}
				first = false
				fmt.Fprintf(&sb, "0x%08x", f32bits(v))
			}
		}
		sb.WriteString("]\n")
		fmt.Fprintf(&sb, "def %sFromXYZ : List Nat := [", s.name)
		var rc [3][3]float32
		rc[0] = s.fromXYZ(ciexyz.Color{X: 1})
		rc[1] = s.fromXYZ(ciexyz.Color{Y: 1})
		rc[2] = s.fromXYZ(ciexyz.Color{Z: 1})
		first = true
		for row := 0; row < 3; row++ {
			for k := 0; k < 3; k++ {
				if !first {
					sb.WriteString(", ")
				}
				first = false
				fmt.Fprintf(&sb, "0x%08x", f32bits(rc[k][row]))
			}
		}
		sb.WriteString("]\n")
		fmt.Fprintf(&sb, "/-- %s: float32 bits of declared chromaticities x,y,Y of R,G,B and white -/\n", s.name)
		fmt.Fprintf(&sb, "def %sChroma : List Nat := [", s.name)
		cs := []ciexyy.Color{s.prim[0], s.prim[1], s.prim[2], s.white}
		for i, c := range cs {
			if i > 0 {
				sb.WriteString(", ")
			}
			fmt.Fprintf(&sb, "0x%08x, 0x%08x, 0x%08x", f32bits(c.X), f32bits(c.Y), f32bits(c.YY))
		}
		sb.WriteString("]\n")
	}
	// the two adaptation matrices the 16 space pairs use (float64 bits, m[col][row] as stored)
	for _, p := range []struct {
		name     string
		src, dst ciexyy.Color
	}{{"adaptD65toD50", ciexyy.D65, ciexyy.D50}, {"adaptD50toD65", ciexyy.D50, ciexyy.D65}} {
		ca := ciexyz.AdaptBetweenXYYWhitePoints(p.src, p.dst)
		fmt.Fprintf(&sb, "def %s : List Nat := [", p.name)
		for i := 0; i < 3; i++ {
			for j := 0; j < 3; j++ {
				if i+j > 0 {
					sb.WriteString(", ")
				}
				fmt.Fprintf(&sb, "0x%016x", f64bits(ca[i][j]))
			}
		}
		sb.WriteString("]\n")
	}
	fmt.Fprintf(&sb, "def xyzD50 : List Nat := [0x%08x, 0x%08x, 0x%08x]\n", f32bits(ciexyz.D50.X), f32bits(ciexyz.D50.Y), f32bits(ciexyz.D50.Z))
	fmt.Fprintf(&sb, "def xyzD65 : List Nat := [0x%08x, 0x%08x, 0x%08x]\n", f32bits(ciexyz.D65.X), f32bits(ciexyz.D65.Y), f32bits(ciexyz.D65.Z))

	// read-ahead size: the size of the first Read each loader issues to its source
	loaders := []struct {
		name string
		f    func(io.Reader) (*meta.Data, io.Reader, error)
	}{{"png", pngmeta.Load}, {"jpeg", jpegmeta.Load}, {"webp", webpmeta.Load}, {"auto", autometa.Load}}
	for _, l := range loaders {
		rec := &recReader{r: bytes.NewReader(make([]byte, 1<<20))}
		l.f(rec)
		first := 0
		if len(rec.sizes) > 0 {
			first = rec.sizes[0]
		}
		fmt.Fprintf(&sb, "def %sFirstRead : Nat := %d\n", l.name, first)
	}
	sb.WriteString("end Prism.Gen\n")
	if err := writeIfChanged(filepath.Join(dir, "Consts.lean"), []byte(sb.String())); err != nil {
		return err
	}
	// access summaries for C11 (syntactic; see access.go)
	repo := os.Getenv("VERIF_REPO")
	if repo == "" {
		repo = "/repo"
	}
	acc, err := emitAccessLean(repo)
	if err != nil {
		return err
	}
	if err := writeIfChanged(filepath.Join(dir, "Access.lean"), []byte(acc)); err != nil {
		return err
	}
	// the concurrency surface for C11 (syntactic; see concurrency.go)
	conc, err := emitConcurrencyLean(repo)
	if err != nil {
		return err
	}
	return writeIfChanged(filepath.Join(dir, "Concurrency.lean"), []byte(conc))
}

// recReader records the size of every Read request it receives.
type recReader struct {
	r     io.Reader
	sizes []int
	got   []int
}

func (r *recReader) Read(p []byte) (int, error) {
	n, err := r.r.Read(p)
	r.sizes = append(r.sizes, len(p))
	r.got = append(r.got, n)
	return n, err
}
