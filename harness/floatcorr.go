package main

import (
	"fmt"
	"image"
	"image/color"
	"math"
	"runtime"
	"sync"

	"github.com/mandykoh/prism/ciexyz"
	"github.com/mandykoh/prism/linear"
)

func init() {
	corrFuncs["C02"] = corrC02
	corrFuncs["C14"] = corrC14
	corrFuncs["C03"] = corrC03
	corrFuncs["C04"] = corrC04
}

func fb(x float32) uint32 { return math.Float32bits(x) }
func bf(b uint32) float32 { return math.Float32frombits(b) }
func smStep(s uint64) (z, ns uint64) {
	s += 0x9E3779B97F4A7C15
	z = s
	z = (z ^ (z >> 30)) * 0xBF58476D1CE4E5B9
	z = (z ^ (z >> 27)) * 0x94D049BB133111EB
	return z ^ (z >> 31), s
}

// ---- C02 ------------------------------------------------------------------------------

type encFn struct {
	name  string
	space string // "" for the plain quantisers
	max   int
	f     func(float32) int
}

func encFns() []encFn {
	fs := []encFn{
		{"q8", "srgb", 255, func(x float32) int { return int(linear.NormalisedTo8Bit(x)) }},
		{"q9", "srgb", 511, func(x float32) int { return int(linear.NormalisedTo9Bit(x)) }},
		{"q16", "srgb", 65535, func(x float32) int { return int(linear.NormalisedTo16Bit(x)) }},
	}
	for i := range spaces {
		s := &spaces[i]
		fs = append(fs, encFn{"to8", s.name, 255, func(x float32) int { return int(s.to8(x)) }})
		fs = append(fs, encFn{"to16", s.name, 65535, func(x float32) int { return int(s.to16(x)) }})
	}
	return fs
}

// safeEnc: an encoder must not panic for any float.
func safeEnc(f func(float32) int, x float32) (v int, panicked bool) {
	defer func() {
		if r := recover(); r != nil {
			panicked = true
		}
	}()
	return f(x), false
}

func oetfRef(space string, v float64) float64 {
	if v <= 0 {
		return 0
	}
	if v >= 1 {
		return 1
	}
	switch space {
	case "srgb", "p3":
		if v <= 0.0031308 {
			return 12.92 * v
		}
		return 1.055*math.Pow(v, 1/2.4) - 0.055
	case "adobe":
		return math.Pow(v, 256.0/563)
	case "prophoto":
		if v < 1.0/512 {
			return 16 * v
		}
		return math.Pow(v, 1/1.8)
	}
	return math.NaN()
}

func corrC02(c *corrCtx) {
	sfCross(c, 3000)
	r := c.rng
	fns := encFns()
	for _, fn := range fns {
		for _, b := range specials {
			v, p := safeEnc(fn.f, bf(b))
			out := fmt.Sprint(v)
			if p {
				out = "panic"
				c.direct(fmt.Sprintf("C02/panic/%s/%s/%08x", fn.name, fn.space, b), "encoder panics", map[string]interface{}{"fn": fn.name, "space": fn.space, "bits": fmt.Sprintf("%08x", b)})
			}
			c.emit("special/"+fn.name, fmt.Sprintf("c02 %s %s %08x", fn.name, fn.space, b), out)
			x := bf(b)
			if x <= 0 && v != 0 || x >= 1 && v != fn.max {
				c.direct(fmt.Sprintf("C02/clip/%s/%s/%08x", fn.name, fn.space, b), "out-of-range input is not clipped to 0 / max", map[string]interface{}{"fn": fn.name, "space": fn.space, "x": x, "got": v})
			}
		}
	}
	// every bucket boundary of the quantiser behind each function, ±2 ulp, hashed per boundary
	for _, fn := range fns {
		N := fn.max
		if fn.name == "to8" {
			N = 511
		}
		for i := 1; i <= N; i++ {
			x := float32((float64(i) - 0.5) / float64(N))
			start := fb(x) - 2
			h := newFnv()
			prev := -1
			for k := uint32(0); k < 5; k++ {
				v := fn.f(bf(start + k))
				h.word(uint64(v))
				if v < prev {
					c.direct(fmt.Sprintf("C02/mono/%s/%s/%08x", fn.name, fn.space, start+k), "encoder result decreases as x increases", map[string]interface{}{"fn": fn.name, "space": fn.space, "bits": fmt.Sprintf("%08x", start+k), "got": v, "prev": prev})
				}
				prev = v
			}
			c.emit("boundary/"+fn.name, fmt.Sprintf("c02b %s %s %08x 5", fn.name, fn.space, start), fmt.Sprintf("%016x", h.h))
		}
	}
	// stratified sample over all exponents, negatives and >1 included
	nb := 2000
	if c.thorough() {
		nb = 20000
	}
	for _, fn := range fns {
		for i := 0; i < nb; i++ {
			var start uint32
			switch r.intn(4) {
			case 0:
				start = uint32(r.next())
			case 1:
				start = uint32(r.intn(0x3f800000))
			case 2:
				start = 0x3f800000 - uint32(r.intn(1<<20))
			default:
				start = uint32(0x30000000 + r.intn(0x0f800000))
			}
			h := newFnv()
			for k := uint32(0); k < 16; k++ {
				h.word(uint64(fn.f(bf(start + k))))
			}
			c.emit("sample/"+fn.name, fmt.Sprintf("c02b %s %s %08x 10", fn.name, fn.space, start), fmt.Sprintf("%016x", h.h))
		}
	}
	// the colour types of all four spaces
	nc := 3000
	if c.thorough() {
		nc = 60000
	}
	for i := range spaces {
		s := &spaces[i]
		for k := 0; k < nc; k++ {
			var v [4]float32
			for j := range v {
				switch r.intn(5) {
				case 0:
					v[j] = bf(specials[r.intn(len(specials))])
				case 1:
					v[j] = float32(r.f64()*1.4 - 0.2)
				default:
					v[j] = float32(r.f64())
				}
			}
			lin := [3]float32{v[0], v[1], v[2]}
			a := s.toNRGBA(lin, v[3])
			c.emit("color/tonrgba", fmt.Sprintf("col %s tonrgba %08x %08x %08x %08x", s.name, fb(v[0]), fb(v[1]), fb(v[2]), fb(v[3])), fmt.Sprintf("%08x %08x %08x %08x", a.R, a.G, a.B, a.A))
			b := s.toRGBA(lin, v[3])
			c.emit("color/torgba", fmt.Sprintf("col %s torgba %08x %08x %08x %08x", s.name, fb(v[0]), fb(v[1]), fb(v[2]), fb(v[3])), fmt.Sprintf("%08x %08x %08x %08x", b.R, b.G, b.B, b.A))
			d := s.toRGBA64(lin, v[3])
			c.emit("color/torgba64", fmt.Sprintf("col %s torgba64 %08x %08x %08x %08x", s.name, fb(v[0]), fb(v[1]), fb(v[2]), fb(v[3])), fmt.Sprintf("%08x %08x %08x %08x", d.R, d.G, d.B, d.A))
			if k%5 == 0 {
				// the same components in a value built by another constructor and assigned to afterwards
				ctor := r.intn(mutCtors)
				am := mutBySpace[s.name].toNRGBA(ctor, lin, v[3])
				c.emit("color/assigned-tonrgba", fmt.Sprintf("col %s tonrgba %08x %08x %08x %08x", s.name, fb(v[0]), fb(v[1]), fb(v[2]), fb(v[3])), fmt.Sprintf("%08x %08x %08x %08x", am.R, am.G, am.B, am.A))
				dm := mutBySpace[s.name].toRGBA64(ctor, lin, v[3])
				c.emit("color/assigned-torgba64", fmt.Sprintf("col %s torgba64 %08x %08x %08x %08x", s.name, fb(v[0]), fb(v[1]), fb(v[2]), fb(v[3])), fmt.Sprintf("%08x %08x %08x %08x", dm.R, dm.G, dm.B, dm.A))
			}
			e := s.toLinRGBA64(lin, v[3])
			c.emit("color/tolin64", fmt.Sprintf("col %s tolin64 %08x %08x %08x %08x", s.name, fb(v[0]), fb(v[1]), fb(v[2]), fb(v[3])), fmt.Sprintf("%08x %08x %08x %08x", e.R, e.G, e.B, e.A))
		}
	}
	// EncodeColor / LineariseColor on translucent premultiplied colours: the same result as encoding the
	// linear colour r/a through the colour type
	nt := 1500
	if c.thorough() {
		nt = 60000
	}
	for i := range spaces {
		s := &spaces[i]
		for k := 0; k < nt; k++ {
			a := uint32(1 + r.intn(65535))
			if k%4 == 0 {
				a = uint32(r.pick(1, 2, 255, 256, 32768, 32769, 65000, 65534, 65535))
			}
			px := [3]uint32{uint32(r.intn(int(a) + 1)), uint32(r.intn(int(a) + 1)), uint32(r.intn(int(a) + 1))}
			if k%5 == 0 {
				px[0] = a
			}
			out := colorOpGo(s, "encode", px[0], px[1], px[2], a)
			c.emit("color/encode-translucent", fmt.Sprintf("col %s encode %x %x %x %x", s.name, px[0], px[1], px[2], a), wordsHex(out))
			al := float32(a) / 65535
			fa := float32(a)
			want := s.toRGBA64([3]float32{float32(px[0]) / fa, float32(px[1]) / fa, float32(px[2]) / fa}, al)
			if uint64(want.R) != out[0] || uint64(want.G) != out[1] || uint64(want.B) != out[2] || uint64(want.A) != out[3] {
				c.direct(fmt.Sprintf("C02/encode-translucent/%s/%04x%04x%04x%04x", s.name, px[0], px[1], px[2], a), "EncodeColor of a translucent premultiplied colour differs from encoding the linear colour channel/alpha through the colour type",
					map[string]interface{}{"space": s.name, "pixel": []uint32{px[0], px[1], px[2], a}, "got": out, "want": []uint16{want.R, want.G, want.B, want.A}})
			}
			lo := colorOpGo(s, "linearise", px[0], px[1], px[2], a)
			c.emit("color/linearise-translucent", fmt.Sprintf("col %s linearise %x %x %x %x", s.name, px[0], px[1], px[2], a), wordsHex(lo))
		}
	}
	// colours of every dynamic Go type through EncodeColor (the encoder must not depend on the type)
	ntc := 260
	if c.thorough() {
		ntc = 2000
	}
	typedColourCases(c, "C02", false, ntc)
	// clause (d) on the real code, per table entry: the code for index i lies within half a code
	// (+ the float32 representation allowance) of OETF over the bucket [i-½, i+½]/N
	const eta = 1.0 / (1 << 20)
	for i := range spaces {
		s := &spaces[i]
		lit8, lit16 := 0, 0
		worst16 := 0.0
		for _, w := range []struct {
			N, max int
			etaP   float64
			f      func(float32) int
			name   string
		}{{511, 255, 1.0 / 1024, func(x float32) int { return int(s.to8(x)) }, "to8"}, {65535, 65535, 1.0 / 64, func(x float32) int { return int(s.to16(x)) }, "to16"}} {
			for idx := 0; idx <= w.N; idx++ {
				got := float64(w.f(float32(idx) / float32(w.N)))
				lo := float64(w.max)*oetfRef(s.name, (float64(idx)-0.5*(1+eta))/float64(w.N)) - 0.5
				hi := float64(w.max)*oetfRef(s.name, (float64(idx)+0.5*(1+eta))/float64(w.N)) + 0.5
				if got < lo-w.etaP || got > hi+w.etaP {
					c.direct(fmt.Sprintf("C02/accuracy/%s/%s/%d", w.name, s.name, idx), "encoded value is not within half a code of the published OETF over the table bucket",
						map[string]interface{}{"space": s.name, "fn": w.name, "index": idx, "got": got, "lo": lo, "hi": hi})
				}
				if got < lo || got > hi {
					ex := math.Max(lo-got, got-hi)
					if w.name == "to8" {
						lit8++
					} else {
						lit16++
						if ex > worst16 {
							worst16 = ex
						}
					}
				}
			}
		}
		c.extra["literal_half_code_excess/"+s.name] = map[string]interface{}{"entries8": lit8, "entries16": lit16, "worst16_codes": worst16}
	}
	// the property's own statement on the real code for every float32 in [0, 1] of the eight encoders
	// (monotone, clipped, in range): a search aid on every run, not the claim
	c02RealSweep(c, fns)
	if c.thorough() {
		c02Sweep(c, fns)
	}
}

// c02RealSweep: every float32 bit pattern in [0, 1] (and every 4096th above, up to +Inf) through every
// table-based encoder of the real code: never decreasing, never above the maximum, 0 at 0, max from 1 on.
func c02RealSweep(c *corrCtx, fns []encFn) {
	const one = 0x3f800000
	const inf = 0x7f800000
	n := 0
	for _, fn := range fns {
		if fn.name[0] == 'q' {
			continue
		}
		nw := runtime.NumCPU()
		bad := make([]string, nw)
		var wg sync.WaitGroup
		for w := 0; w < nw; w++ {
			wg.Add(1)
			go func(w int) {
				defer wg.Done()
				lo := uint32(uint64(one+1) * uint64(w) / uint64(nw))
				hi := uint32(uint64(one+1)*uint64(w+1)/uint64(nw)) - 1
				if lo > 0 {
					lo--
				}
				prev := -1
				for b := lo; b <= hi; b++ {
					v := fn.f(bf(b))
					if (v < prev || v > fn.max || (b == 0 && v != 0) || (b == one && v != fn.max)) && bad[w] == "" {
						bad[w] = fmt.Sprintf("%08x", b)
					}
					prev = v
				}
			}(w)
		}
		wg.Wait()
		for b := uint32(one); b <= inf && b >= one; b += 4096 {
			if fn.f(bf(b)) != fn.max && bad[0] == "" {
				bad[0] = fmt.Sprintf("%08x", b)
			}
		}
		n += one + 1 + (inf-one)/4096
		for _, b := range bad {
			if b != "" {
				c.direct(fmt.Sprintf("C02/real-sweep/%s/%s/%s", fn.name, fn.space, b), "encoder decreases, leaves its range or misses a clip value (sweep of every float32 in [0,1] on the real code)",
					map[string]interface{}{"fn": fn.name, "space": fn.space, "bits": b})
				break
			}
		}
	}
	c.extra["real_sweep_floats"] = n
}

// c02Sweep: every float32 in [0, 1] through every encoder; emits the run-length encoding.
func c02Sweep(c *corrCtx, fns []encFn) {
	type run struct {
		lo, hi uint32
		v      int
	}
	const top = 0x3f800000
	for _, fn := range fns {
		nw := runtime.NumCPU()
		parts := make([][]run, nw)
		bad := make([]string, nw)
		var wg sync.WaitGroup
		for w := 0; w < nw; w++ {
			wg.Add(1)
			go func(w int) {
				defer wg.Done()
				lo := uint32(uint64(top+1) * uint64(w) / uint64(nw))
				hi := uint32(uint64(top+1)*uint64(w+1)/uint64(nw)) - 1
				cur := run{lo, lo, fn.f(bf(lo))}
				for b := lo + 1; b <= hi && b != 0; b++ {
					v := fn.f(bf(b))
					if v == cur.v {
						cur.hi = b
						continue
					}
					if v < cur.v && bad[w] == "" {
						bad[w] = fmt.Sprintf("%08x", b)
					}
					parts[w] = append(parts[w], cur)
					cur = run{b, b, v}
				}
				parts[w] = append(parts[w], cur)
			}(w)
		}
		wg.Wait()
		var runs []run
		for w := 0; w < nw; w++ {
			for _, rn := range parts[w] {
				if n := len(runs); n > 0 && runs[n-1].v == rn.v {
					runs[n-1].hi = rn.hi
				} else {
					if n > 0 && rn.v < runs[n-1].v {
						bad[w] = fmt.Sprintf("%08x", rn.lo)
					}
					runs = append(runs, rn)
				}
			}
			if bad[w] != "" {
				c.direct(fmt.Sprintf("C02/mono-sweep/%s/%s/%s", fn.name, fn.space, bad[w]), "encoder result decreases as x increases (exhaustive sweep)", map[string]interface{}{"fn": fn.name, "space": fn.space, "bits": bad[w]})
			}
		}
		for _, rn := range runs {
			c.emit("sweep/"+fn.name, fmt.Sprintf("c02r %s %s %08x %08x", fn.name, fn.space, rn.lo, rn.hi), fmt.Sprint(rn.v))
		}
		c.extra["sweep_runs/"+fn.name+"/"+fn.space] = len(runs)
	}
	c.extra["exhaustive"] = true
	c.extra["codes_evaluated"] = int(top+1) * len(fns)
}

// ---- C14 ------------------------------------------------------------------------------

func colorOpGo(s *space, kind string, a, b, cc, d uint32) []uint64 {
	px := func(r, g, bl, al uint32) []uint64 { return []uint64{uint64(r), uint64(g), uint64(bl), uint64(al)} }
	lf := func(l [3]float32, al float32) []uint64 {
		return []uint64{f32bits(l[0]), f32bits(l[1]), f32bits(l[2]), f32bits(al)}
	}
	switch kind {
	case "fromnrgba":
		return lf(s.fromNRGBA(color.NRGBA{R: uint8(a), G: uint8(b), B: uint8(cc), A: uint8(d)}))
	case "fromrgba":
		return lf(s.fromRGBA(color.RGBA{R: uint8(a), G: uint8(b), B: uint8(cc), A: uint8(d)}))
	case "fromenc":
		return lf(s.fromEnc(color.RGBA64{R: uint16(a), G: uint16(b), B: uint16(cc), A: uint16(d)}))
	case "fromlin":
		return lf(s.fromLinCol(color.RGBA64{R: uint16(a), G: uint16(b), B: uint16(cc), A: uint16(d)}))
	case "linearise":
		p := s.linearise(color.RGBA64{R: uint16(a), G: uint16(b), B: uint16(cc), A: uint16(d)})
		return px(uint32(p.R), uint32(p.G), uint32(p.B), uint32(p.A))
	case "encode":
		p := s.encode(color.RGBA64{R: uint16(a), G: uint16(b), B: uint16(cc), A: uint16(d)})
		return px(uint32(p.R), uint32(p.G), uint32(p.B), uint32(p.A))
	}
	return nil
}

// row k of a 3x3 matrix
func mulv3T(m [3][3]float64, k int) [3]float64 { return m[k] }

func wordsHex(w []uint64) string {
	s := ""
	for i, x := range w {
		if i > 0 {
			s += " "
		}
		s += fmt.Sprintf("%08x", x)
	}
	return s
}

// every class of float32: zeros, denormals, around 1, above 1, infinities, quiet and signalling NaNs
var specials = []uint32{0, 0x80000000, 1, 0x80000001, 0x007fffff, 0x00800000, 0x3f7fffff, 0x3f800000, 0x3f800001, 0x40000000,
	0x7f7fffff, 0x7f800000, 0xff800000, 0x7fc00000, 0xffc00000, 0x7f800001, 0x7fffffff, 0xff7fffff, 0xbf800000, 0x3b000000, 0x3b7fffff}

func corrC14(c *corrCtx) {
	sfCross(c, 2000)
	r := c.rng
	for i := range spaces {
		s := &spaces[i]
		// every 16-bit alpha through linearise / encode / fromenc / fromlin, hashed per 64 alphas
		for _, fn := range []string{"linearise", "encode", "fromenc", "fromlin"} {
			for lo := 0; lo < 65536; lo += 64 {
				h := newFnv()
				for a := lo; a < lo+64; a++ {
					rr, g, b := uint32(a), uint32(a/2), uint32((a*40503)%(a+1))
					out := colorOpGo(s, fn, rr, g, b, uint32(a))
					for _, w := range out {
						h.word(w)
					}
					if fn == "linearise" || fn == "encode" {
						if out[3] != uint64(a) {
							c.direct(fmt.Sprintf("C14/alpha/%s/%s/%d", s.name, fn, a), "alpha channel is not preserved bit-identically", map[string]interface{}{"space": s.name, "fn": fn, "alpha": a, "got": out[3]})
						}
						if fn == "linearise" && (out[0] > out[3] || out[1] > out[3] || out[2] > out[3]) {
							c.direct(fmt.Sprintf("C14/premul/%s/%d", s.name, a), "linearised pixel is not validly premultiplied", map[string]interface{}{"space": s.name, "in": []uint32{rr, g, b, uint32(a)}, "out": out})
						}
					} else {
						want := float32(a) / 65535
						if a == 0 {
							if out[0] != 0 || out[1] != 0 || out[2] != 0 || out[3] != 0 {
								c.direct(fmt.Sprintf("C14/transparent/%s/%s", s.name, fn), "transparent pixel does not decode to the zero colour", map[string]interface{}{"out": out})
							}
						} else if out[3] != f32bits(want) {
							c.direct(fmt.Sprintf("C14/decalpha/%s/%s/%d", s.name, fn, a), "decoded alpha is not exactly A/65535", map[string]interface{}{"alpha": a, "got_bits": out[3]})
						}
					}
				}
				c.emit("alpha16/"+fn, fmt.Sprintf("c14b %s %s %x 40", s.name, fn, lo), fmt.Sprintf("%016x", h.h))
			}
		}
		// all 8-bit (channel, alpha) pairs through the NRGBA / RGBA constructors
		for a := 0; a < 256; a++ {
			for _, fn := range []string{"fromnrgba", "fromrgba"} {
				ch := []int{0, 1, a / 2, a, 255}
				if c.thorough() {
					ch = ch[:0]
					for v := 0; v < 256; v++ {
						ch = append(ch, v)
					}
				}
				for _, v := range ch {
					if fn == "fromrgba" && v > a {
						continue
					}
					out := colorOpGo(s, fn, uint32(v), uint32(v/2), uint32(v), uint32(a))
					c.emit("alpha8/"+fn, fmt.Sprintf("col %s %s %x %x %x %x", s.name, fn, v, v/2, v, a), wordsHex(out))
					if out[3] != f32bits(float32(a)/255) && !(fn == "fromrgba" && a == 0) {
						c.direct(fmt.Sprintf("C14/decalpha8/%s/%s/%d", s.name, fn, a), "decoded alpha is not exactly A/255", map[string]interface{}{"alpha": a, "got_bits": out[3]})
					}
				}
			}
		}
		// opaque colours: the three constructors agree
		for v := 0; v < 256; v++ {
			n, _ := s.fromNRGBA(color.NRGBA{R: uint8(v), G: uint8(255 - v), B: uint8(v ^ 0x55), A: 255})
			p, _ := s.fromRGBA(color.RGBA{R: uint8(v), G: uint8(255 - v), B: uint8(v ^ 0x55), A: 255})
			g, _ := s.fromEnc(color.NRGBA{R: uint8(v), G: uint8(255 - v), B: uint8(v ^ 0x55), A: 255})
			if n != p || n != g {
				c.direct(fmt.Sprintf("C14/opaque/%s/%d", s.name, v), "constructors disagree on an opaque colour", map[string]interface{}{"nrgba": n, "rgba": p, "generic": g})
			}
		}
		// premultiplied validity: all alphas x 64 channel values (+ boundaries)
		nch := 64
		for a := 1; a < 65536; a++ {
			if !c.thorough() && a%7 != 0 && a > 300 && a < 65200 {
				continue
			}
			for k := 0; k <= nch; k++ {
				ch := a * k / nch
				if k == nch-1 {
					ch = a - 1
				}
				p := s.linearise(color.RGBA64{R: uint16(ch), G: uint16(a), B: uint16(ch / 3), A: uint16(a)})
				if p.R > p.A || p.G > p.A || p.B > p.A || int(p.A) != a {
					c.direct(fmt.Sprintf("C14/premul/%s/a%d/c%d", s.name, a, ch), "linearised pixel is not validly premultiplied", map[string]interface{}{"space": s.name, "alpha": a, "channel": ch, "out": []uint16{p.R, p.G, p.B, p.A}})
				}
			}
		}
		c.stats["premul-direct/"+s.name] = 1
		// random single cases through the model
		nr := 3000
		if c.thorough() {
			nr = 100000
		}
		for k := 0; k < nr; k++ {
			a := uint32(r.intn(65536))
			if r.intn(4) == 0 {
				a = uint32(r.pick(0, 1, 2, 255, 256, 257, 32767, 32768, 65534, 65535))
			}
			rr, g, b := uint32(r.intn(int(a)+1)), uint32(r.intn(int(a)+1)), uint32(r.intn(int(a)+1))
			fn := []string{"linearise", "encode", "fromenc", "fromlin"}[r.intn(4)]
			c.emit("random/"+fn, fmt.Sprintf("col %s %s %x %x %x %x", s.name, fn, rr, g, b, a), wordsHex(colorOpGo(s, fn, rr, g, b, a)))
		}
	}
	// alpha is written from alpha alone: colours with components outside [0,1] (out of gamut, negative)
	// under every class of alpha, through the four converters; and "additive" pixels whose channels
	// exceed their alpha through LineariseColor / EncodeColor
	na := 400
	if c.thorough() {
		na = 20000
	}
	for i := range spaces {
		s := &spaces[i]
		for k := 0; k < na; k++ {
			lin := [3]float32{float32(r.f64()*3 - 0.5), float32(r.f64()*3 - 0.5), float32(r.f64()*3 - 0.5)}
			if k%3 == 0 {
				lin[r.intn(3)] = float32(1 + r.f64()*1e-3)
			}
			if k%11 == 5 {
				// components that are not numbers at all (a colour that came out of 0/0 or an overflow upstream)
				lin[r.intn(3)] = bf([]uint32{0x7fc00000, 0xffc00000, 0x7f800000, 0xff800000, 0x7f800001}[r.intn(5)])
			}
			al := float32(r.intn(65536)) / 65535
			switch r.intn(6) {
			case 0:
				al = float32(r.pick(0, 1, 2, 127, 128, 254, 255)) / 255
			case 1:
				al = float32(r.f64())
			case 2: // every class of float32: NaNs, infinities, negative zero, out of range, denormals
				al = bf(specials[r.intn(len(specials))])
			}
			if k%50 == 7 {
				al = float32(math.NaN())
			}
			zero := [3]float32{0, 0, 0}
			type cv struct {
				name     string
				got, ref uint32
				out      string
			}
			a1, a0 := s.toLinRGBA64(lin, al), s.toLinRGBA64(zero, al)
			b1, b0 := s.toRGBA64(lin, al), s.toRGBA64(zero, al)
			n1, n0 := s.toNRGBA(lin, al), s.toNRGBA(zero, al)
			p1, p0 := s.toRGBA(lin, al), s.toRGBA(zero, al)
			for _, x := range []cv{{"tolin64", uint32(a1.A), uint32(a0.A), fmt.Sprintf("%08x %08x %08x %08x", a1.R, a1.G, a1.B, a1.A)},
				{"torgba64", uint32(b1.A), uint32(b0.A), fmt.Sprintf("%08x %08x %08x %08x", b1.R, b1.G, b1.B, b1.A)},
				{"tonrgba", uint32(n1.A), uint32(n0.A), fmt.Sprintf("%08x %08x %08x %08x", n1.R, n1.G, n1.B, n1.A)},
				{"torgba", uint32(p1.A), uint32(p0.A), fmt.Sprintf("%08x %08x %08x %08x", p1.R, p1.G, p1.B, p1.A)}} {
				if al != al {
					// a NaN alpha is not clipped to the maximum: the code writes what the platform's
					// float-to-integer conversion gives for NaN (0 on this machine, measured here)
					nan := float32(math.NaN())
					mx := uint32(255)
					if x.name == "tolin64" || x.name == "torgba64" {
						mx = 65535
					}
					if want := uint32(uint16(nan*float32(mx) + 0.5)); x.got != want {
						c.direct(fmt.Sprintf("C14/nan-alpha/%s/%s", s.name, x.name), "a NaN alpha is encoded as a non-zero code (the clip to the maximum applies to alpha >= 1 only)",
							map[string]interface{}{"space": s.name, "converter": x.name, "alpha_out": x.got, "platform_uint_of_nan": want})
					}
				}
				if x.got != x.ref {
					c.direct(fmt.Sprintf("C14/alpha-from-colour/%s/%s/%08x", s.name, x.name, fb(al)), "the alpha a converter writes depends on the colour's components (it must be round(alpha*max) of alpha alone)",
						map[string]interface{}{"space": s.name, "converter": x.name, "colour": lin, "alpha": al, "alpha_out": x.got, "alpha_out_for_black": x.ref})
				}
				c.emit("outofgamut/"+x.name, fmt.Sprintf("col %s %s %08x %08x %08x %08x", s.name, x.name, fb(lin[0]), fb(lin[1]), fb(lin[2]), fb(al)), x.out)
			}
			// additive-style pixels
			a := uint32(r.intn(65536))
			if k%4 == 0 {
				a = uint32(r.pick(0, 1, 2, 255, 256, 32768, 65534))
			}
			px := color.RGBA64{R: uint16(r.intn(65536)), G: uint16(r.intn(65536)), B: uint16(r.intn(65536)), A: uint16(a)}
			for _, fn := range []string{"linearise", "encode"} {
				out := colorOpGo(s, fn, uint32(px.R), uint32(px.G), uint32(px.B), a)
				if uint32(out[3]) != a {
					c.direct(fmt.Sprintf("C14/additive-alpha/%s/%s/%04x", s.name, fn, a), "alpha is not bit-identical through "+fn+" for a pixel whose channels exceed its alpha",
						map[string]interface{}{"space": s.name, "pixel": []uint16{px.R, px.G, px.B, px.A}, "out": out})
				}
				c.emit("additive/"+fn, fmt.Sprintf("col %s %s %x %x %x %x", s.name, fn, px.R, px.G, px.B, a), wordsHex(out))
			}
		}
	}
	// the alpha a converter writes is round(alpha*max): every bucket boundary (k+1/2)/max of the 16-bit
	// converters and of the 8-bit ones, two float32 values either side, and the last 400 float32 values
	// below 1 and first 400 above 0 — off the grid of alphas an image can hold, where a tolerance or a
	// snap would sit.  |written - alpha*max| <= 1/2 (+ the float32 rounding of the product and the sum).
	for i := range spaces {
		s := &spaces[i]
		white := [3]float32{1, 1, 1}
		type conv struct {
			name string
			max  int
			f    func(al float32) uint32
		}
		convs := []conv{
			{"torgba64", 65535, func(al float32) uint32 { return uint32(s.toRGBA64(white, al).A) }},
			{"tolin64", 65535, func(al float32) uint32 { return uint32(s.toLinRGBA64(white, al).A) }},
			{"tonrgba", 255, func(al float32) uint32 { return uint32(s.toNRGBA(white, al).A) }},
			{"torgba", 255, func(al float32) uint32 { return uint32(s.toRGBA(white, al).A) }},
		}
		for _, cv := range convs {
			try := func(class string, al float32, sample bool) {
				got := cv.f(al)
				exact := float64(al) * float64(cv.max)
				if d := math.Abs(float64(got) - exact); d > 0.5+float64(cv.max)/(1<<24) {
					c.direct(fmt.Sprintf("C14/alpha-rounding/%s/%s/%08x", s.name, cv.name, fb(al)), "the alpha written is not round(alpha*max): it is more than half a code away from alpha*max",
						map[string]interface{}{"space": s.name, "converter": cv.name, "alpha": al, "alpha_bits": fmt.Sprintf("%08x", fb(al)), "written": got, "alpha_times_max": exact})
				}
				c.stats["alpha-boundary/"+cv.name]++
				if sample {
					var out string
					switch cv.name {
					case "torgba64":
						p := s.toRGBA64(white, al)
						out = fmt.Sprintf("%08x %08x %08x %08x", p.R, p.G, p.B, p.A)
					case "tolin64":
						p := s.toLinRGBA64(white, al)
						out = fmt.Sprintf("%08x %08x %08x %08x", p.R, p.G, p.B, p.A)
					case "tonrgba":
						p := s.toNRGBA(white, al)
						out = fmt.Sprintf("%08x %08x %08x %08x", p.R, p.G, p.B, p.A)
					default:
						p := s.toRGBA(white, al)
						out = fmt.Sprintf("%08x %08x %08x %08x", p.R, p.G, p.B, p.A)
					}
					c.emit("alpha-boundary/"+cv.name, fmt.Sprintf("col %s %s %08x %08x %08x %08x", s.name, cv.name, fb(1), fb(1), fb(1), fb(al)), out)
				}
			}
			for k := 0; k < cv.max; k++ {
				if cv.max == 65535 && !c.thorough() && k%5 != i && k > 64 && k < 65535-64 {
					continue
				}
				x0 := float32((float64(k) + 0.5) / float64(cv.max))
				for d := -2; d <= 2; d++ {
					try("boundary", bf(uint32(int(fb(x0))+d)), k%1021 == 0 || k >= cv.max-2)
				}
			}
			// alpha at and beyond 1, up to the largest float32 and +Inf: clipped to the maximum code
			for _, al := range []float32{1, 1.0000001, 1.5, 2, 255, 65535, 1e6, 1e10, 1e14, 1.5e14, 2e14, 3e16, 4e16, 1e20, 1e30, math.MaxFloat32, float32(math.Inf(1))} {
				if got := cv.f(al); got != uint32(cv.max) {
					c.direct(fmt.Sprintf("C14/alpha-clip-high/%s/%s/%08x", s.name, cv.name, fb(al)), "an alpha at or above 1 is not written as the maximum code (the clip to [0,1] must hold for every magnitude)",
						map[string]interface{}{"space": s.name, "converter": cv.name, "alpha": fmt.Sprint(al), "alpha_bits": fmt.Sprintf("%08x", fb(al)), "written": got, "max": cv.max})
				}
				c.stats["alpha-clip-high/"+cv.name]++
			}
			for j := 1; j <= 400; j++ {
				try("below-one", bf(0x3f800000-uint32(j)), j%40 == 0)
				try("above-zero", bf(uint32(j)), j%100 == 0)
				try("above-zero", float32(j)*1e-8, j%100 == 0)
			}
		}
	}
	// every dynamic colour type through the generic constructors, all alphas
	nt := 150
	if c.thorough() {
		nt = 3000
	}
	typedColourCases(c, "C14", false, nt)
	// image level: LineariseImage / EncodeImage over images with runs of equal colours whose alpha
	// varies — every pixel's alpha must come out as it went in (and the rest as the per-pixel law says)
	c14Images(c)
	// encode side: every float32 class of alpha through the three ToXxx converters is in C02
	if c.thorough() {
		c14Exhaustive(c)
	}
}

func c14Images(c *corrCtx) {
	r := c.rng
	xs := transforms()[1:]
	reps := 1
	if c.thorough() {
		reps = 12
	}
	forceStructured = true
	defer func() { forceStructured = false }()
	for rep := 0; rep < reps; rep++ {
		for _, x := range xs {
			for _, sk := range []string{"rgba64", "nrgba64", "rgba", "nrgba"} {
				for _, dk := range []string{"rgba64", "nrgba64", "rgba"} {
					if !c.thorough() && r.intn(2) == 0 {
						continue
					}
					w, h := 3+r.intn(14), 1+r.intn(5)
					o := image.Pt(r.intn(9)-4, r.intn(9)-4)
					src := newSource(r, sk, image.Rect(o.X, o.Y, o.X+w, o.Y+h))
					sb := src.Bounds()
					d := c10CaseX(c, r, "image/"+sk+"->"+dk, src, sb, dk, image.Pt(r.intn(9)-4, r.intn(9)-4), x, r.pick(1, 2, 5), false, r.intn(2) == 0)
					// the alpha channel on its own
					if d == nil {
						continue
					}
					db := d.Bounds()
					for y := 0; y < h; y++ {
						for xx := 0; xx < w; xx++ {
							_, _, _, ain := src.At(sb.Min.X+xx, sb.Min.Y+y).RGBA()
							_, _, _, aout := d.At(db.Min.X+xx, db.Min.Y+y).RGBA()
							want := ain
							if dk == "rgba" {
								want = (ain >> 8) * 0x101
							}
							if aout != want {
								c.direct(fmt.Sprintf("C14/image-alpha/%s/%s->%s", x.name, sk, dk), "alpha of a pixel changes in LineariseImage/EncodeImage",
									map[string]interface{}{"transform": x.name, "src": sk, "dst": dk, "x": xx, "y": y, "alpha_in": ain, "alpha_out": aout, "size": []int{w, h}})
							}
						}
					}
				}
			}
		}
	}
}

// c14Exhaustive: all (channel, alpha) pairs with channel <= alpha over 16 bits, per curve, on
// the real code (the property's own oracle; the model side is covered by the theorem's
// monotone reduction plus the batches above).
func c14Exhaustive(c *corrCtx) {
	for i := range spaces {
		s := &spaces[i]
		var wg sync.WaitGroup
		nw := runtime.NumCPU()
		bad := make([]string, nw)
		for w := 0; w < nw; w++ {
			wg.Add(1)
			go func(w int) {
				defer wg.Done()
				for a := 1 + w; a < 65536; a += nw {
					alpha := float32(a) / 65535
					for ch := 0; ch <= a; ch++ {
						v := s.from16(uint16(ch)) / alpha
						q := linear.NormalisedTo16Bit(v * alpha)
						if int(q) > a && bad[w] == "" {
							bad[w] = fmt.Sprintf("a=%d ch=%d got=%d", a, ch, q)
						}
					}
				}
			}(w)
		}
		wg.Wait()
		for _, b := range bad {
			if b != "" {
				c.direct("C14/premul-exhaustive/"+s.name+"/"+b, "linearised channel exceeds alpha (exhaustive)", map[string]interface{}{"space": s.name, "case": b})
			}
		}
		c.extra["premul_pairs/"+s.name] = 65535 * 65536 / 2
	}
}

// ---- C03 ------------------------------------------------------------------------------

func xyzPointGo(mode string, k int, z uint64) [3]float32 {
	if mode == "lat" {
		f := func(v int) float32 { return float32(v) / 255 }
		return [3]float32{f(k % 256), f(k / 256 % 256), f(k / 65536 % 256)}
	}
	f := func(u uint64) float32 {
		x := float32(u) / float32(16777216)
		x = x * 3
		return x - 1
	}
	return [3]float32{f(z % 16777216), f(z / 16777216 % 16777216), f(z / 281474976710656 % 65536 * 256)}
}

// independent float64 derivation of the RGB->XYZ matrix from chromaticities
func refMatrix(prim [3][2]float64, white [2]float64) (m [3][3]float64) {
	var xyz [3][3]float64 // column k = XYZ of primary k with Y = 1
	for k := 0; k < 3; k++ {
		x, y := prim[k][0], prim[k][1]
		xyz[0][k], xyz[1][k], xyz[2][k] = x/y, 1, (1-x-y)/y
	}
	w := [3]float64{white[0] / white[1], 1, (1 - white[0] - white[1]) / white[1]}
	inv := inv3(xyz)
	var s [3]float64
	for i := 0; i < 3; i++ {
		s[i] = inv[i][0]*w[0] + inv[i][1]*w[1] + inv[i][2]*w[2]
	}
	for i := 0; i < 3; i++ {
		for k := 0; k < 3; k++ {
			m[i][k] = xyz[i][k] * s[k]
		}
	}
	return
}

func inv3(a [3][3]float64) (o [3][3]float64) {
	det := a[0][0]*(a[1][1]*a[2][2]-a[1][2]*a[2][1]) - a[0][1]*(a[1][0]*a[2][2]-a[1][2]*a[2][0]) + a[0][2]*(a[1][0]*a[2][1]-a[1][1]*a[2][0])
	o[0][0] = (a[1][1]*a[2][2] - a[1][2]*a[2][1]) / det
	o[0][1] = (a[0][2]*a[2][1] - a[0][1]*a[2][2]) / det
	o[0][2] = (a[0][1]*a[1][2] - a[0][2]*a[1][1]) / det
	o[1][0] = (a[1][2]*a[2][0] - a[1][0]*a[2][2]) / det
	o[1][1] = (a[0][0]*a[2][2] - a[0][2]*a[2][0]) / det
	o[1][2] = (a[0][2]*a[1][0] - a[0][0]*a[1][2]) / det
	o[2][0] = (a[1][0]*a[2][1] - a[1][1]*a[2][0]) / det
	o[2][1] = (a[0][1]*a[2][0] - a[0][0]*a[2][1]) / det
	o[2][2] = (a[0][0]*a[1][1] - a[0][1]*a[1][0]) / det
	return
}

func mul3(a, b [3][3]float64) (o [3][3]float64) {
	for i := 0; i < 3; i++ {
		for j := 0; j < 3; j++ {
			o[i][j] = a[i][0]*b[0][j] + a[i][1]*b[1][j] + a[i][2]*b[2][j]
		}
	}
	return
}

func mulv3(a [3][3]float64, v [3]float64) (o [3]float64) {
	for i := 0; i < 3; i++ {
		o[i] = a[i][0]*v[0] + a[i][1]*v[1] + a[i][2]*v[2]
	}
	return
}

// the published chromaticities (x, y) of the four spaces' primaries and white points
var publishedChroma = map[string][4][2]float64{
	"srgb":     {{0.64, 0.33}, {0.30, 0.60}, {0.15, 0.06}, {0.3127, 0.3290}},
	"adobe":    {{0.64, 0.33}, {0.21, 0.71}, {0.15, 0.06}, {0.3127, 0.3290}},
	"prophoto": {{0.734699, 0.265301}, {0.159597, 0.840403}, {0.036598, 0.000105}, {0.3457, 0.3585}},
	"p3":       {{0.68, 0.32}, {0.265, 0.69}, {0.15, 0.06}, {0.3127, 0.3290}},
}

func spaceRefMatrix(s *space) [3][3]float64 {
	var p [3][2]float64
	for k := 0; k < 3; k++ {
		p[k] = [2]float64{float64(s.prim[k].X), float64(s.prim[k].Y)}
	}
	return refMatrix(p, [2]float64{float64(s.white.X), float64(s.white.Y)})
}

func corrC03(c *corrCtx) {
	sfCross(c, 2000)
	r := c.rng
	for i := range spaces {
		s := &spaces[i]
		// declared chromaticities equal the published ones (half a unit of the last printed digit)
		pub := publishedChroma[s.name]
		decl := [4][2]float64{{float64(s.prim[0].X), float64(s.prim[0].Y)}, {float64(s.prim[1].X), float64(s.prim[1].Y)}, {float64(s.prim[2].X), float64(s.prim[2].Y)}, {float64(s.white.X), float64(s.white.Y)}}
		for k := 0; k < 4; k++ {
			for j := 0; j < 2; j++ {
				if math.Abs(decl[k][j]-pub[k][j]) > 0.00005+1e-7 {
					c.direct(fmt.Sprintf("C03/chroma/%s/%d/%d", s.name, k, j), "declared chromaticity differs from the published standard value", map[string]interface{}{"space": s.name, "which": k, "got": decl[k][j], "published": pub[k][j]})
				}
			}
		}
		ref := spaceRefMatrix(s)
		refInv := inv3(ref)
		// coefficients by probing, against the independent derivation
		for k := 0; k < 3; k++ {
			var e [3]float32
			e[k] = 1
			col := s.toXYZ(e)
			got := [3]float64{float64(col.X), float64(col.Y), float64(col.Z)}
			for row := 0; row < 3; row++ {
				if math.Abs(got[row]-ref[row][k]) > 1e-6 {
					c.direct(fmt.Sprintf("C03/toxyz-coef/%s/%d%d", s.name, row, k), "RGB->XYZ coefficient differs from the one fixed by the declared primaries and white point", map[string]interface{}{"space": s.name, "row": row, "col": k, "got": got[row], "want": ref[row][k]})
				}
			}
			var ex ciexyz.Color
			switch k {
			case 0:
				ex.X = 1
			case 1:
				ex.Y = 1
			default:
				ex.Z = 1
			}
			rc := s.fromXYZ(ex)
			for row := 0; row < 3; row++ {
				if math.Abs(float64(rc[row])-refInv[row][k]) > 2e-6 {
					c.direct(fmt.Sprintf("C03/fromxyz-coef/%s/%d%d", s.name, row, k), "XYZ->RGB coefficient differs from the inverse of the primaries matrix", map[string]interface{}{"space": s.name, "row": row, "col": k, "got": rc[row], "want": refInv[row][k]})
				}
			}
			// unit primary maps to a colour of that primary's chromaticity
			sum := got[0] + got[1] + got[2]
			if math.Abs(got[0]/sum-decl[k][0]) > 1e-6 || math.Abs(got[1]/sum-decl[k][1]) > 1e-6 {
				c.direct(fmt.Sprintf("C03/primary/%s/%d", s.name, k), "unit primary does not map to its chromaticity", map[string]interface{}{"space": s.name, "k": k, "x": got[0] / sum, "y": got[1] / sum})
			}
		}
		w := s.toXYZ([3]float32{1, 1, 1})
		wx, wy := decl[3][0], decl[3][1]
		if math.Abs(float64(w.Y)-1) > 1e-6 || math.Abs(float64(w.X)-wx/wy) > 1e-6 || math.Abs(float64(w.Z)-(1-wx-wy)/wy) > 1e-6 {
			c.direct("C03/white/"+s.name, "linear (1,1,1) does not map to the white point with Y = 1", map[string]interface{}{"space": s.name, "got": []float32{w.X, w.Y, w.Z}})
		}
		// bit-exact correspondence in batches: lattice and random triples, both directions + round trip
		step := 64 // 2^18 lattice points out of 2^24
		if c.thorough() {
			step = 4 // 2^22 lattice through the model; the round-trip oracle below covers all 2^24
		}
		nlat := (1 << 24) / step
		for _, dir := range []string{"to", "from", "rt"} {
			for _, mode := range []string{"lat", "rnd"} {
				total := nlat
				if mode == "rnd" {
					total = 100000
					if c.thorough() {
						total = 4000000
					}
				}
				const per = 4096
				for start := 0; start < total; start += per {
					cnt := per
					if start+cnt > total {
						cnt = total - start
					}
					h := newFnv()
					st := uint64(start)
					for k := 0; k < cnt; k++ {
						var z uint64
						z, st = smStep(st)
						p := xyzPointGo(mode, (start+k)*step, z)
						var out [3]float32
						switch dir {
						case "to":
							x := s.toXYZ(p)
							out = [3]float32{x.X, x.Y, x.Z}
						case "from":
							out = s.fromXYZ(ciexyz.Color{X: p[0], Y: p[1], Z: p[2]})
						default:
							x := s.toXYZ(p)
							out = s.fromXYZ(x)
							// the property's own oracle: RGB -> XYZ -> RGB returns the input
							scale := math.Max(1, math.Max(math.Abs(float64(p[0])), math.Max(math.Abs(float64(p[1])), math.Abs(float64(p[2])))))
							for j := 0; j < 3; j++ {
								if math.Abs(float64(out[j])-float64(p[j])) > 2e-6*scale {
									c.direct(fmt.Sprintf("C03/roundtrip/%s/%08x%08x%08x", s.name, fb(p[0]), fb(p[1]), fb(p[2])), "RGB->XYZ->RGB does not return the input within 2e-6", map[string]interface{}{"space": s.name, "in": p, "out": out})
								}
							}
						}
						h.word(f32bits(out[0]))
						h.word(f32bits(out[1]))
						h.word(f32bits(out[2]))
					}
					c.emit("xyz/"+dir+"/"+mode, fmt.Sprintf("xyzb %s %s %s %x %x %x", s.name, dir, mode, start, cnt, step), fmt.Sprintf("%016x", h.h))
				}
			}
		}
		// "is the linear map", at every magnitude (HDR, scene-referred and intermediate values are far
		// outside [0, 1]): homogeneous under powers of two within the property's proportional error
		// (2e-6 times the magnitude) — the same matrix applies at 2^e * c as at c
		nm := 300
		if c.thorough() {
			nm = 20000
		}
		for k := 0; k < nm; k++ {
			p := [3]float32{float32(3*r.f64() - 1), float32(3*r.f64() - 1), float32(3*r.f64() - 1)}
			e := r.pick(3, 4, 5, 6, 8, 10, 16, 24, 40, -8, -20)
			sc := float32(math.Ldexp(1, e))
			ps := [3]float32{p[0] * sc, p[1] * sc, p[2] * sc}
			x, xs := s.toXYZ(p), s.toXYZ(ps)
			c.emit("xyz/magnitude", fmt.Sprintf("col %s toxyz %08x %08x %08x 0", s.name, fb(ps[0]), fb(ps[1]), fb(ps[2])), fmt.Sprintf("%08x %08x %08x", fb(xs.X), fb(xs.Y), fb(xs.Z)))
			tolm := 2e-6 * float64(sc) * math.Max(1, math.Max(math.Abs(float64(p[0])), math.Max(math.Abs(float64(p[1])), math.Abs(float64(p[2])))))
			far := func(a, b float32) bool { return !(math.Abs(float64(a)-float64(b)) <= tolm) }
			if far(xs.X, x.X*sc) || far(xs.Y, x.Y*sc) || far(xs.Z, x.Z*sc) {
				c.direct(fmt.Sprintf("C03/homogeneous/%s/2^%d/%08x%08x%08x", s.name, e, fb(p[0]), fb(p[1]), fb(p[2])), "ToXYZ is not the (one) linear map at every magnitude: ToXYZ(2^e * c) differs from 2^e * ToXYZ(c) by more than the proportional error 2e-6",
					map[string]interface{}{"space": s.name, "c": p, "e": e, "ToXYZ(c)": []float32{x.X, x.Y, x.Z}, "ToXYZ(2^e*c)": []float32{xs.X, xs.Y, xs.Z}})
			}
			b, bs := s.fromXYZ(ciexyz.Color{X: p[0], Y: p[1], Z: p[2]}), s.fromXYZ(ciexyz.Color{X: ps[0], Y: ps[1], Z: ps[2]})
			c.emit("xyz/magnitude-from", fmt.Sprintf("col %s fromxyz %08x %08x %08x 0", s.name, fb(ps[0]), fb(ps[1]), fb(ps[2])), fmt.Sprintf("%08x %08x %08x", fb(bs[0]), fb(bs[1]), fb(bs[2])))
			if far(bs[0], b[0]*sc) || far(bs[1], b[1]*sc) || far(bs[2], b[2]*sc) {
				c.direct(fmt.Sprintf("C03/homogeneous-from/%s/2^%d/%08x%08x%08x", s.name, e, fb(p[0]), fb(p[1]), fb(p[2])), "ColorFromXYZ is not the (one) linear map at every magnitude: FromXYZ(2^e * c) differs from 2^e * FromXYZ(c) by more than the proportional error 2e-6",
					map[string]interface{}{"space": s.name, "c": p, "e": e, "FromXYZ(c)": b, "FromXYZ(2^e*c)": bs})
			}
		}
		// the smallest magnitudes: float32 subnormals and the first normals (a value that underflowed upstream).  The
		// result must be a finite colour no larger than the matrix allows — never NaN or infinity
		for k := 0; k < 120; k++ {
			e := r.pick(-126, -127, -128, -129, -130, -135, -140, -148, -149)
			sc := float32(math.Ldexp(1, e))
			p := [3]float32{sc * float32(r.intn(7)-3), sc * float32(r.intn(7)-3), sc * float32(1+r.intn(3))}
			mx := math.Max(math.Abs(float64(p[0])), math.Max(math.Abs(float64(p[1])), math.Abs(float64(p[2]))))
			x := s.toXYZ(p)
			b := s.fromXYZ(ciexyz.Color{X: p[0], Y: p[1], Z: p[2]})
			ok := func(v float32) bool { return finite32(v) && math.Abs(float64(v)) <= 16*mx+1e-44 }
			c.stats["xyz/tiny"]++
			if !ok(x.X) || !ok(x.Y) || !ok(x.Z) {
				c.direct(fmt.Sprintf("C03/tiny-to/%s/%08x%08x%08x", s.name, fb(p[0]), fb(p[1]), fb(p[2])), "ToXYZ of a colour with subnormal-size components is not a finite colour of that size",
					map[string]interface{}{"space": s.name, "in_bits": []string{fmt.Sprintf("%08x", fb(p[0])), fmt.Sprintf("%08x", fb(p[1])), fmt.Sprintf("%08x", fb(p[2]))}, "out": fmt.Sprint(x)})
			}
			if !ok(b[0]) || !ok(b[1]) || !ok(b[2]) {
				c.direct(fmt.Sprintf("C03/tiny-from/%s/%08x%08x%08x", s.name, fb(p[0]), fb(p[1]), fb(p[2])), "ColorFromXYZ of a colour with subnormal-size components is not a finite colour of that size",
					map[string]interface{}{"space": s.name, "in_bits": []string{fmt.Sprintf("%08x", fb(p[0])), fmt.Sprintf("%08x", fb(p[1])), fmt.Sprintf("%08x", fb(p[2]))}, "out": fmt.Sprint(b)})
			}
			c.emit("xyz/tiny", fmt.Sprintf("col %s fromxyz %08x %08x %08x 0", s.name, fb(p[0]), fb(p[1]), fb(p[2])), fmt.Sprintf("%08x %08x %08x", fb(b[0]), fb(b[1]), fb(b[2])))
		}
		// histories: each conversion right after one of a colour sharing two, one or no components with
		// it (and with components equal to each other) — the result may depend on the argument only
		nh := 1500
		if c.thorough() {
			nh = 30000
		}
		prev := [3]float32{0, 0, 0}
		for k := 0; k < nh; k++ {
			p := prev
			switch r.intn(6) {
			case 0:
				p[r.intn(3)] = float32(r.intn(256)) / 255
			case 1:
				v := float32(r.intn(256)) / 255
				i := r.intn(3)
				p[i], p[(i+1)%3] = v, v
			case 2:
				p = [3]float32{p[1], p[2], p[0]}
			case 3:
				p = [3]float32{p[0], p[0], p[0]}
			case 4:
				p = [3]float32{float32(r.f64()), float32(r.f64()), float32(r.f64())}
			default:
				p[r.intn(3)] = float32(r.f64())
			}
			x := s.toXYZ(p)
			want := mulv3(ref, [3]float64{float64(p[0]), float64(p[1]), float64(p[2])})
			if math.Abs(float64(x.X)-want[0]) > 5e-6 || math.Abs(float64(x.Y)-want[1]) > 5e-6 || math.Abs(float64(x.Z)-want[2]) > 5e-6 {
				c.direct(fmt.Sprintf("C03/history/%s/%08x%08x%08x", s.name, fb(p[0]), fb(p[1]), fb(p[2])), "ToXYZ is not the matrix applied to its argument when called after another colour (prev)",
					map[string]interface{}{"space": s.name, "prev": prev, "in": p, "got": []float32{x.X, x.Y, x.Z}, "want": want})
			}
			c.emit("xyz/history", fmt.Sprintf("col %s toxyz %08x %08x %08x 0", s.name, fb(p[0]), fb(p[1]), fb(p[2])), fmt.Sprintf("%08x %08x %08x", fb(x.X), fb(x.Y), fb(x.Z)))
			if k%4 == 0 {
				// the same components in a colour value built by another constructor and then assigned to
				ctor := r.intn(mutCtors)
				xm := mutBySpace[s.name].toXYZ(ctor, p)
				if math.Abs(float64(xm.X)-want[0]) > 5e-6 || math.Abs(float64(xm.Y)-want[1]) > 5e-6 || math.Abs(float64(xm.Z)-want[2]) > 5e-6 {
					c.direct(fmt.Sprintf("C03/assigned/%s/ctor%d/%08x%08x%08x", s.name, ctor, fb(p[0]), fb(p[1]), fb(p[2])), "ToXYZ is not the matrix applied to the colour's components when the value was built by another constructor and its R, G, B fields assigned afterwards",
						map[string]interface{}{"space": s.name, "constructor": ctor, "in": p, "got": []float32{xm.X, xm.Y, xm.Z}, "want": want})
				}
				c.emit("xyz/assigned", fmt.Sprintf("col %s toxyz %08x %08x %08x 0", s.name, fb(p[0]), fb(p[1]), fb(p[2])), fmt.Sprintf("%08x %08x %08x", fb(xm.X), fb(xm.Y), fb(xm.Z)))
			}
			q := [3]float32{x.X, x.Y, x.Z}
			if k%3 == 0 {
				q = p // XYZ values sharing components with the previous call
			}
			back := s.fromXYZ(ciexyz.Color{X: q[0], Y: q[1], Z: q[2]})
			wantB := mulv3(refInv, [3]float64{float64(q[0]), float64(q[1]), float64(q[2])})
			for j := 0; j < 3; j++ {
				if math.Abs(float64(back[j])-wantB[j]) > 1.5e-5 {
					c.direct(fmt.Sprintf("C03/history-from/%s/%08x%08x%08x", s.name, fb(q[0]), fb(q[1]), fb(q[2])), "ColorFromXYZ is not the inverse matrix applied to its argument when called after another colour",
						map[string]interface{}{"space": s.name, "in": q, "got": back, "want": wantB})
				}
			}
			c.emit("xyz/history", fmt.Sprintf("col %s fromxyz %08x %08x %08x 0", s.name, fb(q[0]), fb(q[1]), fb(q[2])), fmt.Sprintf("%08x %08x %08x", fb(back[0]), fb(back[1]), fb(back[2])))
			prev = p
		}
		// triples on which a familiar linear functional vanishes exactly (luminance by Rec.709 / Rec.601 /
		// this space's own Y row, the plain sum, a difference of two channels): out of range, mixed signs
		func() {
			yrow := mulv3T(ref, 1)
			fs := [][3]float64{{0.2126, 0.7152, 0.0722}, {0.299, 0.587, 0.114}, yrow, {1, 1, 1}, {1, -1, 0}, {0.2126729, 0.7151522, 0.0721750}}
			for _, f := range fs {
				for _, k := range []float64{1, 0.5, -1, 2, 0.1} {
					for _, tri := range [][3]float64{{f[2], 0, -f[0]}, {f[1], -f[0], 0}, {0, f[2], -f[1]}, {f[1] + f[2], -f[0], -f[0]}} {
						p := [3]float32{float32(k * tri[0]), float32(k * tri[1]), float32(k * tri[2])}
						x := s.toXYZ(p)
						want := mulv3(ref, [3]float64{float64(p[0]), float64(p[1]), float64(p[2])})
						if math.Abs(float64(x.X)-want[0]) > 5e-6 || math.Abs(float64(x.Y)-want[1]) > 5e-6 || math.Abs(float64(x.Z)-want[2]) > 5e-6 {
							c.direct(fmt.Sprintf("C03/cancelling/%s/%08x%08x%08x", s.name, fb(p[0]), fb(p[1]), fb(p[2])), "ToXYZ is not the matrix applied to its argument on a triple where a linear functional (luminance, sum, difference) vanishes",
								map[string]interface{}{"space": s.name, "in": p, "got": []float32{x.X, x.Y, x.Z}, "want": want})
						}
						c.emit("xyz/cancelling", fmt.Sprintf("col %s toxyz %08x %08x %08x 0", s.name, fb(p[0]), fb(p[1]), fb(p[2])), fmt.Sprintf("%08x %08x %08x", fb(x.X), fb(x.Y), fb(x.Z)))
						back := s.fromXYZ(ciexyz.Color{X: p[0], Y: p[1], Z: p[2]})
						c.emit("xyz/cancelling", fmt.Sprintf("col %s fromxyz %08x %08x %08x 0", s.name, fb(p[0]), fb(p[1]), fb(p[2])), fmt.Sprintf("%08x %08x %08x", fb(back[0]), fb(back[1]), fb(back[2])))
					}
				}
			}
		}()
		// the library's own named constants (and multiples of them) as arguments: the conversions are
		// functions of the value, whichever exported name it came from
		for _, w := range []ciexyz.Color{ciexyz.D50, ciexyz.D65, ciexyz.ColorFromXYY(s.white)} {
			for _, k := range []float32{1, 0.5, 2, 0.18, 0.999999, 1.000001} {
				q := [3]float32{w.X * k, w.Y * k, w.Z * k}
				back := s.fromXYZ(ciexyz.Color{X: q[0], Y: q[1], Z: q[2]})
				wantB := mulv3(refInv, [3]float64{float64(q[0]), float64(q[1]), float64(q[2])})
				for j := 0; j < 3; j++ {
					if math.Abs(float64(back[j])-wantB[j]) > 1.5e-5*math.Max(1, float64(k)) {
						c.direct(fmt.Sprintf("C03/named-constant/%s/%08x%08x%08x", s.name, fb(q[0]), fb(q[1]), fb(q[2])), "ColorFromXYZ is not the inverse matrix applied to its argument at (a multiple of) a named white-point constant",
							map[string]interface{}{"space": s.name, "in": q, "got": back, "want": wantB})
					}
				}
				c.emit("xyz/named", fmt.Sprintf("col %s fromxyz %08x %08x %08x 0", s.name, fb(q[0]), fb(q[1]), fb(q[2])), fmt.Sprintf("%08x %08x %08x", fb(back[0]), fb(back[1]), fb(back[2])))
				for _, l := range [][3]float32{{k, k, k}, {1, 1, 1}, {0, 0, 0}, {1, 0, 0}, {0, 1, 0}, {0, 0, 1}} {
					x := s.toXYZ(l)
					c.emit("xyz/named", fmt.Sprintf("col %s toxyz %08x %08x %08x 0", s.name, fb(l[0]), fb(l[1]), fb(l[2])), fmt.Sprintf("%08x %08x %08x", fb(x.X), fb(x.Y), fb(x.Z)))
				}
			}
		}
		if c.thorough() {
			// round-trip oracle on the real code over the full 2^24 8-bit lattice
			for k := 0; k < 1<<24; k++ {
				p := xyzPointGo("lat", k, 0)
				out := s.fromXYZ(s.toXYZ(p))
				for j := 0; j < 3; j++ {
					if math.Abs(float64(out[j])-float64(p[j])) > 2e-6 {
						c.direct(fmt.Sprintf("C03/roundtrip-full/%s/%06x", s.name, k), "RGB->XYZ->RGB does not return the input within 2e-6", map[string]interface{}{"space": s.name, "in": p, "out": out})
					}
				}
			}
			c.stats["roundtrip-oracle-full-2^24/"+s.name] = 1 << 24
		}
		// XYZ -> RGB -> XYZ on the image of random in-range colours; single-case ops with extremes
		for k := 0; k < 300; k++ {
			p := [3]float32{float32(r.f64()), float32(r.f64()), float32(r.f64())}
			if k%10 == 0 {
				p = [3]float32{float32(r.f64()*1e30 - 5e29), float32(r.f64() * 1e-30), -float32(r.f64())}
			}
			x := s.toXYZ(p)
			c.emit("xyz/single", fmt.Sprintf("col %s toxyz %08x %08x %08x 0", s.name, fb(p[0]), fb(p[1]), fb(p[2])), fmt.Sprintf("%08x %08x %08x", fb(x.X), fb(x.Y), fb(x.Z)))
			back := s.fromXYZ(x)
			c.emit("xyz/single", fmt.Sprintf("col %s fromxyz %08x %08x %08x 0", s.name, fb(x.X), fb(x.Y), fb(x.Z)), fmt.Sprintf("%08x %08x %08x", fb(back[0]), fb(back[1]), fb(back[2])))
			x2 := s.toXYZ(back)
			scale := math.Max(1, math.Max(math.Abs(float64(x.X)), math.Max(math.Abs(float64(x.Y)), math.Abs(float64(x.Z)))))
			if math.Abs(float64(x2.X-x.X)) > 2e-6*scale || math.Abs(float64(x2.Y-x.Y)) > 2e-6*scale || math.Abs(float64(x2.Z-x.Z)) > 2e-6*scale {
				c.direct(fmt.Sprintf("C03/roundtrip-xyz/%s/%d", s.name, k), "XYZ->RGB->XYZ does not return the input within 2e-6 (proportional)", map[string]interface{}{"space": s.name, "xyz": []float32{x.X, x.Y, x.Z}, "back": []float32{x2.X, x2.Y, x2.Z}})
			}
		}
	}
	// exported declarations assigned to and restored (runs last, restores)
	declHistories(c)
}

// ---- C04 ------------------------------------------------------------------------------

var bradfordRef = [3][3]float64{{0.8951, 0.2664, -0.1614}, {-0.7502, 1.7135, 0.0367}, {0.0389, -0.0685, 1.0296}}

func adaptRef(ws, wd [2]float64) [3][3]float64 {
	xyz := func(w [2]float64) [3]float64 { return [3]float64{w[0] / w[1], 1, (1 - w[0] - w[1]) / w[1]} }
	s := mulv3(bradfordRef, xyz(ws))
	d := mulv3(bradfordRef, xyz(wd))
	diag := [3][3]float64{{d[0] / s[0], 0, 0}, {0, d[1] / s[1], 0}, {0, 0, d[2] / s[2]}}
	return mul3(mul3(inv3(bradfordRef), diag), bradfordRef)
}

// convertGo: the documented pipeline on the real code.
func convertGo(src, dst *space, ad *ciexyz.ChromaticAdaptation, px color.NRGBA) color.NRGBA {
	l, a := src.fromNRGBA(px)
	xyz := src.toXYZ(l)
	if ad != nil {
		xyz = ad.Apply(xyz)
	}
	return dst.toNRGBA(dst.fromXYZ(xyz), a)
}

func c04Pixel(mode string, start, step, i int, z uint64) color.NRGBA {
	if mode == "rnd" {
		return color.NRGBA{R: uint8(z), G: uint8(z >> 8), B: uint8(z >> 16), A: uint8(z >> 24)}
	}
	k := (start + i) * step
	a := uint8(255)
	if mode != "lat" {
		a = uint8(k >> 24)
	}
	return color.NRGBA{R: uint8(k), G: uint8(k >> 8), B: uint8(k >> 16), A: a}
}

func corrC04(c *corrCtx) {
	sfCross(c, 2000)
	r := c.rng
	const eta = 1.0 / (1 << 20)
	const etaP = 1.0 / 1024
	const delta = (1.0/1022)*(1+eta) + 4e-6
	worst := 0.0
	// pixels converted once pair by pair (below) and then again pixel by pixel, every pair in turn for the same pixel:
	// a conversion's result may depend on its arguments only, not on what was converted just before
	var ilPx []color.NRGBA
	for k := 0; k < 150; k++ {
		px := color.NRGBA{R: uint8(r.next()), G: uint8(r.next()), B: uint8(r.next()), A: uint8(r.next())}
		if k%3 == 0 {
			px = color.NRGBA{R: 0, G: 0, B: uint8(r.next()), A: 255}
		}
		ilPx = append(ilPx, px)
	}
	ilRes := map[[2]int][]color.NRGBA{}
	for i := range spaces {
		for j := range spaces {
			src, dst := &spaces[i], &spaces[j]
			var ad *ciexyz.ChromaticAdaptation
			if src.white != dst.white {
				a := ciexyz.AdaptBetweenXYYWhitePoints(src.white, dst.white)
				ad = &a
			}
			// independent float64 reference
			mSrc := spaceRefMatrix(src)
			mDstInv := inv3(spaceRefMatrix(dst))
			full := mul3(mDstInv, mSrc)
			if ad != nil {
				full = mul3(mDstInv, mul3(adaptRef([2]float64{float64(src.white.X), float64(src.white.Y)}, [2]float64{float64(dst.white.X), float64(dst.white.Y)}), mSrc))
			}
			check := func(px, got color.NRGBA) {
				lin := [3]float64{eotfRef(src.name, float64(px.R)/255), eotfRef(src.name, float64(px.G)/255), eotfRef(src.name, float64(px.B)/255)}
				ref := mulv3(full, lin)
				if i == j {
					ref = lin
				}
				g := [3]uint8{got.R, got.G, got.B}
				for k := 0; k < 3; k++ {
					lo := 255*oetfRef(dst.name, ref[k]-delta) - 0.5 - etaP
					hi := 255*oetfRef(dst.name, ref[k]+delta) + 0.5 + etaP
					v := float64(g[k])
					if v < lo || v > hi {
						c.direct(fmt.Sprintf("C04/%s-%s/%02x%02x%02x%02x/ch%d", src.name, dst.name, px.R, px.G, px.B, px.A, k), "converted code is outside the encoder's tolerance of the independent colorimetric reference",
							map[string]interface{}{"src": src.name, "dst": dst.name, "pixel": []uint8{px.R, px.G, px.B, px.A}, "channel": k, "got": g[k], "ref_linear": ref[k], "lo": lo, "hi": hi})
					}
					m := math.Max(lo-v, v-hi) + 0.5
					if m > worst {
						worst = m
					}
				}
				if got.A != px.A {
					c.direct(fmt.Sprintf("C04/alpha/%s-%s/%02x", src.name, dst.name, px.A), "alpha is not returned unchanged", map[string]interface{}{"in": px.A, "out": got.A})
				}
			}
			batches := []struct {
				mode             string
				total, per, step int
			}{{"lat", 1 << 15, 1024, 512 + 1}, {"rnd", 20000, 1000, 1}}
			if c.thorough() {
				batches = []struct {
					mode             string
					total, per, step int
				}{{"lat", 1 << 20, 8192, 16}, {"rnd", 400000, 8192, 1}, {"alpha", 1 << 18, 8192, 16387}}
			}
			for _, b := range batches {
				for start := 0; start < b.total; start += b.per {
					cnt := b.per
					if start+cnt > b.total {
						cnt = b.total - start
					}
					h := newFnv()
					st := uint64(start)
					for k := 0; k < cnt; k++ {
						var z uint64
						z, st = smStep(st)
						px := c04Pixel(b.mode, start, b.step, k, z)
						got := convertGo(src, dst, ad, px)
						h.word(uint64(got.R) + 256*(uint64(got.G)+256*(uint64(got.B)+256*uint64(got.A))))
						check(px, got)
					}
					c.emit("pair/"+b.mode, fmt.Sprintf("c04b %s %s %s %x %x %x", src.name, dst.name, b.mode, start, cnt, b.step), fmt.Sprintf("%016x", h.h))
				}
			}
			if c.thorough() {
				// the property's own oracle over ALL 2^24 RGB values of this pair (real code only; the
				// bit-exact model is compared on the 2^20 lattice above)
				for k := 0; k < 1<<24; k++ {
					px := color.NRGBA{R: uint8(k), G: uint8(k >> 8), B: uint8(k >> 16), A: 255}
					check(px, convertGo(src, dst, ad, px))
				}
				c.stats["oracle-full-2^24/"+src.name+"->"+dst.name] = 1 << 24
			}
			// all greys, gamut-edge colours, all alphas: single-pixel ops
			var pxs []color.NRGBA
			for v := 0; v < 256; v++ {
				pxs = append(pxs, color.NRGBA{R: uint8(v), G: uint8(v), B: uint8(v), A: 255})
				pxs = append(pxs, color.NRGBA{R: uint8(v), G: 0, B: 255, A: uint8(v)})
				pxs = append(pxs, color.NRGBA{R: 255, G: uint8(v), B: 0, A: 255})
				pxs = append(pxs, color.NRGBA{R: 0, G: 255, B: uint8(v), A: 255})
			}
			for k := 0; k < 50; k++ {
				pxs = append(pxs, color.NRGBA{R: uint8(r.next()), G: uint8(r.next()), B: uint8(r.next()), A: uint8(r.next())})
			}
			pp := color.NRGBA{R: 10, G: 10, B: 10, A: 255}
			for k := 0; k < 120; k++ {
				q := pp
				switch r.intn(6) {
				case 0:
					q.R = uint8(r.next())
				case 1:
					q.G = uint8(r.next())
				case 2:
					q.B = uint8(r.next())
				case 3:
					q.A = uint8(r.next())
				case 4:
					q = color.NRGBA{R: q.G, G: q.B, B: q.R, A: q.A}
				}
				pxs = append(pxs, q)
				pp = q
			}
			for _, px := range pxs {
				got := convertGo(src, dst, ad, px)
				check(px, got)
				c.emit("pair/single", fmt.Sprintf("c04 %s %s %x %x %x %x", src.name, dst.name, px.R, px.G, px.B, px.A), fmt.Sprintf("%02x %02x %02x %02x", got.R, got.G, got.B, got.A))
			}
			for _, px := range ilPx {
				got := convertGo(src, dst, ad, px)
				check(px, got)
				ilRes[[2]int{i, j}] = append(ilRes[[2]int{i, j}], got)
			}
		}
	}
	for k, px := range ilPx {
		for i := range spaces {
			for j := range spaces {
				src, dst := &spaces[i], &spaces[j]
				var ad *ciexyz.ChromaticAdaptation
				if src.white != dst.white {
					a := ciexyz.AdaptBetweenXYYWhitePoints(src.white, dst.white)
					ad = &a
				}
				got := convertGo(src, dst, ad, px)
				c.stats["pair/interleaved"]++
				if want := ilRes[[2]int{i, j}][k]; got != want {
					c.direct(fmt.Sprintf("C04/interleaved/%s-%s/%02x%02x%02x%02x", src.name, dst.name, px.R, px.G, px.B, px.A), "a conversion's result depends on what was converted before it (the same pixel through every pair in turn differs from the pair-by-pair result)",
						map[string]interface{}{"src": src.name, "dst": dst.name, "pixel": []uint8{px.R, px.G, px.B, px.A}, "got": []uint8{got.R, got.G, got.B, got.A}, "pair_by_pair": []uint8{want.R, want.G, want.B, want.A}})
				}
			}
		}
	}
	c.extra["worst_distance_from_reference_interval_codes"] = worst
}
