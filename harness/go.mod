module prismverif

go 1.23

require (
	github.com/mandykoh/prism v0.0.0
	golang.org/x/image v0.18.0
)

require github.com/mandykoh/go-parallel v0.1.0 // indirect

replace github.com/mandykoh/prism => /repo
