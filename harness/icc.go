package main

import (
	"bufio"
	"bytes"
	"encoding/binary"
	"fmt"
	"github.com/mandykoh/prism/meta"
	"strings"
	"time"

	"github.com/mandykoh/prism/meta/icc"
)

func init() { corrFuncs["C16"] = corrC16; corrFuncs["C17"] = corrC17 }

func dateValid(d [6]uint16) bool {
	y, mo, day := int(d[0]), int(d[1]), int(d[2])
	leap := (y%4 == 0 && y%100 != 0) || y%400 == 0
	dim := 31
	if mo == 2 {
		dim = 28
		if leap {
			dim = 29
		}
	} else if mo == 4 || mo == 6 || mo == 9 || mo == 11 {
		dim = 30
	}
	return mo >= 1 && mo <= 12 && day >= 1 && day <= dim && d[3] < 24 && d[4] < 60 && d[5] < 60
}

// safeReadProfile / safeDescription: a panic escaping to the caller is reported.
func safeReadProfile(data []byte) (p *icc.Profile, err error, panicked interface{}) {
	defer func() {
		if x := recover(); x != nil {
			panicked = x
		}
	}()
	p, err = icc.NewProfileReader(bytes.NewReader(data)).ReadProfile()
	return
}

func safeDescription(p *icc.Profile) (s string, err error, panicked interface{}) {
	one := func() (s string, err error, panicked interface{}) {
		defer func() {
			if x := recover(); x != nil {
				panicked = x
			}
		}()
		s, err = p.Description()
		return
	}
	s, err, panicked = one()
	if panicked != nil {
		return
	}
	// asking again must return, and succeed or fail as the first call did (a result may be cached, a lock may be held):
	// the second call runs under a deadline of its own
	type res struct {
		s   string
		err error
		pan interface{}
	}
	ch := make(chan res, 1)
	go func() {
		s2, e2, p2 := one()
		ch <- res{s2, e2, p2}
	}()
	select {
	case r2 := <-ch:
		if r2.pan != nil {
			panicked = r2.pan
		} else if (r2.err == nil) != (err == nil) {
			// (the text itself may legitimately differ between calls when several non-English records are admissible)
			panicked = fmt.Sprintf("second Description() call succeeds/fails differently from the first: %q/%v then %q/%v", s, err, r2.s, r2.err)
		}
	case <-time.After(5 * time.Second):
		panicked = "second Description() call on the same Profile did not return within 5 s (blocked)"
	}
	return
}

func tagDigest(p *icc.Profile, raw []byte) string {
	// the tag table is unexported; observe it through an independent re-read of the raw
	// index and the description accessor only. Digest is computed by the harness from the
	// raw bytes the same way the model slices them (offset/size relative to the table end).
	return ""
}

// iccOut renders what the real code exposes of a profile, in the model's canonical form.
func iccOut(data []byte) (line string, p *icc.Profile) {
	p, err, pan := safeReadProfile(data)
	if pan != nil {
		return "panic-escaped", nil
	}
	if err != nil {
		return "err", nil
	}
	return renderProfile(p, data), p
}

func renderProfile(p *icc.Profile, data []byte) string {
	h := p.Header
	var raw [6]uint16
	for i := range raw {
		raw[i] = binary.BigEndian.Uint16(data[24+2*i:])
	}
	date := "invalid-date"
	if dateValid(raw) {
		t := h.CreatedAt
		date = fmt.Sprintf("%d-%d-%d-%d-%d-%d", t.Year(), int(t.Month()), t.Day(), t.Hour(), t.Minute(), t.Second())
	}
	// the instant, whatever the six numbers are (out-of-range components carry, as time.Date documents)
	date += fmt.Sprintf(" unix=%d", h.CreatedAt.Unix())
	b2i := func(b bool) int {
		if b {
			return 1
		}
		return 0
	}
	var sb strings.Builder
	fmt.Fprintf(&sb, "ok %d %d %d %d %d %d %d %s %d %d %d %d %d %d %d %d %d %d %d id=%s ver=%s",
		h.ProfileSize, uint32(h.PreferredCMM), h.Version.Major, h.Version.MinorAndRev, uint32(h.DeviceClass), uint32(h.DataColorSpace),
		uint32(h.ProfileConnectionSpace), date, uint32(h.PrimaryPlatform), b2i(h.Embedded), b2i(h.DependsOnEmbeddedData),
		uint32(h.DeviceManufacturer), uint32(h.DeviceModel), h.DeviceAttributes, uint32(h.RenderingIntent),
		h.PCSIlluminant[0], h.PCSIlluminant[1], h.PCSIlluminant[2], uint32(h.ProfileCreator), hexs(h.ProfileID[:]), h.Version.String())
	desc, derr, dpan := safeDescription(p)
	switch {
	case dpan != nil:
		sb.WriteString(" desc=panic-escaped")
	case derr != nil:
		sb.WriteString(" desc=err")
	default:
		sb.WriteString(" desc=" + hexs([]byte(desc)))
	}
	return sb.String()
}

func emitIcc(c *corrCtx, class string, data []byte) string {
	out, _ := iccOut(data)
	c.emit(class, "icc eof "+hexs(data), out)
	return out
}

// c16Oracle: the property's own statement, evaluated on the real code against an
// independent decode of the header bytes at the offsets ICC.1 assigns.
func c16Oracle(c *corrCtx, class string, hd []byte) { c16OracleTail(c, class, hd, []byte{0, 0, 0, 0}) }

// c16OracleTail: the header followed by a tag table and tag data (tail)
func c16OracleTail(c *corrCtx, class string, hd []byte, tail []byte) {
	data := append(append([]byte{}, hd...), tail...)
	p, err, pan := safeReadProfile(data)
	be := binary.BigEndian
	hasSig := string(hd[36:40]) == "acsp"
	if pan != nil || (err == nil) != hasSig {
		c.direct("C16/"+class+"/signature", "header acceptance does not follow the 'acsp' signature", map[string]interface{}{"header": hexs(hd), "err": fmt.Sprint(err), "panic": fmt.Sprint(pan)})
		return
	}
	if !hasSig {
		return
	}
	h := p.Header
	type chk struct {
		name      string
		got, want uint64
	}
	flags := be.Uint32(hd[44:])
	b2u := func(b bool) uint64 {
		if b {
			return 1
		}
		return 0
	}
	checks := []chk{
		{"size", uint64(h.ProfileSize), uint64(be.Uint32(hd[0:]))},
		{"cmm", uint64(h.PreferredCMM), uint64(be.Uint32(hd[4:]))},
		{"major", uint64(h.Version.Major), uint64(hd[8])},
		{"minorrev", uint64(h.Version.MinorAndRev), uint64(hd[9])},
		{"class", uint64(h.DeviceClass), uint64(be.Uint32(hd[12:]))},
		{"colorspace", uint64(h.DataColorSpace), uint64(be.Uint32(hd[16:]))},
		{"pcs", uint64(h.ProfileConnectionSpace), uint64(be.Uint32(hd[20:]))},
		{"platform", uint64(h.PrimaryPlatform), uint64(be.Uint32(hd[40:]))},
		{"embedded(bit0)", b2u(h.Embedded), uint64(flags & 1)},
		{"dependsOnEmbedded(bit1)", b2u(h.DependsOnEmbeddedData), uint64(flags >> 1 & 1)},
		{"manufacturer", uint64(h.DeviceManufacturer), uint64(be.Uint32(hd[48:]))},
		{"model", uint64(h.DeviceModel), uint64(be.Uint32(hd[52:]))},
		{"attributes", h.DeviceAttributes, be.Uint64(hd[56:])},
		{"intent", uint64(h.RenderingIntent), uint64(be.Uint32(hd[64:]))},
		{"illuminantX", uint64(h.PCSIlluminant[0]), uint64(be.Uint32(hd[68:]))},
		{"illuminantY", uint64(h.PCSIlluminant[1]), uint64(be.Uint32(hd[72:]))},
		{"illuminantZ", uint64(h.PCSIlluminant[2]), uint64(be.Uint32(hd[76:]))},
		{"creator", uint64(h.ProfileCreator), uint64(be.Uint32(hd[80:]))},
	}
	for _, k := range checks {
		if k.got != k.want {
			c.direct("C16/field/"+k.name, "header field differs from the big-endian value at its ICC.1 offset", map[string]interface{}{"field": k.name, "got": k.got, "want": k.want, "header": hexs(hd)})
		}
	}
	if !bytes.Equal(h.ProfileID[:], hd[84:100]) {
		c.direct("C16/field/id", "profile ID differs", map[string]interface{}{"header": hexs(hd)})
	}
	wantVer := fmt.Sprintf("%d.%d.%d", hd[8], hd[9]>>4, hd[9]&0xf)
	if h.Version.String() != wantVer {
		c.direct("C16/version", "version does not render as major.minor.bugfix from the BCD nibbles", map[string]interface{}{"got": h.Version.String(), "want": wantVer})
	}
	var raw [6]uint16
	for i := range raw {
		raw[i] = be.Uint16(hd[24+2*i:])
	}
	if got, want := h.CreatedAt.Unix(), unixOfDateTimeNumber(raw); got != want {
		c.direct(fmt.Sprintf("C16/field/instant/%d-%d-%d-%d-%d-%d", raw[0], raw[1], raw[2], raw[3], raw[4], raw[5]), "creation time is not the instant the dateTimeNumber states (components beyond their range carry over)",
			map[string]interface{}{"got_unix": got, "want_unix": want, "raw": raw, "got": h.CreatedAt.String()})
	}
	if dateValid(raw) {
		t := h.CreatedAt
		if t.Year() != int(raw[0]) || int(t.Month()) != int(raw[1]) || t.Day() != int(raw[2]) || t.Hour() != int(raw[3]) || t.Minute() != int(raw[4]) || t.Second() != int(raw[5]) {
			c.direct("C16/field/date", "creation time differs from the dateTimeNumber", map[string]interface{}{"got": t.String(), "raw": raw})
		}
	}
}

func corrC16(c *corrCtx) {
	r := c.rng
	nEmit := 0
	emit := func(class string, hd []byte) {
		data := append(append([]byte{}, hd...), 0, 0, 0, 0) // zero tags
		plain := emitIcc(c, class, data)
		c16Oracle(c, class, hd)
		// the same header through a buffered reader over a source that delivers in pieces: every field
		// must come out the same (one case in three; sizes rotate)
		nEmit++
		if nEmit%3 == 0 {
			sc := [][]int{{1}, {7}, {90}, {84, 3}, {100, 1}, {50}}[(nEmit/3)%6]
			bs := []int{16, 64, 4096}[(nEmit/3)%3]
			src := &schedReader{data: data, sched: sc, endErr: ioEOF(), eofWithData: nEmit%2 == 0}
			got := iccOutReader(bufioSized(src, bs), data)
			c.emit(class+"/chunked", "icc eof "+hexs(data), got)
			if got != plain {
				c.direct(fmt.Sprintf("C16/%s/chunked/sched=%s/buf=%d", class, schedStr(sc), bs), "header fields differ when the same bytes arrive in pieces",
					map[string]interface{}{"sched": schedStr(sc), "bufsize": bs, "plain": plain, "got": got, "header": hexs(hd)})
			}
		}
	}
	base := func(fill byte) []byte {
		h := bytes.Repeat([]byte{fill}, 128)
		copy(h[36:40], "acsp")
		return h
	}
	emit("zeros", base(0))
	emit("ones", base(0xff))
	// walking ones over all 1024 bit positions (on a zero background and on a ones background)
	for bit := 0; bit < 1024; bit++ {
		h := base(0)
		h[bit/8] ^= 0x80 >> uint(bit%8)
		emit("walk1", h)
		if c.thorough() || bit%3 == 0 {
			h = base(0xff)
			h[bit/8] ^= 0x80 >> uint(bit%8)
			emit("walk0", h)
		}
	}
	// every value of the two version bytes
	for v := 0; v < 256; v++ {
		h := iccHeader(r)
		h[9] = byte(v)
		emit("version-minor", h[:])
		h = iccHeader(r)
		h[8] = byte(v)
		emit("version-major", h[:])
	}
	// flags: all four combinations of bits 0,1 with the other bits random / zero
	for f := uint32(0); f < 4; f++ {
		for k := 0; k < 8; k++ {
			h := iccHeader(r)
			v := f
			if k > 0 {
				v |= uint32(r.next()) &^ 3
			}
			binary.BigEndian.PutUint32(h[44:], v)
			emit("flags", h[:])
		}
	}
	// date-time components: each valid value of each component, and invalid ones
	for mo := 0; mo <= 13; mo++ {
		for _, d := range []int{0, 1, 28, 29, 30, 31, 32} {
			h := iccHeader(r)
			binary.BigEndian.PutUint16(h[24:], uint16([]int{1999, 2000, 2100, 2024, 0, 65535}[r.intn(6)]))
			binary.BigEndian.PutUint16(h[26:], uint16(mo))
			binary.BigEndian.PutUint16(h[28:], uint16(d))
			emit("date", h[:])
		}
	}
	// the end of February in every kind of year (common, leap, century, 400th)
	for _, y := range []int{1600, 1900, 1999, 2000, 2023, 2024, 2100, 2400} {
		for _, md := range [][2]int{{2, 28}, {2, 29}, {2, 30}, {3, 1}, {12, 31}, {1, 1}} {
			h := iccHeader(r)
			binary.BigEndian.PutUint16(h[24:], uint16(y))
			binary.BigEndian.PutUint16(h[26:], uint16(md[0]))
			binary.BigEndian.PutUint16(h[28:], uint16(md[1]))
			emit("date-february", h[:])
		}
	}
	for _, hh := range []int{0, 23, 24} {
		for _, mm := range []int{0, 59, 60} {
			for _, ss := range []int{0, 1, 59, 60, 61, 65535} {
				h := iccHeader(r)
				binary.BigEndian.PutUint16(h[30:], uint16(hh))
				binary.BigEndian.PutUint16(h[32:], uint16(mm))
				binary.BigEndian.PutUint16(h[34:], uint16(ss))
				emit("time", h[:])
			}
		}
	}
	// realistic headers: the signature fields hold values the specification and real profiles use; each
	// as it is, with every single bit flipped, and with each byte replaced by NUL / space / 0xff
	sigs := []string{"XYZ ", "Lab ", "Luv ", "YCbr", "Yxy ", "RGB ", "GRAY", "HSV ", "HLS ", "CMYK", "CMY ", "2CLR", "FCLR",
		"scnr", "mntr", "prtr", "link", "spac", "abst", "nmcl", "APPL", "MSFT", "SGI ", "SUNW", "appl", "ADBE", "lcms", "acsp", "\x00\x00\x00\x00"}
	sigFields := []int{4, 12, 16, 20, 40, 48, 52, 80}
	for _, sg := range sigs {
		for fi, off := range sigFields {
			if !c.thorough() && off != 16 && off != 20 && (len(sg)+fi)%3 != 0 {
				continue
			}
			h := iccHeader(r)
			copy(h[off:off+4], sg)
			emit("sig", h[:])
			for b := 0; b < 4; b++ {
				for _, v := range []byte{0x00, 0x20, 0xff} {
					g := h
					g[off+b] = v
					emit("sig-byte", g[:])
				}
				if c.thorough() || off == 16 || off == 20 {
					for bit := 0; bit < 8; bit++ {
						g := h
						g[off+b] ^= 1 << uint(bit)
						emit("sig-bit", g[:])
					}
				}
			}
		}
	}
	// the headers of the profiles shipped with the repository, every single-bit flip of their first 128 bytes
	for pi, prof := range realProfiles() {
		if len(prof) < 128 {
			continue
		}
		emit("real", prof[:128])
		for bit := 0; bit < 1024; bit++ {
			if !c.thorough() && (bit+pi)%4 != 0 && !(bit >= 96 && bit < 192) {
				continue
			}
			g := append([]byte{}, prof[:128]...)
			g[bit/8] ^= 0x80 >> uint(bit%8)
			emit("real-bit", g)
		}
	}
	n := 300
	if c.thorough() {
		n = 20000
	}
	for i := 0; i < n; i++ {
		h := r.bytes(128)
		if r.intn(10) != 0 {
			copy(h[36:40], "acsp")
		} else if r.intn(2) == 0 {
			copy(h[36:40], "acsp")
			h[36+r.intn(4)] ^= 1 << uint(r.intn(8))
		}
		emit("random", h)
	}
	// complete profiles (a tag table and tag data after the header): what follows the header must not
	// change what the header fields say — in particular the size field, whatever it declares (the true
	// size, less than the tag data's extent, 0, the header alone, more than there is)
	np := 12
	if c.thorough() {
		np = 300
	}
	for i := 0; i < np; i++ {
		d, _ := randIccDesc(r, 1+r.intn(5))
		full := d.build()
		if len(full) < 132 {
			continue
		}
		for _, sz := range []uint32{uint32(len(full)), 0, 128, 132, uint32(len(full)) - 1, uint32(len(full)) / 2, uint32(len(full)) + 1, 0xffffffff, uint32(r.next())} {
			g := append([]byte{}, full...)
			binary.BigEndian.PutUint32(g[0:], sz)
			emitIcc(c, "with-tags", g)
			c16OracleTail(c, "with-tags", g[:128], g[128:])
		}
	}
	// truncated headers
	for _, cut := range []int{0, 1, 35, 36, 39, 40, 83, 84, 85, 99, 100, 127, 128, 129, 131} {
		h := iccHeader(r)
		data := append(h[:], 0, 0, 0, 0)
		emitIcc(c, "truncated", data[:cut])
	}
}

func corrC17(c *corrCtx) {
	r := c.rng
	n := 400
	if c.thorough() {
		n = 6000
	}
	for i := 0; i < n; i++ {
		maxTags := 8
		if r.intn(5) == 0 {
			maxTags = 64
		}
		d, want := randIccDesc(r, maxTags)
		data := d.build()
		out := emitIcc(c, fmt.Sprintf("wellformed/tags%d", len(d.tags)/8*8), data)
		// the property's own oracle
		ok := strings.HasPrefix(out, "ok ")
		if !ok {
			c.direct("C17/read/"+fmt.Sprint(i), "reading a well-formed profile fails", map[string]interface{}{"ntags": len(d.tags), "got": out, "profile": hexs(trunc(data, 400))})
			continue
		}
		got := out[strings.LastIndex(out, "desc=")+5:]
		if want == nil {
			if got != "err" {
				c.direct("C17/nodesc", "a profile without a description tag yields a description", map[string]interface{}{"got": got})
			}
			continue
		}
		match := false
		for _, w := range want {
			if got == hexs(w) {
				match = true
			}
		}
		if !match {
			var ws []string
			for _, w := range want {
				ws = append(ws, hexs(trunc(w, 60)))
			}
			c.direct(fmt.Sprintf("C17/desc/tags%d", len(d.tags)), "description is not the string stored at the description tag's declared offset",
				map[string]interface{}{"got": trunc([]byte(got), 200), "want_one_of": ws, "ntags": len(d.tags), "profile": hexs(trunc(data, 600))})
		}
		// the description is asked for later, after the caller has reused the memory the profile was read
		// from (a *bytes.Buffer that is reset and refilled, a slice that is overwritten): one case in three
		if i%3 == 0 {
			for _, how := range []string{"buffer-reused", "slice-overwritten", "bytes-reader-overwritten"} {
				own := append([]byte{}, data...)
				var pr *icc.Profile
				var err error
				var pan interface{}
				func() {
					defer func() { pan = recover() }()
					switch how {
					case "buffer-reused":
						buf := bytes.NewBuffer(own)
						pr, err = icc.NewProfileReader(buf).ReadProfile()
						buf.Reset()
						buf.Write(bytes.Repeat([]byte{0xa5}, len(own)))
					case "slice-overwritten":
						pr, err = icc.NewProfileReader(bytes.NewBuffer(own)).ReadProfile()
					default:
						pr, err = icc.NewProfileReader(bytes.NewReader(own)).ReadProfile()
					}
				}()
				for k := range own {
					own[k] = 0x5a
				}
				if pan != nil || err != nil || pr == nil {
					c.direct("C17/later/read/"+how, "reading a well-formed profile fails", map[string]interface{}{"how": how, "err": fmt.Sprint(err), "panic": fmt.Sprint(pan)})
					continue
				}
				ds, derr, dpan := safeDescription(pr)
				lateMatch := false
				for _, w := range want {
					if derr == nil && dpan == nil && ds == string(w) {
						lateMatch = true
					}
				}
				if !lateMatch {
					c.direct(fmt.Sprintf("C17/later/%s/tags%d", how, len(d.tags)), "the description changes when it is asked for after the caller reused the memory the profile was read from",
						map[string]interface{}{"how": how, "got": hexs(trunc([]byte(ds), 100)), "err": fmt.Sprint(derr), "panic": fmt.Sprint(dpan), "ntags": len(d.tags)})
				}
			}
		}
	}
	// one meta.Data value reused for several profiles in turn (as a loader that recycles its result
	// would): each ICCProfile() must describe the data set last
	{
		md := &meta.Data{}
		var prevWant [][]byte
		for i := 0; i < 60; i++ {
			d, want := randIccDesc(r, 6)
			data := d.build()
			md.SetICCProfileData(data)
			for rep := 0; rep < 1+i%2; rep++ {
				pr, err := md.ICCProfile()
				if err != nil || pr == nil {
					c.direct(fmt.Sprintf("C17/reused-data/%d", i), "ICCProfile() of a reused meta.Data does not return the profile set last",
						map[string]interface{}{"step": i, "err": fmt.Sprint(err), "nil_profile": pr == nil})
					break
				}
				ds, derr, dpan := safeDescription(pr)
				if want == nil {
					continue
				}
				okd := false
				for _, w := range want {
					if derr == nil && dpan == nil && ds == string(w) {
						okd = true
					}
				}
				if !okd {
					stale := false
					for _, w := range prevWant {
						if ds == string(w) {
							stale = true
						}
					}
					c.direct(fmt.Sprintf("C17/reused-data-desc/%d", i), "the description of a reused meta.Data is not that of the profile set last",
						map[string]interface{}{"step": i, "got": hexs(trunc([]byte(ds), 80)), "err": fmt.Sprint(derr), "is_previous_profiles_description": stale})
					break
				}
			}
			if i%7 == 3 {
				md.SetICCProfileError(fmt.Errorf("damaged"))
				if pr, err := md.ICCProfile(); err == nil || pr != nil {
					c.direct(fmt.Sprintf("C17/reused-data-error/%d", i), "ICCProfile() of a reused meta.Data ignores the error set last", nil)
				}
			}
			prevWant = want
		}
	}
	// the real profiles in the repository
	for _, f := range realProfiles() {
		emitIcc(c, "real", f)
	}
}

// corrC08Icc: ReadProfile behind bufio readers of several sizes over scheduled sources must
// give what it gives on the plain bytes.
func corrC08Icc(c *corrCtx) {
	r := c.rng
	n := 40
	if c.thorough() {
		n = 400
	}
	var profiles [][]byte
	for i := 0; i < n; i++ {
		d, _ := randIccDesc(r, 8)
		profiles = append(profiles, d.build())
	}
	profiles = append(profiles, realProfiles()...)
	// the same bytes behind readers of different dynamic types (a bare *bytes.Reader / *strings.Reader knows its size,
	// a *bytes.Buffer or a bufio.Reader does not), with the header's size field true, over- and under-stated
	for pi, p0 := range profiles {
		if len(p0) < 132 {
			continue
		}
		for _, sz := range []uint32{uint32(len(p0)), uint32(len(p0)) + 1, uint32(len(p0)) + 3, 0xffffffff, uint32(len(p0)) - 1, 0}[:2+pi%5] {
			p := append([]byte{}, p0...)
			binary.BigEndian.PutUint32(p[0:], sz)
			ref := iccOutReader(bufioSized(&schedReader{data: p, sched: []int{7}, endErr: ioEOF()}, 64), p)
			for _, k := range []string{"bytes.Reader", "strings.Reader", "bytes.Buffer", "bufio(bytes.Reader)"} {
				var rd binary2Reader
				switch k {
				case "bytes.Reader":
					rd = bytes.NewReader(p)
				case "strings.Reader":
					rd = strings.NewReader(string(p))
				case "bytes.Buffer":
					rd = bytes.NewBuffer(append([]byte{}, p...))
				default:
					rd = bufio.NewReader(bytes.NewReader(p))
				}
				got := iccOutReader(rd, p)
				c.stats["icc-source-type/"+k]++
				if descClass(got) != descClass(ref) {
					c.direct(fmt.Sprintf("C08/icc-source-type/%s/size-field=%d/len=%d", k, sz, len(p)), "ICC profile reader result depends on the dynamic type of the reader the same bytes arrive through",
						map[string]interface{}{"reader": k, "size_field": sz, "len": len(p), "segmented_bufio": trunc([]byte(ref), 200), "got": trunc([]byte(got), 200), "profile": hexs(trunc(p, 300))})
				}
			}
		}
	}
	for _, p := range profiles {
		ref, _ := iccOut(p)
		for _, sc := range [][]int{nil, {1}, {2}, {3}, {7}, {4095}, {100000}, randSched(r)} {
			for _, bs := range []int{16, 64, 4096} {
				// the final bytes may arrive together with io.EOF
				src := &schedReader{data: p, sched: sc, endErr: ioEOF(), eofWithData: (bs+len(sc)+len(p))%2 == 0}
				got := iccOutReader(bufioSized(src, bs), p)
				c.emit("iccsched", "icc eof "+hexs(p), got)
				if descClass(got) != descClass(ref) {
					c.direct(fmt.Sprintf("C08/icc/sched=%s/buf=%d", schedStr(sc), bs), "ICC profile reader result depends on how the source segments its data",
						map[string]interface{}{"sched": schedStr(sc), "bufsize": bs, "plain": trunc([]byte(ref), 200), "got": trunc([]byte(got), 200), "profile": hexs(trunc(p, 300))})
				}
			}
		}
	}
}

// descClass strips the description text (a multi-record mluc may legitimately yield a
// different record on each call: Go map iteration), keeping whether there was one.
func descClass(line string) string {
	i := strings.LastIndex(line, " desc=")
	if i < 0 {
		return line
	}
	if line[i+6:] == "err" || line[i+6:] == "panic-escaped" {
		return line
	}
	return line[:i] + " desc=some"
}

// unixOfDateTimeNumber: the instant six 16-bit numbers denote, by civil-date arithmetic of its own
// (proleptic Gregorian; a component beyond its range carries into the next larger unit)
func unixOfDateTimeNumber(d [6]uint16) int64 {
	y, mo := int64(d[0]), int64(d[1])
	mm := mo - 1
	y += mm / 12
	mm %= 12
	if mm < 0 {
		mm += 12
		y--
	}
	m := mm + 1
	if m <= 2 {
		y--
	}
	y += 400 // keep the arithmetic non-negative
	era := y / 400
	yoe := y % 400
	mp := m + 9
	if m > 2 {
		mp = m - 3
	}
	doy := (153*mp + 2) / 5
	doe := yoe*365 + yoe/4 - yoe/100 + doy
	days := era*146097 + doe - 719468 - 146097 + int64(d[2]) - 1
	return days*86400 + int64(d[3])*3600 + int64(d[4])*60 + int64(d[5])
}
