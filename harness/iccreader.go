package main

import (
	"bufio"
	"io"

	"github.com/mandykoh/prism/meta/binary"
	"github.com/mandykoh/prism/meta/icc"
)

func ioEOF() error { return io.EOF }

// the library's reader interface (io.Reader + io.ByteReader), under a name that does not clash with encoding/binary
type binary2Reader = binary.Reader

func bufioSized(r io.Reader, n int) binary.Reader { return bufio.NewReaderSize(r, n) }

// iccOutReader: like iccOut, but reading through an arbitrary binary.Reader; raw is the
// underlying byte sequence (for the date validity rule).
func iccOutReader(rd binary.Reader, raw []byte) string {
	var p *icc.Profile
	var err error
	var pan interface{}
	func() {
		defer func() {
			if x := recover(); x != nil {
				pan = x
			}
		}()
		p, err = icc.NewProfileReader(rd).ReadProfile()
	}()
	if pan != nil {
		return "panic-escaped"
	}
	if err != nil {
		return "err"
	}
	return renderProfile(p, raw)
}
