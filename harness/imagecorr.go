package main

import (
	"bytes"
	"fmt"
	"image"
	"image/color"
	"image/draw"

	"github.com/mandykoh/prism"
	"github.com/mandykoh/prism/linear"
)

func init() {
	corrFuncs["C10"] = corrC10
	corrFuncs["C15"] = corrC15
}

// opaqueImg hides the concrete type of a draw.Image so that no fast path can match.
type opaqueImg struct{ inner draw.Image }

func (o opaqueImg) ColorModel() color.Model     { return o.inner.ColorModel() }
func (o opaqueImg) Bounds() image.Rectangle     { return o.inner.Bounds() }
func (o opaqueImg) At(x, y int) color.Color     { return o.inner.At(x, y) }
func (o opaqueImg) Set(x, y int, c color.Color) { o.inner.Set(x, y, c) }

type roImg struct{ inner image.Image }

func (o roImg) ColorModel() color.Model { return o.inner.ColorModel() }
func (o roImg) Bounds() image.Rectangle { return o.inner.Bounds() }
func (o roImg) At(x, y int) color.Color { return o.inner.At(x, y) }

var forceStructured bool

var srcKinds = []string{"rgba64", "nrgba64", "rgba", "nrgba", "ycbcr444", "ycbcr422", "ycbcr420", "ycbcr440", "ycbcr411", "ycbcr410", "gray", "gray16", "cmyk", "paletted", "opaque", "nycbcra444", "nycbcra420", "nycbcra422", "alpha", "alpha16"}
var dstKinds = []string{"rgba64", "rgba", "nrgba", "nrgba64", "opaque"}

// newSource builds a source image of the given kind with bounds r and random content. For the
// concrete pixel-store types it is a sub-image of a larger parent (stride > width).
func newSource(rg *rng, kind string, r image.Rectangle) image.Image {
	outer := image.Rect(r.Min.X-rg.intn(3), r.Min.Y-rg.intn(3), r.Max.X+rg.intn(4), r.Max.Y+rg.intn(3))
	if srcMargins != nil {
		// a sub-image placed exactly: margins left, top, right, bottom inside its parent
		outer = image.Rect(r.Min.X-srcMargins[0], r.Min.Y-srcMargins[1], r.Max.X+srcMargins[2], r.Max.Y+srcMargins[3])
	}
	fill := func(p []uint8) {
		for i := range p {
			p[i] = byte(rg.next())
		}
	}
	// one source in three is "structured": runs of pixels with the same colour (flat fills), the
	// alpha changing inside a run or not; colours low and alphas high so that premultiplied stores
	// stay valid without touching the colour
	structured := rg.intn(3) == 0 || forceStructured
	runs := func(p []uint8, bpp int) {
		if !structured {
			return
		}
		cb := bpp / 4 * 3
		for i := 0; i+bpp <= len(p); i += bpp {
			if i >= bpp && rg.intn(5) != 0 {
				copy(p[i:i+cb], p[i-bpp:i-bpp+cb])
				if rg.intn(3) == 0 {
					copy(p[i+cb:i+bpp], p[i-bpp+cb:i]) // identical pixel
				}
			}
			if bpp == 4 {
				p[i], p[i+1], p[i+2] = p[i]&0x3f, p[i+1]&0x3f, p[i+2]&0x3f
				p[i+3] |= 0x40
			} else {
				p[i], p[i+2], p[i+4] = p[i]&0x3f, p[i+2]&0x3f, p[i+4]&0x3f
				p[i+6] |= 0x40
			}
		}
	}
	premul8 := func(p []uint8) {
		for i := 0; i+3 < len(p); i += 4 {
			a := p[i+3]
			for k := 0; k < 3; k++ {
				if p[i+k] > a {
					p[i+k] = uint8(int(p[i+k]) * int(a) / 255)
				}
			}
		}
	}
	premul16 := func(p []uint8) {
		for i := 0; i+7 < len(p); i += 8 {
			a := int(p[i+6])<<8 | int(p[i+7])
			for k := 0; k < 3; k++ {
				v := int(p[i+2*k])<<8 | int(p[i+2*k+1])
				if v > a {
					v = v * a / 65535
				}
				p[i+2*k], p[i+2*k+1] = uint8(v>>8), uint8(v)
			}
		}
	}
	switch kind {
	case "rgba64":
		m := image.NewRGBA64(outer)
		fill(m.Pix)
		runs(m.Pix, 8)
		premul16(m.Pix)
		return m.SubImage(r)
	case "nrgba64":
		m := image.NewNRGBA64(outer)
		fill(m.Pix)
		runs(m.Pix, 8)
		return m.SubImage(r)
	case "rgba":
		m := image.NewRGBA(outer)
		fill(m.Pix)
		runs(m.Pix, 4)
		premul8(m.Pix)
		return m.SubImage(r)
	case "rgba-raw":
		m := image.NewRGBA(outer)
		fill(m.Pix)
		return m.SubImage(r)
	case "rgba64-raw":
		m := image.NewRGBA64(outer)
		fill(m.Pix)
		return m.SubImage(r)
	case "nrgba":
		m := image.NewNRGBA(outer)
		fill(m.Pix)
		runs(m.Pix, 4)
		return m.SubImage(r)
	case "gray":
		m := image.NewGray(outer)
		fill(m.Pix)
		return m.SubImage(r)
	case "gray16":
		m := image.NewGray16(outer)
		fill(m.Pix)
		return m.SubImage(r)
	case "cmyk":
		m := image.NewCMYK(outer)
		fill(m.Pix)
		return m.SubImage(r)
	case "paletted":
		pal := make(color.Palette, 16)
		for i := range pal {
			pal[i] = color.NRGBA{uint8(rg.next()), uint8(rg.next()), uint8(rg.next()), uint8(rg.next())}
			switch i % 8 {
			case 1: // transparent and nearly transparent entries that still carry colour (PLTE + tRNS)
				pal[i] = color.NRGBA{uint8(rg.next()), uint8(rg.next()), uint8(rg.next()), uint8(rg.pick(0, 0, 1, 1, 2, 3, 5))}
			case 2: // other dynamic types a palette may hold
				pal[i] = color.RGBA64{uint16(rg.intn(0x8000)), uint16(rg.intn(0x8000)), uint16(rg.intn(0x8000)), 0x8000 + uint16(rg.intn(0x8000))}
			case 3:
				pal[i] = color.Gray{uint8(rg.next())}
			case 4:
				pal[i] = color.NRGBA64{uint16(rg.next()), uint16(rg.next()), uint16(rg.next()), uint16(rg.pick(0, 1, 255, 256, 65535))}
			case 5:
				pal[i] = color.NRGBA{uint8(rg.next()), uint8(rg.next()), uint8(rg.next()), 255}
			}
		}
		m := image.NewPaletted(outer, pal)
		for i := range m.Pix {
			m.Pix[i] = uint8(rg.intn(16))
		}
		return m.SubImage(r)
	case "opaque":
		m := image.NewNRGBA64(outer)
		fill(m.Pix)
		runs(m.Pix, 8)
		return roImg{m.SubImage(r)}
	case "alpha":
		m := image.NewAlpha(outer)
		fill(m.Pix)
		return m.SubImage(r)
	case "alpha16":
		m := image.NewAlpha16(outer)
		fill(m.Pix)
		return m.SubImage(r)
	}
	ycc := kind
	if len(kind) > 7 && kind[:7] == "nycbcra" {
		ycc = "ycbcr" + kind[7:]
	}
	// the standard library's chroma-plane arithmetic is wrong for negative coordinates (integer
	// division truncates): keep subsampled YCbCr images at non-negative, non-zero origins
	if r.Min.X < 0 || r.Min.Y < 0 || outer.Min.X < 0 || outer.Min.Y < 0 {
		// ... but where the standard library itself handles the negative geometry (every pixel of the
		// sub-image can be read), use it as it is: half of the time, so both classes are generated
		if ycc == kind && rg.intn(2) == 0 {
			if m := tryYCbCr(rg, kind, outer, r); m != nil {
				return m
			}
		}
		shift := image.Pt(0, 0)
		if outer.Min.X < 0 {
			shift.X = -outer.Min.X + 1
		}
		if outer.Min.Y < 0 {
			shift.Y = -outer.Min.Y + 1
		}
		return newSource(rg, kind, r.Add(shift))
	}
	ratio := map[string]image.YCbCrSubsampleRatio{"ycbcr444": image.YCbCrSubsampleRatio444, "ycbcr422": image.YCbCrSubsampleRatio422, "ycbcr420": image.YCbCrSubsampleRatio420,
		"ycbcr440": image.YCbCrSubsampleRatio440, "ycbcr411": image.YCbCrSubsampleRatio411, "ycbcr410": image.YCbCrSubsampleRatio410}[ycc]
	// planes with their own strides: decoders allocate planes padded to block multiples, so a plane's
	// stride need not be the image width, and the planes' strides need not agree with each other
	restride := func(plane *[]uint8, stride *int, rows int) {
		if rg.intn(2) == 0 {
			*stride += 1 + rg.intn(9)
			*plane = make([]uint8, *stride*rows+rg.intn(3))
		}
	}
	if ycc != kind {
		m := image.NewNYCbCrA(outer, ratio)
		restride(&m.A, &m.AStride, outer.Dy())
		if rg.intn(3) == 0 {
			restride(&m.Y, &m.YStride, outer.Dy())
		}
		fill(m.Y)
		fill(m.Cb)
		fill(m.Cr)
		fill(m.A)
		return m.SubImage(r)
	}
	m := image.NewYCbCr(outer, ratio)
	if rg.intn(3) == 0 {
		restride(&m.Y, &m.YStride, outer.Dy())
	}
	fill(m.Y)
	fill(m.Cb)
	fill(m.Cr)
	return m.SubImage(r)
}

// tryYCbCr builds the image at the (negative) geometry asked for and reads every pixel once; nil if
// the standard library panics on it.
func tryYCbCr(rg *rng, kind string, outer, r image.Rectangle) (img image.Image) {
	defer func() {
		if recover() != nil {
			img = nil
		}
	}()
	ratio := map[string]image.YCbCrSubsampleRatio{"ycbcr444": image.YCbCrSubsampleRatio444, "ycbcr422": image.YCbCrSubsampleRatio422, "ycbcr420": image.YCbCrSubsampleRatio420,
		"ycbcr440": image.YCbCrSubsampleRatio440, "ycbcr411": image.YCbCrSubsampleRatio411, "ycbcr410": image.YCbCrSubsampleRatio410}[kind]
	m := image.NewYCbCr(outer, ratio)
	for _, p := range [][]uint8{m.Y, m.Cb, m.Cr} {
		for i := range p {
			p[i] = uint8(rg.next())
		}
	}
	sub := m.SubImage(r)
	b := sub.Bounds()
	for y := b.Min.Y; y < b.Max.Y; y++ {
		for x := b.Min.X; x < b.Max.X; x++ {
			sub.At(x, y)
		}
	}
	if b.Empty() {
		return nil
	}
	return sub
}

type dstCase struct {
	img     draw.Image // what is handed to the library
	parent  []uint8    // the parent's Pix (shared with img)
	kind    string     // model kind: rgba64 | rgba | nrgba | nrgba64
	start   int
	stride  int
	rebuild func(pix []uint8) (draw.Image, []uint8) // the same geometry over a copy of Pix (for the expected result)
}

// newDest builds a destination whose bounds are at least as large as size, as a sub-image of a
// larger parent, at the given origin.
func newDest(rg *rng, kind string, origin image.Point, size image.Point) dstCase {
	return newDestX(rg, kind, origin, size, rg.intn(2) == 0)
}

// newDestX: exact = destination bounds have exactly the source's size (otherwise up to 2 larger);
// the parent is larger than the destination in at least one direction in most cases, so that the
// destination's stride differs from its width and from the source's stride.
func newDestX(rg *rng, kind string, origin image.Point, size image.Point, exact bool) dstCase {
	ex, ey := 0, 0
	if !exact {
		ex, ey = rg.intn(3), rg.intn(3)
	}
	r := image.Rect(origin.X, origin.Y, origin.X+size.X+ex, origin.Y+size.Y+ey)
	outer := image.Rect(r.Min.X-rg.intn(4), r.Min.Y-rg.intn(4), r.Max.X+rg.intn(5), r.Max.Y+rg.intn(4))
	if bandRows != nil {
		// a full-width band of its parent: the stride equals the row length, rows of the parent lie above and/or below
		r = image.Rect(origin.X, origin.Y, origin.X+size.X, origin.Y+size.Y)
		outer = image.Rect(r.Min.X, r.Min.Y-bandRows[0], r.Max.X, r.Max.Y+bandRows[1])
	}
	pad := oddStridePad
	mk := func(pix []uint8) (draw.Image, []uint8, int, int, string) {
		switch kind {
		case "rgba":
			m := image.NewRGBA(outer)
			if pad > 0 {
				m.Stride += pad
				m.Pix = make([]uint8, m.Stride*outer.Dy())
			}
			if pix != nil {
				copy(m.Pix, pix)
			}
			return m.SubImage(r).(draw.Image), m.Pix, m.PixOffset(r.Min.X, r.Min.Y), m.Stride, "rgba"
		case "nrgba":
			m := image.NewNRGBA(outer)
			if pad > 0 {
				m.Stride += pad
				m.Pix = make([]uint8, m.Stride*outer.Dy())
			}
			if pix != nil {
				copy(m.Pix, pix)
			}
			return m.SubImage(r).(draw.Image), m.Pix, m.PixOffset(r.Min.X, r.Min.Y), m.Stride, "nrgba"
		case "nrgba64":
			m := image.NewNRGBA64(outer)
			if pad > 0 {
				m.Stride += pad
				m.Pix = make([]uint8, m.Stride*outer.Dy())
			}
			if pix != nil {
				copy(m.Pix, pix)
			}
			return m.SubImage(r).(draw.Image), m.Pix, m.PixOffset(r.Min.X, r.Min.Y), m.Stride, "nrgba64"
		case "opaque":
			m := image.NewRGBA64(outer)
			if pix != nil {
				copy(m.Pix, pix)
			}
			return opaqueImg{m.SubImage(r).(draw.Image)}, m.Pix, m.PixOffset(r.Min.X, r.Min.Y), m.Stride, "rgba64"
		default:
			m := image.NewRGBA64(outer)
			if pad > 0 {
				m.Stride += pad
				m.Pix = make([]uint8, m.Stride*outer.Dy())
			}
			if pix != nil {
				copy(m.Pix, pix)
			}
			return m.SubImage(r).(draw.Image), m.Pix, m.PixOffset(r.Min.X, r.Min.Y), m.Stride, "rgba64"
		}
	}
	img, pix, start, stride, mk2 := mk(nil)
	for i := range pix {
		pix[i] = byte(rg.next())
	}
	if r.Empty() {
		start = 0
	}
	return dstCase{img, pix, mk2, start, stride, func(p []uint8) (draw.Image, []uint8) { im, px, _, _, _ := mk(p); return im, px }}
}

func mixColor(c color.Color) color.RGBA64 {
	r, g, b, a := c.RGBA()
	return color.RGBA64{R: uint16(r*31 + g*7 + 11), G: uint16(g*29 + b*5 + 13), B: uint16(b*27 + a*3 + 17), A: uint16(a*25 + r*9 + 19)}
}

type xform struct {
	name string
	f    func(color.Color) color.RGBA64
	img  func(dst draw.Image, src image.Image, n int) // the public image-level entry point, when there is one
}

func transforms() []xform {
	xs := []xform{{"mix", mixColor, nil}}
	for i := range spaces {
		s := &spaces[i]
		xs = append(xs, xform{"lin:" + s.name, s.linearise, lineariseImageOf(s.name)})
		xs = append(xs, xform{"enc:" + s.name, s.encode, encodeImageOf(s.name)})
	}
	return xs
}

func srcTable(src image.Image) []byte {
	b := src.Bounds()
	var out bytes.Buffer
	for y := b.Min.Y; y < b.Max.Y; y++ {
		for x := b.Min.X; x < b.Max.X; x++ {
			r, g, bb, a := src.At(x, y).RGBA()
			out.Write([]byte{byte(r >> 8), byte(r), byte(g >> 8), byte(g), byte(bb >> 8), byte(bb), byte(a >> 8), byte(a)})
		}
	}
	return out.Bytes()
}

func safeTransform(f func()) (panicked interface{}) {
	defer func() {
		if r := recover(); r != nil {
			panicked = r
		}
	}()
	f()
	return nil
}

func corrC10(c *corrCtx) {
	r := c.rng
	xs := transforms()
	reps := 2
	if c.thorough() {
		reps = 20
	}
	type geom struct{ w, h int }
	geoms := []geom{{0, 0}, {0, 3}, {3, 0}, {1, 1}, {1, 7}, {7, 1}, {5, 4}, {9, 13}}
	for rep := 0; rep < reps; rep++ {
		for _, sk := range srcKinds {
			for _, dk := range dstKinds {
				g := geoms[r.intn(len(geoms))]
				if rep == 0 {
					g = geoms[(len(sk)+len(dk))%len(geoms)]
				}
				sOrigin := image.Pt(r.intn(21)-10, r.intn(21)-10)
				dOrigin := image.Pt(r.intn(21)-10, r.intn(21)-10)
				sb := image.Rect(sOrigin.X, sOrigin.Y, sOrigin.X+g.w, sOrigin.Y+g.h)
				src := newSource(r, sk, sb)
				if !sb.Empty() {
					sb = src.Bounds()
				}
				x := xs[r.intn(len(xs))]
				for _, exact := range []bool{true, false} {
					for _, n := range []int{1, 2, 3, 7, 16, g.h + 5} {
						if !c.thorough() && n != 1 && r.intn(3) != 0 {
							continue
						}
						c10CaseX(c, r, "zoo/"+sk+"->"+dk, src, sb, dk, dOrigin, x, n, false, exact)
					}
				}
			}
		}
		// the concrete-type fast paths, every geometry, same-size and larger destinations
		for _, pair := range [][2]string{{"rgba64", "rgba64"}, {"rgba64", "rgba"}, {"rgba", "rgba64"}, {"nrgba", "rgba64"}, {"nrgba64", "rgba"}, {"rgba", "rgba"}} {
			for _, g := range geoms[3:] {
				for _, exact := range []bool{true, false} {
					sOrigin := image.Pt(r.intn(21)-10, r.intn(21)-10)
					dOrigin := image.Pt(r.intn(21)-10, r.intn(21)-10)
					sb := image.Rect(sOrigin.X, sOrigin.Y, sOrigin.X+g.w, sOrigin.Y+g.h)
					src := newSource(r, pair[0], sb)
					sb = src.Bounds()
					c10CaseX(c, r, "fast/"+pair[0]+"->"+pair[1], src, sb, pair[1], dOrigin, xs[r.intn(len(xs))], r.pick(1, 2, 3, 7), false, exact)
				}
			}
		}
		// larger images (more rows than any worker count, rows wider than any plausible block size), the
		// concrete fast paths and one generic pair
		if rep == 0 || c.thorough() {
			big := []geom{{130, 70}, {1, 300}, {300, 1}, {257, 3}, {1030, 2}, {2, 1030}, {4100, 1}}
			for bi, pair := range [][2]string{{"rgba64", "rgba64"}, {"rgba64", "rgba"}, {"nrgba", "rgba64"}, {"rgba", "rgba"}, {"ycbcr420", "nrgba"}} {
				g := big[(bi+rep)%len(big)]
				sOrigin := image.Pt(r.intn(21)-10, r.intn(21)-10)
				sb := image.Rect(sOrigin.X, sOrigin.Y, sOrigin.X+g.w, sOrigin.Y+g.h)
				src := newSource(r, pair[0], sb)
				sb = src.Bounds()
				c10CaseX(c, r, "big/"+pair[0]+"->"+pair[1], src, sb, pair[1], image.Pt(r.intn(21)-10, r.intn(21)-10), xs[r.intn(len(xs))], r.pick(1, 4, 16, 33), false, r.intn(2) == 0)
			}
		}
		// full-width bands of a parent (stride = row length; the parent's buffer extends above and/or below the band):
		// in place and from another image
		for _, dk := range []string{"rgba64", "rgba", "nrgba", "nrgba64"} {
			for _, ab := range [][2]int{{0, 3}, {2, 0}, {2, 3}, {0, 1}} {
				g := geoms[4+r.intn(len(geoms)-4)]
				x := xs[r.intn(len(xs))]
				rows := ab
				bandRows = &rows
				n := r.pick(1, 2, 3, g.h+5)
				c10Case(c, r, "band-inplace/"+dk, nil, image.Rect(0, 0, g.w, g.h), dk, image.Pt(r.intn(9)-4, r.intn(9)-4), x, n, true)
				sb := image.Rect(1, -2, 1+g.w, -2+g.h)
				src := newSource(r, dk, sb)
				c10CaseX(c, r, "band/"+dk, src, src.Bounds(), dk, image.Pt(r.intn(9)-4, r.intn(9)-4), x, n, false, true)
				bandRows = nil
			}
		}
		// hand-built destinations whose stride is not a multiple of the pixel size (rows padded by 1, 3, 4, 5, 12 bytes):
		// pixels must land where PixOffset says and the padding must stay untouched
		for _, dk := range []string{"rgba64", "rgba", "nrgba", "nrgba64"} {
			for _, pd := range []int{1, 3, 4, 5, 12} {
				g := geoms[4+r.intn(len(geoms)-4)]
				x := xs[r.intn(len(xs))]
				oddStridePad = pd
				n := r.pick(1, 2, 3, g.h+5)
				sb := image.Rect(-2, 3, -2+g.w, 3+g.h)
				src := newSource(r, dk, sb)
				c10CaseX(c, r, "odd-stride/"+dk, src, src.Bounds(), dk, image.Pt(r.intn(9)-4, r.intn(9)-4), x, n, false, r.intn(2) == 0)
				c10Case(c, r, "odd-stride-inplace/"+dk, nil, image.Rect(0, 0, g.w, g.h), dk, image.Pt(r.intn(9)-4, r.intn(9)-4), x, n, true)
				oddStridePad = 0
			}
		}
		// the image-level entry points against the per-colour functions on images large enough to meet rare
		// (component, alpha) pairs — a whole-image result must be, pixel for pixel, what the colour function gives
		// (direct oracle only: too large for the line protocol)
		if rep == 0 {
			side := 160
			if c.thorough() {
				side = 700
			}
			for _, x := range xs {
				if x.img == nil {
					continue
				}
				for _, sk := range []string{"rgba64", "nrgba64"} {
					var src image.Image
					rect := image.Rect(0, 0, side, side)
					if sk == "rgba64" {
						m := image.NewRGBA64(rect)
						for i := 0; i+7 < len(m.Pix); i += 8 {
							a := 1 + r.intn(65535)
							for k := 0; k < 3; k++ {
								v := r.intn(a + 1)
								m.Pix[i+2*k], m.Pix[i+2*k+1] = uint8(v>>8), uint8(v)
							}
							m.Pix[i+6], m.Pix[i+7] = uint8(a>>8), uint8(a)
						}
						src = m
					} else {
						m := image.NewNRGBA64(rect)
						for i := range m.Pix {
							m.Pix[i] = uint8(r.next())
						}
						src = m
					}
					dst := image.NewRGBA64(rect)
					n := r.pick(1, 3, 16)
					x.img(dst, src, n)
					c.stats["big-image/"+x.name]++
					bad := 0
					for y := 0; y < side && bad == 0; y++ {
						for xx := 0; xx < side; xx++ {
							want := x.f(src.At(xx, y))
							if got := dst.RGBA64At(xx, y); got != want {
								c.direct(fmt.Sprintf("C10/big-image/%s/%s", x.name, sk), "the image-level transform differs from the colour function applied to the source pixel (large image: rare component/alpha pairs)",
									map[string]interface{}{"transform": x.name, "src_type": sk, "at": fmt.Sprint(xx, y), "src_pixel": fmt.Sprint(src.At(xx, y)), "got": fmt.Sprint(got), "want": fmt.Sprint(want), "parallelism": n, "side": side})
								bad++
								break
							}
						}
					}
				}
			}
		}
		// in place: source == destination
		for _, dk := range []string{"rgba64", "rgba", "nrgba", "nrgba64"} {
			g := geoms[3+r.intn(len(geoms)-3)]
			x := xs[r.intn(len(xs))]
			for _, n := range []int{1, 3, g.h + 5} {
				c10Case(c, r, "inplace/"+dk, nil, image.Rect(0, 0, g.w, g.h), dk, image.Pt(r.intn(9)-4, r.intn(9)-4), x, n, true)
				c10Chain = true
				c10Case(c, r, "inplace-generations/"+dk, nil, image.Rect(0, 0, g.w+3, g.h), dk, image.Pt(r.intn(9)-4, r.intn(9)-4), x, n, true)
				c10Chain = false
			}
		}
	}
}

var c10Chain bool

// bandRows, when set, makes newDestX build destinations that are full-width bands of their parent
var bandRows *[2]int

// srcMargins, when set, makes newSource build a sub-image with exactly these margins (left, top, right, bottom) inside
// its parent — flush with the parent's last row, its first row, its right or left edge
var srcMargins *[4]int

// oddStridePad, when positive, makes newDestX build hand-made parents whose stride is the row length plus that many
// padding bytes (a legal image: Stride is any distance between rows; it need not be a multiple of the pixel size)
var oddStridePad int

func c10Case(c *corrCtx, r *rng, class string, src image.Image, sb image.Rectangle, dk string, dOrigin image.Point, x xform, n int, inPlace bool) {
	c10CaseX(c, r, class, src, sb, dk, dOrigin, x, n, inPlace, r.intn(2) == 0)
}

func c10CaseX(c *corrCtx, r *rng, class string, src image.Image, sb image.Rectangle, dk string, dOrigin image.Point, x xform, n int, inPlace bool, exact bool) draw.Image {
	d := newDestX(r, dk, dOrigin, sb.Size(), exact)
	if inPlace {
		// the destination itself is the source: make its bounds exactly the source size
		d = newDestExact(r, dk, dOrigin, sb.Size())
		src = d.img
		sb = d.img.Bounds()
		if c10Chain {
			// "generations": every pixel holds the transform of its left neighbour, so that a value
			// already written to the left equals the value still to be read on the right
			for y := sb.Min.Y; y < sb.Max.Y; y++ {
				for xx := sb.Min.X + 1; xx < sb.Max.X; xx++ {
					d.img.Set(xx, y, x.f(d.img.At(xx-1, y)))
				}
			}
		}
	}
	table := srcTable(src)
	before := append([]uint8{}, d.parent...)
	// expected result on the real standard library: generic Set of f(src.At(p)) into a copy
	exp, expParent := d.rebuild(append([]uint8{}, d.parent...))
	db := d.img.Bounds()
	type pc struct {
		x, y int
		c    color.RGBA64
	}
	var pcs []pc
	for y := sb.Min.Y; y < sb.Max.Y; y++ {
		for xx := sb.Min.X; xx < sb.Max.X; xx++ {
			pcs = append(pcs, pc{xx - sb.Min.X + db.Min.X, y - sb.Min.Y + db.Min.Y, x.f(src.At(xx, y))})
		}
	}
	for _, p := range pcs {
		exp.Set(p.x, p.y, p.c)
	}
	use := x.img
	run := func() {
		if use != nil && r.intn(2) == 0 {
			use(d.img, src, n)
		} else {
			linear.TransformImageColor(d.img, src, n, x.f)
		}
	}
	c.mark(fmt.Sprintf("TransformImageColor class=%s transform=%s parallelism=%d src_bounds=%v src_type=%T dst_bounds=%v dst_type=%T dst_stride=%d dst_start=%d in_place=%v",
		class, x.name, n, sb, src, db, d.img, d.stride, d.start, inPlace))
	if p := safeTransform(run); p != nil {
		c.direct(fmt.Sprintf("%s/panic/%s/%s/n%d", c.id, class, x.name, n), "image transform panics", map[string]interface{}{"panic": fmt.Sprint(p), "src": sb.String(), "dst": db.String()})
		return nil
	}
	c.emit(class+"/"+x.name, fmt.Sprintf("img %s %d %d %d %d %d %s %s %s", d.kind, d.stride, d.start, sb.Dx(), sb.Dy(), n, x.name, hexs(before), hexs(table)),
		fmt.Sprintf("%d:%016x", len(d.parent), fnvBytes(d.parent)))
	if !bytes.Equal(d.parent, expParent) {
		// locate the first differing byte
		at := -1
		for i := range d.parent {
			if d.parent[i] != expParent[i] {
				at = i
				break
			}
		}
		c.direct(fmt.Sprintf("%s/%s/%s/n%d/%dx%d", c.id, class, x.name, n, sb.Dx(), sb.Dy()), "destination differs from per-pixel Set of the transformed source pixels (or bytes outside were touched)",
			map[string]interface{}{"src_bounds": sb.String(), "dst_bounds": db.String(), "parallelism": n, "transform": x.name, "first_diff_byte": at, "stride": d.stride, "start": d.start, "in_place": inPlace})
	}
	return d.img
}

func newDestExact(rg *rng, kind string, origin image.Point, size image.Point) dstCase {
	return newDestX(rg, kind, origin, size, true)
}

// ---- C15 ------------------------------------------------------------------------------

func corrC15(c *corrCtx) {
	r := c.rng
	reps := 2
	if c.thorough() {
		reps = 24
	}
	// the conversion helpers must agree with draw.Draw on every byte value in every channel position — also on
	// premultiplied images whose colour bytes exceed their alpha (legal to store; no decoder produces them)
	kinds := append(append([]string{}, srcKinds...), "rgba-raw", "rgba64-raw")
	type geom struct{ w, h int }
	geoms := []geom{{0, 0}, {1, 1}, {1, 6}, {6, 1}, {5, 4}, {8, 9}, {16, 3}}
	type job struct {
		sk string
		mg *[4]int
	}
	for rep := 0; rep < reps; rep++ {
		var jobs []job
		for _, sk := range kinds {
			jobs = append(jobs, job{sk, nil})
		}
		// sub-images flush with an edge of their parent: inset from the left but ending on the parent's last row (the
		// last row of Pix is then shorter than Stride), on its first row, flush right, inset all round
		if rep == 0 || c.thorough() {
			for _, sk := range []string{"rgba", "rgba64", "nrgba", "nrgba64", "gray", "ycbcr444"} {
				for _, mg := range [][4]int{{1, 1, 0, 0}, {2, 0, 0, 0}, {0, 0, 1, 1}, {1, 0, 0, 1}, {1, 1, 1, 1}} {
					m := mg
					jobs = append(jobs, job{sk, &m})
				}
			}
		}
		for _, jb := range jobs {
			sk := jb.sk
			g := geoms[r.intn(len(geoms))]
			if jb.mg != nil {
				g = geoms[1+r.intn(len(geoms)-1)]
			}
			o := image.Pt(r.intn(15)-7, r.intn(15)-7)
			sb := image.Rect(o.X, o.Y, o.X+g.w, o.Y+g.h)
			srcMargins = jb.mg
			src := newSource(r, sk, sb)
			srcMargins = nil
			sb = src.Bounds()
			table := srcTable(src)
			snap := snapshot(src)
			for _, target := range []string{"nrgba", "rgba", "rgba64"} {
				for _, n := range []int{1, 2, 3, 7, 16, g.h + 5} {
					if !c.thorough() && n != 1 && r.intn(3) != 0 {
						continue
					}
					var out image.Image
					var pix []uint8
					var stride int
					c.mark(fmt.Sprintf("ConvertImageTo%s src_kind=%s bounds=%v parallelism=%d", target, sk, sb, n))
					p := safeTransform(func() {
						switch target {
						case "nrgba":
							m := prism.ConvertImageToNRGBA(src, n)
							out, pix, stride = m, m.Pix, m.Stride
						case "rgba":
							m := prism.ConvertImageToRGBA(src, n)
							out, pix, stride = m, m.Pix, m.Stride
						default:
							m := prism.ConvertImageToRGBA64(src, n)
							out, pix, stride = m, m.Pix, m.Stride
						}
					})
					if p != nil {
						c.direct(fmt.Sprintf("C15/panic/%s/%s", sk, target), "conversion helper panics", map[string]interface{}{"panic": fmt.Sprint(p), "bounds": sb.String()})
						continue
					}
					same := sameInstance(out, src)
					skType := sk
					if len(sk) > 4 && sk[len(sk)-4:] == "-raw" {
						skType = sk[:len(sk)-4]
					}
					if same != (skType == target) {
						c.direct(fmt.Sprintf("C15/identity/%s/%s", sk, target), "an input already of the target type must be returned as the same instance (and only then)", map[string]interface{}{"src": sk, "target": target, "same": same})
					}
					if out.Bounds() != sb {
						c.direct(fmt.Sprintf("C15/bounds/%s/%s", sk, target), "result bounds differ from the input's", map[string]interface{}{"got": out.Bounds().String(), "want": sb.String()})
						continue
					}
					// what draw.Draw with the Src operator produces
					var ref draw.Image
					switch target {
					case "nrgba":
						ref = image.NewNRGBA(sb)
					case "rgba":
						ref = image.NewRGBA(sb)
					default:
						ref = image.NewRGBA64(sb)
					}
					draw.Draw(ref, sb, src, sb.Min, draw.Src)
					bad := false
					for y := sb.Min.Y; y < sb.Max.Y && !bad; y++ {
						for x := sb.Min.X; x < sb.Max.X; x++ {
							if out.At(x, y) != ref.At(x, y) {
								c.direct(fmt.Sprintf("C15/pixel/%s/%s/n%d", sk, target, n), "helper's pixel differs from draw.Draw with the Src operator",
									map[string]interface{}{"src": sk, "target": target, "at": fmt.Sprint(x, y), "got": fmt.Sprint(out.At(x, y)), "want": fmt.Sprint(ref.At(x, y)), "bounds": sb.String(), "parallelism": n})
								bad = true
								break
							}
						}
					}
					if !bytes.Equal(snapshot(src), snap) {
						c.direct(fmt.Sprintf("C15/mutated/%s/%s", sk, target), "the input image was modified", nil)
					}
					if !same && stride == sb.Dx()*map[string]int{"nrgba": 4, "rgba": 4, "rgba64": 8}[target] {
						c.emit("conv/"+sk+"->"+target, fmt.Sprintf("conv %s %d %d %s", target, sb.Dx(), sb.Dy(), hexs(table)), fmt.Sprintf("%d:%016x", len(pix), fnvBytes(pix)))
					}
				}
			}
		}
	}
	// geometry x parallelism sweep on whole (contiguous) images of the packed types: every split of the
	// pixels among the workers must cover the last pixel of the last row
	ws := []int{1, 2, 3, 7, 8, 11, 15, 16, 17, 25, 31, 32, 33, 38, 47, 64, 65, 257}
	hs := []int{1, 2, 3, 5}
	if c.thorough() {
		ws = nil
		for w := 1; w <= 80; w++ {
			ws = append(ws, w)
		}
		ws = append(ws, 255, 256, 257, 1023)
		hs = []int{1, 2, 3, 4, 5, 7, 16}
	}
	for _, sk := range []string{"rgba", "rgba64", "nrgba", "nrgba64", "gray"} {
		for _, w := range ws {
			for _, h := range hs {
				rect := image.Rect(0, 0, w, h)
				if (w+h)%2 == 0 {
					rect = rect.Add(image.Pt(3, -2))
				}
				var src image.Image
				fillr := func(p []uint8) {
					for i := range p {
						p[i] = uint8(r.next())
					}
				}
				switch sk {
				case "rgba":
					m := image.NewRGBA(rect)
					fillr(m.Pix)
					for i := 0; i+3 < len(m.Pix); i += 4 { // valid premultiplied content
						a := m.Pix[i+3]
						for k := 0; k < 3; k++ {
							if m.Pix[i+k] > a {
								m.Pix[i+k] = a
							}
						}
					}
					src = m
				case "rgba64":
					m := image.NewRGBA64(rect)
					fillr(m.Pix)
					src = m
				case "nrgba":
					m := image.NewNRGBA(rect)
					fillr(m.Pix)
					src = m
				case "nrgba64":
					m := image.NewNRGBA64(rect)
					fillr(m.Pix)
					src = m
				default:
					m := image.NewGray(rect)
					fillr(m.Pix)
					src = m
				}
				for _, target := range []string{"nrgba", "rgba", "rgba64"} {
					if target == sk {
						continue
					}
					var ref draw.Image
					switch target {
					case "nrgba":
						ref = image.NewNRGBA(rect)
					case "rgba":
						ref = image.NewRGBA(rect)
					default:
						ref = image.NewRGBA64(rect)
					}
					draw.Draw(ref, rect, src, rect.Min, draw.Src)
					for _, n := range []int{2, 3, 5, 7, 16, w*h + 1} {
						var out image.Image
						p := safeTransform(func() {
							switch target {
							case "nrgba":
								out = prism.ConvertImageToNRGBA(src, n)
							case "rgba":
								out = prism.ConvertImageToRGBA(src, n)
							default:
								out = prism.ConvertImageToRGBA64(src, n)
							}
						})
						c.stats["conv-sweep/"+sk+"->"+target]++
						if p != nil {
							c.direct(fmt.Sprintf("C15/sweep-panic/%s/%s/%dx%d/n%d", sk, target, w, h, n), "conversion helper panics", map[string]interface{}{"panic": fmt.Sprint(p)})
							continue
						}
						done := false
						for y := rect.Max.Y - 1; y >= rect.Min.Y && !done; y-- {
							for x := rect.Max.X - 1; x >= rect.Min.X; x-- {
								if out.At(x, y) != ref.At(x, y) {
									c.direct(fmt.Sprintf("C15/sweep/%s/%s/%dx%d/n%d", sk, target, w, h, n), "helper's pixel differs from draw.Draw with the Src operator (whole image, geometry x parallelism sweep)",
										map[string]interface{}{"src": sk, "target": target, "size": fmt.Sprintf("%dx%d", w, h), "parallelism": n, "at": fmt.Sprint(x, y), "got": fmt.Sprint(out.At(x, y)), "want": fmt.Sprint(ref.At(x, y))})
									done = true
									break
								}
							}
						}
					}
				}
			}
		}
	}
	// the standard-library colour arithmetic the model relies on
	ny := 3000
	if c.thorough() {
		ny = 200000
	}
	for i := 0; i < ny; i++ {
		y, cb, cr := uint8(r.next()), uint8(r.next()), uint8(r.next())
		if i < 512 {
			y, cb, cr = uint8(i), uint8(255*(i%2)), uint8(255*(i/2%2))
		}
		rr, g, b := color.YCbCrToRGB(y, cb, cr)
		r16, g16, b16, _ := color.YCbCr{Y: y, Cb: cb, Cr: cr}.RGBA()
		c.emit("stdlib/ycbcr", fmt.Sprintf("ycc %d %d %d", y, cb, cr), fmt.Sprintf("%d %d %d %d %d %d", rr, g, b, r16, g16, b16))
		n := color.NRGBA{uint8(r.next()), uint8(r.next()), uint8(r.next()), uint8(r.next())}
		pr, pg, pb, pa := n.RGBA()
		c.emit("stdlib/nrgba", fmt.Sprintf("nrgba %d %d %d %d", n.R, n.G, n.B, n.A), fmt.Sprintf("%d %d %d %d", pr, pg, pb, pa))
	}
}

func sameInstance(a, b image.Image) bool {
	switch x := a.(type) {
	case *image.NRGBA:
		y, ok := b.(*image.NRGBA)
		return ok && x == y
	case *image.RGBA:
		y, ok := b.(*image.RGBA)
		return ok && x == y
	case *image.RGBA64:
		y, ok := b.(*image.RGBA64)
		return ok && x == y
	}
	return false
}

func snapshot(img image.Image) []byte {
	switch m := img.(type) {
	case *image.RGBA64:
		return append([]byte{}, m.Pix...)
	case *image.NRGBA64:
		return append([]byte{}, m.Pix...)
	case *image.RGBA:
		return append([]byte{}, m.Pix...)
	case *image.NRGBA:
		return append([]byte{}, m.Pix...)
	case *image.Gray:
		return append([]byte{}, m.Pix...)
	case *image.Gray16:
		return append([]byte{}, m.Pix...)
	case *image.CMYK:
		return append([]byte{}, m.Pix...)
	case *image.Paletted:
		return append([]byte{}, m.Pix...)
	case *image.YCbCr:
		return append(append(append([]byte{}, m.Y...), m.Cb...), m.Cr...)
	case *image.NYCbCrA:
		return append(append(append(append([]byte{}, m.Y...), m.Cb...), m.Cr...), m.A...)
	case *image.Alpha:
		return append([]byte{}, m.Pix...)
	case *image.Alpha16:
		return append([]byte{}, m.Pix...)
	case roImg:
		return snapshot(m.inner)
	}
	return nil
}
