package main

import (
	"image"
	"image/draw"

	"github.com/mandykoh/prism/adobergb"
	"github.com/mandykoh/prism/displayp3"
	"github.com/mandykoh/prism/prophotorgb"
	"github.com/mandykoh/prism/srgb"
)

func lineariseImageOf(space string) func(draw.Image, image.Image, int) {
	switch space {
	case "srgb":
		return srgb.LineariseImage
	case "adobe":
		return adobergb.LineariseImage
	case "prophoto":
		return prophotorgb.LineariseImage
	default:
		return displayp3.LineariseImage
	}
}

func encodeImageOf(space string) func(draw.Image, image.Image, int) {
	switch space {
	case "srgb":
		return srgb.EncodeImage
	case "adobe":
		return adobergb.EncodeImage
	case "prophoto":
		return prophotorgb.EncodeImage
	default:
		return displayp3.EncodeImage
	}
}
