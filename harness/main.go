// Command pv is the Go side of the prism verification harness: it regenerates the data
// the Lean theorems are stated over (dump), runs the real prism code on generated cases
// for the model/implementation correspondence (corr), and evaluates the properties'
// own oracles directly on the real code when a proof or correspondence breaks (search).
package main

import (
	"fmt"
	"image/color"
	"os"

	"github.com/mandykoh/prism/ciexyy"
	"github.com/mandykoh/prism/ciexyz"
)

func usage() {
	fmt.Fprintln(os.Stderr, "usage: pv dump <gen-dir> | pv corr <ID> <tier> <seed> <outdir> | pv search <ID> <args...>")
	os.Exit(2)
}

// firstUse: the order in which a process first touches the library's lazily built state must not
// matter.  PV_FIRSTUSE selects what this process calls before anything else (probed by ./check in
// fresh processes): "encode" = every encoder first, "decode" = every decoder first, "xyz" = the
// XYZ/Lab/adaptation paths first.
func firstUse() {
	lin := [3]float32{0.25, 0.5, 0.75}
	switch os.Getenv("PV_FIRSTUSE") {
	case "encode":
		for i := range spaces {
			s := &spaces[i]
			s.to16(0.5)
			s.to8(0.5)
			s.toRGBA64(lin, 0.5)
			s.toNRGBA(lin, 1)
		}
	case "decode":
		for i := range spaces {
			s := &spaces[i]
			s.from16(32768)
			s.from8(128)
			s.linearise(color.RGBA64{R: 1000, G: 2000, B: 3000, A: 0xffff})
		}
	case "xyz":
		for i := range spaces {
			s := &spaces[i]
			x := s.toXYZ(lin)
			s.fromXYZ(x)
			x.ToLAB(ciexyz.D50)
		}
		ciexyz.AdaptBetweenXYYWhitePoints(ciexyy.D65, ciexyy.D50)
	}
}

func main() {
	if len(os.Args) < 2 {
		usage()
	}
	firstUse()
	switch os.Args[1] {
	case "dump":
		if len(os.Args) != 3 {
			usage()
		}
		if err := dumpAll(os.Args[2]); err != nil {
			fmt.Fprintln(os.Stderr, "dump:", err)
			os.Exit(1)
		}
	case "corr":
		if len(os.Args) != 6 {
			usage()
		}
		os.Exit(runCorr(os.Args[2], os.Args[3], os.Args[4], os.Args[5]))
	case "search":
		os.Exit(runSearch(os.Args[2:]))
	default:
		usage()
	}
}
