// Command pv is the Go side of the prism verification harness: it regenerates the data
// the Lean theorems are stated over (dump), runs the real prism code on generated cases
// for the model/implementation correspondence (corr), and evaluates the properties'
// own oracles directly on the real code when a proof or correspondence breaks (search).
package main

import (
	"fmt"
	"os"
)

func usage() {
	fmt.Fprintln(os.Stderr, "usage: pv dump <gen-dir> | pv corr <ID> <tier> <seed> <outdir> | pv search <ID> <args...>")
	os.Exit(2)
}

func main() {
	if len(os.Args) < 2 {
		usage()
	}
	switch os.Args[1] {
	case "dump":
		if len(os.Args) != 3 {
			usage()
		}
		if err := dumpAll(os.Args[2]); err != nil {
			fmt.Fprintln(os.Stderr, "dump:", err)
			os.Exit(1)
		}
	case "corr":
		if len(os.Args) != 6 {
			usage()
		}
		os.Exit(runCorr(os.Args[2], os.Args[3], os.Args[4], os.Args[5]))
	case "search":
		os.Exit(runSearch(os.Args[2:]))
	default:
		usage()
	}
}
