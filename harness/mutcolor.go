package main

import (
	"image/color"

	"github.com/mandykoh/prism/adobergb"
	"github.com/mandykoh/prism/ciexyz"
	"github.com/mandykoh/prism/displayp3"
	"github.com/mandykoh/prism/prophotorgb"
	"github.com/mandykoh/prism/srgb"
)

// Colour values reached by different routes: built by each constructor and then given their
// components by assignment to the exported fields.  A conversion may depend on R, G, B only.
type mutFuncs struct {
	toXYZ    func(ctor int, l [3]float32) ciexyz.Color
	toRGBA64 func(ctor int, l [3]float32, a float32) color.RGBA64
	toNRGBA  func(ctor int, l [3]float32, a float32) color.NRGBA
}

const mutCtors = 6

var mutBySpace = map[string]mutFuncs{
	"srgb": {
		toXYZ: func(ctor int, l [3]float32) ciexyz.Color {
			return (func(ctor int, l [3]float32) srgb.Color {
				var c srgb.Color
				switch ctor {
				case 0:
					c = srgb.ColorFromXYZ(ciexyz.Color{X: 0.3, Y: 0.4, Z: 0.5})
				case 1:
					c, _ = srgb.ColorFromNRGBA(color.NRGBA{R: 10, G: 200, B: 30, A: 255})
				case 2:
					c = srgb.ColorFromLinear(9, 9, 9)
				case 3:
					c, _ = srgb.ColorFromEncodedColor(color.Gray{Y: 77})
				case 4:
					c, _ = srgb.ColorFromLinearColor(color.RGBA64{R: 1000, G: 2000, B: 3000, A: 40000})
				default:
				}
				c.R, c.G, c.B = l[0], l[1], l[2]
				return c
			})(ctor, l).ToXYZ()
		},
		toRGBA64: func(ctor int, l [3]float32, a float32) color.RGBA64 {
			return (func(ctor int, l [3]float32) srgb.Color {
				var c srgb.Color
				switch ctor {
				case 0:
					c = srgb.ColorFromXYZ(ciexyz.Color{X: 0.3, Y: 0.4, Z: 0.5})
				case 1:
					c, _ = srgb.ColorFromNRGBA(color.NRGBA{R: 10, G: 200, B: 30, A: 255})
				case 2:
					c = srgb.ColorFromLinear(9, 9, 9)
				case 3:
					c, _ = srgb.ColorFromEncodedColor(color.Gray{Y: 77})
				case 4:
					c, _ = srgb.ColorFromLinearColor(color.RGBA64{R: 1000, G: 2000, B: 3000, A: 40000})
				default:
				}
				c.R, c.G, c.B = l[0], l[1], l[2]
				return c
			})(ctor, l).ToRGBA64(a)
		},
		toNRGBA: func(ctor int, l [3]float32, a float32) color.NRGBA {
			return (func(ctor int, l [3]float32) srgb.Color {
				var c srgb.Color
				switch ctor {
				case 0:
					c = srgb.ColorFromXYZ(ciexyz.Color{X: 0.3, Y: 0.4, Z: 0.5})
				case 1:
					c, _ = srgb.ColorFromNRGBA(color.NRGBA{R: 10, G: 200, B: 30, A: 255})
				case 2:
					c = srgb.ColorFromLinear(9, 9, 9)
				case 3:
					c, _ = srgb.ColorFromEncodedColor(color.Gray{Y: 77})
				case 4:
					c, _ = srgb.ColorFromLinearColor(color.RGBA64{R: 1000, G: 2000, B: 3000, A: 40000})
				default:
				}
				c.R, c.G, c.B = l[0], l[1], l[2]
				return c
			})(ctor, l).ToNRGBA(a)
		},
	},
	"adobe": {
		toXYZ: func(ctor int, l [3]float32) ciexyz.Color {
			return (func(ctor int, l [3]float32) adobergb.Color {
				var c adobergb.Color
				switch ctor {
				case 0:
					c = adobergb.ColorFromXYZ(ciexyz.Color{X: 0.3, Y: 0.4, Z: 0.5})
				case 1:
					c, _ = adobergb.ColorFromNRGBA(color.NRGBA{R: 10, G: 200, B: 30, A: 255})
				case 2:
					c = adobergb.ColorFromLinear(9, 9, 9)
				case 3:
					c, _ = adobergb.ColorFromEncodedColor(color.Gray{Y: 77})
				case 4:
					c, _ = adobergb.ColorFromLinearColor(color.RGBA64{R: 1000, G: 2000, B: 3000, A: 40000})
				default:
				}
				c.R, c.G, c.B = l[0], l[1], l[2]
				return c
			})(ctor, l).ToXYZ()
		},
		toRGBA64: func(ctor int, l [3]float32, a float32) color.RGBA64 {
			return (func(ctor int, l [3]float32) adobergb.Color {
				var c adobergb.Color
				switch ctor {
				case 0:
					c = adobergb.ColorFromXYZ(ciexyz.Color{X: 0.3, Y: 0.4, Z: 0.5})
				case 1:
					c, _ = adobergb.ColorFromNRGBA(color.NRGBA{R: 10, G: 200, B: 30, A: 255})
				case 2:
					c = adobergb.ColorFromLinear(9, 9, 9)
				case 3:
					c, _ = adobergb.ColorFromEncodedColor(color.Gray{Y: 77})
				case 4:
					c, _ = adobergb.ColorFromLinearColor(color.RGBA64{R: 1000, G: 2000, B: 3000, A: 40000})
				default:
				}
				c.R, c.G, c.B = l[0], l[1], l[2]
				return c
			})(ctor, l).ToRGBA64(a)
		},
		toNRGBA: func(ctor int, l [3]float32, a float32) color.NRGBA {
			return (func(ctor int, l [3]float32) adobergb.Color {
				var c adobergb.Color
				switch ctor {
				case 0:
					c = adobergb.ColorFromXYZ(ciexyz.Color{X: 0.3, Y: 0.4, Z: 0.5})
				case 1:
					c, _ = adobergb.ColorFromNRGBA(color.NRGBA{R: 10, G: 200, B: 30, A: 255})
				case 2:
					c = adobergb.ColorFromLinear(9, 9, 9)
				case 3:
					c, _ = adobergb.ColorFromEncodedColor(color.Gray{Y: 77})
				case 4:
					c, _ = adobergb.ColorFromLinearColor(color.RGBA64{R: 1000, G: 2000, B: 3000, A: 40000})
				default:
				}
				c.R, c.G, c.B = l[0], l[1], l[2]
				return c
			})(ctor, l).ToNRGBA(a)
		},
	},
	"prophoto": {
		toXYZ: func(ctor int, l [3]float32) ciexyz.Color {
			return (func(ctor int, l [3]float32) prophotorgb.Color {
				var c prophotorgb.Color
				switch ctor {
				case 0:
					c = prophotorgb.ColorFromXYZ(ciexyz.Color{X: 0.3, Y: 0.4, Z: 0.5})
				case 1:
					c, _ = prophotorgb.ColorFromNRGBA(color.NRGBA{R: 10, G: 200, B: 30, A: 255})
				case 2:
					c = prophotorgb.ColorFromLinear(9, 9, 9)
				case 3:
					c, _ = prophotorgb.ColorFromEncodedColor(color.Gray{Y: 77})
				case 4:
					c, _ = prophotorgb.ColorFromLinearColor(color.RGBA64{R: 1000, G: 2000, B: 3000, A: 40000})
				default:
				}
				c.R, c.G, c.B = l[0], l[1], l[2]
				return c
			})(ctor, l).ToXYZ()
		},
		toRGBA64: func(ctor int, l [3]float32, a float32) color.RGBA64 {
			return (func(ctor int, l [3]float32) prophotorgb.Color {
				var c prophotorgb.Color
				switch ctor {
				case 0:
					c = prophotorgb.ColorFromXYZ(ciexyz.Color{X: 0.3, Y: 0.4, Z: 0.5})
				case 1:
					c, _ = prophotorgb.ColorFromNRGBA(color.NRGBA{R: 10, G: 200, B: 30, A: 255})
				case 2:
					c = prophotorgb.ColorFromLinear(9, 9, 9)
				case 3:
					c, _ = prophotorgb.ColorFromEncodedColor(color.Gray{Y: 77})
				case 4:
					c, _ = prophotorgb.ColorFromLinearColor(color.RGBA64{R: 1000, G: 2000, B: 3000, A: 40000})
				default:
				}
				c.R, c.G, c.B = l[0], l[1], l[2]
				return c
			})(ctor, l).ToRGBA64(a)
		},
		toNRGBA: func(ctor int, l [3]float32, a float32) color.NRGBA {
			return (func(ctor int, l [3]float32) prophotorgb.Color {
				var c prophotorgb.Color
				switch ctor {
				case 0:
					c = prophotorgb.ColorFromXYZ(ciexyz.Color{X: 0.3, Y: 0.4, Z: 0.5})
				case 1:
					c, _ = prophotorgb.ColorFromNRGBA(color.NRGBA{R: 10, G: 200, B: 30, A: 255})
				case 2:
					c = prophotorgb.ColorFromLinear(9, 9, 9)
				case 3:
					c, _ = prophotorgb.ColorFromEncodedColor(color.Gray{Y: 77})
				case 4:
					c, _ = prophotorgb.ColorFromLinearColor(color.RGBA64{R: 1000, G: 2000, B: 3000, A: 40000})
				default:
				}
				c.R, c.G, c.B = l[0], l[1], l[2]
				return c
			})(ctor, l).ToNRGBA(a)
		},
	},
	"p3": {
		toXYZ: func(ctor int, l [3]float32) ciexyz.Color {
			return (func(ctor int, l [3]float32) displayp3.Color {
				var c displayp3.Color
				switch ctor {
				case 0:
					c = displayp3.ColorFromXYZ(ciexyz.Color{X: 0.3, Y: 0.4, Z: 0.5})
				case 1:
					c, _ = displayp3.ColorFromNRGBA(color.NRGBA{R: 10, G: 200, B: 30, A: 255})
				case 2:
					c = displayp3.ColorFromLinear(9, 9, 9)
				case 3:
					c, _ = displayp3.ColorFromEncodedColor(color.Gray{Y: 77})
				case 4:
					c, _ = displayp3.ColorFromLinearColor(color.RGBA64{R: 1000, G: 2000, B: 3000, A: 40000})
				default:
				}
				c.R, c.G, c.B = l[0], l[1], l[2]
				return c
			})(ctor, l).ToXYZ()
		},
		toRGBA64: func(ctor int, l [3]float32, a float32) color.RGBA64 {
			return (func(ctor int, l [3]float32) displayp3.Color {
				var c displayp3.Color
				switch ctor {
				case 0:
					c = displayp3.ColorFromXYZ(ciexyz.Color{X: 0.3, Y: 0.4, Z: 0.5})
				case 1:
					c, _ = displayp3.ColorFromNRGBA(color.NRGBA{R: 10, G: 200, B: 30, A: 255})
				case 2:
					c = displayp3.ColorFromLinear(9, 9, 9)
				case 3:
					c, _ = displayp3.ColorFromEncodedColor(color.Gray{Y: 77})
				case 4:
					c, _ = displayp3.ColorFromLinearColor(color.RGBA64{R: 1000, G: 2000, B: 3000, A: 40000})
				default:
				}
				c.R, c.G, c.B = l[0], l[1], l[2]
				return c
			})(ctor, l).ToRGBA64(a)
		},
		toNRGBA: func(ctor int, l [3]float32, a float32) color.NRGBA {
			return (func(ctor int, l [3]float32) displayp3.Color {
				var c displayp3.Color
				switch ctor {
				case 0:
					c = displayp3.ColorFromXYZ(ciexyz.Color{X: 0.3, Y: 0.4, Z: 0.5})
				case 1:
					c, _ = displayp3.ColorFromNRGBA(color.NRGBA{R: 10, G: 200, B: 30, A: 255})
				case 2:
					c = displayp3.ColorFromLinear(9, 9, 9)
				case 3:
					c, _ = displayp3.ColorFromEncodedColor(color.Gray{Y: 77})
				case 4:
					c, _ = displayp3.ColorFromLinearColor(color.RGBA64{R: 1000, G: 2000, B: 3000, A: 40000})
				default:
				}
				c.R, c.G, c.B = l[0], l[1], l[2]
				return c
			})(ctor, l).ToNRGBA(a)
		},
	},
}
