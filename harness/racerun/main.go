// Command racerun is built with -race and run as a fresh process per trial: N goroutines are
// released together so that the very first calls into the library race with one another.
// The race detector's report (exit status 66) is the replay of a C11 violation.  It is the
// search for a failing schedule, not the claim: the claim is the theorem over the access summary.
package main

import (
	"bytes"
	"fmt"
	"image"
	"image/color"
	"os"
	"strconv"
	"sync"

	"github.com/mandykoh/prism"
	"github.com/mandykoh/prism/adobergb"
	"github.com/mandykoh/prism/ciexyy"
	"github.com/mandykoh/prism/ciexyz"
	"github.com/mandykoh/prism/displayp3"
	"github.com/mandykoh/prism/meta/autometa"
	"github.com/mandykoh/prism/prophotorgb"
	"github.com/mandykoh/prism/srgb"
)

func main() {
	n := 8
	if len(os.Args) > 1 {
		n, _ = strconv.Atoi(os.Args[1])
	}
	var file []byte
	if len(os.Args) > 2 {
		file, _ = os.ReadFile(os.Args[2])
	}
	start := make(chan struct{})
	var wg sync.WaitGroup
	results := make([]uint64, n)
	for g := 0; g < n; g++ {
		wg.Add(1)
		go func(g int) {
			defer wg.Done()
			<-start
			var h uint64
			for k := 0; k < 3; k++ {
				v := uint16(1000*g + 77*k)
				// the lazily initialised 16-bit tables, first use
				h += uint64(srgb.To16Bit(srgb.From16Bit(v)))
				h += uint64(adobergb.To16Bit(adobergb.From16Bit(v)))
				h += uint64(prophotorgb.To16Bit(prophotorgb.From16Bit(v)))
				c, a := displayp3.ColorFromEncodedColor(color.RGBA64{R: v, G: v, B: v, A: 0xffff})
				h += uint64(c.ToRGBA64(a).R)
				h += uint64(srgb.To8Bit(srgb.From8Bit(uint8(v))))
				// chromatic adaptation (package-level matrices)
				ad := ciexyz.AdaptBetweenXYYWhitePoints(ciexyy.D50, ciexyy.D65)
				x := ad.Apply(ciexyz.Color{X: 0.3, Y: 0.4, Z: 0.2})
				h += uint64(x.Y * 1000)
				// image transforms with the library's own worker goroutines
				src := image.NewNRGBA(image.Rect(0, 0, 9, 7))
				for i := range src.Pix {
					src.Pix[i] = uint8(i*7 + g)
				}
				dst := image.NewRGBA64(src.Rect)
				srgb.LineariseImage(dst, src, 4)
				srgb.EncodeImage(dst, dst, 3)
				out := prism.ConvertImageToRGBA(dst, 2)
				h += uint64(out.Pix[5])
				// metadata loaders
				if file != nil {
					md, _, err := autometa.Load(bytes.NewReader(file))
					if err == nil {
						h += uint64(md.PixelWidth)
						if p, err := md.ICCProfile(); err == nil && p != nil {
							d, _ := p.Description()
							h += uint64(len(d))
						}
					}
				}
			}
			results[g] = h
		}(g)
	}
	close(start)
	wg.Wait()
	// every call returns the value it returns when executed alone: goroutines computing the same
	// inputs must agree; print a digest so the caller can compare across trials
	var sum uint64
	for _, r := range results {
		sum = sum*1099511628211 + r
	}
	fmt.Printf("digest %016x\n", sum)
}
