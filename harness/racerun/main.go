// Command racerun is built with -race and run as a fresh process per trial: N goroutines are
// released together so that the very first calls into the library race with one another.
// The race detector's report (exit status 66) is the replay of a C11 violation.  It is the
// search for a failing schedule, not the claim: the claim is the theorem over the access summary.
package main

import (
	"bytes"
	"compress/zlib"
	"encoding/binary"
	"fmt"
	"hash/crc32"
	"image"
	"image/color"
	"math"
	"os"
	"strconv"
	"sync"

	"github.com/mandykoh/prism"
	"github.com/mandykoh/prism/adobergb"
	"github.com/mandykoh/prism/ciexyy"
	"github.com/mandykoh/prism/ciexyz"
	"github.com/mandykoh/prism/displayp3"
	"github.com/mandykoh/prism/meta/autometa"
	"github.com/mandykoh/prism/meta/icc"
	"github.com/mandykoh/prism/meta/pngmeta"
	"github.com/mandykoh/prism/prophotorgb"
	"github.com/mandykoh/prism/srgb"
)

// pngWithICCP builds a minimal PNG whose iCCP chunk carries the given (already compressed) stream.
func pngWithICCP(w, h uint32, z []byte) []byte {
	var b bytes.Buffer
	b.Write([]byte{0x89, 'P', 'N', 'G', 0x0d, 0x0a, 0x1a, 0x0a})
	chunk := func(typ string, data []byte) {
		binary.Write(&b, binary.BigEndian, uint32(len(data)))
		td := append([]byte(typ), data...)
		b.Write(td)
		binary.Write(&b, binary.BigEndian, crc32.ChecksumIEEE(td))
	}
	ihdr := make([]byte, 13)
	binary.BigEndian.PutUint32(ihdr[0:], w)
	binary.BigEndian.PutUint32(ihdr[4:], h)
	ihdr[8], ihdr[9] = 8, 2
	chunk("IHDR", ihdr)
	// ancillary chunks in front of the profile, as real encoders write them (one of them longer than a kilobyte)
	chunk("gAMA", []byte{0, 0, 0xb1, 0x8f})
	chunk("pHYs", []byte{0, 0, 0x0b, 0x13, 0, 0, 0x0b, 0x13, 1})
	chunk("tEXt", append([]byte("Comment\x00"), bytes.Repeat([]byte("prism "), 200)...))
	chunk("iCCP", append([]byte("prof\x00\x00"), z...))
	chunk("IDAT", nil)
	chunk("IEND", nil)
	return b.Bytes()
}

func deflate(p []byte) []byte {
	var b bytes.Buffer
	w := zlib.NewWriter(&b)
	w.Write(p)
	w.Close()
	return b.Bytes()
}

func main() {
	n := 8
	if len(os.Args) > 1 {
		n, _ = strconv.Atoi(os.Args[1])
	}
	var file []byte
	if len(os.Args) > 2 {
		file, _ = os.ReadFile(os.Args[2])
	}
	// PNGs with embedded profiles: valid ones of several sizes and one whose stream zlib rejects
	var pngs [][]byte
	var profs [][]byte
	for k, sz := range []int{300, 3000, 70000} {
		p := make([]byte, sz)
		for i := range p {
			p[i] = byte(i*7 + k*13 + i/251)
		}
		profs = append(profs, p)
		pngs = append(pngs, pngWithICCP(uint32(10+k), 7, deflate(p)))
	}
	badPNG := pngWithICCP(3, 3, []byte("this is not a zlib stream at all, just text"))
	start := make(chan struct{})
	var wg sync.WaitGroup
	results := make([]uint64, n)
	for g := 0; g < n; g++ {
		wg.Add(1)
		go func(g int) {
			defer wg.Done()
			<-start
			var h uint64
			// first of all: even goroutines decode only the values an 8-bit image holds (multiples of 257), odd ones only
			// other values — callers of one kind of image each, meeting at first use
			for q := 0; q < 512; q++ {
				v := uint16((q % 256) * 257)
				if g%2 == 1 {
					v = uint16(q*251 + g + 1)
					if v%257 == 0 {
						v++
					}
				}
				h = h*31 + uint64(math.Float32bits(srgb.From16Bit(v))) + uint64(math.Float32bits(adobergb.From16Bit(v)))<<1 + uint64(math.Float32bits(prophotorgb.From16Bit(v)))<<2
			}
			for k := 0; k < 3; k++ {
				v := uint16(1000*g + 77*k)
				// the lazily initialised 16-bit tables, first use
				h += uint64(srgb.To16Bit(srgb.From16Bit(v)))
				h += uint64(adobergb.To16Bit(adobergb.From16Bit(v)))
				h += uint64(prophotorgb.To16Bit(prophotorgb.From16Bit(v)))
				c, a := displayp3.ColorFromEncodedColor(color.RGBA64{R: v, G: v, B: v, A: 0xffff})
				h += uint64(c.ToRGBA64(a).R)
				h += uint64(srgb.To8Bit(srgb.From8Bit(uint8(v))))
				// chromatic adaptation (package-level matrices)
				ad := ciexyz.AdaptBetweenXYYWhitePoints(ciexyy.D50, ciexyy.D65)
				x := ad.Apply(ciexyz.Color{X: 0.3, Y: 0.4, Z: 0.2})
				h += uint64(x.Y * 1000)
				// image transforms with the library's own worker goroutines
				src := image.NewNRGBA(image.Rect(0, 0, 9, 7))
				for i := range src.Pix {
					src.Pix[i] = uint8(i*7 + g)
				}
				dst := image.NewRGBA64(src.Rect)
				srgb.LineariseImage(dst, src, 4)
				srgb.EncodeImage(dst, dst, 3)
				out := prism.ConvertImageToRGBA(dst, 2)
				h += uint64(out.Pix[5])
				// XYZ conversions of every space at first use, Lab with a different white per goroutine
				lin := [3]float32{0.25 + float32(g%4)/8, 0.5, 0.75}
				for _, x := range []ciexyz.Color{srgb.ColorFromLinear(lin[0], lin[1], lin[2]).ToXYZ(), adobergb.ColorFromLinear(lin[0], lin[1], lin[2]).ToXYZ(),
					prophotorgb.ColorFromLinear(lin[0], lin[1], lin[2]).ToXYZ(), displayp3.ColorFromLinear(lin[0], lin[1], lin[2]).ToXYZ()} {
					h = h*31 + uint64(math.Float32bits(x.X)) + uint64(math.Float32bits(x.Y))<<1 + uint64(math.Float32bits(x.Z))<<2
					pp := prophotorgb.ColorFromXYZ(x)
					sp := srgb.ColorFromXYZ(x)
					h = h*31 + uint64(math.Float32bits(pp.R)) + uint64(math.Float32bits(sp.G))
					white := []ciexyz.Color{ciexyz.D50, ciexyz.D65, {X: 0.9, Y: 1, Z: 0.7}, {X: 1.1, Y: 0.95, Z: 1.2}}[g%4]
					lab := x.ToLAB(white)
					back := ciexyz.ColorFromLAB(lab, white)
					h = h*31 + uint64(math.Float32bits(lab.L)) + uint64(math.Float32bits(lab.A))<<1 + uint64(math.Float32bits(lab.B))<<2 + uint64(math.Float32bits(back.Y))
				}
				// PNG loads with embedded profiles (valid, and one zlib rejects) from many goroutines
				for j := 0; j < 4; j++ {
					idx := (g + j + k) % 4
					if idx == 3 {
						md, _, err := pngmeta.Load(bytes.NewReader(badPNG))
						if err != nil || md == nil {
							h += 999
						} else if d, e := md.ICCProfileData(); d != nil || e == nil {
							h += 777 // a rejected stream must give (nil, error)
						}
						continue
					}
					md, _, err := pngmeta.Load(bytes.NewReader(pngs[idx]))
					if err != nil || md == nil {
						h += 555
						continue
					}
					d, e := md.ICCProfileData()
					if e != nil || !bytes.Equal(d, profs[idx]) {
						h += 333 // profile bytes differ from what was embedded
					}
					h += uint64(md.PixelWidth)
				}
				// encoders on inputs that are not multiples of 1/65535 (a table look-up and a direct
				// evaluation of the curve agree on the grid only)
				for _, x := range []float32{3e-06, 1e-05, 0.18, 0.4332, 0.51467, 0.9999924, float32(g%7) / 7.3} {
					h = h*31 + uint64(srgb.To16Bit(x)) + uint64(adobergb.To16Bit(x))<<1 + uint64(prophotorgb.To16Bit(x))<<2 +
						uint64(srgb.To8Bit(x))<<3 + uint64(adobergb.To8Bit(x))<<4 + uint64(prophotorgb.To8Bit(x))<<5
				}
				// ICC headers: every goroutine decodes its own sequence of headers and compares each field
				// with a big-endian read at the ICC.1 offset
				for j := 0; j < 40; j++ {
					hd := make([]byte, 132)
					seed := uint64(g*1000003+k*7919+j) * 0x9E3779B97F4A7C15
					for i := range hd[:128] {
						seed = seed*6364136223846793005 + 1442695040888963407
						hd[i] = byte(seed >> 56)
					}
					copy(hd[36:40], "acsp")
					binary.BigEndian.PutUint16(hd[24:], 2000)
					binary.BigEndian.PutUint16(hd[26:], 6)
					binary.BigEndian.PutUint16(hd[28:], 15)
					binary.BigEndian.PutUint16(hd[30:], 12)
					binary.BigEndian.PutUint16(hd[32:], 30)
					binary.BigEndian.PutUint16(hd[34:], 30)
					pr, err := icc.NewProfileReader(bytes.NewReader(hd)).ReadProfile()
					if err != nil || pr == nil {
						h += 111
						continue
					}
					be := binary.BigEndian
					H := pr.Header
					if uint32(H.ProfileSize) != be.Uint32(hd[0:]) || uint32(H.PreferredCMM) != be.Uint32(hd[4:]) || uint32(H.DeviceClass) != be.Uint32(hd[12:]) ||
						uint32(H.DataColorSpace) != be.Uint32(hd[16:]) || uint32(H.ProfileConnectionSpace) != be.Uint32(hd[20:]) ||
						uint32(H.PrimaryPlatform) != be.Uint32(hd[40:]) || uint32(H.DeviceManufacturer) != be.Uint32(hd[48:]) ||
						uint32(H.DeviceModel) != be.Uint32(hd[52:]) || uint32(H.RenderingIntent) != be.Uint32(hd[64:]) ||
						uint32(H.ProfileCreator) != be.Uint32(hd[80:]) || !bytes.Equal(H.ProfileID[:], hd[84:100]) {
						h += 222 // a header field differs from the bytes at its offset
					}
				}
				// the auto-detecting loader on other formats in between (goroutines alternate formats)
				if md, _, err := autometa.Load(bytes.NewReader(pngs[(g+k)%3])); err == nil {
					h += uint64(md.PixelWidth) * 3
				} else {
					h += 555
				}
				if _, _, err := autometa.Load(bytes.NewReader([]byte("RIFF\x04\x00\x00\x00WEBP"))); err == nil {
					h += 777
				}
				// metadata loaders
				if file != nil {
					md, _, err := autometa.Load(bytes.NewReader(file))
					if err == nil {
						h += uint64(md.PixelWidth)
						if p, err := md.ICCProfile(); err == nil && p != nil {
							d, _ := p.Description()
							h += uint64(len(d))
						}
					}
				}
			}
			results[g] = h
		}(g)
	}
	close(start)
	wg.Wait()
	// every call returns the value it returns when executed alone: goroutines computing the same
	// inputs must agree; print a digest so the caller can compare across trials
	var sum uint64
	for _, r := range results {
		sum = sum*1099511628211 + r
	}
	fmt.Printf("digest %016x\n", sum)
}
