package main

import (
	"bytes"
	"os"
	"path/filepath"
)

// realProfiles: the ICC profiles shipped in the repository (stand-alone and embedded).
func realProfiles() [][]byte {
	var out [][]byte
	fs, _ := filepath.Glob("/repo/test-profiles/*.icc")
	for _, f := range fs {
		if b, err := os.ReadFile(f); err == nil {
			out = append(out, b)
		}
	}
	imgs, _ := filepath.Glob("/repo/test-images/*")
	for _, f := range imgs {
		b, err := os.ReadFile(f)
		if err != nil {
			continue
		}
		md, _, err, p := safeLoad(loaders["auto"], bytes.NewReader(b))
		if err != nil || p != nil || md == nil {
			continue
		}
		if d, e := md.ICCProfileData(); e == nil && d != nil {
			out = append(out, d)
		}
	}
	return out
}
