package main

import (
	"bufio"
	"bytes"
	"errors"
	"fmt"
	"io"
	"os"
	"strconv"
	"strings"

	"github.com/mandykoh/prism/meta"
)

var errFault = errors.New("injected I/O fault")

// timeoutErr: an error type of its own (as net errors are), not a sentinel value
type timeoutErr struct{}

func (timeoutErr) Error() string   { return "i/o timeout (injected)" }
func (timeoutErr) Timeout() bool   { return true }
func (timeoutErr) Temporary() bool { return true }

// the terminal errors a failing source is given, in rotation: an ordinary sentinel, the values
// compressed and HTTP bodies return on truncation, and the standard library's own I/O sentinels
var faultErrs = []error{errFault, io.ErrUnexpectedEOF, errFault, io.ErrClosedPipe, errFault, timeoutErr{}, io.ErrNoProgress, os.ErrDeadlineExceeded, io.ErrShortBuffer}
var faultTurn int
var lastFault error

// schedReader is a conforming io.Reader over fixed data: each Read delivers between 1 and
// len(p) bytes as dictated by sched (cyclic; empty = as much as requested), then a sticky
// terminal error (io.EOF or errFault), optionally together with the final bytes.
type schedReader struct {
	data        []byte
	pos         int
	sched       []int
	calls       int
	endErr      error
	eofWithData bool
	reqs        []int
}

func (s *schedReader) Read(p []byte) (int, error) {
	s.reqs = append(s.reqs, len(p))
	if len(p) == 0 {
		return 0, nil
	}
	if s.pos >= len(s.data) {
		s.calls++
		return 0, s.endErr
	}
	want := len(p)
	if len(s.sched) > 0 {
		want = s.sched[s.calls%len(s.sched)]
	}
	if want < 0 {
		// an empty read: (0, nil)
		s.calls++
		return 0, nil
	}
	if want == 0 {
		want = 1
	}
	if want > len(p) {
		want = len(p)
	}
	if want > len(s.data)-s.pos {
		want = len(s.data) - s.pos
	}
	copy(p, s.data[s.pos:s.pos+want])
	s.pos += want
	s.calls++
	if s.pos == len(s.data) && s.eofWithData {
		return want, s.endErr
	}
	return want, nil
}

func schedStr(s []int) string {
	if len(s) == 0 {
		return "-"
	}
	parts := make([]string, len(s))
	for i, v := range s {
		parts[i] = strconv.Itoa(v)
	}
	return strings.Join(parts, ",")
}

// drain reads a stream to its end with 512-byte requests.
func drain(r io.Reader, limit int) (data []byte, end string) {
	return drainExpect(r, limit, errFault)
}

// plainWriter hides bytes.Buffer's ReadFrom, so io.Copy has to use the source's WriteTo or its own loop
type plainWriter struct{ b *bytes.Buffer }

func (w plainWriter) Write(p []byte) (int, error) { return w.b.Write(p) }

var drainTurn int

// drainExpect: "fault" means exactly the error value the source was given.  How a caller consumes the
// returned stream must not matter, so the way of draining rotates from call to call: 512-byte reads,
// a few single-byte reads followed by io.Copy (which uses the stream's WriteTo when it has one),
// io.Copy from the start, one large buffer, io.ReadAll, a bufio.Reader on top, and zero-length reads in between.
func drainExpect(r io.Reader, limit int, fault error) (data []byte, end string) {
	classify := func(err error) string {
		switch {
		case err == nil || err == io.EOF:
			return "eof"
		case err == fault:
			return "fault"
		case err == io.ErrUnexpectedEOF:
			return "ueof"
		default:
			return "other:" + err.Error()
		}
	}
	drainTurn++
	mode := drainTurn % 8
	size := 512
	switch mode {
	case 7:
		// empty reads among the others (a caller polling with a zero-length buffer): they must return (0, nil)
		// — or the stream's terminal error once everything has been delivered — and lose nothing
		if n, err := r.Read(nil); n != 0 || (err != nil && err != io.EOF && err != fault) {
			return data, fmt.Sprintf("other:zero-length read returned (%d, %v)", n, err)
		}
		b16 := make([]byte, 16)
		n, err := r.Read(b16)
		data = append(data, b16[:n]...)
		if err != nil {
			return data, classify(err)
		}
		if n, err := r.Read(b16[:0]); n != 0 || (err != nil && err != io.EOF && err != fault) {
			return data, fmt.Sprintf("other:zero-length read returned (%d, %v)", n, err)
		}
		rest, err := io.ReadAll(r)
		return append(data, rest...), classify(err)
	case 1, 2, 5:
		if mode == 1 {
			one := make([]byte, 1)
			for i := 0; i < 3; i++ {
				n, err := r.Read(one)
				data = append(data, one[:n]...)
				if err != nil {
					return data, classify(err)
				}
			}
		}
		var b bytes.Buffer
		var err error
		if mode == 5 {
			_, err = bufio.NewReaderSize(r, 64).WriteTo(plainWriter{&b})
		} else {
			_, err = io.Copy(plainWriter{&b}, r)
		}
		return append(data, b.Bytes()...), classify(err)
	case 3:
		rest, err := io.ReadAll(r)
		return rest, classify(err)
	case 4:
		size = 1 << 16
	case 6:
		size = 1
		limit = limit*512 + 16
	}
	buf := make([]byte, size)
	for i := 0; i < limit; i++ {
		n, err := r.Read(buf)
		data = append(data, buf[:n]...)
		if err != nil {
			return data, classify(err)
		}
	}
	return data, "none"
}

var interposeTurn int
var interposeFiles map[string][][]byte

// interposed returns two other valid files for the loader (longer and shorter ones), built once
// from a private PRNG so that the main case stream is not perturbed.
func interposed(name string) [][]byte {
	if interposeFiles == nil {
		interposeFiles = map[string][][]byte{}
		r := newRng(0xfeed)
		for _, small := range []bool{true, false} {
			for _, f := range seedFiles(r, small) {
				interposeFiles[f.format] = append(interposeFiles[f.format], f.data)
			}
		}
	}
	fm := name
	if fm == "auto" {
		fm = []string{"png", "jpeg", "webp"}[interposeTurn%3]
	}
	fs := interposeFiles[fm]
	if len(fs) == 0 {
		return nil
	}
	return [][]byte{fs[interposeTurn%len(fs)], fs[(interposeTurn/3+1)%len(fs)]}
}

type loadxResult struct {
	out    string // canonical line, as the model prints it
	meta   string // "ok ..." / "err"
	pulled int
	replay []byte
	end    string
	md     *meta.Data
	fault  error
}

// runLoadx runs a real loader over a scheduled (and possibly failing) source.
func runLoadx(name string, data []byte, sched []int, fault bool, eofWithData bool) loadxResult {
	src := &schedReader{data: data, sched: sched, endErr: io.EOF, eofWithData: eofWithData}
	if fault {
		src.endErr = faultErrs[faultTurn%len(faultErrs)]
		faultTurn++
	}
	md, rest, err, p := safeLoad(loaders[name], src)
	res := loadxResult{meta: metaOut(md, err, p), pulled: src.pos, md: md, fault: src.endErr}
	if p != nil || rest == nil {
		res.out = res.meta + " nil-stream"
		return res
	}
	// every third case: before the returned stream is drained, another image goes through the same
	// loader (and through auto) and is drained — a stream must keep replaying its own input
	interposeTurn++
	if interposeTurn%3 == 0 {
		for _, other := range interposed(name) {
			for _, ld := range []string{name, "auto"} {
				_, rest2, _, p2 := safeLoad(loaders[ld], bytes.NewReader(other))
				if p2 == nil && rest2 != nil {
					drain(rest2, len(other)+16)
				}
			}
		}
	}
	func() {
		defer func() {
			if x := recover(); x != nil {
				res.end = "panic"
			}
		}()
		res.replay, res.end = drainExpect(rest, len(data)+16, src.endErr)
	}()
	res.out = fmt.Sprintf("%s pulled=%d replay=%s end=%s", res.meta, res.pulled, bytesDigest(res.replay), res.end)
	return res
}

func emitLoadx(c *corrCtx, class, name string, data []byte, sched []int, fault bool, eofWithData bool) loadxResult {
	res := runLoadx(name, data, sched, fault, eofWithData)
	retainCheck(c, name, res.md, len(data))
	oracle := ""
	if name == "png" || name == "auto" {
		oracle = pngOracle(data)
	}
	ee, ewd := "eof", "0"
	if fault {
		ee = "fault"
	}
	if eofWithData {
		ewd = "1"
	}
	c.emit(class, fmt.Sprintf("loadx %s %s %s %s %s%s", name, ee, ewd, schedStr(sched), hexs(data), oracle), res.out)
	return res
}

var fixedScheds = [][]int{nil, {1}, {2}, {3}, {7}, {8}, {4095}, {4096}, {4097}}

func randSched(r *rng) []int {
	n := 1 + r.intn(6)
	s := make([]int, n)
	for i := range s {
		switch r.intn(4) {
		case 0:
			s[i] = 1 + r.intn(8)
		case 1:
			s[i] = 1 + r.intn(600)
		case 2:
			s[i] = r.pick(4095, 4096, 4097, 8192)
		default:
			s[i] = 1 + r.intn(70000)
		}
	}
	return s
}
