package main

import (
	"encoding/json"
	"fmt"
	"os"
)

// searchReq is what ./check hands to `pv search <ID> <file>` when a proof obligation or the
// correspondence broke: the failing step and its details.  The search evaluates the
// property's own oracle on the real code and prints "WITNESS <json>" for a concrete failing
// input (with a stable "key" naming it), or nothing.
type searchReq struct {
	Kind    string                 `json:"kind"`
	Payload map[string]interface{} `json:"payload"`
}

func loadSearchReq(args []string) (*searchReq, error) {
	if len(args) < 1 {
		return nil, fmt.Errorf("missing request file")
	}
	b, err := os.ReadFile(args[0])
	if err != nil {
		return nil, err
	}
	var r searchReq
	if err := json.Unmarshal(b, &r); err != nil {
		return nil, err
	}
	return &r, nil
}

func witness(key, what string, fields map[string]interface{}) {
	m := map[string]interface{}{"key": key, "what": what}
	for k, v := range fields {
		m[k] = v
	}
	b, _ := json.Marshal(m)
	fmt.Println("WITNESS " + string(b))
}

// mismatchOps extracts the op lines of the correspondence mismatches from a request.
func (r *searchReq) mismatchOps() []string {
	var out []string
	ms, _ := r.Payload["mismatches"].([]interface{})
	for _, m := range ms {
		if mm, ok := m.(map[string]interface{}); ok {
			if op, ok := mm["op"].(string); ok {
				out = append(out, op)
			}
		}
	}
	return out
}
