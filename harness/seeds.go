package main

import (
	"fmt"
	"os"
	"path/filepath"
)

type seedFile struct {
	name   string
	format string // png | jpeg | webp | none
	data   []byte
	needed int // end of the last structure the loader needs (C18); 0 = unknown
}

// seedFiles: small well-formed files of every kind (with and without ICC), built by the
// generators, plus junk and polyglots.  Deterministic in the rng.
func seedFiles(r *rng, small bool) []seedFile {
	var out []seedFile
	psize := func() int {
		if small {
			return 1 + r.intn(120)
		}
		return r.pick(1, 100, 3000, 4096, 5000, 9000)
	}
	for i := 0; i < 2; i++ {
		withICC := i == 1
		p := randProfilePayload(r, psize())
		pd := randPngDesc(r, withICC, p)
		if small {
			pd.pre, pd.post = pd.pre[:min(1, len(pd.pre))], nil
			for k := range pd.pre {
				pd.pre[k].data = trunc(pd.pre[k].data, 20)
			}
		}
		d, n := pd.build()
		out = append(out, seedFile{"png-icc" + map[bool]string{true: "1", false: "0"}[withICC], "png", d, n})
		jd := randJpegDesc(r)
		if small {
			jd.segsBefore = jd.segsBefore[:min(2, len(jd.segsBefore))]
			for k := range jd.segsBefore {
				jd.segsBefore[k].data = trunc(jd.segsBefore[k].data, 24)
			}
		}
		if withICC {
			k := 1 + r.intn(3)
			szs := make([]int, k)
			rem := len(p)
			for j := 0; j < k; j++ {
				szs[j] = rem / (k - j)
				rem -= szs[j]
			}
			if szs[0] == 0 {
				szs = []int{len(p)}
			}
			jd.iccSegs = splitICC(p, szs)
			jd.iccAfterSOF = r.intn(2) == 0
		}
		d, n = jd.build()
		out = append(out, seedFile{"jpeg-icc" + map[bool]string{true: "1", false: "0"}[withICC], "jpeg", d, n})
	}
	if !small {
		// a small profile chunk inside the first buffer-full, kilobytes of other segments, then the frame header
		for _, com := range []int{5000, 9000} {
			p := randProfilePayload(r, 560)
			jd := randJpegDesc(r)
			jd.segsBefore = nil
			jd.iccSegs = splitICC(p, []int{len(p)})
			jd.iccAfterSOF = false
			jd.interleave = []jpegSeg{{0xfe, r.bytes(com)}}
			d, n := jd.build()
			out = append(out, seedFile{fmt.Sprintf("jpeg-icc-early-sof-late-%d", com), "jpeg", d, n})
		}
		// the largest chunk count the one-byte field can declare, every chunk present (two or three bytes each)
		{
			p := randProfilePayload(r, 255*2+r.intn(255))
			szs := make([]int, 255)
			rem := len(p)
			for j := 0; j < 255; j++ {
				szs[j] = rem / (255 - j)
				rem -= szs[j]
			}
			jd := randJpegDesc(r)
			jd.segsBefore = nil
			jd.iccSegs = splitICC(p, szs)
			jd.iccAfterSOF = r.intn(2) == 0
			d, n := jd.build()
			out = append(out, seedFile{"jpeg-icc-255-chunks", "jpeg", d, n})
		}
	}
	for _, k := range []string{"VP8", "VP8L", "VP8X"} {
		wd := randWebpDesc(r, k, nil)
		d, n := wd.build()
		out = append(out, seedFile{"webp-" + k, "webp", d, n})
	}
	wd := randWebpDesc(r, "VP8X", randProfilePayload(r, psize()))
	d, n := wd.build()
	out = append(out, seedFile{"webp-VP8X-icc", "webp", d, n})
	return out
}

func junkFiles(r *rng) []seedFile {
	var out []seedFile
	out = append(out, seedFile{"empty", "none", nil, 0})
	out = append(out, seedFile{"random", "none", r.bytes(200), 0})
	out = append(out, seedFile{"zeros", "none", make([]byte, 64), 0})
	// polyglots: one format's signature followed by another format's bytes
	s := seedFiles(r, true)
	png, jpg, webp := s[0].data, s[1].data, s[4].data
	out = append(out, seedFile{"png-sig+jpeg", "none", append(append([]byte{}, pngSig...), jpg...), 0})
	out = append(out, seedFile{"png-sig+webp", "none", append(append([]byte{}, pngSig...), webp...), 0})
	out = append(out, seedFile{"jpeg-soi+png", "none", append([]byte{0xff, 0xd8}, png...), 0})
	out = append(out, seedFile{"jpeg-soi+webp", "none", append([]byte{0xff, 0xd8}, webp...), 0})
	out = append(out, seedFile{"riff+png", "none", append([]byte("RIFF\x10\x00\x00\x00WEBP"), png...), 0})
	out = append(out, seedFile{"riff-then-jpeg", "none", append([]byte("RIFF"), jpg...), 0})
	// a JPEG whose SOF is too short (recovered panic), then valid WebP bytes
	out = append(out, seedFile{"jpeg-short-sof", "none", []byte{0xff, 0xd8, 0xff, 0xc0, 0x00, 0x04, 0x08, 0x00}, 0})
	out = append(out, seedFile{"png-truncated-ihdr", "none", png[:20], 0})
	// a JPEG whose first SOF is fine and whose second SOF is too short: the extractor panics (and
	// recovers) *after* the basic metadata was extracted, so it returns metadata together with an error
	goodSOF := []byte{0xff, 0xc0, 0x00, 0x0b, 0x08, 0x00, 0x10, 0x00, 0x0f, 0x01, 0x01, 0x11, 0x00}
	for _, l := range []byte{2, 3, 6} {
		for _, m := range []byte{0xc0, 0xc2} {
			d := append([]byte{0xff, 0xd8}, goodSOF...)
			d = append(d, 0xff, m, 0x00, l)
			d = append(d, make([]byte, int(l)-2)...)
			d = append(d, 0xff, 0xda, 0x00, 0x02)
			out = append(out, seedFile{fmt.Sprintf("jpeg-second-sof-short-%d-%x", l, m), "none", d, 0})
		}
	}
	// dimension fields that are exactly zero: a JPEG frame header that defers its line count to a DNL segment
	// (lines = 0), zero samples per line, a PNG or VP8 header with a zero dimension — the format loaders take the
	// fields as they are
	for k := 0; k < 4; k++ {
		jd := randJpegDesc(r)
		jd.segsBefore = jd.segsBefore[:min(1, len(jd.segsBefore))]
		if k%2 == 0 {
			jd.h = 0
		} else {
			jd.w = 0
		}
		if k >= 2 {
			jd.w, jd.h = 0, 0
		}
		d, n := jd.build()
		out = append(out, seedFile{fmt.Sprintf("jpeg-zero-dim-%d", k), "jpeg", d, n})
	}
	for k := 0; k < 2; k++ {
		pd := randPngDesc(r, false, nil)
		pd.pre, pd.post = nil, nil
		if k == 0 {
			pd.w = 0
		} else {
			pd.h = 0
		}
		d, n := pd.build()
		out = append(out, seedFile{fmt.Sprintf("png-zero-dim-%d", k), "png", d, n})
		wd := randWebpDesc(r, "VP8", nil)
		if k == 0 {
			wd.w = 0
		} else {
			wd.h = 0
		}
		d, n = wd.build()
		out = append(out, seedFile{fmt.Sprintf("webp-vp8-zero-dim-%d", k), "webp", d, n})
	}
	// the same after a complete ICC profile chunk
	out = append(out, seedFile{"jpeg-icc-then-short-sof", "none", append(append(append([]byte{0xff, 0xd8}, iccApp2(1, 1, []byte("profile")).bytes()...), 0xff, 0xc0, 0x00, 0x04, 0x08, 0x00), 0xff, 0xd9), 0})
	return out
}

func realFiles() []seedFile {
	var out []seedFile
	fs, _ := filepath.Glob("/repo/test-images/*")
	for _, f := range fs {
		b, err := os.ReadFile(f)
		if err != nil {
			continue
		}
		fm := map[string]string{".png": "png", ".jpg": "jpeg", ".webp": "webp"}[filepath.Ext(f)]
		out = append(out, seedFile{"real/" + filepath.Base(f), fm, b, 0})
	}
	return out
}

// alignedFiles: for each target offset T, one file per format whose ICC carrier (iCCP chunk
// data / last APP2 segment / ICCP chunk data) ends exactly at file offset T, followed by a body
// long enough to force further buffer refills.  Targets sit around multiples of the 4096-byte
// bufio window, where a structure straddles two buffer fills.
func alignedFiles(r *rng, targets []int) (out []seedFile, profiles [][]byte) {
	for _, T := range targets {
		// PNG: zero-filled tEXt padding before iCCP
		prof := randProfilePayload(r, 200+r.intn(900))
		pd := randPngDesc(r, true, prof)
		pd.pre, pd.post, pd.body = []pngChunk{{"tEXt", nil}}, nil, r.bytes(6000+r.intn(3000))
		d, _ := pd.build()
		if end := pngIccEnd(d); end > 0 && T > end {
			pd.pre[0].data = make([]byte, T-end)
			d2, n2 := pd.build()
			if pngIccEnd(d2) == T {
				out = append(out, seedFile{fmt.Sprintf("png-icc-end@%d", T), "png", d2, n2})
				profiles = append(profiles, prof)
			}
		}
		// JPEG: a COM segment before everything, the ICC segments last before SOS
		jd := randJpegDesc(r)
		jd.segsBefore = []jpegSeg{{0xfe, nil}}
		k := 1 + r.intn(2)
		szs := make([]int, k)
		rem := len(prof)
		for j := 0; j < k; j++ {
			szs[j] = rem / (k - j)
			rem -= szs[j]
		}
		jd.iccSegs, jd.interleave, jd.iccAfterSOF, jd.body = splitICC(prof, szs), nil, true, r.bytes(6000+r.intn(3000))
		_, end := jd.build()
		if T > end && T-end < 65000 {
			jd.segsBefore[0].data = make([]byte, T-end)
			d2, n2 := jd.build()
			if n2 == T {
				out = append(out, seedFile{fmt.Sprintf("jpeg-icc-end@%d", T), "jpeg", d2, n2})
				profiles = append(profiles, prof)
			}
		}
		// WebP: the ICCP chunk follows the 30-byte RIFF/VP8X prefix; its length sets the end
		if T > 60 {
			wprof := randProfilePayload(r, T-38)
			wd := randWebpDesc(r, "VP8X", wprof)
			wd.body = r.bytes(6000 + r.intn(3000))
			d2, n2 := wd.build()
			if n2 == T {
				out = append(out, seedFile{fmt.Sprintf("webp-icc-end@%d", T), "webp", d2, n2})
				profiles = append(profiles, wprof)
			}
		}
	}
	return out, profiles
}

// pngIccEnd: file offset just past the data of the first iCCP chunk (0 if none)
func pngIccEnd(d []byte) int {
	for off := 8; off+8 <= len(d); {
		n := int(uint32(d[off])<<24 | uint32(d[off+1])<<16 | uint32(d[off+2])<<8 | uint32(d[off+3]))
		if string(d[off+4:off+8]) == "iCCP" {
			return off + 8 + n
		}
		off += 12 + n
	}
	return 0
}

func alignTargets(thorough bool) []int {
	var ts []int
	for _, base := range []int{4096, 8192} {
		for d := -8; d <= 6; d++ {
			ts = append(ts, base+d)
		}
	}
	if thorough {
		for _, base := range []int{4096, 8192, 12288, 16384} {
			for d := -24; d <= 24; d++ {
				ts = append(ts, base+d)
			}
		}
	}
	return ts
}

// fieldFiles: well-formed files of each container with one length field replaced by an extreme or
// off-by-one value (what a damaged or hostile file carries): every PNG chunk length, every JPEG
// segment length, the RIFF size and every WebP chunk size.  Quick takes a PRNG-chosen subset of the
// values per field; thorough takes all of them.
func fieldFiles(r *rng, thorough bool) []seedFile {
	var out []seedFile
	base := seedFiles(r, true)
	// a PNG with ancillary chunks before and after its profile
	pd := randPngDesc(r, true, randProfilePayload(r, 60))
	pd.pre = []pngChunk{{"gAMA", be32(45455)}, {"tEXt", []byte("Comment\x00pv")}}
	pd.post = []pngChunk{{"pHYs", []byte{0, 0, 11, 19, 0, 0, 11, 19, 1}}}
	pdata, pneeded := pd.build()
	base = append(base, seedFile{"png-ancillary", "png", pdata, pneeded})
	pick := func(vals []uint32) []uint32 {
		if thorough {
			return vals
		}
		return []uint32{vals[r.intn(len(vals))], vals[r.intn(len(vals))]}
	}
	for _, s := range base {
		d := s.data
		switch s.format {
		case "png":
			ci := 0
			for off := 8; off+8 <= len(d); ci++ {
				n := uint32(d[off])<<24 | uint32(d[off+1])<<16 | uint32(d[off+2])<<8 | uint32(d[off+3])
				vals := pick([]uint32{0xfffffffe, 0xfffffffd, 0xfffffffc, 0xfffffffb, 0xfffffff4, 0x80000000, 0x7fffffff, 0, n + 1, n - 1, n + 4, n + 12})
				vals = append(vals, 0xffffffff) // the largest value the field can hold, always
				for _, v := range vals {
					m := append([]byte{}, d...)
					copy(m[off:], be32(v))
					out = append(out, seedFile{fmt.Sprintf("%s/len-field/chunk%d-%s=%08x", s.name, ci, string(d[off+4:off+8]), v), s.format, m, 0})
				}
				off += 12 + int(n)
			}
		case "jpeg":
			si := 0
			for off := 2; off+4 <= len(d) && d[off] == 0xff; si++ {
				mk := d[off+1]
				if mk == 0xd9 || mk == 0xda {
					break
				}
				n := uint32(d[off+2])<<8 | uint32(d[off+3])
				for _, v := range pick([]uint32{0, 1, 2, 3, 0xffff, 0xfffe, n + 1, n - 1, n + 2}) {
					m := append([]byte{}, d...)
					copy(m[off+2:], be16(uint16(v)))
					out = append(out, seedFile{fmt.Sprintf("%s/len-field/seg%d-%02x=%04x", s.name, si, mk, v&0xffff), s.format, m, 0})
				}
				off += 2 + int(n)
			}
		case "webp":
			ci := 0
			for _, off := range []int{4} {
				n := uint32(d[off]) | uint32(d[off+1])<<8 | uint32(d[off+2])<<16 | uint32(d[off+3])<<24
				for _, v := range pick([]uint32{0xffffffff, 0xfffffffe, 0xfffffff7, 0x80000000, 0, 4, n + 1, n - 1}) {
					m := append([]byte{}, d...)
					copy(m[off:], le32(v))
					out = append(out, seedFile{fmt.Sprintf("%s/len-field/riff=%08x", s.name, v), s.format, m, 0})
				}
			}
			for off := 12; off+8 <= len(d); ci++ {
				n := uint32(d[off+4]) | uint32(d[off+5])<<8 | uint32(d[off+6])<<16 | uint32(d[off+7])<<24
				for _, v := range pick([]uint32{0xffffffff, 0xfffffffe, 0xfffffff8, 0xfffffff7, 0x80000000, 0x7fffffff, 0, n + 1, n - 1, n + 2}) {
					m := append([]byte{}, d...)
					copy(m[off+4:], le32(v))
					out = append(out, seedFile{fmt.Sprintf("%s/len-field/chunk%d-%s=%08x", s.name, ci, string(d[off:off+4]), v), s.format, m, 0})
				}
				off += 8 + int(n) + int(n&1)
			}
		}
	}
	// lengths that wrap: a parser that adds the framing (4, 8 or 12 bytes; 1 byte of padding) to a declared
	// length in 32 bits sees a small number.  The declared length is 2^32 - c + k and exactly k bytes are
	// present before the next well-formed chunk, so a wrapped sum lands on a chunk boundary again.
	for _, c := range []uint32{4, 8, 12} {
		for _, k := range []uint32{0, 1, 3, 5} {
			v := uint32(0) - c + k
			var b []byte
			b = append(b, pdata[:33]...) // signature + IHDR
			b = append(b, be32(v)...)
			b = append(b, []byte("tEXt")...)
			b = append(b, make([]byte, k)...)
			b = append(b, pdata[33:]...)
			out = append(out, seedFile{fmt.Sprintf("png-ancillary/len-wrap/c%d-k%d", c, k), "png", b, 0})
		}
	}
	for _, c := range []uint32{1, 8, 9, 12} {
		for _, k := range []uint32{0, 1, 2, 6} {
			v := uint32(0) - c + k
			wd := randWebpDesc(r, "VP8X", nil)
			wd.between = append(append(append([]byte("EXIF"), le32(v)...), make([]byte, k)...), riffChunk("XMP ", []byte("ab"))...)
			d, _ := wd.build()
			out = append(out, seedFile{fmt.Sprintf("webp-VP8X/len-wrap/c%d-k%d", c, k), "webp", d, 0})
		}
	}
	return out
}
