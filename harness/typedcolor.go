package main

import (
	"fmt"
	"image/color"
)

// A colour of every dynamic type the standard library defines (and one foreign type), so that
// type switches inside the generic constructors are exercised: the constructors' contract is stated
// on what c.RGBA() returns.

type foreignColor struct{ r, g, b, a uint32 }

func (f foreignColor) RGBA() (uint32, uint32, uint32, uint32) { return f.r, f.g, f.b, f.a }

var typedKinds = []string{"gray", "gray16", "alpha", "alpha16", "rgba", "nrgba", "rgba64", "nrgba64", "cmyk", "ycbcr", "nycbcra", "foreign"}

// typedColor builds a colour of dynamic type kind from 16-bit-ish random material v (4 words) and alpha a16.
func typedColor(kind string, v [4]uint32, opaque bool) color.Color {
	a16 := uint16(v[3])
	if opaque {
		a16 = 0xffff
	}
	a8 := uint8(a16 >> 8)
	if opaque {
		a8 = 0xff
	}
	min16 := func(x uint32) uint16 {
		if uint16(x) > a16 {
			if a16 == 0 {
				return 0
			}
			return uint16(x % (uint32(a16) + 1))
		}
		return uint16(x)
	}
	min8 := func(x uint32) uint8 {
		if uint8(x) > a8 {
			if a8 == 0 {
				return 0
			}
			return uint8(x % (uint32(a8) + 1))
		}
		return uint8(x)
	}
	switch kind {
	case "gray":
		return color.Gray{Y: uint8(v[0])}
	case "gray16":
		return color.Gray16{Y: uint16(v[0])}
	case "alpha":
		return color.Alpha{A: a8}
	case "alpha16":
		return color.Alpha16{A: a16}
	case "rgba":
		return color.RGBA{R: min8(v[0]), G: min8(v[1]), B: min8(v[2]), A: a8}
	case "nrgba":
		return color.NRGBA{R: uint8(v[0]), G: uint8(v[1]), B: uint8(v[2]), A: a8}
	case "rgba64":
		return color.RGBA64{R: min16(v[0]), G: min16(v[1]), B: min16(v[2]), A: a16}
	case "nrgba64":
		return color.NRGBA64{R: uint16(v[0]), G: uint16(v[1]), B: uint16(v[2]), A: a16}
	case "cmyk":
		return color.CMYK{C: uint8(v[0]), M: uint8(v[1]), Y: uint8(v[2]), K: uint8(v[3] >> 3)}
	case "ycbcr":
		return color.YCbCr{Y: uint8(v[0]), Cb: uint8(v[1]), Cr: uint8(v[2])}
	case "nycbcra":
		return color.NYCbCrA{YCbCr: color.YCbCr{Y: uint8(v[0]), Cb: uint8(v[1]), Cr: uint8(v[2])}, A: a8}
	default:
		return foreignColor{uint32(min16(v[0])), uint32(min16(v[1])), uint32(min16(v[2])), uint32(a16)}
	}
}

// typedColourCases drives the four generic entry points of every space with colours of every
// dynamic type.  The model receives what c.RGBA() returned (that is the constructors' contract);
// the property oracles are evaluated directly: opaque colours decode to the table values of their
// 16-bit components (C01), alpha is A/65535 exactly and transparent colours give the zero colour (C14).
func typedColourCases(c *corrCtx, prop string, opaqueOnly bool, n int) {
	r := c.rng
	for i := range spaces {
		s := &spaces[i]
		for _, kind := range typedKinds {
			for k := 0; k < n; k++ {
				var v [4]uint32
				for j := range v {
					v[j] = uint32(r.intn(65536))
					if r.intn(5) == 0 {
						v[j] = uint32(r.pick(0, 1, 127, 128, 254, 255, 256, 257, 0x8000, 0xff00, 0xfffe, 0xffff))
					}
				}
				if kind == "gray" && k < 256 {
					v[0] = uint32(k) // every 8-bit grey code
				}
				if kind == "gray16" && k < 512 {
					v[0] = uint32(k * 128) // a sweep of 16-bit grey codes
					if k == 511 {
						v[0] = 0xffff
					}
				}
				opaque := opaqueOnly || r.intn(3) == 0
				if !opaqueOnly && r.intn(6) == 0 {
					v[3] = 0 // transparent, possibly with colour data (non-premultiplied types)
				}
				col := typedColor(kind, v, opaque)
				cr, cg, cb, ca := col.RGBA()
				fnList := []string{"fromenc", "fromlin", "linearise", "encode"}
				if prop == "C02" {
					fnList = []string{"encode"}
				}
				for _, fn := range fnList {
					var out []uint64
					switch fn {
					case "fromenc":
						l, a := s.fromEnc(col)
						out = []uint64{f32bits(l[0]), f32bits(l[1]), f32bits(l[2]), f32bits(a)}
						if ca == 0xffff {
							want := [3]float32{s.from16(uint16(cr)), s.from16(uint16(cg)), s.from16(uint16(cb))}
							if l != want || a != 1 {
								c.direct(fmt.Sprintf("%s/typed/%s/%s/%04x%04x%04x", prop, s.name, kind, cr, cg, cb),
									"generic constructor on an opaque colour does not return the decode-table values of its components",
									map[string]interface{}{"space": s.name, "type": fmt.Sprintf("%T", col), "colour": fmt.Sprintf("%v", col), "rgba": []uint32{cr, cg, cb, ca}, "got": l, "want": want, "alpha": a})
							}
						}
					case "fromlin":
						l, a := s.fromLinCol(col)
						out = []uint64{f32bits(l[0]), f32bits(l[1]), f32bits(l[2]), f32bits(a)}
					case "linearise":
						p := s.linearise(col)
						out = []uint64{uint64(p.R), uint64(p.G), uint64(p.B), uint64(p.A)}
						if uint32(p.A) != ca {
							c.direct(fmt.Sprintf("%s/typed-alpha/%s/%s/lin/%04x", prop, s.name, kind, ca), "LineariseColor changes alpha",
								map[string]interface{}{"space": s.name, "type": fmt.Sprintf("%T", col), "colour": fmt.Sprintf("%v", col), "alpha_in": ca, "alpha_out": p.A})
						}
					case "encode":
						p := s.encode(col)
						out = []uint64{uint64(p.R), uint64(p.G), uint64(p.B), uint64(p.A)}
						if prop == "C02" && ca == 0xffff {
							// an opaque colour of any type encodes to the 16-bit encoder's codes of its components
							want := s.toRGBA64([3]float32{float32(cr) / 65535, float32(cg) / 65535, float32(cb) / 65535}, 1)
							d16 := func(a, b uint16) int {
								if a > b {
									return int(a - b)
								}
								return int(b - a)
							}
							// one code of slack: the claim is accuracy to the 16-bit table's resolution, whatever the type
							if d16(want.R, p.R) > 1 || d16(want.G, p.G) > 1 || d16(want.B, p.B) > 1 || p.A != want.A {
								c.direct(fmt.Sprintf("C02/typed-encode/%s/%s/%04x%04x%04x", s.name, kind, cr, cg, cb), "EncodeColor of an opaque colour is more than one code away from the 16-bit encoder applied to its components (precision depends on the colour's Go type)",
									map[string]interface{}{"space": s.name, "type": fmt.Sprintf("%T", col), "colour": fmt.Sprintf("%v", col), "rgba": []uint32{cr, cg, cb, ca}, "got": []uint16{p.R, p.G, p.B, p.A}, "want": []uint16{want.R, want.G, want.B, want.A}})
							}
						}
						if uint32(p.A) != ca {
							c.direct(fmt.Sprintf("%s/typed-alpha/%s/%s/enc/%04x", prop, s.name, kind, ca), "EncodeColor changes alpha",
								map[string]interface{}{"space": s.name, "type": fmt.Sprintf("%T", col), "colour": fmt.Sprintf("%v", col), "alpha_in": ca, "alpha_out": p.A})
						}
					}
					if fn == "fromenc" || fn == "fromlin" {
						if ca == 0 && (out[0] != 0 || out[1] != 0 || out[2] != 0 || out[3] != 0) {
							c.direct(fmt.Sprintf("%s/typed-transparent/%s/%s/%s", prop, s.name, kind, fn), "a fully transparent colour does not decode to the zero colour with alpha 0",
								map[string]interface{}{"space": s.name, "type": fmt.Sprintf("%T", col), "colour": fmt.Sprintf("%v", col), "out_bits": out})
						} else if ca != 0 && out[3] != f32bits(float32(ca)/65535) {
							c.direct(fmt.Sprintf("%s/typed-decalpha/%s/%s/%s/%04x", prop, s.name, kind, fn, ca), "decoded alpha is not exactly A/65535",
								map[string]interface{}{"space": s.name, "type": fmt.Sprintf("%T", col), "alpha": ca, "got_bits": out[3]})
						}
					}
					c.emit("typed/"+kind+"/"+fn, fmt.Sprintf("col %s %s %x %x %x %x", s.name, fn, cr, cg, cb, ca), wordsHex(out))
				}
			}
		}
	}
}
