package main

import (
	"bufio"
	"bytes"
	"fmt"
	"io"
	"os"
	"strings"
	"testing/iotest"
)

// Sources of every dynamic type a caller may hand to a loader: the loaders' contract is stated on
// io.Reader, so optional interfaces a source also implements (io.Seeker, io.ByteReader, io.WriterTo,
// io.ReaderAt, Len, Peek, ...) must not change what is extracted or what the returned stream replays.
var typedSourceKinds = []string{"bytes.Buffer", "bytes.Reader", "strings.Reader", "bufio.Reader", "bufio.Reader16", "os.File",
	"io.SectionReader", "io.LimitedReader", "iotest.DataErrReader", "iotest.HalfReader", "iotest.OneByteReader", "io.Pipe", "io.MultiReader", "struct-embedding-bytes.Reader"}

type embedsReader struct{ *bytes.Reader }

func typedSource(kind string, data []byte) (io.Reader, func()) {
	none := func() {}
	switch kind {
	case "bytes.Buffer":
		return bytes.NewBuffer(append([]byte{}, data...)), none
	case "bytes.Reader":
		return bytes.NewReader(data), none
	case "strings.Reader":
		return strings.NewReader(string(data)), none
	case "bufio.Reader":
		return bufio.NewReader(bytes.NewReader(data)), none
	case "bufio.Reader16":
		return bufio.NewReaderSize(&schedReader{data: data, sched: []int{5, 1, 30}, endErr: io.EOF}, 16), none
	case "os.File":
		f, err := os.CreateTemp("", "pv-typed-*")
		if err != nil {
			return bytes.NewReader(data), none
		}
		f.Write(data)
		f.Seek(0, 0)
		return f, func() { f.Close(); os.Remove(f.Name()) }
	case "io.SectionReader":
		all := append(append([]byte("prefix--"), data...), []byte("--suffix")...)
		return io.NewSectionReader(bytes.NewReader(all), 8, int64(len(data))), none
	case "io.LimitedReader":
		all := append(append([]byte{}, data...), []byte("trailing bytes that are not part of the stream")...)
		return &io.LimitedReader{R: bytes.NewReader(all), N: int64(len(data))}, none
	case "iotest.DataErrReader":
		return iotest.DataErrReader(bytes.NewReader(data)), none
	case "iotest.HalfReader":
		return iotest.HalfReader(bytes.NewReader(data)), none
	case "iotest.OneByteReader":
		return iotest.OneByteReader(bytes.NewReader(data)), none
	case "io.Pipe":
		pr, pw := io.Pipe()
		go func() {
			for off := 0; off < len(data); off += 1000 {
				end := off + 1000
				if end > len(data) {
					end = len(data)
				}
				if _, err := pw.Write(data[off:end]); err != nil {
					return
				}
			}
			pw.Close()
		}()
		return pr, func() { pr.Close() }
	case "io.MultiReader":
		h := len(data) / 3
		return io.MultiReader(bytes.NewReader(data[:h]), bytes.NewReader(nil), bytes.NewReader(data[h:])), none
	default:
		return embedsReader{bytes.NewReader(data)}, none
	}
}

// typedSourceCases: every file through every kind of source; the result must be the one the plain
// all-at-once source gives, and the returned stream must replay the file.
func typedSourceCases(c *corrCtx, prop string, files []seedFile) {
	for _, f := range files {
		if len(f.data) > 1<<20 {
			continue
		}
		lds := []string{"auto"}
		if f.format != "none" {
			lds = append(lds, f.format)
		}
		for _, ld := range lds {
			ref := runLoadx(ld, f.data, nil, false, false).meta
			for _, kind := range typedSourceKinds {
				src, cleanup := typedSource(kind, f.data)
				md, rest, err, p := safeLoad(loaders[ld], src)
				got := metaOut(md, err, p)
				var replay []byte
				end := "nil-stream"
				if rest != nil && p == nil {
					func() {
						defer func() {
							if recover() != nil {
								end = "panic"
							}
						}()
						replay, end = drain(rest, len(f.data)+64)
					}()
				}
				cleanup()
				c.stats["typed-source/"+kind]++
				if got != ref {
					c.direct(fmt.Sprintf("%s/typed-source/%s/%s/%s", prop, kind, f.name, ld), "the result depends on the dynamic type of the source (same bytes, another io.Reader implementation)",
						map[string]interface{}{"loader": ld, "source_type": kind, "plain": ref, "got": got, "len": len(f.data), "data": hexs(trunc(f.data, 200))})
				}
				if !bytes.Equal(replay, f.data) || end != "eof" {
					c.direct(fmt.Sprintf("%s/typed-source-replay/%s/%s/%s", prop, kind, f.name, ld), "the returned stream does not replay the source (same bytes, another io.Reader implementation)",
						map[string]interface{}{"loader": ld, "source_type": kind, "want_len": len(f.data), "got_len": len(replay), "end": end})
				}
			}
		}
	}
}
