package main

import (
	"bufio"
	"bytes"
	"fmt"
	"math"
	"os"
	"path/filepath"
	"strings"
)

// SplitMix64: the single PRNG every random choice derives from.
type rng struct{ s uint64 }

func newRng(seed uint64) *rng { return &rng{seed*0x9E3779B97F4A7C15 + 0x1234567} }
func (r *rng) next() uint64 {
	r.s += 0x9E3779B97F4A7C15
	z := r.s
	z = (z ^ (z >> 30)) * 0xBF58476D1CE4E5B9
	z = (z ^ (z >> 27)) * 0x94D049BB133111EB
	return z ^ (z >> 31)
}
func (r *rng) intn(n int) int {
	if n <= 0 {
		return 0
	}
	return int(r.next() % uint64(n))
}
func (r *rng) f64() float64 { return float64(r.next()>>11) / (1 << 53) }
func (r *rng) bytes(n int) []byte {
	b := make([]byte, n)
	for i := range b {
		b[i] = byte(r.next())
	}
	return b
}
func (r *rng) pick(xs ...int) int { return xs[r.intn(len(xs))] }

// FNV-1a 64 over a sequence of 64-bit words (each fed as 8 little-endian bytes).
type fnv struct{ h uint64 }

func newFnv() *fnv { return &fnv{0xcbf29ce484222325} }
func (f *fnv) word(w uint64) {
	for i := 0; i < 8; i++ {
		f.h ^= (w >> (8 * uint(i))) & 0xff
		f.h *= 0x100000001b3
	}
}

func f32bits(x float32) uint64 { return uint64(math.Float32bits(x)) }
func f64bits(x float64) uint64 { return math.Float64bits(x) }

// writeIfChanged writes content to path only when it differs, so that lake's
// content-addressed cache stays valid on an unchanged tree.
func writeIfChanged(path string, content []byte) error {
	old, err := os.ReadFile(path)
	if err == nil && bytes.Equal(old, content) {
		return nil
	}
	if err := os.MkdirAll(filepath.Dir(path), 0o755); err != nil {
		return err
	}
	return os.WriteFile(path, content, 0o644)
}

// emitTable renders a table of fixed-width entries as Lean definitions:
//
//	def <name>_<k> : Nat        chunk k: 256 entries, entry j at bit offset width*j
//	def <name>Chunk : Nat → Nat  balanced decision tree over k (cheap for the kernel)
//	def <name>Len : Nat
func emitTable(sb *strings.Builder, name string, width uint, entries []uint64) {
	const per = 256
	nchunks := (len(entries) + per - 1) / per
	fmt.Fprintf(sb, "def %sLen : Nat := %d\n", name, len(entries))
	for c := 0; c < nchunks; c++ {
		fmt.Fprintf(sb, "def %s_%d : Nat := 0x", name, c)
		hi := (c + 1) * per
		if hi > len(entries) {
			hi = len(entries)
		}
		digits := int(width / 4)
		for j := hi - 1; j >= c*per; j-- {
			fmt.Fprintf(sb, "%0*x", digits, entries[j])
		}
		sb.WriteString("\n")
	}
	var tree func(lo, hi int) string
	tree = func(lo, hi int) string {
		if hi-lo == 1 {
			return fmt.Sprintf("%s_%d", name, lo)
		}
		mid := (lo + hi) / 2
		return fmt.Sprintf("(bif Nat.blt k %d then %s else %s)", mid, tree(lo, mid), tree(mid, hi))
	}
	fmt.Fprintf(sb, "def %sChunk (k : Nat) : Nat :=\n  bif Nat.blt k %d then %s else 0\n", name, nchunks, tree(0, nchunks))
}

type lineWriter struct {
	f *os.File
	w *bufio.Writer
	n int
}

func newLineWriter(path string) (*lineWriter, error) {
	f, err := os.Create(path)
	if err != nil {
		return nil, err
	}
	return &lineWriter{f: f, w: bufio.NewWriterSize(f, 1<<20)}, nil
}
func (l *lineWriter) printf(format string, a ...interface{}) {
	fmt.Fprintf(l.w, format, a...)
	l.n++
}
func (l *lineWriter) close() error {
	if err := l.w.Flush(); err != nil {
		return err
	}
	return l.f.Close()
}
