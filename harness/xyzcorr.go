package main

import (
	"fmt"
	"math"

	"github.com/mandykoh/prism/cielab"
	"github.com/mandykoh/prism/ciexyy"
	"github.com/mandykoh/prism/ciexyz"
	"github.com/mandykoh/prism/matrix"
)

func init() {
	corrFuncs["C12"] = corrC12
	corrFuncs["C13"] = corrC13
	corrFuncs["C20"] = corrC20
}

func m3hex(m matrix.Matrix3) string {
	s := ""
	for i := 0; i < 3; i++ {
		for j := 0; j < 3; j++ {
			if i+j > 0 {
				s += " "
			}
			s += fmt.Sprintf("%016x", math.Float64bits(m[i][j]))
		}
	}
	return s
}

func canonNaN64(m matrix.Matrix3) matrix.Matrix3 {
	for i := 0; i < 3; i++ {
		for j := 0; j < 3; j++ {
			if m[i][j] != m[i][j] {
				m[i][j] = math.Float64frombits(0x7ff8000000000000)
			}
		}
	}
	return m
}

// CIE standard illuminants (x, y), 2° observer
var illuminants = map[string][2]float32{
	"A": {0.44757, 0.40745}, "B": {0.34842, 0.35161}, "C": {0.31006, 0.31616}, "D50": {0.34567, 0.35850}, "D55": {0.33242, 0.34743},
	"D65": {0.31271, 0.32902}, "D75": {0.29902, 0.31485}, "E": {1.0 / 3, 1.0 / 3}, "F2": {0.37208, 0.37529}, "F7": {0.31292, 0.32933}, "F11": {0.38052, 0.37713},
}

func xyy(w [2]float32) ciexyy.Color { return ciexyy.Color{X: w[0], Y: w[1], YY: 1} }

func xyzOf(w [2]float32) [3]float64 {
	x, y := float64(w[0]), float64(w[1])
	return [3]float64{x / y, 1, (1 - x - y) / y}
}

func caTo64(ca ciexyz.ChromaticAdaptation) (o [3][3]float64) {
	// Matrix3 stores columns: m[col][row]
	for col := 0; col < 3; col++ {
		for row := 0; row < 3; row++ {
			o[row][col] = ca[col][row]
		}
	}
	return
}

func maxAbsDiff(a, b [3][3]float64) float64 {
	d := 0.0
	for i := 0; i < 3; i++ {
		for j := 0; j < 3; j++ {
			d = math.Max(d, math.Abs(a[i][j]-b[i][j]))
		}
	}
	return d
}

var ident3 = [3][3]float64{{1, 0, 0}, {0, 1, 0}, {0, 0, 1}}

func corrC12(c *corrCtx) {
	sfCross(c, 2000)
	r := c.rng
	var whites [][2]float32
	var names []string
	for _, n := range []string{"A", "B", "C", "D50", "D55", "D65", "D75", "E", "F2", "F7", "F11"} {
		whites = append(whites, illuminants[n])
		names = append(names, n)
	}
	grid := 8
	if c.thorough() {
		grid = 24
	}
	for i := 0; i < grid; i++ {
		for j := 0; j < grid; j++ {
			whites = append(whites, [2]float32{0.2 + 0.3*float32(i)/float32(grid-1), 0.2 + 0.3*float32(j)/float32(grid-1)})
			names = append(names, fmt.Sprintf("g%d_%d", i, j))
		}
	}
	// distinct but nearby whites (the same illuminant as published with 4 or 5 digits, small offsets)
	nBase := len(whites)
	for _, n := range []string{"D65", "D50", "A", "E"} {
		w := illuminants[n]
		for _, d := range []float32{1e-5, 1e-4, 3e-4, 1e-3} {
			whites = append(whites, [2]float32{w[0] + d, w[1] - d/2})
			names = append(names, fmt.Sprintf("%s+%g", n, d))
		}
	}
	whites = append(whites, [2]float32{0.3127, 0.3290}, [2]float32{0.3457, 0.3585})
	names = append(names, "D65-4digit", "D50-4digit")
	_ = nBase
	worstWhite, worstRef, worstCompose := 0.0, 0.0, 0.0
	for ai, A := range whites {
		for bi, B := range whites {
			nearby := ai >= nBase || bi >= nBase
			if nearby && !(ai < 11 || bi < 11 || (ai >= nBase && bi >= nBase)) {
				continue // nearby whites are paired with the illuminants and with each other
			}
			if !c.thorough() && !nearby && ai >= 11 && bi >= 11 && (ai*31+bi*17)%9 != 0 {
				continue
			}
			ca := ciexyz.AdaptBetweenXYYWhitePoints(xyy(A), xyy(B))
			c.emit("adaptxyy", fmt.Sprintf("adaptxyy %08x %08x %08x %08x %08x %08x", fb(A[0]), fb(A[1]), fb(1), fb(B[0]), fb(B[1]), fb(1)), m3hex(matrix.Matrix3(ca)))
			// constructor equivalence
			sa, sb := ciexyz.ColorFromXYY(xyy(A)), ciexyz.ColorFromXYY(xyy(B))
			cz := ciexyz.AdaptBetweenXYZWhitePoints(sa, sb)
			c.emit("adaptxyz", fmt.Sprintf("adaptxyz %08x %08x %08x %08x %08x %08x", fb(sa.X), fb(sa.Y), fb(sa.Z), fb(sb.X), fb(sb.Y), fb(sb.Z)), m3hex(matrix.Matrix3(cz)))
			if cz != ca {
				c.direct(fmt.Sprintf("C12/ctor/%s-%s", names[ai], names[bi]), "xyY and XYZ constructors give different adaptations", nil)
			}
			// white maps to white
			got := ca.Apply(sa)
			c.emit("apply", fmt.Sprintf("apply %s %08x %08x %08x", m3hex(matrix.Matrix3(ca)), fb(sa.X), fb(sa.Y), fb(sa.Z)), fmt.Sprintf("%08x %08x %08x", fb(got.X), fb(got.Y), fb(got.Z)))
			dw := math.Max(math.Abs(float64(got.X-sb.X)), math.Max(math.Abs(float64(got.Y-sb.Y)), math.Abs(float64(got.Z-sb.Z))))
			worstWhite = math.Max(worstWhite, dw)
			if dw > 1e-6 {
				c.direct(fmt.Sprintf("C12/white/%s-%s", names[ai], names[bi]), "adaptation does not map the source white onto the destination white within 1e-6", map[string]interface{}{"A": A, "B": B, "got": []float32{got.X, got.Y, got.Z}, "want": []float32{sb.X, sb.Y, sb.Z}})
			}
			// equals the independent float64 Bradford matrix (computed from the same float32 XYZ whites)
			ws := [3]float64{float64(sa.X), float64(sa.Y), float64(sa.Z)}
			wd := [3]float64{float64(sb.X), float64(sb.Y), float64(sb.Z)}
			s := mulv3(bradfordRef, ws)
			d := mulv3(bradfordRef, wd)
			ref := mul3(mul3(inv3(bradfordRef), [3][3]float64{{d[0] / s[0], 0, 0}, {0, d[1] / s[1], 0}, {0, 0, d[2] / s[2]}}), bradfordRef)
			dr := maxAbsDiff(caTo64(ca), ref)
			worstRef = math.Max(worstRef, dr)
			if dr > 1e-9 {
				c.direct(fmt.Sprintf("C12/ref/%s-%s", names[ai], names[bi]), "adaptation matrix differs from the independent float64 Bradford matrix by more than 1e-9", map[string]interface{}{"A": A, "B": B, "diff": dr})
			}
			// identity, inverse
			if ai == bi && maxAbsDiff(caTo64(ca), ident3) > 1e-9 {
				c.direct(fmt.Sprintf("C12/identity/%s", names[ai]), "adapting A to A is not the identity", map[string]interface{}{"A": A, "diff": maxAbsDiff(caTo64(ca), ident3)})
			}
			back := ciexyz.AdaptBetweenXYYWhitePoints(xyy(B), xyy(A))
			if dd := maxAbsDiff(mul3(caTo64(back), caTo64(ca)), ident3); dd > 1e-9 {
				c.direct(fmt.Sprintf("C12/inverse/%s-%s", names[ai], names[bi]), "A->B followed by B->A is not the identity", map[string]interface{}{"A": A, "B": B, "diff": dd})
			}
			// composition through a third white
			C := whites[(ai*7+bi*3+5)%len(whites)]
			bc := ciexyz.AdaptBetweenXYYWhitePoints(xyy(B), xyy(C))
			ac := ciexyz.AdaptBetweenXYYWhitePoints(xyy(A), xyy(C))
			dc := maxAbsDiff(mul3(caTo64(bc), caTo64(ca)), caTo64(ac))
			worstCompose = math.Max(worstCompose, dc)
			if dc > 1e-9 {
				c.direct(fmt.Sprintf("C12/compose/%s-%s", names[ai], names[bi]), "A->B followed by B->C differs from A->C", map[string]interface{}{"A": A, "B": B, "C": C, "diff": dc})
			}
			// linear action on colours
			for k := 0; k < 6; k++ {
				u := ciexyz.Color{X: float32(r.f64() * 1.2), Y: float32(r.f64() * 1.2), Z: float32(r.f64() * 1.2)}
				switch k {
				case 2: // basis vectors and colours with exact zeros (either sign), tiny and negative components
					u = [](ciexyz.Color){{X: 1}, {Y: 1}, {Z: 1}, {X: 1, Z: 1}, {X: 0.5, Y: 0, Z: 0.25}, {}}[r.intn(6)]
				case 3:
					z := float32(math.Copysign(0, -float64(r.intn(2))))
					switch r.intn(3) {
					case 0:
						u.X = z
					case 1:
						u.Y = z
					default:
						u.Z = z
					}
				case 4:
					u = ciexyz.Color{X: float32(r.f64() * 2e-4), Y: float32(r.f64() * 2e-4), Z: float32(r.f64())}
					if r.intn(2) == 0 {
						u.Y = float32(r.f64() * 1e-6)
					}
				case 5:
					u = ciexyz.Color{X: float32(r.f64()*3 - 1), Y: float32(r.f64()*3 - 1), Z: float32(r.f64()*3 - 1)}
				}
				gu := ca.Apply(u)
				c.emit("apply", fmt.Sprintf("apply %s %08x %08x %08x", m3hex(matrix.Matrix3(ca)), fb(u.X), fb(u.Y), fb(u.Z)), fmt.Sprintf("%08x %08x %08x", fb(gu.X), fb(gu.Y), fb(gu.Z)))
				want := mulv3(caTo64(ca), [3]float64{float64(u.X), float64(u.Y), float64(u.Z)})
				tl := func(w float64) float64 { return 1e-6 * math.Max(1, math.Abs(w)) }
				if math.Abs(float64(gu.X)-want[0]) > tl(want[0]) || math.Abs(float64(gu.Y)-want[1]) > tl(want[1]) || math.Abs(float64(gu.Z)-want[2]) > tl(want[2]) {
					c.direct(fmt.Sprintf("C12/linear/%s-%s", names[ai], names[bi]), "Apply is not the matrix-vector product", map[string]interface{}{"u": []float32{u.X, u.Y, u.Z}, "got": []float32{gu.X, gu.Y, gu.Z}, "want": want})
				}
			}
		}
	}
	// whites of different luminance (xyY with Y != 1; XYZ whites on the 0-100 scale against 0-1)
	lums := [][2]float32{{1, 0.9}, {0.5, 2}, {100, 1}, {0.2, 0.2}, {1, 100}}
	for ai := 0; ai < 11 && ai < len(whites); ai++ {
		for bi := 0; bi < 11 && bi < len(whites); bi++ {
			if !c.thorough() && (ai+2*bi)%3 != 0 {
				continue
			}
			A, B := whites[ai], whites[bi]
			lu := lums[(ai+bi)%len(lums)]
			wa := ciexyy.Color{X: A[0], Y: A[1], YY: lu[0]}
			wb := ciexyy.Color{X: B[0], Y: B[1], YY: lu[1]}
			ca := ciexyz.AdaptBetweenXYYWhitePoints(wa, wb)
			c.emit("adaptxyy-lum", fmt.Sprintf("adaptxyy %08x %08x %08x %08x %08x %08x", fb(A[0]), fb(A[1]), fb(lu[0]), fb(B[0]), fb(B[1]), fb(lu[1])), m3hex(matrix.Matrix3(ca)))
			sa, sb := ciexyz.ColorFromXYY(wa), ciexyz.ColorFromXYY(wb)
			cz := ciexyz.AdaptBetweenXYZWhitePoints(sa, sb)
			c.emit("adaptxyz-lum", fmt.Sprintf("adaptxyz %08x %08x %08x %08x %08x %08x", fb(sa.X), fb(sa.Y), fb(sa.Z), fb(sb.X), fb(sb.Y), fb(sb.Z)), m3hex(matrix.Matrix3(cz)))
			if cz != ca {
				c.direct(fmt.Sprintf("C12/ctor-lum/%s-%s", names[ai], names[bi]), "xyY and XYZ constructors give different adaptations (whites of different luminance)", map[string]interface{}{"A": wa, "B": wb})
			}
			got := ca.Apply(sa)
			scale := math.Max(1, float64(maxf(sb.X, sb.Y, sb.Z)))
			if dw := math.Max(math.Abs(float64(got.X-sb.X)), math.Max(math.Abs(float64(got.Y-sb.Y)), math.Abs(float64(got.Z-sb.Z)))); dw > 1e-6*scale {
				c.direct(fmt.Sprintf("C12/white-lum/%s-%s", names[ai], names[bi]), "adaptation between whites of different luminance does not map the source white onto the destination white",
					map[string]interface{}{"A": wa, "B": wb, "got": []float32{got.X, got.Y, got.Z}, "want": []float32{sb.X, sb.Y, sb.Z}})
			}
			ws := [3]float64{float64(sa.X), float64(sa.Y), float64(sa.Z)}
			wd := [3]float64{float64(sb.X), float64(sb.Y), float64(sb.Z)}
			sv := mulv3(bradfordRef, ws)
			dv := mulv3(bradfordRef, wd)
			ref := mul3(mul3(inv3(bradfordRef), [3][3]float64{{dv[0] / sv[0], 0, 0}, {0, dv[1] / sv[1], 0}, {0, 0, dv[2] / sv[2]}}), bradfordRef)
			if dr := maxAbsDiff(caTo64(ca), ref); dr > 1e-9*math.Max(1, float64(lu[1]/lu[0])) {
				c.direct(fmt.Sprintf("C12/ref-lum/%s-%s", names[ai], names[bi]), "adaptation matrix differs from the independent float64 Bradford matrix (whites of different luminance)", map[string]interface{}{"A": wa, "B": wb, "diff": dr})
			}
		}
	}
	// histories: adaptations asked for again after other pairs (same source, other destination; swapped;
	// repeated) — the answer may depend on the arguments only
	nh := 300
	if c.thorough() {
		nh = 6000
	}
	pa, pb := whites[0], whites[1]
	for k := 0; k < nh; k++ {
		A, B := pa, pb
		switch r.intn(6) {
		case 0:
			B = whites[r.intn(len(whites))]
		case 1:
			A = whites[r.intn(len(whites))]
		case 2:
			A, B = B, A
		case 3:
			A, B = whites[r.intn(11)], whites[r.intn(11)]
		case 4:
			B = A
		}
		ca := ciexyz.AdaptBetweenXYYWhitePoints(xyy(A), xyy(B))
		c.emit("history/adaptxyy", fmt.Sprintf("adaptxyy %08x %08x %08x %08x %08x %08x", fb(A[0]), fb(A[1]), fb(1), fb(B[0]), fb(B[1]), fb(1)), m3hex(matrix.Matrix3(ca)))
		sa, sb := ciexyz.ColorFromXYY(xyy(A)), ciexyz.ColorFromXYY(xyy(B))
		cz := ciexyz.AdaptBetweenXYZWhitePoints(sa, sb)
		c.emit("history/adaptxyz", fmt.Sprintf("adaptxyz %08x %08x %08x %08x %08x %08x", fb(sa.X), fb(sa.Y), fb(sa.Z), fb(sb.X), fb(sb.Y), fb(sb.Z)), m3hex(matrix.Matrix3(cz)))
		got := ca.Apply(sa)
		if dw := math.Max(math.Abs(float64(got.X-sb.X)), math.Max(math.Abs(float64(got.Y-sb.Y)), math.Abs(float64(got.Z-sb.Z)))); dw > 1e-6 {
			c.direct(fmt.Sprintf("C12/history-white/%08x%08x-%08x%08x", fb(A[0]), fb(A[1]), fb(B[0]), fb(B[1])), "adaptation asked for after other pairs does not map its source white onto its destination white",
				map[string]interface{}{"A": A, "B": B, "previous": [][2]float32{pa, pb}, "got": []float32{got.X, got.Y, got.Z}, "want": []float32{sb.X, sb.Y, sb.Z}})
		}
		pa, pb = A, B
	}
	c.extra["worst_white_error"] = worstWhite
	c.extra["worst_vs_reference"] = worstRef
	c.extra["worst_composition_error"] = worstCompose
}

// ---- C13 ------------------------------------------------------------------------------

const labE = 216.0 / 24389.0
const labK = 24389.0 / 27.0

func labRef(c, w [3]float64) [3]float64 {
	f := func(r float64) float64 {
		if r > labE {
			return math.Cbrt(r)
		}
		return (labK*r + 16) / 116
	}
	fx, fy, fz := f(c[0]/w[0]), f(c[1]/w[1]), f(c[2]/w[2])
	return [3]float64{116*fy - 16, 500 * (fx - fy), 200 * (fy - fz)}
}

func emitToLab(c *corrCtx, class string, col, w ciexyz.Color) cielab.Color {
	lab := col.ToLAB(w)
	// the Pow results the code observed: math.Pow(float64(v)/float64(wp), 1.0/3.0) where the ratio exceeds epsilon
	pw := func(v, wp float32) uint64 {
		r := float64(v) / float64(wp)
		if r > labE {
			return math.Float64bits(math.Pow(r, 1.0/3.0))
		}
		return 0
	}
	c.emit(class, fmt.Sprintf("tolab %08x %08x %08x %08x %08x %08x %016x %016x %016x", fb(col.X), fb(col.Y), fb(col.Z), fb(w.X), fb(w.Y), fb(w.Z),
		pw(col.X, w.X), pw(col.Y, w.Y), pw(col.Z, w.Z)), fmt.Sprintf("%08x %08x %08x", canon32b(lab.L), canon32b(lab.A), canon32b(lab.B)))
	return lab
}

func canon32b(x float32) uint32 {
	if x != x {
		return 0x7fc00000
	}
	return fb(x)
}

func emitFromLab(c *corrCtx, class string, lab cielab.Color, w ciexyz.Color) ciexyz.Color {
	out := ciexyz.ColorFromLAB(lab, w)
	fy := (float64(lab.L) + 16) / 116
	fx := float64(lab.A)/500 + fy
	fz := fy - float64(lab.B)/200
	c.emit(class, fmt.Sprintf("fromlab %08x %08x %08x %08x %08x %08x %016x %016x %016x", fb(lab.L), fb(lab.A), fb(lab.B), fb(w.X), fb(w.Y), fb(w.Z),
		math.Float64bits(math.Pow(fx, 3)), math.Float64bits(math.Pow(fy, 3)), math.Float64bits(math.Pow(fz, 3))),
		fmt.Sprintf("%08x %08x %08x", canon32b(out.X), canon32b(out.Y), canon32b(out.Z)))
	return out
}

func finite32(x float32) bool { return !math.IsNaN(float64(x)) && !math.IsInf(float64(x), 0) }

func corrC13(c *corrCtx) {
	sfCross(c, 2000)
	r := c.rng
	whites := []ciexyz.Color{ciexyz.D50, ciexyz.D65}
	for i := 0; i < 6; i++ {
		whites = append(whites, ciexyz.Color{X: float32(0.1 + 1.9*r.f64()), Y: float32(0.1 + 1.9*r.f64()), Z: float32(0.1 + 1.9*r.f64())})
	}
	// the same illuminants as other sources tabulate them — near the library's constants but not equal to them: the ICC
	// PCS illuminant, the xyY constants converted, ASTM E308 values, four-figure roundings, a few ulps or 1e-4 away.
	// A reference white is whatever the caller passes.
	near := []ciexyz.Color{{X: 0.9642, Y: 1, Z: 0.8249}, ciexyz.ColorFromXYY(ciexyy.D50), ciexyz.ColorFromXYY(ciexyy.D65),
		{X: 0.9505, Y: 1, Z: 1.0891}, {X: 0.95047, Y: 1, Z: 1.08883}, {X: 0.96422, Y: 1, Z: 0.82521}, {X: 0.9643, Y: 1, Z: 0.8251}}
	for _, base := range []ciexyz.Color{ciexyz.D50, ciexyz.D65} {
		near = append(near,
			ciexyz.Color{X: math.Float32frombits(fb(base.X) + 1), Y: base.Y, Z: math.Float32frombits(fb(base.Z) - 2)},
			ciexyz.Color{X: base.X + 1e-4, Y: base.Y, Z: base.Z - 3e-4},
			ciexyz.Color{X: base.X - 4e-4, Y: base.Y + 2e-4, Z: base.Z + 4e-4})
	}
	whites = append(whites, near[r.intn(3)], near[3+r.intn(4)], near[7+r.intn(len(near)-7)])
	if c.thorough() {
		whites = append(whites, near...)
	}
	worstAcc, worstRT := 0.0, 0.0
	check := func(class string, col, w ciexyz.Color) {
		lab := emitToLab(c, class, col, w)
		ref := labRef([3]float64{float64(col.X), float64(col.Y), float64(col.Z)}, [3]float64{float64(w.X), float64(w.Y), float64(w.Z)})
		d := math.Max(math.Abs(float64(lab.L)-ref[0]), math.Max(math.Abs(float64(lab.A)-ref[1]), math.Abs(float64(lab.B)-ref[2])))
		worstAcc = math.Max(worstAcc, d)
		if !(d <= 1e-3) || !finite32(lab.L) || !finite32(lab.A) || !finite32(lab.B) {
			c.direct(fmt.Sprintf("C13/accuracy/%08x%08x%08x", fb(col.X), fb(col.Y), fb(col.Z)), "ToLAB differs from the CIE 1976 definition by more than 1e-3 or is not finite",
				map[string]interface{}{"xyz": []float32{col.X, col.Y, col.Z}, "white": []float32{w.X, w.Y, w.Z}, "got": []float32{lab.L, lab.A, lab.B}, "want": ref})
		}
		back := emitFromLab(c, class+"/back", lab, w)
		scale := 1.0
		drt := math.Max(math.Abs(float64(back.X-col.X)), math.Max(math.Abs(float64(back.Y-col.Y)), math.Abs(float64(back.Z-col.Z))))
		// L* below 0 cannot be represented by the inverse's Y branch only when Y<0: the property's domain has X,Y,Z >= -0.5
		if col.X >= 0 && col.Y >= 0 && col.Z >= 0 {
			worstRT = math.Max(worstRT, drt)
			if !(drt <= 1e-5*scale*math.Max(1, float64(maxf(w.X, w.Y, w.Z)))) {
				c.direct(fmt.Sprintf("C13/roundtrip/%08x%08x%08x", fb(col.X), fb(col.Y), fb(col.Z)), "XYZ->Lab->XYZ does not return the input within 1e-5",
					map[string]interface{}{"xyz": []float32{col.X, col.Y, col.Z}, "white": []float32{w.X, w.Y, w.Z}, "back": []float32{back.X, back.Y, back.Z}})
			}
		}
	}
	for _, w := range whites {
		// reference white -> (100, 0, 0); multiples of white -> a = b = 0
		lab := emitToLab(c, "white", w, w)
		if lab.L != 100 || lab.A != 0 || lab.B != 0 {
			c.direct(fmt.Sprintf("C13/white/%08x", fb(w.X)), "the reference white does not map to (100, 0, 0)", map[string]interface{}{"white": []float32{w.X, w.Y, w.Z}, "got": []float32{lab.L, lab.A, lab.B}})
		}
		for _, k := range []float32{0.001, 0.008, 0.0088, 0.009, 0.01, 0.18, 0.5, 1.5, 2} {
			m := ciexyz.Color{X: w.X * k, Y: w.Y * k, Z: w.Z * k}
			l2 := emitToLab(c, "grey", m, w)
			if math.Abs(float64(l2.A)) > 2e-3 || math.Abs(float64(l2.B)) > 2e-3 {
				c.direct(fmt.Sprintf("C13/grey/%v", k), "a multiple of the white does not give a* = b* = 0", map[string]interface{}{"k": k, "got": []float32{l2.L, l2.A, l2.B}})
			}
		}
		// dense sweep through the junction on each axis; L* monotone in Y
		n := 200
		if c.thorough() {
			n = 4000
		}
		prevL := float32(-1e9)
		for i := -n; i <= n; i++ {
			ratio := labE + 1e-6*float64(i)/float64(n)
			y := float32(ratio * float64(w.Y))
			col := ciexyz.Color{X: float32(ratio * float64(w.X)), Y: y, Z: float32(ratio * float64(w.Z))}
			l := emitToLab(c, "junction", col, w)
			if l.L < prevL {
				c.direct(fmt.Sprintf("C13/mono/%08x", fb(y)), "L* decreases as Y increases (junction)", map[string]interface{}{"Y": y, "L": l.L, "prev": prevL})
			}
			prevL = l.L
			check("junction1", ciexyz.Color{X: col.X, Y: w.Y * 0.3, Z: w.Z * 0.2}, w)
		}
		prevL = -1e9
		for i := 0; i <= 2000; i++ {
			y := float32(-0.5 + 2.5*float64(i)/2000)
			l := w.Y * 0
			_ = l
			lab := ciexyz.Color{X: w.X * 0.5, Y: y, Z: w.Z * 0.5}.ToLAB(w)
			if lab.L < prevL {
				c.direct(fmt.Sprintf("C13/monoY/%08x", fb(y)), "L* decreases as Y increases", map[string]interface{}{"Y": y, "L": lab.L, "prev": prevL})
			}
			prevL = lab.L
		}
		nr := 400
		if c.thorough() {
			nr = 40000
		}
		for i := 0; i < nr; i++ {
			col := ciexyz.Color{X: float32(-0.5 + 2.5*r.f64()), Y: float32(-0.5 + 2.5*r.f64()), Z: float32(-0.5 + 2.5*r.f64())}
			if i%5 == 0 {
				col = ciexyz.Color{X: float32(r.f64() * 0.02), Y: float32(r.f64() * 0.02), Z: float32(r.f64() * 0.02)}
			}
			check("random", col, w)
		}
		// near-neutral colours: a multiple of the white with one or two components moved by a relative
		// 1e-7 .. 1e-3 (a* and b* are small but not zero; the definition gives their exact size)
		nn := 300
		if c.thorough() {
			nn = 20000
		}
		for i := 0; i < nn; i++ {
			k := float32(0.002 + 1.6*r.f64())
			if i%4 == 0 {
				k = float32(0.002 + 0.02*r.f64()) // around the junction
			}
			col := ciexyz.Color{X: w.X * k, Y: w.Y * k, Z: w.Z * k}
			eps := float32(math.Pow(10, -7+4*r.f64()))
			if r.intn(2) == 0 {
				eps = -eps
			}
			switch r.intn(5) {
			case 0:
				col.X *= 1 + eps
			case 1:
				col.Y *= 1 + eps
			case 2:
				col.Z *= 1 + eps
			case 3:
				col.X *= 1 + eps
				col.Z *= 1 - eps
			default:
				col.X = math.Nextafter32(col.X, 9)
			}
			check("near-neutral", col, w)
		}
		// components that are only just negative (what a float32 matrix product leaves of an exact zero): ratios
		// -1e-9 .. -1e-5 on one or two axes, the others ordinary
		for i := 0; i < 90; i++ {
			col := ciexyz.Color{X: w.X * float32(0.05+1.5*r.f64()), Y: w.Y * float32(0.05+1.5*r.f64()), Z: w.Z * float32(0.05+1.5*r.f64())}
			tiny := func(wc float32) float32 { return -wc * float32(math.Pow(10, -9+4*r.f64())) }
			switch i % 5 {
			case 0:
				col.X = tiny(w.X)
			case 1:
				col.Y = tiny(w.Y)
			case 2:
				col.Z = tiny(w.Z)
			case 3:
				col.X, col.Z = tiny(w.X), tiny(w.Z)
			default:
				col.X, col.Y = tiny(w.X), tiny(w.Y)
			}
			check("just-negative", col, w)
		}
		// coordinates exactly zero (either sign), one or two at a time, the others free; and exact multiples
		negz := float32(math.Copysign(0, -1))
		for i := 0; i < 60; i++ {
			col := ciexyz.Color{X: float32(2 * r.f64()), Y: float32(2 * r.f64()), Z: float32(2 * r.f64())}
			z := float32(0)
			if i%4 == 3 {
				z = negz
			}
			switch i % 7 {
			case 0:
				col.X = z
			case 1:
				col.Y = z
			case 2:
				col.Z = z
			case 3:
				col.X, col.Y = z, z
			case 4:
				col.Y, col.Z = z, z
			case 5:
				col.X, col.Z = z, z
			default:
				col = ciexyz.Color{X: z, Y: z, Z: z}
			}
			check("zero-coordinate", col, w)
		}
		// histories: conversions of colours sharing coordinates with the previous one, other whites in between
		prevc := ciexyz.Color{X: 0.3, Y: 0.3, Z: 0.3}
		for i := 0; i < 120; i++ {
			col := prevc
			switch r.intn(5) {
			case 0:
				col.X = float32(2 * r.f64())
			case 1:
				col.Y = float32(2 * r.f64())
			case 2:
				col.Z = float32(2 * r.f64())
			case 3:
				col = ciexyz.Color{X: col.Y, Y: col.Z, Z: col.X}
			default:
				v := float32(r.f64())
				col = ciexyz.Color{X: v, Y: v, Z: v}
			}
			ww := w
			if i%4 == 3 {
				ww = whites[r.intn(len(whites))]
			}
			check("history", col, ww)
			prevc = col
		}
		// Lab box -> XYZ: finite, and Lab->XYZ->Lab consistency is exercised through the model
		for i := 0; i < nr/2; i++ {
			lab := cielab.Color{L: float32(-10 + 120*r.f64()), A: float32(-200 + 400*r.f64()), B: float32(-200 + 400*r.f64())}
			out := emitFromLab(c, "labbox", lab, w)
			if !finite32(out.X) || !finite32(out.Y) || !finite32(out.Z) {
				c.direct(fmt.Sprintf("C13/finite/%08x", fb(lab.L)), "ColorFromLAB produced NaN or infinity for a finite input", map[string]interface{}{"lab": []float32{lab.L, lab.A, lab.B}})
			}
		}
	}
	// whites of every magnitude: "every positive reference white" includes whites whose components are
	// tiny (down to subnormal float32 values) or huge.  Lab depends on the ratios only, so the white still
	// maps to (100, 0, 0), exact small multiples stay neutral, and colours given relative to the white
	// follow the CIE definition.
	for wi, bw := range whites[:4] {
		for _, e := range []int{-100, -120, -126, -127, -130, -140, -146, 60, 100} {
			sc := float32(math.Ldexp(1, e))
			w := ciexyz.Color{X: bw.X * sc, Y: bw.Y * sc, Z: bw.Z * sc}
			if !(w.X > 0 && w.Y > 0 && w.Z > 0) || !finite32(w.X) || !finite32(w.Y) || !finite32(w.Z) {
				continue
			}
			lab := emitToLab(c, "scaled-white", w, w)
			if lab.L != 100 || lab.A != 0 || lab.B != 0 {
				c.direct(fmt.Sprintf("C13/white-scaled/w%d/2^%d", wi, e), "the reference white does not map to (100, 0, 0) (white with very small or very large components)",
					map[string]interface{}{"white": []float32{w.X, w.Y, w.Z}, "white_bits": []string{fmt.Sprintf("%08x", fb(w.X)), fmt.Sprintf("%08x", fb(w.Y)), fmt.Sprintf("%08x", fb(w.Z))}, "got": []float32{lab.L, lab.A, lab.B}})
			}
			for _, k := range []float32{2, 3, 4} {
				m := ciexyz.Color{X: w.X * k, Y: w.Y * k, Z: w.Z * k}
				l2 := emitToLab(c, "scaled-grey", m, w)
				if math.Abs(float64(l2.A)) > 2e-3 || math.Abs(float64(l2.B)) > 2e-3 {
					c.direct(fmt.Sprintf("C13/grey-scaled/w%d/2^%d/%v", wi, e, k), "a multiple of the white does not give a* = b* = 0 (white with very small or very large components)",
						map[string]interface{}{"k": k, "white": []float32{w.X, w.Y, w.Z}, "got": []float32{l2.L, l2.A, l2.B}})
				}
			}
			for i := 0; i < 12; i++ {
				col := ciexyz.Color{X: w.X * float32(2*r.f64()), Y: w.Y * float32(2*r.f64()), Z: w.Z * float32(2*r.f64())}
				check("scaled-relative", col, w)
			}
		}
	}
	c.extra["worst_accuracy"] = worstAcc
	c.extra["worst_roundtrip"] = worstRT
}

func maxf(a, b, cc float32) float32 {
	if b > a {
		a = b
	}
	if cc > a {
		a = cc
	}
	return a
}

// ---- C20 ------------------------------------------------------------------------------

func safeInverse(m matrix.Matrix3) (o matrix.Matrix3, panicked bool) {
	defer func() {
		if r := recover(); r != nil {
			panicked = true
		}
	}()
	return m.Inverse(), false
}

func m3to64(m matrix.Matrix3) (o [3][3]float64) {
	for col := 0; col < 3; col++ {
		for row := 0; row < 3; row++ {
			o[row][col] = m[col][row]
		}
	}
	return
}

// ~20 published RGB spaces: primaries (x,y) and white
var rgbSpaces = map[string][4][2]float32{
	"sRGB": {{0.64, 0.33}, {0.30, 0.60}, {0.15, 0.06}, {0.3127, 0.3290}}, "Adobe": {{0.64, 0.33}, {0.21, 0.71}, {0.15, 0.06}, {0.3127, 0.3290}},
	"ProPhoto": {{0.734699, 0.265301}, {0.159597, 0.840403}, {0.036598, 0.000105}, {0.34567, 0.35850}}, "P3": {{0.68, 0.32}, {0.265, 0.69}, {0.15, 0.06}, {0.3127, 0.3290}},
	"Rec2020": {{0.708, 0.292}, {0.170, 0.797}, {0.131, 0.046}, {0.3127, 0.3290}}, "NTSC": {{0.67, 0.33}, {0.21, 0.71}, {0.14, 0.08}, {0.31006, 0.31616}},
	"PAL": {{0.64, 0.33}, {0.29, 0.60}, {0.15, 0.06}, {0.3127, 0.3290}}, "SMPTE-C": {{0.63, 0.34}, {0.31, 0.595}, {0.155, 0.07}, {0.3127, 0.3290}},
	"Apple": {{0.625, 0.34}, {0.28, 0.595}, {0.155, 0.07}, {0.3127, 0.3290}}, "ECI": {{0.67, 0.33}, {0.21, 0.71}, {0.14, 0.08}, {0.34567, 0.35850}},
	"WideGamut": {{0.735, 0.265}, {0.115, 0.826}, {0.157, 0.018}, {0.34567, 0.35850}}, "CIE-RGB": {{0.735, 0.265}, {0.274, 0.717}, {0.167, 0.009}, {1.0 / 3, 1.0 / 3}},
	"ColorMatch": {{0.63, 0.34}, {0.295, 0.605}, {0.15, 0.075}, {0.34567, 0.35850}}, "Best": {{0.7347, 0.2653}, {0.215, 0.775}, {0.13, 0.035}, {0.34567, 0.35850}},
	"Beta": {{0.6888, 0.3112}, {0.1986, 0.7551}, {0.1265, 0.0352}, {0.34567, 0.35850}}, "Bruce": {{0.64, 0.33}, {0.28, 0.65}, {0.15, 0.06}, {0.3127, 0.3290}},
	"Don4": {{0.696, 0.3}, {0.215, 0.765}, {0.13, 0.035}, {0.34567, 0.35850}}, "Ekta": {{0.695, 0.305}, {0.26, 0.7}, {0.11, 0.005}, {0.34567, 0.35850}},
	"DCI-P3": {{0.68, 0.32}, {0.265, 0.69}, {0.15, 0.06}, {0.314, 0.351}}, "ACEScg": {{0.713, 0.293}, {0.165, 0.83}, {0.128, 0.044}, {0.32168, 0.33767}},
}

func cond3(a [3][3]float64) float64 {
	n := func(m [3][3]float64) float64 {
		mx := 0.0
		for i := 0; i < 3; i++ {
			s := math.Abs(m[i][0]) + math.Abs(m[i][1]) + math.Abs(m[i][2])
			mx = math.Max(mx, s)
		}
		return mx
	}
	return n(a) * n(inv3(a))
}

func corrC20(c *corrCtx) {
	sfCross(c, 2000)
	r := c.rng
	type tri struct {
		name string
		p    [4][2]float32
		yy   [4]float32 // luminance of each xyY colour (0 = 1)
	}
	var tris []tri
	for n, p := range rgbSpaces {
		tris = append(tris, tri{name: n, p: p})
	}
	// sort for determinism
	for i := 1; i < len(tris); i++ {
		for j := i; j > 0 && tris[j].name < tris[j-1].name; j-- {
			tris[j], tris[j-1] = tris[j-1], tris[j]
		}
	}
	nrand := 200
	if c.thorough() {
		nrand = 20000
	}
	for len(tris) < len(rgbSpaces)+nrand {
		var p [4][2]float32
		for k := 0; k < 3; k++ {
			p[k] = [2]float32{float32(0.01 + 0.75*r.f64()), float32(0.01 + 0.85*r.f64())}
		}
		if len(tris)%5 == 0 {
			// a primary on (almost on) the line of purples / the x axis: y between 1e-7 and 1e-3
			// (ROMM blue has y = 1e-4; the generated matrix has a column that scales like 1/y)
			k := r.intn(3)
			p[k] = [2]float32{float32(0.005 + 0.2*r.f64()), float32(math.Pow(10, -7+4*r.f64()))}
		}
		x1, y1, x2, y2, x3, y3 := float64(p[0][0]), float64(p[0][1]), float64(p[1][0]), float64(p[1][1]), float64(p[2][0]), float64(p[2][1])
		area := 0.5 * math.Abs((x2-x1)*(y3-y1)-(x3-x1)*(y2-y1))
		if area < 0.01 || x1+y1 > 1 || x2+y2 > 1 || x3+y3 > 1 {
			continue
		}
		// white strictly inside: barycentric weights in (0.1, 1)
		a, b := 0.1+0.8*r.f64(), 0.1+0.8*r.f64()
		if a+b > 0.9 {
			continue
		}
		cc := 1 - a - b
		p[3] = [2]float32{float32(a*x1 + b*x2 + cc*x3), float32(a*y1 + b*y2 + cc*y3)}
		t := tri{name: fmt.Sprintf("rand%d", len(tris)), p: p}
		switch len(tris) % 3 {
		case 1: // a white whose luminance is not 1
			t.yy[3] = float32(r.pick(1, 2, 3, 4)) * 0.5
			if r.intn(2) == 0 {
				t.yy[3] = float32(0.2 + 2.8*r.f64())
			}
		case 2: // every luminance free
			for k := range t.yy {
				t.yy[k] = float32(0.2 + 2.8*r.f64())
			}
		}
		if len(tris)%7 == 3 {
			// primaries that carry luminances which happen to add up (in float32, in any order of
			// summation) to the white's: the matrix is still defined by chromaticities and white alone
			switch r.intn(4) {
			case 0:
				t.yy = [4]float32{0.25, 0.5, 0.25, 1}
			case 1:
				t.yy = [4]float32{1, 1, 1, 3}
			case 2:
				t.yy = [4]float32{0.5, 0.5, 1, 2}
			default:
				a, b, cc := float32(0.2126), float32(0.7152), float32(0.0722)
				t.yy = [4]float32{a, b, cc, a + b + cc}
			}
		}
		tris = append(tris, t)
	}
	// histories: the same chromaticities asked for again with other primary luminances (the matrix must
	// not depend on what was asked before), and back
	for i, n := 0, len(rgbSpaces); i < n && i < 8; i++ {
		t := tris[i]
		t.name = t.name + "/again"
		t.yy = [4]float32{0.5, 2, 1.5, 1}
		tris = append(tris, t)
		t.yy = [4]float32{0, 0, 0, 0}
		tris = append(tris, t)
		t.yy = [4]float32{1, 1, 1, float32(0.3 + r.f64())}
		tris = append(tris, t)
	}
	// the published spaces again, with whites of luminance 0.5 and 2
	for i, n := 0, len(rgbSpaces); i < n; i++ {
		for _, y := range []float32{0.5, 2} {
			t := tris[i]
			t.name = fmt.Sprintf("%s/Y=%v", t.name, y)
			t.yy[3] = y
			tris = append(tris, t)
		}
	}
	worst := 0.0
	for _, t := range tris {
		yy := func(k int) float32 {
			if t.yy[k] == 0 {
				return 1
			}
			return t.yy[k]
		}
		col := func(k int) ciexyy.Color { return ciexyy.Color{X: t.p[k][0], Y: t.p[k][1], YY: yy(k)} }
		args := ""
		for k := 0; k < 4; k++ {
			args += fmt.Sprintf(" %08x %08x %08x", fb(t.p[k][0]), fb(t.p[k][1]), fb(yy(k)))
		}
		var to, from matrix.Matrix3
		var pan bool
		func() {
			defer func() {
				if x := recover(); x != nil {
					pan = true
				}
			}()
			to = ciexyz.TransformToXYZForXYYPrimaries(col(0), col(1), col(2), col(3))
			from = ciexyz.TransformFromXYZForXYYPrimaries(col(0), col(1), col(2), col(3))
		}()
		if pan {
			c.emit("primaries", "primaries to"+args, "panic")
			c.direct("C20/primaries-panic/"+t.name, "generating matrices for a non-degenerate triangle panics", map[string]interface{}{"p": t.p})
			continue
		}
		c.emit("primaries/to", "primaries to"+args, m3hex(to))
		c.emit("primaries/from", "primaries from"+args, m3hex(from))
		T, F := m3to64(to), m3to64(from)
		var prim [3][2]float64
		for k := 0; k < 3; k++ {
			prim[k] = [2]float64{float64(t.p[k][0]), float64(t.p[k][1])}
		}
		ref := refMatrix(prim, [2]float64{float64(t.p[3][0]), float64(t.p[3][1])})
		cd := cond3(ref)
		tol := 1e-9 * cd
		// float32 inputs are converted to XYZ in float32 by ColorFromXYY: the reference takes the same float32 XYZ
		// (the property compares "within 1e-9 times the condition number" for the inverse product)
		if d := maxAbsDiff(mul3(F, T), ident3); d > tol {
			c.direct("C20/inverse/"+t.name, "generated XYZ->RGB matrix is not the inverse of the RGB->XYZ matrix within 1e-9 x condition number", map[string]interface{}{"p": t.p, "diff": d, "cond": cd})
		} else if d/cd > worst {
			worst = d / cd
		}
		w := mulv3(T, [3]float64{1, 1, 1})
		wz := ciexyz.ColorFromXYY(col(3))
		wsc := math.Max(1, float64(wz.Y))
		if math.Abs(w[0]-float64(wz.X)) > 1e-6*cd*wsc || math.Abs(w[1]-float64(wz.Y)) > 1e-6*cd*wsc || math.Abs(w[2]-float64(wz.Z)) > 1e-6*cd*wsc {
			c.direct("C20/white/"+t.name, "generated matrix does not map (1,1,1) to the white point's XYZ", map[string]interface{}{"p": t.p, "got": w, "want": []float32{wz.X, wz.Y, wz.Z}})
		}
		for k := 0; k < 3; k++ {
			var e [3]float64
			e[k] = 1
			v := mulv3(T, e)
			s := v[0] + v[1] + v[2]
			if math.Abs(v[0]/s-prim[k][0]) > 1e-6 || math.Abs(v[1]/s-prim[k][1]) > 1e-6 {
				c.direct(fmt.Sprintf("C20/primary/%s/%d", t.name, k), "unit primary does not map to a colour of its chromaticity", map[string]interface{}{"p": t.p, "k": k, "x": v[0] / s, "y": v[1] / s})
			}
		}
	}
	c.extra["worst_inverse_error_over_cond"] = worst
	// 3x3 algebra on random matrices with entries in [-4,4], |det| >= 1e-3
	nm := 300
	if c.thorough() {
		nm = 30000
	}
	rm := func() matrix.Matrix3 {
		var m matrix.Matrix3
		for i := 0; i < 3; i++ {
			for j := 0; j < 3; j++ {
				m[i][j] = -4 + 8*r.f64()
			}
		}
		return m
	}
	mhex := func(m matrix.Matrix3) string { return m3hex(m) }
	for i := 0; i < nm; i++ {
		m := rm()
		M := m3to64(m)
		det := M[0][0]*(M[1][1]*M[2][2]-M[1][2]*M[2][1]) - M[0][1]*(M[1][0]*M[2][2]-M[1][2]*M[2][0]) + M[0][2]*(M[1][0]*M[2][1]-M[1][1]*M[2][0])
		if math.Abs(det) < 1e-3 {
			continue
		}
		inv, pan := safeInverse(m)
		if pan {
			c.emit("inv", "m3inv "+mhex(m), "panic")
			c.direct(fmt.Sprintf("C20/inv-panic/%d", i), "Inverse panics on an invertible matrix", map[string]interface{}{"det": det})
			continue
		}
		c.emit("inv", "m3inv "+mhex(m), mhex(canonNaN64(inv)))
		cd := cond3(M)
		if d := maxAbsDiff(m3to64(inv), inv3(M)); d > 1e-9*cd {
			c.direct(fmt.Sprintf("C20/inv/%d", i), "Inverse differs from the independent float64 inverse", map[string]interface{}{"diff": d, "cond": cd})
		}
		o := rm()
		pm := m.MulM(o)
		c.emit("mulm", "m3mulm "+mhex(m)+" "+mhex(o), mhex(pm))
		if d := maxAbsDiff(m3to64(pm), mul3(M, m3to64(o))); d > 1e-12*100 {
			c.direct(fmt.Sprintf("C20/mulm/%d", i), "MulM differs from the independent matrix product", map[string]interface{}{"diff": d})
		}
		v := matrix.Vector3{-4 + 8*r.f64(), -4 + 8*r.f64(), -4 + 8*r.f64()}
		pv := m.MulV(v)
		c.emit("mulv", fmt.Sprintf("m3mulv %s %016x %016x %016x", mhex(m), math.Float64bits(v[0]), math.Float64bits(v[1]), math.Float64bits(v[2])),
			fmt.Sprintf("%016x %016x %016x", math.Float64bits(pv[0]), math.Float64bits(pv[1]), math.Float64bits(pv[2])))
		wv := mulv3(M, [3]float64{v[0], v[1], v[2]})
		if math.Abs(pv[0]-wv[0]) > 1e-12 || math.Abs(pv[1]-wv[1]) > 1e-12 || math.Abs(pv[2]-wv[2]) > 1e-12 {
			c.direct(fmt.Sprintf("C20/mulv/%d", i), "MulV differs from the independent matrix-vector product", nil)
		}
		tr := m.Transpose()
		c.emit("transpose", "m3t "+mhex(m), mhex(tr))
		if tr.Transpose() != m {
			c.direct(fmt.Sprintf("C20/transpose/%d", i), "Transpose is not an involution", nil)
		}
	}
	// structured operands: every pattern of exact zeros (all 512) on either side of MulM and under
	// MulV / Transpose / Inverse, with entries that are exactly 0, ±1 or random
	for pat := 0; pat < 512; pat++ {
		sp := func() matrix.Matrix3 {
			var m matrix.Matrix3
			for i := 0; i < 3; i++ {
				for j := 0; j < 3; j++ {
					if pat>>(uint(3*i+j))&1 == 1 {
						switch r.intn(4) {
						case 0:
							m[i][j] = 1
						case 1:
							m[i][j] = -1
						default:
							m[i][j] = -4 + 8*r.f64()
						}
					}
				}
			}
			return m
		}
		for side := 0; side < 2; side++ {
			m, o := rm(), sp()
			if side == 1 {
				m, o = sp(), rm()
			}
			if pat%7 == 0 {
				m = sp()
			}
			pm := m.MulM(o)
			c.emit("mulm-sparse", "m3mulm "+mhex(m)+" "+mhex(o), mhex(pm))
			if d := maxAbsDiff(m3to64(pm), mul3(m3to64(m), m3to64(o))); d > 1e-12*100 {
				c.direct(fmt.Sprintf("C20/mulm-sparse/%03x/%d", pat, side), "MulM differs from the independent matrix product on an operand with exact zeros",
					map[string]interface{}{"zero_pattern": pat, "m": mhex(m), "o": mhex(o), "diff": d})
			}
		}
		m := sp()
		v := matrix.Vector3{-4 + 8*r.f64(), -4 + 8*r.f64(), -4 + 8*r.f64()}
		if pat%3 == 0 {
			v[r.intn(3)] = 0
		}
		pv := m.MulV(v)
		c.emit("mulv-sparse", fmt.Sprintf("m3mulv %s %016x %016x %016x", mhex(m), math.Float64bits(v[0]), math.Float64bits(v[1]), math.Float64bits(v[2])),
			fmt.Sprintf("%016x %016x %016x", math.Float64bits(pv[0]), math.Float64bits(pv[1]), math.Float64bits(pv[2])))
		wv := mulv3(m3to64(m), [3]float64{v[0], v[1], v[2]})
		if math.Abs(pv[0]-wv[0]) > 1e-12 || math.Abs(pv[1]-wv[1]) > 1e-12 || math.Abs(pv[2]-wv[2]) > 1e-12 {
			c.direct(fmt.Sprintf("C20/mulv-sparse/%03x", pat), "MulV differs from the independent matrix-vector product on a matrix with exact zeros", map[string]interface{}{"m": mhex(m)})
		}
		c.emit("transpose-sparse", "m3t "+mhex(m), mhex(m.Transpose()))
		M := m3to64(m)
		det := M[0][0]*(M[1][1]*M[2][2]-M[1][2]*M[2][1]) - M[0][1]*(M[1][0]*M[2][2]-M[1][2]*M[2][0]) + M[0][2]*(M[1][0]*M[2][1]-M[1][1]*M[2][0])
		if math.Abs(det) >= 1e-3 {
			inv, pan := safeInverse(m)
			if pan {
				c.emit("inv-sparse", "m3inv "+mhex(m), "panic")
				c.direct(fmt.Sprintf("C20/inv-panic-sparse/%03x", pat), "Inverse panics on an invertible matrix", map[string]interface{}{"m": mhex(m), "det": det})
			} else {
				c.emit("inv-sparse", "m3inv "+mhex(m), mhex(canonNaN64(inv)))
				if d := maxAbsDiff(m3to64(inv), inv3(M)); d > 1e-9*cond3(M) {
					c.direct(fmt.Sprintf("C20/inv-sparse/%03x", pat), "Inverse differs from the independent float64 inverse", map[string]interface{}{"m": mhex(m), "diff": d})
				}
				// the product with the inverse is the identity
				if d := maxAbsDiff(m3to64(m.MulM(inv)), ident3); d > 1e-9*cond3(M) {
					c.direct(fmt.Sprintf("C20/inv-product-sparse/%03x", pat), "m x Inverse(m) is not the identity within 1e-9 x condition number", map[string]interface{}{"m": mhex(m), "diff": d})
				}
			}
		}
	}
	// exactly singular matrices: repeated or zero columns (any float content)
	for i := 0; i < nm; i++ {
		m := rm()
		if i%3 == 0 {
			for k := 0; k < 3; k++ {
				for j := 0; j < 3; j++ {
					m[k][j] = math.Float64frombits(r.next()&0x7fefffffffffffff | r.next()&(1<<63))
					if math.IsNaN(m[k][j]) || math.IsInf(m[k][j], 0) || math.Abs(m[k][j]) > 1e100 || (m[k][j] != 0 && math.Abs(m[k][j]) < 1e-100) {
						m[k][j] = -4 + 8*r.f64()
					}
				}
			}
		}
		switch r.intn(6) {
		case 0:
			m[1] = m[0]
		case 1:
			m[2] = m[0]
		case 2:
			m[2] = m[1]
		case 3:
			m[0] = matrix.Vector3{}
		case 4:
			m[1] = matrix.Vector3{}
		default:
			m[2] = matrix.Vector3{}
		}
		inv, pan := safeInverse(m)
		out := "panic"
		if !pan {
			out = mhex(canonNaN64(inv))
			c.direct(fmt.Sprintf("C20/singular/%d", i), "inverting an exactly singular matrix returns a matrix instead of panicking", map[string]interface{}{"m": mhex(m)})
		}
		c.emit("singular", "m3inv "+mhex(m), out)
	}
}
