import Prism.Model.Util
import Prism.Model.Color
import Prism.Check.C01
import Prism.Driver.BytesOps
import Prism.Driver.FloatOps
import Prism.Driver.ImageOps

/-!
# Model driver: one operation per input line, one canonical answer per output line.
The Go harness runs the real prism code on the same operations; the check diffs the streams.
-/

open Prism SF

def fmtOf? : String → Option Fmt
  | "32" => some b32
  | "64" => some b64
  | _ => none

def sfBin (f : Fmt) (op : String) (a b : Nat) : Option String :=
  let d := if f.M == 23 then 8 else 16
  match op with
  | "add" => some (toHex (SF.add f a b) d)
  | "sub" => some (toHex (SF.sub f a b) d)
  | "mul" => some (toHex (SF.mul f a b) d)
  | "div" => some (toHex (SF.div f a b) d)
  | "lt" => some (if SF.lt f a b then "1" else "0")
  | "le" => some (if SF.le f a b then "1" else "0")
  | "eq" => some (if SF.eq f a b then "1" else "0")
  | _ => none

def pxStr (p : Px) : String := s!"{toHex p.r 4} {toHex p.g 4} {toHex p.b 4} {toHex p.a 4}"
def linStr (c : Lin × Nat) : String := s!"{toHex c.1.r 8} {toHex c.1.g 8} {toHex c.1.b 8} {toHex c.2 8}"

/-- sentinels held in the channels not being swept (distinct, so a swapped channel shows) -/
def sent8 : Nat → Nat | 0 => 0x33 | 1 => 0x77 | _ => 0xc4
def sent16 : Nat → Nat | 0 => 0x3355 | 1 => 0x7711 | _ => 0xc4d2

def setCh (ch : Nat) (c : Nat) (sent : Nat → Nat) : Nat × Nat × Nat :=
  (if ch == 0 then c else sent 0, if ch == 1 then c else sent 1, if ch == 2 then c else sent 2)

/-- C01: one decode entry point on one code; returns the words that enter the hash -/
def c01Case (s : Space) (entry : String) (ch c : Nat) : List Nat :=
  match entry with
  | "from8" => [dec8 s c]
  | "from16" => [dec16 s c]
  | "nrgba" =>
    let (r, g, b) := setCh ch c sent8
    let (l, a) := fromNRGBA s r g b 255
    [l.r, l.g, l.b, a]
  | "rgba" =>
    let (r, g, b) := setCh ch c sent8
    let (l, a) := fromRGBA s r g b 255
    [l.r, l.g, l.b, a]
  | "enc" =>
    let (r, g, b) := setCh ch c sent16
    let (l, a) := fromEncoded s r g b 65535
    [l.r, l.g, l.b, a]
  | "lin" =>
    let (r, g, b) := setCh ch c sent16
    let p := lineariseColor s r g b 65535
    [p.r, p.g, p.b, p.a]
  | _ => []

def c01Range (s : Space) (entry : String) (ch lo hi : Nat) : UInt64 := Id.run do
  let mut h := fnvInit
  for c in [lo:hi] do
    for w in c01Case s entry ch c do
      h := fnvWord h w
  return h

def handle (toks : List String) : String :=
  match Ops.handleBytes toks with
  | some r => r
  | none =>
  match Ops.handleFloat toks with
  | some r => r
  | none =>
  match Ops.handleImage toks with
  | some r => r
  | none =>
  match toks with
  | ["sf", fs, op, a, b] =>
    match fmtOf? fs, parseHex? a, parseHex? b with
    | some f, some a, some b => (sfBin f op a b).getD "bad-op"
    | _, _, _ => "bad-op"
  | ["sfcvt", dir, a] =>
    match parseHex? a with
    | some a => if dir == "32to64" then toHex (SF.cvt b32 b64 a) 16
                else if dir == "64to32" then toHex (SF.cvt b64 b32 a) 8 else "bad-op"
    | none => "bad-op"
  | ["sfofnat", fs, n] =>
    match fmtOf? fs, parseHex? n with
    | some f, some n => toHex (SF.ofNat f n) (if f.M == 23 then 8 else 16)
    | _, _ => "bad-op"
  | ["c01", sp, entry, ch, lo, hi] =>
    match Space.ofName? sp, parseHex? ch, parseHex? lo, parseHex? hi with
    | some s, some ch, some lo, some hi => toHex (c01Range s entry ch lo hi).toNat 16
    | _, _, _, _ => "bad-op"
  | ["c01x", sp, entry, ch, c] =>
    match Space.ofName? sp, parseHex? ch, parseHex? c with
    | some s, some ch, some c => " ".intercalate ((c01Case s entry ch c).map (toHex · 8))
    | _, _, _ => "bad-op"
  | ["c01fail", sp, w] =>
    match Space.ofName? sp with
    | some s =>
      let r := if w == "8" then firstFail (dec8EntryOk s) 0 256 else firstFail (dec16EntryOk s) 0 65536
      let e := endpointsOk s
      match r with
      | some c => s!"fail {c} endpoints={e}"
      | none => s!"none endpoints={e}"
    | none => "bad-op"
  | _ => "bad-op"

partial def loop (h : IO.FS.Stream) (out : IO.FS.Stream) : IO Unit := do
  let line ← h.getLine
  if line.isEmpty then return ()
  let toks := (line.trimAscii.toString.splitOn " ").filter (· ≠ "")
  out.putStrLn (handle toks)
  out.flush
  loop h out

def main : IO Unit := do
  let stdin ← IO.getStdin
  let stdout ← IO.getStdout
  loop stdin stdout
