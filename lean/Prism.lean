-- This module serves as the root of the `Prism` library.
-- Import modules here that should be built as part of the library.
import Prism.Basic
