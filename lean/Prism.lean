-- Root of the `Prism` library: every module that `lake build Prism` must check.
import Prism.Float.SF
import Prism.Model.Tables
import Prism.Model.Color
import Prism.Model.Util
import Prism.Check.C01
import Prism.Spec.Curves
import Prism.Proofs.C01
