import Prism.Proofs.C01

#print axioms Prism.C01_dec16_accurate
#print axioms Prism.C01_dec8_accurate
#print axioms Prism.C01_endpoints
#print axioms Prism.C01_strict_mono16
#print axioms Prism.C01_dec8_eq_dec16
#print axioms Prism.C01_strict_mono8
