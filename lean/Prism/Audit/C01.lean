import Prism.Proofs.C01
open Prism
#print axioms C01_dec16_accurate
#print axioms C01_dec8_accurate
#print axioms C01_endpoints
#print axioms C01_strict_mono16
#print axioms C01_strict_mono8
#print axioms C01_dec8_eq_dec16
