import Prism.Proofs.C02

#print axioms Prism.C02_enc16_mono
#print axioms Prism.C02_enc8_mono
#print axioms Prism.C02_clip_low
#print axioms Prism.C02_clip_high
#print axioms Prism.C02_nan
#print axioms Prism.C02_encoder_factors
#print axioms Prism.C02_encoder_mono_of_index
#print axioms Prism.C02_probe16
