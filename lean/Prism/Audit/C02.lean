import Prism.Proofs.C02
import Prism.Proofs.C02Acc
import Prism.Proofs.C02Mono

#print axioms Prism.C02_enc16_mono
#print axioms Prism.C02_enc8_mono
#print axioms Prism.C02_clip_low
#print axioms Prism.C02_clip_high
#print axioms Prism.C02_nan
#print axioms Prism.C02_encoder_factors
#print axioms Prism.C02_encoder_mono_of_index
#print axioms Prism.C02_probe16
#print axioms Prism.C02_accuracy16
#print axioms Prism.C02_accuracy8
#print axioms Prism.C02_quant_accuracy
#print axioms Prism.C02_quant_range
#print axioms Prism.C02_quant_mono
#print axioms Prism.C02_encoder_mono
#print axioms Prism.C02_encoder_range
