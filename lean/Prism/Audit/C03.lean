import Prism.Proofs.C03
import Prism.Proofs.C03Float

#print axioms Prism.C03_chromaticities_published
#print axioms Prism.C03_coefficients
#print axioms Prism.C03_inverse_and_white
#print axioms Prism.C03_toXYZ_is_matrix
#print axioms Prism.C03_fromXYZ_is_matrix
#print axioms Prism.C03_roundtrip_rgb
#print axioms Prism.C03_roundtrip_rgb_unit
#print axioms Prism.C03_roundtrip_xyz
#print axioms Prism.C03_toXYZ_float
#print axioms Prism.C03_fromXYZ_float
