import Prism.Proofs.C03

#print axioms Prism.C03_chromaticities_published
#print axioms Prism.C03_coefficients
#print axioms Prism.C03_inverse_and_white
#print axioms Prism.C03_toXYZ_is_matrix
#print axioms Prism.C03_fromXYZ_is_matrix
