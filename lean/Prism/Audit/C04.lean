import Prism.Proofs.C04

#print axioms Prism.C04_linear_part_matches_reference
#print axioms Prism.C04_adaptation_matrices
#print axioms Prism.C04_alpha
#print axioms Prism.C04_same_space_no_adaptation
