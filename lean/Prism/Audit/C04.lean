import Prism.Proofs.C04
import Prism.Proofs.C04Code
import Prism.Proofs.C04Compose
import Prism.Proofs.C04Float

#print axioms Prism.C04_linear_part_matches_reference
#print axioms Prism.C04_adaptation_matrices
#print axioms Prism.C04_alpha
#print axioms Prism.C04_same_space_no_adaptation
#print axioms Prism.C04_value_fin
#print axioms Prism.C04_code_accuracy
#print axioms Prism.C04_value_at_encoder
#print axioms Prism.C04_pipeline_linear
#print axioms Prism.C04_same_space_reference
