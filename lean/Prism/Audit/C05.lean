import Prism.Proofs.C05
import Prism.Proofs.C05Chunks
import Prism.Proofs.C06Stream
import Prism.Proofs.C06Webp

#print axioms Prism.C05_png
#print axioms Prism.C05_jpeg
#print axioms Prism.C05_webp_vp8
#print axioms Prism.C05_vp8_field
#print axioms Prism.C05_webp_vp8l
#print axioms Prism.C05_vp8l_fields
#print axioms Prism.C05_webp_vp8x
#print axioms Prism.Png.C05_png_any_ancillary
#print axioms Prism.Png.C05_png_any_ancillary_pure
#print axioms Prism.Jpeg.C05_jpeg_any_segments
#print axioms Prism.Jpeg.C05_jpeg_any_segments_pure
#print axioms Prism.Webp.C05_webp_vp8x_any_flags
