import Prism.Proofs.C05

#print axioms Prism.C05_png
#print axioms Prism.C05_jpeg
#print axioms Prism.C05_webp_vp8
#print axioms Prism.C05_vp8_field
#print axioms Prism.C05_webp_vp8l
#print axioms Prism.C05_vp8l_fields
#print axioms Prism.C05_webp_vp8x
