import Prism.Proofs.C06
import Prism.Proofs.C06Png
import Prism.Proofs.C06Stream
import Prism.Proofs.C06Webp

#print axioms Prism.Jpeg.C06_jpeg_reassembly
#print axioms Prism.Jpeg.C06_jpeg_finish_complete
#print axioms Prism.Jpeg.C06_jpeg_error_sticks
#print axioms Prism.Jpeg.C06_jpeg_incomplete
#print axioms Prism.Jpeg.C06_jpeg_inconsistent_total
#print axioms Prism.Png.C06_png_iccp
#print axioms Prism.Png.C06_png_iccp_corrupt
#print axioms Prism.Jpeg.C06_jpeg_stream_incomplete
#print axioms Prism.Jpeg.C06_jpeg_stream
#print axioms Prism.Jpeg.C06_jpeg_stream_pure
#print axioms Prism.Webp.C06_webp_iccp
#print axioms Prism.Webp.C06_webp_iccp_missing
