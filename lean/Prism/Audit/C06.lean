import Prism.Proofs.C06
import Prism.Proofs.C06Stream

#print axioms Prism.Jpeg.C06_jpeg_reassembly
#print axioms Prism.Jpeg.C06_jpeg_finish_complete
#print axioms Prism.Jpeg.C06_jpeg_error_sticks
#print axioms Prism.Jpeg.C06_jpeg_incomplete
#print axioms Prism.Jpeg.C06_jpeg_inconsistent_total
#print axioms Prism.Jpeg.C06_jpeg_stream
#print axioms Prism.Jpeg.C06_jpeg_stream_pure
