import Prism.Proofs.C07
import Prism.Proofs.C07Seg

#print axioms Prism.C07_replay
#print axioms Prism.C07_drain
#print axioms Prism.C07_png
#print axioms Prism.C07_jpeg
#print axioms Prism.C07_webp
#print axioms Prism.C07_auto
#print axioms Prism.C07_any_segmentation
#print axioms Prism.C07_any_segmentation_complete
