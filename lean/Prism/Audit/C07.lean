import Prism.Proofs.C07
open Prism
#print axioms C07_replay
#print axioms C07_drain
#print axioms C07_png
#print axioms C07_jpeg
#print axioms C07_webp
#print axioms C07_auto
