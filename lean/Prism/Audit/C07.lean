import Prism.Proofs.C07

#print axioms Prism.C07_replay
#print axioms Prism.C07_drain
#print axioms Prism.C07_png
#print axioms Prism.C07_jpeg
#print axioms Prism.C07_webp
#print axioms Prism.C07_auto
