import Prism.Proofs.C08
open Prism
#print axioms C08_schedule_independent
#print axioms C08_sources
#print axioms C08_functional
#print axioms C08_png
#print axioms C08_jpeg
#print axioms C08_webp
#print axioms C08_icc
#print axioms C08_auto
