import Prism.Proofs.C08

#print axioms Prism.C08_schedule_independent
#print axioms Prism.C08_sources
#print axioms Prism.C08_functional
#print axioms Prism.C08_png
#print axioms Prism.C08_jpeg
#print axioms Prism.C08_webp
#print axioms Prism.C08_icc
#print axioms Prism.C08_auto
