import Prism.Proofs.C09
import Prism.Proofs.C09Alloc
import Prism.Proofs.C09AllocPng
import Prism.Proofs.C09Cost
import Prism.Proofs.C09Desc
import Prism.Proofs.C09Fuel
import Prism.Proofs.C09FuelIndep

#print axioms Prism.C09_consumed_le
#print axioms Prism.C09_alloc_lazy
#print axioms Prism.C09_alloc_eager
#print axioms Prism.C09_jpeg_segment_bounded
#print axioms Prism.C09_mluc_wrap_is_error
#print axioms Prism.C09_zero_tag_profile_alloc
#print axioms Prism.C09_webp_alloc_linear
#print axioms Prism.C09_jpeg_alloc_linear
#print axioms Prism.C09_icc_alloc_linear
#print axioms Prism.C09_png_inflated
#print axioms Prism.C09_png_alloc_linear
#print axioms Prism.C09_png_steps
#print axioms Prism.C09_webp_steps
#print axioms Prism.C09_jpeg_steps
#print axioms Prism.C09_icc_steps
#print axioms Prism.C09_png_alloc
#print axioms Prism.C09_jpeg_alloc
#print axioms Prism.C09_webp_alloc
#print axioms Prism.C09_icc_alloc
#print axioms Prism.Icc.C09_description_bounded
#print axioms Prism.C09_png_fuel_suffices
#print axioms Prism.C09_jpeg_fuel_suffices
#print axioms Prism.C09_driver_fuel_suffices
#print axioms Prism.C09_png_fuel_irrelevant
#print axioms Prism.C09_jpeg_fuel_irrelevant
