import Prism.Proofs.C10

#print axioms Prism.Img.C10_order_independent
#print axioms Prism.Img.C10_frame
#print axioms Prism.Img.C10_pointwise
#print axioms Prism.Img.C10_rows_partition
#print axioms Prism.Img.C10_row_has_worker
#print axioms Prism.Img.C10_worker_rows_nodup
