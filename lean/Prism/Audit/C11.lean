import Prism.Proofs.C11

#print axioms Prism.Race.C11_summary_ok
#print axioms Prism.Race.C11_no_shared_writes_in_workers
#print axioms Prism.Race.C11_guarded_reads_ordered
#print axioms Prism.Race.C11_fastpath_race
