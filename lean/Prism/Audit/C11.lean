import Prism.Proofs.C11
import Prism.Proofs.C11Fork
import Prism.Proofs.C11Rows

#print axioms Prism.Race.C11_summary_ok
#print axioms Prism.Race.C11_no_shared_writes_in_workers
#print axioms Prism.Race.C11_guarded_reads_ordered
#print axioms Prism.Race.C11_fastpath_race
#print axioms Prism.ForkJoin.C11_forkjoin_all_work_before_return
#print axioms Prism.ForkJoin.C11_add_inside_goroutine_returns_early
#print axioms Prism.ForkJoin.C11_concurrency_surface
#print axioms Prism.ForkJoin.C11_every_row_written_before_return
