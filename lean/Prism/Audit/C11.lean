import Prism.Proofs.C11
open Prism.Race
#print axioms C11_summary_ok
#print axioms C11_no_shared_writes_in_workers
#print axioms C11_guarded_reads_ordered
#print axioms C11_fastpath_race
