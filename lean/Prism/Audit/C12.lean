import Prism.Proofs.C12
import Prism.Proofs.C12Box
import Prism.Proofs.C12Float
import Prism.Proofs.C12Xyy

#print axioms Prism.Alg.C12_white_to_white
#print axioms Prism.Alg.C12_identity
#print axioms Prism.Alg.C12_compose
#print axioms Prism.Alg.C12_inverse
#print axioms Prism.Alg.C12_linear
#print axioms Prism.C12_adapt_float_box
#print axioms Prism.C12_apply_float_box
#print axioms Prism.C12_white_to_white_float
#print axioms Prism.C12_exact_laws
#print axioms Prism.C12_identity_float_box
#print axioms Prism.C12_apply_float_D65_D50
#print axioms Prism.C12_apply_float_D50_D65
#print axioms Prism.C12_exact_white_to_white
#print axioms Prism.C12_xyy_is_xyz
#print axioms Prism.C12_adapt_xyy_region
