import Prism.Proofs.C12

#print axioms Prism.Alg.C12_white_to_white
#print axioms Prism.Alg.C12_identity
#print axioms Prism.Alg.C12_compose
#print axioms Prism.Alg.C12_inverse
#print axioms Prism.Alg.C12_linear
