import Prism.Proofs.C13
import Prism.Proofs.C13Float
import Prism.Proofs.C13FloatInv

#print axioms Prism.Lab.C13_junction
#print axioms Prism.Lab.C13_white
#print axioms Prism.Lab.C13_grey
#print axioms Prism.Lab.C13_L_mono
#print axioms Prism.Lab.C13_finv_f
#print axioms Prism.Lab.C13_f_finv
#print axioms Prism.C13_toLAB_float
#print axioms Prism.C13_toLAB_within_1e3
#print axioms Prism.C13_fromLAB_float
#print axioms Prism.C13_roundtrip_float
