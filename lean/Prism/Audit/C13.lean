import Prism.Proofs.C13

#print axioms Prism.Lab.C13_junction
#print axioms Prism.Lab.C13_white
#print axioms Prism.Lab.C13_grey
#print axioms Prism.Lab.C13_L_mono
#print axioms Prism.Lab.C13_finv_f
#print axioms Prism.Lab.C13_f_finv
