import Prism.Proofs.C14

#print axioms Prism.C14_alpha16_roundtrip
#print axioms Prism.C14_alpha8_roundtrip
#print axioms Prism.C14_linearise_alpha
#print axioms Prism.C14_encode_alpha
#print axioms Prism.C14_transparent
#print axioms Prism.C14_transparent_pixel
#print axioms Prism.C14_decode_alpha
#print axioms Prism.C14_encode_alpha_clamps
