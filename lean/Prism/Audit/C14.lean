import Prism.Proofs.C14
import Prism.Proofs.C14Premul

#print axioms Prism.C14_alpha16_roundtrip
#print axioms Prism.C14_alpha8_roundtrip
#print axioms Prism.C14_linearise_alpha
#print axioms Prism.C14_encode_alpha
#print axioms Prism.C14_transparent
#print axioms Prism.C14_transparent_pixel
#print axioms Prism.C14_decode_alpha
#print axioms Prism.C14_encode_alpha_clamps
#print axioms Prism.C14_premultiplied_valid
#print axioms Prism.C14_opaque_constructors
