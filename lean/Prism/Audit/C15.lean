import Prism.Proofs.C15

#print axioms Prism.Img.C15_rgba64_to_rgba
#print axioms Prism.Img.C15_rgba_to_rgba64
#print axioms Prism.Img.C15_ycbcr_8_is_high_byte_of_16
#print axioms Prism.Img.C15_ycbcr_nrgba
#print axioms Prism.Img.C15_nrgba_opaque
#print axioms Prism.Img.C15_nrgba_transparent
#print axioms Prism.Img.C15_draw_nrgba_is_model_on_valid
#print axioms Prism.Img.C15_draw_nrgba_keeps_colour_at_alpha_zero
