import Prism.Proofs.C16
import Prism.Proofs.C16Date

#print axioms Prism.Icc.C16_header_fields
#print axioms Prism.Icc.C16_attributes_is_be64
#print axioms Prism.Icc.C16_flag_bits
#print axioms Prism.Icc.C16_version_string
#print axioms Prism.Icc.C16_bad_signature_rejected
#print axioms Prism.Icc.C16_epoch
#print axioms Prism.Icc.C16_month_step
#print axioms Prism.Icc.C16_year_step
#print axioms Prism.Icc.C16_created_at_linear
