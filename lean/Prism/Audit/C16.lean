import Prism.Proofs.C16
open Prism.Icc
#print axioms C16_header_fields
#print axioms C16_attributes_is_be64
#print axioms C16_flag_bits
#print axioms C16_version_string
#print axioms C16_bad_signature_rejected
