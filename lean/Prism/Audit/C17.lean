import Prism.Proofs.C17

#print axioms Prism.Icc.C17_desc_by_signature
#print axioms Prism.Icc.C17_tag_slice
#print axioms Prism.Icc.C17_ascii
#print axioms Prism.Icc.C17_mluc_offsets
#print axioms Prism.Icc.C17_utf16_bmp
#print axioms Prism.Icc.C17_utf16_pair
#print axioms Prism.Icc.C17_english_single
