import Prism.Proofs.C17
import Prism.Proofs.C17Profile
import Prism.Proofs.C17Text
import Prism.Proofs.C17Utf8

#print axioms Prism.Icc.C17_desc_by_signature
#print axioms Prism.Icc.C17_tag_slice
#print axioms Prism.Icc.C17_ascii
#print axioms Prism.Icc.C17_mluc_offsets
#print axioms Prism.Icc.C17_utf16_bmp
#print axioms Prism.Icc.C17_utf16_pair
#print axioms Prism.Icc.C17_english_single
#print axioms Prism.Icc.C17_read_tag_table
#print axioms Prism.Icc.C17_read_profile
#print axioms Prism.Icc.C17_profile_description
#print axioms Prism.Icc.C17_utf16_roundtrip
#print axioms Prism.Icc.C17_units_of_be
#print axioms Prism.Icc.C17_text_roundtrip
#print axioms Prism.Icc.C17_utf8_roundtrip
#print axioms Prism.Icc.C17_utf8_length
