import Prism.Proofs.C18
open Prism
#print axioms C18_pulled_bound
#print axioms C18_within_64k
#print axioms C18_bufsize_matches_code
#print axioms C18_result_is_functional
