import Prism.Proofs.C18
import Prism.Proofs.C18Body
import Prism.Proofs.C18BodyJpeg
import Prism.Proofs.C18BodyPngIcc
import Prism.Proofs.C18BodyWebp

#print axioms Prism.C18_pulled_bound
#print axioms Prism.C18_within_64k
#print axioms Prism.C18_bufsize_matches_code
#print axioms Prism.C18_result_is_functional
#print axioms Prism.C18_auto_chain
#print axioms Prism.C18_auto_within_64k
#print axioms Prism.Png.C18_png_body_unread
#print axioms Prism.Jpeg.C18_jpeg_body_unread
#print axioms Prism.Png.C18_png_icc_body_unread
#print axioms Prism.Webp.C18_webp_vp8_body_unread
#print axioms Prism.Webp.C18_webp_vp8l_body_unread
#print axioms Prism.Webp.C18_webp_vp8x_body_unread
#print axioms Prism.Webp.C18_webp_iccp_body_unread
