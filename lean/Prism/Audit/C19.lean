import Prism.Proofs.C19

#print axioms Prism.C19_auto
#print axioms Prism.C19_none
#print axioms Prism.C19_matches_specific
