import Prism.Proofs.C19
import Prism.Proofs.C19Specific
import Prism.Proofs.C19Unique

#print axioms Prism.C19_auto
#print axioms Prism.C19_none
#print axioms Prism.C19_matches_specific
#print axioms Prism.C19_matches_jpeg
#print axioms Prism.C19_matches_webp
#print axioms Prism.C19_all_fail
#print axioms Prism.C19_at_most_one_format
