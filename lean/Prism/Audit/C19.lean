import Prism.Proofs.C19
import Prism.Proofs.C19Specific

#print axioms Prism.C19_auto
#print axioms Prism.C19_none
#print axioms Prism.C19_matches_specific
#print axioms Prism.C19_matches_jpeg
#print axioms Prism.C19_matches_webp
#print axioms Prism.C19_all_fail
