import Prism.Proofs.C19
open Prism
#print axioms C19_auto
#print axioms C19_none
#print axioms C19_matches_specific
