import Prism.Proofs.C20
import Prism.Proofs.C20Box
import Prism.Proofs.C20BoxInv

#print axioms Prism.Alg.C20_mul_inverse
#print axioms Prism.Alg.C20_inverse_mul
#print axioms Prism.Alg.C20_mulM_mulV
#print axioms Prism.Alg.C20_transpose_transpose
#print axioms Prism.Alg.C20_mulM_one
#print axioms Prism.Alg.C20_white
#print axioms Prism.Alg.C20_primary_r
#print axioms Prism.Alg.C20_primary_g
#print axioms Prism.Alg.C20_primary_b
#print axioms Prism.C20_toXYZ_float_box
#print axioms Prism.C20_float_matches_exact
#print axioms Prism.C20_published_spaces
#print axioms Prism.C20_fromXYZ_float_box
#print axioms Prism.C20_published_spaces_inv
