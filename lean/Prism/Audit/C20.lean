import Prism.Proofs.C20

#print axioms Prism.Alg.C20_mul_inverse
#print axioms Prism.Alg.C20_inverse_mul
#print axioms Prism.Alg.C20_mulM_mulV
#print axioms Prism.Alg.C20_transpose_transpose
#print axioms Prism.Alg.C20_mulM_one
#print axioms Prism.Alg.C20_white
#print axioms Prism.Alg.C20_primary_r
#print axioms Prism.Alg.C20_primary_g
#print axioms Prism.Alg.C20_primary_b
