import Prism.Check.Curves
import Prism.Model.Tables

/-!
# C01 — Boolean checkers over the regenerated decode tables (kernel-evaluated)
-/

namespace Prism
open SF

def Space.curve : Space → Curve
  | .srgb => .srgb
  | .adobe => .adobe
  | .prophoto => .prophoto
  | .p3 => .srgb       -- Display P3 uses the sRGB transfer function

/-- entry `c` of the 16-bit decode table is accurate, and strictly below its successor -/
def dec16EntryOk (s : Space) (c : Nat) : Bool :=
  force (dec16 s c) fun t =>
  entryOk s.curve 65535 c t && (c == 65535 || Nat.blt t (dec16 s (c+1)))

def dec8EntryOk (s : Space) (c : Nat) : Bool :=
  force (dec8 s c) fun t =>
  entryOk s.curve 255 c t && (c == 255 || Nat.blt t (dec8 s (c+1)))
    && t == dec16 s (257 * c)

/-- all entries `lo ≤ c < lo + n` pass `f` -/
def rangeAll (f : Nat → Bool) (lo : Nat) : Nat → Bool
  | 0 => true
  | n+1 => f (lo + n) && rangeAll f lo n

def dec16RangeOk (s : Space) (lo n : Nat) : Bool := rangeAll (dec16EntryOk s) lo n
def dec8RangeOk (s : Space) : Bool := rangeAll (dec8EntryOk s) 0 256

/-- `f` holds on the `2^d` codes starting at `lo` (binary splitting: shallow recursion, and
every argument forced to a literal — the kernel evaluates this in time linear in `2^d`) -/
def allDepth (f : Nat → Bool) (lo : Nat) : Nat → Bool
  | 0 => force lo fun lo => f lo
  | d+1 => force lo fun lo => allDepth f lo d && allDepth f (lo + 2^d) d

/-- chunk `k` (256 consecutive codes) of the 16-bit decode table of `s` is accurate and
strictly increasing -/
def chunkOk16 (s : Space) (k : Nat) : Bool := allDepth (dec16EntryOk s) (256 * k) 8
/-- the whole 8-bit decode table of `s` -/
def tableOk8 (s : Space) : Bool := allDepth (dec8EntryOk s) 0 8

def endpointsOk (s : Space) : Bool :=
  dec16 s 0 == 0 && dec16 s 65535 == 0x3f800000 && dec8 s 0 == 0 && dec8 s 255 == 0x3f800000

/-- first failing code in `[lo, lo+n)`, for the violation search -/
def firstFail (f : Nat → Bool) (lo n : Nat) : Option Nat :=
  (List.range n).findSome? fun i => if f (lo + i) then none else some (lo + i)

theorem rangeAll_spec (f : Nat → Bool) (lo n : Nat) (h : rangeAll f lo n = true) :
    ∀ c, lo ≤ c → c < lo + n → f c = true := by
  induction n with
  | zero => intro c h1 h2; omega
  | succ n ih =>
    simp only [rangeAll, Bool.and_eq_true] at h
    intro c h1 h2
    by_cases hc : c = lo + n
    · subst hc; exact h.1
    · exact ih h.2 c h1 (by omega)

theorem force_eq {α : Type} (x : Nat) (f : Nat → α) : force x f = f x := by
  unfold force; cases x <;> rfl

theorem allDepth_spec (f : Nat → Bool) (d : Nat) : ∀ lo, allDepth f lo d = true →
    ∀ c, lo ≤ c → c < lo + 2^d → f c = true := by
  induction d with
  | zero =>
    intro lo h c h1 h2
    simp only [allDepth, force_eq] at h
    have : c = lo := by omega
    subst this; exact h
  | succ d ih =>
    intro lo h c h1 h2
    simp only [allDepth, force_eq, Bool.and_eq_true] at h
    by_cases hc : c < lo + 2^d
    · exact ih lo h.1 c h1 hc
    · exact ih (lo + 2^d) h.2 c (by omega) (by rw [Nat.pow_succ] at h2; omega)

end Prism
