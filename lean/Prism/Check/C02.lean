import Prism.Model.Color
import Prism.Check.C01

/-! C02 — Boolean checkers over the regenerated encode tables -/
namespace Prism
open SF

/-- entry `i` of the 16-bit encode table is a 16-bit code not above its successor -/
def enc16EntryOk (s : Space) (i : Nat) : Bool :=
  force (enc16 s i) fun t => Nat.ble t 65535 && (i == 65535 || Nat.ble t (enc16 s (i+1)))
def enc16ChunkOk (s : Space) (k : Nat) : Bool := allDepth (enc16EntryOk s) (256 * k) 8

def enc8EntryOk (s : Space) (i : Nat) : Bool :=
  force (enc8 s i) fun t => Nat.ble t 255 && (i == 511 || Nat.ble t (enc8 s (i+1)))
def enc8TableOk (s : Space) : Bool := allDepth (enc8EntryOk s) 0 9

def encEndpointsOk (s : Space) : Bool :=
  enc8 s 0 == 0 && enc8 s 511 == 255 && enc16 s 0 == 0 && enc16 s 65535 == 65535

/-- the dumper reads table entry `i` by probing the encoder at `float32(i)/N`; this says the
probe really lands in bucket `i` -/
def probe9 (i : Nat) : Bool := quant9 (F32.div (F32.ofNat i) (F32.ofNat 511)) == i
def probe9All : Bool := allDepth probe9 0 9
def probe16 (i : Nat) : Bool := quant16 (F32.div (F32.ofNat i) f65535) == i

end Prism
