import Prism.Check.C02

/-!
# C02 (d) — accuracy of the encode tables against the published curve, decided in integers

Entry `i` of an encode table with index scale `N` (511 / 65535) holds the code `c` on the scale
`0..max` (255 / 65535).  "Within half a code (plus the stated allowance `η' = e1/e2`) of the OETF at
`i/N`" is checked in the inverse direction, through the published EOTF, which is what the
standards define and what the integer decision procedure can compare with:

    EOTF( max 0 ((c − ½ − η')/max) )  ≤  i/N  ≤  EOTF( min 1 ((c + ½ + η')/max) )

(the EOTFs are increasing bijections of [0,1], so this says `|c − max·EOTF⁻¹(i/N)| ≤ ½ + η'`).
-/

namespace Prism
open SF

/-- `EOTF(vn/vd) ≤ i/N` -/
def eotfLe (cv : Curve) (vn vd i N : Nat) : Bool :=
  if cv.isLinear vn vd then
    Nat.ble (vn * cv.slopeD * N) (i * vd * cv.slopeN)
  else
    force (vn * cv.offD + cv.offN * vd) fun yn => force ((cv.offD + cv.offN) * vd) fun yd =>
    Nat.ble (yn ^ cv.p * N ^ cv.q) (i ^ cv.q * yd ^ cv.p)

/-- `i/N ≤ EOTF(vn/vd)` -/
def eotfGe (cv : Curve) (vn vd i N : Nat) : Bool :=
  if cv.isLinear vn vd then
    Nat.ble (i * vd * cv.slopeN) (vn * cv.slopeD * N)
  else
    force (vn * cv.offD + cv.offN * vd) fun yn => force ((cv.offD + cv.offN) * vd) fun yd =>
    Nat.ble (i ^ cv.q * yd ^ cv.p) (yn ^ cv.p * N ^ cv.q)

/-- the accuracy condition for one entry, allowance `e1/e2` of a code -/
def encAccOk (cv : Curve) (N mx e1 e2 i c : Nat) : Bool :=
  force i fun i => force c fun c =>
  force (2 * c * e2) fun cc => force (e2 + 2 * e1) fun hh => force (2 * e2 * mx) fun dd =>
  (Nat.ble cc hh || eotfLe cv (cc - hh) dd i N) &&
  (Nat.ble dd (cc + hh) || eotfGe cv (cc + hh) dd i N)

/-- 16-bit tables: allowance 1/128 of a code -/
def enc16AccEntry (s : Space) (i : Nat) : Bool := encAccOk s.curve 65535 65535 1 128 i (enc16 s i)
def enc16AccChunk (s : Space) (k : Nat) : Bool := allDepth (enc16AccEntry s) (256 * k) 8
/-- 8-bit tables (512 entries): no allowance (the literal half code) -/
def enc8AccEntry (s : Space) (i : Nat) : Bool := encAccOk s.curve 511 255 0 1 i (enc8 s i)
def enc8AccTable (s : Space) : Bool := allDepth (enc8AccEntry s) 0 9

end Prism
