import Prism.Model.Color

/-!
# C03 — exact rational checks on the regenerated XYZ coefficients and declared chromaticities
-/

namespace Prism
open SF

/-- exact value of a finite float32 bit pattern -/
def f32Rat (b : Nat) : Rat :=
  let v : Rat := (num b32 b : Rat) / (den b32 b : Rat)
  if isNeg b32 b then -v else v

abbrev Q3 := Rat × Rat × Rat
abbrev QM := Q3 × Q3 × Q3     -- rows

def qdet (m : QM) : Rat :=
  let ((a, b, c), (d, e, f), (g, h, i)) := m
  a * (e * i - f * h) - b * (d * i - f * g) + c * (d * h - e * g)

def qinv (m : QM) : QM :=
  let ((a, b, c), (d, e, f), (g, h, i)) := m
  let dt := qdet m
  (((e * i - f * h) / dt, (c * h - b * i) / dt, (b * f - c * e) / dt),
   ((f * g - d * i) / dt, (a * i - c * g) / dt, (c * d - a * f) / dt),
   ((d * h - e * g) / dt, (b * g - a * h) / dt, (a * e - b * d) / dt))

def qmulV (m : QM) (v : Q3) : Q3 :=
  let (r0, r1, r2) := m
  let dot := fun (r : Q3) => r.1 * v.1 + r.2.1 * v.2.1 + r.2.2 * v.2.2
  (dot r0, dot r1, dot r2)

def qmulM (a b : QM) : QM :=
  let col := fun (k : Nat) => qmulV a (match k with
    | 0 => (b.1.1, b.2.1.1, b.2.2.1)
    | 1 => (b.1.2.1, b.2.1.2.1, b.2.2.2.1)
    | _ => (b.1.2.2, b.2.1.2.2, b.2.2.2.2))
  let c0 := col 0; let c1 := col 1; let c2 := col 2
  ((c0.1, c1.1, c2.1), (c0.2.1, c1.2.1, c2.2.1), (c0.2.2, c1.2.2, c2.2.2))

/-- XYZ (Y = 1) of a chromaticity -/
def xyzOf (x y : Rat) : Q3 := (x / y, 1, (1 - x - y) / y)

/-- the RGB→XYZ matrix fixed by primaries and white point (exact) -/
def primariesMatrix (r g b w : Rat × Rat) : QM :=
  let cr := xyzOf r.1 r.2; let cg := xyzOf g.1 g.2; let cb := xyzOf b.1 b.2
  let m : QM := ((cr.1, cg.1, cb.1), (cr.2.1, cg.2.1, cb.2.1), (cr.2.2, cg.2.2, cb.2.2))
  let s := qmulV (qinv m) (xyzOf w.1 w.2)
  ((cr.1 * s.1, cg.1 * s.2.1, cb.1 * s.2.2), (cr.2.1 * s.1, cg.2.1 * s.2.1, cb.2.1 * s.2.2),
   (cr.2.2 * s.1, cg.2.2 * s.2.1, cb.2.2 * s.2.2))

def listQM (l : List Nat) : QM :=
  let g := fun i => f32Rat (l.getD i 0)
  ((g 0, g 1, g 2), (g 3, g 4, g 5), (g 6, g 7, g 8))

def chromaOf (s : Space) : List Nat :=
  match s with
  | .srgb => Gen.srgbChroma | .adobe => Gen.adobeChroma | .prophoto => Gen.prophotoChroma | .p3 => Gen.p3Chroma

/-- declared chromaticities (x, y) of R, G, B, white as exact rationals -/
def declared (s : Space) (k : Nat) : Rat × Rat :=
  (f32Rat ((chromaOf s).getD (3 * k) 0), f32Rat ((chromaOf s).getD (3 * k + 1) 0))

/-- the published values: sRGB/Rec.709 primaries, Adobe RGB (1998), ROMM, Display P3; D65 = (0.3127, 0.3290), D50 = (0.3457, 0.3585) -/
def published (s : Space) (k : Nat) : Rat × Rat :=
  let d65 : Rat × Rat := (3127 / 10000, 3290 / 10000)
  let d50 : Rat × Rat := (3457 / 10000, 3585 / 10000)
  match s, k with
  | .srgb, 0 => (64/100, 33/100) | .srgb, 1 => (30/100, 60/100) | .srgb, 2 => (15/100, 6/100) | .srgb, _ => d65
  | .adobe, 0 => (64/100, 33/100) | .adobe, 1 => (21/100, 71/100) | .adobe, 2 => (15/100, 6/100) | .adobe, _ => d65
  | .prophoto, 0 => (734699/1000000, 265301/1000000) | .prophoto, 1 => (159597/1000000, 840403/1000000)
  | .prophoto, 2 => (36598/1000000, 105/1000000) | .prophoto, _ => d50
  | .p3, 0 => (68/100, 32/100) | .p3, 1 => (265/1000, 69/100) | .p3, 2 => (15/100, 6/100) | .p3, _ => d65

def qabs (x : Rat) : Rat := if x < 0 then -x else x
def qmaxAbsDiff (a b : QM) : Rat :=
  let d := fun (x y : Q3) => max (qabs (x.1 - y.1)) (max (qabs (x.2.1 - y.2.1)) (qabs (x.2.2 - y.2.2)))
  max (d a.1 b.1) (max (d a.2.1 b.2.1) (d a.2.2 b.2.2))
def qident : QM := ((1, 0, 0), (0, 1, 0), (0, 0, 1))

/-- (i) every declared chromaticity is within half a unit of the last published digit (5·10⁻⁵) -/
def chromaOk (s : Space) : Bool :=
  (List.range 4).all fun k =>
    decide (qabs ((declared s k).1 - (published s k).1) ≤ 1 / 20000) &&
    decide (qabs ((declared s k).2 - (published s k).2) ≤ 1 / 20000)

def refMatrix (s : Space) : QM := primariesMatrix (declared s 0) (declared s 1) (declared s 2) (declared s 3)

/-- (ii) the code's RGB→XYZ coefficients are within 10⁻⁷ of the matrix the declared primaries fix,
and its XYZ→RGB coefficients within 10⁻⁶ of that matrix's exact inverse -/
def coefOk (s : Space) : Bool :=
  decide (qmaxAbsDiff (listQM (toXYZCoef s)) (refMatrix s) ≤ 1 / 10000000) &&
  decide (qmaxAbsDiff (listQM (fromXYZCoef s)) (qinv (refMatrix s)) ≤ 1 / 1000000)

/-- (iii) as exact matrices the two coefficient sets are inverse to each other within 10⁻⁶, and
`(1,1,1)` maps to the white point with `Y = 1` within 10⁻⁶ -/
def inverseOk (s : Space) : Bool :=
  decide (qmaxAbsDiff (qmulM (listQM (fromXYZCoef s)) (listQM (toXYZCoef s))) qident ≤ 1 / 1000000) &&
  decide (qmaxAbsDiff (qmulM (listQM (toXYZCoef s)) (listQM (fromXYZCoef s))) qident ≤ 1 / 1000000) &&
  (let w := qmulV (listQM (toXYZCoef s)) (1, 1, 1)
   let wd := xyzOf (declared s 3).1 (declared s 3).2
   decide (qabs (w.1 - wd.1) ≤ 1 / 1000000) && decide (qabs (w.2.1 - 1) ≤ 1 / 1000000) && decide (qabs (w.2.2 - wd.2.2) ≤ 1 / 1000000))

end Prism

namespace Prism
open SF

/-- exact value of a finite float64 bit pattern -/
def f64Rat (b : Nat) : Rat :=
  let v : Rat := (num b64 b : Rat) / (den b64 b : Rat)
  if isNeg b64 b then -v else v

/-- the Bradford cone-response matrix (rows) -/
def bradfordQ : QM := ((8951/10000, 2664/10000, -1614/10000), (-7502/10000, 17135/10000, 367/10000), (389/10000, -685/10000, 10296/10000))

/-- exact Bradford adaptation between two XYZ whites -/
def adaptExact (ws wd : Q3) : QM :=
  let s := qmulV bradfordQ ws
  let d := qmulV bradfordQ wd
  let dg : QM := ((d.1 / s.1, 0, 0), (0, d.2.1 / s.2.1, 0), (0, 0, d.2.2 / s.2.2))
  qmulM (qmulM (qinv bradfordQ) dg) bradfordQ

/-- a regenerated adaptation matrix (9 float64 in Go's column-major `m[col][row]` order) as rows -/
def adaptOfGen (l : List Nat) : QM :=
  let g := fun (col row : Nat) => f64Rat (l.getD (3 * col + row) 0)
  ((g 0 0, g 1 0, g 2 0), (g 0 1, g 1 1, g 2 1), (g 0 2, g 1 2, g 2 2))

def whiteXYZ (s : Space) : Q3 := xyzOf (declared s 3).1 (declared s 3).2

/-- the adaptation the documented pipeline applies from `src` to `dst` (identity when the declared
white points coincide), as an exact matrix of the regenerated float64 entries -/
def pairAdaptQ (src dst : Space) : QM :=
  if declared src 3 == declared dst 3 then qident
  else if declared src 3 == declared .srgb 3 then adaptOfGen Gen.adaptD65toD50 else adaptOfGen Gen.adaptD50toD65

/-- the code's linear map src-linear → dst-linear as an exact matrix, against the colorimetric
reference built from the declared chromaticities and the exact Bradford transform -/
def pairOk (src dst : Space) : Bool :=
  let code := qmulM (listQM (fromXYZCoef dst)) (qmulM (pairAdaptQ src dst) (listQM (toXYZCoef src)))
  let adaptRef := if declared src 3 == declared dst 3 then qident else adaptExact (whiteXYZ src) (whiteXYZ dst)
  let ref := qmulM (qinv (refMatrix dst)) (qmulM adaptRef (refMatrix src))
  decide (qmaxAbsDiff code ref ≤ 2 / 1000000)

def adaptOk : Bool :=
  decide (qmaxAbsDiff (adaptOfGen Gen.adaptD65toD50) (adaptExact (whiteXYZ .srgb) (whiteXYZ .prophoto)) ≤ 1 / 1000000) &&
  decide (qmaxAbsDiff (adaptOfGen Gen.adaptD50toD65) (adaptExact (whiteXYZ .prophoto) (whiteXYZ .srgb)) ≤ 1 / 1000000)

def allPairsOk : Bool := Space.all.all fun a => Space.all.all fun b => pairOk a b

end Prism
