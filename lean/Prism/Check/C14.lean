import Prism.Model.Color
import Prism.Check.C01

/-! C14 — Boolean checkers evaluated by the kernel -/
namespace Prism
open SF

/-- alpha `a` survives decode (`a/65535` in float32) followed by encode (`quant16`) -/
def alphaRT16 (a : Nat) : Bool := force (F32.div (F32.ofNat a) f65535) fun x => quant16 x == a
def alphaRT8 (a : Nat) : Bool := force (F32.div (F32.ofNat a) f255) fun x => quant8 x == a

def alphaChunk16 (k : Nat) : Bool := allDepth alphaRT16 (256 * k) 8
def alphaAll8 : Bool := allDepth alphaRT8 0 8

/-- premultiplied validity at the extreme `r = a`: linearising `(a, a, a, a)` gives channels `≤ a`
(for fixed alpha the linearised channel is monotone in `r`, so `r = a` is the worst case) -/
def premulTop (s : Space) (a : Nat) : Bool :=
  a == 0 || (let p := lineariseColor s a a a a
             Nat.ble p.r a && p.a == a)
def premulChunk (s : Space) (k : Nat) : Bool := allDepth (premulTop s) (256 * k) 8

end Prism
