import Prism.Model.Color
import Prism.Check.C01

/-! C14 — Boolean checkers evaluated by the kernel -/
namespace Prism
open SF

/-- alpha `a` survives decode (`a/65535` in float32) followed by encode (`quant16`) -/
def alphaRT16 (a : Nat) : Bool := force (F32.div (F32.ofNat a) f65535) fun x => quant16 x == a
def alphaRT8 (a : Nat) : Bool := force (F32.div (F32.ofNat a) f255) fun x => quant8 x == a

def alphaChunk16 (k : Nat) : Bool := allDepth alphaRT16 (256 * k) 8
def alphaAll8 : Bool := allDepth alphaRT8 0 8

/-- premultiplied validity at the extreme `r = a` (for fixed alpha the linearised channel is
monotone in `r` — `Prism/Proofs/C14Premul.lean` — so `r = a` is the worst case): the decoded alpha
is a positive finite float, the un-premultiplied and re-premultiplied channel values are finite,
and the linearised channel is at most `a` -/
def premulTop (s : Space) (a : Nat) : Bool :=
  a == 0 ||
  force (F32.div (F32.ofNat a) f65535) fun alpha =>
  force (F32.div (dec16 s a) alpha) fun c =>
  force (F32.mul c alpha) fun m =>
  Nat.blt 0 alpha && Nat.blt alpha 2139095040 && Nat.blt c 2139095040 && Nat.blt m 2139095040 &&
    Nat.ble (quant16 m) a
def premulChunk (s : Space) (k : Nat) : Bool := allDepth (premulTop s) (256 * k) 8

end Prism
