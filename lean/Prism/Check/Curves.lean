import Prism.Float.SF

/-!
# Published transfer functions as data, and the integer decision procedure for
  "this float32 is within ε of the curve at c/N"

A `Curve` is the published piecewise definition: below a threshold the encoded value `v`
decodes linearly (`v / slope`), above it as `((v + a)/(1 + a)) ^ (p/q)`.  All parameters are
rational, so comparing a dyadic rational with the curve reduces to comparing integers
(`y^(p/q) ≤ h ↔ y^p ≤ h^q`).  The real-valued meaning is in `Prism/Spec/Curves.lean` and the
soundness of `entryOk` w.r.t. it in `Prism/Proofs/Lemmas/CurveSound.lean`.
-/

namespace Prism
open SF

structure Curve where
  /-- linear segment applies when `v ≤ thrN/thrD` (or `<` when `strict`) -/
  thrN : Nat
  thrD : Nat
  strict : Bool
  /-- linear segment: `v / (slopeN/slopeD)` -/
  slopeN : Nat
  slopeD : Nat
  /-- offset `a = offN/offD` of the power segment `((v + a)/(1 + a))^(p/q)` -/
  offN : Nat
  offD : Nat
  p : Nat
  q : Nat
deriving Repr

/-- IEC 61966-2-1 sRGB EOTF: `v ≤ 0.04045 → v/12.92`, else `((v+0.055)/1.055)^2.4` -/
def Curve.srgb : Curve :=
  { thrN := 4045, thrD := 100000, strict := false, slopeN := 1292, slopeD := 100,
    offN := 55, offD := 1000, p := 12, q := 5 }
/-- Adobe RGB (1998): `v^(563/256)` (2.19921875), no linear segment -/
def Curve.adobe : Curve :=
  { thrN := 0, thrD := 1, strict := true, slopeN := 1, slopeD := 1,
    offN := 0, offD := 1, p := 563, q := 256 }
/-- ROMM / ProPhoto RGB: `v < 16·Et → v/16`, else `v^1.8`, `Et = 1/512` -/
def Curve.prophoto : Curve :=
  { thrN := 16, thrD := 512, strict := true, slopeN := 16, slopeD := 1,
    offN := 0, offD := 1, p := 9, q := 5 }

/-- tolerance `epsN/epsD = 3·10⁻⁷` -/
def epsN : Nat := 3
def epsD : Nat := 10000000

/-- Is `v = c/N` on the linear segment? -/
@[inline] def Curve.isLinear (cv : Curve) (c N : Nat) : Bool :=
  if cv.strict then Nat.blt (c * cv.thrD) (cv.thrN * N) else Nat.ble (c * cv.thrD) (cv.thrN * N)

/-- `| tn/td − yn/yd | ≤ eps` for a rational target -/
@[inline] def ratWithin (tn td yn yd : Nat) : Bool :=
  -- |tn·yd − yn·td| · epsD ≤ epsN · td · yd
  force (tn * yd) fun a => force (yn * td) fun b =>
  Nat.ble ((if Nat.ble a b then b - a else a - b) * epsD) (epsN * td * yd)

/-- `| tn/td − (yn/yd)^(p/q) | ≤ eps`, decided in integers -/
@[inline] def powWithin (tn td yn yd p q : Nat) : Bool :=
  force (tn * epsD) fun te => force (epsN * td) fun e3 =>
  force (td * epsD) fun dd =>
  force (yn ^ p * dd ^ q) fun ypow =>       -- (y)^p scaled by dd^q·yd^p
  force (yd ^ p) fun ydp =>
  -- lower: (te − e3)/dd ≤ y^(p/q)
  (Nat.ble te e3 || Nat.ble ((te - e3) ^ q * ydp) ypow) &&
  -- upper: y^(p/q) ≤ (te + e3)/dd
  Nat.ble ypow ((te + e3) ^ q * ydp)

/-- The float32 with bit pattern `t` (finite, non-negative) is within `3e-7` of the
published decoding of code `c` on the scale `0..N`. -/
def entryOk (cv : Curve) (N c t : Nat) : Bool :=
  force t fun t =>
  Nat.ble t 0x3f800000 &&
  force (num b32 t) fun tn => force (den b32 t) fun td =>
  if cv.isLinear c N then
    ratWithin tn td (c * cv.slopeD) (N * cv.slopeN)
  else
    powWithin tn td (c * cv.offD + cv.offN * N) ((cv.offD + cv.offN) * N) cv.p cv.q

end Prism
