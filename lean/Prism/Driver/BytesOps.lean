import Prism.Model.Util
import Prism.Model.Png
import Prism.Model.Jpeg
import Prism.Model.Webp
import Prism.Model.Icc
import Prism.Model.Reader
import Prism.Model.Auto

/-! Driver operations for the byte-side models (pure interpretation). -/

namespace Prism.Ops
open Prism

def fnvBytes (b : List UInt8) : UInt64 :=
  b.foldl (fun h x => (h ^^^ x.toUInt64) * 0x100000001b3) fnvInit

def bytesDigest (b : List UInt8) : String :=
  if b.length ≤ 24 then bytesToHex ⟨b.toArray⟩ else s!"{b.length}:{toHex (fnvBytes b).toNat 16}"

def iccStr : IccState → String
  | .none => "none"
  | .data b => "data:" ++ bytesDigest b
  | .err _ => "err"

def metaStr (m : Meta) : String := s!"ok {m.format} {m.width} {m.height} {m.depth} icc={iccStr m.icc}"

/-- inflate oracle: (compressed, result) pairs supplied on the protocol line by the harness,
which obtained them from Go's compress/zlib -/
def oracleInflate (tbl : List (List UInt8 × Except String (List UInt8))) (z : List UInt8) : Except String (List UInt8) :=
  match tbl.find? fun e => e.1 == z with
  | some e => e.2
  | none => .error "model: inflate oracle has no entry"

def parseOracle : List String → Option (List (List UInt8 × Except String (List UInt8)))
  | [] => some []
  | z :: st :: out :: rest => do
    let zb ← parseHexBytes? z
    let ob ← parseHexBytes? out
    let tl ← parseOracle rest
    let r : Except String (List UInt8) := if st == "ok" then .ok ob.toList else .error "zlib"
    pure ((zb.toList, r) :: tl)
  | _ => none

inductive Fmt3 | png | jpeg | webp
deriving DecidableEq

def progOf (f : Fmt3) (fuel : Nat) : Prog (Except PErr Meta) :=
  match f with
  | .png => (Png.extract fuel).run
  | .jpeg => (Jpeg.extract fuel).run
  | .webp => Webp.extract.run

def runFmt (f : Fmt3) (orc : List UInt8 → Except String (List UInt8)) (data : List UInt8) (endErr : IOErr) :
    Except PErr Meta × Prog.Cost :=
  Prog.runPure orc (progOf f (data.length + 16)) data endErr {}

def resStr (r : Except PErr Meta) : String :=
  match r with
  | .ok m => metaStr m
  | .error _ => "err"

def autoRun (orc : List UInt8 → Except String (List UInt8)) (data : List UInt8) (endErr : IOErr) : Except PErr Meta :=
  match (runFmt .png orc data endErr).1 with
  | .ok m => .ok m
  | .error _ =>
    match (runFmt .jpeg orc data endErr).1 with
    | .ok m => .ok m
    | .error _ =>
      match (runFmt .webp orc data endErr).1 with
      | .ok m => .ok m
      | .error _ => .error (.bad "unrecognised image format")

/-- the first payload the PNG extractor hands to zlib that the oracle table cannot answer -/
def pngNeed (tbl : List (List UInt8 × Except String (List UInt8))) (data : List UInt8) : Option (List UInt8) :=
  Prog.firstNeed (fun z => (tbl.find? fun e => e.1 == z).map Prod.snd) (progOf .png (data.length + 16)) data .eof

def endErrOf : String → IOErr
  | "fault" => .fault
  | _ => .eof

/-- pulled-bytes interval after one loader stage -/
structure PullRange where
  lo : Nat
  hi : Nat

/-- one `Load` stage over `r`; returns result, returned stream, and the interval the number of
bytes pulled from the original source is known to lie in -/
def stage (zl : Prog.Inflate) (p : Prog (Except PErr Meta)) (r : Rd) (before : PullRange) :
    Except PErr Meta × Rd × PullRange :=
  let (a, rd, st) := loadSt zl p r
  let exact := rd.pulled
  if st.lazyUsed then
    (a, rd, ⟨max before.lo st.consumed, max before.hi (st.consumed + bufSize)⟩)
  else if before.lo == before.hi then (a, rd, ⟨exact, exact⟩)
  else (a, rd, ⟨max before.lo st.consumed, max before.hi (st.consumed + bufSize)⟩)

def loadStack (zl : Prog.Inflate) (f : String) (fuel : Nat) (r : Rd) : Except PErr Meta × Rd × PullRange :=
  let z : PullRange := ⟨0, 0⟩
  match f with
  | "png" => stage zl (progOf .png fuel) r z
  | "jpeg" => stage zl (progOf .jpeg fuel) r z
  | "webp" => stage zl (progOf .webp fuel) r z
  | _ =>
    let (a1, r1, p1) := stage zl (progOf .png fuel) r z
    match a1 with
    | .ok m => (.ok m, r1, p1)
    | .error _ =>
      let (a2, r2, p2) := stage zl (progOf .jpeg fuel) r1 p1
      match a2 with
      | .ok m => (.ok m, r2, p2)
      | .error _ =>
        let (a3, r3, p3) := stage zl (progOf .webp fuel) r2 p2
        match a3 with
        | .ok m => (.ok m, r3, p3)
        | .error _ => (.error (.bad "unrecognised image format"), r3, p3)

def parseSched (s : String) : List Nat :=
  if s == "-" then [] else (s.splitOn ",").filterMap fun t => t.toNat?

def errStr : Option IOErr → String
  | some .eof => "eof"
  | some .unexpectedEof => "ueof"
  | some .fault => "fault"
  | none => "none"

def loadxRun (f : String) (ee : String) (ewd : String) (sched : String) (data : List UInt8)
    (tbl : List (List UInt8 × Except String (List UInt8))) : String :=
  let src : Src := { rest := data, sched := parseSched sched, endErr := endErrOf ee, eofWithData := ewd == "1" }
  let (a0, rd0, pr) := loadStack (oracleInflate tbl) f (data.length + 16) (.src src)
  -- the result and the returned stream come from the definitions the theorems are about
  let (a, rd) := if f == "auto" then Auto.load (oracleInflate tbl) (data.length + 16) (.src src) else (a0, rd0)
  -- what the caller sees when it reads the returned stream to the end (512-byte requests)
  let (bytes, e, _) := rd.drain (data.length + 8) 512 []
  let pulled := if pr.lo == pr.hi then s!"{pr.lo}" else s!"[{pr.lo}..{pr.hi}]"
  s!"{resStr a} pulled={pulled} replay={bytesDigest bytes} end={errStr e}"


def fmt3Of? : String → Option Fmt3
  | "png" => some .png | "jpeg" => some .jpeg | "webp" => some .webp | _ => none

def tagDigest (tags : List (Nat × List UInt8)) : String :=
  -- order-independent: sum of per-tag hashes (the Go side iterates a map)
  let h := tags.foldl (fun acc t => acc + (fnvWord (fnvWord (fnvBytes t.2) t.1) t.2.length).toNat) 0
  s!"{tags.length}:{toHex (h % 18446744073709551616) 16}"

def descStr (tags : List (Nat × List UInt8)) : String :=
  match Icc.description tags with
  | .error _ => "err"
  | .ok cands => "∈" ++ "|".intercalate (cands.map fun c => bytesToHex ⟨c.toArray⟩)

/-- is the dateTimeNumber a calendar date `time.Date` leaves as it is? (otherwise Go normalises
it, which is the standard library's business: both sides then print `invalid-date`) -/
def dateValid : List Nat → Bool
  | [y, mo, d, h, mi, s] =>
    let leap := (y % 4 == 0 && y % 100 != 0) || y % 400 == 0
    let dim := if mo == 2 then (if leap then 29 else 28)
               else if mo == 4 || mo == 6 || mo == 9 || mo == 11 then 30 else 31
    1 ≤ mo && mo ≤ 12 && 1 ≤ d && d ≤ dim && h < 24 && mi < 60 && s < 60
  | _ => false

def dateStr (d : List Nat) : String :=
  (if dateValid d then "-".intercalate (d.map toString) else "invalid-date") ++ s!" unix={Icc.createdAtUnix d}"

def headerStr (h : Icc.Header) : String :=
  let l1 := [h.size, h.cmm, h.major, h.minorRev, h.deviceClass, h.colorSpace, h.pcs]
  let l := 
    [h.platform, if h.embedded then 1 else 0, if h.dependsOnEmbedded then 1 else 0, h.manufacturer,
     h.model, h.attributes, h.intent] ++ h.illuminant ++ [h.creator]
  " ".intercalate (l1.map toString) ++ " " ++ dateStr h.date ++ " " ++ " ".intercalate (l.map toString) ++ " id=" ++ bytesToHex ⟨h.profileID.toArray⟩ ++
    " ver=" ++ Icc.versionString h.major h.minorRev

def iccRun (data : List UInt8) (endErr : IOErr) : String :=
  match (Prog.runPure (fun _ => .error "none") Icc.readProfile.run data endErr {}).1 with
  | .error _ => "err"
  | .ok p => s!"ok {headerStr p.header} desc={descStr p.tags}"

def handleBytes (toks : List String) : Option String :=
  match toks with
  | "load" :: f :: ee :: dh :: orc =>
    match parseHexBytes? dh, parseOracle orc with
    | some d, some tbl =>
      let data := d.toList
      let o := oracleInflate tbl
      if f == "auto" then some (resStr (autoRun o data (endErrOf ee)))
      else match fmt3Of? f with
        | some f3 => some (resStr (runFmt f3 o data (endErrOf ee)).1)
        | none => some "bad-op"
    | _, _ => some "bad-op"
  | "pngneed" :: dh :: orc =>
    match parseHexBytes? dh, parseOracle orc with
    | some d, some tbl =>
      match pngNeed tbl d.toList with
      | some z => some ("need " ++ bytesToHex ⟨z.toArray⟩)
      | none => some "none"
    | _, _ => some "bad-op"
  | "cost" :: f :: dh :: orc =>
    match parseHexBytes? dh, parseOracle orc, fmt3Of? f with
    | some d, some tbl, some f3 =>
      let (r, c) := runFmt f3 (oracleInflate tbl) d.toList .eof
      some s!"{if r.isOk then "ok" else "err"} consumed={c.consumed} steps={c.steps} alloc={c.alloc}"
    | _, _, _ => some "bad-op"
  | "loadr" :: f :: dh :: orc =>
    -- result and replayed stream only (source not instrumented on the Go side)
    match parseHexBytes? dh, parseOracle orc with
    | some d, some tbl =>
      let data := d.toList
      let src : Src := { rest := data }
      let (a, rd) := if f == "auto" then Auto.load (oracleInflate tbl) (data.length + 16) (.src src)
        else match fmt3Of? f with
          | some f3 => load (oracleInflate tbl) (progOf f3 (data.length + 16)) (.src src)
          | none => (.error (.bad "fmt"), .src src)
      let (bytes, e, _) := rd.drain (data.length + 8) 512 []
      some s!"{resStr a} replay={bytesDigest bytes} end={errStr e}"
    | _, _ => some "bad-op"
  | "loadx" :: f :: ee :: ewd :: sched :: dh :: orc =>
    match parseHexBytes? dh, parseOracle orc with
    | some d, some tbl => some (loadxRun f ee ewd sched d.toList tbl)
    | _, _ => some "bad-op"
  | "loadp" :: f :: dh :: orc =>
    -- load, then `md.ICCProfile()` and `Description()` on what was extracted
    match parseHexBytes? dh, parseOracle orc with
    | some d, some tbl =>
      let o := oracleInflate tbl
      let r := if f == "auto" then autoRun o d.toList .eof
               else match fmt3Of? f with
                 | some f3 => (runFmt f3 o d.toList .eof).1
                 | none => .error (.bad "fmt")
      match r with
      | .error _ => some "err"
      | .ok m =>
        let prof := match m.icc with
          | .none => "none"
          | .err _ => "err"
          | .data b =>
            match (Prog.runPure (fun _ => .error "none") Icc.readProfile.run b .eof {}).1 with
            | .error _ => "err"
            | .ok p => "ok desc=" ++ descStr p.tags
        some s!"{metaStr m} prof={prof}"
    | _, _ => some "bad-op"
  | "pullx" :: f :: sched :: tail :: dh :: orc =>
    match parseHexBytes? dh, parseOracle orc, tail.toNat? with
    | some d, some tbl, some t =>
      -- the file continues with `t` zero bytes of pixel data; the model is given at most 70000 of
      -- them (a loader that respects C18 never gets that far, one that does not shows up as a
      -- different `pulled`)
      let data := d.toList ++ List.replicate (min t 70000) 0
      let src : Src := { rest := data, sched := parseSched sched }
      let (a, _, pr) := loadStack (oracleInflate tbl) f (data.length + 16) (.src src)
      let pulled := if pr.lo == pr.hi then s!"{pr.lo}" else s!"[{pr.lo}..{pr.hi}]"
      some s!"{resStr a} pulled={pulled}"
    | _, _, _ => some "bad-op"
  | ["icc", ee, dh] =>
    match parseHexBytes? dh with
    | some d => some (iccRun d.toList (endErrOf ee))
    | none => some "bad-op"
  | _ => none

end Prism.Ops
