import Prism.Model.Util
import Prism.Model.Color
import Prism.Model.Xyz

/-! Driver operations for the float-side models. -/

namespace Prism.Ops
open Prism SF

/-- SplitMix64, mirrored by the Go harness: both sides derive the same test points -/
def smStep (s : UInt64) : UInt64 × UInt64 :=
  let s := s + 0x9E3779B97F4A7C15
  let z := s
  let z := (z ^^^ (z >>> 30)) * 0xBF58476D1CE4E5B9
  let z := (z ^^^ (z >>> 27)) * 0x94D049BB133111EB
  (z ^^^ (z >>> 31), s)

def fnOf (fn : String) (s : Space) (x : Nat) : Nat :=
  match fn with
  | "q8" => quant8 x
  | "q9" => quant9 x
  | "q16" => quant16 x
  | "to8" => to8 s x
  | "to16" => to16 s x
  | _ => 0

/-- hash of `fn` over `count` consecutive float32 bit patterns from `start` -/
def c02Batch (fn : String) (s : Space) (start count : Nat) : UInt64 := Id.run do
  let mut h := fnvInit
  for i in [0:count] do
    h := fnvWord h (fnOf fn s ((start + i) % 4294967296))
  return h

def px4 (p : Px) : List Nat := [p.r, p.g, p.b, p.a]

/-- the encoders/decoders reached through the colour types -/
def colorOp (s : Space) (kind : String) (a b c d : Nat) : List Nat :=
  match kind with
  | "tonrgba" => px4 (toNRGBA s ⟨a, b, c⟩ d)
  | "torgba" => px4 (toRGBA s ⟨a, b, c⟩ d)
  | "torgba64" => px4 (toRGBA64 s ⟨a, b, c⟩ d)
  | "tolin64" => px4 (toLinearRGBA64 ⟨a, b, c⟩ d)
  | "fromnrgba" => let (l, al) := fromNRGBA s a b c d; [l.r, l.g, l.b, al]
  | "fromrgba" => let (l, al) := fromRGBA s a b c d; [l.r, l.g, l.b, al]
  | "fromenc" => let (l, al) := fromEncoded s a b c d; [l.r, l.g, l.b, al]
  | "fromlin" => let (l, al) := fromLinear a b c d; [l.r, l.g, l.b, al]
  | "linearise" => px4 (lineariseColor s a b c d)
  | "encode" => px4 (encodeColor s a b c d)
  | "toxyz" => let (x, y, z) := toXYZ s ⟨a, b, c⟩; [x, y, z]
  | "fromxyz" => let l := fromXYZ s a b c; [l.r, l.g, l.b]
  | _ => []

def whiteOf (s : Space) : Nat × Nat × Nat :=
  let ch := match s with
    | .srgb => Gen.srgbChroma | .adobe => Gen.adobeChroma | .prophoto => Gen.prophotoChroma | .p3 => Gen.p3Chroma
  (ch.getD 9 0, ch.getD 10 0, ch.getD 11 0)

def listToM3 (l : List Nat) : Mat.M3 :=
  ((l.getD 0 0, l.getD 1 0, l.getD 2 0), (l.getD 3 0, l.getD 4 0, l.getD 5 0), (l.getD 6 0, l.getD 7 0, l.getD 8 0))
def m3ToList (m : Mat.M3) : List Nat :=
  [m.1.1, m.1.2.1, m.1.2.2, m.2.1.1, m.2.1.2.1, m.2.1.2.2, m.2.2.1, m.2.2.2.1, m.2.2.2.2]

/-- the adaptation the documented pipeline applies between two spaces (`none` when the white
points are the same value) -/
def pairAdapt (src dst : Space) : Option Mat.M3 :=
  let ws := whiteOf src
  let wd := whiteOf dst
  if ws == wd then none else some (Xyz.adaptXYY ws wd)

/-- the documented cross-space pipeline on one 8-bit NRGBA pixel:
`ColorFromNRGBA → ToXYZ → (Apply) → ColorFromXYZ → ToNRGBA` -/
def convertPixel (src dst : Space) (ad : Option Mat.M3) (r g b a : Nat) : Px :=
  let (l, al) := fromNRGBA src r g b a
  let xyz := toXYZ src l
  let xyz := match ad with
    | none => xyz
    | some m => Xyz.apply m xyz
  toNRGBA dst (fromXYZ dst xyz.1 xyz.2.1 xyz.2.2) al

/-- pixel `i` of enumeration `mode`: `lat` = a lattice of stride `step`, `rnd` = SplitMix64 stream -/
def c04Pixel (mode : String) (start step i : Nat) (z : UInt64) : Nat × Nat × Nat × Nat :=
  if mode == "rnd" then
    (z.toNat % 256, (z.toNat / 256) % 256, (z.toNat / 65536) % 256, (z.toNat / 16777216) % 256)
  else
    let k := (start + i) * step
    (k % 256, (k / 256) % 256, (k / 65536) % 256, if mode == "lat" then 255 else (k / 16777216) % 256)

def c04Batch (src dst : Space) (mode : String) (start count step : Nat) : UInt64 := Id.run do
  let ad := pairAdapt src dst
  let mut h := fnvInit
  let mut st : UInt64 := UInt64.ofNat start
  for i in [0:count] do
    let (z, s') := smStep st
    st := s'
    let (r, g, b, a) := c04Pixel mode start step i z
    let p := convertPixel src dst ad r g b a
    h := fnvWord h (p.r + 256 * (p.g + 256 * (p.b + 256 * p.a)))
  return h

/-- C14: `fn` on alpha `a` with channels derived from `a` (r = a, g = ⌊a/2⌋, b = a·40503 mod (a+1)) -/
def c14Batch (s : Space) (fn : String) (lo count : Nat) : UInt64 := Id.run do
  let mut h := fnvInit
  for i in [0:count] do
    let a := lo + i
    let r := a
    let g := a / 2
    let b := (a * 40503) % (a + 1)
    for w in colorOp s fn r g b a do
      h := fnvWord h w
  return h

/-- the test point `i` of stream `mode`: `lat` = 8-bit lattice point `k/255`, `rnd` = uniform in
[−1, 2) built from 24 random bits in float32 arithmetic -/
def xyzPoint (mode : String) (k : Nat) (z : UInt64) : Nat × Nat × Nat :=
  if mode == "lat" then
    let f := fun (v : Nat) => F32.div (F32.ofNat v) f255
    (f (k % 256), f ((k / 256) % 256), f ((k / 65536) % 256))
  else
    let f := fun (u : Nat) => F32.sub (F32.mul (F32.div (F32.ofNat u) (F32.ofNat 16777216)) (F32.ofNat 3)) F32.one
    (f (z.toNat % 16777216), f ((z.toNat / 16777216) % 16777216), f ((z.toNat / 281474976710656) % 65536 * 256))

def xyzBatch (s : Space) (dir mode : String) (start count step : Nat) : UInt64 := Id.run do
  let mut h := fnvInit
  let mut st : UInt64 := UInt64.ofNat start
  for i in [0:count] do
    let (z, s') := smStep st
    st := s'
    let (a, b, c) := xyzPoint mode ((start + i) * step) z
    let out := if dir == "to" then colorOp s "toxyz" a b c 0
      else if dir == "from" then colorOp s "fromxyz" a b c 0
      else
        -- round trip RGB → XYZ → RGB
        let (x, y, zz) := toXYZ s ⟨a, b, c⟩
        colorOp s "fromxyz" x y zz 0
    for w in out do
      h := fnvWord h w
  return h

def hexList (l : List Nat) (d : Nat) : String := " ".intercalate (l.map (toHex · d))

def parseHexList (l : List String) : Option (List Nat) := l.mapM parseHex?

def t3 (l : List Nat) (i : Nat) : Nat × Nat × Nat := (l.getD i 0, l.getD (i+1) 0, l.getD (i+2) 0)

/-- `PowSpec` on one observed `math.Pow(x, 1/3)` result `p`: `|p³ − x| ≤ 2⁻⁴⁸·x` (exact; i.e. `p` within ≈2⁻⁵⁰ relative of the cube root) -/
def cbrtOk (x p : Nat) : Bool :=
  if isNaN b64 x || isNaN b64 p || isNeg b64 x || isNeg b64 p then false else
  let xn := num b64 x; let xd := den b64 x
  let pn := num b64 p; let pd := den b64 p
  -- |pn³/pd³ − xn/xd| ≤ xn/(xd·2^50)
  let l := pn ^ 3 * xd
  let r := xn * pd ^ 3
  let diff := if l ≥ r then l - r else r - l
  diff * 2 ^ 48 ≤ r

/-- `PowSpec` on one observed `math.Pow(f, 3)` result `c` -/
def cubeOk (f c : Nat) : Bool :=
  if isNaN b64 f || isNaN b64 c then false else
  let fn := num b64 f; let fd := den b64 f
  let cn := num b64 c; let cd := den b64 c
  if isNeg b64 f != isNeg b64 c && !(isZero b64 c) then false else
  let l := fn ^ 3 * cd
  let r := cn * fd ^ 3
  let diff := if l ≥ r then l - r else r - l
  diff * 2 ^ 48 ≤ l

def handleFloat (toks : List String) : Option String :=
  match toks with
  | ["c02", fn, sp, x] =>
    match Space.ofName? sp, parseHex? x with
    | some s, some x => some (toString (fnOf fn s x))
    | _, _ => some "bad-op"
  | ["c02b", fn, sp, st, cnt] =>
    match Space.ofName? sp, parseHex? st, parseHex? cnt with
    | some s, some st, some cnt => some (toHex (c02Batch fn s st cnt).toNat 16)
    | _, _, _ => some "bad-op"
  | ["c02r", fn, sp, lo, hi] =>
    -- a run of the implementation's step function: constant on [lo, hi] iff equal at both ends
    -- (the model is monotone: theorem `quant_mono` / table monotonicity)
    match Space.ofName? sp, parseHex? lo, parseHex? hi with
    | some s, some lo, some hi =>
      let a := fnOf fn s lo
      let b := fnOf fn s hi
      some (if a == b then toString a else s!"nonconstant {a} {b}")
    | _, _, _ => some "bad-op"
  | ["col", sp, kind, a, b, c, d] =>
    match Space.ofName? sp, parseHexList [a, b, c, d] with
    | some s, some [a, b, c, d] => some (hexList (colorOp s kind a b c d) 8)
    | _, _ => some "bad-op"
  | ["c14b", sp, fn, lo, cnt] =>
    match Space.ofName? sp, parseHex? lo, parseHex? cnt with
    | some s, some lo, some cnt => some (toHex (c14Batch s fn lo cnt).toNat 16)
    | _, _, _ => some "bad-op"
  | ["xyzb", sp, dir, mode, st, cnt, step] =>
    match Space.ofName? sp, parseHex? st, parseHex? cnt, parseHex? step with
    | some s, some st, some cnt, some step => some (toHex (xyzBatch s dir mode st cnt step).toNat 16)
    | _, _, _, _ => some "bad-op"
  | ["c04", s1, s2, r, g, b, a] =>
    match Space.ofName? s1, Space.ofName? s2, parseHexList [r, g, b, a] with
    | some s1, some s2, some [r, g, b, a] =>
      some (hexList (px4 (convertPixel s1 s2 (pairAdapt s1 s2) r g b a)) 2)
    | _, _, _ => some "bad-op"
  | ["c04b", s1, s2, mode, st, cnt, step] =>
    match Space.ofName? s1, Space.ofName? s2, parseHex? st, parseHex? cnt, parseHex? step with
    | some s1, some s2, some st, some cnt, some step => some (toHex (c04Batch s1 s2 mode st cnt step).toNat 16)
    | _, _, _, _, _ => some "bad-op"
  | "adaptxyy" :: rest =>
    match parseHexList rest with
    | some l => if l.length == 6 then some (hexList (m3ToList (Xyz.adaptXYY (t3 l 0) (t3 l 3))) 16) else some "bad-op"
    | none => some "bad-op"
  | "adaptxyz" :: rest =>
    match parseHexList rest with
    | some l => if l.length == 6 then some (hexList (m3ToList (Xyz.adaptXYZ (t3 l 0) (t3 l 3))) 16) else some "bad-op"
    | none => some "bad-op"
  | "apply" :: rest =>
    match parseHexList rest with
    | some l =>
      if l.length == 12 then
        let (x, y, z) := Xyz.apply (listToM3 (l.take 9)) (t3 l 9)
        some (hexList [x, y, z] 8)
      else some "bad-op"
    | none => some "bad-op"
  | "fromxyy" :: rest =>
    match parseHexList rest with
    | some [x, y, yy] => let (a, b, c) := Xyz.fromXYY x y yy; some (hexList [a, b, c] 8)
    | _ => some "bad-op"
  | "m3inv" :: rest =>
    match parseHexList rest with
    | some l => if l.length == 9 then
        match Mat.inverse (listToM3 l) with
        | some m => some (hexList (m3ToList m) 16)
        | none => some "panic"
      else some "bad-op"
    | none => some "bad-op"
  | "m3mulm" :: rest =>
    match parseHexList rest with
    | some l => if l.length == 18 then some (hexList (m3ToList (Mat.mulM (listToM3 (l.take 9)) (listToM3 (l.drop 9)))) 16) else some "bad-op"
    | none => some "bad-op"
  | "m3mulv" :: rest =>
    match parseHexList rest with
    | some l => if l.length == 12 then
        let (a, b, c) := Mat.mulV (listToM3 (l.take 9)) (t3 l 9); some (hexList [a, b, c] 16)
      else some "bad-op"
    | none => some "bad-op"
  | "m3t" :: rest =>
    match parseHexList rest with
    | some l => if l.length == 9 then some (hexList (m3ToList (Mat.transpose (listToM3 l))) 16) else some "bad-op"
    | none => some "bad-op"
  | "primaries" :: dir :: rest =>
    match parseHexList rest with
    | some l => if l.length == 12 then
        let f := if dir == "to" then Xyz.transformToXYZ else Xyz.transformFromXYZ
        match f (t3 l 0) (t3 l 3) (t3 l 6) (t3 l 9) with
        | some m => some (hexList (m3ToList m) 16)
        | none => some "panic"
      else some "bad-op"
    | none => some "bad-op"
  | "tolab" :: rest =>
    match parseHexList rest with
    | some l => if l.length == 9 then
        let c := t3 l 0; let w := t3 l 3; let p := t3 l 6
        let (a, b, cc) := Xyz.toLAB c w p
        -- validate the observed Pow results that were used
        let chk := fun (v wp pw : Nat) =>
          let (_, r, used) := Xyz.componentToLAB v wp pw
          !used || cbrtOk r pw
        let ok := chk c.1 w.1 p.1 && chk c.2.1 w.2.1 p.2.1 && chk c.2.2 w.2.2 p.2.2
        some (hexList [a, b, cc] 8 ++ (if ok then "" else " powspec-violated"))
      else some "bad-op"
    | none => some "bad-op"
  | "fromlab" :: rest =>
    match parseHexList rest with
    | some l => if l.length == 9 then
        let lab := t3 l 0; let w := t3 l 3; let p := t3 l 6
        let (a, b, cc) := Xyz.fromLAB lab w p
        let (fx, fy, fz) := Xyz.labF lab
        let ok := cubeOk fx p.1 && cubeOk fy p.2.1 && cubeOk fz p.2.2
        some (hexList [a, b, cc] 8 ++ (if ok then "" else " powspec-violated"))
      else some "bad-op"
    | none => some "bad-op"
  | _ => none

end Prism.Ops
