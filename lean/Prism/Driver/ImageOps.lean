import Prism.Model.Util
import Prism.Model.Image
import Prism.Driver.BytesOps

/-! Driver operations for the image models. -/

namespace Prism.Ops
open Prism Img

/-- the injective bit-mixing probe (mirrored in the Go harness): any misplaced or altered pixel shows -/
def mixPx (c : Px) : Px :=
  ⟨(c.r * 31 + c.g * 7 + 11) % 65536, (c.g * 29 + c.b * 5 + 13) % 65536, (c.b * 27 + c.a * 3 + 17) % 65536,
   (c.a * 25 + c.r * 9 + 19) % 65536⟩

def fnPx (fn : String) : Option (Px → Px) :=
  match fn.splitOn ":" with
  | ["mix"] => some mixPx
  | ["id"] => some id
  | ["lin", sp] => (Space.ofName? sp).map fun s => fun c => lineariseColor s c.r c.g c.b c.a
  | ["enc", sp] => (Space.ofName? sp).map fun s => fun c => encodeColor s c.r c.g c.b c.a
  | _ => none

def parsePxs (b : ByteArray) : Array Px := Id.run do
  let n := b.size / 8
  let mut out : Array Px := Array.mkEmpty n
  for i in [0:n] do
    let g := fun (k : Nat) => (b.get! (8*i + k)).toNat * 256 + (b.get! (8*i + k + 1)).toNat
    out := out.push ⟨g 0, g 2, g 4, g 6⟩
  return out

def digestArr (a : Array UInt8) : String :=
  s!"{a.size}:{toHex (a.foldl (fun h x => (h ^^^ x.toUInt64) * 0x100000001b3) fnvInit).toNat 16}"

/-- order in which the modelled workers' steps are folded: worker 0's rows, then worker 1's, …
(one of the interleavings; the theorem says all give the same store) -/
def workerOrder (w h n : Nat) (src : Array Px) : List (Nat × Nat × Px) :=
  (List.range n).flatMap fun k =>
    (workerRows n h k).flatMap fun y =>
      (List.range w).map fun x => (x, y, src.getD (y * w + x) default)

def handleImage (toks : List String) : Option String :=
  match toks with
  | ["img", kind, stride, start, w, h, n, fn, pixh, srch] =>
    match Kind.ofName? kind, stride.toNat?, start.toNat?, w.toNat?, h.toNat?, n.toNat?, fnPx fn,
          parseHexBytes? pixh, parseHexBytes? srch with
    | some k, some stride, some start, some w, some h, some n, some f, some pix, some srcb =>
      let src := parsePxs srcb
      let d : Dst := { kind := k, pix := pix.data, start := start, stride := stride }
      let out := transform d f (workerOrder w h (if n == 0 then 1 else n) src)
      some (digestArr out)
    | _, _, _, _, _, _, _, _, _ => some "bad-op"
  | ["conv", target, w, h, srch] =>
    -- `draw.Draw(dst, r, src, r.Min, draw.Src)` into a fresh image: per-pixel model conversion
    match Kind.ofName? target, w.toNat?, h.toNat?, parseHexBytes? srch with
    | some k, some w, some h, some srcb =>
      let src := parsePxs srcb
      if k == .nrgba then
        -- an `*image.NRGBA` destination is written through `SetRGBA64`, not through the colour model
        let bytes := (src.toList.take (w * h)).flatMap fun c => let n := toNRGBA8Draw c; [lo n.r, lo n.g, lo n.b, lo n.a]
        some (digestArr (bytes ++ List.replicate (w * h * 4 - bytes.length) 0).toArray)
      else
      let d : Dst := { kind := k, pix := Array.replicate (w * h * k.bpp) 0, start := 0, stride := w * k.bpp }
      some (digestArr (transform d id (pixelsOf w src)))
    | _, _, _, _ => some "bad-op"
  | ["ycc", y, cb, cr] =>
    match y.toNat?, cb.toNat?, cr.toNat? with
    | some y, some cb, some cr =>
      let (r, g, b) := ycbcrToRGB y cb cr
      let p := ycbcrRGBA y cb cr
      some s!"{r} {g} {b} {p.r} {p.g} {p.b}"
    | _, _, _ => some "bad-op"
  | ["nrgba", r, g, b, a] =>
    match r.toNat?, g.toNat?, b.toNat?, a.toNat? with
    | some r, some g, some b, some a => let p := nrgbaRGBA r g b a; some s!"{p.r} {p.g} {p.b} {p.a}"
    | _, _, _, _ => some "bad-op"
  | _ => none

end Prism.Ops
