import Prism.Float.SFAcc

/-!
# A verified rounding-error calculus for linear float programs

An expression (`Ex`) over float variables, float constants, `mul`/`add`/`sub` in binary32 or
binary64 and conversions between the two is evaluated in two ways:

* `evalSF` — bit-exactly, with the executable softfloat (`SF.mul`, `SF.add`, …): this is what the
  model of prism computes (the model functions unfold to `evalSF` of an expression by `rfl`);
* `absInt` — abstractly: an *exact affine form* `c₀ + Σ cᵢ·xᵢ` in the variables (rational
  coefficients) together with an error bound that is itself affine in the size `M` of the input
  box (`|xᵢ| ≤ M·mᵢ`): `|float − exact| ≤ eA + eR·M`.

`absInt_sound` proves, by induction on the expression and from the accuracy theorems of
`SFAcc` (`mul_acc`, `add_acc`, `sub_acc`, `cvt_acc`), that the abstract result bounds the
softfloat result for **every** input in the box — every float32/float64 bit pattern — with no
sampling.  Multiplication must have an exact constant on one side (the programs of interest are
matrix–vector products with fixed coefficients); magnitudes are computed on the *combined*
affine form, so cancellation between correlated terms is not lost (interval arithmetic would lose
it).  A use is one kernel evaluation (`decide +kernel`) of `absInt` on the model's expression with
the regenerated constants substituted.
-/

namespace SF.EC
open SF

/-- format tags: binary32 / binary64 -/
inductive FT | s | d
deriving DecidableEq, Repr

def FT.fmt : FT → Fmt
  | .s => b32
  | .d => b64
def FT.top : FT → Nat
  | .s => 2 ^ 127
  | .d => 2 ^ 1023

theorem FT.ok (t : FT) : t.fmt.Ok := by cases t; exact b32_ok; exact b64_ok
theorem FT.isTop (t : FT) : t.fmt.Top t.top := by cases t; exact top32; exact top64

/-- unit round-off and half the least subnormal, as rational literals the kernel evaluates -/
def FT.epsQ : FT → ℚ
  | .s => 1 / ((2 ^ 24 : Nat) : ℚ)
  | .d => 1 / ((2 ^ 53 : Nat) : ℚ)
def FT.etaQ : FT → ℚ
  | .s => 1 / ((2 ^ 150 : Nat) : ℚ)
  | .d => 1 / ((2 ^ 1075 : Nat) : ℚ)

theorem FT.epsQ_eq (t : FT) : t.epsQ = eps t.fmt := by
  cases t <;> simp [FT.epsQ, eps, FT.fmt, b32, b64] <;> norm_num
theorem FT.etaQ_eq (t : FT) : t.etaQ = eta t.fmt := by
  cases t <;> simp [FT.etaQ, eta, FT.fmt, b32, b64, Fmt.K, Fmt.bias] <;> norm_num

inductive Ex
  | var (i : Nat)
  | const (t : FT) (bits : Nat)
  | mul (t : FT) (a b : Ex)
  | add (t : FT) (a b : Ex)
  | sub (t : FT) (a b : Ex)
  | cvt (src dst : FT) (a : Ex)

/-- bit-exact evaluation with the softfloat -/
def evalSF (env : Nat → Nat) : Ex → Nat
  | .var i => env i
  | .const _ b => b
  | .mul t a b => SF.mul t.fmt (evalSF env a) (evalSF env b)
  | .add t a b => SF.add t.fmt (evalSF env a) (evalSF env b)
  | .sub t a b => SF.sub t.fmt (evalSF env a) (evalSF env b)
  | .cvt s d a => SF.cvt s.fmt d.fmt (evalSF env a)

/-! ### Rational helpers (computable, kernel-friendly) -/

def qabs (x : ℚ) : ℚ := if x < 0 then -x else x

theorem qabs_eq (x : ℚ) : qabs x = |x| := by
  unfold qabs
  split
  · rename_i h; rw [abs_of_neg h]
  · rename_i h; rw [abs_of_nonneg (not_lt.mp h)]

theorem qabs_nonneg (x : ℚ) : 0 ≤ qabs x := by rw [qabs_eq]; exact abs_nonneg x

def linSum : List ℚ → Nat → (Nat → ℚ) → ℚ
  | [], _, _ => 0
  | c :: cs, i, x => c * x i + linSum cs (i + 1) x

/-- `Σ |cᵢ|·mᵢ` (missing `mᵢ` count as 0) -/
def magSum : List ℚ → List ℚ → ℚ
  | c :: cs, m :: ms => qabs c * m + magSum cs ms
  | _, _ => 0

def addL : List ℚ → List ℚ → List ℚ
  | a :: as, b :: bs => (a + b) :: addL as bs
  | [], bs => bs
  | as, [] => as

def scaleL (c : ℚ) : List ℚ → List ℚ
  | [] => []
  | a :: as => (c * a) :: scaleL c as

def unitL : Nat → List ℚ
  | 0 => [1]
  | n + 1 => 0 :: unitL n

def allZero : List ℚ → Bool
  | [] => true
  | a :: as => a == 0 && allZero as

theorem linSum_addL (a b : List ℚ) (i : Nat) (x : Nat → ℚ) :
    linSum (addL a b) i x = linSum a i x + linSum b i x := by
  induction a generalizing b i with
  | nil => simp [addL, linSum]
  | cons a as ih =>
    cases b with
    | nil => simp [addL, linSum]
    | cons b bs => simp only [addL, linSum, ih]; ring

theorem linSum_scaleL (c : ℚ) (a : List ℚ) (i : Nat) (x : Nat → ℚ) :
    linSum (scaleL c a) i x = c * linSum a i x := by
  induction a generalizing i with
  | nil => simp [scaleL, linSum]
  | cons a as ih => simp only [scaleL, linSum, ih]; ring

theorem linSum_unitL (k i : Nat) (x : Nat → ℚ) : linSum (unitL k) i x = x (i + k) := by
  induction k generalizing i with
  | zero => simp [unitL, linSum]
  | succ n ih => simp only [unitL, linSum, ih]; rw [zero_mul, zero_add]; congr 1; omega

theorem linSum_allZero (a : List ℚ) (i : Nat) (x : Nat → ℚ) (h : allZero a = true) : linSum a i x = 0 := by
  induction a generalizing i with
  | nil => rfl
  | cons a as ih =>
    simp only [allZero, Bool.and_eq_true, beq_iff_eq] at h
    simp only [linSum, h.1, ih (i + 1) h.2]; ring

theorem magSum_nonneg_aux (a m : List ℚ) (hm : ∀ j, 0 ≤ m.getD j 0) : 0 ≤ magSum a m := by
  induction a generalizing m with
  | nil => simp [magSum]
  | cons a as ih =>
    cases m with
    | nil => simp [magSum]
    | cons m ms =>
      simp only [magSum]
      have h0 : 0 ≤ m := by simpa using hm 0
      have := ih ms (fun j => by simpa using hm (j + 1))
      have := qabs_nonneg a
      positivity

/-- the affine form is bounded by its magnitude on the box `|x (i+j)| ≤ M·m[j]` -/
theorem linSum_le (a m : List ℚ) (i : Nat) (x : Nat → ℚ) (M : ℚ) (hM : 0 ≤ M)
    (hx : ∀ j, |x (i + j)| ≤ M * m.getD j 0) : |linSum a i x| ≤ M * magSum a m := by
  induction a generalizing m i with
  | nil => simp [linSum, magSum]
  | cons a as ih =>
    cases m with
    | nil =>
      have hz : ∀ j, x (i + j) = 0 := fun j => by
        have := hx j; simp at this; exact this
      have : linSum (a :: as) i x = 0 := by
        have h0 := hz 0
        simp only [Nat.add_zero] at h0
        have := ih [] (i + 1) (fun j => by
          have := hx (j + 1); simp at this ⊢; rw [show i + 1 + j = i + (j + 1) from by omega]; exact this)
        simp [magSum] at this
        simp [linSum, h0, this]
      rw [this]; simp [magSum]
    | cons m ms =>
      simp only [linSum, magSum]
      have h0 : |x i| ≤ M * m := by simpa using hx 0
      have ih' := ih ms (i + 1) (fun j => by
        have := hx (j + 1)
        rw [show i + 1 + j = i + (j + 1) from by omega]
        simpa using this)
      calc |a * x i + linSum as (i + 1) x| ≤ |a * x i| + |linSum as (i + 1) x| := abs_add_le _ _
        _ ≤ qabs a * (M * m) + M * magSum as ms := by
            rw [abs_mul, qabs_eq]
            exact add_le_add (mul_le_mul_of_nonneg_left h0 (abs_nonneg a)) ih'
        _ = M * (qabs a * m + magSum as ms) := by ring

/-! ### Abstract values -/

structure AV where
  lin : List ℚ
  c0 : ℚ
  eR : ℚ
  eA : ℚ

def AV.exact (v : AV) (x : Nat → ℚ) : ℚ := v.c0 + linSum v.lin 0 x

def AV.isConst (v : AV) : Bool := allZero v.lin && v.eR == 0 && v.eA == 0

/-- bound on the magnitude of the *float* value: `magA + magR·M` -/
def AV.magR (v : AV) (m : List ℚ) : ℚ := magSum v.lin m + v.eR
def AV.magA (v : AV) : ℚ := qabs v.c0 + v.eA

/-- the common tail of every rule: one rounding in format `t` of a value with exact form
`(lin, c0)` and incoming error `(eR, eA)` -/
def roundV (t : FT) (m : List ℚ) (Mmax : ℚ) (lin : List ℚ) (c0 eR eA : ℚ) : Option AV :=
  let magR := magSum lin m + eR
  let magA := qabs c0 + eA
  if magA + magR * Mmax ≤ (t.top : ℚ) then
    some ⟨lin, c0, eR + magR * t.epsQ, eA + magA * t.epsQ + t.etaQ⟩
  else none

def mulC (t : FT) (m : List ℚ) (Mmax : ℚ) (c : ℚ) (v : AV) : Option AV :=
  roundV t m Mmax (scaleL c v.lin) (c * v.c0) (qabs c * v.eR) (qabs c * v.eA)

def finB (t : FT) (b : Nat) : Bool :=
  Nat.blt (absBits t.fmt b) t.fmt.infBits && Nat.blt b (2 * t.fmt.signBit)

/-- abstract interpretation; variables are patterns of format `fv` -/
def absInt (fv : FT) (m : List ℚ) (Mmax : ℚ) : Ex → Option (FT × AV)
  | .var i => some (fv, ⟨unitL i, 0, 0, 0⟩)
  | .const t b => if finB t b then some (t, ⟨[], toQ t.fmt b, 0, 0⟩) else none
  | .mul t a b =>
    match absInt fv m Mmax a, absInt fv m Mmax b with
    | some (ta, x), some (tb, y) =>
      if ta = t ∧ tb = t then
        if x.isConst then (mulC t m Mmax x.c0 y).map (fun v => (t, v))
        else if y.isConst then (mulC t m Mmax y.c0 x).map (fun v => (t, v))
        else none
      else none
    | _, _ => none
  | .add t a b =>
    match absInt fv m Mmax a, absInt fv m Mmax b with
    | some (ta, x), some (tb, y) =>
      if ta = t ∧ tb = t then
        (roundV t m Mmax (addL x.lin y.lin) (x.c0 + y.c0) (x.eR + y.eR) (x.eA + y.eA)).map (fun v => (t, v))
      else none
    | _, _ => none
  | .sub t a b =>
    match absInt fv m Mmax a, absInt fv m Mmax b with
    | some (ta, x), some (tb, y) =>
      if ta = t ∧ tb = t then
        (roundV t m Mmax (addL x.lin (scaleL (-1) y.lin)) (x.c0 - y.c0) (x.eR + y.eR) (x.eA + y.eA)).map (fun v => (t, v))
      else none
    | _, _ => none
  | .cvt s d a =>
    match absInt fv m Mmax a with
    | some (ta, x) =>
      if ta = s then (roundV d m Mmax x.lin x.c0 x.eR x.eA).map (fun v => (d, v)) else none
    | none => none

/-! ### Soundness -/

/-- what an abstract value claims about a bit pattern -/
structure Sound (x : Nat → ℚ) (M : ℚ) (t : FT) (v : AV) (bits : Nat) : Prop where
  fin : Fin t.fmt bits
  err : |toQ t.fmt bits - v.exact x| ≤ v.eA + v.eR * M
  eR0 : 0 ≤ v.eR
  eA0 : 0 ≤ v.eA

/-- the rounding rule: a float result `r` within `relative eps + eta` of an exact real `E` whose
float operands' combination is within `(eR, eA)` of the affine form -/
theorem roundV_sound (t : FT) (m : List ℚ) (Mmax M : ℚ) (x : Nat → ℚ) (hM0 : 0 ≤ M) (hM : M ≤ Mmax)
    (hm : ∀ j, 0 ≤ m.getD j 0) (hx : ∀ j, |x j| ≤ M * m.getD j 0)
    (lin : List ℚ) (c0 eR eA : ℚ) (heR : 0 ≤ eR) (heA : 0 ≤ eA) (v : AV)
    (hv : roundV t m Mmax lin c0 eR eA = some v)
    (E : ℚ) (hE : |E - (c0 + linSum lin 0 x)| ≤ eA + eR * M)
    (r : Nat) (hr : |E| ≤ (t.top : ℚ) → Fin t.fmt r ∧ |toQ t.fmt r - E| ≤ |E| * eps t.fmt + eta t.fmt) :
    Sound x M t v r := by
  unfold roundV at hv
  simp only at hv
  split at hv
  · rename_i hg
    have hv' := (Option.some.inj hv).symm
    subst hv'
    have hlin := linSum_le lin m 0 x M hM0 (fun j => by simpa using hx j)
    have hms := magSum_nonneg_aux lin m hm
    have hex : |c0 + linSum lin 0 x| ≤ qabs c0 + M * magSum lin m := by
      calc |c0 + linSum lin 0 x| ≤ |c0| + |linSum lin 0 x| := abs_add_le _ _
        _ ≤ qabs c0 + M * magSum lin m := by rw [qabs_eq]; exact add_le_add le_rfl hlin
    have hEb : |E| ≤ (qabs c0 + eA) + (magSum lin m + eR) * M := by
      have : |E| ≤ |E - (c0 + linSum lin 0 x)| + |c0 + linSum lin 0 x| := by
        have := abs_add_le (E - (c0 + linSum lin 0 x)) (c0 + linSum lin 0 x)
        simpa using this
      linarith
    have hmagR : 0 ≤ magSum lin m + eR := by linarith
    have hEtop : |E| ≤ (t.top : ℚ) := by
      have : (magSum lin m + eR) * M ≤ (magSum lin m + eR) * Mmax := mul_le_mul_of_nonneg_left hM hmagR
      linarith
    obtain ⟨hfin, hacc⟩ := hr hEtop
    have he := eps_pos t.fmt
    have ht := eta_pos t.fmt
    have hq0 := qabs_nonneg c0
    refine ⟨hfin, ?_, ?_, ?_⟩
    · simp only [AV.exact]
      rw [FT.epsQ_eq, FT.etaQ_eq]
      have h1 : |toQ t.fmt r - (c0 + linSum lin 0 x)| ≤ |toQ t.fmt r - E| + |E - (c0 + linSum lin 0 x)| := by
        have := abs_add_le (toQ t.fmt r - E) (E - (c0 + linSum lin 0 x))
        simpa using this
      have h2 : |E| * eps t.fmt ≤ ((qabs c0 + eA) + (magSum lin m + eR) * M) * eps t.fmt :=
        mul_le_mul_of_nonneg_right hEb he.le
      nlinarith
    · rw [FT.epsQ_eq]; positivity
    · rw [FT.epsQ_eq, FT.etaQ_eq]; positivity
  · exact absurd hv (by simp)

theorem finB_sound (t : FT) (b : Nat) (h : finB t b = true) : Fin t.fmt b := by
  unfold finB at h
  simp only [Bool.and_eq_true, Nat.blt_eq] at h
  exact ⟨h.1, h.2⟩

theorem isConst_sound (x : Nat → ℚ) (M : ℚ) (t : FT) (v : AV) (bits : Nat) (h : v.isConst = true)
    (hs : Sound x M t v bits) : toQ t.fmt bits = v.c0 := by
  unfold AV.isConst at h
  simp only [Bool.and_eq_true, beq_iff_eq] at h
  obtain ⟨⟨h1, h2⟩, h3⟩ := h
  have := hs.err
  simp only [AV.exact, linSum_allZero _ _ _ h1, h2, h3, add_zero, zero_mul, abs_nonpos_iff] at this
  linarith

/-- **Soundness of the error calculus.**  For every assignment of finite bit patterns to the
variables whose values lie in the box `|xᵢ| ≤ M·mᵢ` (`0 ≤ M ≤ Mmax`), if the abstract interpreter
returns `(t, v)` for `e`, then the softfloat evaluation of `e` is a finite pattern of format `t`
whose value is within `v.eA + v.eR·M` of the exact affine form `v.exact`. -/
theorem absInt_sound (fv : FT) (m : List ℚ) (Mmax M : ℚ) (env : Nat → Nat) (hM0 : 0 ≤ M) (hM : M ≤ Mmax)
    (hm : ∀ j, 0 ≤ m.getD j 0)
    (henv : ∀ i, Fin fv.fmt (env i) ∧ |toQ fv.fmt (env i)| ≤ M * m.getD i 0) :
    ∀ (e : Ex) (t : FT) (v : AV), absInt fv m Mmax e = some (t, v) →
      Sound (fun i => toQ fv.fmt (env i)) M t v (evalSF env e) := by
  intro e
  induction e with
  | var i =>
    intro t v h
    simp only [absInt, Option.some.injEq, Prod.mk.injEq] at h
    obtain ⟨rfl, rfl⟩ := h
    refine ⟨(henv i).1, ?_, le_rfl, le_rfl⟩
    simp [AV.exact, linSum_unitL, evalSF]
  | const t0 b =>
    intro t v h
    simp only [absInt] at h
    split at h
    · rename_i hf
      simp only [Option.some.injEq, Prod.mk.injEq] at h
      obtain ⟨rfl, rfl⟩ := h
      refine ⟨finB_sound _ _ hf, ?_, le_rfl, le_rfl⟩
      simp [AV.exact, linSum, evalSF]
    · exact absurd h (by simp)
  | mul t0 a b iha ihb =>
    intro t v h
    simp only [absInt] at h
    split at h
    · rename_i ta x tb y ha hb
      split at h
      · rename_i hte
        obtain ⟨h1, h2⟩ := hte
        subst ta
        subst tb
        have sa := iha _ _ ha
        have sb := ihb _ _ hb
        split at h
        · rename_i hc
          simp only [Option.map_eq_some_iff, Prod.mk.injEq] at h
          obtain ⟨v', hv', ht, hvv⟩ := h
          subst t
          subst v
          have hca := isConst_sound _ _ _ _ _ hc sa
          unfold mulC at hv'
          refine roundV_sound t0 m Mmax M _ hM0 hM hm (fun j => (henv j).2) _ _ _ _
            (mul_nonneg (qabs_nonneg _) sb.eR0) (mul_nonneg (qabs_nonneg _) sb.eA0) v' hv'
            (toQ t0.fmt (evalSF env a) * toQ t0.fmt (evalSF env b)) ?_ _
            (fun hb' => mul_acc t0.fmt t0.ok t0.top t0.isTop _ _ sa.fin sb.fin hb')
          rw [hca, linSum_scaleL, qabs_eq]
          have := sb.err
          simp only [AV.exact] at this
          calc |x.c0 * toQ t0.fmt (evalSF env b) - (x.c0 * y.c0 + x.c0 * linSum y.lin 0 _)|
              = |x.c0| * |toQ t0.fmt (evalSF env b) - (y.c0 + linSum y.lin 0 _)| := by rw [← abs_mul]; congr 1; ring
            _ ≤ |x.c0| * (y.eA + y.eR * M) := mul_le_mul_of_nonneg_left this (abs_nonneg _)
            _ = |x.c0| * y.eA + |x.c0| * y.eR * M := by ring
        · split at h
          · rename_i hc
            simp only [Option.map_eq_some_iff, Prod.mk.injEq] at h
            obtain ⟨v', hv', ht, hvv⟩ := h
            subst t
            subst v
            have hcb := isConst_sound _ _ _ _ _ hc sb
            unfold mulC at hv'
            refine roundV_sound t0 m Mmax M _ hM0 hM hm (fun j => (henv j).2) _ _ _ _
              (mul_nonneg (qabs_nonneg _) sa.eR0) (mul_nonneg (qabs_nonneg _) sa.eA0) v' hv'
              (toQ t0.fmt (evalSF env a) * toQ t0.fmt (evalSF env b)) ?_ _
              (fun hb' => mul_acc t0.fmt t0.ok t0.top t0.isTop _ _ sa.fin sb.fin hb')
            rw [hcb, linSum_scaleL, qabs_eq]
            have := sa.err
            simp only [AV.exact] at this
            calc |toQ t0.fmt (evalSF env a) * y.c0 - (y.c0 * x.c0 + y.c0 * linSum x.lin 0 _)|
                = |y.c0| * |toQ t0.fmt (evalSF env a) - (x.c0 + linSum x.lin 0 _)| := by rw [← abs_mul]; congr 1; ring
              _ ≤ |y.c0| * (x.eA + x.eR * M) := mul_le_mul_of_nonneg_left this (abs_nonneg _)
              _ = |y.c0| * x.eA + |y.c0| * x.eR * M := by ring
          · exact absurd h (by simp)
      · exact absurd h (by simp)
    · exact absurd h (by simp)
  | add t0 a b iha ihb =>
    intro t v h
    simp only [absInt] at h
    split at h
    · rename_i ta x tb y ha hb
      split at h
      · rename_i hte
        obtain ⟨h1, h2⟩ := hte
        subst ta
        subst tb
        have sa := iha _ _ ha
        have sb := ihb _ _ hb
        simp only [Option.map_eq_some_iff, Prod.mk.injEq] at h
        obtain ⟨v', hv', ht, hvv⟩ := h
        subst t
        subst v
        refine roundV_sound t0 m Mmax M _ hM0 hM hm (fun j => (henv j).2) _ _ _ _
          (add_nonneg sa.eR0 sb.eR0) (add_nonneg sa.eA0 sb.eA0) v' hv'
          (toQ t0.fmt (evalSF env a) + toQ t0.fmt (evalSF env b)) ?_ _
          (fun hb' => add_acc t0.fmt t0.ok t0.top t0.isTop _ _ sa.fin sb.fin hb')
        rw [linSum_addL]
        have h1 := sa.err
        have h2 := sb.err
        simp only [AV.exact] at h1 h2
        have := abs_add_le (toQ t0.fmt (evalSF env a) - (x.c0 + linSum x.lin 0 fun i => toQ fv.fmt (env i)))
          (toQ t0.fmt (evalSF env b) - (y.c0 + linSum y.lin 0 fun i => toQ fv.fmt (env i)))
        calc _ = |(toQ t0.fmt (evalSF env a) - (x.c0 + linSum x.lin 0 fun i => toQ fv.fmt (env i))) +
                  (toQ t0.fmt (evalSF env b) - (y.c0 + linSum y.lin 0 fun i => toQ fv.fmt (env i)))| := by congr 1; ring
          _ ≤ _ := this
          _ ≤ (x.eA + x.eR * M) + (y.eA + y.eR * M) := add_le_add h1 h2
          _ = x.eA + y.eA + (x.eR + y.eR) * M := by ring
      · exact absurd h (by simp)
    · exact absurd h (by simp)
  | sub t0 a b iha ihb =>
    intro t v h
    simp only [absInt] at h
    split at h
    · rename_i ta x tb y ha hb
      split at h
      · rename_i hte
        obtain ⟨h1, h2⟩ := hte
        subst ta
        subst tb
        have sa := iha _ _ ha
        have sb := ihb _ _ hb
        simp only [Option.map_eq_some_iff, Prod.mk.injEq] at h
        obtain ⟨v', hv', ht, hvv⟩ := h
        subst t
        subst v
        refine roundV_sound t0 m Mmax M _ hM0 hM hm (fun j => (henv j).2) _ _ _ _
          (add_nonneg sa.eR0 sb.eR0) (add_nonneg sa.eA0 sb.eA0) v' hv'
          (toQ t0.fmt (evalSF env a) - toQ t0.fmt (evalSF env b)) ?_ _
          (fun hb' => sub_acc t0.fmt t0.ok t0.top t0.isTop _ _ sa.fin sb.fin hb')
        rw [linSum_addL, linSum_scaleL]
        have h1 := sa.err
        have h2 := sb.err
        simp only [AV.exact] at h1 h2
        have := abs_sub (toQ t0.fmt (evalSF env a) - (x.c0 + linSum x.lin 0 fun i => toQ fv.fmt (env i)))
          (toQ t0.fmt (evalSF env b) - (y.c0 + linSum y.lin 0 fun i => toQ fv.fmt (env i)))
        calc _ = |(toQ t0.fmt (evalSF env a) - (x.c0 + linSum x.lin 0 fun i => toQ fv.fmt (env i))) -
                  (toQ t0.fmt (evalSF env b) - (y.c0 + linSum y.lin 0 fun i => toQ fv.fmt (env i)))| := by congr 1; ring
          _ ≤ _ := this
          _ ≤ (x.eA + x.eR * M) + (y.eA + y.eR * M) := add_le_add h1 h2
          _ = x.eA + y.eA + (x.eR + y.eR) * M := by ring
      · exact absurd h (by simp)
    · exact absurd h (by simp)
  | cvt s d a iha =>
    intro t v h
    simp only [absInt] at h
    split at h
    · rename_i ta x ha
      split at h
      · rename_i hte
        subst ta
        have sa := iha _ _ ha
        simp only [Option.map_eq_some_iff, Prod.mk.injEq] at h
        obtain ⟨v', hv', ht, hvv⟩ := h
        subst t
        subst v
        refine roundV_sound d m Mmax M _ hM0 hM hm (fun j => (henv j).2) _ _ _ _
          sa.eR0 sa.eA0 v' hv' (toQ s.fmt (evalSF env a)) sa.err _
          (fun hb' => cvt_acc s.fmt d.fmt s.ok d.ok d.top d.isTop _ sa.fin hb')
      · exact absurd h (by simp)
    · exact absurd h (by simp)

end SF.EC

/-! ### Comparing a float program with a target linear map -/

namespace SF.EC
open SF

/-- error bound `(slope, const)` of the binary32 program `e` against the exact linear form
`Σ targetᵢ·xᵢ`: the float error of the calculus plus the distance between the program's exact
affine form and the target on the box -/
def targetBound (e : Ex) (target : List ℚ) (m : List ℚ) (Mmax : ℚ) : Option (ℚ × ℚ) :=
  match absInt .s m Mmax e with
  | some (.s, v) => some (v.eR + magSum (addL v.lin (scaleL (-1) target)) m, v.eA + qabs v.c0)
  | _ => none

theorem targetBound_sound (e : Ex) (target m : List ℚ) (Mmax sl cn : ℚ)
    (h : targetBound e target m Mmax = some (sl, cn))
    (M : ℚ) (env : Nat → Nat) (hM0 : 0 ≤ M) (hM : M ≤ Mmax) (hm : ∀ j, 0 ≤ m.getD j 0)
    (henv : ∀ i, Fin b32 (env i) ∧ |toQ b32 (env i)| ≤ M * m.getD i 0) :
    Fin b32 (evalSF env e) ∧
      |toQ b32 (evalSF env e) - linSum target 0 (fun i => toQ b32 (env i))| ≤ sl * M + cn := by
  unfold targetBound at h
  split at h
  · rename_i v hv
    simp only [Option.some.injEq, Prod.mk.injEq] at h
    obtain ⟨rfl, rfl⟩ := h
    have s := absInt_sound .s m Mmax M env hM0 hM hm henv e .s v hv
    refine ⟨s.fin, ?_⟩
    have h1 := s.err
    simp only [AV.exact] at h1
    have h2 := linSum_le (addL v.lin (scaleL (-1) target)) m 0 (fun i => toQ b32 (env i)) M hM0
      (fun j => by simpa using (henv j).2)
    rw [linSum_addL, linSum_scaleL] at h2
    have h3 : |v.c0| = qabs v.c0 := (qabs_eq _).symm
    have hx : FT.s.fmt = b32 := rfl
    rw [hx] at h1
    set X := linSum v.lin 0 fun i => toQ b32 (env i)
    set T := linSum target 0 fun i => toQ b32 (env i)
    set r := toQ b32 (evalSF env e)
    have : |r - T| ≤ |r - (v.c0 + X)| + |v.c0| + |X + -1 * T| := by
      have e1 : r - T = (r - (v.c0 + X)) + v.c0 + (X + -1 * T) := by ring
      rw [e1]
      exact (abs_add_le _ _).trans (add_le_add (abs_add_le _ _) le_rfl)
    nlinarith
  · exact absurd h (by simp)

end SF.EC
