import Prism.Float.ErrCalc

/-!
# A verified interval + rounding-error calculus for non-linear float programs

`ErrCalc` handles programs that are linear in their inputs (matrix–vector products with fixed
coefficients) and keeps exact affine forms.  Programs that are **non-linear in their inputs** —
a ratio of two matrix–vector products, a product of two computed matrices (chromatic adaptation
built from two white points) — need division and products of two non-constant operands.  This
calculus tracks, for every sub-expression over a box of inputs,

* an interval `[lo, hi]` containing the **exact** value (the expression read over ℚ, with every
  constant replaced by the exact rational it stands for), and
* a bound `err` on `|float − exact|`,

and is proved sound (`absI_sound`) from the same accuracy theorems (`mul_acc`, `add_acc`,
`sub_acc`, `div_acc`, `cvt_acc`) for every assignment of finite float32 bit patterns in the box.
Intervals lose correlation (they are used for magnitudes only); the error bound is what is
claimed.  Division requires a denominator interval strictly above its own error bound.
-/

namespace SF.IC
open SF SF.EC

inductive Ex
  | var (i : Nat)                              -- a float32 input
  | const (t : FT) (bits : Nat) (q : ℚ)        -- a float constant standing for the exact rational `q`
  | mul (t : FT) (a b : Ex)
  | add (t : FT) (a b : Ex)
  | sub (t : FT) (a b : Ex)
  | div (t : FT) (a b : Ex)
  | neg (t : FT) (a : Ex)
  | cvt (src dst : FT) (a : Ex)

/-- bit-exact evaluation with the softfloat -/
def evalSF (env : Nat → Nat) : Ex → Nat
  | .var i => env i
  | .const _ b _ => b
  | .mul t a b => SF.mul t.fmt (evalSF env a) (evalSF env b)
  | .add t a b => SF.add t.fmt (evalSF env a) (evalSF env b)
  | .sub t a b => SF.sub t.fmt (evalSF env a) (evalSF env b)
  | .div t a b => SF.div t.fmt (evalSF env a) (evalSF env b)
  | .neg t a => SF.neg t.fmt (evalSF env a)
  | .cvt s d a => SF.cvt s.fmt d.fmt (evalSF env a)

/-- the exact value: the same expression over ℚ, constants as the rationals they stand for -/
def evalQ (x : Nat → ℚ) : Ex → ℚ
  | .var i => x i
  | .const _ _ q => q
  | .mul _ a b => evalQ x a * evalQ x b
  | .add _ a b => evalQ x a + evalQ x b
  | .sub _ a b => evalQ x a - evalQ x b
  | .div _ a b => evalQ x a / evalQ x b
  | .neg _ a => - evalQ x a
  | .cvt _ _ a => evalQ x a

structure IV where
  lo : ℚ
  hi : ℚ
  err : ℚ

def qmin (a b : ℚ) : ℚ := if a ≤ b then a else b
def qmax (a b : ℚ) : ℚ := if a ≤ b then b else a

theorem qmin_le_left (a b : ℚ) : qmin a b ≤ a := by unfold qmin; split <;> linarith
theorem qmin_le_right (a b : ℚ) : qmin a b ≤ b := by unfold qmin; split <;> linarith
theorem le_qmax_left (a b : ℚ) : a ≤ qmax a b := by unfold qmax; split <;> linarith
theorem le_qmax_right (a b : ℚ) : b ≤ qmax a b := by unfold qmax; split <;> linarith

/-- bound on `|exact|` -/
def IV.mag (v : IV) : ℚ := qmax (qabs v.lo) (qabs v.hi)
/-- bound on `|float|` -/
def IV.fmag (v : IV) : ℚ := v.mag + v.err

theorem abs_le_mag (v : IV) (x : ℚ) (h1 : v.lo ≤ x) (h2 : x ≤ v.hi) : |x| ≤ v.mag := by
  unfold IV.mag
  rw [abs_le]
  have a1 := le_qmax_left (qabs v.lo) (qabs v.hi)
  have a2 := le_qmax_right (qabs v.lo) (qabs v.hi)
  have e1 := qabs_eq v.lo
  have e2 := qabs_eq v.hi
  constructor
  · have := neg_abs_le v.lo; linarith
  · have := le_abs_self v.hi; linarith

theorem mag_nonneg (v : IV) : 0 ≤ v.mag := by
  unfold IV.mag
  exact le_trans (qabs_nonneg v.lo) (le_qmax_left _ _)

def min4 (a b c d : ℚ) : ℚ := qmin (qmin a b) (qmin c d)
def max4 (a b c d : ℚ) : ℚ := qmax (qmax a b) (qmax c d)

/-- the product of two numbers in intervals lies between the extreme corner products -/
theorem mul_mem (a b c d x y : ℚ) (hx1 : a ≤ x) (hx2 : x ≤ b) (hy1 : c ≤ y) (hy2 : y ≤ d) :
    min4 (a * c) (a * d) (b * c) (b * d) ≤ x * y ∧ x * y ≤ max4 (a * c) (a * d) (b * c) (b * d) := by
  have l1 := qmin_le_left (qmin (a * c) (a * d)) (qmin (b * c) (b * d))
  have l2 := qmin_le_right (qmin (a * c) (a * d)) (qmin (b * c) (b * d))
  have l3 := qmin_le_left (a * c) (a * d)
  have l4 := qmin_le_right (a * c) (a * d)
  have l5 := qmin_le_left (b * c) (b * d)
  have l6 := qmin_le_right (b * c) (b * d)
  have u1 := le_qmax_left (qmax (a * c) (a * d)) (qmax (b * c) (b * d))
  have u2 := le_qmax_right (qmax (a * c) (a * d)) (qmax (b * c) (b * d))
  have u3 := le_qmax_left (a * c) (a * d)
  have u4 := le_qmax_right (a * c) (a * d)
  have u5 := le_qmax_left (b * c) (b * d)
  have u6 := le_qmax_right (b * c) (b * d)
  unfold min4 max4
  -- x*y is between a*y and b*y; each of those between the corners
  rcases le_total 0 y with hy | hy
  · have p1 : a * y ≤ x * y := mul_le_mul_of_nonneg_right hx1 hy
    have p2 : x * y ≤ b * y := mul_le_mul_of_nonneg_right hx2 hy
    rcases le_total 0 a with ha | ha
    · have q1 : a * c ≤ a * y := mul_le_mul_of_nonneg_left hy1 ha
      rcases le_total 0 b with hb | hb
      · have q2 : b * y ≤ b * d := mul_le_mul_of_nonneg_left hy2 hb
        constructor <;> linarith
      · have q2 : b * y ≤ b * c := mul_le_mul_of_nonpos_left hy1 hb
        constructor <;> linarith
    · have q1 : a * d ≤ a * y := mul_le_mul_of_nonpos_left hy2 ha
      rcases le_total 0 b with hb | hb
      · have q2 : b * y ≤ b * d := mul_le_mul_of_nonneg_left hy2 hb
        constructor <;> linarith
      · have q2 : b * y ≤ b * c := mul_le_mul_of_nonpos_left hy1 hb
        constructor <;> linarith
  · have p1 : b * y ≤ x * y := mul_le_mul_of_nonpos_right hx2 hy
    have p2 : x * y ≤ a * y := mul_le_mul_of_nonpos_right hx1 hy
    rcases le_total 0 b with hb | hb
    · have q1 : b * c ≤ b * y := mul_le_mul_of_nonneg_left hy1 hb
      rcases le_total 0 a with ha | ha
      · have q2 : a * y ≤ a * d := mul_le_mul_of_nonneg_left hy2 ha
        constructor <;> linarith
      · have q2 : a * y ≤ a * c := mul_le_mul_of_nonpos_left hy1 ha
        constructor <;> linarith
    · have q1 : b * d ≤ b * y := mul_le_mul_of_nonpos_left hy2 hb
      rcases le_total 0 a with ha | ha
      · have q2 : a * y ≤ a * d := mul_le_mul_of_nonneg_left hy2 ha
        constructor <;> linarith
      · have q2 : a * y ≤ a * c := mul_le_mul_of_nonpos_left hy1 ha
        constructor <;> linarith

/-- one rounding: new error from the incoming error `e0` and the magnitude bound `m` of the exact operation on
the float operands -/
def roundE (t : FT) (e0 m : ℚ) : ℚ := e0 + m * t.epsQ + t.etaQ

def negIV (v : IV) : IV := ⟨-v.hi, -v.lo, v.err⟩

/-- division with a denominator interval strictly above its own error bound -/
def divPos (t : FT) (x y : IV) : Option IV :=
  if 0 < y.lo - y.err ∧ 0 ≤ x.err ∧ 0 ≤ y.err then
    let il := 1 / y.hi
    let ih := 1 / y.lo
    let lo := min4 (x.lo * il) (x.lo * ih) (x.hi * il) (x.hi * ih)
    let hi := max4 (x.lo * il) (x.lo * ih) (x.hi * il) (x.hi * ih)
    let dl := y.lo - y.err
    let m := x.fmag / dl
    if m ≤ (t.top : ℚ) then
      some ⟨lo, hi, roundE t ((x.err * y.hi + x.mag * y.err) / (dl * y.lo)) m⟩
    else none
  else none

/-- abstract interpretation over the box `box i = (lo, hi)` of the float32 inputs -/
def absI (box : Nat → ℚ × ℚ) : Ex → Option (FT × IV)
  | .var i => some (.s, ⟨(box i).1, (box i).2, 0⟩)
  | .const t b q => if finB t b then some (t, ⟨q, q, qabs (toQ t.fmt b - q)⟩) else none
  | .add t a b =>
    match absI box a, absI box b with
    | some (ta, x), some (tb, y) =>
      if ta = t ∧ tb = t then
        let lo := x.lo + y.lo
        let hi := x.hi + y.hi
        let m := qmax (qabs lo) (qabs hi) + (x.err + y.err)
        if m ≤ (t.top : ℚ) then some (t, ⟨lo, hi, roundE t (x.err + y.err) m⟩) else none
      else none
    | _, _ => none
  | .sub t a b =>
    match absI box a, absI box b with
    | some (ta, x), some (tb, y) =>
      if ta = t ∧ tb = t then
        let lo := x.lo - y.hi
        let hi := x.hi - y.lo
        let m := qmax (qabs lo) (qabs hi) + (x.err + y.err)
        if m ≤ (t.top : ℚ) then some (t, ⟨lo, hi, roundE t (x.err + y.err) m⟩) else none
      else none
    | _, _ => none
  | .mul t a b =>
    match absI box a, absI box b with
    | some (ta, x), some (tb, y) =>
      if ta = t ∧ tb = t then
        let lo := min4 (x.lo * y.lo) (x.lo * y.hi) (x.hi * y.lo) (x.hi * y.hi)
        let hi := max4 (x.lo * y.lo) (x.lo * y.hi) (x.hi * y.lo) (x.hi * y.hi)
        let m := x.fmag * y.fmag
        if m ≤ (t.top : ℚ) then some (t, ⟨lo, hi, roundE t (x.err * y.fmag + x.mag * y.err) m⟩) else none
      else none
    | _, _ => none
  | .div t a b =>
    match absI box a, absI box b with
    | some (ta, x), some (tb, y) =>
      if ta = t ∧ tb = t then
        match divPos t x y with
        | some v => some (t, v)
        | none => (divPos t (negIV x) (negIV y)).map (fun v => (t, v))
      else none
    | _, _ => none
  | .neg t a =>
    match absI box a with
    | some (ta, x) => if ta = t then some (t, negIV x) else none
    | none => none
  | .cvt src dst a =>
    match absI box a with
    | some (ta, x) =>
      if ta = src then
        let m := x.fmag
        if m ≤ (dst.top : ℚ) then some (dst, ⟨x.lo, x.hi, roundE dst x.err m⟩) else none
      else none
    | none => none

/-- what an abstract value claims about a bit pattern -/
structure Sound (x : Nat → ℚ) (e : Ex) (t : FT) (v : IV) (bits : Nat) : Prop where
  fin : Fin t.fmt bits
  lo : v.lo ≤ evalQ x e
  hi : evalQ x e ≤ v.hi
  err : |toQ t.fmt bits - evalQ x e| ≤ v.err
  err0 : 0 ≤ v.err

theorem Sound.fabs {x e t v bits} (h : Sound x e t v bits) : |toQ t.fmt bits| ≤ v.fmag := by
  have h1 := abs_le_mag v _ h.lo h.hi
  have := abs_add_le (toQ t.fmt bits - evalQ x e) (evalQ x e)
  simp only [sub_add_cancel] at this
  unfold IV.fmag
  linarith [h.err]

theorem roundE_ge (t : FT) (e0 m : ℚ) (he : 0 ≤ e0) (hm : 0 ≤ m) : 0 ≤ roundE t e0 m := by
  unfold roundE
  rw [FT.epsQ_eq, FT.etaQ_eq]
  have := eps_pos t.fmt
  have := eta_pos t.fmt
  positivity

/-- a rounded operation: float result `r` of an operation whose exact value on the *float* operands is `E`,
`|E| ≤ m`, and whose exact value on the exact operands is `T`, `|E − T| ≤ e0` -/
theorem round_step (t : FT) (r : Nat) (E T e0 m : ℚ) (hE : |E| ≤ m) (hET : |E - T| ≤ e0)
    (hacc : |toQ t.fmt r - E| ≤ |E| * eps t.fmt + eta t.fmt) : |toQ t.fmt r - T| ≤ roundE t e0 m := by
  unfold roundE
  rw [FT.epsQ_eq, FT.etaQ_eq]
  have h1 := abs_sub_le (toQ t.fmt r) E T
  have h2 : |E| * eps t.fmt ≤ m * eps t.fmt := mul_le_mul_of_nonneg_right hE (eps_pos t.fmt).le
  linarith

theorem toQ_ne_zero_abs' (f : Fmt) (b : Nat) (h : toQ f b ≠ 0) : absBits f b ≠ 0 := by
  intro hc
  apply h
  have : valQ f b = 0 := by rw [← valQ_abs, hc, valQ_zero]
  unfold toQ; rw [this]; simp

/-- soundness of `divPos`.  The float operands `a b` have values `A, B` with `σ·A`, `σ·B` within the error bounds of exact
values `qa, qb` lying in the intervals `x, y`; `σ = ±1` lets the same lemma serve negative denominators (`A/B = (−A)/(−B)`). -/
theorem divPos_sound (t0 : FT) (x y v : IV) (hv : divPos t0 x y = some v) (a b : Nat) (qa qb : ℚ)
    (fa : Fin t0.fmt a) (fb : Fin t0.fmt b)
    (hqa1 : x.lo ≤ qa) (hqa2 : qa ≤ x.hi) (hqb1 : y.lo ≤ qb) (hqb2 : qb ≤ y.hi)
    (σ : ℚ) (hσ : σ = 1 ∨ σ = -1)
    (hA : |σ * toQ t0.fmt a - qa| ≤ x.err) (hB : |σ * toQ t0.fmt b - qb| ≤ y.err) :
    Fin t0.fmt (SF.div t0.fmt a b) ∧ v.lo ≤ qa / qb ∧ qa / qb ≤ v.hi ∧
    |toQ t0.fmt (SF.div t0.fmt a b) - qa / qb| ≤ v.err ∧ 0 ≤ v.err := by
  unfold divPos at hv
  split at hv
  · rename_i hc
    obtain ⟨hpos, hxe, hye⟩ := hc
    simp only at hv
    split at hv
    · rename_i hm
      have hv' := (Option.some.inj hv).symm
      subst hv'
      set A := σ * toQ t0.fmt a with hAd
      set B := σ * toQ t0.fmt b with hBd
      have hσ0 : σ ≠ 0 := by rcases hσ with h | h <;> rw [h] <;> norm_num
      have hquot : toQ t0.fmt a / toQ t0.fmt b = A / B := by
        rw [hAd, hBd, mul_div_mul_left _ _ hσ0]
      have hylo : 0 < y.lo := by linarith
      have hqb : 0 < qb := lt_of_lt_of_le hylo hqb1
      have hBlo : y.lo - y.err ≤ B := by
        have := (abs_le.mp hB).1
        linarith
      have hBpos : 0 < B := lt_of_lt_of_le hpos hBlo
      have hb0 : toQ t0.fmt b ≠ 0 := by
        intro hz; rw [hBd, hz, mul_zero] at hBpos; exact lt_irrefl _ hBpos
      have hB0 : absBits t0.fmt b ≠ 0 := toQ_ne_zero_abs' _ _ hb0
      have hAabs : |A| ≤ x.fmag := by
        have h1 := abs_le_mag x qa hqa1 hqa2
        have := abs_add_le (A - qa) qa
        simp only [sub_add_cancel] at this
        unfold IV.fmag; linarith
      have hqaabs := abs_le_mag x qa hqa1 hqa2
      have hinv1 : 1 / y.hi ≤ 1 / qb := one_div_le_one_div_of_le hqb hqb2
      have hinv2 : 1 / qb ≤ 1 / y.lo := one_div_le_one_div_of_le hylo hqb1
      obtain ⟨hlo, hhi⟩ := mul_mem _ _ _ _ qa (1 / qb) hqa1 hqa2 hinv1 hinv2
      have eq1 : qa * (1 / qb) = qa / qb := by ring
      rw [eq1] at hlo hhi
      have hE : |A / B| ≤ x.fmag / (y.lo - y.err) := by
        rw [abs_div, abs_of_pos hBpos]
        exact div_le_div₀ (le_trans (abs_nonneg _) hAabs) hAabs hpos hBlo
      have hET : |A / B - qa / qb| ≤ (x.err * y.hi + x.mag * y.err) / ((y.lo - y.err) * y.lo) := by
        have e : A / B - qa / qb = ((A - qa) * qb - qa * (B - qb)) / (B * qb) := by
          field_simp; ring
        rw [e, abs_div, abs_of_pos (mul_pos hBpos hqb)]
        have hnum : |(A - qa) * qb - qa * (B - qb)| ≤ x.err * y.hi + x.mag * y.err := by
          have t1 := abs_sub ((A - qa) * qb) (qa * (B - qb))
          have t2 : |(A - qa) * qb| ≤ x.err * y.hi := by
            rw [abs_mul, abs_of_pos hqb]; exact mul_le_mul hA hqb2 hqb.le hxe
          have t3 : |qa * (B - qb)| ≤ x.mag * y.err := by
            rw [abs_mul]; exact mul_le_mul hqaabs hB (abs_nonneg _) (mag_nonneg x)
          linarith
        have hden : (y.lo - y.err) * y.lo ≤ B * qb := mul_le_mul hBlo hqb1 hylo.le hBpos.le
        have hnn : 0 ≤ x.err * y.hi + x.mag * y.err := by
          have := mag_nonneg x
          have : 0 < y.hi := lt_of_lt_of_le hqb hqb2
          positivity
        exact div_le_div₀ hnn hnum (mul_pos hpos hylo) hden
      have hbound : |toQ t0.fmt a / toQ t0.fmt b| ≤ (t0.top : ℚ) := by rw [hquot]; exact le_trans hE hm
      obtain ⟨hfin, hacc⟩ := div_acc t0.fmt t0.ok t0.top t0.isTop _ _ fa fb hB0 hbound
      rw [hquot] at hacc
      refine ⟨hfin, hlo, hhi, round_step t0 _ _ _ _ _ hE hET hacc, ?_⟩
      refine roundE_ge _ _ _ ?_ (le_trans (abs_nonneg _) hE)
      have := mag_nonneg x
      have : 0 < (y.lo - y.err) * y.lo := mul_pos hpos hylo
      have : 0 < y.hi := lt_of_lt_of_le hqb hqb2
      positivity
    · exact absurd hv (by simp)
  · exact absurd hv (by simp)

/-- **Soundness of the interval + error calculus.** -/
theorem absI_sound (box : Nat → ℚ × ℚ) (env : Nat → Nat)
    (henv : ∀ i, Fin b32 (env i) ∧ (box i).1 ≤ toQ b32 (env i) ∧ toQ b32 (env i) ≤ (box i).2) :
    ∀ (e : Ex) (t : FT) (v : IV), absI box e = some (t, v) →
      Sound (fun i => toQ b32 (env i)) e t v (evalSF env e) := by
  intro e
  induction e with
  | var i =>
    intro t v h
    simp only [absI, Option.some.injEq, Prod.mk.injEq] at h
    obtain ⟨rfl, rfl⟩ := h
    exact ⟨(henv i).1, (henv i).2.1, (henv i).2.2, by simp [evalSF, evalQ, FT.fmt], le_rfl⟩
  | const t0 b q =>
    intro t v h
    simp only [absI] at h
    split at h
    · rename_i hf
      simp only [Option.some.injEq, Prod.mk.injEq] at h
      obtain ⟨rfl, rfl⟩ := h
      exact ⟨finB_sound _ _ hf, le_rfl, le_rfl, by simp [evalSF, evalQ, qabs_eq], qabs_nonneg _⟩
    · exact absurd h (by simp)
  | add t0 a b iha ihb =>
    intro t v h
    simp only [absI] at h
    split at h
    · rename_i ta x tb y ha hb
      split at h
      · rename_i hte
        obtain ⟨h1, h2⟩ := hte
        subst ta; subst tb
        have sa := iha _ _ ha
        have sb := ihb _ _ hb
        split at h
        · rename_i hm
          simp only [Option.some.injEq, Prod.mk.injEq] at h
          obtain ⟨rfl, rfl⟩ := h
          set A := toQ t0.fmt (evalSF env a)
          set B := toQ t0.fmt (evalSF env b)
          set qa := evalQ (fun i => toQ b32 (env i)) a
          set qb := evalQ (fun i => toQ b32 (env i)) b
          have hlo : x.lo + y.lo ≤ qa + qb := add_le_add sa.lo sb.lo
          have hhi : qa + qb ≤ x.hi + y.hi := add_le_add sa.hi sb.hi
          have hmag := abs_le_mag ⟨x.lo + y.lo, x.hi + y.hi, 0⟩ (qa + qb) hlo hhi
          have hET : |(A + B) - (qa + qb)| ≤ x.err + y.err := by
            have := abs_add_le (A - qa) (B - qb)
            have e : (A + B) - (qa + qb) = (A - qa) + (B - qb) := by ring
            rw [e]; linarith [sa.err, sb.err]
          have hE : |A + B| ≤ qmax (qabs (x.lo + y.lo)) (qabs (x.hi + y.hi)) + (x.err + y.err) := by
            have := abs_add_le ((A + B) - (qa + qb)) (qa + qb)
            simp only [sub_add_cancel] at this
            unfold IV.mag at hmag
            linarith
          obtain ⟨hfin, hacc⟩ := add_acc t0.fmt t0.ok t0.top t0.isTop _ _ sa.fin sb.fin (le_trans hE hm)
          refine ⟨hfin, hlo, hhi, round_step t0 _ _ _ _ _ hE hET hacc, ?_⟩
          exact roundE_ge _ _ _ (add_nonneg sa.err0 sb.err0) (le_trans (abs_nonneg _) hE)
        · exact absurd h (by simp)
      · exact absurd h (by simp)
    · exact absurd h (by simp)
  | sub t0 a b iha ihb =>
    intro t v h
    simp only [absI] at h
    split at h
    · rename_i ta x tb y ha hb
      split at h
      · rename_i hte
        obtain ⟨h1, h2⟩ := hte
        subst ta; subst tb
        have sa := iha _ _ ha
        have sb := ihb _ _ hb
        split at h
        · rename_i hm
          simp only [Option.some.injEq, Prod.mk.injEq] at h
          obtain ⟨rfl, rfl⟩ := h
          set A := toQ t0.fmt (evalSF env a)
          set B := toQ t0.fmt (evalSF env b)
          set qa := evalQ (fun i => toQ b32 (env i)) a
          set qb := evalQ (fun i => toQ b32 (env i)) b
          have hlo : x.lo - y.hi ≤ qa - qb := sub_le_sub sa.lo sb.hi
          have hhi : qa - qb ≤ x.hi - y.lo := sub_le_sub sa.hi sb.lo
          have hmag := abs_le_mag ⟨x.lo - y.hi, x.hi - y.lo, 0⟩ (qa - qb) hlo hhi
          have hET : |(A - B) - (qa - qb)| ≤ x.err + y.err := by
            have := abs_sub (A - qa) (B - qb)
            have e : (A - B) - (qa - qb) = (A - qa) - (B - qb) := by ring
            rw [e]; linarith [sa.err, sb.err]
          have hE : |A - B| ≤ qmax (qabs (x.lo - y.hi)) (qabs (x.hi - y.lo)) + (x.err + y.err) := by
            have := abs_add_le ((A - B) - (qa - qb)) (qa - qb)
            simp only [sub_add_cancel] at this
            unfold IV.mag at hmag
            linarith
          obtain ⟨hfin, hacc⟩ := sub_acc t0.fmt t0.ok t0.top t0.isTop _ _ sa.fin sb.fin (le_trans hE hm)
          refine ⟨hfin, hlo, hhi, round_step t0 _ _ _ _ _ hE hET hacc, ?_⟩
          exact roundE_ge _ _ _ (add_nonneg sa.err0 sb.err0) (le_trans (abs_nonneg _) hE)
        · exact absurd h (by simp)
      · exact absurd h (by simp)
    · exact absurd h (by simp)
  | mul t0 a b iha ihb =>
    intro t v h
    simp only [absI] at h
    split at h
    · rename_i ta x tb y ha hb
      split at h
      · rename_i hte
        obtain ⟨h1, h2⟩ := hte
        subst ta; subst tb
        have sa := iha _ _ ha
        have sb := ihb _ _ hb
        split at h
        · rename_i hm
          simp only [Option.some.injEq, Prod.mk.injEq] at h
          obtain ⟨rfl, rfl⟩ := h
          set A := toQ t0.fmt (evalSF env a)
          set B := toQ t0.fmt (evalSF env b)
          set qa := evalQ (fun i => toQ b32 (env i)) a
          set qb := evalQ (fun i => toQ b32 (env i)) b
          obtain ⟨hlo, hhi⟩ := mul_mem _ _ _ _ _ _ sa.lo sa.hi sb.lo sb.hi
          have hA := sa.fabs
          have hB := sb.fabs
          have hqa := abs_le_mag x qa sa.lo sa.hi
          have hE : |A * B| ≤ x.fmag * y.fmag := by
            rw [abs_mul]; exact mul_le_mul hA hB (abs_nonneg _) (le_trans (abs_nonneg _) hA)
          have hET : |A * B - qa * qb| ≤ x.err * y.fmag + x.mag * y.err := by
            have e : A * B - qa * qb = (A - qa) * B + qa * (B - qb) := by ring
            rw [e]
            have t1 := abs_add_le ((A - qa) * B) (qa * (B - qb))
            have t2 : |(A - qa) * B| ≤ x.err * y.fmag := by
              rw [abs_mul]; exact mul_le_mul sa.err hB (abs_nonneg _) sa.err0
            have t3 : |qa * (B - qb)| ≤ x.mag * y.err := by
              rw [abs_mul]; exact mul_le_mul hqa sb.err (abs_nonneg _) (mag_nonneg x)
            linarith
          obtain ⟨hfin, hacc⟩ := mul_acc t0.fmt t0.ok t0.top t0.isTop _ _ sa.fin sb.fin (le_trans hE hm)
          refine ⟨hfin, hlo, hhi, round_step t0 _ _ _ _ _ hE hET hacc, ?_⟩
          refine roundE_ge _ _ _ ?_ (le_trans (abs_nonneg _) hE)
          have := le_trans (abs_nonneg _) hB
          have := mag_nonneg x
          have := sa.err0
          have := sb.err0
          positivity
        · exact absurd h (by simp)
      · exact absurd h (by simp)
    · exact absurd h (by simp)
  | div t0 a b iha ihb =>
    intro t v h
    simp only [absI] at h
    split at h
    · rename_i ta x tb y ha hb
      split at h
      · rename_i hte
        obtain ⟨h1, h2⟩ := hte
        subst ta; subst tb
        have sa := iha _ _ ha
        have sb := ihb _ _ hb
        split at h
        · rename_i v' hv'
          simp only [Option.some.injEq, Prod.mk.injEq] at h
          obtain ⟨rfl, rfl⟩ := h
          obtain ⟨r1, r2, r3, r4, r5⟩ := divPos_sound t0 x y v' hv' (evalSF env a) (evalSF env b) _ _ sa.fin sb.fin
            sa.lo sa.hi sb.lo sb.hi 1 (Or.inl rfl) (by rw [one_mul]; exact sa.err) (by rw [one_mul]; exact sb.err)
          exact ⟨r1, r2, r3, r4, r5⟩
        · simp only [Option.map_eq_some_iff, Prod.mk.injEq] at h
          obtain ⟨v', hv', rfl, rfl⟩ := h
          obtain ⟨r1, r2, r3, r4, r5⟩ := divPos_sound t0 (negIV x) (negIV y) v' hv' (evalSF env a) (evalSF env b)
            (-(evalQ (fun i => toQ b32 (env i)) a)) (-(evalQ (fun i => toQ b32 (env i)) b)) sa.fin sb.fin
            (by simp only [negIV]; linarith [sa.hi]) (by simp only [negIV]; linarith [sa.lo])
            (by simp only [negIV]; linarith [sb.hi]) (by simp only [negIV]; linarith [sb.lo])
            (-1) (Or.inr rfl)
            (by
              simp only [negIV]
              have e : -1 * toQ t0.fmt (evalSF env a) - -evalQ (fun i => toQ b32 (env i)) a = -(toQ t0.fmt (evalSF env a) - evalQ (fun i => toQ b32 (env i)) a) := by ring
              rw [e, abs_neg]; exact sa.err)
            (by
              simp only [negIV]
              have e : -1 * toQ t0.fmt (evalSF env b) - -evalQ (fun i => toQ b32 (env i)) b = -(toQ t0.fmt (evalSF env b) - evalQ (fun i => toQ b32 (env i)) b) := by ring
              rw [e, abs_neg]; exact sb.err)
          rw [neg_div_neg_eq] at r2 r3 r4
          exact ⟨r1, r2, r3, r4, r5⟩
      · exact absurd h (by simp)
    · exact absurd h (by simp)
  | neg t0 a iha =>
    intro t v h
    simp only [absI] at h
    split at h
    · rename_i ta x ha
      split at h
      · rename_i hte
        subst ta
        have sa := iha _ _ ha
        simp only [Option.some.injEq, Prod.mk.injEq] at h
        obtain ⟨rfl, rfl⟩ := h
        obtain ⟨hfin, hval⟩ := neg_acc t0.fmt (evalSF env a) sa.fin
        refine ⟨hfin, ?_, ?_, ?_, sa.err0⟩
        · simp only [negIV, evalQ]; linarith [sa.hi]
        · simp only [negIV, evalQ]; linarith [sa.lo]
        · simp only [negIV, evalQ, evalSF]
          rw [hval]
          have := sa.err
          have e : -toQ t0.fmt (evalSF env a) - -evalQ (fun i => toQ b32 (env i)) a = -(toQ t0.fmt (evalSF env a) - evalQ (fun i => toQ b32 (env i)) a) := by ring
          rw [e, abs_neg]; exact this
      · exact absurd h (by simp)
    · exact absurd h (by simp)
  | cvt src dst a iha =>
    intro t v h
    simp only [absI] at h
    split at h
    · rename_i ta x ha
      split at h
      · rename_i hte
        subst ta
        have sa := iha _ _ ha
        split at h
        · rename_i hm
          simp only [Option.some.injEq, Prod.mk.injEq] at h
          obtain ⟨rfl, rfl⟩ := h
          have hA := sa.fabs
          obtain ⟨hfin, hacc⟩ := cvt_acc src.fmt dst.fmt src.ok dst.ok dst.top dst.isTop _ sa.fin (le_trans hA hm)
          refine ⟨hfin, sa.lo, sa.hi, round_step dst _ _ _ _ _ hA sa.err hacc, ?_⟩
          exact roundE_ge _ _ _ sa.err0 (le_trans (abs_nonneg _) hA)
        · exact absurd h (by simp)
      · exact absurd h (by simp)
    · exact absurd h (by simp)


end SF.IC
