import Prism.Float.SFAcc

/-!
# The quantiser's bucket: `trunc(fl(fl(x·N) + ½))` is within `½ + 1/100` of `N·x`

For every finite non-negative float32 `x ≤ 1` and every scale `N ≤ 65535` held exactly in a float32,
the middle branch of `linear.NormalisedTo{8,9,16}Bit` returns an index `i` with
`N·x − ½ − 1/100 ≤ i ≤ N·x + ½ + 1/100` — from the accuracy of `mul` and `add` (`SFAcc`) and the
definition of truncation.  No enumeration of floats.
-/

namespace SF

theorem finPos_fin (f : Fmt) (hf : f.Ok) (v : Nat) (hv : FinPos f v) :
    Fin f v ∧ toQ f v = valQ f v := by
  obtain ⟨_, _, hneg, habs⟩ := finPos_flags f hf v hv
  have hs := infBits_lt_signBit f hf
  unfold FinPos at hv
  refine ⟨⟨by rw [habs]; exact hv, by omega⟩, ?_⟩
  unfold toQ; rw [hneg]; simp

theorem truncNat_floor (f : Fmt) (a : Nat) :
    ((truncNat f a : Nat) : ℚ) ≤ valQ f a ∧ valQ f a < (truncNat f a : Nat) + 1 := by
  unfold truncNat valQ
  simp only [force_eq]
  have hd := den_pos' f a
  have hdq : (0:ℚ) < den f a := by exact_mod_cast hd
  constructor
  · rw [le_div_iff₀ hdq]
    exact_mod_cast Nat.div_mul_le_self (num f a) (den f a)
  · rw [div_lt_iff₀ hdq]
    have := Nat.lt_div_mul_add (a := num f a) hd
    have : num f a < (num f a / den f a + 1) * den f a := by
      rw [Nat.add_mul, Nat.one_mul]; exact this
    exact_mod_cast this

theorem half_val : Fin b32 0x3f000000 ∧ toQ b32 0x3f000000 = 1 / 2 := by
  refine ⟨⟨by decide, by decide⟩, by decide +kernel⟩

theorem eps32 : eps b32 = 1 / 2 ^ 24 := by unfold eps b32; norm_num
theorem eta32_le : eta b32 ≤ 1 / 2 ^ 100 := by
  unfold eta Fmt.K Fmt.bias b32
  rw [div_le_div_iff₀ (by positivity) (by positivity)]
  norm_num

/-- **The bucket lemma.** -/
theorem quant_bucket (N cN v : Nat) (hN : N ≤ 65535) (hcN : Fin b32 cN ∧ toQ b32 cN = N)
    (hv : FinPos b32 v) (hv1 : valQ b32 v ≤ 1) :
    (N:ℚ) * valQ b32 v - 1/2 - 1/100 ≤ (truncNat b32 (add b32 (mul b32 v cN) 0x3f000000) : Nat) ∧
    ((truncNat b32 (add b32 (mul b32 v cN) 0x3f000000) : Nat) : ℚ) ≤ N * valQ b32 v + 1/2 + 1/100 := by
  obtain ⟨fv, qv⟩ := finPos_fin b32 b32_ok v hv
  obtain ⟨fh, qh⟩ := half_val
  have hx0 := valQ_nonneg b32 v
  set x := valQ b32 v with hx
  have hNq : (N:ℚ) ≤ 65535 := by exact_mod_cast hN
  have hN0 : (0:ℚ) ≤ N := Nat.cast_nonneg N
  have hxN : x * N ≤ 65535 := by nlinarith
  have hxN0 : 0 ≤ x * N := by positivity
  -- the product
  have hprod : |toQ b32 v * toQ b32 cN| ≤ ((2 ^ 127 : Nat) : ℚ) := by
    rw [qv, hcN.2, abs_of_nonneg hxN0]
    have : (65535:ℚ) ≤ ((2 ^ 127 : Nat) : ℚ) := by norm_num
    linarith
  obtain ⟨fm, am⟩ := mul_acc b32 b32_ok (2 ^ 127) top32 v cN fv hcN.1 hprod
  rw [qv, hcN.2, abs_of_nonneg hxN0, eps32] at am
  have he := eta32_le
  have hep := eta_pos b32
  set t1 := toQ b32 (mul b32 v cN) with ht1
  rw [abs_le] at am
  have t1lo : x * N - (x * N * (1 / 2 ^ 24) + eta b32) ≤ t1 := by linarith [am.1]
  have t1hi : t1 ≤ x * N + (x * N * (1 / 2 ^ 24) + eta b32) := by linarith [am.2]
  have e24 : (1:ℚ) / 2 ^ 24 ≤ 1 / 16000000 := by norm_num
  have e100 : (1:ℚ) / 2 ^ 100 ≤ 1 / 10 ^ 20 := by
    rw [div_le_div_iff₀ (by positivity) (by positivity)]; norm_num
  have err1 : x * N * (1 / 2 ^ 24) + eta b32 ≤ 41 / 10000 := by
    have : x * N * (1 / 2 ^ 24) ≤ 65535 * (1 / 16000000) := mul_le_mul hxN e24 (by positivity) (by norm_num)
    have : eta b32 ≤ 1 / 10 ^ 20 := he.trans e100
    norm_num at *
    linarith
  -- the sum
  have hsum0 : -(41 / 10000 : ℚ) ≤ t1 := by linarith
  have hsumhi : t1 + 1 / 2 ≤ 65536 := by linarith
  have hsumabs : |t1 + toQ b32 0x3f000000| ≤ ((2 ^ 127 : Nat) : ℚ) := by
    rw [qh, abs_le]
    have : (65536:ℚ) ≤ ((2 ^ 127 : Nat) : ℚ) := by norm_num
    constructor <;> linarith
  obtain ⟨fs, as⟩ := add_acc b32 b32_ok (2 ^ 127) top32 (mul b32 v cN) 0x3f000000 fm fh hsumabs
  rw [← ht1, qh, eps32] at as
  have hpos : 0 < t1 + 1 / 2 := by linarith
  rw [abs_of_pos hpos, abs_le] at as
  set s := add b32 (mul b32 v cN) 0x3f000000 with hs
  have err2 : (t1 + 1 / 2) * (1 / 2 ^ 24) + eta b32 ≤ 42 / 10000 := by
    have : (t1 + 1 / 2) * (1 / 2 ^ 24) ≤ 65536 * (1 / 16000000) := mul_le_mul hsumhi e24 (by positivity) (by norm_num)
    have : eta b32 ≤ 1 / 10 ^ 20 := he.trans e100
    norm_num at *
    linarith
  -- the sum is positive, so its value is its magnitude
  have hsq : toQ b32 s = valQ b32 s := by
    have hgt : 0 < toQ b32 s := by linarith [as.1]
    unfold toQ at hgt ⊢
    split
    · rename_i hn
      rw [if_pos hn] at hgt
      have := valQ_nonneg b32 s
      linarith
    · rfl
  obtain ⟨fl1, fl2⟩ := truncNat_floor b32 s
  rw [← hsq] at fl1 fl2
  constructor
  · -- i > toQ s − 1 ≥ (t1 + ½) − err2 − 1 ≥ xN − err1 + ½ − err2 − 1
    have : (N:ℚ) * x = x * N := by ring
    linarith [as.1]
  · have : (N:ℚ) * x = x * N := by ring
    linarith [as.2]

end SF
