/-!
# SF — an executable, bit-exact model of IEEE-754 binary32 / binary64

Values are bit patterns held in `Nat`.  Every operation decodes its operands to an exact
signed rational `±n/d` (two `Nat`s), computes the exact result, and rounds once to
nearest-even (`rnd`).  Only `Nat` operations that the Lean kernel evaluates with GMP are
used, and every intermediate is forced to a literal (`force`) because the kernel's `whnf`
is call-by-name.

Core Lean only (no Mathlib): this file is linked into the model driver and evaluated by
the kernel in `decide +kernel` proofs.
-/

namespace SF

/-- Force `x` to a literal before continuing (the kernel re-evaluates `let`-bound terms). -/
@[inline] def force {α : Type} (x : Nat) (f : Nat → α) : α :=
  match x with
  | 0 => f 0
  | n+1 => f (n+1)

/-- A binary interchange format: `M` explicit mantissa bits, `E` exponent bits. -/
structure Fmt where
  M : Nat
  E : Nat
deriving Repr, DecidableEq

def b32 : Fmt := ⟨23, 8⟩
def b64 : Fmt := ⟨52, 11⟩

namespace Fmt
/-- exponent bias -/
@[inline] def bias (f : Fmt) : Nat := 2 ^ (f.E - 1) - 1
/-- `K = bias + M`: a finite value is `m · 2^(E' − K)` -/
@[inline] def K (f : Fmt) : Nat := f.bias + f.M
@[inline] def hidden (f : Fmt) : Nat := 2 ^ f.M
@[inline] def signBit (f : Fmt) : Nat := 2 ^ (f.M + f.E)
/-- bit pattern of +∞ -/
@[inline] def infBits (f : Fmt) : Nat := (2 ^ f.E - 1) * 2 ^ f.M
/-- canonical quiet NaN -/
@[inline] def nanBits (f : Fmt) : Nat := f.infBits + 2 ^ (f.M - 1)
end Fmt

/-- Offset used to keep exponents in `Nat`. -/
def B : Nat := 8192

/-- ⌊log₂ n⌋ for `0 < n < 2^16384`, by binary search on shifts (kernel-friendly). -/
def lg (n0 : Nat) : Nat :=
  let step (k : Nat) (st : Nat × Nat) : Nat × Nat :=
    force (st.1 >>> k) fun h => if h == 0 then st else (h, st.2 + k)
  (step 1 (step 2 (step 4 (step 8 (step 16 (step 32 (step 64 (step 128 (step 256
    (step 512 (step 1024 (step 2048 (step 4096 (step 8192 (n0, 0))))))))))))))).2

/-- magnitude bits (sign stripped) -/
@[inline] def absBits (f : Fmt) (b : Nat) : Nat := b % f.signBit
@[inline] def isNeg (f : Fmt) (b : Nat) : Bool := Nat.ble f.signBit b
@[inline] def isNaN (f : Fmt) (b : Nat) : Bool := Nat.blt f.infBits (absBits f b)
@[inline] def isInf (f : Fmt) (b : Nat) : Bool := absBits f b == f.infBits
@[inline] def isZero (f : Fmt) (b : Nat) : Bool := absBits f b == 0
@[inline] def isFinite (f : Fmt) (b : Nat) : Bool := Nat.blt (absBits f b) f.infBits
@[inline] def withSign (f : Fmt) (neg : Bool) (a : Nat) : Nat := if neg then a + f.signBit else a

/-- numerator of the magnitude of a finite bit pattern -/
def num (f : Fmt) (b0 : Nat) : Nat :=
  force (absBits f b0) fun a =>
  force (a >>> f.M) fun e =>
  force (a % f.hidden) fun fr =>
  let m := if e == 0 then fr else fr + f.hidden
  let e' := if e == 0 then 1 else e
  if Nat.ble f.K e' then m <<< (e' - f.K) else m

/-- denominator of the magnitude of a finite bit pattern -/
def den (f : Fmt) (b0 : Nat) : Nat :=
  force (absBits f b0 >>> f.M) fun e =>
  let e' := if e == 0 then 1 else e
  if Nat.ble f.K e' then 1 else 1 <<< (f.K - e')

/-- Round the positive rational `n/d` (`n, d > 0`) to nearest-even; result is a magnitude
bit pattern (possibly `infBits` on overflow). `n = 0` gives `0`. -/
def rnd (f : Fmt) (n0 d0 : Nat) : Nat :=
  force n0 fun n => force d0 fun d =>
  if n == 0 then 0 else
  force (lg n) fun ln => force (lg d) fun ld =>
  let ge : Bool :=
    if Nat.ble ld ln then Nat.ble (d <<< (ln - ld)) n else Nat.ble d (n <<< (ld - ln))
  -- xb − B = ⌊log₂ (n/d)⌋
  force (B + ln - ld - (if ge then 0 else 1)) fun xb =>
  -- qeb − B = quantum exponent = max(⌊log₂⌋, emin) − M,  emin = 1 − bias
  force ((if Nat.ble (B + 1 - f.bias) xb then xb else B + 1 - f.bias) - f.M) fun qeb =>
  force (if Nat.ble B qeb then n else n <<< (B - qeb)) fun nn =>
  force (if Nat.ble B qeb then d <<< (qeb - B) else d) fun dd =>
  force (nn / dd) fun k => force (nn % dd) fun r =>
  force (if Nat.blt (2*r) dd then k else if Nat.blt dd (2*r) then k+1 else k + k % 2) fun k' =>
  if Nat.blt k' f.hidden then k' else
    force ((qeb + f.K - B) * f.hidden + (k' - f.hidden)) fun bits =>
    if Nat.ble f.infBits bits then f.infBits else bits

/-- multiplication -/
def mul (f : Fmt) (a0 b0 : Nat) : Nat :=
  force a0 fun a => force b0 fun b =>
  if isNaN f a || isNaN f b then f.nanBits else
  let neg := isNeg f a != isNeg f b
  if isInf f a then (if isZero f b then f.nanBits else withSign f neg f.infBits) else
  if isInf f b then (if isZero f a then f.nanBits else withSign f neg f.infBits) else
  withSign f neg (rnd f (num f a * num f b) (den f a * den f b))

/-- division -/
def div (f : Fmt) (a0 b0 : Nat) : Nat :=
  force a0 fun a => force b0 fun b =>
  if isNaN f a || isNaN f b then f.nanBits else
  let neg := isNeg f a != isNeg f b
  if isInf f a then (if isInf f b then f.nanBits else withSign f neg f.infBits) else
  if isInf f b then withSign f neg 0 else
  if isZero f b then (if isZero f a then f.nanBits else withSign f neg f.infBits) else
  withSign f neg (rnd f (num f a * den f b) (den f a * num f b))

/-- addition -/
def add (f : Fmt) (a0 b0 : Nat) : Nat :=
  force a0 fun a => force b0 fun b =>
  if isNaN f a || isNaN f b then f.nanBits else
  if isInf f a then (if isInf f b && (isNeg f a != isNeg f b) then f.nanBits else a) else
  if isInf f b then b else
  let na := isNeg f a
  let nb := isNeg f b
  force (num f a * den f b) fun x => force (num f b * den f a) fun y =>
  force (den f a * den f b) fun d =>
  if na == nb then
    -- same sign (covers ±0 + ±0 of equal sign)
    withSign f na (rnd f (x + y) d)
  else if x == y then 0            -- exact cancellation gives +0 in round-to-nearest
  else if Nat.blt y x then withSign f na (rnd f (x - y) d)
  else withSign f nb (rnd f (y - x) d)

def neg (f : Fmt) (a : Nat) : Nat :=
  if isNeg f a then a - f.signBit else a + f.signBit

def sub (f : Fmt) (a b : Nat) : Nat := add f a (neg f b)

/-- `a < b` (IEEE: false if either is NaN; −0 = +0) -/
def lt (f : Fmt) (a0 b0 : Nat) : Bool :=
  force a0 fun a => force b0 fun b =>
  if isNaN f a || isNaN f b then false else
  if isZero f a && isZero f b then false else
  let na := isNeg f a
  let nb := isNeg f b
  if na && !nb then true
  else if !na && nb then false
  else if !na then Nat.blt (absBits f a) (absBits f b)
  else Nat.blt (absBits f b) (absBits f a)

def eq (f : Fmt) (a0 b0 : Nat) : Bool :=
  force a0 fun a => force b0 fun b =>
  if isNaN f a || isNaN f b then false else
  if isZero f a && isZero f b then true else a == b

def le (f : Fmt) (a b : Nat) : Bool := lt f a b || eq f a b
def gt (f : Fmt) (a b : Nat) : Bool := lt f b a
def ge (f : Fmt) (a b : Nat) : Bool := le f b a

/-- exact conversion of a natural number, rounded -/
def ofNat (f : Fmt) (n : Nat) : Nat := rnd f n 1

/-- truncation toward zero of a finite non-negative value (`uintN(x)` for in-range `x`) -/
def truncNat (f : Fmt) (a0 : Nat) : Nat :=
  force a0 fun a => num f a / den f a

/-- convert between formats (exact when widening, rounded when narrowing) -/
def cvt (src dst : Fmt) (a0 : Nat) : Nat :=
  force a0 fun a =>
  if isNaN src a then withSign dst (isNeg src a) dst.nanBits else
  if isInf src a then withSign dst (isNeg src a) dst.infBits else
  withSign dst (isNeg src a) (rnd dst (num src a) (den src a))

/-- Round a signed rational given as sign, numerator, denominator. -/
def ofRatParts (f : Fmt) (neg : Bool) (n d : Nat) : Nat := withSign f neg (rnd f n d)

end SF

/-! Convenience wrappers -/
namespace F32
open SF
abbrev fmt := b32
@[inline] def mul := SF.mul b32
@[inline] def div := SF.div b32
@[inline] def add := SF.add b32
@[inline] def sub := SF.sub b32
@[inline] def lt := SF.lt b32
@[inline] def le := SF.le b32
@[inline] def ge := SF.ge b32
@[inline] def gt := SF.gt b32
@[inline] def ofNat := SF.ofNat b32
@[inline] def trunc := SF.truncNat b32
@[inline] def toF64 := SF.cvt b32 b64
def one : Nat := 0x3f800000
def half : Nat := 0x3f000000
def zero : Nat := 0
end F32

namespace F64
open SF
abbrev fmt := b64
@[inline] def mul := SF.mul b64
@[inline] def div := SF.div b64
@[inline] def add := SF.add b64
@[inline] def sub := SF.sub b64
@[inline] def neg := SF.neg b64
@[inline] def lt := SF.lt b64
@[inline] def le := SF.le b64
@[inline] def gt := SF.gt b64
@[inline] def eq := SF.eq b64
@[inline] def ofNat := SF.ofNat b64
@[inline] def toF32 := SF.cvt b64 b32
def one : Nat := 0x3ff0000000000000
def zero : Nat := 0
end F64
