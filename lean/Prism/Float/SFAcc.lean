import Prism.Float.SFLemmas
import Mathlib.Tactic.Linarith
import Mathlib.Tactic.Positivity
import Mathlib.Tactic.Ring
import Mathlib.Tactic.NormNum
import Mathlib.Tactic.FieldSimp
import Mathlib.Algebra.Order.Field.Basic
import Mathlib.Algebra.Order.AbsoluteValue.Basic
import Mathlib.Data.Rat.Defs

/-!
# Accuracy of `SF.rnd` against the exact rational value

`SFLemmas` shows that rounding is monotone.  This file shows that it is *accurate*: for every
format satisfying `Fmt.Ok` (binary32 and binary64 do), every positive fraction `n/d` whose rounding
does not overflow is rounded to a pattern whose exact value is within half a quantum of `n/d`:

    |value (rnd f n d) − n/d| ≤ (n/d)·2^-(M+1) + 2^-K          (`rnd_acc`)

(`2^-(M+1)` is the unit round-off: 2⁻²⁴ for binary32, 2⁻⁵³ for binary64; `2^-K` is half the smallest
subnormal: 2⁻¹⁵⁰ resp. 2⁻¹⁰⁷⁵).  From it follow error bounds for the signed operations `mul`, `add`,
`sub`, `cvt` on finite operands (`mul_acc`, `add_acc`, `sub_acc`, `cvt_acc`), which the linear error
calculus in `Prism/Float/ErrCalc.lean` composes over whole expressions.

Everything is proved about the same executable definitions the kernel evaluates and the model
driver runs — there is no separate "specification-level" float.
-/

namespace SF

/-- exact magnitude of a bit pattern (sign ignored) as a rational -/
def valQ (f : Fmt) (a : Nat) : ℚ := (num f a : ℚ) / (den f a : ℚ)

/-- exact signed value of a finite bit pattern -/
def toQ (f : Fmt) (b : Nat) : ℚ := if isNeg f b then - valQ f b else valQ f b

/-- unit round-off `2^-(M+1)` -/
def eps (f : Fmt) : ℚ := 1 / 2 ^ (f.M + 1)
/-- half the smallest subnormal, `2^-K` -/
def eta (f : Fmt) : ℚ := 1 / 2 ^ f.K

theorem eps_pos (f : Fmt) : 0 < eps f := by unfold eps; positivity
theorem eta_pos (f : Fmt) : 0 < eta f := by unfold eta; positivity

theorem valQ_nonneg (f : Fmt) (a : Nat) : 0 ≤ valQ f a := by unfold valQ; positivity

theorem abs_toQ (f : Fmt) (b : Nat) : |toQ f b| = valQ f b := by
  unfold toQ
  split
  · rw [abs_neg, abs_of_nonneg (valQ_nonneg f b)]
  · exact abs_of_nonneg (valQ_nonneg f b)

theorem valQ_eq_w (f : Fmt) (a : Nat) (ha : a < f.signBit) : valQ f a = (wOf f a : ℚ) / 2 ^ f.K := by
  obtain ⟨e, hd⟩ := num_den_w f a ha
  unfold valQ
  have hd' : (den f a : ℚ) ≠ 0 := by exact_mod_cast (Nat.pos_iff_ne_zero.mp hd)
  have hK : ((2:ℚ) ^ f.K) ≠ 0 := by positivity
  rw [div_eq_div_iff hd' hK]
  exact_mod_cast e

/-! ### The value of an assembled pattern -/

theorem wOf_pack (f : Fmt) (Q k : Nat) (hE : 1 ≤ Q + f.K - B) (hk : k ≤ 2 * f.hidden)
    (hsub : k < f.hidden → Q + f.K - B = 1) (hfin : packOf f Q k < f.infBits) :
    wOf f (packOf f Q k) = k * 2 ^ (Q + f.K - B) := by
  have hH : 0 < f.hidden := two_pow_pos _
  unfold packOf at hfin ⊢
  by_cases h1 : k < f.hidden
  · simp only [Nat.blt_eq, h1, if_true] at hfin ⊢
    unfold wOf
    unfold Fmt.hidden at h1
    have hz : k / 2 ^ f.M = 0 := (Nat.div_eq_zero_iff_lt (two_pow_pos _)).mpr h1
    simp only [hz, if_true, Nat.mod_eq_of_lt h1, hsub (by unfold Fmt.hidden; exact h1)]
  · simp only [Nat.blt_eq, h1, if_false] at hfin ⊢
    by_cases h2 : f.infBits ≤ (Q + f.K - B) * f.hidden + (k - f.hidden)
    · simp only [ble_true h2, if_true] at hfin; omega
    · simp only [ble_false h2, Bool.false_eq_true, if_false]
      generalize hEe : Q + f.K - B = E at *
      unfold wOf
      unfold Fmt.hidden at *
      generalize hHH : (2:Nat) ^ f.M = H at *
      by_cases h3 : k = 2 * H
      · have ea : E * H + (k - H) = (E + 1) * H := by rw [h3]; ring_nf; omega
        rw [ea]
        have hd : (E + 1) * H / H = E + 1 := Nat.mul_div_cancel _ hH
        have hm : (E + 1) * H % H = 0 := Nat.mul_mod_left _ _
        have hne : ¬ (E + 1 = 0) := by omega
        simp only [hd, hm, hne, if_false, Nat.zero_add]
        rw [h3, Nat.pow_succ]; ring
      · have hlt : k - H < H := by omega
        have hd : (E * H + (k - H)) / H = E := by
          rw [Nat.add_comm, Nat.add_mul_div_right _ _ hH, Nat.div_eq_of_lt hlt, Nat.zero_add]
        have hm : (E * H + (k - H)) % H = k - H := by
          rw [Nat.add_comm, Nat.add_mul_mod_self_right, Nat.mod_eq_of_lt hlt]
        have hne : ¬ (E = 0) := by omega
        simp only [hd, hm, hne, if_false]
        have : k - H + H = k := by omega
        rw [this]

/-! ### Half-quantum accuracy of round-half-even on fractions -/

theorem rheN_acc (nn dd : Nat) (hdd : 0 < dd) :
    |((rheN nn dd : Nat) : ℚ) - (nn : ℚ) / (dd : ℚ)| ≤ 1 / 2 := by
  have hd : (0:ℚ) < dd := by exact_mod_cast hdd
  have e := Nat.div_add_mod nn dd
  have r := Nat.mod_lt nn hdd
  have eq : (nn : ℚ) = (dd : ℚ) * ((nn / dd : Nat) : ℚ) + ((nn % dd : Nat) : ℚ) := by exact_mod_cast e.symm
  have key : (nn : ℚ) / dd = ((nn / dd : Nat) : ℚ) + ((nn % dd : Nat) : ℚ) / dd := by
    rw [eq]; field_simp
  rw [key]
  have r0 : (0:ℚ) ≤ ((nn % dd : Nat) : ℚ) / dd := by positivity
  have r1 : ((nn % dd : Nat) : ℚ) / dd < 1 := by
    rw [div_lt_one hd]; exact_mod_cast r
  unfold rheN
  rw [abs_le]
  split
  · rename_i c
    have : ((nn % dd : Nat) : ℚ) / dd < 1 / 2 := by
      rw [div_lt_iff₀ hd]
      have : (2:ℚ) * ((nn % dd : Nat) : ℚ) < dd := by exact_mod_cast c
      linarith
    constructor <;> linarith
  · rename_i c
    split
    · rename_i c2
      have : 1 / 2 < ((nn % dd : Nat) : ℚ) / dd := by
        rw [lt_div_iff₀ hd]
        have : (dd:ℚ) < (2:ℚ) * ((nn % dd : Nat) : ℚ) := by exact_mod_cast c2
        linarith
      push_cast
      constructor <;> linarith
    · rename_i c2
      have ht : 2 * (nn % dd) = dd := by omega
      have : ((nn % dd : Nat) : ℚ) / dd = 1 / 2 := by
        rw [div_eq_iff (ne_of_gt hd)]
        have : (2:ℚ) * ((nn % dd : Nat) : ℚ) = dd := by exact_mod_cast ht
        linarith
      rw [this]
      have hm : nn / dd % 2 = 0 ∨ nn / dd % 2 = 1 := by omega
      rcases hm with hm | hm <;> rw [hm] <;> push_cast <;> constructor <;> linarith

/-! ### Accuracy of `rnd` -/

/-- the quantum `2^(Q−B)` as a rational -/
def quantum (f : Fmt) (n d : Nat) : ℚ := (2:ℚ) ^ (qebOf f n d) / 2 ^ B

theorem quantum_pos (f : Fmt) (n d : Nat) : 0 < quantum f n d := by unfold quantum; positivity

/-- **`rnd` is within half a quantum of the exact fraction** (when it does not overflow). -/
theorem rnd_half_quantum (f : Fmt) (hf : f.Ok) (n d : Nat) (hn0 : 0 < n) (hd0 : 0 < d)
    (hn : n < 2 ^ 8000) (hd : d < 2 ^ 8000) (hfin : rnd f n d < f.infBits) :
    |valQ f (rnd f n d) - (n : ℚ) / (d : ℚ)| ≤ quantum f n d / 2 := by
  have hB : B = 8192 := rfl
  have hsm := hf.small
  have hs := infBits_lt_signBit f hf
  rw [rnd_eq f n d (by omega)] at hfin ⊢
  set Q := qebOf f n d with hQ
  set nn := nnOf Q n with hnn
  set dd := ddOf Q d with hdd
  have hddpos : 0 < dd := ddOf_pos Q d hd0
  have hE := qebOf_ge f n d hf
  rw [← hQ] at hE
  have hslt := sig_lt f n d hn0 hd0 hn hd hsm
  rw [← hQ, ← hnn, ← hdd] at hslt
  have hk : rheN nn dd ≤ 2 * f.hidden := by
    have hb := (rheN_bounds nn dd).2
    have : nn / dd < 2 ^ (f.M + 1) := by rw [Nat.div_lt_iff_lt_mul hddpos]; exact hslt
    have e : (2:Nat) ^ (f.M + 1) = 2 * f.hidden := by unfold Fmt.hidden; rw [Nat.pow_succ]; ring
    omega
  have hsub : rheN nn dd < f.hidden → Q + f.K - B = 1 := by
    intro hlt
    by_cases hnorm : B + 1 - f.bias ≤ xbOf n d
    · exfalso
      have hge := sig_ge f n d hn0 hd0 hn hd hsm hnorm
      rw [← hQ, ← hnn, ← hdd] at hge
      have : f.hidden ≤ nn / dd := by rw [Nat.le_div_iff_mul_le hddpos]; exact hge
      have := (rheN_bounds nn dd).1
      omega
    · have : Q = B + 1 - f.bias - f.M := by
        rw [hQ]; unfold qebOf; simp only [ble_false hnorm, Bool.false_eq_true, if_false]
      rw [this]; unfold Fmt.K; omega
  have hw := wOf_pack f Q (rheN nn dd) hE hk hsub hfin
  rw [valQ_eq_w f _ (by omega), hw]
  -- value = k · 2^(Q+K−B) / 2^K = k · 2^Q / 2^B
  have hpow : ((2:ℚ) ^ (Q + f.K - B)) / 2 ^ f.K = (2:ℚ) ^ Q / 2 ^ B := by
    rw [div_eq_div_iff (by positivity) (by positivity), ← pow_add, ← pow_add,
      show Q + f.K - B + B = Q + f.K from by omega]
  have hval : ((rheN nn dd * 2 ^ (Q + f.K - B) : Nat) : ℚ) / 2 ^ f.K = (rheN nn dd : ℚ) * ((2:ℚ) ^ Q / 2 ^ B) := by
    push_cast; rw [mul_div_assoc, hpow]
  rw [hval]
  -- n/d = (nn/dd) · 2^Q / 2^B
  have hsc := scale_eq Q n d
  rw [← hnn, ← hdd] at hsc
  have hdq : (d:ℚ) ≠ 0 := by exact_mod_cast (Nat.pos_iff_ne_zero.mp hd0)
  have hddq : (dd:ℚ) ≠ 0 := by exact_mod_cast (Nat.pos_iff_ne_zero.mp hddpos)
  have hnd : (n : ℚ) / d = (nn : ℚ) / dd * ((2:ℚ) ^ Q / 2 ^ B) := by
    have hsc' : (nn : ℚ) * ((2:ℚ) ^ Q * d) = n * 2 ^ B * dd := by exact_mod_cast hsc
    field_simp
    linarith
  rw [hnd, ← sub_mul, abs_mul]
  have hq : (0:ℚ) < (2:ℚ) ^ Q / 2 ^ B := by positivity
  rw [abs_of_pos hq]
  unfold quantum
  rw [← hQ]
  have := rheN_acc nn dd hddpos
  calc |((rheN nn dd : Nat) : ℚ) - (nn : ℚ) / dd| * ((2:ℚ) ^ Q / 2 ^ B)
      ≤ (1 / 2) * ((2:ℚ) ^ Q / 2 ^ B) := mul_le_mul_of_nonneg_right this hq.le
    _ = (2:ℚ) ^ Q / 2 ^ B / 2 := by ring

/-- the quantum is at most `2^-M` times the value, or it is the subnormal quantum `2^(1−K)` -/
theorem quantum_le (f : Fmt) (hf : f.Ok) (n d : Nat) (hn0 : 0 < n) (hd0 : 0 < d)
    (hn : n < 2 ^ 8000) (hd : d < 2 ^ 8000) :
    quantum f n d ≤ (n : ℚ) / d * (2 * eps f) ∨ quantum f n d = 2 * eta f := by
  have hB : B = 8192 := rfl
  have hsm := hf.small
  by_cases hnorm : B + 1 - f.bias ≤ xbOf n d
  · left
    have s1 := (xbOf_spec n d hn0 hd0 hn hd).1
    have hX : xbOf n d = qebOf f n d + f.M := by
      unfold qebOf; simp only [ble_true hnorm, if_true]; omega
    rw [hX] at s1
    unfold quantum eps
    have hdq : (0:ℚ) < d := by exact_mod_cast hd0
    have s1' : (2:ℚ) ^ (qebOf f n d + f.M) * d ≤ n * 2 ^ B := by exact_mod_cast s1
    rw [div_le_iff₀ (by positivity)]
    have : (n:ℚ) / d * (2 * (1 / 2 ^ (f.M + 1))) * 2 ^ B = (n * 2 ^ B) / (d * 2 ^ f.M) := by
      rw [pow_succ]; field_simp
    rw [this, le_div_iff₀ (by positivity)]
    calc (2:ℚ) ^ qebOf f n d * (d * 2 ^ f.M) = (2:ℚ) ^ (qebOf f n d + f.M) * d := by rw [pow_add]; ring
      _ ≤ n * 2 ^ B := s1'
  · right
    have : qebOf f n d = B + 1 - f.bias - f.M := by
      unfold qebOf; simp only [ble_false hnorm, Bool.false_eq_true, if_false]
    unfold quantum eta
    rw [this]
    rw [div_eq_iff (by positivity)]
    have : (2:ℚ) * (1 / 2 ^ f.K) * 2 ^ B = 2 ^ (B + 1) / 2 ^ f.K := by rw [pow_succ]; ring
    rw [this, eq_div_iff (by positivity), ← pow_add]
    congr 1
    unfold Fmt.K; omega

/-- **Accuracy of `rnd`**: relative error at most the unit round-off, plus half the smallest
subnormal. -/
theorem rnd_acc (f : Fmt) (hf : f.Ok) (n d : Nat) (hd0 : 0 < d)
    (hn : n < 2 ^ 8000) (hd : d < 2 ^ 8000) (hfin : rnd f n d < f.infBits) :
    |valQ f (rnd f n d) - (n : ℚ) / (d : ℚ)| ≤ (n : ℚ) / d * eps f + eta f := by
  by_cases hn0 : n = 0
  · subst hn0
    rw [rnd_zero]
    have : valQ f 0 = 0 := by
      rw [valQ_eq_w f 0 (signBit_pos f)]
      unfold wOf; simp
    rw [this]; simp
    exact (eta_pos f).le
  have hn0' : 0 < n := Nat.pos_of_ne_zero hn0
  have h1 := rnd_half_quantum f hf n d hn0' hd0 hn hd hfin
  have hq : (0:ℚ) ≤ (n:ℚ) / d := div_nonneg (Nat.cast_nonneg _) (Nat.cast_nonneg _)
  have he := eps_pos f
  have ht := eta_pos f
  rcases quantum_le f hf n d hn0' hd0 hn hd with h2 | h2
  · have : quantum f n d / 2 ≤ (n:ℚ) / d * eps f := by linarith
    linarith
  · have : quantum f n d / 2 = eta f := by rw [h2]; ring
    have : 0 ≤ (n:ℚ) / d * eps f := mul_nonneg hq he.le
    linarith

end SF

/-! ## Signed operations on finite operands -/

namespace SF

/-- a finite, well-formed bit pattern (not NaN, not ±∞, no bits above the sign bit) -/
def Fin (f : Fmt) (b : Nat) : Prop := absBits f b < f.infBits ∧ b < 2 * f.signBit

theorem fin_flags (f : Fmt) (b : Nat) (h : Fin f b) : isNaN f b = false ∧ isInf f b = false := by
  obtain ⟨h1, _⟩ := h
  constructor
  · unfold isNaN; exact blt_false (by omega)
  · unfold isInf; simp only [beq_eq_false_iff_ne]; omega

theorem absBits_idem (f : Fmt) (b : Nat) : absBits f (absBits f b) = absBits f b := by
  unfold absBits; exact Nat.mod_mod _ _

theorem num_abs (f : Fmt) (b : Nat) : num f (absBits f b) = num f b := by
  unfold num; rw [absBits_idem]
theorem den_abs (f : Fmt) (b : Nat) : den f (absBits f b) = den f b := by
  unfold den; rw [absBits_idem]
theorem valQ_abs (f : Fmt) (b : Nat) : valQ f (absBits f b) = valQ f b := by
  unfold valQ; rw [num_abs, den_abs]

theorem withSign_props (f : Fmt) (hf : f.Ok) (neg : Bool) (m : Nat) (hm : m ≤ f.infBits) :
    absBits f (withSign f neg m) = m ∧ isNeg f (withSign f neg m) = neg ∧ withSign f neg m < 2 * f.signBit := by
  have hs := infBits_lt_signBit f hf
  unfold withSign
  cases neg
  · simp only [Bool.false_eq_true, if_false]
    refine ⟨?_, ?_, by omega⟩
    · unfold absBits; exact Nat.mod_eq_of_lt (by omega)
    · unfold isNeg; exact ble_false (by omega)
  · simp only [if_true]
    refine ⟨?_, ?_, by omega⟩
    · unfold absBits; rw [Nat.add_mod_right]; exact Nat.mod_eq_of_lt (by omega)
    · unfold isNeg; exact ble_true (by omega)

theorem toQ_withSign (f : Fmt) (hf : f.Ok) (neg : Bool) (m : Nat) (hm : m ≤ f.infBits) :
    toQ f (withSign f neg m) = if neg then - valQ f m else valQ f m := by
  obtain ⟨h1, h2, _⟩ := withSign_props f hf neg m hm
  unfold toQ
  rw [h2, ← valQ_abs, h1]

theorem fin_withSign (f : Fmt) (hf : f.Ok) (neg : Bool) (m : Nat) (hm : m < f.infBits) : Fin f (withSign f neg m) := by
  obtain ⟨h1, _, h3⟩ := withSign_props f hf neg m (by omega)
  exact ⟨by rw [h1]; exact hm, h3⟩

theorem valQ_zero (f : Fmt) : valQ f 0 = 0 := by
  rw [valQ_eq_w f 0 (signBit_pos f)]
  unfold wOf; simp

/-- sizes of the decoded parts of any pattern -/
theorem num_lt' (f : Fmt) (hf : f.Ok) (b : Nat) : num f b < 2 ^ 3001 := by
  rw [← num_abs]; exact num_lt f _ (Nat.mod_lt _ (signBit_pos f)) hf
theorem den_pos' (f : Fmt) (b : Nat) : 0 < den f b := (den_le f b).2

/-- `top` is a magnitude whose rounding is still finite: every fraction `≤ top` rounds to a finite pattern -/
structure Fmt.Top (f : Fmt) (top : Nat) : Prop where
  fin : rnd f top 1 < f.infBits
  small : top < 2 ^ 8000

theorem rnd_fin (f : Fmt) (hf : f.Ok) (top : Nat) (ht : f.Top top) (n d : Nat) (hd0 : 0 < d)
    (hn : n < 2 ^ 8000) (hd : d < 2 ^ 8000) (h : n ≤ top * d) : rnd f n d < f.infBits := by
  have h1 : (1:Nat) < 2 ^ 8000 := Nat.one_lt_two_pow (by omega)
  have := rnd_mono f hf n d top 1 hd0 (by omega) hn hd ht.small h1 (by omega)
  exact Nat.lt_of_le_of_lt this ht.fin

theorem top32 : b32.Top (2 ^ 127) := ⟨by decide +kernel, Nat.pow_lt_pow_right (by omega) (by omega)⟩
theorem top64 : b64.Top (2 ^ 1023) := ⟨by decide +kernel, Nat.pow_lt_pow_right (by omega) (by omega)⟩

/-- rounding a non-negative fraction bounded by `top`: finite, and accurate -/
theorem rnd_ok (f : Fmt) (hf : f.Ok) (top : Nat) (ht : f.Top top) (n d : Nat) (hd0 : 0 < d)
    (hn : n < 2 ^ 8000) (hd : d < 2 ^ 8000) (h : (n:ℚ) / d ≤ top) :
    rnd f n d < f.infBits ∧ |valQ f (rnd f n d) - (n : ℚ) / (d : ℚ)| ≤ (n : ℚ) / d * eps f + eta f := by
  have hdq : (0:ℚ) < d := by exact_mod_cast hd0
  have h' : n ≤ top * d := by
    rw [div_le_iff₀ hdq] at h
    exact_mod_cast h
  have hfin := rnd_fin f hf top ht n d hd0 hn hd h'
  exact ⟨hfin, rnd_acc f hf n d hd0 hn hd hfin⟩

/-- **Accuracy of `mul`** on finite operands whose exact product does not exceed `top`. -/
theorem mul_acc (f : Fmt) (hf : f.Ok) (top : Nat) (ht : f.Top top) (a b : Nat) (ha : Fin f a) (hb : Fin f b)
    (hbound : |toQ f a * toQ f b| ≤ top) :
    Fin f (mul f a b) ∧ |toQ f (mul f a b) - toQ f a * toQ f b| ≤ |toQ f a * toQ f b| * eps f + eta f := by
  obtain ⟨a1, a2⟩ := fin_flags f a ha
  obtain ⟨b1, b2⟩ := fin_flags f b hb
  have hda := den_pos' f a
  have hdb := den_pos' f b
  have hdaq : (den f a : ℚ) ≠ 0 := by exact_mod_cast (Nat.pos_iff_ne_zero.mp hda)
  have hdbq : (den f b : ℚ) ≠ 0 := by exact_mod_cast (Nat.pos_iff_ne_zero.mp hdb)
  have hprod : ((num f a * num f b : Nat) : ℚ) / ((den f a * den f b : Nat) : ℚ) = valQ f a * valQ f b := by
    unfold valQ; push_cast; field_simp
  have habs : |toQ f a * toQ f b| = valQ f a * valQ f b := by rw [abs_mul, abs_toQ, abs_toQ]
  rw [habs] at hbound ⊢
  obtain ⟨hfin, hacc⟩ := rnd_ok f hf top ht (num f a * num f b) (den f a * den f b) (Nat.mul_pos hda hdb)
    (mul_lt_8000 (num_lt' f hf a) (num_lt' f hf b)) (mul_lt_8000 (den_lt f a hf) (den_lt f b hf))
    (by rw [hprod]; exact hbound)
  rw [hprod] at hacc
  have hm : mul f a b = withSign f (isNeg f a != isNeg f b) (rnd f (num f a * num f b) (den f a * den f b)) := by
    unfold mul
    simp only [force_eq, a1, a2, b1, b2, Bool.or_self, Bool.false_eq_true, if_false]
  rw [hm]
  refine ⟨fin_withSign f hf _ _ hfin, ?_⟩
  rw [toQ_withSign f hf _ _ (by omega)]
  unfold toQ
  rw [abs_le] at hacc ⊢
  obtain ⟨l, u⟩ := hacc
  cases isNeg f a <;> cases isNeg f b <;> simp <;> constructor <;> linarith

/-- **Accuracy of `add`** on finite operands whose exact sum does not exceed `top`. -/
theorem add_acc (f : Fmt) (hf : f.Ok) (top : Nat) (ht : f.Top top) (a b : Nat) (ha : Fin f a) (hb : Fin f b)
    (hbound : |toQ f a + toQ f b| ≤ top) :
    Fin f (add f a b) ∧ |toQ f (add f a b) - (toQ f a + toQ f b)| ≤ |toQ f a + toQ f b| * eps f + eta f := by
  obtain ⟨a1, a2⟩ := fin_flags f a ha
  obtain ⟨b1, b2⟩ := fin_flags f b hb
  have hda := den_pos' f a
  have hdb := den_pos' f b
  have hdaq : (den f a : ℚ) ≠ 0 := by exact_mod_cast (Nat.pos_iff_ne_zero.mp hda)
  have hdbq : (den f b : ℚ) ≠ 0 := by exact_mod_cast (Nat.pos_iff_ne_zero.mp hdb)
  have hdd : 0 < den f a * den f b := Nat.mul_pos hda hdb
  have hddq : ((den f a * den f b : Nat) : ℚ) ≠ 0 := by exact_mod_cast (Nat.pos_iff_ne_zero.mp hdd)
  have hx : ((num f a * den f b : Nat) : ℚ) / ((den f a * den f b : Nat) : ℚ) = valQ f a := by
    unfold valQ; push_cast; field_simp
  have hy : ((num f b * den f a : Nat) : ℚ) / ((den f a * den f b : Nat) : ℚ) = valQ f b := by
    unfold valQ; push_cast; field_simp
  have n8 : ∀ x y z w : Nat, x < 2 ^ 3001 → y < 2 ^ 3001 → z < 2 ^ 3001 → w < 2 ^ 3001 → x * y + z * w < 2 ^ 8000 := by
    intro x y z w hx hy hz hw
    have h1 : x * y < 2 ^ 3001 * 2 ^ 3001 := Nat.mul_lt_mul'' hx hy
    have h2 : z * w < 2 ^ 3001 * 2 ^ 3001 := Nat.mul_lt_mul'' hz hw
    have e : (2:Nat) ^ 3001 * 2 ^ 3001 = 2 ^ 6002 := by rw [← Nat.pow_add]
    have e2 : (2:Nat) ^ 6002 + 2 ^ 6002 = 2 ^ 6003 := by rw [Nat.pow_succ]; omega
    have : (2:Nat) ^ 6003 ≤ 2 ^ 8000 := Nat.pow_le_pow_right (by omega) (by omega)
    omega
  have hna := num_lt' f hf a
  have hnb := num_lt' f hf b
  have hdda := den_lt f a hf
  have hddb := den_lt f b hf
  have hd8 := mul_lt_8000 hdda hddb
  have hva := valQ_nonneg f a
  have hvb := valQ_nonneg f b
  unfold add
  simp only [force_eq, a1, a2, b1, b2, Bool.or_self, Bool.false_eq_true, if_false]
  by_cases hs : isNeg f a = isNeg f b
  · -- same sign
    have hsb : (isNeg f a == isNeg f b) = true := by simp [hs]
    simp only [hsb, if_true]
    have hsum : ((num f a * den f b + num f b * den f a : Nat) : ℚ) / ((den f a * den f b : Nat) : ℚ) = valQ f a + valQ f b := by
      rw [Nat.cast_add, add_div, hx, hy]
    have habs : |toQ f a + toQ f b| = valQ f a + valQ f b := by
      unfold toQ; rw [← hs]
      cases isNeg f a
      · simp only [Bool.false_eq_true, if_false]; exact abs_of_nonneg (by linarith)
      · simp only [if_true]; rw [← neg_add, abs_neg]; exact abs_of_nonneg (by linarith)
    rw [habs] at hbound ⊢
    obtain ⟨hfin, hacc⟩ := rnd_ok f hf top ht _ _ hdd (n8 _ _ _ _ hna hddb hnb hdda) hd8 (by rw [hsum]; exact hbound)
    rw [hsum] at hacc
    refine ⟨fin_withSign f hf _ _ hfin, ?_⟩
    rw [toQ_withSign f hf _ _ (by omega)]
    unfold toQ; rw [← hs]
    rw [abs_le] at hacc ⊢
    obtain ⟨l, u⟩ := hacc
    cases isNeg f a <;> simp <;> constructor <;> linarith
  · have hsb : (isNeg f a == isNeg f b) = false := by simp [hs]
    simp only [hsb, Bool.false_eq_true, if_false]
    by_cases hxy : num f a * den f b = num f b * den f a
    · -- exact cancellation
      have hb' : (num f a * den f b == num f b * den f a) = true := by simp [hxy]
      simp only [hb', if_true]
      have hv : valQ f a = valQ f b := by rw [← hx, ← hy, hxy]
      have hz : toQ f a + toQ f b = 0 := by
        unfold toQ
        cases ha' : isNeg f a <;> cases hb'' : isNeg f b <;> simp_all
      rw [hz]
      have : toQ f 0 = 0 := by unfold toQ; rw [valQ_zero]; simp
      refine ⟨⟨?_, ?_⟩, ?_⟩
      · unfold absBits; rw [Nat.zero_mod]
        have := hf.hid; have := two_pow_pos f.M; unfold Fmt.hidden at *; omega
      · have := signBit_pos f; omega
      · rw [this]; simp; exact (eta_pos f).le
    · have hb' : (num f a * den f b == num f b * den f a) = false := by simp [hxy]
      simp only [hb', Bool.false_eq_true, if_false]
      by_cases hlt : num f b * den f a < num f a * den f b
      · simp only [Nat.blt_eq, hlt, if_true]
        have hdiff : ((num f a * den f b - num f b * den f a : Nat) : ℚ) / ((den f a * den f b : Nat) : ℚ) = valQ f a - valQ f b := by
          rw [Nat.cast_sub (Nat.le_of_lt hlt), sub_div, hx, hy]
        have hge : valQ f b < valQ f a := by
          rw [← hx, ← hy]
          exact div_lt_div_of_pos_right (by exact_mod_cast hlt) (by exact_mod_cast hdd)
        have habs : |toQ f a + toQ f b| = valQ f a - valQ f b := by
          unfold toQ
          cases ha' : isNeg f a <;> cases hb'' : isNeg f b <;> simp_all
          · rw [← sub_eq_add_neg, abs_of_pos (by linarith)]
          · rw [abs_of_neg (by linarith)]; ring
        rw [habs] at hbound ⊢
        obtain ⟨hfin, hacc⟩ := rnd_ok f hf top ht _ _ hdd
          (Nat.lt_of_le_of_lt (Nat.sub_le _ _) (mul_lt_8000 hna hddb)) hd8 (by rw [hdiff]; exact hbound)
        rw [hdiff] at hacc
        refine ⟨fin_withSign f hf _ _ hfin, ?_⟩
        rw [toQ_withSign f hf _ _ (by omega)]
        unfold toQ
        rw [abs_le] at hacc ⊢
        obtain ⟨l, u⟩ := hacc
        cases ha' : isNeg f a <;> cases hb'' : isNeg f b <;> simp_all <;> constructor <;> linarith
      · simp only [Nat.blt_eq, hlt, if_false]
        have hlt' : num f a * den f b < num f b * den f a := by omega
        have hdiff : ((num f b * den f a - num f a * den f b : Nat) : ℚ) / ((den f a * den f b : Nat) : ℚ) = valQ f b - valQ f a := by
          rw [Nat.cast_sub (Nat.le_of_lt hlt'), sub_div, hx, hy]
        have hge : valQ f a < valQ f b := by
          rw [← hx, ← hy]
          exact div_lt_div_of_pos_right (by exact_mod_cast hlt') (by exact_mod_cast hdd)
        have habs : |toQ f a + toQ f b| = valQ f b - valQ f a := by
          unfold toQ
          cases ha' : isNeg f a <;> cases hb'' : isNeg f b <;> simp_all
          · rw [← sub_eq_add_neg, abs_of_neg (by linarith)]; ring
          · rw [abs_of_pos (by linarith)]; ring
        rw [habs] at hbound ⊢
        obtain ⟨hfin, hacc⟩ := rnd_ok f hf top ht _ _ hdd
          (Nat.lt_of_le_of_lt (Nat.sub_le _ _) (mul_lt_8000 hnb hdda)) hd8 (by rw [hdiff]; exact hbound)
        rw [hdiff] at hacc
        refine ⟨fin_withSign f hf _ _ hfin, ?_⟩
        rw [toQ_withSign f hf _ _ (by omega)]
        unfold toQ
        rw [abs_le] at hacc ⊢
        obtain ⟨l, u⟩ := hacc
        cases ha' : isNeg f a <;> cases hb'' : isNeg f b <;> simp_all <;> constructor <;> linarith

/-- negation is exact -/
theorem neg_acc (f : Fmt) (b : Nat) (hb : Fin f b) : Fin f (neg f b) ∧ toQ f (neg f b) = - toQ f b := by
  obtain ⟨h1, h2⟩ := hb
  have hs := signBit_pos f
  unfold neg
  by_cases hn : f.signBit ≤ b
  · have e : isNeg f b = true := ble_true hn
    have hab : absBits f (b - f.signBit) = absBits f b := by
      unfold absBits
      conv_rhs => rw [show b = (b - f.signBit) + f.signBit from by omega]
      rw [Nat.add_mod_right]
    have hng : isNeg f (b - f.signBit) = false := ble_false (by omega)
    simp only [e, if_true]
    refine ⟨⟨by rw [hab]; exact h1, by omega⟩, ?_⟩
    unfold toQ
    rw [hng, e, ← valQ_abs, hab, valQ_abs]; simp
  · have e : isNeg f b = false := ble_false hn
    have hab : absBits f (b + f.signBit) = absBits f b := by
      unfold absBits; rw [Nat.add_mod_right]
    have hng : isNeg f (b + f.signBit) = true := ble_true (by omega)
    simp only [e, Bool.false_eq_true, if_false]
    refine ⟨⟨by rw [hab]; exact h1, by omega⟩, ?_⟩
    unfold toQ
    rw [hng, e, ← valQ_abs, hab, valQ_abs]; simp

/-- **Accuracy of `sub`**. -/
theorem sub_acc (f : Fmt) (hf : f.Ok) (top : Nat) (ht : f.Top top) (a b : Nat) (ha : Fin f a) (hb : Fin f b)
    (hbound : |toQ f a - toQ f b| ≤ top) :
    Fin f (sub f a b) ∧ |toQ f (sub f a b) - (toQ f a - toQ f b)| ≤ |toQ f a - toQ f b| * eps f + eta f := by
  obtain ⟨hn1, hn2⟩ := neg_acc f b hb
  unfold sub
  have := add_acc f hf top ht a (neg f b) ha hn1 (by rw [hn2, ← sub_eq_add_neg]; exact hbound)
  rw [hn2, ← sub_eq_add_neg] at this
  exact this

/-- **Accuracy of format conversion** (`float64(x)` / `float32(x)`): one rounding in the destination format. -/
theorem cvt_acc (src dst : Fmt) (hs : src.Ok) (hd : dst.Ok) (top : Nat) (ht : dst.Top top) (a : Nat) (ha : Fin src a)
    (hbound : |toQ src a| ≤ top) :
    Fin dst (cvt src dst a) ∧ |toQ dst (cvt src dst a) - toQ src a| ≤ |toQ src a| * eps dst + eta dst := by
  obtain ⟨a1, a2⟩ := fin_flags src a ha
  rw [abs_toQ] at hbound ⊢
  have h38 : (2:Nat) ^ 3001 < 2 ^ 8000 := Nat.pow_lt_pow_right (by omega) (by omega)
  have hn8 : num src a < 2 ^ 8000 := Nat.lt_trans (num_lt' src hs a) h38
  have hd8 : den src a < 2 ^ 8000 := Nat.lt_trans (den_lt src a hs) h38
  obtain ⟨hfin, hacc⟩ := rnd_ok dst hd top ht (num src a) (den src a) (den_pos' src a) hn8 hd8 hbound
  have hm : cvt src dst a = withSign dst (isNeg src a) (rnd dst (num src a) (den src a)) := by
    unfold cvt
    simp only [force_eq, a1, a2, Bool.false_eq_true, if_false]
  rw [hm]
  refine ⟨fin_withSign dst hd _ _ hfin, ?_⟩
  rw [toQ_withSign dst hd _ _ (by omega)]
  have e : (num src a : ℚ) / (den src a : ℚ) = valQ src a := rfl
  rw [e] at hacc
  clear h38 hn8 hd8
  unfold toQ
  rw [abs_le] at hacc ⊢
  obtain ⟨l, u⟩ := hacc
  cases isNeg src a <;> simp <;> constructor <;> linarith

end SF

namespace SF

/-- **Accuracy of `div`** on finite operands, non-zero divisor, exact quotient not exceeding `top`. -/
theorem div_acc (f : Fmt) (hf : f.Ok) (top : Nat) (ht : f.Top top) (a b : Nat) (ha : Fin f a) (hb : Fin f b)
    (hb0 : absBits f b ≠ 0) (hbound : |toQ f a / toQ f b| ≤ top) :
    Fin f (div f a b) ∧ |toQ f (div f a b) - toQ f a / toQ f b| ≤ |toQ f a / toQ f b| * eps f + eta f := by
  obtain ⟨a1, a2⟩ := fin_flags f a ha
  obtain ⟨b1, b2⟩ := fin_flags f b hb
  have hz : isZero f b = false := by unfold isZero; simpa using hb0
  have hda := den_pos' f a
  have hdb := den_pos' f b
  have hnb : 0 < num f b := by
    rw [← num_abs]
    exact num_pos f _ (Nat.pos_of_ne_zero hb0) (Nat.mod_lt _ (signBit_pos f))
  have hdaq : (den f a : ℚ) ≠ 0 := by exact_mod_cast (Nat.pos_iff_ne_zero.mp hda)
  have hdbq : (den f b : ℚ) ≠ 0 := by exact_mod_cast (Nat.pos_iff_ne_zero.mp hdb)
  have hnbq : (num f b : ℚ) ≠ 0 := by exact_mod_cast (Nat.pos_iff_ne_zero.mp hnb)
  have hvb : valQ f b ≠ 0 := by unfold valQ; exact div_ne_zero hnbq hdbq
  have hquot : ((num f a * den f b : Nat) : ℚ) / ((den f a * num f b : Nat) : ℚ) = valQ f a / valQ f b := by
    unfold valQ; push_cast; field_simp
  have habs : |toQ f a / toQ f b| = valQ f a / valQ f b := by rw [abs_div, abs_toQ, abs_toQ]
  rw [habs] at hbound ⊢
  obtain ⟨hfin, hacc⟩ := rnd_ok f hf top ht (num f a * den f b) (den f a * num f b) (Nat.mul_pos hda hnb)
    (mul_lt_8000 (num_lt' f hf a) (den_lt f b hf)) (mul_lt_8000 (den_lt f a hf) (num_lt' f hf b))
    (by rw [hquot]; exact hbound)
  rw [hquot] at hacc
  have hm : div f a b = withSign f (isNeg f a != isNeg f b) (rnd f (num f a * den f b) (den f a * num f b)) := by
    unfold div
    simp only [force_eq, a1, a2, b1, b2, hz, Bool.or_self, Bool.false_eq_true, if_false]
  rw [hm]
  refine ⟨fin_withSign f hf _ _ hfin, ?_⟩
  rw [toQ_withSign f hf _ _ (by omega)]
  unfold toQ
  rw [abs_le] at hacc ⊢
  obtain ⟨l, u⟩ := hacc
  cases isNeg f a <;> cases isNeg f b <;> simp [neg_div, div_neg] <;> constructor <;> linarith

/-- **Accuracy of integer conversion** (`float32(n)`): one rounding. -/
theorem ofNat_acc (f : Fmt) (hf : f.Ok) (top : Nat) (ht : f.Top top) (n : Nat) (hn : n ≤ top) :
    Fin f (ofNat f n) ∧ |toQ f (ofNat f n) - n| ≤ (n : ℚ) * eps f + eta f := by
  have h1 : (1:Nat) < 2 ^ 8000 := Nat.one_lt_two_pow (by omega)
  obtain ⟨hfin, hacc⟩ := rnd_ok f hf top ht n 1 (by omega) (Nat.lt_of_le_of_lt hn ht.small) h1
    (by simpa using (by exact_mod_cast hn : (n:ℚ) ≤ top))
  simp only [Nat.cast_one, div_one] at hacc
  unfold ofNat
  have hs := infBits_lt_signBit f hf
  have hab : absBits f (rnd f n 1) = rnd f n 1 := by unfold absBits; exact Nat.mod_eq_of_lt (by omega)
  have hng : isNeg f (rnd f n 1) = false := by unfold isNeg; exact ble_false (by omega)
  refine ⟨⟨by rw [hab]; exact hfin, by omega⟩, ?_⟩
  unfold toQ; rw [hng]; simpa using hacc

end SF
