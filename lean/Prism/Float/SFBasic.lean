import Prism.Float.SF

/-! Basic facts about `SF` that do not depend on any regenerated data. -/

namespace SF

theorem force_eq {α : Type} (x : Nat) (f : Nat → α) : force x f = f x := by
  unfold force; cases x <;> rfl

end SF
