import Prism.Float.SFBasic
import Mathlib.Tactic.Linarith
import Mathlib.Tactic.Positivity
import Mathlib.Tactic.Ring
import Mathlib.Tactic.NormNum

/-!
# Facts about the executable softfloat `SF` — monotonicity of rounding

`SF.rnd f n d` rounds the positive rational `n/d` to the nearest representable magnitude (ties to
even) and returns its bit pattern.  This file proves, in natural-number arithmetic and for every
format: the logarithm search is correct; rounding is **monotone** (`n₁/d₁ ≤ n₂/d₂` implies
`rnd n₁ d₁ ≤ rnd n₂ d₂` as bit patterns); decoding is monotone in the bit pattern; hence
multiplication by a positive constant, addition of a positive constant and truncation are monotone
on non-negative finite floats.
-/

namespace SF

/-! ### The logarithm search -/

def lgStep (k : Nat) (st : Nat × Nat) : Nat × Nat :=
  if st.1 >>> k == 0 then st else (st.1 >>> k, st.2 + k)

theorem lg_eq (n : Nat) : lg n =
    (lgStep 1 (lgStep 2 (lgStep 4 (lgStep 8 (lgStep 16 (lgStep 32 (lgStep 64 (lgStep 128 (lgStep 256
      (lgStep 512 (lgStep 1024 (lgStep 2048 (lgStep 4096 (lgStep 8192 (n, 0))))))))))))))).2 := by
  unfold lg lgStep
  simp only [force_eq]

theorem lgStep_inv (n k : Nat) (st : Nat × Nat) (h1 : n >>> st.2 = st.1) (h2 : 0 < st.1) (h3 : st.1 < 2 ^ (2 * k)) :
    n >>> (lgStep k st).2 = (lgStep k st).1 ∧ 0 < (lgStep k st).1 ∧ (lgStep k st).1 < 2 ^ k := by
  unfold lgStep
  by_cases h : st.1 >>> k = 0
  · simp only [h, beq_self_eq_true, if_true]
    refine ⟨h1, h2, ?_⟩
    rw [Nat.shiftRight_eq_div_pow] at h
    have hp : 0 < 2 ^ k := Nat.pos_of_ne_zero (by positivity)
    exact (Nat.div_eq_zero_iff_lt hp).mp h
  · have hb : (st.1 >>> k == 0) = false := by simpa using h
    simp only [hb, Bool.false_eq_true, if_false]
    refine ⟨?_, Nat.pos_of_ne_zero h, ?_⟩
    · rw [Nat.shiftRight_add, h1]
    · rw [Nat.shiftRight_eq_div_pow]
      have hp : 0 < 2 ^ k := Nat.pos_of_ne_zero (by positivity)
      rw [Nat.div_lt_iff_lt_mul hp, ← Nat.pow_add]
      have : k + k = 2 * k := by omega
      rw [this]; exact h3

/-- `lg n = ⌊log₂ n⌋` for `0 < n < 2^16384` -/
theorem lg_spec (n : Nat) (h0 : 0 < n) (hn : n < 2 ^ 16384) : 2 ^ lg n ≤ n ∧ n < 2 ^ (lg n + 1) := by
  rw [lg_eq]
  have s0 : n >>> ((n, 0) : Nat × Nat).2 = ((n, 0) : Nat × Nat).1 := by simp
  have i1 := lgStep_inv n 8192 (n, 0) s0 h0 (by simpa using hn)
  have i2 := lgStep_inv n 4096 _ i1.1 i1.2.1 i1.2.2
  have i3 := lgStep_inv n 2048 _ i2.1 i2.2.1 i2.2.2
  have i4 := lgStep_inv n 1024 _ i3.1 i3.2.1 i3.2.2
  have i5 := lgStep_inv n 512 _ i4.1 i4.2.1 i4.2.2
  have i6 := lgStep_inv n 256 _ i5.1 i5.2.1 i5.2.2
  have i7 := lgStep_inv n 128 _ i6.1 i6.2.1 i6.2.2
  have i8 := lgStep_inv n 64 _ i7.1 i7.2.1 i7.2.2
  have i9 := lgStep_inv n 32 _ i8.1 i8.2.1 i8.2.2
  have i10 := lgStep_inv n 16 _ i9.1 i9.2.1 i9.2.2
  have i11 := lgStep_inv n 8 _ i10.1 i10.2.1 i10.2.2
  have i12 := lgStep_inv n 4 _ i11.1 i11.2.1 i11.2.2
  have i13 := lgStep_inv n 2 _ i12.1 i12.2.1 i12.2.2
  have i14 := lgStep_inv n 1 _ i13.1 i13.2.1 i13.2.2
  generalize (lgStep 1 (lgStep 2 (lgStep 4 (lgStep 8 (lgStep 16 (lgStep 32 (lgStep 64 (lgStep 128 (lgStep 256
      (lgStep 512 (lgStep 1024 (lgStep 2048 (lgStep 4096 (lgStep 8192 (n, 0))))))))))))))) = st at i14
  obtain ⟨ha, hb, hc⟩ := i14
  have h1 : st.1 = 1 := by omega
  rw [h1, Nat.shiftRight_eq_div_pow] at ha
  have hp : 0 < 2 ^ st.2 := Nat.pos_of_ne_zero (by positivity)
  constructor
  · have := Nat.div_mul_le_self n (2 ^ st.2)
    rw [ha] at this; omega
  · have := Nat.lt_mul_of_div_lt (by rw [ha]; omega : n / 2 ^ st.2 < 2) hp
    rw [Nat.pow_succ]; omega

/-! ### Round half to even on fractions of naturals -/

def rheN (nn dd : Nat) : Nat :=
  if 2 * (nn % dd) < dd then nn / dd else if dd < 2 * (nn % dd) then nn / dd + 1 else nn / dd + nn / dd % 2

theorem rheN_bounds (nn dd : Nat) : nn / dd ≤ rheN nn dd ∧ rheN nn dd ≤ nn / dd + 1 := by
  unfold rheN
  split
  · omega
  · split <;> omega

theorem div_le_div_of_cross {n1 d1 n2 d2 : Nat} (h1 : 0 < d1) (h2 : 0 < d2) (h : n1 * d2 ≤ n2 * d1) : n1 / d1 ≤ n2 / d2 := by
  rw [Nat.le_div_iff_mul_le h2]
  have hk : n1 / d1 * d1 ≤ n1 := Nat.div_mul_le_self n1 d1
  have : n1 / d1 * d2 * d1 ≤ n2 * d1 := by
    calc n1 / d1 * d2 * d1 = n1 / d1 * d1 * d2 := by ring
      _ ≤ n1 * d2 := Nat.mul_le_mul_right _ hk
      _ ≤ n2 * d1 := h
  exact Nat.le_of_mul_le_mul_right this h1

theorem rheN_mono {n1 d1 n2 d2 : Nat} (h1 : 0 < d1) (h2 : 0 < d2) (h : n1 * d2 ≤ n2 * d1) : rheN n1 d1 ≤ rheN n2 d2 := by
  have hk := div_le_div_of_cross h1 h2 h
  have b1 := rheN_bounds n1 d1
  have b2 := rheN_bounds n2 d2
  rcases Nat.lt_or_ge (n1 / d1) (n2 / d2) with hlt | hge
  · omega
  · have hke : n1 / d1 = n2 / d2 := by omega
    -- same integer part: compare the remainders
    have e1 := Nat.div_add_mod n1 d1
    have e2 := Nat.div_add_mod n2 d2
    have r1 := Nat.mod_lt n1 h1
    have r2 := Nat.mod_lt n2 h2
    have hr : (n1 % d1) * d2 ≤ (n2 % d2) * d1 := by
      have : (d1 * (n1 / d1) + n1 % d1) * d2 ≤ (d2 * (n2 / d2) + n2 % d2) * d1 := by rw [e1, e2]; exact h
      rw [hke] at this
      nlinarith
    unfold rheN
    rw [hke]
    by_cases c1 : 2 * (n1 % d1) < d1
    · simp only [c1, if_true]
      split
      · omega
      · split <;> omega
    · simp only [c1, if_false]
      by_cases c2 : d1 < 2 * (n1 % d1)
      · simp only [c2, if_true]
        have : d2 < 2 * (n2 % d2) := by nlinarith
        have c3 : ¬ (2 * (n2 % d2) < d2) := by omega
        simp only [c3, if_false, this, if_true]
        omega
      · simp only [c2, if_false]
        have htie : 2 * (n1 % d1) = d1 := by omega
        have : d2 ≤ 2 * (n2 % d2) := by nlinarith
        have c3 : ¬ (2 * (n2 % d2) < d2) := by omega
        simp only [c3, if_false]
        split <;> omega

/-! ### The structure of `rnd` -/

/-- `xbOf n d − B = ⌊log₂ (n/d)⌋` -/
def xbOf (n d : Nat) : Nat :=
  B + lg n - lg d -
    (if (if Nat.ble (lg d) (lg n) then Nat.ble (d <<< (lg n - lg d)) n else Nat.ble d (n <<< (lg d - lg n))) then 0 else 1)

/-- quantum exponent (+ B) -/
def qebOf (f : Fmt) (n d : Nat) : Nat :=
  (if Nat.ble (B + 1 - f.bias) (xbOf n d) then xbOf n d else B + 1 - f.bias) - f.M

def nnOf (qeb n : Nat) : Nat := if Nat.ble B qeb then n else n <<< (B - qeb)
def ddOf (qeb d : Nat) : Nat := if Nat.ble B qeb then d <<< (qeb - B) else d

/-- assemble the bit pattern from the quantum exponent and the rounded significand -/
def packOf (f : Fmt) (qeb k' : Nat) : Nat :=
  if Nat.blt k' f.hidden then k' else
    if Nat.ble f.infBits ((qeb + f.K - B) * f.hidden + (k' - f.hidden)) then f.infBits
    else (qeb + f.K - B) * f.hidden + (k' - f.hidden)

theorem rnd_eq (f : Fmt) (n d : Nat) (hn : n ≠ 0) :
    rnd f n d = packOf f (qebOf f n d) (rheN (nnOf (qebOf f n d) n) (ddOf (qebOf f n d) d)) := by
  have hb : (n == 0) = false := by simpa using hn
  unfold rnd packOf rheN nnOf ddOf qebOf xbOf
  simp only [force_eq, hb, Bool.false_eq_true, if_false, Nat.blt_eq]

theorem rnd_zero (f : Fmt) (d : Nat) : rnd f 0 d = 0 := by
  unfold rnd; simp [force_eq]

theorem ble_false {a b : Nat} (h : ¬ a ≤ b) : Nat.ble a b = false := by
  cases hb : Nat.ble a b with
  | false => rfl
  | true => exact absurd (Nat.le_of_ble_eq_true hb) h

theorem blt_false {a b : Nat} (h : ¬ a < b) : Nat.blt a b = false := by
  cases hb : Nat.blt a b with
  | false => rfl
  | true => exact absurd (Nat.blt_eq.mp hb) h

theorem ble_true {a b : Nat} (h : a ≤ b) : Nat.ble a b = true := Nat.ble_eq_true_of_le h

theorem two_pow_pos (k : Nat) : 0 < (2:Nat) ^ k := Nat.pos_of_ne_zero (by positivity)

theorem xbOf_spec (n d : Nat) (hn0 : 0 < n) (hd0 : 0 < d) (hn : n < 2 ^ 8000) (hd : d < 2 ^ 8000) :
    2 ^ xbOf n d * d ≤ n * 2 ^ B ∧ n * 2 ^ B < 2 ^ (xbOf n d + 1) * d := by
  have hbig : (2:Nat) ^ 8000 < 2 ^ 16384 := Nat.pow_lt_pow_right (by omega) (by omega)
  obtain ⟨hl1, hl2⟩ := lg_spec n hn0 (by omega)
  obtain ⟨hm1, hm2⟩ := lg_spec d hd0 (by omega)
  have hln : lg n < 8000 := by
    by_contra hc
    have : (2:Nat) ^ 8000 ≤ 2 ^ lg n := Nat.pow_le_pow_right (by omega) (by omega)
    omega
  have hld : lg d < 8000 := by
    by_contra hc
    have : (2:Nat) ^ 8000 ≤ 2 ^ lg d := Nat.pow_le_pow_right (by omega) (by omega)
    omega
  clear hn hd hbig
  unfold xbOf
  have hB : B = 8192 := rfl
  by_cases hc : lg d ≤ lg n
  · obtain ⟨s, hs⟩ := Nat.exists_eq_add_of_le hc
    have e1 : lg n - lg d = s := by omega
    simp only [ble_true hc, if_true, e1, Nat.shiftLeft_eq]
    rw [hs, Nat.pow_add] at hl1
    rw [hs, show lg d + s + 1 = lg d + s + 1 by rfl, Nat.pow_succ, Nat.pow_add] at hl2
    rw [Nat.pow_succ] at hm2
    have hS := two_pow_pos s
    have hA := two_pow_pos (lg d)
    by_cases hge : d * 2 ^ s ≤ n
    · simp only [ble_true hge, if_true, Nat.sub_zero]
      have e2 : B + lg n - lg d = B + s := by omega
      rw [e2, Nat.pow_succ, Nat.pow_add]
      have hP := two_pow_pos B
      generalize (2:Nat) ^ B = P at *
      generalize (2:Nat) ^ s = S at *
      generalize (2:Nat) ^ lg d = A at *
      constructor
      · nlinarith
      · have : n < 2 * S * d := by nlinarith
        nlinarith
    · simp only [ble_false hge, Bool.false_eq_true, if_false]
      have e2 : B + lg n - lg d - 1 = (B - 1) + s := by omega
      have eB : (2:Nat) ^ B = 2 ^ (B - 1) * 2 := by rw [← Nat.pow_succ]; congr 1
      rw [e2, eB, Nat.pow_succ, Nat.pow_add]
      have hP := two_pow_pos (B - 1)
      generalize (2:Nat) ^ (B - 1) = P at *
      generalize (2:Nat) ^ s = S at *
      generalize (2:Nat) ^ lg d = A at *
      have hge' : n < d * S := by omega
      constructor
      · have : S * d ≤ 2 * n := by nlinarith
        nlinarith
      · nlinarith
  · have hc' : lg n < lg d := by omega
    obtain ⟨s, hs⟩ := Nat.exists_eq_add_of_le (Nat.le_of_lt hc')
    have e1 : lg d - lg n = s := by omega
    have hs1 : 1 ≤ s := by omega
    simp only [ble_false hc, Bool.false_eq_true, if_false, e1, Nat.shiftLeft_eq]
    rw [hs, Nat.pow_add] at hm1
    rw [hs, Nat.pow_succ, Nat.pow_add] at hm2
    rw [Nat.pow_succ] at hl2
    have hS := two_pow_pos s
    have hA := two_pow_pos (lg n)
    by_cases hge : d ≤ n * 2 ^ s
    · simp only [ble_true hge, if_true, Nat.sub_zero]
      have e2 : B + lg n - lg d = B - s := by omega
      have eB : (2:Nat) ^ B = 2 ^ (B - s) * 2 ^ s := by rw [← Nat.pow_add]; congr 1; omega
      rw [e2, eB, Nat.pow_succ]
      have hP := two_pow_pos (B - s)
      generalize (2:Nat) ^ (B - s) = P at *
      generalize (2:Nat) ^ s = S at *
      generalize (2:Nat) ^ lg n = A at *
      constructor
      · nlinarith
      · have : n * S < 2 * d := by nlinarith
        nlinarith
    · simp only [ble_false hge, Bool.false_eq_true, if_false]
      have h1 : (2:Nat) ^ (B + lg n - lg d - 1) = 2 ^ (B - s - 1) := by congr 1; omega
      have h2 : (2:Nat) ^ (B + lg n - lg d - 1 + 1) = 2 ^ (B - s - 1) * 2 := by rw [Nat.pow_succ, h1]
      have h3 : (2:Nat) ^ B = 2 ^ (B - s - 1) * 2 * 2 ^ s := by
        rw [← Nat.pow_succ, ← Nat.pow_add]; congr 1; omega
      rw [h1, h2, h3]
      have hP := two_pow_pos (B - s - 1)
      generalize (2:Nat) ^ (B - s - 1) = P at *
      generalize (2:Nat) ^ s = S at *
      generalize (2:Nat) ^ lg n = A at *
      have hge' : n * S < d := by omega
      constructor
      · have : d ≤ 2 * (n * S) := by nlinarith
        nlinarith
      · have h2P : 0 < P * 2 := by omega
        calc n * (P * 2 * S) = P * 2 * (n * S) := by ring
          _ < P * 2 * d := Nat.mul_lt_mul_of_pos_left hge' h2P

/-! ### Monotonicity of `rnd` -/

theorem ddOf_pos (Q d : Nat) (hd : 0 < d) : 0 < ddOf Q d := by
  unfold ddOf
  split
  · rw [Nat.shiftLeft_eq]; exact Nat.mul_pos hd (two_pow_pos _)
  · exact hd

/-- `nn/dd = (n/d) / 2^(Q−B)`, in cross-multiplied form -/
theorem scale_eq (Q n d : Nat) : nnOf Q n * (2 ^ Q * d) = n * 2 ^ B * ddOf Q d := by
  unfold nnOf ddOf
  by_cases h : B ≤ Q
  · simp only [ble_true h, if_true, Nat.shiftLeft_eq]
    have : (2:Nat) ^ Q = 2 ^ B * 2 ^ (Q - B) := by rw [← Nat.pow_add, Nat.add_sub_cancel' h]
    rw [this]
    generalize (2:Nat) ^ B = P
    generalize (2:Nat) ^ (Q - B) = R
    ring
  · simp only [ble_false h, Bool.false_eq_true, if_false, Nat.shiftLeft_eq]
    have : (2:Nat) ^ B = 2 ^ (B - Q) * 2 ^ Q := by rw [← Nat.pow_add, Nat.sub_add_cancel (Nat.le_of_lt (Nat.lt_of_not_le h))]
    rw [this]
    generalize (2:Nat) ^ Q = P
    generalize (2:Nat) ^ (B - Q) = R
    ring

/-- on a common scale the scaled fractions are ordered as the originals -/
theorem scaled_cross (Q n1 d1 n2 d2 : Nat) (hd1 : 0 < d1) (hd2 : 0 < d2) (h : n1 * d2 ≤ n2 * d1) :
    nnOf Q n1 * ddOf Q d2 ≤ nnOf Q n2 * ddOf Q d1 := by
  have e1 := scale_eq Q n1 d1
  have e2 := scale_eq Q n2 d2
  have hpos : 0 < 2 ^ Q * d1 * d2 := Nat.mul_pos (Nat.mul_pos (two_pow_pos _) hd1) hd2
  apply Nat.le_of_mul_le_mul_right _ hpos
  calc nnOf Q n1 * ddOf Q d2 * (2 ^ Q * d1 * d2) = (nnOf Q n1 * (2 ^ Q * d1)) * (ddOf Q d2 * d2) := by ring
    _ = (n1 * 2 ^ B * ddOf Q d1) * (ddOf Q d2 * d2) := by rw [e1]
    _ = (n1 * d2) * (2 ^ B * ddOf Q d1 * ddOf Q d2) := by ring
    _ ≤ (n2 * d1) * (2 ^ B * ddOf Q d1 * ddOf Q d2) := Nat.mul_le_mul_right _ h
    _ = (n2 * 2 ^ B * ddOf Q d2) * (ddOf Q d1 * d1) := by ring
    _ = (nnOf Q n2 * (2 ^ Q * d2)) * (ddOf Q d1 * d1) := by rw [e2]
    _ = nnOf Q n2 * ddOf Q d1 * (2 ^ Q * d1 * d2) := by ring

/-- the floor-logarithm is monotone -/
theorem xbOf_mono (n1 d1 n2 d2 : Nat) (hn1 : 0 < n1) (hd1 : 0 < d1) (hn2 : 0 < n2) (hd2 : 0 < d2)
    (b1 : n1 < 2 ^ 8000) (b2 : d1 < 2 ^ 8000) (b3 : n2 < 2 ^ 8000) (b4 : d2 < 2 ^ 8000)
    (h : n1 * d2 ≤ n2 * d1) : xbOf n1 d1 ≤ xbOf n2 d2 := by
  have s1 := (xbOf_spec n1 d1 hn1 hd1 b1 b2).1
  have s2 := (xbOf_spec n2 d2 hn2 hd2 b3 b4).2
  by_contra hc
  have hlt : xbOf n2 d2 + 1 ≤ xbOf n1 d1 := by omega
  have hp : (2:Nat) ^ (xbOf n2 d2 + 1) ≤ 2 ^ xbOf n1 d1 := Nat.pow_le_pow_right (by omega) hlt
  have hP := two_pow_pos B
  generalize (2:Nat) ^ (xbOf n2 d2 + 1) = U at *
  generalize (2:Nat) ^ xbOf n1 d1 = V at *
  generalize (2:Nat) ^ B = P at *
  -- V d1 ≤ n1 P ; n2 P < U d2 ; U ≤ V ; n1 d2 ≤ n2 d1
  have a1 : V * d1 * d2 ≤ n1 * P * d2 := Nat.mul_le_mul_right _ s1
  have a2 : n2 * P * d1 < U * d2 * d1 := Nat.mul_lt_mul_of_pos_right s2 hd1
  have a3 : n1 * P * d2 ≤ n2 * P * d1 := by
    calc n1 * P * d2 = (n1 * d2) * P := by ring
      _ ≤ (n2 * d1) * P := Nat.mul_le_mul_right _ h
      _ = n2 * P * d1 := by ring
  have a4 : U * d2 * d1 ≤ V * d1 * d2 := by
    calc U * d2 * d1 = U * (d1 * d2) := by ring
      _ ≤ V * (d1 * d2) := Nat.mul_le_mul_right _ hp
      _ = V * d1 * d2 := by ring
  omega

/-- the significand before rounding is below `2^(M+1)` -/
theorem sig_lt (f : Fmt) (n d : Nat) (hn0 : 0 < n) (hd0 : 0 < d) (hn : n < 2 ^ 8000) (hd : d < 2 ^ 8000)
    (hf : f.M + f.bias ≤ 4000) :
    nnOf (qebOf f n d) n < 2 ^ (f.M + 1) * ddOf (qebOf f n d) d := by
  have s2 := (xbOf_spec n d hn0 hd0 hn hd).2
  have e := scale_eq (qebOf f n d) n d
  have hB : B = 8192 := rfl
  clear hn hd
  have hX : xbOf n d + 1 ≤ qebOf f n d + (f.M + 1) := by
    unfold qebOf
    by_cases hc : B + 1 - f.bias ≤ xbOf n d
    · simp only [ble_true hc, if_true]; omega
    · simp only [ble_false hc, Bool.false_eq_true, if_false]; omega
  have hp : (2:Nat) ^ (xbOf n d + 1) ≤ 2 ^ (qebOf f n d) * 2 ^ (f.M + 1) := by
    rw [← Nat.pow_add]; exact Nat.pow_le_pow_right (by omega) hX
  have hdd := ddOf_pos (qebOf f n d) d hd0
  have hQ := two_pow_pos (qebOf f n d)
  generalize (2:Nat) ^ (xbOf n d + 1) = U at *
  generalize (2:Nat) ^ (qebOf f n d) = V at *
  generalize (2:Nat) ^ (f.M + 1) = W at *
  generalize (2:Nat) ^ B = P at *
  generalize nnOf (qebOf f n d) n = nn at *
  generalize ddOf (qebOf f n d) d = dd at *
  -- nn V d = n P dd < U d dd ≤ V W d dd
  have a1 : nn * (V * d) < U * d * dd := by
    rw [e]; exact Nat.mul_lt_mul_of_pos_right s2 hdd
  have a2 : U * d * dd ≤ V * W * d * dd := Nat.mul_le_mul_right _ (Nat.mul_le_mul_right _ hp)
  have a3 : nn * (V * d) < (W * dd) * (V * d) := by
    calc nn * (V * d) < V * W * d * dd := Nat.lt_of_lt_of_le a1 a2
      _ = (W * dd) * (V * d) := by ring
  exact Nat.lt_of_mul_lt_mul_right a3

/-- in the normal range the significand before rounding is at least `2^M` -/
theorem sig_ge (f : Fmt) (n d : Nat) (hn0 : 0 < n) (hd0 : 0 < d) (hn : n < 2 ^ 8000) (hd : d < 2 ^ 8000)
    (hf : f.M + f.bias ≤ 4000) (hnorm : B + 1 - f.bias ≤ xbOf n d) :
    2 ^ f.M * ddOf (qebOf f n d) d ≤ nnOf (qebOf f n d) n := by
  have s1 := (xbOf_spec n d hn0 hd0 hn hd).1
  have e := scale_eq (qebOf f n d) n d
  have hB : B = 8192 := rfl
  clear hn hd
  have hX : xbOf n d = qebOf f n d + f.M := by
    unfold qebOf
    simp only [ble_true hnorm, if_true]
    omega
  have hp : (2:Nat) ^ (xbOf n d) = 2 ^ (qebOf f n d) * 2 ^ f.M := by
    rw [← Nat.pow_add, hX]
  have hdd := ddOf_pos (qebOf f n d) d hd0
  have hQ := two_pow_pos (qebOf f n d)
  rw [hp] at s1
  generalize (2:Nat) ^ (qebOf f n d) = V at *
  generalize (2:Nat) ^ f.M = W at *
  generalize (2:Nat) ^ B = P at *
  generalize nnOf (qebOf f n d) n = nn at *
  generalize ddOf (qebOf f n d) d = dd at *
  -- V W d ≤ n P  ⇒  V W d dd ≤ n P dd = nn V d
  have a1 : V * W * d * dd ≤ nn * (V * d) := by
    rw [e]; exact Nat.mul_le_mul_right _ s1
  have a2 : (W * dd) * (V * d) ≤ nn * (V * d) := by
    calc (W * dd) * (V * d) = V * W * d * dd := by ring
      _ ≤ nn * (V * d) := a1
  exact Nat.le_of_mul_le_mul_right a2 (Nat.mul_pos hQ hd0)

theorem pack_le_inf (f : Fmt) (Q k : Nat) (hH : f.hidden ≤ f.infBits) : packOf f Q k ≤ f.infBits := by
  unfold packOf
  by_cases h1 : k < f.hidden
  · simp only [Nat.blt_eq, h1, decide_true, if_true]; omega
  · simp only [Nat.blt_eq, h1, decide_false, Bool.false_eq_true, if_false]
    by_cases h2 : f.infBits ≤ (Q + f.K - B) * f.hidden + (k - f.hidden)
    · simp only [ble_true h2, if_true]; exact Nat.le_refl _
    · simp only [ble_false h2, Bool.false_eq_true, if_false]; omega

theorem pack_mono_k (f : Fmt) (Q k k' : Nat) (hk : k ≤ k') (hc : 1 ≤ Q + f.K - B) (hH : f.hidden ≤ f.infBits) :
    packOf f Q k ≤ packOf f Q k' := by
  have hcH : f.hidden ≤ (Q + f.K - B) * f.hidden := Nat.le_mul_of_pos_left _ hc
  unfold packOf
  by_cases h1 : k' < f.hidden
  · have h0 : k < f.hidden := by omega
    simp only [Nat.blt_eq, h1, h0, decide_true, if_true]; exact hk
  · simp only [Nat.blt_eq, h1, decide_false, Bool.false_eq_true, if_false]
    by_cases h0 : k < f.hidden
    · simp only [h0, decide_true, if_true]
      by_cases h2 : f.infBits ≤ (Q + f.K - B) * f.hidden + (k' - f.hidden)
      · simp only [ble_true h2, if_true]; omega
      · simp only [ble_false h2, Bool.false_eq_true, if_false]; omega
    · simp only [h0, decide_false, Bool.false_eq_true, if_false]
      by_cases h2 : f.infBits ≤ (Q + f.K - B) * f.hidden + (k - f.hidden)
      · have h3 : f.infBits ≤ (Q + f.K - B) * f.hidden + (k' - f.hidden) := by omega
        simp only [ble_true h2, ble_true h3, if_true]; exact Nat.le_refl _
      · simp only [ble_false h2, Bool.false_eq_true, if_false]
        by_cases h3 : f.infBits ≤ (Q + f.K - B) * f.hidden + (k' - f.hidden)
        · simp only [ble_true h3, if_true]; omega
        · simp only [ble_false h3, Bool.false_eq_true, if_false]; omega

theorem pack_upper (f : Fmt) (Q k : Nat) (hk : k ≤ 2 * f.hidden) (hc : 1 ≤ Q + f.K - B) :
    packOf f Q k ≤ (Q + f.K - B + 1) * f.hidden := by
  have hcH : f.hidden ≤ (Q + f.K - B) * f.hidden := Nat.le_mul_of_pos_left _ hc
  have e : (Q + f.K - B + 1) * f.hidden = (Q + f.K - B) * f.hidden + f.hidden := by ring
  unfold packOf
  by_cases h1 : k < f.hidden
  · simp only [Nat.blt_eq, h1, decide_true, if_true]; omega
  · simp only [Nat.blt_eq, h1, decide_false, Bool.false_eq_true, if_false]
    by_cases h2 : f.infBits ≤ (Q + f.K - B) * f.hidden + (k - f.hidden)
    · simp only [ble_true h2, if_true]; omega
    · simp only [ble_false h2, Bool.false_eq_true, if_false]; omega

theorem pack_lower (f : Fmt) (Q k : Nat) (hk : f.hidden ≤ k) :
    packOf f Q k = f.infBits ∨ (Q + f.K - B) * f.hidden ≤ packOf f Q k := by
  unfold packOf
  have h1 : ¬ k < f.hidden := by omega
  simp only [Nat.blt_eq, h1, decide_false, Bool.false_eq_true, if_false]
  by_cases h2 : f.infBits ≤ (Q + f.K - B) * f.hidden + (k - f.hidden)
  · simp only [ble_true h2, if_true]; left; trivial
  · simp only [ble_false h2, Bool.false_eq_true, if_false]; right; omega

/-- well-formedness of a format for these lemmas (both binary32 and binary64 satisfy it) -/
structure Fmt.Ok (f : Fmt) : Prop where
  small : f.M + f.bias ≤ 4000
  hid : f.hidden ≤ f.infBits
  exp : f.M + 2 ^ f.E ≤ 3000
  e1 : 1 ≤ f.E

theorem b32_ok : b32.Ok := ⟨by decide, by decide, by decide, by decide⟩
theorem b64_ok : b64.Ok := ⟨by decide, by decide, by decide, by decide⟩

theorem qebOf_ge (f : Fmt) (n d : Nat) (hf : f.Ok) : 1 ≤ qebOf f n d + f.K - B := by
  have hB : B = 8192 := rfl
  have := hf.small
  unfold qebOf Fmt.K
  by_cases hc : B + 1 - f.bias ≤ xbOf n d
  · simp only [ble_true hc, if_true]; omega
  · simp only [ble_false hc, Bool.false_eq_true, if_false]; omega

/-- **`rnd` is monotone**: a larger fraction rounds to a bit pattern that is at least as large. -/
theorem rnd_mono (f : Fmt) (hf : f.Ok) (n1 d1 n2 d2 : Nat) (hd1 : 0 < d1) (hd2 : 0 < d2)
    (b1 : n1 < 2 ^ 8000) (b2 : d1 < 2 ^ 8000) (b3 : n2 < 2 ^ 8000) (b4 : d2 < 2 ^ 8000)
    (h : n1 * d2 ≤ n2 * d1) : rnd f n1 d1 ≤ rnd f n2 d2 := by
  by_cases hn1 : n1 = 0
  · subst hn1; rw [rnd_zero]; exact Nat.zero_le _
  have hn1' : 0 < n1 := Nat.pos_of_ne_zero hn1
  have hn2' : 0 < n2 := by
    apply Nat.pos_of_ne_zero
    intro h0; subst h0
    have : 0 < n1 * d2 := Nat.mul_pos hn1' hd2
    omega
  rw [rnd_eq f n1 d1 hn1, rnd_eq f n2 d2 (by omega)]
  have hX := xbOf_mono n1 d1 n2 d2 hn1' hd1 hn2' hd2 b1 b2 b3 b4 h
  have hB : B = 8192 := rfl
  have hsm := hf.small
  have hQ : qebOf f n1 d1 ≤ qebOf f n2 d2 := by
    unfold qebOf
    by_cases c1 : B + 1 - f.bias ≤ xbOf n1 d1
    · have c2 : B + 1 - f.bias ≤ xbOf n2 d2 := by omega
      simp only [ble_true c1, ble_true c2, if_true]; omega
    · simp only [ble_false c1, Bool.false_eq_true, if_false]
      by_cases c2 : B + 1 - f.bias ≤ xbOf n2 d2
      · simp only [ble_true c2, if_true]; omega
      · simp only [ble_false c2, Bool.false_eq_true, if_false]; exact Nat.le_refl _
  have hc1 := qebOf_ge f n1 d1 hf
  have hc2 := qebOf_ge f n2 d2 hf
  -- the first significand is at most 2^(M+1) after rounding
  have hs1 := sig_lt f n1 d1 hn1' hd1 b1 b2 hsm
  have hdd1 := ddOf_pos (qebOf f n1 d1) d1 hd1
  have hdd2 := ddOf_pos (qebOf f n2 d2) d2 hd2
  have hk1 : rheN (nnOf (qebOf f n1 d1) n1) (ddOf (qebOf f n1 d1) d1) ≤ 2 * f.hidden := by
    have hb := (rheN_bounds (nnOf (qebOf f n1 d1) n1) (ddOf (qebOf f n1 d1) d1)).2
    have : nnOf (qebOf f n1 d1) n1 / ddOf (qebOf f n1 d1) d1 < 2 ^ (f.M + 1) := by
      rw [Nat.div_lt_iff_lt_mul hdd1]; exact hs1
    have e : (2:Nat) ^ (f.M + 1) = 2 * f.hidden := by unfold Fmt.hidden; rw [Nat.pow_succ]; ring
    omega
  rcases Nat.lt_or_ge (qebOf f n1 d1) (qebOf f n2 d2) with hlt | hge
  · -- different quantum exponents: the second value is normal
    have hnorm2 : B + 1 - f.bias ≤ xbOf n2 d2 := by
      by_contra hc
      have : qebOf f n2 d2 = B + 1 - f.bias - f.M := by
        unfold qebOf; simp only [ble_false hc, Bool.false_eq_true, if_false]
      have : B + 1 - f.bias - f.M ≤ qebOf f n1 d1 := by
        unfold qebOf
        by_cases c1 : B + 1 - f.bias ≤ xbOf n1 d1
        · simp only [ble_true c1, if_true]; omega
        · simp only [ble_false c1, Bool.false_eq_true, if_false]; exact Nat.le_refl _
      omega
    have hs2 := sig_ge f n2 d2 hn2' hd2 b3 b4 hsm hnorm2
    have hk2 : f.hidden ≤ rheN (nnOf (qebOf f n2 d2) n2) (ddOf (qebOf f n2 d2) d2) := by
      have hb := (rheN_bounds (nnOf (qebOf f n2 d2) n2) (ddOf (qebOf f n2 d2) d2)).1
      have : f.hidden ≤ nnOf (qebOf f n2 d2) n2 / ddOf (qebOf f n2 d2) d2 := by
        rw [Nat.le_div_iff_mul_le hdd2]; exact hs2
      omega
    have hu := pack_upper f (qebOf f n1 d1) _ hk1 hc1
    have hi := pack_le_inf f (qebOf f n1 d1) (rheN (nnOf (qebOf f n1 d1) n1) (ddOf (qebOf f n1 d1) d1)) hf.hid
    rcases pack_lower f (qebOf f n2 d2) _ hk2 with hinf | hlow
    · rw [hinf]; exact hi
    · have : (qebOf f n1 d1 + f.K - B + 1) * f.hidden ≤ (qebOf f n2 d2 + f.K - B) * f.hidden :=
        Nat.mul_le_mul_right _ (by omega)
      omega
  · -- same quantum exponent
    have hQe : qebOf f n2 d2 = qebOf f n1 d1 := by omega
    rw [hQe]
    apply pack_mono_k f _ _ _ _ hc1 hf.hid
    exact rheN_mono hdd1 (ddOf_pos _ _ hd2) (scaled_cross _ n1 d1 n2 d2 hd1 hd2 h)

/-! ### Decoding is monotone in the bit pattern -/

/-- the significand and exponent of a magnitude pattern, scaled by `2^K`: value = `wOf / 2^K` -/
def wOf (f : Fmt) (a : Nat) : Nat :=
  (if a / 2 ^ f.M = 0 then a % 2 ^ f.M else a % 2 ^ f.M + 2 ^ f.M) * 2 ^ (if a / 2 ^ f.M = 0 then 1 else a / 2 ^ f.M)

theorem signBit_pos (f : Fmt) : 0 < f.signBit := two_pow_pos _

theorem num_den_w (f : Fmt) (a : Nat) (ha : a < f.signBit) : num f a * 2 ^ f.K = wOf f a * den f a ∧ 0 < den f a := by
  unfold num den wOf absBits Fmt.hidden
  simp only [force_eq, Nat.mod_eq_of_lt ha, Nat.shiftRight_eq_div_pow, Nat.shiftLeft_eq, beq_iff_eq]
  by_cases he : a / 2 ^ f.M = 0
  · simp only [he, if_true]
    by_cases hk : f.K ≤ 1
    · simp only [ble_true hk, if_true]
      refine ⟨?_, by omega⟩
      have : (2:Nat) ^ 1 = 2 ^ (1 - f.K) * 2 ^ f.K := by rw [← Nat.pow_add, Nat.sub_add_cancel hk]
      rw [this]; ring
    · simp only [ble_false hk, Bool.false_eq_true, if_false]
      refine ⟨?_, by simp⟩
      have : (2:Nat) ^ f.K = 2 ^ 1 * 2 ^ (f.K - 1) := by rw [← Nat.pow_add]; congr 1; omega
      rw [this]; ring
  · simp only [he, if_false]
    by_cases hk : f.K ≤ a / 2 ^ f.M
    · simp only [ble_true hk, if_true]
      refine ⟨?_, by omega⟩
      have : (2:Nat) ^ (a / 2 ^ f.M) = 2 ^ (a / 2 ^ f.M - f.K) * 2 ^ f.K := by rw [← Nat.pow_add, Nat.sub_add_cancel hk]
      rw [this]; ring
    · simp only [ble_false hk, Bool.false_eq_true, if_false]
      refine ⟨?_, by simp⟩
      have : (2:Nat) ^ f.K = 2 ^ (a / 2 ^ f.M) * 2 ^ (f.K - a / 2 ^ f.M) := by rw [← Nat.pow_add]; congr 1; omega
      rw [this]; ring

theorem wOf_mono (f : Fmt) (a b : Nat) (h : a ≤ b) : wOf f a ≤ wOf f b := by
  unfold wOf
  have hH := two_pow_pos f.M
  have hdiv : a / 2 ^ f.M ≤ b / 2 ^ f.M := Nat.div_le_div_right h
  have ea := Nat.div_add_mod a (2 ^ f.M)
  have eb := Nat.div_add_mod b (2 ^ f.M)
  have ra := Nat.mod_lt a hH
  have rb := Nat.mod_lt b hH
  generalize a / 2 ^ f.M = ea' at *
  generalize b / 2 ^ f.M = eb' at *
  generalize a % 2 ^ f.M = fa at *
  generalize b % 2 ^ f.M = fb at *
  generalize (2:Nat) ^ f.M = H at *
  rcases Nat.lt_or_ge ea' eb' with hlt | hge
  · -- different exponent fields
    have hb0 : ¬ eb' = 0 := by omega
    simp only [hb0, if_false]
    have hpow : ∀ k, k + 1 ≤ eb' → (2:Nat) ^ (k + 1) ≤ 2 ^ eb' := fun k hk => Nat.pow_le_pow_right (by omega) hk
    by_cases ha0 : ea' = 0
    · simp only [ha0, if_true]
      have h2 := hpow 0 (by omega)
      have : fa * 2 ^ 1 ≤ H * 2 ^ eb' := by
        calc fa * 2 ^ 1 ≤ H * 2 ^ 1 := Nat.mul_le_mul_right _ (Nat.le_of_lt ra)
          _ ≤ H * 2 ^ eb' := Nat.mul_le_mul_left _ (by simpa using h2)
      calc fa * 2 ^ 1 ≤ H * 2 ^ eb' := this
        _ ≤ (fb + H) * 2 ^ eb' := Nat.mul_le_mul_right _ (by omega)
    · simp only [ha0, if_false]
      have h2 := hpow ea' (by omega)
      calc (fa + H) * 2 ^ ea' ≤ (2 * H) * 2 ^ ea' := Nat.mul_le_mul_right _ (by omega)
        _ = H * 2 ^ (ea' + 1) := by rw [Nat.pow_succ]; ring
        _ ≤ H * 2 ^ eb' := Nat.mul_le_mul_left _ h2
        _ ≤ (fb + H) * 2 ^ eb' := Nat.mul_le_mul_right _ (by omega)
  · have he : ea' = eb' := by omega
    subst he
    have hf : fa ≤ fb := by
      have : H * ea' + fa ≤ H * ea' + fb := by omega
      omega
    by_cases ha0 : ea' = 0
    · simp only [ha0, if_true]; exact Nat.mul_le_mul_right _ hf
    · simp only [ha0, if_false]; exact Nat.mul_le_mul_right _ (by omega)

/-- value order in cross-multiplied form -/
def valLe (f : Fmt) (a b : Nat) : Prop := num f a * den f b ≤ num f b * den f a

theorem valLe_of_le (f : Fmt) (a b : Nat) (hb : b < f.signBit) (h : a ≤ b) : valLe f a b := by
  have ha : a < f.signBit := by omega
  obtain ⟨e1, p1⟩ := num_den_w f a ha
  obtain ⟨e2, p2⟩ := num_den_w f b hb
  have hw := wOf_mono f a b h
  unfold valLe
  have hK := two_pow_pos f.K
  apply Nat.le_of_mul_le_mul_right _ hK
  calc num f a * den f b * 2 ^ f.K = (num f a * 2 ^ f.K) * den f b := by ring
    _ = wOf f a * den f a * den f b := by rw [e1]
    _ ≤ wOf f b * den f a * den f b := Nat.mul_le_mul_right _ (Nat.mul_le_mul_right _ hw)
    _ = (wOf f b * den f b) * den f a := by ring
    _ = (num f b * 2 ^ f.K) * den f a := by rw [e2]
    _ = num f b * den f a * 2 ^ f.K := by ring

/-! ### Sizes of decoded numerators and denominators -/

theorem den_le (f : Fmt) (a : Nat) : den f a ≤ 2 ^ f.K ∧ 0 < den f a := by
  unfold den
  simp only [force_eq, Nat.shiftLeft_eq, Nat.one_mul]
  generalize (if (absBits f a >>> f.M == 0) = true then 1 else absBits f a >>> f.M) = e'
  by_cases hk : f.K ≤ e'
  · simp only [ble_true hk, if_true]; exact ⟨two_pow_pos _, by omega⟩
  · simp only [ble_false hk, Bool.false_eq_true, if_false]
    exact ⟨Nat.pow_le_pow_right (by omega) (by omega), two_pow_pos _⟩

theorem K_le (f : Fmt) (hf : f.Ok) : f.K ≤ 3000 := by
  have h1 := hf.exp
  have h2 := hf.e1
  unfold Fmt.K Fmt.bias
  have : (2:Nat) ^ (f.E - 1) ≤ 2 ^ f.E := Nat.pow_le_pow_right (by omega) (by omega)
  have p1 := two_pow_pos (f.E - 1)
  have p2 := two_pow_pos f.E
  omega

theorem wOf_lt (f : Fmt) (a : Nat) (ha : a < f.signBit) (hf : f.Ok) : wOf f a < 2 ^ 3001 := by
  unfold wOf
  have hH := two_pow_pos f.M
  have hr := Nat.mod_lt a hH
  have he : a / 2 ^ f.M < 2 ^ f.E := by
    rw [Nat.div_lt_iff_lt_mul hH, ← Nat.pow_add, Nat.add_comm]; exact ha
  have hexp := hf.exp
  have h1 : (if a / 2 ^ f.M = 0 then a % 2 ^ f.M else a % 2 ^ f.M + 2 ^ f.M) < 2 ^ (f.M + 1) := by
    rw [Nat.pow_succ]; split <;> omega
  have h2 : (if a / 2 ^ f.M = 0 then 1 else a / 2 ^ f.M) ≤ 2 ^ f.E := by
    split
    · exact two_pow_pos _
    · omega
  calc _ < 2 ^ (f.M + 1) * 2 ^ (if a / 2 ^ f.M = 0 then 1 else a / 2 ^ f.M) :=
        Nat.mul_lt_mul_of_pos_right h1 (two_pow_pos _)
    _ ≤ 2 ^ (f.M + 1) * 2 ^ (2 ^ f.E) := Nat.mul_le_mul_left _ (Nat.pow_le_pow_right (by omega) h2)
    _ = 2 ^ (f.M + 1 + 2 ^ f.E) := by rw [← Nat.pow_add]
    _ ≤ 2 ^ 3001 := Nat.pow_le_pow_right (by omega) (by omega)

theorem num_lt (f : Fmt) (a : Nat) (ha : a < f.signBit) (hf : f.Ok) : num f a < 2 ^ 3001 := by
  obtain ⟨e, _⟩ := num_den_w f a ha
  have hd := (den_le f a).1
  have hw := wOf_lt f a ha hf
  have hK := two_pow_pos f.K
  have : num f a * 2 ^ f.K ≤ wOf f a * 2 ^ f.K := by rw [e]; exact Nat.mul_le_mul_left _ hd
  have := Nat.le_of_mul_le_mul_right this hK
  omega

theorem den_lt (f : Fmt) (a : Nat) (hf : f.Ok) : den f a < 2 ^ 3001 := by
  have h1 := (den_le f a).1
  have h2 : (2:Nat) ^ f.K ≤ 2 ^ 3000 := Nat.pow_le_pow_right (by omega) (K_le f hf)
  have : (2:Nat) ^ 3000 < 2 ^ 3001 := Nat.pow_lt_pow_right (by omega) (by omega)
  omega

theorem mul_lt_8000 {x y : Nat} (hx : x < 2 ^ 3001) (hy : y < 2 ^ 3001) : x * y < 2 ^ 8000 := by
  have : x * y < 2 ^ 3001 * 2 ^ 3001 := Nat.mul_lt_mul'' hx hy
  have e : (2:Nat) ^ 3001 * 2 ^ 3001 = 2 ^ 6002 := by rw [← Nat.pow_add]
  have : (2:Nat) ^ 6002 ≤ 2 ^ 8000 := Nat.pow_le_pow_right (by omega) (by omega)
  omega

/-! ### Operations on non-negative finite floats -/

/-- a non-negative finite pattern -/
def FinPos (f : Fmt) (a : Nat) : Prop := a < f.infBits

theorem infBits_lt_signBit (f : Fmt) (hf : f.Ok) : f.infBits < f.signBit := by
  unfold Fmt.infBits Fmt.signBit
  have h1 := hf.e1
  have hp := two_pow_pos f.E
  have hm := two_pow_pos f.M
  calc (2 ^ f.E - 1) * 2 ^ f.M < 2 ^ f.E * 2 ^ f.M := Nat.mul_lt_mul_of_pos_right (by omega) hm
    _ = 2 ^ (f.M + f.E) := by rw [← Nat.pow_add, Nat.add_comm]

theorem finPos_flags (f : Fmt) (hf : f.Ok) (a : Nat) (ha : FinPos f a) :
    isNaN f a = false ∧ isInf f a = false ∧ isNeg f a = false ∧ absBits f a = a := by
  have hs := infBits_lt_signBit f hf
  unfold FinPos at ha
  have hab : absBits f a = a := by unfold absBits; exact Nat.mod_eq_of_lt (by omega)
  refine ⟨?_, ?_, ?_, hab⟩
  · unfold isNaN; rw [hab]; exact blt_false (by omega)
  · unfold isInf; rw [hab]; simp only [beq_eq_false_iff_ne]; omega
  · unfold isNeg; exact ble_false (by omega)

/-- multiplication of non-negative finite floats is one rounding of the exact product -/
theorem mul_finPos (f : Fmt) (hf : f.Ok) (a c : Nat) (ha : FinPos f a) (hc : FinPos f c) :
    mul f a c = rnd f (num f a * num f c) (den f a * den f c) := by
  obtain ⟨a1, a2, a3, _⟩ := finPos_flags f hf a ha
  obtain ⟨c1, c2, c3, _⟩ := finPos_flags f hf c hc
  unfold mul
  simp only [force_eq, a1, a2, a3, c1, c2, c3, Bool.or_self, Bool.false_eq_true, if_false, bne_self_eq_false, withSign]

/-- **multiplication by a non-negative constant is monotone** on non-negative finite floats -/
theorem mul_mono (f : Fmt) (hf : f.Ok) (a a' c : Nat) (ha' : FinPos f a') (hc : FinPos f c) (h : a ≤ a') :
    mul f a c ≤ mul f a' c := by
  have ha : FinPos f a := by unfold FinPos at *; omega
  have hs := infBits_lt_signBit f hf
  unfold FinPos at ha ha' hc
  rw [mul_finPos f hf a c ha hc, mul_finPos f hf a' c ha' hc]
  have hv := valLe_of_le f a a' (by omega) h
  unfold valLe at hv
  have d1 := (den_le f a).2
  have d2 := (den_le f a').2
  have d3 := (den_le f c).2
  apply rnd_mono f hf _ _ _ _ (Nat.mul_pos d1 d3) (Nat.mul_pos d2 d3)
    (mul_lt_8000 (num_lt f a (by omega) hf) (num_lt f c (by omega) hf))
    (mul_lt_8000 (den_lt f a hf) (den_lt f c hf))
    (mul_lt_8000 (num_lt f a' (by omega) hf) (num_lt f c (by omega) hf))
    (mul_lt_8000 (den_lt f a' hf) (den_lt f c hf))
  calc num f a * num f c * (den f a' * den f c) = (num f a * den f a') * (num f c * den f c) := by ring
    _ ≤ (num f a' * den f a) * (num f c * den f c) := Nat.mul_le_mul_right _ hv
    _ = num f a' * num f c * (den f a * den f c) := by ring

/-- addition of non-negative finite floats is one rounding of the exact sum -/
theorem add_finPos (f : Fmt) (hf : f.Ok) (a c : Nat) (ha : FinPos f a) (hc : FinPos f c) :
    add f a c = rnd f (num f a * den f c + num f c * den f a) (den f a * den f c) := by
  obtain ⟨a1, a2, a3, _⟩ := finPos_flags f hf a ha
  obtain ⟨c1, c2, c3, _⟩ := finPos_flags f hf c hc
  unfold add
  simp only [force_eq, a1, a2, a3, c1, c2, c3, Bool.or_self, Bool.false_eq_true, if_false, beq_self_eq_true, if_true, withSign]

/-- **adding a non-negative constant is monotone** on non-negative finite floats -/
theorem add_mono (f : Fmt) (hf : f.Ok) (a a' c : Nat) (ha' : FinPos f a') (hc : FinPos f c) (h : a ≤ a') :
    add f a c ≤ add f a' c := by
  have ha : FinPos f a := by unfold FinPos at *; omega
  have hs := infBits_lt_signBit f hf
  unfold FinPos at ha ha' hc
  rw [add_finPos f hf a c ha hc, add_finPos f hf a' c ha' hc]
  have hv := valLe_of_le f a a' (by omega) h
  unfold valLe at hv
  have d1 := (den_le f a).2
  have d2 := (den_le f a').2
  have d3 := (den_le f c).2
  have n1 := num_lt f a (by omega) hf
  have n2 := num_lt f a' (by omega) hf
  have n3 := num_lt f c (by omega) hf
  have sum_lt : ∀ x y z w : Nat, x < 2 ^ 3001 → y < 2 ^ 3001 → z < 2 ^ 3001 → w < 2 ^ 3001 → x * y + z * w < 2 ^ 8000 := by
    intro x y z w hx hy hz hw
    have h1 : x * y < 2 ^ 3001 * 2 ^ 3001 := Nat.mul_lt_mul'' hx hy
    have h2 : z * w < 2 ^ 3001 * 2 ^ 3001 := Nat.mul_lt_mul'' hz hw
    have e : (2:Nat) ^ 3001 * 2 ^ 3001 = 2 ^ 6002 := by rw [← Nat.pow_add]
    have e2 : (2:Nat) ^ 6002 + 2 ^ 6002 = 2 ^ 6003 := by rw [Nat.pow_succ]; omega
    have : (2:Nat) ^ 6003 ≤ 2 ^ 8000 := Nat.pow_le_pow_right (by omega) (by omega)
    omega
  apply rnd_mono f hf _ _ _ _ (Nat.mul_pos d1 d3) (Nat.mul_pos d2 d3)
    (sum_lt _ _ _ _ n1 (den_lt f c hf) n3 (den_lt f a hf))
    (mul_lt_8000 (den_lt f a hf) (den_lt f c hf))
    (sum_lt _ _ _ _ n2 (den_lt f c hf) n3 (den_lt f a' hf))
    (mul_lt_8000 (den_lt f a' hf) (den_lt f c hf))
  calc (num f a * den f c + num f c * den f a) * (den f a' * den f c)
      = (num f a * den f a') * (den f c * den f c) + num f c * den f a * den f a' * den f c := by ring
    _ ≤ (num f a' * den f a) * (den f c * den f c) + num f c * den f a * den f a' * den f c :=
        Nat.add_le_add_right (Nat.mul_le_mul_right _ hv) _
    _ = (num f a' * den f c + num f c * den f a') * (den f a * den f c) := by ring

/-- **truncation is monotone** -/
theorem trunc_mono (f : Fmt) (hf : f.Ok) (a a' : Nat) (ha' : FinPos f a') (h : a ≤ a') :
    truncNat f a ≤ truncNat f a' := by
  have hs := infBits_lt_signBit f hf
  unfold FinPos at ha'
  unfold truncNat
  simp only [force_eq]
  exact div_le_div_of_cross (den_le f a).2 (den_le f a').2 (valLe_of_le f a a' (by omega) h)

theorem wOf_pos (f : Fmt) (a : Nat) (h : 0 < a) : 0 < wOf f a := by
  unfold wOf
  have hH := two_pow_pos f.M
  apply Nat.mul_pos _ (two_pow_pos _)
  by_cases he : a / 2 ^ f.M = 0
  · simp only [he, if_true]
    have := (Nat.div_eq_zero_iff_lt hH).mp he
    rw [Nat.mod_eq_of_lt this]; exact h
  · simp only [he, if_false]; omega

theorem num_pos (f : Fmt) (a : Nat) (h0 : 0 < a) (ha : a < f.signBit) : 0 < num f a := by
  obtain ⟨e, hd⟩ := num_den_w f a ha
  have hw := wOf_pos f a h0
  have : 0 < num f a * 2 ^ f.K := by rw [e]; exact Nat.mul_pos hw hd
  exact Nat.pos_of_mul_pos_right this

/-- division of non-negative finite floats by a positive finite float is one rounding of the exact quotient -/
theorem div_finPos (f : Fmt) (hf : f.Ok) (a c : Nat) (ha : FinPos f a) (hc : FinPos f c) (hc0 : 0 < c) :
    div f a c = rnd f (num f a * den f c) (den f a * num f c) := by
  obtain ⟨a1, a2, a3, _⟩ := finPos_flags f hf a ha
  obtain ⟨c1, c2, c3, c4⟩ := finPos_flags f hf c hc
  have cz : isZero f c = false := by unfold isZero; rw [c4]; simp only [beq_eq_false_iff_ne]; omega
  unfold div
  simp only [force_eq, a1, a2, a3, c1, c2, c3, cz, Bool.or_self, Bool.false_eq_true, if_false, bne_self_eq_false, withSign]

/-- **division by a positive constant is monotone** on non-negative finite floats -/
theorem div_mono (f : Fmt) (hf : f.Ok) (a a' c : Nat) (ha' : FinPos f a') (hc : FinPos f c) (hc0 : 0 < c) (h : a ≤ a') :
    div f a c ≤ div f a' c := by
  have ha : FinPos f a := by unfold FinPos at *; omega
  have hs := infBits_lt_signBit f hf
  unfold FinPos at ha ha' hc
  rw [div_finPos f hf a c ha hc hc0, div_finPos f hf a' c ha' hc hc0]
  have hv := valLe_of_le f a a' (by omega) h
  unfold valLe at hv
  have d1 := (den_le f a).2
  have d2 := (den_le f a').2
  have d3 := num_pos f c hc0 (by omega)
  apply rnd_mono f hf _ _ _ _ (Nat.mul_pos d1 d3) (Nat.mul_pos d2 d3)
    (mul_lt_8000 (num_lt f a (by omega) hf) (den_lt f c hf))
    (mul_lt_8000 (den_lt f a hf) (num_lt f c (by omega) hf))
    (mul_lt_8000 (num_lt f a' (by omega) hf) (den_lt f c hf))
    (mul_lt_8000 (den_lt f a' hf) (num_lt f c (by omega) hf))
  calc num f a * den f c * (den f a' * num f c) = (num f a * den f a') * (den f c * num f c) := by ring
    _ ≤ (num f a' * den f a) * (den f c * num f c) := Nat.mul_le_mul_right _ hv
    _ = num f a' * den f c * (den f a * num f c) := by ring

/-- conversion of naturals is monotone -/
theorem ofNat_mono (f : Fmt) (hf : f.Ok) (m n : Nat) (hn : n < 2 ^ 8000) (h : m ≤ n) : ofNat f m ≤ ofNat f n := by
  unfold ofNat
  have h1 : (1:Nat) < 2 ^ 8000 := Nat.one_lt_two_pow (by omega)
  exact rnd_mono f hf m 1 n 1 (by omega) (by omega) (by omega) h1 hn h1 (by omega)

end SF
