import Prism.Model.Reader
import Prism.Model.Png
import Prism.Model.Jpeg
import Prism.Model.Webp

/-!
# Model of `meta/autometa`: try PNG, JPEG, WebP in turn, each over the stream the previous
  loader returned
-/

namespace Prism.Auto

/-- the three extractors, in the order `autometa.Load` tries them -/
def progs (fuel : Nat) : List (Prog (Except PErr Meta)) :=
  [(Png.extract fuel).run, (Jpeg.extract fuel).run, Webp.extract.run]

/-- the loader loop of `autometa.Load` over a list of candidate extractors -/
def loadList (zl : Prog.Inflate) : List (Prog (Except PErr Meta)) → Rd → Except PErr Meta × Rd
  | [], r => (.error (.bad "unrecognised image format"), r)
  | p :: ps, r =>
    match load zl p r with
    | (.ok m, r') => (.ok m, r')
    | (.error _, r') => loadList zl ps r'

def load (zl : Prog.Inflate) (fuel : Nat) (r : Rd) : Except PErr Meta × Rd := loadList zl (progs fuel) r

/-- the first candidate that succeeds on the complete input, each seeing it from its first byte -/
def firstSuccess (zl : Prog.Inflate) (data : List UInt8) (e : IOErr) : List (Prog (Except PErr Meta)) → Except PErr Meta
  | [] => .error (.bad "unrecognised image format")
  | p :: ps =>
    match (Prog.runPure zl p data e {}).1 with
    | .ok m => .ok m
    | .error _ => firstSuccess zl data e ps

end Prism.Auto
