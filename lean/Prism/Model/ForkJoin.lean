/-!
# The fork/join protocol of `parallel.RunWorkers`

```go
func RunWorkers(n int, worker func(workerNum, workerCount int)) {
	allDone := sync.WaitGroup{}
	allDone.Add(n)
	for workerNum := 0; workerNum < n; workerNum++ {
		go func(workerNum int) { defer allDone.Done(); worker(workerNum, n) }(workerNum)
	}
	allDone.Wait()
}
```

(github.com/mandykoh/go-parallel v0.1.0, the only way the library starts goroutines — `Prism/Gen/Concurrency.lean`.)
A state machine over an arbitrary scheduler: goroutine 0 is the caller, goroutine `i+1` is worker `i`.  `Wait` can be passed
only when the counter is zero.  `stepB` is the variant with `Add(1)` *inside* each goroutine.
-/

namespace Prism.ForkJoin

inductive Ev where
  | add (k : Nat)      -- WaitGroup.Add(k)
  | spawn (i : Nat)    -- go func(i)
  | work (i : Nat)     -- worker(i, n): the rows of worker i are written
  | done (i : Nat)     -- WaitGroup.Done() in worker i
  | ret                -- Wait() returned: RunWorkers returns
deriving DecidableEq, Repr

structure St where
  n : Nat
  mpc : Nat            -- caller: 0 before Add, 1 spawning, 2 in Wait, 3 returned
  spawned : Nat
  counter : Nat
  wpc : List Nat       -- worker i: 0 not started, 1 started, 2 worked, 3 done
  trace : List Ev
deriving Repr

def St.init (n : Nat) : St := ⟨n, 0, 0, 0, List.replicate n 0, []⟩

/-- one scheduler step of goroutine `g` (`none`: it cannot move — blocked in `Wait`, not started, or finished) -/
def step (s : St) (g : Nat) : Option St :=
  match g with
  | 0 =>
    match s.mpc with
    | 0 => some { s with mpc := 1, counter := s.counter + s.n, trace := s.trace ++ [.add s.n] }
    | 1 =>
      if s.spawned < s.n then
        some { s with spawned := s.spawned + 1, wpc := s.wpc.set s.spawned 1, trace := s.trace ++ [.spawn s.spawned] }
      else some { s with mpc := 2 }
    | 2 => if s.counter = 0 then some { s with mpc := 3, trace := s.trace ++ [.ret] } else none
    | _ => none
  | i + 1 =>
    match s.wpc[i]? with
    | some 1 => some { s with wpc := s.wpc.set i 2, trace := s.trace ++ [.work i] }
    | some 2 => some { s with wpc := s.wpc.set i 3, counter := s.counter - 1, trace := s.trace ++ [.done i] }
    | _ => none

def run (s : St) : List Nat → St
  | [] => s
  | g :: gs => match step s g with
    | some s' => run s' gs
    | none => run s gs

/-- `RunWorkers` has returned, and worker `i`'s work is in the trace before the return -/
def workBeforeRet (t : List Ev) (i : Nat) : Prop :=
  ∃ pre post, t = pre ++ [Ev.ret] ++ post ∧ Ev.work i ∈ pre

/-! ### the variant with `Add(1)` inside the goroutine -/

def stepB (s : St) (g : Nat) : Option St :=
  match g with
  | 0 =>
    match s.mpc with
    | 0 => some { s with mpc := 1 }
    | 1 =>
      if s.spawned < s.n then
        some { s with spawned := s.spawned + 1, wpc := s.wpc.set s.spawned 1, trace := s.trace ++ [.spawn s.spawned] }
      else some { s with mpc := 2 }
    | 2 => if s.counter = 0 then some { s with mpc := 3, trace := s.trace ++ [.ret] } else none
    | _ => none
  | i + 1 =>
    match s.wpc[i]? with
    | some 1 => some { s with wpc := s.wpc.set i 4, counter := s.counter + 1, trace := s.trace ++ [.add 1] }
    | some 4 => some { s with wpc := s.wpc.set i 2, trace := s.trace ++ [.work i] }
    | some 2 => some { s with wpc := s.wpc.set i 3, counter := s.counter - 1, trace := s.trace ++ [.done i] }
    | _ => none

def runB (s : St) : List Nat → St
  | [] => s
  | g :: gs => match stepB s g with
    | some s' => runB s' gs
    | none => runB s gs

end Prism.ForkJoin
