import Prism.Model.Prog

/-!
# Model of `meta/icc` (profilereader.go, tagtable.go, textdescription.go,
  multilocalisedunicode.go, profileversion.go)
-/

namespace Prism.Icc
open Parser

structure Header where
  size : Nat := 0
  cmm : Nat := 0
  major : Nat := 0
  minorRev : Nat := 0
  deviceClass : Nat := 0
  colorSpace : Nat := 0
  pcs : Nat := 0
  /-- dateTimeNumber: year, month, day, hour, minute, second as stored -/
  date : List Nat := []
  platform : Nat := 0
  embedded : Bool := false
  dependsOnEmbedded : Bool := false
  manufacturer : Nat := 0
  model : Nat := 0
  attributes : Nat := 0
  intent : Nat := 0
  illuminant : List Nat := []
  creator : Nat := 0
  profileID : List UInt8 := []
deriving Repr, DecidableEq, Inhabited

def acsp : Nat := 0x61637370
def sigDesc : Nat := 0x64657363
def sigMluc : Nat := 0x6D6C7563

/-- `readHeader` -/
def readHeader : Parser Header := do
  let size ← u32be
  let cmm ← u32be
  let major ← byte
  let minor ← byte
  let _ ← byte
  let _ ← byte
  let cls ← u32be
  let cs ← u32be
  let pcs ← u32be
  let y ← u16be; let mo ← u16be; let d ← u16be; let h ← u16be; let mi ← u16be; let s ← u16be
  let sig ← u32be
  if sig != acsp then fail (.bad "invalid profile file signature") else
  let platform ← u32be
  let flags ← u32be
  let manufacturer ← u32be
  let model ← u32be
  let attrs ← u64be
  let intent ← u32be
  let i0 ← u32be; let i1 ← u32be; let i2 ← u32be
  let creator ← u32be
  let pid ← mapErr (full 16) fun e =>
    match e with
    | .io .unexpectedEof => .bad "unexpected EOF when reading profile ID"
    | e => e
  let _ ← u32be; let _ ← u32be; let _ ← u32be; let _ ← u32be; let _ ← u32be; let _ ← u32be; let _ ← u32be
  pure { size, cmm, major := major.toNat, minorRev := minor.toNat, deviceClass := cls, colorSpace := cs, pcs,
         date := [y, mo, d, h, mi, s], platform,
         embedded := flags % 2 == 1, dependsOnEmbedded := (flags / 2) % 2 == 1,
         manufacturer, model, attributes := attrs, intent, illuminant := [i0, i1, i2], creator, profileID := pid }

/-- `Version.String`: `major.minor.bugfix`, the second byte holding two BCD nibbles -/
def versionString (major minorRev : Nat) : String :=
  s!"{major}.{minorRev / 16}.{minorRev % 16}"

/-- `Header.CreatedAt` as an instant: the Unix time of
`time.Date(year, month, day, hour, minute, second, 0, time.UTC)` for the six 16-bit numbers as
stored — out-of-range components carry over into the next larger unit, as `time.Date` documents. -/
def createdAtUnix : List Nat → Int
  | [y, mo, d, h, mi, s] =>
    -- month 0 is December of the year before: shift the month count by 12 to stay in `Nat`
    let mm := mo + 11                       -- (mo − 1) + 12
    let yN := y + mm / 12                   -- year + 1
    let mN := mm % 12 + 1
    let days := daysToMonthShift yN mN
    (days + (d : Int) - 1) * 86400 + h * 3600 + mi * 60 + s
  | _ => 0
where
  /-- days from 1970-01-01 to the first day of month `m ∈ 1..12` of proleptic Gregorian year
  `yN − 1` (civil-from-days arithmetic, years shifted by 400 so that it stays in `Nat`) -/
  daysToMonthShift (yN m : Nat) : Int :=
    let y' := if m ≤ 2 then yN + 398 else yN + 399
    let era := y' / 400
    let yoe := y' % 400
    let mp := if m > 2 then m - 3 else m + 9
    let doy := (153 * mp + 2) / 5
    let doe := yoe * 365 + yoe / 4 - yoe / 100 + doy
    ((era * 146097 + doe : Nat) : Int) - 719468 - 146097

def u32 : Nat := 4294967296

/-- the tag index loop: returns entries in table order and `endOfTagData` -/
def readIndex : Nat → List (Nat × Nat × Nat) → Nat → Parser (List (Nat × Nat × Nat) × Nat)
  | 0, acc, e => pure (acc.reverse, e)
  | n+1, acc, e => do
    let sig ← u32be
    let off ← u32be
    let sz ← u32be
    let ed := (off + sz) % u32
    readIndex n ((sig, off, sz) :: acc) (if ed > e then ed else e)

/-- the tag index is a Go map keyed by signature: a later entry replaces an earlier one -/
def dedupLast (es : List (Nat × Nat × Nat)) : List (Nat × Nat × Nat) :=
  es.foldl (fun acc e => (acc.filter fun x => x.1 != e.1) ++ [e]) []

/-- `readTagTable`: the tag table as `(signature, data)` pairs, or a recovered slice panic -/
def readTagTable : Parser (List (Nat × List UInt8)) := do
  let count ← u32be
  let (idx, endOfTagData) ← readIndex count [] 0
  let tdo := (132 + count * 12) % u32
  let tdl := if endOfTagData > tdo then endOfTagData - tdo else 0
  let data ← mapErr (bytesN tdl) fun _ => .bad "expected bytes of tag data"
  let entries := dedupLast idx
  let slices := entries.map fun (sig, off, sz) =>
    let s := (off + u32 - tdo) % u32
    let e := (s + sz) % u32
    if s ≤ e && e ≤ data.length then some (sig, (data.drop s).take (e - s)) else none
  if slices.all Option.isSome then pure (slices.filterMap id)
  else fail (.panic "slice bounds out of range")

structure Profile where
  header : Header
  tags : List (Nat × List UInt8)
deriving Repr, DecidableEq, Inhabited

/-- `ReadProfile` -/
def readProfile : Parser Profile := do
  let h ← readHeader
  let t ← readTagTable
  pure { header := h, tags := t }

/-! ### Description (pure functions of the tag bytes) -/

def be32 (b : List UInt8) : Option (Nat × List UInt8) :=
  match b with
  | a :: b :: c :: d :: rest => some (((a.toNat * 256 + b.toNat) * 256 + c.toNat) * 256 + d.toNat, rest)
  | _ => none

/-- `parseTextDescription` (v2 'desc'): raw ASCII bytes -/
def textDescription (data : List UInt8) : Except String (List UInt8) :=
  match be32 data with
  | none => .error "EOF"
  | some (sig, r1) =>
    if sig != sigDesc then .error "expected desc" else
    match be32 r1 with
    | none => .error "EOF"
    | some (_, r2) =>
      match be32 r2 with
      | none => .error "EOF"
      | some (count, r3) =>
        if count == 0 || count > r3.length then .error "description length exceeds tag data length"
        else .ok (r3.take (count - 1))

structure Rec where
  lang : List UInt8
  country : List UInt8
  text : List UInt8      -- UTF-16BE bytes at the declared offset
deriving Repr, DecidableEq

/-- the record loop of `parseMultiLocalisedUnicode`; `rest` is the sequential reader position -/
def mlucRecords (data : List UInt8) (recordSize : Nat) : Nat → List UInt8 → List Rec → Except String (List Rec)
  | 0, _, acc => .ok acc.reverse
  | n+1, rest, acc =>
    -- reader.Read(language[:]) on a bytes.Reader: EOF when empty, short when one byte is left
    if rest.length < 2 then .error "eof reading language" else
    let lang := rest.take 2
    let r1 := rest.drop 2
    if r1.length < 2 then .error "eof reading country" else
    let country := r1.take 2
    let r2 := r1.drop 2
    match be32 r2 with
    | none => .error "EOF"
    | some (len, r3) =>
      match be32 r3 with
      | none => .error "EOF"
      | some (off, r4) =>
        if off + len > data.length then .error "record exceeds tag data length" else
        let skipN := recordSize - 12
        if r4.length < skipN then .error "EOF" else
        mlucRecords data recordSize n (r4.drop skipN) (⟨lang, country, (data.drop off).take len⟩ :: acc)

def mluc (data : List UInt8) : Except String (List Rec) :=
  match be32 data with
  | none => .error "EOF"
  | some (sig, r1) =>
    if sig != sigMluc then .error "expected mluc" else
    match be32 r1 with
    | none => .error "EOF"
    | some (_, r2) =>
      match be32 r2 with
      | none => .error "EOF"
      | some (count, r3) =>
        match be32 r3 with
        | none => .error "EOF"
        | some (recordSize, r4) => mlucRecords data recordSize count r4 []

/-- UTF-16BE bytes → code units (a trailing odd byte is ignored) -/
def units : List UInt8 → List Nat
  | a :: b :: rest => (a.toNat * 256 + b.toNat) :: units rest
  | _ => []

/-- `unicode/utf16.Decode`: surrogate pairs combined, lone surrogates become U+FFFD -/
def utf16Decode : List Nat → List Nat
  | [] => []
  | [u] => if 0xd800 ≤ u && u < 0xe000 then [0xfffd] else [u]
  | u :: v :: rest =>
    if u < 0xd800 || u ≥ 0xe000 then u :: utf16Decode (v :: rest)
    else if u < 0xdc00 && 0xdc00 ≤ v && v < 0xe000 then
      ((u - 0xd800) * 1024 + (v - 0xdc00) + 0x10000) :: utf16Decode rest
    else 0xfffd :: utf16Decode (v :: rest)

/-- `string([]rune)`: UTF-8 encoding -/
def utf8 (c : Nat) : List UInt8 :=
  if c < 0x80 then [UInt8.ofNat c]
  else if c < 0x800 then [UInt8.ofNat (0xc0 + c / 64), UInt8.ofNat (0x80 + c % 64)]
  else if c < 0x10000 then [UInt8.ofNat (0xe0 + c / 4096), UInt8.ofNat (0x80 + (c / 64) % 64), UInt8.ofNat (0x80 + c % 64)]
  else [UInt8.ofNat (0xf0 + c / 262144), UInt8.ofNat (0x80 + (c / 4096) % 64), UInt8.ofNat (0x80 + (c / 64) % 64), UInt8.ofNat (0x80 + c % 64)]

def decodeUTF16BE (b : List UInt8) : List UInt8 := (utf16Decode (units b)).flatMap utf8

/-- the Go map keyed by (language, country): a later record replaces an earlier one -/
def dedupRecs (rs : List Rec) : List Rec :=
  rs.foldl (fun acc r => (acc.filter fun x => !(x.lang == r.lang && x.country == r.country)) ++ [r]) []

def enLang : List UInt8 := [0x65, 0x6e]

/-- The set of strings `getProfileDescription` may return for an `mluc` tag (Go map iteration
picks an arbitrary English record, and an arbitrary record if that one is empty or absent). -/
def mlucCandidates (rs : List Rec) : List (List UInt8) :=
  let rs := dedupRecs rs
  let en := (rs.filter fun r => r.lang == enLang).map fun r => decodeUTF16BE r.text
  let all := rs.map fun r => decodeUTF16BE r.text
  let enNonEmpty := en.filter fun s => !s.isEmpty
  let fallback := if en.isEmpty || en.any List.isEmpty then (if all.isEmpty then [[]] else all) else []
  (enNonEmpty ++ fallback).eraseDups

/-- `Profile.Description`: the admissible results (UTF-8 bytes), or an error -/
def description (tags : List (Nat × List UInt8)) : Except String (List (List UInt8)) :=
  let data := ((tags.find? fun t => t.1 == sigDesc).map Prod.snd).getD []
  match be32 data with
  | none => .error "EOF"
  | some (sig, _) =>
    if sig == sigDesc then (textDescription data).map fun s => [s]
    else if sig == sigMluc then (mluc data).map mlucCandidates
    else .error "unknown profile description type"

end Prism.Icc
