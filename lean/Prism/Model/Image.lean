import Prism.Model.Color

/-!
# Model of the image loops (`linear.TransformImageColor`, `prism.ConvertImageTo*`)

A destination is a byte store (`Pix` of the *parent* image), the byte offset at which the
destination (sub-)image starts in it, a stride and a pixel format.  A source is the table of
its pixels' `RGBA()` values, row-major.  The loops write destination pixel
`dst.Min + (p − src.Min)` for every source pixel `p`; in the model origins have cancelled:
pixel `(dx, dy)` relative to both origins.  (That the Go code's origin arithmetic really
cancels is what the correspondence check observes, with non-zero origins on the Go side.)

Standard-library colour arithmetic modelled here (image/color): `NRGBAModel`/`NRGBA64Model`
conversion of an RGBA64 colour (un-premultiply), `NRGBA.RGBA()`, `YCbCrToRGB`, `YCbCr.RGBA()`.
-/

namespace Prism.Img

inductive Kind where
  | rgba64 | rgba | nrgba | nrgba64
deriving DecidableEq, Repr, Inhabited

def Kind.bpp : Kind → Nat
  | .rgba64 => 8 | .rgba => 4 | .nrgba => 4 | .nrgba64 => 8

def Kind.ofName? : String → Option Kind
  | "rgba64" => some .rgba64 | "rgba" => some .rgba | "nrgba" => some .nrgba | "nrgba64" => some .nrgba64
  | _ => none

/-- `color.NRGBAModel.Convert` of a 16-bit premultiplied colour, as 8-bit channels -/
def toNRGBA8 (c : Px) : Px :=
  if c.a == 0xffff then ⟨c.r / 256, c.g / 256, c.b / 256, 0xff⟩
  else if c.a == 0 then ⟨0, 0, 0, 0⟩
  else ⟨((c.r * 0xffff) / c.a / 256) % 256, ((c.g * 0xffff) / c.a / 256) % 256, ((c.b * 0xffff) / c.a / 256) % 256, c.a / 256⟩

/-- `(*image.NRGBA).SetRGBA64` — what `draw.Draw(…, draw.Src)` stores into an `*image.NRGBA` destination (its generic path
goes through `RGBA64Image`): the colour is un-premultiplied unless alpha is 0 or 0xffff, and *kept* (not zeroed) when alpha is 0.
On every valid premultiplied colour (`r, g, b ≤ a`) this is `toNRGBA8`; on stored pixels with alpha 0 and a non-zero
colour the two standard-library paths differ. -/
def toNRGBA8Draw (c : Px) : Px :=
  if c.a == 0xffff || c.a == 0 then ⟨c.r / 256 % 256, c.g / 256 % 256, c.b / 256 % 256, c.a / 256⟩
  else ⟨((c.r * 0xffff) / c.a / 256) % 256, ((c.g * 0xffff) / c.a / 256) % 256, ((c.b * 0xffff) / c.a / 256) % 256, c.a / 256⟩

/-- `color.NRGBA64Model.Convert` of a 16-bit premultiplied colour -/
def toNRGBA16 (c : Px) : Px :=
  if c.a == 0xffff then c
  else if c.a == 0 then ⟨0, 0, 0, 0⟩
  else ⟨((c.r * 0xffff) / c.a) % 65536, ((c.g * 0xffff) / c.a) % 65536, ((c.b * 0xffff) / c.a) % 65536, c.a⟩

def hi (v : Nat) : UInt8 := UInt8.ofNat (v / 256 % 256)
def lo (v : Nat) : UInt8 := UInt8.ofNat (v % 256)

/-- the bytes a destination of kind `k` stores for the `color.RGBA64` value `c` (what the fast
paths write, and what `Set` writes after converting through the image's colour model) -/
def pixelBytes (k : Kind) (c : Px) : List UInt8 :=
  match k with
  | .rgba64 => [hi c.r, lo c.r, hi c.g, lo c.g, hi c.b, lo c.b, hi c.a, lo c.a]
  | .rgba => [hi c.r, hi c.g, hi c.b, hi c.a]
  | .nrgba => let n := toNRGBA8 c; [lo n.r, lo n.g, lo n.b, lo n.a]
  | .nrgba64 => let n := toNRGBA16 c; [hi n.r, lo n.r, hi n.g, lo n.g, hi n.b, lo n.b, hi n.a, lo n.a]

structure Dst where
  kind : Kind
  pix : Array UInt8       -- the parent's Pix
  start : Nat             -- byte offset of the destination's origin within `pix`
  stride : Nat
deriving Repr, Inhabited

/-- `PixOffset` relative to the destination origin, plus the sub-image start -/
def Dst.offset (d : Dst) (dx dy : Nat) : Nat := d.start + dy * d.stride + dx * d.kind.bpp

def writeBytes (pix : Array UInt8) (off : Nat) : List UInt8 → Array UInt8
  | [] => pix
  | b :: bs => writeBytes (pix.setIfInBounds off b) (off + 1) bs

/-- one per-pixel step: destination pixel `(dx, dy)` := `f (source pixel)` -/
def step (k : Kind) (stride start : Nat) (f : Px → Px) (pix : Array UInt8) (p : Nat × Nat × Px) : Array UInt8 :=
  writeBytes pix (start + p.2.1 * stride + p.1 * k.bpp) (pixelBytes k (f p.2.2))

/-- the source as the list of its pixels `(dx, dy, RGBA())` -/
def pixelsOf (w : Nat) (src : Array Px) : List (Nat × Nat × Px) :=
  (List.range src.size).map fun i => (i % w, i / w, src.getD i default)

/-- `TransformImageColor`: every pixel step, in the order given (any order gives the same
result: `Prism/Proofs/C10.lean`) -/
def transform (d : Dst) (f : Px → Px) (steps : List (Nat × Nat × Px)) : Array UInt8 :=
  steps.foldl (step d.kind d.stride d.start f) d.pix

/-- the rows worker `w` of `n` handles: `w, w + n, w + 2n, …` below `h` -/
def workerRows (n h w : Nat) : List Nat := (List.range h).filter fun y => y % n == w

/-! ### standard-library colour arithmetic used by `prism.ConvertImageTo*` -/

/-- `color.NRGBA.RGBA()`: `r = R·0x101·A / 0xff`, `a = A·0x101` -/
def nrgbaRGBA (r g b a : Nat) : Px :=
  ⟨r * 257 * a / 255, g * 257 * a / 255, b * 257 * a / 255, a * 257⟩

/-- `color.YCbCrToRGB` (image/color/ycbcr.go): fixed-point BT.601; `>> 16` with clamping to 0..255 -/
def ycbcrToRGB (y cb cr : Nat) : Nat × Nat × Nat :=
  let yy1 : Int := (y : Int) * 0x10101
  let cb1 : Int := (cb : Int) - 128
  let cr1 : Int := (cr : Int) - 128
  let sh := fun (v : Int) => v / 65536     -- `>> 16` on int32: floor division
  let c8 := fun (v : Int) => if v < 0 then 0 else if v > 255 then 255 else v.toNat
  (c8 (sh (yy1 + 91881 * cr1)), c8 (sh (yy1 - 22554 * cb1 - 46802 * cr1)), c8 (sh (yy1 + 116130 * cb1)))

/-- `color.YCbCr.RGBA()`: the same arithmetic at 16 bits -/
def ycbcrRGBA (y cb cr : Nat) : Px :=
  let yy1 : Int := (y : Int) * 0x10101
  let cb1 : Int := (cb : Int) - 128
  let cr1 : Int := (cr : Int) - 128
  let sh := fun (v : Int) => v / 256       -- `>> 8`: floor division
  let c16 := fun (v : Int) => if v < 0 then 0 else if v > 0xffff then 0xffff else v.toNat
  ⟨c16 (sh (yy1 + 91881 * cr1)), c16 (sh (yy1 - 22554 * cb1 - 46802 * cr1)), c16 (sh (yy1 + 116130 * cb1)), 0xffff⟩

end Prism.Img
