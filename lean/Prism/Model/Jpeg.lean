import Prism.Model.Prog

/-!
# Model of `meta/jpegmeta` (jpegmeta.go, marker.go, segment.go, segmentreader.go)
-/

namespace Prism.Jpeg
open Parser

def iccId : List UInt8 := [0x49,0x43,0x43,0x5F,0x50,0x52,0x4F,0x46,0x49,0x4C,0x45,0x00]  -- "ICC_PROFILE\0"

/-- marker types without a length field: RST0-7, SOI, EOI -/
def standalone (t : Nat) : Bool := (0xd0 ≤ t && t ≤ 0xd7) || t == 0xd8 || t == 0xd9
/-- marker types with a 16-bit length: SOF0, SOF2, DHT, SOS, DQT, DRI, APP0-15, COM -/
def withLength (t : Nat) : Bool :=
  t == 0xc0 || t == 0xc2 || t == 0xc4 || t == 0xda || t == 0xdb || t == 0xdd ||
  (0xe0 ≤ t && t ≤ 0xef) || t == 0xfe

/-- `makeMarker`: marker type and data length (`int(length) - 2`, which may be negative) -/
def makeMarker (t : Nat) : Parser (Nat × Int) :=
  if standalone t then pure (t, 0)
  else if withLength t then do
    let l ← u16be
    pure (t, (l : Int) - 2)
  else fail (.bad "unrecognised marker type")

/-- `readSegment` (outside entropy-coded data — the extractor stops at SOS, so the
entropy-coded scanning branch of `segmentReader.ReadSegment` is never entered) -/
def readSegment : Parser (Nat × List UInt8) := do
  let b ← byte
  if b != 0xff then fail (.bad "invalid marker identifier") else
  let t ← byte
  let (ty, dl) ← makeMarker t.toNat
  if dl > 0 then do
    let d ← full dl.toNat
    pure (ty, d)
  else pure (ty, [])

structure St where
  md : Meta := { format := "JPEG" }
  extracted : Bool := false
  /-- `iccProfileChunks`: `none` = nil slice; slot `none` = nil entry -/
  chunks : Option (List (Option (List UInt8))) := none
  count : Nat := 0
deriving Repr

def St.allExtracted (s : St) : Bool :=
  s.extracted && (match s.chunks with | none => false | some cs => s.count == cs.length)

def setSlot : List (Option (List UInt8)) → Nat → List UInt8 → List (Option (List UInt8))
  | [], _, _ => []
  | _ :: xs, 0, v => some v :: xs
  | x :: xs, n+1, v => x :: setSlot xs n v

/-- result of the segment loop: the state, or a recovered panic carrying the state so far -/
inductive LoopOut where
  | done (s : St)
  | panicked (s : St) (msg : String)

/-- the effect of one `ICC_PROFILE` APP2 segment on the reassembly state (`segment.Data = d`,
at least 14 bytes, identifier matched, no ICC data or error recorded yet) -/
def iccChunk (st : St) (d : List UInt8) : St :=
  let total := (d.getD 13 0).toNat
  let num := (d.getD 12 0).toNat
  -- `if iccProfileChunks == nil { iccProfileChunks = make([][]byte, chunkTotal) }`
  let cs := st.chunks.getD (List.replicate total none)
  let st := { st with chunks := some cs }
  if total != cs.length then { st with md := { st.md with icc := .err "inconsistent ICC profile chunk count" } }
  else if num == 0 || num > cs.length then { st with md := { st.md with icc := .err "invalid ICC profile chunk number" } }
  else if (cs.getD (num - 1) none).isSome then { st with md := { st.md with icc := .err "duplicated ICC profile chunk" } }
  else { st with chunks := some (setSlot cs (num - 1) (d.drop 14)), count := st.count + 1 }

def loop : Nat → St → Parser LoopOut
  | 0, _ => fail (.bad "model: out of fuel")
  | fuel+1, st => do
    let r ← attempt readSegment
    match r with
    | .error (.io .eof) => fail (.bad "unexpected EOF")
    | .error e => fail e
    | .ok (ty, d) =>
      if ty == 0xc0 || ty == 0xc2 then
        match d with
        | d0 :: d1 :: d2 :: d3 :: d4 :: _ =>
          let st := { st with md := { st.md with depth := d0.toNat, height := d1.toNat * 256 + d2.toNat,
                                                  width := d3.toNat * 256 + d4.toNat }, extracted := true }
          if st.allExtracted then pure (.done st) else loop fuel st
        | _ => pure (.panicked st "index out of range")      -- segment.Data[k] on a short SOF
      else if ty == 0xda || ty == 0xd9 then pure (.done st)
      else if ty == 0xe2 then
        if d.length < iccId.length + 2 then loop fuel st
        else if d.take 12 != iccId then loop fuel st
        else if st.md.iccSet then loop fuel st
        else
          let st := iccChunk st d
          -- only a chunk that was stored can complete the set
          if !st.md.iccSet && st.allExtracted then pure (.done st) else loop fuel st
      else loop fuel st

/-- what follows the loop in `extractMetadata` -/
def finish (st : St) : Except PErr Meta :=
  if !st.extracted then .error (.bad "no metadata found") else
  match st.md.icc with
  | .err _ => .ok st.md
  | _ =>
    let cs := st.chunks.getD []
    if cs.length != st.count then .ok { st.md with icc := .err "incomplete ICC profile data" }
    else .ok (st.md.setIccData (cs.flatMap fun c => c.getD []) true)

/-- `extractMetadata`. A recovered panic yields an error (and `md = nil` unless the basic
metadata had been extracted — either way the loader reports failure). -/
def extract (fuel : Nat) : Parser Meta := do
  let (ty, _) ← readSegment
  if ty != 0xd8 then fail (.bad "stream does not begin with start-of-image") else
  let out ← loop fuel {}
  match out with
  | .panicked _ msg => fail (.panic msg)
  | .done st =>
    match finish st with
    | .ok md => pure md
    | .error e => fail e

end Prism.Jpeg
