import Prism.Float.SF

/-!
# Model of `matrix` (matrix3.go, vector3.go): 3×3 float64 algebra

`Matrix3` is `[3]Vector3` of *columns* as the Go code uses it (`m[i][j]`: column `i`, row `j`
in `MulV`).  Values are binary64 bit patterns.  Evaluation order follows the source.
-/

namespace Prism.Mat
open F64

abbrev V3 := Nat × Nat × Nat
abbrev M3 := V3 × V3 × V3

@[inline] def v0 (v : V3) := v.1
@[inline] def v1 (v : V3) := v.2.1
@[inline] def v2 (v : V3) := v.2.2
/-- `m[i][j]` -/
@[inline] def at_ (m : M3) (i j : Nat) : Nat :=
  let c := match i with | 0 => m.1 | 1 => m.2.1 | _ => m.2.2
  match j with | 0 => c.1 | 1 => c.2.1 | _ => c.2.2

/-- `Vector3.MulS` -/
def mulS (v : V3) (s : Nat) : V3 := (mul (v0 v) s, mul (v1 v) s, mul (v2 v) s)

/-- `Dot`: `v1[0]*v2[0] + v1[1]*v2[1] + v1[2]*v2[2]` -/
def dot (a b : V3) : Nat := add (add (mul (v0 a) (v0 b)) (mul (v1 a) (v1 b))) (mul (v2 a) (v2 b))

/-- `Matrix3.Transpose` -/
def transpose (m : M3) : M3 :=
  ((at_ m 0 0, at_ m 1 0, at_ m 2 0), (at_ m 0 1, at_ m 1 1, at_ m 2 1), (at_ m 0 2, at_ m 1 2, at_ m 2 2))

/-- `Matrix3.MulV` -/
def mulV (m : M3) (v : V3) : V3 :=
  (add (add (mul (at_ m 0 0) (v0 v)) (mul (at_ m 1 0) (v1 v))) (mul (at_ m 2 0) (v2 v)),
   add (add (mul (at_ m 0 1) (v0 v)) (mul (at_ m 1 1) (v1 v))) (mul (at_ m 2 1) (v2 v)),
   add (add (mul (at_ m 0 2) (v0 v)) (mul (at_ m 1 2) (v1 v))) (mul (at_ m 2 2) (v2 v)))

/-- `Matrix3.MulM` -/
def mulM (m o : M3) : M3 :=
  let t := transpose m
  ((dot t.1 o.1, dot t.2.1 o.1, dot t.2.2 o.1),
   (dot t.1 o.2.1, dot t.2.1 o.2.1, dot t.2.2 o.2.1),
   (dot t.1 o.2.2, dot t.2.1 o.2.2, dot t.2.2 o.2.2))

/-- `Matrix3.Inverse`: adjugate divided by the determinant; `none` = the documented panic -/
def inverse (m : M3) : Option M3 :=
  let a := at_ m
  let o00 := sub (mul (a 1 1) (a 2 2)) (mul (a 2 1) (a 1 2))
  let o01 := neg (sub (mul (a 0 1) (a 2 2)) (mul (a 2 1) (a 0 2)))
  let o02 := sub (mul (a 0 1) (a 1 2)) (mul (a 1 1) (a 0 2))
  let o10 := neg (sub (mul (a 1 0) (a 2 2)) (mul (a 2 0) (a 1 2)))
  let o11 := sub (mul (a 0 0) (a 2 2)) (mul (a 2 0) (a 0 2))
  let o12 := neg (sub (mul (a 0 0) (a 1 2)) (mul (a 1 0) (a 0 2)))
  let o20 := sub (mul (a 1 0) (a 2 1)) (mul (a 2 0) (a 1 1))
  let o21 := neg (sub (mul (a 0 0) (a 2 1)) (mul (a 2 0) (a 0 1)))
  let o22 := sub (mul (a 0 0) (a 1 1)) (mul (a 1 0) (a 0 1))
  let det := add (add (mul (a 0 0) o00) (mul (a 1 0) o01)) (mul (a 2 0) o02)
  if eq det zero then none else
  some ((div o00 det, div o01 det, div o02 det),
        (div o10 det, div o11 det, div o12 det),
        (div o20 det, div o21 det, div o22 det))

end Prism.Mat
