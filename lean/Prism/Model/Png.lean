import Prism.Model.Prog

/-!
# Model of `meta/pngmeta` (pngmeta.go, chunkheader.go)

`extract fuel` mirrors `extractMetadata`.  `Parser.inflate` stands for
`zlib.NewReader` + `io.Copy` (Go's compress/zlib, an external call of the program).  The chunk loop takes `fuel`;
every iteration consumes at least 8 input bytes or stops, so `fuel > input length / 8`
never runs out (`Prism/Proofs/C09.lean`).
-/

namespace Prism.Png
open Parser

def signature : List UInt8 := [0x89, 0x50, 0x4E, 0x47, 0x0D, 0x0A, 0x1A, 0x0A]
def tIHDR : List UInt8 := [0x49, 0x48, 0x44, 0x52]
def tIDAT : List UInt8 := [0x49, 0x44, 0x41, 0x54]
def tIEND : List UInt8 := [0x49, 0x45, 0x4E, 0x44]
def tiCCP : List UInt8 := [0x69, 0x43, 0x43, 0x50]

/-- `readChunkHeader`: big-endian length, then the 4-byte type read with `io.ReadFull` -/
def chunkHeader : Parser (Nat × List UInt8) := do
  let len ← u32be
  let ty ← mapErr (full 4) fun e =>
    match e with
    | .io .unexpectedEof => .bad "unexpected EOF reading chunk type"
    | e => e
  return (len, ty)

/-- profile name: up to 80 bytes, stopping after the first NUL; returns the name length -/
def profileName : Nat → Nat → Parser Nat
  | 0, acc => pure acc
  | n+1, acc => do
    let b ← byte
    if b == 0 then pure acc else profileName n (acc + 1)

structure St where
  md : Meta := { format := "PNG" }
  extracted : Bool := false
deriving Repr

def St.allExtracted (s : St) : Bool := s.extracted && s.md.iccSet

/-- the `parseChunks` loop -/
def loop : Nat → St → Parser St
  | 0, _ => fail (.bad "model: out of fuel")
  | fuel+1, st => do
    let r ← attempt chunkHeader
    match r with
    | .error (.io .eof) => pure st            -- errors.Is(err, io.EOF): end of chunks
    | .error e => fail e
    | .ok (len, ty) =>
      if ty == tIHDR then do
        let w ← u32be
        let h ← u32be
        let d ← byte
        skip ((len + 4294967296 - 9) % 4294967296)      -- uint32(ch.Length - 9)
        let _ ← u32be
        let st := { st with md := { st.md with width := w, height := h, depth := d.toNat }, extracted := true }
        if st.allExtracted then pure st else loop fuel st
      else if ty == tiCCP then do
        let nameLen ← profileName 80 0
        if nameLen > 79 then fail (.bad "null terminator not found reading ICC profile name") else
        let method ← byte
        if method != 0 then fail (.bad "unknown compression method") else
        let offset := nameLen + 2
        if offset ≥ len then fail (.bad "invalid ICC profile chunk length") else
        let z ← mapErr (bytesN (len - offset)) fun e =>
          match e with
          | .io .unexpectedEof => .bad "unexpected EOF reading ICC profile chunk"
          | e => e
        let _ ← u32be
        match (← inflate z) with
        | .ok p =>
          let st := { st with md := st.md.setIccData p true }
          if st.allExtracted then pure st else loop fuel st
        | .error msg =>
          loop fuel { st with md := { st.md with icc := .err msg } }
      else if ty == tIDAT || ty == tIEND then pure st
      else do
        skip len
        let _ ← u32be
        loop fuel st

/-- `extractMetadata` -/
def extract (fuel : Nat) : Parser Meta := do
  let sig ← mapErr (full 8) fun e =>
    match e with
    | .io .unexpectedEof => .bad "unexpected EOF reading PNG header"
    | e => e
  if sig != signature then fail (.bad "invalid PNG signature") else
  let st ← loop fuel {}
  if !st.extracted then fail (.bad "no metadata found") else pure st.md

end Prism.Png
