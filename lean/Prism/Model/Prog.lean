/-!
# Reader programs

The four metadata extractors and the ICC profile reader consume their input through a
`binary.Reader` (`io.Reader` + `io.ByteReader`) using exactly two operations:

* `ReadByte()`                       — `Prog.readByte`
* read exactly `n` bytes             — `Prog.readFull n eager`
  (`io.ReadFull` into a buffer allocated up front when `eager`, `binary.ReadBytes`
  — incremental, allocation grows with what arrives — otherwise)

A parser is a *program* over these operations (a free monad), so that it can be interpreted
(i) over a plain byte list — its functional meaning, `Prog.runPure` — and (ii) over the
reader stack the loaders build (`Tee → bufio.Reader` over an arbitrary source delivering
arbitrary short reads, `Prism/Model/Reader.lean`).  Theorems about *every* parser are then
inductions over `Prog`.

The interpreter also accounts for `steps` (operations performed) and `alloc` (bytes requested
from the allocator by the modelled code), which is what C09 is about.
-/

namespace Prism

/-- the error classes an `io.Reader` chain can surface -/
inductive IOErr where
  | eof              -- io.EOF
  | unexpectedEof    -- io.ErrUnexpectedEOF (io.ReadFull / binary.ReadBytes got some but not all)
  | fault            -- any other I/O error delivered by the source
deriving DecidableEq, Repr, Inhabited

inductive Prog (α : Type) : Type where
  | ret (a : α) : Prog α
  | readByte (k : Except IOErr UInt8 → Prog α) : Prog α
  | readFull (n : Nat) (eager : Bool) (k : Except IOErr (List UInt8) → Prog α) : Prog α
  /-- external call: `zlib.NewReader` + `io.Copy` on an in-memory payload (compress/zlib is not
  modelled; the interpreter supplies its answer) -/
  | inflate (z : List UInt8) (k : Except String (List UInt8) → Prog α) : Prog α

namespace Prog

def bind {α β : Type} : Prog α → (α → Prog β) → Prog β
  | ret a, f => f a
  | readByte k, f => readByte fun x => (k x).bind f
  | readFull n e k, f => readFull n e fun x => (k x).bind f
  | inflate z k, f => inflate z fun x => (k x).bind f

instance : Monad Prog where
  pure := ret
  bind := bind

/-- resource accounting of one run -/
structure Cost where
  consumed : Nat := 0     -- input bytes consumed by the parser
  steps : Nat := 0        -- reader operations performed
  alloc : Nat := 0        -- bytes requested from the allocator by the modelled code
  efail : Nat := 0        -- of these, bytes requested up front by eager reads that then failed (the input was shorter)
  zout : Nat := 0         -- bytes produced by the external inflate
deriving Repr, DecidableEq, Inhabited

/-- result of `ReadFull`/`ReadBytes` of `n` bytes on remaining input `inp` whose end surfaces
`endErr` (`eof` for a source that simply ends, `fault` for one that fails there) -/
def readFullResult (inp : List UInt8) (endErr : IOErr) (n : Nat) : Except IOErr (List UInt8) × List UInt8 :=
  if n ≤ inp.length then (.ok (inp.take n), inp.drop n)
  else if endErr = .eof then
    (if inp.isEmpty then .error .eof else .error .unexpectedEof, [])
  else (.error endErr, [])

/-- allocation charged for a read of `n` bytes of which `got` arrive: an eager read allocates
its buffer up front; an incremental one (bytes.Buffer growth, at most doubling, plus one
minimum chunk) is charged `2·got + 1024`. -/
def readAlloc (eager : Bool) (n got : Nat) : Nat :=
  if eager then n else 2 * got + 1024

/-- the external inflate: what compress/zlib answers for a payload -/
abbrev Inflate := List UInt8 → Except String (List UInt8)

/-- Functional meaning of a program on a byte list. `zl` answers the external inflate calls;
an inflated result of `m` bytes is charged `2·m + 1024` (bytes.Buffer growth). -/
def runPure {α : Type} (zl : Inflate) : Prog α → List UInt8 → IOErr → Cost → α × Cost
  | ret a, _, _, c => (a, c)
  | readByte k, inp, e, c =>
    match inp with
    | [] => runPure zl (k (.error e)) [] e { c with steps := c.steps + 1 }
    | b :: rest => runPure zl (k (.ok b)) rest e { c with consumed := c.consumed + 1, steps := c.steps + 1 }
  | readFull n eager k, inp, e, c =>
    let r := readFullResult inp e n
    let got := if n ≤ inp.length then n else inp.length      -- bytes consumed by this read
    runPure zl (k r.1) r.2 e
      { c with consumed := c.consumed + got, steps := c.steps + 1, alloc := c.alloc + readAlloc eager n got,
               efail := c.efail + (if eager && !(decide (n ≤ inp.length)) then n else 0) }
  | inflate z k, inp, e, c =>
    let r := zl z
    let m := match r with | .ok p => p.length | .error _ => 0
    runPure zl (k r) inp e { c with steps := c.steps + 1, alloc := c.alloc + 2 * m + 1024, zout := c.zout + m }

/-- the first payload passed to the external inflate for which `known` has no answer -/
def firstNeed {α : Type} (known : List UInt8 → Option (Except String (List UInt8))) :
    Prog α → List UInt8 → IOErr → Option (List UInt8)
  | ret _, _, _ => none
  | readByte k, inp, e =>
    match inp with
    | [] => firstNeed known (k (.error e)) [] e
    | b :: rest => firstNeed known (k (.ok b)) rest e
  | readFull n _ k, inp, e =>
    let r := readFullResult inp e n
    firstNeed known (k r.1) r.2 e
  | inflate z k, inp, e =>
    match known z with
    | none => some z
    | some r => firstNeed known (k r) inp e

end Prog

/-- parser errors: an I/O error class passed through, or a format error with the code's text -/
inductive PErr where
  | io (e : IOErr)
  | bad (msg : String)
  | panic (msg : String)      -- a recovered Go run-time panic
deriving DecidableEq, Repr, Inhabited

abbrev Parser := ExceptT PErr Prog

deriving instance DecidableEq for Except

namespace Parser

def byte : Parser UInt8 := ExceptT.mk (Prog.readByte fun r =>
  match r with
  | .ok b => Prog.ret (.ok b)
  | .error e => Prog.ret (.error (.io e)))

/-- `io.ReadFull` into a buffer of `n` bytes allocated up front -/
def full (n : Nat) : Parser (List UInt8) := ExceptT.mk (Prog.readFull n true fun r =>
  match r with
  | .ok b => Prog.ret (.ok b)
  | .error e => Prog.ret (.error (.io e)))

/-- `binary.ReadBytes`: exactly `n` bytes, allocation grows with what arrives -/
def bytesN (n : Nat) : Parser (List UInt8) := ExceptT.mk (Prog.readFull n false fun r =>
  match r with
  | .ok b => Prog.ret (.ok b)
  | .error e => Prog.ret (.error (.io e)))

/-- the external zlib inflate of an in-memory payload -/
def inflate (z : List UInt8) : Parser (Except String (List UInt8)) :=
  ExceptT.mk (Prog.inflate z fun r => Prog.ret (.ok r))

def fail {α : Type} (e : PErr) : Parser α := ExceptT.mk (Prog.ret (.error e))

/-- run `p`; map an error through `f` (Go: `if err == io.ErrUnexpectedEOF { return fmt.Errorf(..) }`) -/
def mapErr {α : Type} (p : Parser α) (f : PErr → PErr) : Parser α :=
  ExceptT.mk (Prog.bind p.run fun r =>
    match r with
    | .ok a => Prog.ret (.ok a)
    | .error e => Prog.ret (.error (f e)))

/-- run `p` and hand its outcome to the caller (Go: inspecting `err` after the call) -/
def attempt {α : Type} (p : Parser α) : Parser (Except PErr α) :=
  ExceptT.mk (Prog.bind p.run fun r => Prog.ret (.ok r))

def u16be : Parser Nat := do
  let a ← byte; let b ← byte
  return a.toNat * 256 + b.toNat

def u32be : Parser Nat := do
  let a ← byte; let b ← byte; let c ← byte; let d ← byte
  return ((a.toNat * 256 + b.toNat) * 256 + c.toNat) * 256 + d.toNat

def u32le : Parser Nat := do
  let a ← byte; let b ← byte; let c ← byte; let d ← byte
  return a.toNat + 256 * (b.toNat + 256 * (c.toNat + 256 * d.toNat))

def u24le : Parser Nat := do
  let a ← byte; let b ← byte; let c ← byte
  return a.toNat + 256 * (b.toNat + 256 * c.toNat)

def u64be : Parser Nat := do
  let hi ← u32be; let lo ← u32be
  return hi * 4294967296 + lo

/-- `for i := 0; i < n; i++ { r.ReadByte() }` — structurally recursive, so a declared length of
2³²−1 costs nothing to *build*; running it stops at the first error. -/
def skip : Nat → Parser Unit
  | 0 => pure ()
  | n+1 => do let _ ← byte; skip n

end Parser

/-- extracted ICC state of `meta.Data`: `(iccProfileData, iccProfileErr)` -/
inductive IccState where
  | none                       -- (nil, nil)
  | data (b : List UInt8)      -- (non-nil bytes, nil)
  | err (msg : String)         -- (nil, error)
deriving DecidableEq, Repr, Inhabited

/-- `meta.Data` -/
structure Meta where
  format : String
  width : Nat := 0
  height : Nat := 0
  depth : Nat := 0
  icc : IccState := .none
deriving DecidableEq, Repr, Inhabited

/-- `md.SetICCProfileData(b)`: a nil/empty-from-Buffer slice leaves "no profile" -/
def Meta.setIccData (m : Meta) (b : List UInt8) (nilWhenEmpty : Bool) : Meta :=
  if b.isEmpty && nilWhenEmpty then { m with icc := .none } else { m with icc := .data b }

def Meta.iccSet (m : Meta) : Bool :=
  match m.icc with
  | .none => false
  | _ => true

end Prism
