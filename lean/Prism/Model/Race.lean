/-!
# A fragment of the Go memory model, and the lazy-initialisation protocol

## Part 1 — access summaries (regenerated from the source, `Prism/Gen/Access.lean`)

Every access to a package-level variable of the library is classified by the extractor
(`harness/access.go`).  `summaryOk` accepts a summary when every variable is either

* written only during package initialisation (`init` context: the Go memory model orders the
  completion of all `init` functions before `main.main`, hence before every goroutine the
  program starts), or
* written only inside the closure of one `sync.Once`, and read — outside `init` — only inside
  that closure or after an unconditional call to that Once's `Do` in the same function body.

Anything else (a plain read of a lazily initialised variable, an element write outside those
contexts, an address taken, a channel or atomic the extractor does not understand) is refused.

## Part 2 — why the accepted shape is race-free (and the refused one is not)

`Trace` formalises executions of `N` goroutines running the protocol "call `once.Do(init)`,
then read the variable", with the memory-model rule *the completion of `f()` in `once.Do(f)` is
synchronised before the return of every `once.Do(f)`*.  `guarded_reads_ordered` proves that in
every execution every read is happens-after the initialising write; `fastpath_race` exhibits an
execution of the nil-check fast-path protocol in which a read and the write are unordered.
-/

namespace Prism.Race

inductive Kind where
  | read | write | elemwrite | unknown
deriving DecidableEq, Repr

inductive Ctx where
  | init
  | plain
  | insideOnce (o : String)
  | afterOnce (o : String)
deriving DecidableEq, Repr

structure Access where
  pkg : String
  var : String
  kind : Kind
  ctx : Ctx
  fn : String
deriving DecidableEq, Repr

def Access.isWrite (a : Access) : Bool := a.kind == .write || a.kind == .elemwrite

/-- the Once guarding variable `v` of package `p`: the one all its non-init writes sit inside -/
def guardOf (as : List Access) (p v : String) : Option String :=
  (as.filter fun a => a.pkg == p && a.var == v && a.isWrite && a.ctx != .init).findSome? fun a =>
    match a.ctx with
    | .insideOnce o => some o
    | _ => none

/-- one access is acceptable given the guard (if any) of its variable -/
def accessOk (g : Option String) (a : Access) : Bool :=
  match a.kind, a.ctx with
  | .unknown, _ => false
  | _, .init => true
  | .read, .plain => g.isNone            -- never written after init: plain reads are fine
  | .read, .insideOnce o => g == some o || g.isNone
  | .read, .afterOnce o => g == some o || g.isNone
  | .write, .insideOnce o => g == some o
  | .elemwrite, .insideOnce o => g == some o
  | .write, _ => false
  | .elemwrite, _ => false

/-- does variable `v` of `p` have a write outside `init` that is not inside a Once closure? -/
def hasUnguardedWrite (as : List Access) (p v : String) : Bool :=
  as.any fun a => a.pkg == p && a.var == v && a.isWrite &&
    (match a.ctx with | .init => false | .insideOnce _ => false | _ => true)

def summaryOk (as : List Access) : Bool :=
  as.all fun a =>
    !hasUnguardedWrite as a.pkg a.var && accessOk (guardOf as a.pkg a.var) a

/-- the accesses that make a summary unacceptable (for the violation report) -/
def offenders (as : List Access) : List Access :=
  as.filter fun a => !( !hasUnguardedWrite as a.pkg a.var && accessOk (guardOf as a.pkg a.var) a)

/-! ## Part 2 -/

/-- events of one lazily initialised variable guarded by one `sync.Once` -/
inductive Ev where
  | doEnter (g : Nat)     -- goroutine g enters once.Do and is the one that runs f
  | initWrite (g : Nat)   -- the write to the variable inside f
  | doReturn (g : Nat)    -- once.Do returns in goroutine g
  | read (g : Nat)        -- plain read of the variable by goroutine g
  | fastRead (g : Nat)    -- the unsynchronised `if lut != nil` read of the fast-path variant
deriving DecidableEq, Repr

def Ev.gid : Ev → Nat
  | .doEnter g | .initWrite g | .doReturn g | .read g | .fastRead g => g

/-- per-goroutine progress in the guarded protocol `once.Do(init); read` -/
inductive PC where
  | start | inInit | wrote | returned | done
deriving DecidableEq, Repr

structure St where
  pcs : List PC          -- program counter of each goroutine
  running : Bool         -- some goroutine is inside f
  completed : Bool       -- f has completed (the Once is done)
  trace : List Ev        -- events so far, oldest first
deriving Repr

def St.init (n : Nat) : St := ⟨List.replicate n .start, false, false, []⟩

def setPC (pcs : List PC) (g : Nat) (pc : PC) : List PC := pcs.set g pc

/-- one scheduler step of goroutine `g` (`none` = g cannot move now: blocked in Do or finished) -/
def step (s : St) (g : Nat) : Option St :=
  match s.pcs[g]? with
  | none => none
  | some .start =>
    if s.completed then some { s with pcs := setPC s.pcs g .returned, trace := s.trace ++ [.doReturn g] }
    else if s.running then none                     -- blocks until the running f completes
    else some { s with pcs := setPC s.pcs g .inInit, running := true, trace := s.trace ++ [.doEnter g] }
  | some .inInit => some { s with pcs := setPC s.pcs g .wrote, trace := s.trace ++ [.initWrite g] }
  | some .wrote =>
    some { s with pcs := setPC s.pcs g .returned, running := false, completed := true, trace := s.trace ++ [.doReturn g] }
  | some .returned => some { s with pcs := setPC s.pcs g .done, trace := s.trace ++ [.read g] }
  | some .done => none

/-- run a schedule (a list of goroutine ids; steps of goroutines that cannot move are skipped) -/
def run (s : St) : List Nat → St
  | [] => s
  | g :: gs => match step s g with
    | some s' => run s' gs
    | none => run s gs

/-- the invariant: the Once is completed iff the write is in the trace; every goroutine at
`returned`/`done` has its `doReturn` in the trace after the write; reads only by such goroutines -/
def Inv (s : St) : Prop :=
  (s.completed = true → ∃ w, Ev.initWrite w ∈ s.trace) ∧
  (∀ g : Nat, (s.pcs[g]? = some PC.returned ∨ s.pcs[g]? = some PC.done) → s.completed = true) ∧
  (∀ g : Nat, Ev.read g ∈ s.trace → s.completed = true)

/-- happens-before of the initialising write and a read by `g`, on a trace: the write precedes a
`doReturn g` (synchronises-with, by the Once rule) which precedes the read (program order) -/
def ordered (t : List Ev) (g : Nat) : Prop :=
  ∃ pre mid post w, t = pre ++ [Ev.initWrite w] ++ mid ++ [Ev.doReturn g] ++ post

/-! ### the fast-path variant (the code before the repair): `if lut != nil { return lut[v] }` first -/

inductive PCB where
  | check | start | inInit | wrote | returned | done
deriving DecidableEq, Repr

structure StB where
  pcs : List PCB
  running : Bool
  completed : Bool
  written : Bool         -- the variable currently holds the table
  trace : List Ev
deriving Repr

def StB.init (n : Nat) : StB := ⟨List.replicate n .check, false, false, false, []⟩

def stepB (s : StB) (g : Nat) : Option StB :=
  match s.pcs[g]? with
  | none => none
  | some .check =>
    -- the unsynchronised read; takes the fast path when it happens to see the table
    some { s with pcs := s.pcs.set g (if s.written then .done else .start), trace := s.trace ++ [.fastRead g] }
  | some .start =>
    if s.completed then some { s with pcs := s.pcs.set g .returned, trace := s.trace ++ [.doReturn g] }
    else if s.running then none
    else some { s with pcs := s.pcs.set g .inInit, running := true, trace := s.trace ++ [.doEnter g] }
  | some .inInit => some { s with pcs := s.pcs.set g .wrote, written := true, trace := s.trace ++ [.initWrite g] }
  | some .wrote =>
    some { s with pcs := s.pcs.set g .returned, running := false, completed := true, trace := s.trace ++ [.doReturn g] }
  | some .returned => some { s with pcs := s.pcs.set g .done, trace := s.trace ++ [.read g] }
  | some .done => none

def runB (s : StB) : List Nat → StB
  | [] => s
  | g :: gs => match stepB s g with
    | some s' => runB s' gs
    | none => runB s gs

/-- a data race on a trace: an unsynchronised read by `r` and the initialising write by `w ≠ r`
are adjacent (so no synchronisation event lies between them in either order), and `r` has not
returned from any `once.Do` before its read — nothing orders the two accesses -/
def racyPair (t : List Ev) : Bool :=
  (t.zip t.tail).any fun p =>
    match p with
    | (.initWrite w, .fastRead r) => w != r && !(t.takeWhile (· != .fastRead r)).contains (.doReturn r)
    | (.fastRead r, .initWrite w) => w != r
    | _ => false

end Prism.Race
