import Prism.Model.Prog

/-!
# The reader stack the loaders build

```go
func Load(r io.Reader) (md *meta.Data, imgStream io.Reader, err error) {
	rewindBuffer := &bytes.Buffer{}
	tee := io.TeeReader(r, rewindBuffer)
	md, err = extractMetadata(bufio.NewReader(tee))
	return md, io.MultiReader(rewindBuffer, r), err
}
```

* `Src`   — an arbitrary conforming `io.Reader` over a fixed byte sequence: each `Read(p)` delivers
            between 1 and `len p` bytes as dictated by a *schedule* (any list of sizes), or
            `(0, err)` once exhausted; the terminal error (`eof`, or `fault` for a failing source) is
            sticky, and may optionally be delivered together with the final bytes.
* `Rd`    — readers the loaders are handed: a source, or `io.MultiReader(rewind, inner)`.
* `Stack` — `bufio.Reader` (4096-byte buffer, Go 1.23 semantics) over `io.TeeReader(under, rewind)`.

These are models of the Go standard library written from its source (bufio/bufio.go, io/io.go,
io/multi.go); they are *modelled, not verified*, and validated by their own correspondence
stream (`stack` operations of the driver against the real bufio/Tee/Multi).
-/

namespace Prism

/-- `bufio.Reader`'s default buffer size -/
def bufSize : Nat := 4096

structure Src where
  rest : List UInt8
  sched : List Nat := []
  calls : Nat := 0
  endErr : IOErr := .eof
  eofWithData : Bool := false
  delivered : Nat := 0
  /-- sizes requested by each `Read` call, most recent first (for trace comparison) -/
  reqs : List Nat := []
deriving Repr, Inhabited

namespace Src

/-- how many bytes the source is willing to deliver for a request of `req` (1 ≤ k ≤ req);
the bytes actually delivered are `rest.take k` -/
def chunkSize (s : Src) (req : Nat) : Nat :=
  let want := match s.sched with
    | [] => req
    | l => l.getD (s.calls % l.length) req
  min req (max 1 want)

/-- one `Read(p)` with `len p = req ≥ 1` -/
def read (s : Src) (req : Nat) : List UInt8 × Option IOErr × Src :=
  if s.rest.isEmpty then ([], some s.endErr, { s with calls := s.calls + 1, reqs := req :: s.reqs })
  else
    let k := s.chunkSize req
    let chunk := s.rest.take k
    let rest := s.rest.drop k
    let e := if rest.isEmpty && s.eofWithData then some s.endErr else none
    (chunk, e, { s with rest := rest, calls := s.calls + 1, delivered := s.delivered + chunk.length, reqs := req :: s.reqs })

end Src

inductive Rd where
  | src (s : Src)
  | multi (buf : List UInt8) (inner : Rd)
deriving Repr, Inhabited

namespace Rd

/-- one `Read(p)` with `len p = req ≥ 1` -/
def read : Rd → Nat → List UInt8 × Option IOErr × Rd
  | src s, req => let (c, e, s') := s.read req; (c, e, src s')
  | multi [] inner, req => let (c, e, i') := inner.read req; (c, e, multi [] i')
  | multi buf inner, req => (buf.take req, none, multi (buf.drop req) inner)

/-- everything the reader will still deliver, and the error that follows -/
def contents : Rd → List UInt8 × IOErr
  | src s => (s.rest, s.endErr)
  | multi buf inner => (buf ++ inner.contents.1, inner.contents.2)

/-- bytes pulled from the original source so far -/
def pulled : Rd → Nat
  | src s => s.delivered
  | multi _ inner => inner.pulled

def srcOf : Rd → Src
  | src s => s
  | multi _ inner => inner.srcOf

/-- `io.ReadAll`-style drain with requests of `req` bytes; `fuel` bounds the number of calls -/
def drain : Nat → Rd → Nat → List (List UInt8) → List UInt8 × Option IOErr × Rd
  | 0, r, _, acc => (acc.reverse.flatten, none, r)
  | fuel+1, r, req, acc =>
    let (c, e, r') := r.read req
    match e with
    | some err => ((c :: acc).reverse.flatten, some err, r')
    | none => drain fuel r' req (c :: acc)

end Rd

/-- `bufio.NewReader(io.TeeReader(under, rewind))` -/
structure Stack where
  under : Rd
  /-- the rewind buffer, as the list of chunks written to it, most recent first -/
  teeRev : List (List UInt8) := []
  buf : List UInt8 := []
  pend : Option IOErr := none
  consumed : Nat := 0
  /-- an incremental `binary.ReadBytes` was executed (its individual `Read` sizes follow
  `bytes.Buffer`'s growth policy, which is not modelled: only its bytes and bounds are) -/
  lazyUsed : Bool := false
deriving Repr, Inhabited

namespace Stack

def tee (st : Stack) : List UInt8 := st.teeRev.reverse.flatten

/-- one `Read` of the tee: read `under`, copy what arrived into the rewind buffer -/
def underRead (st : Stack) (req : Nat) : List UInt8 × Option IOErr × Stack :=
  let (c, e, u) := st.under.read req
  (c, e, { st with under := u, teeRev := if c.isEmpty then st.teeRev else c :: st.teeRev })

/-- `(*bufio.Reader).ReadByte` -/
def readByte (st : Stack) : Except IOErr UInt8 × Stack :=
  match st.buf with
  | b :: rest => (.ok b, { st with buf := rest, consumed := st.consumed + 1 })
  | [] =>
    match st.pend with
    | some e => (.error e, { st with pend := none })
    | none =>
      let (c, e, st') := st.underRead bufSize
      match c with
      | b :: rest => (.ok b, { st' with buf := rest, pend := e, consumed := st'.consumed + 1 })
      | [] => (.error (e.getD .fault), st')     -- (0, nil) from a non-conforming reader: io.ErrNoProgress

/-- `(*bufio.Reader).Read(p)` with `len p = n ≥ 1` -/
def read (st : Stack) (n : Nat) : List UInt8 × Option IOErr × Stack :=
  match st.buf with
  | _ :: _ =>
    let c := st.buf.take n
    (c, none, { st with buf := st.buf.drop n, consumed := st.consumed + c.length })
  | [] =>
    match st.pend with
    | some e => ([], some e, { st with pend := none })
    | none =>
      if n ≥ bufSize then
        -- large read, empty buffer: read directly into p
        let (c, e, st') := st.underRead n
        (c, e, { st' with consumed := st'.consumed + c.length })
      else
        let (c, e, st') := st.underRead bufSize
        match c with
        | [] => ([], some (e.getD .fault), st')
        | _ :: _ =>
          let out := c.take n
          (out, none, { st' with buf := c.drop n, pend := e, consumed := st'.consumed + out.length })

/-- `io.ReadFull` / `binary.ReadBytes` of `n` bytes: repeated `Read` until `n` bytes or an error.
Each iteration yields at least one byte or ends the loop, so `n + 1` iterations suffice. -/
def readFullLoop : Nat → Nat → List (List UInt8) → Stack → Except IOErr (List UInt8) × Stack
  | 0, _, acc, st => (.ok acc.reverse.flatten, st)
  | fuel+1, need, acc, st =>
    if need == 0 then (.ok acc.reverse.flatten, st) else
    let (c, e, st') := st.read need
    let need' := need - c.length
    match e with
    | none => readFullLoop fuel need' (c :: acc) st'
    | some err =>
      if need' == 0 then (.ok (c :: acc).reverse.flatten, st')
      else
        let gotAny := !(c.isEmpty && acc.all List.isEmpty)
        (.error (if err == .eof && gotAny then .unexpectedEof else err), st')

def readFull (st : Stack) (n : Nat) : Except IOErr (List UInt8) × Stack :=
  readFullLoop (n + 1) n [] st

end Stack

namespace Prog

/-- a program run over the reader stack -/
def runStack {α : Type} (zl : Inflate) : Prog α → Stack → α × Stack
  | ret a, st => (a, st)
  | readByte k, st => let (r, st') := st.readByte; runStack zl (k r) st'
  | readFull n eager k, st =>
    let (r, st') := st.readFull n
    runStack zl (k r) { st' with lazyUsed := st'.lazyUsed || (!eager && n != 0) }
  | inflate z k, st => runStack zl (k (zl z)) st

end Prog

/-- `Load(r)`: the extractor's result, `io.MultiReader(rewindBuffer, r)`, and the final stack -/
def loadSt {α : Type} (zl : Prog.Inflate) (p : Prog α) (r : Rd) : α × Rd × Stack :=
  let (a, st) := Prog.runStack zl p { under := r }
  (a, .multi st.tee st.under, st)

def load {α : Type} (zl : Prog.Inflate) (p : Prog α) (r : Rd) : α × Rd :=
  let (a, rd, _) := loadSt zl p r
  (a, rd)

end Prism
