import Prism.Float.SF
import Prism.Gen.SrgbDec8
import Prism.Gen.SrgbDec16
import Prism.Gen.SrgbEnc8
import Prism.Gen.SrgbEnc16
import Prism.Gen.AdobeDec8
import Prism.Gen.AdobeDec16
import Prism.Gen.AdobeEnc8
import Prism.Gen.AdobeEnc16
import Prism.Gen.ProphotoDec8
import Prism.Gen.ProphotoDec16
import Prism.Gen.ProphotoEnc8
import Prism.Gen.ProphotoEnc16
import Prism.Gen.P3Dec8
import Prism.Gen.P3Dec16
import Prism.Gen.P3Enc8
import Prism.Gen.P3Enc16
import Prism.Gen.Consts

/-!
# Look-up tables of the four RGB spaces, as regenerated from the code

`Prism/Gen/*.lean` is rewritten by `pv dump` on every run from a binary built from
/repo's working tree.  This file only gives the tables uniform accessors.
-/

namespace Prism

inductive Space where
  | srgb | adobe | prophoto | p3
deriving DecidableEq, Repr, Inhabited

namespace Space
def all : List Space := [srgb, adobe, prophoto, p3]
def name : Space → String
  | srgb => "srgb" | adobe => "adobe" | prophoto => "prophoto" | p3 => "p3"
def ofName? : String → Option Space
  | "srgb" => some srgb | "adobe" => some adobe | "prophoto" => some prophoto | "p3" => some p3
  | _ => none
end Space

/-- entry `k` of a chunked table with `w`-bit entries (256 per chunk) -/
@[inline] def tableEntry (chunk : Nat → Nat) (w : Nat) (k : Nat) : Nat :=
  (chunk (k / 256) >>> (w * (k % 256))) % 2 ^ w

open Gen in
/-- decode table: float32 bits of the linear value of 8-bit code `c` -/
def dec8 : Space → Nat → Nat
  | .srgb, c => tableEntry srgbDec8Chunk 32 c
  | .adobe, c => tableEntry adobeDec8Chunk 32 c
  | .prophoto, c => tableEntry prophotoDec8Chunk 32 c
  | .p3, c => tableEntry p3Dec8Chunk 32 c

open Gen in
/-- decode table: float32 bits of the linear value of 16-bit code `c` -/
def dec16 : Space → Nat → Nat
  | .srgb, c => tableEntry srgbDec16Chunk 32 c
  | .adobe, c => tableEntry adobeDec16Chunk 32 c
  | .prophoto, c => tableEntry prophotoDec16Chunk 32 c
  | .p3, c => tableEntry p3Dec16Chunk 32 c

open Gen in
/-- encode table (512 entries): 8-bit code for 9-bit linear index `i` -/
def enc8 : Space → Nat → Nat
  | .srgb, i => tableEntry srgbEnc8Chunk 8 i
  | .adobe, i => tableEntry adobeEnc8Chunk 8 i
  | .prophoto, i => tableEntry prophotoEnc8Chunk 8 i
  | .p3, i => tableEntry p3Enc8Chunk 8 i

open Gen in
/-- encode table (65536 entries): 16-bit code for 16-bit linear index `i` -/
def enc16 : Space → Nat → Nat
  | .srgb, i => tableEntry srgbEnc16Chunk 16 i
  | .adobe, i => tableEntry adobeEnc16Chunk 16 i
  | .prophoto, i => tableEntry prophotoEnc16Chunk 16 i
  | .p3, i => tableEntry p3Enc16Chunk 16 i

end Prism
