/-! Line-protocol helpers for the model driver (core only). -/
namespace Prism

def hexDigit? (c : Char) : Option Nat :=
  if '0' ≤ c ∧ c ≤ '9' then some (c.toNat - '0'.toNat)
  else if 'a' ≤ c ∧ c ≤ 'f' then some (c.toNat - 'a'.toNat + 10)
  else if 'A' ≤ c ∧ c ≤ 'F' then some (c.toNat - 'A'.toNat + 10)
  else none

def parseHex? (s : String) : Option Nat :=
  if s.isEmpty then none else
  s.foldl (fun acc c => match acc, hexDigit? c with
    | some a, some d => some (a * 16 + d)
    | _, _ => none) (some 0)

def parseHexBytes? (s : String) : Option ByteArray :=
  if s == "-" then some ByteArray.empty else
  let cs := s.toList
  let rec go : List Char → ByteArray → Option ByteArray
    | [], acc => some acc
    | [_], _ => none
    | a :: b :: rest, acc =>
      match hexDigit? a, hexDigit? b with
      | some x, some y => go rest (acc.push (UInt8.ofNat (x * 16 + y)))
      | _, _ => none
  go cs (ByteArray.emptyWithCapacity (cs.length / 2))

def hexNib (n : Nat) : Char :=
  if n < 10 then Char.ofNat (n + '0'.toNat) else Char.ofNat (n - 10 + 'a'.toNat)

def toHex (n : Nat) (digits : Nat) : String :=
  let rec go (k : Nat) (n : Nat) (acc : List Char) : List Char :=
    match k with
    | 0 => acc
    | k+1 => go k (n / 16) (hexNib (n % 16) :: acc)
  String.ofList (go digits n [])

def bytesToHex (b : ByteArray) : String :=
  if b.size == 0 then "-" else
  String.ofList (b.foldl (fun acc x => hexNib (x.toNat % 16) :: hexNib (x.toNat / 16) :: acc) []).reverse

/-- FNV-1a 64 over 64-bit words fed as 8 little-endian bytes (mirrors the Go harness) -/
def fnvInit : UInt64 := 0xcbf29ce484222325
def fnvWord (h : UInt64) (w : Nat) : UInt64 := Id.run do
  let mut h := h
  let w64 := UInt64.ofNat w
  for i in [0:8] do
    h := (h ^^^ ((w64 >>> (UInt64.ofNat (8*i))) &&& 0xff)) * 0x100000001b3
  return h

end Prism
