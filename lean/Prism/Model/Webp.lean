import Prism.Model.Prog

/-!
# Model of `meta/webpmeta` (webpmeta.go, chunkheader.go)
-/

namespace Prism.Webp
open Parser

def tRIFF : List UInt8 := [0x52,0x49,0x46,0x46]
def tWEBP : List UInt8 := [0x57,0x45,0x42,0x50]
def tVP8  : List UInt8 := [0x56,0x50,0x38,0x20]
def tVP8L : List UInt8 := [0x56,0x50,0x38,0x4C]
def tVP8X : List UInt8 := [0x56,0x50,0x38,0x58]
def tICCP : List UInt8 := [0x49,0x43,0x43,0x50]

/-- `readChunkHeader`: 4-byte type (io.ReadFull), little-endian length -/
def chunkHeader : Parser (List UInt8 × Nat) := do
  let ty ← mapErr (full 4) fun e =>
    match e with
    | .io .unexpectedEof => .bad "unexpected EOF reading chunk type"
    | e => e
  let len ← u32le
  return (ty, len)

/-- `parseWebpSimple` (VP8): 3-byte frame tag, start code 9d 01 2a, two 14-bit little-endian fields -/
def simple (md : Meta) : Parser Meta := do
  skip 3
  let b ← full 7
  match b with
  | [b0, b1, b2, b3, b4, b5, b6] =>
    if b0 != 0x9d || b1 != 0x01 || b2 != 0x2a then fail (.bad "corrupted WebP VP8 frame") else
    pure { md with width := (b4.toNat % 64) * 256 + b3.toNat,
                   height := (b6.toNat % 64) * 256 + b5.toNat, depth := 8 }
  | _ => fail (.bad "model: impossible")

/-- `parseWebpLossless` (VP8L): signature 0x2f, 14+14 bits packed little-endian, each minus one -/
def lossless (md : Meta) : Parser Meta := do
  let sig ← byte
  if sig != 0x2f then fail (.bad "corrupted lossless WebP") else
  let b0 ← byte; let b1 ← byte; let b2 ← byte; let b3 ← byte
  let w := (b0.toNat + (b1.toNat % 64) * 256) % 16384
  let h := ((b1.toNat / 64) % 4 + b2.toNat * 4 + (b3.toNat % 16) * 1024) % 16384
  pure { md with width := w + 1, height := h + 1, depth := 8 }

/-- `readICCP` -/
def readICCP (chunkLen : Nat) : Parser (List UInt8) := do
  skip ((chunkLen + 4294967296 - 10) % 4294967296)
  let (ty, len) ← chunkHeader
  if ty != tICCP then fail (.bad "no expected ICCP chunk") else
  bytesN len

/-- `parseWebpExtended` (VP8X) -/
def extended (md : Meta) (chunkLen : Nat) : Parser Meta := do
  if chunkLen != 10 then fail (.bad "unexpected VP8X chunk length") else
  let flags ← byte
  let hasProfile := (flags.toNat / 32) % 2 == 1
  skip 3
  let w ← u24le
  let h ← u24le
  let md := { md with width := w + 1, height := h + 1, depth := 8 }
  if hasProfile then do
    let r ← attempt (readICCP chunkLen)
    match r with
    | .ok d => pure (md.setIccData d false)
    | .error _ => pure { md with icc := .err "icc" }
  else pure md

/-- `extractMetadata` -/
def extract : Parser Meta := do
  let (ty, _) ← chunkHeader
  if ty != tRIFF then fail (.bad "missing RIFF header") else
  let cc ← full 4
  if cc != tWEBP then fail (.bad "not a WEBP file") else
  let (fty, len) ← chunkHeader
  let md : Meta := { format := "WebP" }
  if fty == tVP8 then simple md
  else if fty == tVP8L then lossless md
  else if fty == tVP8X then extended md len
  else fail (.bad "unexpected WEBP format")

end Prism.Webp
