import Prism.Model.Matrix

/-!
# Model of `ciexyz` (color.go, ciexyz.go, chromaticadaptation.go) and `ciexyy`
-/

namespace Prism.Xyz
open SF Mat

/-- a float64 constant given as a decimal fraction, rounded as the Go compiler rounds it -/
def f64c (neg : Bool) (n d : Nat) : Nat := ofRatParts b64 neg n d

/-- `bradfordForward` (columns, as written in chromaticadaptation.go) -/
def bradfordForward : M3 :=
  ((f64c false 8951 10000, f64c true 7502 10000, f64c false 389 10000),
   (f64c false 2664 10000, f64c false 17135 10000, f64c true 685 10000),
   (f64c true 1614 10000, f64c false 367 10000, f64c false 10296 10000))

/-- `bradfordInverse = bradfordForward.Inverse()` (computed at package initialisation) -/
def bradfordInverse : M3 := (inverse bradfordForward).getD bradfordForward

/-- `ColorFromXYY` (float32): `X = x·Y/y`, `Y = Y`, `Z = (1 − x − y)·Y/y` -/
def fromXYY (x y yy : Nat) : Nat × Nat × Nat :=
  (F32.div (F32.mul x yy) y, yy, F32.div (F32.mul (F32.sub (F32.sub F32.one x) y) yy) y)

/-- `Color.ToV`: float32 → float64 (exact) -/
def toV (c : Nat × Nat × Nat) : V3 := (F32.toF64 c.1, F32.toF64 c.2.1, F32.toF64 c.2.2)
/-- `ColorFromV`: float64 → float32 (rounded) -/
def fromV (v : V3) : Nat × Nat × Nat := (F64.toF32 v.1, F64.toF32 v.2.1, F64.toF32 v.2.2)

/-- `AdaptBetweenXYZWhitePoints` -/
def adaptXYZ (src dst : Nat × Nat × Nat) : M3 :=
  let s := mulV bradfordForward (toV src)
  let d := mulV bradfordForward (toV dst)
  let z := F64.zero
  let m : M3 := ((F64.div (v0 d) (v0 s), z, z), (z, F64.div (v1 d) (v1 s), z), (z, z, F64.div (v2 d) (v2 s)))
  mulM (mulM bradfordInverse m) bradfordForward

/-- `AdaptBetweenXYYWhitePoints` -/
def adaptXYY (src dst : Nat × Nat × Nat) : M3 :=
  adaptXYZ (fromXYY src.1 src.2.1 src.2.2) (fromXYY dst.1 dst.2.1 dst.2.2)

/-- `ChromaticAdaptation.Apply` -/
def apply (ca : M3) (c : Nat × Nat × Nat) : Nat × Nat × Nat := fromV (mulV ca (toV c))

/-- `TransformToXYZForXYYPrimaries`; `none` = `Inverse` panicked -/
def transformToXYZ (r g b w : Nat × Nat × Nat) : Option M3 :=
  let m : M3 := (toV (fromXYY r.1 r.2.1 r.2.2), toV (fromXYY g.1 g.2.1 g.2.2), toV (fromXYY b.1 b.2.1 b.2.2))
  match inverse m with
  | none => none
  | some mi =>
    let s := mulV mi (toV (fromXYY w.1 w.2.1 w.2.2))
    some (mulS m.1 (v0 s), mulS m.2.1 (v1 s), mulS m.2.2 (v2 s))

/-- `TransformFromXYZForXYYPrimaries` -/
def transformFromXYZ (r g b w : Nat × Nat × Nat) : Option M3 :=
  match transformToXYZ r g b w with
  | none => none
  | some m => inverse m

/-! ### CIE Lab (`math.Pow` is external: its observed results arrive as arguments) -/

/-- `constantE = 216/24389`, `constantK = 24389/27` as float64 -/
def cE : Nat := f64c false 216 24389
def cK : Nat := f64c false 24389 27
def c116 : Nat := F64.ofNat 116
def c16 : Nat := F64.ofNat 16
def c500 : Nat := F64.ofNat 500
def c200 : Nat := F64.ofNat 200

/-- `componentToLAB(v, wp)`; `cbrt` is what `math.Pow(r, 1.0/3.0)` returned (used iff `r > ε`).
Also returns `r` and whether the power branch was taken. -/
def componentToLAB (v wp : Nat) (cbrt : Nat) : Nat × Nat × Bool :=
  let r := F64.div (F32.toF64 v) (F32.toF64 wp)
  if F64.gt r cE then (cbrt, r, true)
  else (F64.div (F64.add (F64.mul cK r) c16) c116, r, false)

/-- `Color.ToLAB` -/
def toLAB (c w : Nat × Nat × Nat) (pows : Nat × Nat × Nat) : Nat × Nat × Nat :=
  let fx := (componentToLAB c.1 w.1 pows.1).1
  let fy := (componentToLAB c.2.1 w.2.1 pows.2.1).1
  let fz := (componentToLAB c.2.2 w.2.2 pows.2.2).1
  (F64.toF32 (F64.sub (F64.mul c116 fy) c16),
   F64.toF32 (F64.mul c500 (F64.sub fx fy)),
   F64.toF32 (F64.mul c200 (F64.sub fy fz)))

/-- `componentFromLAB(f)`; `cube` is what `math.Pow(f, 3)` returned -/
def componentFromLAB (f cube : Nat) : Nat :=
  if F64.gt cube cE then cube
  else F64.div (F64.sub (F64.mul c116 f) c16) cK

/-- the three `f` values of `ColorFromLAB` (arguments of the `math.Pow(·, 3)` calls) -/
def labF (lab : Nat × Nat × Nat) : Nat × Nat × Nat :=
  let fy := F64.div (F64.add (F32.toF64 lab.1) c16) c116
  let fx := F64.add (F64.div (F32.toF64 lab.2.1) c500) fy
  let fz := F64.sub fy (F64.div (F32.toF64 lab.2.2) c200)
  (fx, fy, fz)

/-- `ColorFromLAB`; `cubes` = `math.Pow(fx,3)`, `math.Pow((L+16)/116, 3)`, `math.Pow(fz,3)` -/
def fromLAB (lab w : Nat × Nat × Nat) (cubes : Nat × Nat × Nat) : Nat × Nat × Nat :=
  let (fx, _, fz) := labF lab
  let xr := componentFromLAB fx cubes.1
  let zr := componentFromLAB fz cubes.2.2
  -- `lab.L > constantK*constantE`: the constant product is exactly 8, compared in float32
  let yr := if F32.gt lab.1 (F32.ofNat 8) then cubes.2.1 else F64.div (F32.toF64 lab.1) cK
  (F64.toF32 (F64.mul xr (F32.toF64 w.1)), F64.toF32 (F64.mul yr (F32.toF64 w.2.1)), F64.toF32 (F64.mul zr (F32.toF64 w.2.2)))

end Prism.Xyz
