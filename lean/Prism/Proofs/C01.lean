import Prism.Proofs.C01.All
import Prism.Proofs.Lemmas.CurveSound

/-!
# C01 — decoding matches each space's published transfer function for every code

Property theorems only.  `dec8`/`dec16` are the decode tables regenerated from the code on
every run (`Prism/Gen`); the chunk theorems in `Prism/Proofs/C01/K*.lean` are re-checked by
the kernel whenever they change.
-/

namespace Prism
open SF

/-- the published EOTF of each space -/
noncomputable def Space.eotf : Space → ℝ → ℝ
  | .srgb => srgbEOTF
  | .adobe => adobeEOTF
  | .prophoto => prophotoEOTF
  | .p3 => srgbEOTF

theorem Space.curve_wf (s : Space) : s.curve.WF := by cases s <;> decide

theorem Space.curve_eotf (s : Space) (v : ℝ) (hv : 0 ≤ v) : s.curve.eotf v = s.eotf v := by
  cases s
  · exact srgb_eotf_eq v
  · exact adobe_eotf_eq v hv
  · exact prophoto_eotf_eq v
  · exact srgb_eotf_eq v

theorem chunks_ok (s : Space) : ∀ k, k < 256 → chunkOk16 s k = true := by
  cases s
  · exact C01.srgb_chunks
  · exact C01.adobe_chunks
  · exact C01.prophoto_chunks
  · exact C01.p3_chunks

theorem dec16_entry_ok (s : Space) (c : Nat) (hc : c < 65536) : dec16EntryOk s c = true := by
  have h := chunks_ok s (c / 256) (by omega)
  exact allDepth_spec _ 8 _ h c (by omega) (by omega)

theorem table8_ok (s : Space) : tableOk8 s = true := by
  cases s
  · exact C01.srgb_dec8
  · exact C01.adobe_dec8
  · exact C01.prophoto_dec8
  · exact C01.p3_dec8

theorem dec8_entry_ok (s : Space) (c : Nat) (hc : c < 256) : dec8EntryOk s c = true :=
  allDepth_spec _ 8 _ (table8_ok s) c (by omega) (by omega)

/-- **C01 (accuracy, 16-bit).** For every 16-bit code and every space, the decoded float32 is
within `3·10⁻⁷` of the published EOTF at `c/65535`. -/
theorem C01_dec16_accurate (s : Space) (c : Nat) (hc : c < 65536) :
    |f32ToReal (dec16 s c) - s.eotf ((c:ℝ)/65535)| ≤ 3 / 10000000 := by
  have h := dec16_entry_ok s c hc
  unfold dec16EntryOk at h
  simp only [force_eq, Bool.and_eq_true] at h
  have := entryOk_sound s.curve s.curve_wf 65535 c _ (by norm_num) h.1
  rw [Space.curve_eotf s _ (by positivity)] at this
  exact_mod_cast this

/-- **C01 (accuracy, 8-bit).** -/
theorem C01_dec8_accurate (s : Space) (c : Nat) (hc : c < 256) :
    |f32ToReal (dec8 s c) - s.eotf ((c:ℝ)/255)| ≤ 3 / 10000000 := by
  have h := dec8_entry_ok s c hc
  unfold dec8EntryOk at h
  simp only [force_eq, Bool.and_eq_true] at h
  have := entryOk_sound s.curve s.curve_wf 255 c _ (by norm_num) h.1.1
  rw [Space.curve_eotf s _ (by positivity)] at this
  exact_mod_cast this

/-- **C01 (end points).** Code 0 decodes to `+0.0` and the maximum code to `1.0`, exactly. -/
theorem C01_endpoints (s : Space) :
    dec16 s 0 = 0 ∧ dec16 s 65535 = 0x3f800000 ∧ dec8 s 0 = 0 ∧ dec8 s 255 = 0x3f800000 := by
  have h : endpointsOk s = true := by
    cases s
    · exact C01.srgb_endpoints
    · exact C01.adobe_endpoints
    · exact C01.prophoto_endpoints
    · exact C01.p3_endpoints
  unfold endpointsOk at h
  simp only [Bool.and_eq_true, beq_iff_eq] at h
  exact ⟨h.1.1.1, h.1.1.2, h.1.2, h.2⟩

/-- one step of strict monotonicity on bit patterns -/
theorem dec16_step (s : Space) (c : Nat) (hc : c < 65535) : dec16 s c < dec16 s (c+1) := by
  have h := dec16_entry_ok s c (by omega)
  unfold dec16EntryOk at h
  simp only [force_eq, Bool.and_eq_true, Bool.or_eq_true, beq_iff_eq, Nat.blt_eq] at h
  rcases h.2 with h2 | h2
  · omega
  · exact h2

/-- all entries are bit patterns of floats in `[0, 1]` -/
theorem dec16_le_one (s : Space) (c : Nat) (hc : c < 65536) : dec16 s c ≤ 0x3f800000 := by
  have h := dec16_entry_ok s c hc
  unfold dec16EntryOk entryOk at h
  simp only [force_eq, Bool.and_eq_true, Nat.ble_eq] at h
  exact h.1.1

/-- **C01 (strictly increasing).** Decoding is strictly increasing in the code.  The statement
is on bit patterns: every entry is `≤ 0x3f800000`, i.e. a non-negative finite float, and for
those the order of bit patterns is the order of values. -/
theorem C01_strict_mono16 (s : Space) (c c' : Nat) (h : c < c') (hc' : c' < 65536) :
    dec16 s c < dec16 s c' := by
  induction c' with
  | zero => omega
  | succ n ih =>
    by_cases hcn : c = n
    · subst hcn; exact dec16_step s c (by omega)
    · exact Nat.lt_trans (ih (by omega) (by omega)) (dec16_step s n (by omega))

/-- **C01 (8-bit = 16-bit at 257·v).** -/
theorem C01_dec8_eq_dec16 (s : Space) (v : Nat) (hv : v < 256) : dec8 s v = dec16 s (257 * v) := by
  have h := dec8_entry_ok s v hv
  unfold dec8EntryOk at h
  simp only [force_eq, Bool.and_eq_true, beq_iff_eq] at h
  exact h.2

/-- strict monotonicity of the 8-bit table follows -/
theorem C01_strict_mono8 (s : Space) (v v' : Nat) (h : v < v') (hv' : v' < 256) :
    dec8 s v < dec8 s v' := by
  rw [C01_dec8_eq_dec16 s v (by omega), C01_dec8_eq_dec16 s v' hv']
  exact C01_strict_mono16 s _ _ (by omega) (by omega)

/-- non-vacuity: the hypotheses are met by every code, e.g. the two ends of the table -/
example : dec16 .adobe 0 < dec16 .adobe 65535 := C01_strict_mono16 .adobe 0 65535 (by omega) (by omega)

end Prism
