import Prism.Proofs.C01.KSrgb0
import Prism.Proofs.C01.KSrgb1
import Prism.Proofs.C01.KSrgb2
import Prism.Proofs.C01.KSrgb3
import Prism.Proofs.C01.KSrgb4
import Prism.Proofs.C01.KSrgb5
import Prism.Proofs.C01.KSrgb6
import Prism.Proofs.C01.KSrgb7
import Prism.Proofs.C01.KSrgb8
import Prism.Proofs.C01.KSrgb9
import Prism.Proofs.C01.KSrgb10
import Prism.Proofs.C01.KSrgb11
import Prism.Proofs.C01.KSrgb12
import Prism.Proofs.C01.KSrgb13
import Prism.Proofs.C01.KSrgb14
import Prism.Proofs.C01.KSrgb15
import Prism.Proofs.C01.KAdobe0
import Prism.Proofs.C01.KAdobe1
import Prism.Proofs.C01.KAdobe2
import Prism.Proofs.C01.KAdobe3
import Prism.Proofs.C01.KAdobe4
import Prism.Proofs.C01.KAdobe5
import Prism.Proofs.C01.KAdobe6
import Prism.Proofs.C01.KAdobe7
import Prism.Proofs.C01.KAdobe8
import Prism.Proofs.C01.KAdobe9
import Prism.Proofs.C01.KAdobe10
import Prism.Proofs.C01.KAdobe11
import Prism.Proofs.C01.KAdobe12
import Prism.Proofs.C01.KAdobe13
import Prism.Proofs.C01.KAdobe14
import Prism.Proofs.C01.KAdobe15
import Prism.Proofs.C01.KProphoto0
import Prism.Proofs.C01.KProphoto1
import Prism.Proofs.C01.KProphoto2
import Prism.Proofs.C01.KProphoto3
import Prism.Proofs.C01.KProphoto4
import Prism.Proofs.C01.KProphoto5
import Prism.Proofs.C01.KProphoto6
import Prism.Proofs.C01.KProphoto7
import Prism.Proofs.C01.KProphoto8
import Prism.Proofs.C01.KProphoto9
import Prism.Proofs.C01.KProphoto10
import Prism.Proofs.C01.KProphoto11
import Prism.Proofs.C01.KProphoto12
import Prism.Proofs.C01.KProphoto13
import Prism.Proofs.C01.KProphoto14
import Prism.Proofs.C01.KProphoto15
import Prism.Proofs.C01.KP30
import Prism.Proofs.C01.KP31
import Prism.Proofs.C01.KP32
import Prism.Proofs.C01.KP33
import Prism.Proofs.C01.KP34
import Prism.Proofs.C01.KP35
import Prism.Proofs.C01.KP36
import Prism.Proofs.C01.KP37
import Prism.Proofs.C01.KP38
import Prism.Proofs.C01.KP39
import Prism.Proofs.C01.KP310
import Prism.Proofs.C01.KP311
import Prism.Proofs.C01.KP312
import Prism.Proofs.C01.KP313
import Prism.Proofs.C01.KP314
import Prism.Proofs.C01.KP315

/-! Assembly of the chunk theorems into one statement per table (generated boiler-plate). -/
namespace Prism.C01

theorem srgb_chunks : ∀ k, k < 256 → chunkOk16 .srgb k = true := by
  intro k hk
  have h : (0 ≤ k ∧ k < 16) ∨ (16 ≤ k ∧ k < 32) ∨ (32 ≤ k ∧ k < 48) ∨ (48 ≤ k ∧ k < 64) ∨ (64 ≤ k ∧ k < 80) ∨ (80 ≤ k ∧ k < 96) ∨ (96 ≤ k ∧ k < 112) ∨ (112 ≤ k ∧ k < 128) ∨ (128 ≤ k ∧ k < 144) ∨ (144 ≤ k ∧ k < 160) ∨ (160 ≤ k ∧ k < 176) ∨ (176 ≤ k ∧ k < 192) ∨ (192 ≤ k ∧ k < 208) ∨ (208 ≤ k ∧ k < 224) ∨ (224 ≤ k ∧ k < 240) ∨ (240 ≤ k ∧ k < 256) := by omega
  rcases h with h | h | h | h | h | h | h | h | h | h | h | h | h | h | h | h
  · exact srgb_file0 k h.1 h.2
  · exact srgb_file1 k h.1 h.2
  · exact srgb_file2 k h.1 h.2
  · exact srgb_file3 k h.1 h.2
  · exact srgb_file4 k h.1 h.2
  · exact srgb_file5 k h.1 h.2
  · exact srgb_file6 k h.1 h.2
  · exact srgb_file7 k h.1 h.2
  · exact srgb_file8 k h.1 h.2
  · exact srgb_file9 k h.1 h.2
  · exact srgb_file10 k h.1 h.2
  · exact srgb_file11 k h.1 h.2
  · exact srgb_file12 k h.1 h.2
  · exact srgb_file13 k h.1 h.2
  · exact srgb_file14 k h.1 h.2
  · exact srgb_file15 k h.1 h.2

theorem srgb_dec8 : tableOk8 .srgb = true := by decide +kernel
theorem srgb_endpoints : endpointsOk .srgb = true := by decide +kernel

theorem adobe_chunks : ∀ k, k < 256 → chunkOk16 .adobe k = true := by
  intro k hk
  have h : (0 ≤ k ∧ k < 16) ∨ (16 ≤ k ∧ k < 32) ∨ (32 ≤ k ∧ k < 48) ∨ (48 ≤ k ∧ k < 64) ∨ (64 ≤ k ∧ k < 80) ∨ (80 ≤ k ∧ k < 96) ∨ (96 ≤ k ∧ k < 112) ∨ (112 ≤ k ∧ k < 128) ∨ (128 ≤ k ∧ k < 144) ∨ (144 ≤ k ∧ k < 160) ∨ (160 ≤ k ∧ k < 176) ∨ (176 ≤ k ∧ k < 192) ∨ (192 ≤ k ∧ k < 208) ∨ (208 ≤ k ∧ k < 224) ∨ (224 ≤ k ∧ k < 240) ∨ (240 ≤ k ∧ k < 256) := by omega
  rcases h with h | h | h | h | h | h | h | h | h | h | h | h | h | h | h | h
  · exact adobe_file0 k h.1 h.2
  · exact adobe_file1 k h.1 h.2
  · exact adobe_file2 k h.1 h.2
  · exact adobe_file3 k h.1 h.2
  · exact adobe_file4 k h.1 h.2
  · exact adobe_file5 k h.1 h.2
  · exact adobe_file6 k h.1 h.2
  · exact adobe_file7 k h.1 h.2
  · exact adobe_file8 k h.1 h.2
  · exact adobe_file9 k h.1 h.2
  · exact adobe_file10 k h.1 h.2
  · exact adobe_file11 k h.1 h.2
  · exact adobe_file12 k h.1 h.2
  · exact adobe_file13 k h.1 h.2
  · exact adobe_file14 k h.1 h.2
  · exact adobe_file15 k h.1 h.2

theorem adobe_dec8 : tableOk8 .adobe = true := by decide +kernel
theorem adobe_endpoints : endpointsOk .adobe = true := by decide +kernel

theorem prophoto_chunks : ∀ k, k < 256 → chunkOk16 .prophoto k = true := by
  intro k hk
  have h : (0 ≤ k ∧ k < 16) ∨ (16 ≤ k ∧ k < 32) ∨ (32 ≤ k ∧ k < 48) ∨ (48 ≤ k ∧ k < 64) ∨ (64 ≤ k ∧ k < 80) ∨ (80 ≤ k ∧ k < 96) ∨ (96 ≤ k ∧ k < 112) ∨ (112 ≤ k ∧ k < 128) ∨ (128 ≤ k ∧ k < 144) ∨ (144 ≤ k ∧ k < 160) ∨ (160 ≤ k ∧ k < 176) ∨ (176 ≤ k ∧ k < 192) ∨ (192 ≤ k ∧ k < 208) ∨ (208 ≤ k ∧ k < 224) ∨ (224 ≤ k ∧ k < 240) ∨ (240 ≤ k ∧ k < 256) := by omega
  rcases h with h | h | h | h | h | h | h | h | h | h | h | h | h | h | h | h
  · exact prophoto_file0 k h.1 h.2
  · exact prophoto_file1 k h.1 h.2
  · exact prophoto_file2 k h.1 h.2
  · exact prophoto_file3 k h.1 h.2
  · exact prophoto_file4 k h.1 h.2
  · exact prophoto_file5 k h.1 h.2
  · exact prophoto_file6 k h.1 h.2
  · exact prophoto_file7 k h.1 h.2
  · exact prophoto_file8 k h.1 h.2
  · exact prophoto_file9 k h.1 h.2
  · exact prophoto_file10 k h.1 h.2
  · exact prophoto_file11 k h.1 h.2
  · exact prophoto_file12 k h.1 h.2
  · exact prophoto_file13 k h.1 h.2
  · exact prophoto_file14 k h.1 h.2
  · exact prophoto_file15 k h.1 h.2

theorem prophoto_dec8 : tableOk8 .prophoto = true := by decide +kernel
theorem prophoto_endpoints : endpointsOk .prophoto = true := by decide +kernel

theorem p3_chunks : ∀ k, k < 256 → chunkOk16 .p3 k = true := by
  intro k hk
  have h : (0 ≤ k ∧ k < 16) ∨ (16 ≤ k ∧ k < 32) ∨ (32 ≤ k ∧ k < 48) ∨ (48 ≤ k ∧ k < 64) ∨ (64 ≤ k ∧ k < 80) ∨ (80 ≤ k ∧ k < 96) ∨ (96 ≤ k ∧ k < 112) ∨ (112 ≤ k ∧ k < 128) ∨ (128 ≤ k ∧ k < 144) ∨ (144 ≤ k ∧ k < 160) ∨ (160 ≤ k ∧ k < 176) ∨ (176 ≤ k ∧ k < 192) ∨ (192 ≤ k ∧ k < 208) ∨ (208 ≤ k ∧ k < 224) ∨ (224 ≤ k ∧ k < 240) ∨ (240 ≤ k ∧ k < 256) := by omega
  rcases h with h | h | h | h | h | h | h | h | h | h | h | h | h | h | h | h
  · exact p3_file0 k h.1 h.2
  · exact p3_file1 k h.1 h.2
  · exact p3_file2 k h.1 h.2
  · exact p3_file3 k h.1 h.2
  · exact p3_file4 k h.1 h.2
  · exact p3_file5 k h.1 h.2
  · exact p3_file6 k h.1 h.2
  · exact p3_file7 k h.1 h.2
  · exact p3_file8 k h.1 h.2
  · exact p3_file9 k h.1 h.2
  · exact p3_file10 k h.1 h.2
  · exact p3_file11 k h.1 h.2
  · exact p3_file12 k h.1 h.2
  · exact p3_file13 k h.1 h.2
  · exact p3_file14 k h.1 h.2
  · exact p3_file15 k h.1 h.2

theorem p3_dec8 : tableOk8 .p3 = true := by decide +kernel
theorem p3_endpoints : endpointsOk .p3 = true := by decide +kernel

end Prism.C01
