import Prism.Check.C01

/-! Kernel-checked chunks of the regenerated 16-bit decode table (generated boiler-plate). -/
namespace Prism.C01

theorem adobe_k0 : chunkOk16 .adobe 0 = true := by decide +kernel
theorem adobe_k1 : chunkOk16 .adobe 1 = true := by decide +kernel
theorem adobe_k2 : chunkOk16 .adobe 2 = true := by decide +kernel
theorem adobe_k3 : chunkOk16 .adobe 3 = true := by decide +kernel
theorem adobe_k4 : chunkOk16 .adobe 4 = true := by decide +kernel
theorem adobe_k5 : chunkOk16 .adobe 5 = true := by decide +kernel
theorem adobe_k6 : chunkOk16 .adobe 6 = true := by decide +kernel
theorem adobe_k7 : chunkOk16 .adobe 7 = true := by decide +kernel
theorem adobe_k8 : chunkOk16 .adobe 8 = true := by decide +kernel
theorem adobe_k9 : chunkOk16 .adobe 9 = true := by decide +kernel
theorem adobe_k10 : chunkOk16 .adobe 10 = true := by decide +kernel
theorem adobe_k11 : chunkOk16 .adobe 11 = true := by decide +kernel
theorem adobe_k12 : chunkOk16 .adobe 12 = true := by decide +kernel
theorem adobe_k13 : chunkOk16 .adobe 13 = true := by decide +kernel
theorem adobe_k14 : chunkOk16 .adobe 14 = true := by decide +kernel
theorem adobe_k15 : chunkOk16 .adobe 15 = true := by decide +kernel

theorem adobe_file0 : ∀ k, 0 ≤ k → k < 16 → chunkOk16 .adobe k = true := by
  intro k h1 h2
  have h : k = 0 ∨ k = 1 ∨ k = 2 ∨ k = 3 ∨ k = 4 ∨ k = 5 ∨ k = 6 ∨ k = 7 ∨ k = 8 ∨ k = 9 ∨ k = 10 ∨ k = 11 ∨ k = 12 ∨ k = 13 ∨ k = 14 ∨ k = 15 := by omega
  rcases h with rfl | rfl | rfl | rfl | rfl | rfl | rfl | rfl | rfl | rfl | rfl | rfl | rfl | rfl | rfl | rfl
  · exact adobe_k0
  · exact adobe_k1
  · exact adobe_k2
  · exact adobe_k3
  · exact adobe_k4
  · exact adobe_k5
  · exact adobe_k6
  · exact adobe_k7
  · exact adobe_k8
  · exact adobe_k9
  · exact adobe_k10
  · exact adobe_k11
  · exact adobe_k12
  · exact adobe_k13
  · exact adobe_k14
  · exact adobe_k15

end Prism.C01
