import Prism.Check.C01

/-! Kernel-checked chunks of the regenerated 16-bit decode table (generated boiler-plate). -/
namespace Prism.C01

theorem adobe_k16 : chunkOk16 .adobe 16 = true := by decide +kernel
theorem adobe_k17 : chunkOk16 .adobe 17 = true := by decide +kernel
theorem adobe_k18 : chunkOk16 .adobe 18 = true := by decide +kernel
theorem adobe_k19 : chunkOk16 .adobe 19 = true := by decide +kernel
theorem adobe_k20 : chunkOk16 .adobe 20 = true := by decide +kernel
theorem adobe_k21 : chunkOk16 .adobe 21 = true := by decide +kernel
theorem adobe_k22 : chunkOk16 .adobe 22 = true := by decide +kernel
theorem adobe_k23 : chunkOk16 .adobe 23 = true := by decide +kernel
theorem adobe_k24 : chunkOk16 .adobe 24 = true := by decide +kernel
theorem adobe_k25 : chunkOk16 .adobe 25 = true := by decide +kernel
theorem adobe_k26 : chunkOk16 .adobe 26 = true := by decide +kernel
theorem adobe_k27 : chunkOk16 .adobe 27 = true := by decide +kernel
theorem adobe_k28 : chunkOk16 .adobe 28 = true := by decide +kernel
theorem adobe_k29 : chunkOk16 .adobe 29 = true := by decide +kernel
theorem adobe_k30 : chunkOk16 .adobe 30 = true := by decide +kernel
theorem adobe_k31 : chunkOk16 .adobe 31 = true := by decide +kernel

theorem adobe_file1 : ∀ k, 16 ≤ k → k < 32 → chunkOk16 .adobe k = true := by
  intro k h1 h2
  have h : k = 16 ∨ k = 17 ∨ k = 18 ∨ k = 19 ∨ k = 20 ∨ k = 21 ∨ k = 22 ∨ k = 23 ∨ k = 24 ∨ k = 25 ∨ k = 26 ∨ k = 27 ∨ k = 28 ∨ k = 29 ∨ k = 30 ∨ k = 31 := by omega
  rcases h with rfl | rfl | rfl | rfl | rfl | rfl | rfl | rfl | rfl | rfl | rfl | rfl | rfl | rfl | rfl | rfl
  · exact adobe_k16
  · exact adobe_k17
  · exact adobe_k18
  · exact adobe_k19
  · exact adobe_k20
  · exact adobe_k21
  · exact adobe_k22
  · exact adobe_k23
  · exact adobe_k24
  · exact adobe_k25
  · exact adobe_k26
  · exact adobe_k27
  · exact adobe_k28
  · exact adobe_k29
  · exact adobe_k30
  · exact adobe_k31

end Prism.C01
