import Prism.Check.C01

/-! Kernel-checked chunks of the regenerated 16-bit decode table (generated boiler-plate). -/
namespace Prism.C01

theorem adobe_k160 : chunkOk16 .adobe 160 = true := by decide +kernel
theorem adobe_k161 : chunkOk16 .adobe 161 = true := by decide +kernel
theorem adobe_k162 : chunkOk16 .adobe 162 = true := by decide +kernel
theorem adobe_k163 : chunkOk16 .adobe 163 = true := by decide +kernel
theorem adobe_k164 : chunkOk16 .adobe 164 = true := by decide +kernel
theorem adobe_k165 : chunkOk16 .adobe 165 = true := by decide +kernel
theorem adobe_k166 : chunkOk16 .adobe 166 = true := by decide +kernel
theorem adobe_k167 : chunkOk16 .adobe 167 = true := by decide +kernel
theorem adobe_k168 : chunkOk16 .adobe 168 = true := by decide +kernel
theorem adobe_k169 : chunkOk16 .adobe 169 = true := by decide +kernel
theorem adobe_k170 : chunkOk16 .adobe 170 = true := by decide +kernel
theorem adobe_k171 : chunkOk16 .adobe 171 = true := by decide +kernel
theorem adobe_k172 : chunkOk16 .adobe 172 = true := by decide +kernel
theorem adobe_k173 : chunkOk16 .adobe 173 = true := by decide +kernel
theorem adobe_k174 : chunkOk16 .adobe 174 = true := by decide +kernel
theorem adobe_k175 : chunkOk16 .adobe 175 = true := by decide +kernel

theorem adobe_file10 : ∀ k, 160 ≤ k → k < 176 → chunkOk16 .adobe k = true := by
  intro k h1 h2
  have h : k = 160 ∨ k = 161 ∨ k = 162 ∨ k = 163 ∨ k = 164 ∨ k = 165 ∨ k = 166 ∨ k = 167 ∨ k = 168 ∨ k = 169 ∨ k = 170 ∨ k = 171 ∨ k = 172 ∨ k = 173 ∨ k = 174 ∨ k = 175 := by omega
  rcases h with rfl | rfl | rfl | rfl | rfl | rfl | rfl | rfl | rfl | rfl | rfl | rfl | rfl | rfl | rfl | rfl
  · exact adobe_k160
  · exact adobe_k161
  · exact adobe_k162
  · exact adobe_k163
  · exact adobe_k164
  · exact adobe_k165
  · exact adobe_k166
  · exact adobe_k167
  · exact adobe_k168
  · exact adobe_k169
  · exact adobe_k170
  · exact adobe_k171
  · exact adobe_k172
  · exact adobe_k173
  · exact adobe_k174
  · exact adobe_k175

end Prism.C01
