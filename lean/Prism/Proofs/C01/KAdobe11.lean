import Prism.Check.C01

/-! Kernel-checked chunks of the regenerated 16-bit decode table (generated boiler-plate). -/
namespace Prism.C01

theorem adobe_k176 : chunkOk16 .adobe 176 = true := by decide +kernel
theorem adobe_k177 : chunkOk16 .adobe 177 = true := by decide +kernel
theorem adobe_k178 : chunkOk16 .adobe 178 = true := by decide +kernel
theorem adobe_k179 : chunkOk16 .adobe 179 = true := by decide +kernel
theorem adobe_k180 : chunkOk16 .adobe 180 = true := by decide +kernel
theorem adobe_k181 : chunkOk16 .adobe 181 = true := by decide +kernel
theorem adobe_k182 : chunkOk16 .adobe 182 = true := by decide +kernel
theorem adobe_k183 : chunkOk16 .adobe 183 = true := by decide +kernel
theorem adobe_k184 : chunkOk16 .adobe 184 = true := by decide +kernel
theorem adobe_k185 : chunkOk16 .adobe 185 = true := by decide +kernel
theorem adobe_k186 : chunkOk16 .adobe 186 = true := by decide +kernel
theorem adobe_k187 : chunkOk16 .adobe 187 = true := by decide +kernel
theorem adobe_k188 : chunkOk16 .adobe 188 = true := by decide +kernel
theorem adobe_k189 : chunkOk16 .adobe 189 = true := by decide +kernel
theorem adobe_k190 : chunkOk16 .adobe 190 = true := by decide +kernel
theorem adobe_k191 : chunkOk16 .adobe 191 = true := by decide +kernel

theorem adobe_file11 : ∀ k, 176 ≤ k → k < 192 → chunkOk16 .adobe k = true := by
  intro k h1 h2
  have h : k = 176 ∨ k = 177 ∨ k = 178 ∨ k = 179 ∨ k = 180 ∨ k = 181 ∨ k = 182 ∨ k = 183 ∨ k = 184 ∨ k = 185 ∨ k = 186 ∨ k = 187 ∨ k = 188 ∨ k = 189 ∨ k = 190 ∨ k = 191 := by omega
  rcases h with rfl | rfl | rfl | rfl | rfl | rfl | rfl | rfl | rfl | rfl | rfl | rfl | rfl | rfl | rfl | rfl
  · exact adobe_k176
  · exact adobe_k177
  · exact adobe_k178
  · exact adobe_k179
  · exact adobe_k180
  · exact adobe_k181
  · exact adobe_k182
  · exact adobe_k183
  · exact adobe_k184
  · exact adobe_k185
  · exact adobe_k186
  · exact adobe_k187
  · exact adobe_k188
  · exact adobe_k189
  · exact adobe_k190
  · exact adobe_k191

end Prism.C01
