import Prism.Check.C01

/-! Kernel-checked chunks of the regenerated 16-bit decode table (generated boiler-plate). -/
namespace Prism.C01

theorem adobe_k192 : chunkOk16 .adobe 192 = true := by decide +kernel
theorem adobe_k193 : chunkOk16 .adobe 193 = true := by decide +kernel
theorem adobe_k194 : chunkOk16 .adobe 194 = true := by decide +kernel
theorem adobe_k195 : chunkOk16 .adobe 195 = true := by decide +kernel
theorem adobe_k196 : chunkOk16 .adobe 196 = true := by decide +kernel
theorem adobe_k197 : chunkOk16 .adobe 197 = true := by decide +kernel
theorem adobe_k198 : chunkOk16 .adobe 198 = true := by decide +kernel
theorem adobe_k199 : chunkOk16 .adobe 199 = true := by decide +kernel
theorem adobe_k200 : chunkOk16 .adobe 200 = true := by decide +kernel
theorem adobe_k201 : chunkOk16 .adobe 201 = true := by decide +kernel
theorem adobe_k202 : chunkOk16 .adobe 202 = true := by decide +kernel
theorem adobe_k203 : chunkOk16 .adobe 203 = true := by decide +kernel
theorem adobe_k204 : chunkOk16 .adobe 204 = true := by decide +kernel
theorem adobe_k205 : chunkOk16 .adobe 205 = true := by decide +kernel
theorem adobe_k206 : chunkOk16 .adobe 206 = true := by decide +kernel
theorem adobe_k207 : chunkOk16 .adobe 207 = true := by decide +kernel

theorem adobe_file12 : ∀ k, 192 ≤ k → k < 208 → chunkOk16 .adobe k = true := by
  intro k h1 h2
  have h : k = 192 ∨ k = 193 ∨ k = 194 ∨ k = 195 ∨ k = 196 ∨ k = 197 ∨ k = 198 ∨ k = 199 ∨ k = 200 ∨ k = 201 ∨ k = 202 ∨ k = 203 ∨ k = 204 ∨ k = 205 ∨ k = 206 ∨ k = 207 := by omega
  rcases h with rfl | rfl | rfl | rfl | rfl | rfl | rfl | rfl | rfl | rfl | rfl | rfl | rfl | rfl | rfl | rfl
  · exact adobe_k192
  · exact adobe_k193
  · exact adobe_k194
  · exact adobe_k195
  · exact adobe_k196
  · exact adobe_k197
  · exact adobe_k198
  · exact adobe_k199
  · exact adobe_k200
  · exact adobe_k201
  · exact adobe_k202
  · exact adobe_k203
  · exact adobe_k204
  · exact adobe_k205
  · exact adobe_k206
  · exact adobe_k207

end Prism.C01
