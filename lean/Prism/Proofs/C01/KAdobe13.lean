import Prism.Check.C01

/-! Kernel-checked chunks of the regenerated 16-bit decode table (generated boiler-plate). -/
namespace Prism.C01

theorem adobe_k208 : chunkOk16 .adobe 208 = true := by decide +kernel
theorem adobe_k209 : chunkOk16 .adobe 209 = true := by decide +kernel
theorem adobe_k210 : chunkOk16 .adobe 210 = true := by decide +kernel
theorem adobe_k211 : chunkOk16 .adobe 211 = true := by decide +kernel
theorem adobe_k212 : chunkOk16 .adobe 212 = true := by decide +kernel
theorem adobe_k213 : chunkOk16 .adobe 213 = true := by decide +kernel
theorem adobe_k214 : chunkOk16 .adobe 214 = true := by decide +kernel
theorem adobe_k215 : chunkOk16 .adobe 215 = true := by decide +kernel
theorem adobe_k216 : chunkOk16 .adobe 216 = true := by decide +kernel
theorem adobe_k217 : chunkOk16 .adobe 217 = true := by decide +kernel
theorem adobe_k218 : chunkOk16 .adobe 218 = true := by decide +kernel
theorem adobe_k219 : chunkOk16 .adobe 219 = true := by decide +kernel
theorem adobe_k220 : chunkOk16 .adobe 220 = true := by decide +kernel
theorem adobe_k221 : chunkOk16 .adobe 221 = true := by decide +kernel
theorem adobe_k222 : chunkOk16 .adobe 222 = true := by decide +kernel
theorem adobe_k223 : chunkOk16 .adobe 223 = true := by decide +kernel

theorem adobe_file13 : ∀ k, 208 ≤ k → k < 224 → chunkOk16 .adobe k = true := by
  intro k h1 h2
  have h : k = 208 ∨ k = 209 ∨ k = 210 ∨ k = 211 ∨ k = 212 ∨ k = 213 ∨ k = 214 ∨ k = 215 ∨ k = 216 ∨ k = 217 ∨ k = 218 ∨ k = 219 ∨ k = 220 ∨ k = 221 ∨ k = 222 ∨ k = 223 := by omega
  rcases h with rfl | rfl | rfl | rfl | rfl | rfl | rfl | rfl | rfl | rfl | rfl | rfl | rfl | rfl | rfl | rfl
  · exact adobe_k208
  · exact adobe_k209
  · exact adobe_k210
  · exact adobe_k211
  · exact adobe_k212
  · exact adobe_k213
  · exact adobe_k214
  · exact adobe_k215
  · exact adobe_k216
  · exact adobe_k217
  · exact adobe_k218
  · exact adobe_k219
  · exact adobe_k220
  · exact adobe_k221
  · exact adobe_k222
  · exact adobe_k223

end Prism.C01
