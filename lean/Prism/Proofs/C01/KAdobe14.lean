import Prism.Check.C01

/-! Kernel-checked chunks of the regenerated 16-bit decode table (generated boiler-plate). -/
namespace Prism.C01

theorem adobe_k224 : chunkOk16 .adobe 224 = true := by decide +kernel
theorem adobe_k225 : chunkOk16 .adobe 225 = true := by decide +kernel
theorem adobe_k226 : chunkOk16 .adobe 226 = true := by decide +kernel
theorem adobe_k227 : chunkOk16 .adobe 227 = true := by decide +kernel
theorem adobe_k228 : chunkOk16 .adobe 228 = true := by decide +kernel
theorem adobe_k229 : chunkOk16 .adobe 229 = true := by decide +kernel
theorem adobe_k230 : chunkOk16 .adobe 230 = true := by decide +kernel
theorem adobe_k231 : chunkOk16 .adobe 231 = true := by decide +kernel
theorem adobe_k232 : chunkOk16 .adobe 232 = true := by decide +kernel
theorem adobe_k233 : chunkOk16 .adobe 233 = true := by decide +kernel
theorem adobe_k234 : chunkOk16 .adobe 234 = true := by decide +kernel
theorem adobe_k235 : chunkOk16 .adobe 235 = true := by decide +kernel
theorem adobe_k236 : chunkOk16 .adobe 236 = true := by decide +kernel
theorem adobe_k237 : chunkOk16 .adobe 237 = true := by decide +kernel
theorem adobe_k238 : chunkOk16 .adobe 238 = true := by decide +kernel
theorem adobe_k239 : chunkOk16 .adobe 239 = true := by decide +kernel

theorem adobe_file14 : ∀ k, 224 ≤ k → k < 240 → chunkOk16 .adobe k = true := by
  intro k h1 h2
  have h : k = 224 ∨ k = 225 ∨ k = 226 ∨ k = 227 ∨ k = 228 ∨ k = 229 ∨ k = 230 ∨ k = 231 ∨ k = 232 ∨ k = 233 ∨ k = 234 ∨ k = 235 ∨ k = 236 ∨ k = 237 ∨ k = 238 ∨ k = 239 := by omega
  rcases h with rfl | rfl | rfl | rfl | rfl | rfl | rfl | rfl | rfl | rfl | rfl | rfl | rfl | rfl | rfl | rfl
  · exact adobe_k224
  · exact adobe_k225
  · exact adobe_k226
  · exact adobe_k227
  · exact adobe_k228
  · exact adobe_k229
  · exact adobe_k230
  · exact adobe_k231
  · exact adobe_k232
  · exact adobe_k233
  · exact adobe_k234
  · exact adobe_k235
  · exact adobe_k236
  · exact adobe_k237
  · exact adobe_k238
  · exact adobe_k239

end Prism.C01
