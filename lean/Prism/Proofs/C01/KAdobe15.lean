import Prism.Check.C01

/-! Kernel-checked chunks of the regenerated 16-bit decode table (generated boiler-plate). -/
namespace Prism.C01

theorem adobe_k240 : chunkOk16 .adobe 240 = true := by decide +kernel
theorem adobe_k241 : chunkOk16 .adobe 241 = true := by decide +kernel
theorem adobe_k242 : chunkOk16 .adobe 242 = true := by decide +kernel
theorem adobe_k243 : chunkOk16 .adobe 243 = true := by decide +kernel
theorem adobe_k244 : chunkOk16 .adobe 244 = true := by decide +kernel
theorem adobe_k245 : chunkOk16 .adobe 245 = true := by decide +kernel
theorem adobe_k246 : chunkOk16 .adobe 246 = true := by decide +kernel
theorem adobe_k247 : chunkOk16 .adobe 247 = true := by decide +kernel
theorem adobe_k248 : chunkOk16 .adobe 248 = true := by decide +kernel
theorem adobe_k249 : chunkOk16 .adobe 249 = true := by decide +kernel
theorem adobe_k250 : chunkOk16 .adobe 250 = true := by decide +kernel
theorem adobe_k251 : chunkOk16 .adobe 251 = true := by decide +kernel
theorem adobe_k252 : chunkOk16 .adobe 252 = true := by decide +kernel
theorem adobe_k253 : chunkOk16 .adobe 253 = true := by decide +kernel
theorem adobe_k254 : chunkOk16 .adobe 254 = true := by decide +kernel
theorem adobe_k255 : chunkOk16 .adobe 255 = true := by decide +kernel

theorem adobe_file15 : ∀ k, 240 ≤ k → k < 256 → chunkOk16 .adobe k = true := by
  intro k h1 h2
  have h : k = 240 ∨ k = 241 ∨ k = 242 ∨ k = 243 ∨ k = 244 ∨ k = 245 ∨ k = 246 ∨ k = 247 ∨ k = 248 ∨ k = 249 ∨ k = 250 ∨ k = 251 ∨ k = 252 ∨ k = 253 ∨ k = 254 ∨ k = 255 := by omega
  rcases h with rfl | rfl | rfl | rfl | rfl | rfl | rfl | rfl | rfl | rfl | rfl | rfl | rfl | rfl | rfl | rfl
  · exact adobe_k240
  · exact adobe_k241
  · exact adobe_k242
  · exact adobe_k243
  · exact adobe_k244
  · exact adobe_k245
  · exact adobe_k246
  · exact adobe_k247
  · exact adobe_k248
  · exact adobe_k249
  · exact adobe_k250
  · exact adobe_k251
  · exact adobe_k252
  · exact adobe_k253
  · exact adobe_k254
  · exact adobe_k255

end Prism.C01
