import Prism.Check.C01

/-! Kernel-checked chunks of the regenerated 16-bit decode table (generated boiler-plate). -/
namespace Prism.C01

theorem adobe_k32 : chunkOk16 .adobe 32 = true := by decide +kernel
theorem adobe_k33 : chunkOk16 .adobe 33 = true := by decide +kernel
theorem adobe_k34 : chunkOk16 .adobe 34 = true := by decide +kernel
theorem adobe_k35 : chunkOk16 .adobe 35 = true := by decide +kernel
theorem adobe_k36 : chunkOk16 .adobe 36 = true := by decide +kernel
theorem adobe_k37 : chunkOk16 .adobe 37 = true := by decide +kernel
theorem adobe_k38 : chunkOk16 .adobe 38 = true := by decide +kernel
theorem adobe_k39 : chunkOk16 .adobe 39 = true := by decide +kernel
theorem adobe_k40 : chunkOk16 .adobe 40 = true := by decide +kernel
theorem adobe_k41 : chunkOk16 .adobe 41 = true := by decide +kernel
theorem adobe_k42 : chunkOk16 .adobe 42 = true := by decide +kernel
theorem adobe_k43 : chunkOk16 .adobe 43 = true := by decide +kernel
theorem adobe_k44 : chunkOk16 .adobe 44 = true := by decide +kernel
theorem adobe_k45 : chunkOk16 .adobe 45 = true := by decide +kernel
theorem adobe_k46 : chunkOk16 .adobe 46 = true := by decide +kernel
theorem adobe_k47 : chunkOk16 .adobe 47 = true := by decide +kernel

theorem adobe_file2 : ∀ k, 32 ≤ k → k < 48 → chunkOk16 .adobe k = true := by
  intro k h1 h2
  have h : k = 32 ∨ k = 33 ∨ k = 34 ∨ k = 35 ∨ k = 36 ∨ k = 37 ∨ k = 38 ∨ k = 39 ∨ k = 40 ∨ k = 41 ∨ k = 42 ∨ k = 43 ∨ k = 44 ∨ k = 45 ∨ k = 46 ∨ k = 47 := by omega
  rcases h with rfl | rfl | rfl | rfl | rfl | rfl | rfl | rfl | rfl | rfl | rfl | rfl | rfl | rfl | rfl | rfl
  · exact adobe_k32
  · exact adobe_k33
  · exact adobe_k34
  · exact adobe_k35
  · exact adobe_k36
  · exact adobe_k37
  · exact adobe_k38
  · exact adobe_k39
  · exact adobe_k40
  · exact adobe_k41
  · exact adobe_k42
  · exact adobe_k43
  · exact adobe_k44
  · exact adobe_k45
  · exact adobe_k46
  · exact adobe_k47

end Prism.C01
