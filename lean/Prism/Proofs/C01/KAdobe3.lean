import Prism.Check.C01

/-! Kernel-checked chunks of the regenerated 16-bit decode table (generated boiler-plate). -/
namespace Prism.C01

theorem adobe_k48 : chunkOk16 .adobe 48 = true := by decide +kernel
theorem adobe_k49 : chunkOk16 .adobe 49 = true := by decide +kernel
theorem adobe_k50 : chunkOk16 .adobe 50 = true := by decide +kernel
theorem adobe_k51 : chunkOk16 .adobe 51 = true := by decide +kernel
theorem adobe_k52 : chunkOk16 .adobe 52 = true := by decide +kernel
theorem adobe_k53 : chunkOk16 .adobe 53 = true := by decide +kernel
theorem adobe_k54 : chunkOk16 .adobe 54 = true := by decide +kernel
theorem adobe_k55 : chunkOk16 .adobe 55 = true := by decide +kernel
theorem adobe_k56 : chunkOk16 .adobe 56 = true := by decide +kernel
theorem adobe_k57 : chunkOk16 .adobe 57 = true := by decide +kernel
theorem adobe_k58 : chunkOk16 .adobe 58 = true := by decide +kernel
theorem adobe_k59 : chunkOk16 .adobe 59 = true := by decide +kernel
theorem adobe_k60 : chunkOk16 .adobe 60 = true := by decide +kernel
theorem adobe_k61 : chunkOk16 .adobe 61 = true := by decide +kernel
theorem adobe_k62 : chunkOk16 .adobe 62 = true := by decide +kernel
theorem adobe_k63 : chunkOk16 .adobe 63 = true := by decide +kernel

theorem adobe_file3 : ∀ k, 48 ≤ k → k < 64 → chunkOk16 .adobe k = true := by
  intro k h1 h2
  have h : k = 48 ∨ k = 49 ∨ k = 50 ∨ k = 51 ∨ k = 52 ∨ k = 53 ∨ k = 54 ∨ k = 55 ∨ k = 56 ∨ k = 57 ∨ k = 58 ∨ k = 59 ∨ k = 60 ∨ k = 61 ∨ k = 62 ∨ k = 63 := by omega
  rcases h with rfl | rfl | rfl | rfl | rfl | rfl | rfl | rfl | rfl | rfl | rfl | rfl | rfl | rfl | rfl | rfl
  · exact adobe_k48
  · exact adobe_k49
  · exact adobe_k50
  · exact adobe_k51
  · exact adobe_k52
  · exact adobe_k53
  · exact adobe_k54
  · exact adobe_k55
  · exact adobe_k56
  · exact adobe_k57
  · exact adobe_k58
  · exact adobe_k59
  · exact adobe_k60
  · exact adobe_k61
  · exact adobe_k62
  · exact adobe_k63

end Prism.C01
