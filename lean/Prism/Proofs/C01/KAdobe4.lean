import Prism.Check.C01

/-! Kernel-checked chunks of the regenerated 16-bit decode table (generated boiler-plate). -/
namespace Prism.C01

theorem adobe_k64 : chunkOk16 .adobe 64 = true := by decide +kernel
theorem adobe_k65 : chunkOk16 .adobe 65 = true := by decide +kernel
theorem adobe_k66 : chunkOk16 .adobe 66 = true := by decide +kernel
theorem adobe_k67 : chunkOk16 .adobe 67 = true := by decide +kernel
theorem adobe_k68 : chunkOk16 .adobe 68 = true := by decide +kernel
theorem adobe_k69 : chunkOk16 .adobe 69 = true := by decide +kernel
theorem adobe_k70 : chunkOk16 .adobe 70 = true := by decide +kernel
theorem adobe_k71 : chunkOk16 .adobe 71 = true := by decide +kernel
theorem adobe_k72 : chunkOk16 .adobe 72 = true := by decide +kernel
theorem adobe_k73 : chunkOk16 .adobe 73 = true := by decide +kernel
theorem adobe_k74 : chunkOk16 .adobe 74 = true := by decide +kernel
theorem adobe_k75 : chunkOk16 .adobe 75 = true := by decide +kernel
theorem adobe_k76 : chunkOk16 .adobe 76 = true := by decide +kernel
theorem adobe_k77 : chunkOk16 .adobe 77 = true := by decide +kernel
theorem adobe_k78 : chunkOk16 .adobe 78 = true := by decide +kernel
theorem adobe_k79 : chunkOk16 .adobe 79 = true := by decide +kernel

theorem adobe_file4 : ∀ k, 64 ≤ k → k < 80 → chunkOk16 .adobe k = true := by
  intro k h1 h2
  have h : k = 64 ∨ k = 65 ∨ k = 66 ∨ k = 67 ∨ k = 68 ∨ k = 69 ∨ k = 70 ∨ k = 71 ∨ k = 72 ∨ k = 73 ∨ k = 74 ∨ k = 75 ∨ k = 76 ∨ k = 77 ∨ k = 78 ∨ k = 79 := by omega
  rcases h with rfl | rfl | rfl | rfl | rfl | rfl | rfl | rfl | rfl | rfl | rfl | rfl | rfl | rfl | rfl | rfl
  · exact adobe_k64
  · exact adobe_k65
  · exact adobe_k66
  · exact adobe_k67
  · exact adobe_k68
  · exact adobe_k69
  · exact adobe_k70
  · exact adobe_k71
  · exact adobe_k72
  · exact adobe_k73
  · exact adobe_k74
  · exact adobe_k75
  · exact adobe_k76
  · exact adobe_k77
  · exact adobe_k78
  · exact adobe_k79

end Prism.C01
