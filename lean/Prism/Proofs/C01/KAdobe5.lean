import Prism.Check.C01

/-! Kernel-checked chunks of the regenerated 16-bit decode table (generated boiler-plate). -/
namespace Prism.C01

theorem adobe_k80 : chunkOk16 .adobe 80 = true := by decide +kernel
theorem adobe_k81 : chunkOk16 .adobe 81 = true := by decide +kernel
theorem adobe_k82 : chunkOk16 .adobe 82 = true := by decide +kernel
theorem adobe_k83 : chunkOk16 .adobe 83 = true := by decide +kernel
theorem adobe_k84 : chunkOk16 .adobe 84 = true := by decide +kernel
theorem adobe_k85 : chunkOk16 .adobe 85 = true := by decide +kernel
theorem adobe_k86 : chunkOk16 .adobe 86 = true := by decide +kernel
theorem adobe_k87 : chunkOk16 .adobe 87 = true := by decide +kernel
theorem adobe_k88 : chunkOk16 .adobe 88 = true := by decide +kernel
theorem adobe_k89 : chunkOk16 .adobe 89 = true := by decide +kernel
theorem adobe_k90 : chunkOk16 .adobe 90 = true := by decide +kernel
theorem adobe_k91 : chunkOk16 .adobe 91 = true := by decide +kernel
theorem adobe_k92 : chunkOk16 .adobe 92 = true := by decide +kernel
theorem adobe_k93 : chunkOk16 .adobe 93 = true := by decide +kernel
theorem adobe_k94 : chunkOk16 .adobe 94 = true := by decide +kernel
theorem adobe_k95 : chunkOk16 .adobe 95 = true := by decide +kernel

theorem adobe_file5 : ∀ k, 80 ≤ k → k < 96 → chunkOk16 .adobe k = true := by
  intro k h1 h2
  have h : k = 80 ∨ k = 81 ∨ k = 82 ∨ k = 83 ∨ k = 84 ∨ k = 85 ∨ k = 86 ∨ k = 87 ∨ k = 88 ∨ k = 89 ∨ k = 90 ∨ k = 91 ∨ k = 92 ∨ k = 93 ∨ k = 94 ∨ k = 95 := by omega
  rcases h with rfl | rfl | rfl | rfl | rfl | rfl | rfl | rfl | rfl | rfl | rfl | rfl | rfl | rfl | rfl | rfl
  · exact adobe_k80
  · exact adobe_k81
  · exact adobe_k82
  · exact adobe_k83
  · exact adobe_k84
  · exact adobe_k85
  · exact adobe_k86
  · exact adobe_k87
  · exact adobe_k88
  · exact adobe_k89
  · exact adobe_k90
  · exact adobe_k91
  · exact adobe_k92
  · exact adobe_k93
  · exact adobe_k94
  · exact adobe_k95

end Prism.C01
