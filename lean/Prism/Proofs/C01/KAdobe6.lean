import Prism.Check.C01

/-! Kernel-checked chunks of the regenerated 16-bit decode table (generated boiler-plate). -/
namespace Prism.C01

theorem adobe_k96 : chunkOk16 .adobe 96 = true := by decide +kernel
theorem adobe_k97 : chunkOk16 .adobe 97 = true := by decide +kernel
theorem adobe_k98 : chunkOk16 .adobe 98 = true := by decide +kernel
theorem adobe_k99 : chunkOk16 .adobe 99 = true := by decide +kernel
theorem adobe_k100 : chunkOk16 .adobe 100 = true := by decide +kernel
theorem adobe_k101 : chunkOk16 .adobe 101 = true := by decide +kernel
theorem adobe_k102 : chunkOk16 .adobe 102 = true := by decide +kernel
theorem adobe_k103 : chunkOk16 .adobe 103 = true := by decide +kernel
theorem adobe_k104 : chunkOk16 .adobe 104 = true := by decide +kernel
theorem adobe_k105 : chunkOk16 .adobe 105 = true := by decide +kernel
theorem adobe_k106 : chunkOk16 .adobe 106 = true := by decide +kernel
theorem adobe_k107 : chunkOk16 .adobe 107 = true := by decide +kernel
theorem adobe_k108 : chunkOk16 .adobe 108 = true := by decide +kernel
theorem adobe_k109 : chunkOk16 .adobe 109 = true := by decide +kernel
theorem adobe_k110 : chunkOk16 .adobe 110 = true := by decide +kernel
theorem adobe_k111 : chunkOk16 .adobe 111 = true := by decide +kernel

theorem adobe_file6 : ∀ k, 96 ≤ k → k < 112 → chunkOk16 .adobe k = true := by
  intro k h1 h2
  have h : k = 96 ∨ k = 97 ∨ k = 98 ∨ k = 99 ∨ k = 100 ∨ k = 101 ∨ k = 102 ∨ k = 103 ∨ k = 104 ∨ k = 105 ∨ k = 106 ∨ k = 107 ∨ k = 108 ∨ k = 109 ∨ k = 110 ∨ k = 111 := by omega
  rcases h with rfl | rfl | rfl | rfl | rfl | rfl | rfl | rfl | rfl | rfl | rfl | rfl | rfl | rfl | rfl | rfl
  · exact adobe_k96
  · exact adobe_k97
  · exact adobe_k98
  · exact adobe_k99
  · exact adobe_k100
  · exact adobe_k101
  · exact adobe_k102
  · exact adobe_k103
  · exact adobe_k104
  · exact adobe_k105
  · exact adobe_k106
  · exact adobe_k107
  · exact adobe_k108
  · exact adobe_k109
  · exact adobe_k110
  · exact adobe_k111

end Prism.C01
