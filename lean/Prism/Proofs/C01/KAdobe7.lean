import Prism.Check.C01

/-! Kernel-checked chunks of the regenerated 16-bit decode table (generated boiler-plate). -/
namespace Prism.C01

theorem adobe_k112 : chunkOk16 .adobe 112 = true := by decide +kernel
theorem adobe_k113 : chunkOk16 .adobe 113 = true := by decide +kernel
theorem adobe_k114 : chunkOk16 .adobe 114 = true := by decide +kernel
theorem adobe_k115 : chunkOk16 .adobe 115 = true := by decide +kernel
theorem adobe_k116 : chunkOk16 .adobe 116 = true := by decide +kernel
theorem adobe_k117 : chunkOk16 .adobe 117 = true := by decide +kernel
theorem adobe_k118 : chunkOk16 .adobe 118 = true := by decide +kernel
theorem adobe_k119 : chunkOk16 .adobe 119 = true := by decide +kernel
theorem adobe_k120 : chunkOk16 .adobe 120 = true := by decide +kernel
theorem adobe_k121 : chunkOk16 .adobe 121 = true := by decide +kernel
theorem adobe_k122 : chunkOk16 .adobe 122 = true := by decide +kernel
theorem adobe_k123 : chunkOk16 .adobe 123 = true := by decide +kernel
theorem adobe_k124 : chunkOk16 .adobe 124 = true := by decide +kernel
theorem adobe_k125 : chunkOk16 .adobe 125 = true := by decide +kernel
theorem adobe_k126 : chunkOk16 .adobe 126 = true := by decide +kernel
theorem adobe_k127 : chunkOk16 .adobe 127 = true := by decide +kernel

theorem adobe_file7 : ∀ k, 112 ≤ k → k < 128 → chunkOk16 .adobe k = true := by
  intro k h1 h2
  have h : k = 112 ∨ k = 113 ∨ k = 114 ∨ k = 115 ∨ k = 116 ∨ k = 117 ∨ k = 118 ∨ k = 119 ∨ k = 120 ∨ k = 121 ∨ k = 122 ∨ k = 123 ∨ k = 124 ∨ k = 125 ∨ k = 126 ∨ k = 127 := by omega
  rcases h with rfl | rfl | rfl | rfl | rfl | rfl | rfl | rfl | rfl | rfl | rfl | rfl | rfl | rfl | rfl | rfl
  · exact adobe_k112
  · exact adobe_k113
  · exact adobe_k114
  · exact adobe_k115
  · exact adobe_k116
  · exact adobe_k117
  · exact adobe_k118
  · exact adobe_k119
  · exact adobe_k120
  · exact adobe_k121
  · exact adobe_k122
  · exact adobe_k123
  · exact adobe_k124
  · exact adobe_k125
  · exact adobe_k126
  · exact adobe_k127

end Prism.C01
