import Prism.Check.C01

/-! Kernel-checked chunks of the regenerated 16-bit decode table (generated boiler-plate). -/
namespace Prism.C01

theorem adobe_k128 : chunkOk16 .adobe 128 = true := by decide +kernel
theorem adobe_k129 : chunkOk16 .adobe 129 = true := by decide +kernel
theorem adobe_k130 : chunkOk16 .adobe 130 = true := by decide +kernel
theorem adobe_k131 : chunkOk16 .adobe 131 = true := by decide +kernel
theorem adobe_k132 : chunkOk16 .adobe 132 = true := by decide +kernel
theorem adobe_k133 : chunkOk16 .adobe 133 = true := by decide +kernel
theorem adobe_k134 : chunkOk16 .adobe 134 = true := by decide +kernel
theorem adobe_k135 : chunkOk16 .adobe 135 = true := by decide +kernel
theorem adobe_k136 : chunkOk16 .adobe 136 = true := by decide +kernel
theorem adobe_k137 : chunkOk16 .adobe 137 = true := by decide +kernel
theorem adobe_k138 : chunkOk16 .adobe 138 = true := by decide +kernel
theorem adobe_k139 : chunkOk16 .adobe 139 = true := by decide +kernel
theorem adobe_k140 : chunkOk16 .adobe 140 = true := by decide +kernel
theorem adobe_k141 : chunkOk16 .adobe 141 = true := by decide +kernel
theorem adobe_k142 : chunkOk16 .adobe 142 = true := by decide +kernel
theorem adobe_k143 : chunkOk16 .adobe 143 = true := by decide +kernel

theorem adobe_file8 : ∀ k, 128 ≤ k → k < 144 → chunkOk16 .adobe k = true := by
  intro k h1 h2
  have h : k = 128 ∨ k = 129 ∨ k = 130 ∨ k = 131 ∨ k = 132 ∨ k = 133 ∨ k = 134 ∨ k = 135 ∨ k = 136 ∨ k = 137 ∨ k = 138 ∨ k = 139 ∨ k = 140 ∨ k = 141 ∨ k = 142 ∨ k = 143 := by omega
  rcases h with rfl | rfl | rfl | rfl | rfl | rfl | rfl | rfl | rfl | rfl | rfl | rfl | rfl | rfl | rfl | rfl
  · exact adobe_k128
  · exact adobe_k129
  · exact adobe_k130
  · exact adobe_k131
  · exact adobe_k132
  · exact adobe_k133
  · exact adobe_k134
  · exact adobe_k135
  · exact adobe_k136
  · exact adobe_k137
  · exact adobe_k138
  · exact adobe_k139
  · exact adobe_k140
  · exact adobe_k141
  · exact adobe_k142
  · exact adobe_k143

end Prism.C01
