import Prism.Check.C01

/-! Kernel-checked chunks of the regenerated 16-bit decode table (generated boiler-plate). -/
namespace Prism.C01

theorem adobe_k144 : chunkOk16 .adobe 144 = true := by decide +kernel
theorem adobe_k145 : chunkOk16 .adobe 145 = true := by decide +kernel
theorem adobe_k146 : chunkOk16 .adobe 146 = true := by decide +kernel
theorem adobe_k147 : chunkOk16 .adobe 147 = true := by decide +kernel
theorem adobe_k148 : chunkOk16 .adobe 148 = true := by decide +kernel
theorem adobe_k149 : chunkOk16 .adobe 149 = true := by decide +kernel
theorem adobe_k150 : chunkOk16 .adobe 150 = true := by decide +kernel
theorem adobe_k151 : chunkOk16 .adobe 151 = true := by decide +kernel
theorem adobe_k152 : chunkOk16 .adobe 152 = true := by decide +kernel
theorem adobe_k153 : chunkOk16 .adobe 153 = true := by decide +kernel
theorem adobe_k154 : chunkOk16 .adobe 154 = true := by decide +kernel
theorem adobe_k155 : chunkOk16 .adobe 155 = true := by decide +kernel
theorem adobe_k156 : chunkOk16 .adobe 156 = true := by decide +kernel
theorem adobe_k157 : chunkOk16 .adobe 157 = true := by decide +kernel
theorem adobe_k158 : chunkOk16 .adobe 158 = true := by decide +kernel
theorem adobe_k159 : chunkOk16 .adobe 159 = true := by decide +kernel

theorem adobe_file9 : ∀ k, 144 ≤ k → k < 160 → chunkOk16 .adobe k = true := by
  intro k h1 h2
  have h : k = 144 ∨ k = 145 ∨ k = 146 ∨ k = 147 ∨ k = 148 ∨ k = 149 ∨ k = 150 ∨ k = 151 ∨ k = 152 ∨ k = 153 ∨ k = 154 ∨ k = 155 ∨ k = 156 ∨ k = 157 ∨ k = 158 ∨ k = 159 := by omega
  rcases h with rfl | rfl | rfl | rfl | rfl | rfl | rfl | rfl | rfl | rfl | rfl | rfl | rfl | rfl | rfl | rfl
  · exact adobe_k144
  · exact adobe_k145
  · exact adobe_k146
  · exact adobe_k147
  · exact adobe_k148
  · exact adobe_k149
  · exact adobe_k150
  · exact adobe_k151
  · exact adobe_k152
  · exact adobe_k153
  · exact adobe_k154
  · exact adobe_k155
  · exact adobe_k156
  · exact adobe_k157
  · exact adobe_k158
  · exact adobe_k159

end Prism.C01
