import Prism.Check.C01

/-! Kernel-checked chunks of the regenerated 16-bit decode table (generated boiler-plate). -/
namespace Prism.C01

theorem p3_k0 : chunkOk16 .p3 0 = true := by decide +kernel
theorem p3_k1 : chunkOk16 .p3 1 = true := by decide +kernel
theorem p3_k2 : chunkOk16 .p3 2 = true := by decide +kernel
theorem p3_k3 : chunkOk16 .p3 3 = true := by decide +kernel
theorem p3_k4 : chunkOk16 .p3 4 = true := by decide +kernel
theorem p3_k5 : chunkOk16 .p3 5 = true := by decide +kernel
theorem p3_k6 : chunkOk16 .p3 6 = true := by decide +kernel
theorem p3_k7 : chunkOk16 .p3 7 = true := by decide +kernel
theorem p3_k8 : chunkOk16 .p3 8 = true := by decide +kernel
theorem p3_k9 : chunkOk16 .p3 9 = true := by decide +kernel
theorem p3_k10 : chunkOk16 .p3 10 = true := by decide +kernel
theorem p3_k11 : chunkOk16 .p3 11 = true := by decide +kernel
theorem p3_k12 : chunkOk16 .p3 12 = true := by decide +kernel
theorem p3_k13 : chunkOk16 .p3 13 = true := by decide +kernel
theorem p3_k14 : chunkOk16 .p3 14 = true := by decide +kernel
theorem p3_k15 : chunkOk16 .p3 15 = true := by decide +kernel

theorem p3_file0 : ∀ k, 0 ≤ k → k < 16 → chunkOk16 .p3 k = true := by
  intro k h1 h2
  have h : k = 0 ∨ k = 1 ∨ k = 2 ∨ k = 3 ∨ k = 4 ∨ k = 5 ∨ k = 6 ∨ k = 7 ∨ k = 8 ∨ k = 9 ∨ k = 10 ∨ k = 11 ∨ k = 12 ∨ k = 13 ∨ k = 14 ∨ k = 15 := by omega
  rcases h with rfl | rfl | rfl | rfl | rfl | rfl | rfl | rfl | rfl | rfl | rfl | rfl | rfl | rfl | rfl | rfl
  · exact p3_k0
  · exact p3_k1
  · exact p3_k2
  · exact p3_k3
  · exact p3_k4
  · exact p3_k5
  · exact p3_k6
  · exact p3_k7
  · exact p3_k8
  · exact p3_k9
  · exact p3_k10
  · exact p3_k11
  · exact p3_k12
  · exact p3_k13
  · exact p3_k14
  · exact p3_k15

end Prism.C01
