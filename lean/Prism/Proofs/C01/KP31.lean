import Prism.Check.C01

/-! Kernel-checked chunks of the regenerated 16-bit decode table (generated boiler-plate). -/
namespace Prism.C01

theorem p3_k16 : chunkOk16 .p3 16 = true := by decide +kernel
theorem p3_k17 : chunkOk16 .p3 17 = true := by decide +kernel
theorem p3_k18 : chunkOk16 .p3 18 = true := by decide +kernel
theorem p3_k19 : chunkOk16 .p3 19 = true := by decide +kernel
theorem p3_k20 : chunkOk16 .p3 20 = true := by decide +kernel
theorem p3_k21 : chunkOk16 .p3 21 = true := by decide +kernel
theorem p3_k22 : chunkOk16 .p3 22 = true := by decide +kernel
theorem p3_k23 : chunkOk16 .p3 23 = true := by decide +kernel
theorem p3_k24 : chunkOk16 .p3 24 = true := by decide +kernel
theorem p3_k25 : chunkOk16 .p3 25 = true := by decide +kernel
theorem p3_k26 : chunkOk16 .p3 26 = true := by decide +kernel
theorem p3_k27 : chunkOk16 .p3 27 = true := by decide +kernel
theorem p3_k28 : chunkOk16 .p3 28 = true := by decide +kernel
theorem p3_k29 : chunkOk16 .p3 29 = true := by decide +kernel
theorem p3_k30 : chunkOk16 .p3 30 = true := by decide +kernel
theorem p3_k31 : chunkOk16 .p3 31 = true := by decide +kernel

theorem p3_file1 : ∀ k, 16 ≤ k → k < 32 → chunkOk16 .p3 k = true := by
  intro k h1 h2
  have h : k = 16 ∨ k = 17 ∨ k = 18 ∨ k = 19 ∨ k = 20 ∨ k = 21 ∨ k = 22 ∨ k = 23 ∨ k = 24 ∨ k = 25 ∨ k = 26 ∨ k = 27 ∨ k = 28 ∨ k = 29 ∨ k = 30 ∨ k = 31 := by omega
  rcases h with rfl | rfl | rfl | rfl | rfl | rfl | rfl | rfl | rfl | rfl | rfl | rfl | rfl | rfl | rfl | rfl
  · exact p3_k16
  · exact p3_k17
  · exact p3_k18
  · exact p3_k19
  · exact p3_k20
  · exact p3_k21
  · exact p3_k22
  · exact p3_k23
  · exact p3_k24
  · exact p3_k25
  · exact p3_k26
  · exact p3_k27
  · exact p3_k28
  · exact p3_k29
  · exact p3_k30
  · exact p3_k31

end Prism.C01
