import Prism.Check.C01

/-! Kernel-checked chunks of the regenerated 16-bit decode table (generated boiler-plate). -/
namespace Prism.C01

theorem p3_k160 : chunkOk16 .p3 160 = true := by decide +kernel
theorem p3_k161 : chunkOk16 .p3 161 = true := by decide +kernel
theorem p3_k162 : chunkOk16 .p3 162 = true := by decide +kernel
theorem p3_k163 : chunkOk16 .p3 163 = true := by decide +kernel
theorem p3_k164 : chunkOk16 .p3 164 = true := by decide +kernel
theorem p3_k165 : chunkOk16 .p3 165 = true := by decide +kernel
theorem p3_k166 : chunkOk16 .p3 166 = true := by decide +kernel
theorem p3_k167 : chunkOk16 .p3 167 = true := by decide +kernel
theorem p3_k168 : chunkOk16 .p3 168 = true := by decide +kernel
theorem p3_k169 : chunkOk16 .p3 169 = true := by decide +kernel
theorem p3_k170 : chunkOk16 .p3 170 = true := by decide +kernel
theorem p3_k171 : chunkOk16 .p3 171 = true := by decide +kernel
theorem p3_k172 : chunkOk16 .p3 172 = true := by decide +kernel
theorem p3_k173 : chunkOk16 .p3 173 = true := by decide +kernel
theorem p3_k174 : chunkOk16 .p3 174 = true := by decide +kernel
theorem p3_k175 : chunkOk16 .p3 175 = true := by decide +kernel

theorem p3_file10 : ∀ k, 160 ≤ k → k < 176 → chunkOk16 .p3 k = true := by
  intro k h1 h2
  have h : k = 160 ∨ k = 161 ∨ k = 162 ∨ k = 163 ∨ k = 164 ∨ k = 165 ∨ k = 166 ∨ k = 167 ∨ k = 168 ∨ k = 169 ∨ k = 170 ∨ k = 171 ∨ k = 172 ∨ k = 173 ∨ k = 174 ∨ k = 175 := by omega
  rcases h with rfl | rfl | rfl | rfl | rfl | rfl | rfl | rfl | rfl | rfl | rfl | rfl | rfl | rfl | rfl | rfl
  · exact p3_k160
  · exact p3_k161
  · exact p3_k162
  · exact p3_k163
  · exact p3_k164
  · exact p3_k165
  · exact p3_k166
  · exact p3_k167
  · exact p3_k168
  · exact p3_k169
  · exact p3_k170
  · exact p3_k171
  · exact p3_k172
  · exact p3_k173
  · exact p3_k174
  · exact p3_k175

end Prism.C01
