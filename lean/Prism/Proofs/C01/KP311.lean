import Prism.Check.C01

/-! Kernel-checked chunks of the regenerated 16-bit decode table (generated boiler-plate). -/
namespace Prism.C01

theorem p3_k176 : chunkOk16 .p3 176 = true := by decide +kernel
theorem p3_k177 : chunkOk16 .p3 177 = true := by decide +kernel
theorem p3_k178 : chunkOk16 .p3 178 = true := by decide +kernel
theorem p3_k179 : chunkOk16 .p3 179 = true := by decide +kernel
theorem p3_k180 : chunkOk16 .p3 180 = true := by decide +kernel
theorem p3_k181 : chunkOk16 .p3 181 = true := by decide +kernel
theorem p3_k182 : chunkOk16 .p3 182 = true := by decide +kernel
theorem p3_k183 : chunkOk16 .p3 183 = true := by decide +kernel
theorem p3_k184 : chunkOk16 .p3 184 = true := by decide +kernel
theorem p3_k185 : chunkOk16 .p3 185 = true := by decide +kernel
theorem p3_k186 : chunkOk16 .p3 186 = true := by decide +kernel
theorem p3_k187 : chunkOk16 .p3 187 = true := by decide +kernel
theorem p3_k188 : chunkOk16 .p3 188 = true := by decide +kernel
theorem p3_k189 : chunkOk16 .p3 189 = true := by decide +kernel
theorem p3_k190 : chunkOk16 .p3 190 = true := by decide +kernel
theorem p3_k191 : chunkOk16 .p3 191 = true := by decide +kernel

theorem p3_file11 : ∀ k, 176 ≤ k → k < 192 → chunkOk16 .p3 k = true := by
  intro k h1 h2
  have h : k = 176 ∨ k = 177 ∨ k = 178 ∨ k = 179 ∨ k = 180 ∨ k = 181 ∨ k = 182 ∨ k = 183 ∨ k = 184 ∨ k = 185 ∨ k = 186 ∨ k = 187 ∨ k = 188 ∨ k = 189 ∨ k = 190 ∨ k = 191 := by omega
  rcases h with rfl | rfl | rfl | rfl | rfl | rfl | rfl | rfl | rfl | rfl | rfl | rfl | rfl | rfl | rfl | rfl
  · exact p3_k176
  · exact p3_k177
  · exact p3_k178
  · exact p3_k179
  · exact p3_k180
  · exact p3_k181
  · exact p3_k182
  · exact p3_k183
  · exact p3_k184
  · exact p3_k185
  · exact p3_k186
  · exact p3_k187
  · exact p3_k188
  · exact p3_k189
  · exact p3_k190
  · exact p3_k191

end Prism.C01
