import Prism.Check.C01

/-! Kernel-checked chunks of the regenerated 16-bit decode table (generated boiler-plate). -/
namespace Prism.C01

theorem p3_k192 : chunkOk16 .p3 192 = true := by decide +kernel
theorem p3_k193 : chunkOk16 .p3 193 = true := by decide +kernel
theorem p3_k194 : chunkOk16 .p3 194 = true := by decide +kernel
theorem p3_k195 : chunkOk16 .p3 195 = true := by decide +kernel
theorem p3_k196 : chunkOk16 .p3 196 = true := by decide +kernel
theorem p3_k197 : chunkOk16 .p3 197 = true := by decide +kernel
theorem p3_k198 : chunkOk16 .p3 198 = true := by decide +kernel
theorem p3_k199 : chunkOk16 .p3 199 = true := by decide +kernel
theorem p3_k200 : chunkOk16 .p3 200 = true := by decide +kernel
theorem p3_k201 : chunkOk16 .p3 201 = true := by decide +kernel
theorem p3_k202 : chunkOk16 .p3 202 = true := by decide +kernel
theorem p3_k203 : chunkOk16 .p3 203 = true := by decide +kernel
theorem p3_k204 : chunkOk16 .p3 204 = true := by decide +kernel
theorem p3_k205 : chunkOk16 .p3 205 = true := by decide +kernel
theorem p3_k206 : chunkOk16 .p3 206 = true := by decide +kernel
theorem p3_k207 : chunkOk16 .p3 207 = true := by decide +kernel

theorem p3_file12 : ∀ k, 192 ≤ k → k < 208 → chunkOk16 .p3 k = true := by
  intro k h1 h2
  have h : k = 192 ∨ k = 193 ∨ k = 194 ∨ k = 195 ∨ k = 196 ∨ k = 197 ∨ k = 198 ∨ k = 199 ∨ k = 200 ∨ k = 201 ∨ k = 202 ∨ k = 203 ∨ k = 204 ∨ k = 205 ∨ k = 206 ∨ k = 207 := by omega
  rcases h with rfl | rfl | rfl | rfl | rfl | rfl | rfl | rfl | rfl | rfl | rfl | rfl | rfl | rfl | rfl | rfl
  · exact p3_k192
  · exact p3_k193
  · exact p3_k194
  · exact p3_k195
  · exact p3_k196
  · exact p3_k197
  · exact p3_k198
  · exact p3_k199
  · exact p3_k200
  · exact p3_k201
  · exact p3_k202
  · exact p3_k203
  · exact p3_k204
  · exact p3_k205
  · exact p3_k206
  · exact p3_k207

end Prism.C01
