import Prism.Check.C01

/-! Kernel-checked chunks of the regenerated 16-bit decode table (generated boiler-plate). -/
namespace Prism.C01

theorem p3_k208 : chunkOk16 .p3 208 = true := by decide +kernel
theorem p3_k209 : chunkOk16 .p3 209 = true := by decide +kernel
theorem p3_k210 : chunkOk16 .p3 210 = true := by decide +kernel
theorem p3_k211 : chunkOk16 .p3 211 = true := by decide +kernel
theorem p3_k212 : chunkOk16 .p3 212 = true := by decide +kernel
theorem p3_k213 : chunkOk16 .p3 213 = true := by decide +kernel
theorem p3_k214 : chunkOk16 .p3 214 = true := by decide +kernel
theorem p3_k215 : chunkOk16 .p3 215 = true := by decide +kernel
theorem p3_k216 : chunkOk16 .p3 216 = true := by decide +kernel
theorem p3_k217 : chunkOk16 .p3 217 = true := by decide +kernel
theorem p3_k218 : chunkOk16 .p3 218 = true := by decide +kernel
theorem p3_k219 : chunkOk16 .p3 219 = true := by decide +kernel
theorem p3_k220 : chunkOk16 .p3 220 = true := by decide +kernel
theorem p3_k221 : chunkOk16 .p3 221 = true := by decide +kernel
theorem p3_k222 : chunkOk16 .p3 222 = true := by decide +kernel
theorem p3_k223 : chunkOk16 .p3 223 = true := by decide +kernel

theorem p3_file13 : ∀ k, 208 ≤ k → k < 224 → chunkOk16 .p3 k = true := by
  intro k h1 h2
  have h : k = 208 ∨ k = 209 ∨ k = 210 ∨ k = 211 ∨ k = 212 ∨ k = 213 ∨ k = 214 ∨ k = 215 ∨ k = 216 ∨ k = 217 ∨ k = 218 ∨ k = 219 ∨ k = 220 ∨ k = 221 ∨ k = 222 ∨ k = 223 := by omega
  rcases h with rfl | rfl | rfl | rfl | rfl | rfl | rfl | rfl | rfl | rfl | rfl | rfl | rfl | rfl | rfl | rfl
  · exact p3_k208
  · exact p3_k209
  · exact p3_k210
  · exact p3_k211
  · exact p3_k212
  · exact p3_k213
  · exact p3_k214
  · exact p3_k215
  · exact p3_k216
  · exact p3_k217
  · exact p3_k218
  · exact p3_k219
  · exact p3_k220
  · exact p3_k221
  · exact p3_k222
  · exact p3_k223

end Prism.C01
