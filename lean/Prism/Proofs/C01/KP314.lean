import Prism.Check.C01

/-! Kernel-checked chunks of the regenerated 16-bit decode table (generated boiler-plate). -/
namespace Prism.C01

theorem p3_k224 : chunkOk16 .p3 224 = true := by decide +kernel
theorem p3_k225 : chunkOk16 .p3 225 = true := by decide +kernel
theorem p3_k226 : chunkOk16 .p3 226 = true := by decide +kernel
theorem p3_k227 : chunkOk16 .p3 227 = true := by decide +kernel
theorem p3_k228 : chunkOk16 .p3 228 = true := by decide +kernel
theorem p3_k229 : chunkOk16 .p3 229 = true := by decide +kernel
theorem p3_k230 : chunkOk16 .p3 230 = true := by decide +kernel
theorem p3_k231 : chunkOk16 .p3 231 = true := by decide +kernel
theorem p3_k232 : chunkOk16 .p3 232 = true := by decide +kernel
theorem p3_k233 : chunkOk16 .p3 233 = true := by decide +kernel
theorem p3_k234 : chunkOk16 .p3 234 = true := by decide +kernel
theorem p3_k235 : chunkOk16 .p3 235 = true := by decide +kernel
theorem p3_k236 : chunkOk16 .p3 236 = true := by decide +kernel
theorem p3_k237 : chunkOk16 .p3 237 = true := by decide +kernel
theorem p3_k238 : chunkOk16 .p3 238 = true := by decide +kernel
theorem p3_k239 : chunkOk16 .p3 239 = true := by decide +kernel

theorem p3_file14 : ∀ k, 224 ≤ k → k < 240 → chunkOk16 .p3 k = true := by
  intro k h1 h2
  have h : k = 224 ∨ k = 225 ∨ k = 226 ∨ k = 227 ∨ k = 228 ∨ k = 229 ∨ k = 230 ∨ k = 231 ∨ k = 232 ∨ k = 233 ∨ k = 234 ∨ k = 235 ∨ k = 236 ∨ k = 237 ∨ k = 238 ∨ k = 239 := by omega
  rcases h with rfl | rfl | rfl | rfl | rfl | rfl | rfl | rfl | rfl | rfl | rfl | rfl | rfl | rfl | rfl | rfl
  · exact p3_k224
  · exact p3_k225
  · exact p3_k226
  · exact p3_k227
  · exact p3_k228
  · exact p3_k229
  · exact p3_k230
  · exact p3_k231
  · exact p3_k232
  · exact p3_k233
  · exact p3_k234
  · exact p3_k235
  · exact p3_k236
  · exact p3_k237
  · exact p3_k238
  · exact p3_k239

end Prism.C01
