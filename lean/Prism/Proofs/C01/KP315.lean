import Prism.Check.C01

/-! Kernel-checked chunks of the regenerated 16-bit decode table (generated boiler-plate). -/
namespace Prism.C01

theorem p3_k240 : chunkOk16 .p3 240 = true := by decide +kernel
theorem p3_k241 : chunkOk16 .p3 241 = true := by decide +kernel
theorem p3_k242 : chunkOk16 .p3 242 = true := by decide +kernel
theorem p3_k243 : chunkOk16 .p3 243 = true := by decide +kernel
theorem p3_k244 : chunkOk16 .p3 244 = true := by decide +kernel
theorem p3_k245 : chunkOk16 .p3 245 = true := by decide +kernel
theorem p3_k246 : chunkOk16 .p3 246 = true := by decide +kernel
theorem p3_k247 : chunkOk16 .p3 247 = true := by decide +kernel
theorem p3_k248 : chunkOk16 .p3 248 = true := by decide +kernel
theorem p3_k249 : chunkOk16 .p3 249 = true := by decide +kernel
theorem p3_k250 : chunkOk16 .p3 250 = true := by decide +kernel
theorem p3_k251 : chunkOk16 .p3 251 = true := by decide +kernel
theorem p3_k252 : chunkOk16 .p3 252 = true := by decide +kernel
theorem p3_k253 : chunkOk16 .p3 253 = true := by decide +kernel
theorem p3_k254 : chunkOk16 .p3 254 = true := by decide +kernel
theorem p3_k255 : chunkOk16 .p3 255 = true := by decide +kernel

theorem p3_file15 : ∀ k, 240 ≤ k → k < 256 → chunkOk16 .p3 k = true := by
  intro k h1 h2
  have h : k = 240 ∨ k = 241 ∨ k = 242 ∨ k = 243 ∨ k = 244 ∨ k = 245 ∨ k = 246 ∨ k = 247 ∨ k = 248 ∨ k = 249 ∨ k = 250 ∨ k = 251 ∨ k = 252 ∨ k = 253 ∨ k = 254 ∨ k = 255 := by omega
  rcases h with rfl | rfl | rfl | rfl | rfl | rfl | rfl | rfl | rfl | rfl | rfl | rfl | rfl | rfl | rfl | rfl
  · exact p3_k240
  · exact p3_k241
  · exact p3_k242
  · exact p3_k243
  · exact p3_k244
  · exact p3_k245
  · exact p3_k246
  · exact p3_k247
  · exact p3_k248
  · exact p3_k249
  · exact p3_k250
  · exact p3_k251
  · exact p3_k252
  · exact p3_k253
  · exact p3_k254
  · exact p3_k255

end Prism.C01
