import Prism.Check.C01

/-! Kernel-checked chunks of the regenerated 16-bit decode table (generated boiler-plate). -/
namespace Prism.C01

theorem p3_k32 : chunkOk16 .p3 32 = true := by decide +kernel
theorem p3_k33 : chunkOk16 .p3 33 = true := by decide +kernel
theorem p3_k34 : chunkOk16 .p3 34 = true := by decide +kernel
theorem p3_k35 : chunkOk16 .p3 35 = true := by decide +kernel
theorem p3_k36 : chunkOk16 .p3 36 = true := by decide +kernel
theorem p3_k37 : chunkOk16 .p3 37 = true := by decide +kernel
theorem p3_k38 : chunkOk16 .p3 38 = true := by decide +kernel
theorem p3_k39 : chunkOk16 .p3 39 = true := by decide +kernel
theorem p3_k40 : chunkOk16 .p3 40 = true := by decide +kernel
theorem p3_k41 : chunkOk16 .p3 41 = true := by decide +kernel
theorem p3_k42 : chunkOk16 .p3 42 = true := by decide +kernel
theorem p3_k43 : chunkOk16 .p3 43 = true := by decide +kernel
theorem p3_k44 : chunkOk16 .p3 44 = true := by decide +kernel
theorem p3_k45 : chunkOk16 .p3 45 = true := by decide +kernel
theorem p3_k46 : chunkOk16 .p3 46 = true := by decide +kernel
theorem p3_k47 : chunkOk16 .p3 47 = true := by decide +kernel

theorem p3_file2 : ∀ k, 32 ≤ k → k < 48 → chunkOk16 .p3 k = true := by
  intro k h1 h2
  have h : k = 32 ∨ k = 33 ∨ k = 34 ∨ k = 35 ∨ k = 36 ∨ k = 37 ∨ k = 38 ∨ k = 39 ∨ k = 40 ∨ k = 41 ∨ k = 42 ∨ k = 43 ∨ k = 44 ∨ k = 45 ∨ k = 46 ∨ k = 47 := by omega
  rcases h with rfl | rfl | rfl | rfl | rfl | rfl | rfl | rfl | rfl | rfl | rfl | rfl | rfl | rfl | rfl | rfl
  · exact p3_k32
  · exact p3_k33
  · exact p3_k34
  · exact p3_k35
  · exact p3_k36
  · exact p3_k37
  · exact p3_k38
  · exact p3_k39
  · exact p3_k40
  · exact p3_k41
  · exact p3_k42
  · exact p3_k43
  · exact p3_k44
  · exact p3_k45
  · exact p3_k46
  · exact p3_k47

end Prism.C01
