import Prism.Check.C01

/-! Kernel-checked chunks of the regenerated 16-bit decode table (generated boiler-plate). -/
namespace Prism.C01

theorem p3_k48 : chunkOk16 .p3 48 = true := by decide +kernel
theorem p3_k49 : chunkOk16 .p3 49 = true := by decide +kernel
theorem p3_k50 : chunkOk16 .p3 50 = true := by decide +kernel
theorem p3_k51 : chunkOk16 .p3 51 = true := by decide +kernel
theorem p3_k52 : chunkOk16 .p3 52 = true := by decide +kernel
theorem p3_k53 : chunkOk16 .p3 53 = true := by decide +kernel
theorem p3_k54 : chunkOk16 .p3 54 = true := by decide +kernel
theorem p3_k55 : chunkOk16 .p3 55 = true := by decide +kernel
theorem p3_k56 : chunkOk16 .p3 56 = true := by decide +kernel
theorem p3_k57 : chunkOk16 .p3 57 = true := by decide +kernel
theorem p3_k58 : chunkOk16 .p3 58 = true := by decide +kernel
theorem p3_k59 : chunkOk16 .p3 59 = true := by decide +kernel
theorem p3_k60 : chunkOk16 .p3 60 = true := by decide +kernel
theorem p3_k61 : chunkOk16 .p3 61 = true := by decide +kernel
theorem p3_k62 : chunkOk16 .p3 62 = true := by decide +kernel
theorem p3_k63 : chunkOk16 .p3 63 = true := by decide +kernel

theorem p3_file3 : ∀ k, 48 ≤ k → k < 64 → chunkOk16 .p3 k = true := by
  intro k h1 h2
  have h : k = 48 ∨ k = 49 ∨ k = 50 ∨ k = 51 ∨ k = 52 ∨ k = 53 ∨ k = 54 ∨ k = 55 ∨ k = 56 ∨ k = 57 ∨ k = 58 ∨ k = 59 ∨ k = 60 ∨ k = 61 ∨ k = 62 ∨ k = 63 := by omega
  rcases h with rfl | rfl | rfl | rfl | rfl | rfl | rfl | rfl | rfl | rfl | rfl | rfl | rfl | rfl | rfl | rfl
  · exact p3_k48
  · exact p3_k49
  · exact p3_k50
  · exact p3_k51
  · exact p3_k52
  · exact p3_k53
  · exact p3_k54
  · exact p3_k55
  · exact p3_k56
  · exact p3_k57
  · exact p3_k58
  · exact p3_k59
  · exact p3_k60
  · exact p3_k61
  · exact p3_k62
  · exact p3_k63

end Prism.C01
