import Prism.Check.C01

/-! Kernel-checked chunks of the regenerated 16-bit decode table (generated boiler-plate). -/
namespace Prism.C01

theorem p3_k64 : chunkOk16 .p3 64 = true := by decide +kernel
theorem p3_k65 : chunkOk16 .p3 65 = true := by decide +kernel
theorem p3_k66 : chunkOk16 .p3 66 = true := by decide +kernel
theorem p3_k67 : chunkOk16 .p3 67 = true := by decide +kernel
theorem p3_k68 : chunkOk16 .p3 68 = true := by decide +kernel
theorem p3_k69 : chunkOk16 .p3 69 = true := by decide +kernel
theorem p3_k70 : chunkOk16 .p3 70 = true := by decide +kernel
theorem p3_k71 : chunkOk16 .p3 71 = true := by decide +kernel
theorem p3_k72 : chunkOk16 .p3 72 = true := by decide +kernel
theorem p3_k73 : chunkOk16 .p3 73 = true := by decide +kernel
theorem p3_k74 : chunkOk16 .p3 74 = true := by decide +kernel
theorem p3_k75 : chunkOk16 .p3 75 = true := by decide +kernel
theorem p3_k76 : chunkOk16 .p3 76 = true := by decide +kernel
theorem p3_k77 : chunkOk16 .p3 77 = true := by decide +kernel
theorem p3_k78 : chunkOk16 .p3 78 = true := by decide +kernel
theorem p3_k79 : chunkOk16 .p3 79 = true := by decide +kernel

theorem p3_file4 : ∀ k, 64 ≤ k → k < 80 → chunkOk16 .p3 k = true := by
  intro k h1 h2
  have h : k = 64 ∨ k = 65 ∨ k = 66 ∨ k = 67 ∨ k = 68 ∨ k = 69 ∨ k = 70 ∨ k = 71 ∨ k = 72 ∨ k = 73 ∨ k = 74 ∨ k = 75 ∨ k = 76 ∨ k = 77 ∨ k = 78 ∨ k = 79 := by omega
  rcases h with rfl | rfl | rfl | rfl | rfl | rfl | rfl | rfl | rfl | rfl | rfl | rfl | rfl | rfl | rfl | rfl
  · exact p3_k64
  · exact p3_k65
  · exact p3_k66
  · exact p3_k67
  · exact p3_k68
  · exact p3_k69
  · exact p3_k70
  · exact p3_k71
  · exact p3_k72
  · exact p3_k73
  · exact p3_k74
  · exact p3_k75
  · exact p3_k76
  · exact p3_k77
  · exact p3_k78
  · exact p3_k79

end Prism.C01
