import Prism.Check.C01

/-! Kernel-checked chunks of the regenerated 16-bit decode table (generated boiler-plate). -/
namespace Prism.C01

theorem p3_k80 : chunkOk16 .p3 80 = true := by decide +kernel
theorem p3_k81 : chunkOk16 .p3 81 = true := by decide +kernel
theorem p3_k82 : chunkOk16 .p3 82 = true := by decide +kernel
theorem p3_k83 : chunkOk16 .p3 83 = true := by decide +kernel
theorem p3_k84 : chunkOk16 .p3 84 = true := by decide +kernel
theorem p3_k85 : chunkOk16 .p3 85 = true := by decide +kernel
theorem p3_k86 : chunkOk16 .p3 86 = true := by decide +kernel
theorem p3_k87 : chunkOk16 .p3 87 = true := by decide +kernel
theorem p3_k88 : chunkOk16 .p3 88 = true := by decide +kernel
theorem p3_k89 : chunkOk16 .p3 89 = true := by decide +kernel
theorem p3_k90 : chunkOk16 .p3 90 = true := by decide +kernel
theorem p3_k91 : chunkOk16 .p3 91 = true := by decide +kernel
theorem p3_k92 : chunkOk16 .p3 92 = true := by decide +kernel
theorem p3_k93 : chunkOk16 .p3 93 = true := by decide +kernel
theorem p3_k94 : chunkOk16 .p3 94 = true := by decide +kernel
theorem p3_k95 : chunkOk16 .p3 95 = true := by decide +kernel

theorem p3_file5 : ∀ k, 80 ≤ k → k < 96 → chunkOk16 .p3 k = true := by
  intro k h1 h2
  have h : k = 80 ∨ k = 81 ∨ k = 82 ∨ k = 83 ∨ k = 84 ∨ k = 85 ∨ k = 86 ∨ k = 87 ∨ k = 88 ∨ k = 89 ∨ k = 90 ∨ k = 91 ∨ k = 92 ∨ k = 93 ∨ k = 94 ∨ k = 95 := by omega
  rcases h with rfl | rfl | rfl | rfl | rfl | rfl | rfl | rfl | rfl | rfl | rfl | rfl | rfl | rfl | rfl | rfl
  · exact p3_k80
  · exact p3_k81
  · exact p3_k82
  · exact p3_k83
  · exact p3_k84
  · exact p3_k85
  · exact p3_k86
  · exact p3_k87
  · exact p3_k88
  · exact p3_k89
  · exact p3_k90
  · exact p3_k91
  · exact p3_k92
  · exact p3_k93
  · exact p3_k94
  · exact p3_k95

end Prism.C01
