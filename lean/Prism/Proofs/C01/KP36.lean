import Prism.Check.C01

/-! Kernel-checked chunks of the regenerated 16-bit decode table (generated boiler-plate). -/
namespace Prism.C01

theorem p3_k96 : chunkOk16 .p3 96 = true := by decide +kernel
theorem p3_k97 : chunkOk16 .p3 97 = true := by decide +kernel
theorem p3_k98 : chunkOk16 .p3 98 = true := by decide +kernel
theorem p3_k99 : chunkOk16 .p3 99 = true := by decide +kernel
theorem p3_k100 : chunkOk16 .p3 100 = true := by decide +kernel
theorem p3_k101 : chunkOk16 .p3 101 = true := by decide +kernel
theorem p3_k102 : chunkOk16 .p3 102 = true := by decide +kernel
theorem p3_k103 : chunkOk16 .p3 103 = true := by decide +kernel
theorem p3_k104 : chunkOk16 .p3 104 = true := by decide +kernel
theorem p3_k105 : chunkOk16 .p3 105 = true := by decide +kernel
theorem p3_k106 : chunkOk16 .p3 106 = true := by decide +kernel
theorem p3_k107 : chunkOk16 .p3 107 = true := by decide +kernel
theorem p3_k108 : chunkOk16 .p3 108 = true := by decide +kernel
theorem p3_k109 : chunkOk16 .p3 109 = true := by decide +kernel
theorem p3_k110 : chunkOk16 .p3 110 = true := by decide +kernel
theorem p3_k111 : chunkOk16 .p3 111 = true := by decide +kernel

theorem p3_file6 : ∀ k, 96 ≤ k → k < 112 → chunkOk16 .p3 k = true := by
  intro k h1 h2
  have h : k = 96 ∨ k = 97 ∨ k = 98 ∨ k = 99 ∨ k = 100 ∨ k = 101 ∨ k = 102 ∨ k = 103 ∨ k = 104 ∨ k = 105 ∨ k = 106 ∨ k = 107 ∨ k = 108 ∨ k = 109 ∨ k = 110 ∨ k = 111 := by omega
  rcases h with rfl | rfl | rfl | rfl | rfl | rfl | rfl | rfl | rfl | rfl | rfl | rfl | rfl | rfl | rfl | rfl
  · exact p3_k96
  · exact p3_k97
  · exact p3_k98
  · exact p3_k99
  · exact p3_k100
  · exact p3_k101
  · exact p3_k102
  · exact p3_k103
  · exact p3_k104
  · exact p3_k105
  · exact p3_k106
  · exact p3_k107
  · exact p3_k108
  · exact p3_k109
  · exact p3_k110
  · exact p3_k111

end Prism.C01
