import Prism.Check.C01

/-! Kernel-checked chunks of the regenerated 16-bit decode table (generated boiler-plate). -/
namespace Prism.C01

theorem p3_k112 : chunkOk16 .p3 112 = true := by decide +kernel
theorem p3_k113 : chunkOk16 .p3 113 = true := by decide +kernel
theorem p3_k114 : chunkOk16 .p3 114 = true := by decide +kernel
theorem p3_k115 : chunkOk16 .p3 115 = true := by decide +kernel
theorem p3_k116 : chunkOk16 .p3 116 = true := by decide +kernel
theorem p3_k117 : chunkOk16 .p3 117 = true := by decide +kernel
theorem p3_k118 : chunkOk16 .p3 118 = true := by decide +kernel
theorem p3_k119 : chunkOk16 .p3 119 = true := by decide +kernel
theorem p3_k120 : chunkOk16 .p3 120 = true := by decide +kernel
theorem p3_k121 : chunkOk16 .p3 121 = true := by decide +kernel
theorem p3_k122 : chunkOk16 .p3 122 = true := by decide +kernel
theorem p3_k123 : chunkOk16 .p3 123 = true := by decide +kernel
theorem p3_k124 : chunkOk16 .p3 124 = true := by decide +kernel
theorem p3_k125 : chunkOk16 .p3 125 = true := by decide +kernel
theorem p3_k126 : chunkOk16 .p3 126 = true := by decide +kernel
theorem p3_k127 : chunkOk16 .p3 127 = true := by decide +kernel

theorem p3_file7 : ∀ k, 112 ≤ k → k < 128 → chunkOk16 .p3 k = true := by
  intro k h1 h2
  have h : k = 112 ∨ k = 113 ∨ k = 114 ∨ k = 115 ∨ k = 116 ∨ k = 117 ∨ k = 118 ∨ k = 119 ∨ k = 120 ∨ k = 121 ∨ k = 122 ∨ k = 123 ∨ k = 124 ∨ k = 125 ∨ k = 126 ∨ k = 127 := by omega
  rcases h with rfl | rfl | rfl | rfl | rfl | rfl | rfl | rfl | rfl | rfl | rfl | rfl | rfl | rfl | rfl | rfl
  · exact p3_k112
  · exact p3_k113
  · exact p3_k114
  · exact p3_k115
  · exact p3_k116
  · exact p3_k117
  · exact p3_k118
  · exact p3_k119
  · exact p3_k120
  · exact p3_k121
  · exact p3_k122
  · exact p3_k123
  · exact p3_k124
  · exact p3_k125
  · exact p3_k126
  · exact p3_k127

end Prism.C01
