import Prism.Check.C01

/-! Kernel-checked chunks of the regenerated 16-bit decode table (generated boiler-plate). -/
namespace Prism.C01

theorem p3_k128 : chunkOk16 .p3 128 = true := by decide +kernel
theorem p3_k129 : chunkOk16 .p3 129 = true := by decide +kernel
theorem p3_k130 : chunkOk16 .p3 130 = true := by decide +kernel
theorem p3_k131 : chunkOk16 .p3 131 = true := by decide +kernel
theorem p3_k132 : chunkOk16 .p3 132 = true := by decide +kernel
theorem p3_k133 : chunkOk16 .p3 133 = true := by decide +kernel
theorem p3_k134 : chunkOk16 .p3 134 = true := by decide +kernel
theorem p3_k135 : chunkOk16 .p3 135 = true := by decide +kernel
theorem p3_k136 : chunkOk16 .p3 136 = true := by decide +kernel
theorem p3_k137 : chunkOk16 .p3 137 = true := by decide +kernel
theorem p3_k138 : chunkOk16 .p3 138 = true := by decide +kernel
theorem p3_k139 : chunkOk16 .p3 139 = true := by decide +kernel
theorem p3_k140 : chunkOk16 .p3 140 = true := by decide +kernel
theorem p3_k141 : chunkOk16 .p3 141 = true := by decide +kernel
theorem p3_k142 : chunkOk16 .p3 142 = true := by decide +kernel
theorem p3_k143 : chunkOk16 .p3 143 = true := by decide +kernel

theorem p3_file8 : ∀ k, 128 ≤ k → k < 144 → chunkOk16 .p3 k = true := by
  intro k h1 h2
  have h : k = 128 ∨ k = 129 ∨ k = 130 ∨ k = 131 ∨ k = 132 ∨ k = 133 ∨ k = 134 ∨ k = 135 ∨ k = 136 ∨ k = 137 ∨ k = 138 ∨ k = 139 ∨ k = 140 ∨ k = 141 ∨ k = 142 ∨ k = 143 := by omega
  rcases h with rfl | rfl | rfl | rfl | rfl | rfl | rfl | rfl | rfl | rfl | rfl | rfl | rfl | rfl | rfl | rfl
  · exact p3_k128
  · exact p3_k129
  · exact p3_k130
  · exact p3_k131
  · exact p3_k132
  · exact p3_k133
  · exact p3_k134
  · exact p3_k135
  · exact p3_k136
  · exact p3_k137
  · exact p3_k138
  · exact p3_k139
  · exact p3_k140
  · exact p3_k141
  · exact p3_k142
  · exact p3_k143

end Prism.C01
