import Prism.Check.C01

/-! Kernel-checked chunks of the regenerated 16-bit decode table (generated boiler-plate). -/
namespace Prism.C01

theorem p3_k144 : chunkOk16 .p3 144 = true := by decide +kernel
theorem p3_k145 : chunkOk16 .p3 145 = true := by decide +kernel
theorem p3_k146 : chunkOk16 .p3 146 = true := by decide +kernel
theorem p3_k147 : chunkOk16 .p3 147 = true := by decide +kernel
theorem p3_k148 : chunkOk16 .p3 148 = true := by decide +kernel
theorem p3_k149 : chunkOk16 .p3 149 = true := by decide +kernel
theorem p3_k150 : chunkOk16 .p3 150 = true := by decide +kernel
theorem p3_k151 : chunkOk16 .p3 151 = true := by decide +kernel
theorem p3_k152 : chunkOk16 .p3 152 = true := by decide +kernel
theorem p3_k153 : chunkOk16 .p3 153 = true := by decide +kernel
theorem p3_k154 : chunkOk16 .p3 154 = true := by decide +kernel
theorem p3_k155 : chunkOk16 .p3 155 = true := by decide +kernel
theorem p3_k156 : chunkOk16 .p3 156 = true := by decide +kernel
theorem p3_k157 : chunkOk16 .p3 157 = true := by decide +kernel
theorem p3_k158 : chunkOk16 .p3 158 = true := by decide +kernel
theorem p3_k159 : chunkOk16 .p3 159 = true := by decide +kernel

theorem p3_file9 : ∀ k, 144 ≤ k → k < 160 → chunkOk16 .p3 k = true := by
  intro k h1 h2
  have h : k = 144 ∨ k = 145 ∨ k = 146 ∨ k = 147 ∨ k = 148 ∨ k = 149 ∨ k = 150 ∨ k = 151 ∨ k = 152 ∨ k = 153 ∨ k = 154 ∨ k = 155 ∨ k = 156 ∨ k = 157 ∨ k = 158 ∨ k = 159 := by omega
  rcases h with rfl | rfl | rfl | rfl | rfl | rfl | rfl | rfl | rfl | rfl | rfl | rfl | rfl | rfl | rfl | rfl
  · exact p3_k144
  · exact p3_k145
  · exact p3_k146
  · exact p3_k147
  · exact p3_k148
  · exact p3_k149
  · exact p3_k150
  · exact p3_k151
  · exact p3_k152
  · exact p3_k153
  · exact p3_k154
  · exact p3_k155
  · exact p3_k156
  · exact p3_k157
  · exact p3_k158
  · exact p3_k159

end Prism.C01
