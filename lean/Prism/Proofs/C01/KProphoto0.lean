import Prism.Check.C01

/-! Kernel-checked chunks of the regenerated 16-bit decode table (generated boiler-plate). -/
namespace Prism.C01

theorem prophoto_k0 : chunkOk16 .prophoto 0 = true := by decide +kernel
theorem prophoto_k1 : chunkOk16 .prophoto 1 = true := by decide +kernel
theorem prophoto_k2 : chunkOk16 .prophoto 2 = true := by decide +kernel
theorem prophoto_k3 : chunkOk16 .prophoto 3 = true := by decide +kernel
theorem prophoto_k4 : chunkOk16 .prophoto 4 = true := by decide +kernel
theorem prophoto_k5 : chunkOk16 .prophoto 5 = true := by decide +kernel
theorem prophoto_k6 : chunkOk16 .prophoto 6 = true := by decide +kernel
theorem prophoto_k7 : chunkOk16 .prophoto 7 = true := by decide +kernel
theorem prophoto_k8 : chunkOk16 .prophoto 8 = true := by decide +kernel
theorem prophoto_k9 : chunkOk16 .prophoto 9 = true := by decide +kernel
theorem prophoto_k10 : chunkOk16 .prophoto 10 = true := by decide +kernel
theorem prophoto_k11 : chunkOk16 .prophoto 11 = true := by decide +kernel
theorem prophoto_k12 : chunkOk16 .prophoto 12 = true := by decide +kernel
theorem prophoto_k13 : chunkOk16 .prophoto 13 = true := by decide +kernel
theorem prophoto_k14 : chunkOk16 .prophoto 14 = true := by decide +kernel
theorem prophoto_k15 : chunkOk16 .prophoto 15 = true := by decide +kernel

theorem prophoto_file0 : ∀ k, 0 ≤ k → k < 16 → chunkOk16 .prophoto k = true := by
  intro k h1 h2
  have h : k = 0 ∨ k = 1 ∨ k = 2 ∨ k = 3 ∨ k = 4 ∨ k = 5 ∨ k = 6 ∨ k = 7 ∨ k = 8 ∨ k = 9 ∨ k = 10 ∨ k = 11 ∨ k = 12 ∨ k = 13 ∨ k = 14 ∨ k = 15 := by omega
  rcases h with rfl | rfl | rfl | rfl | rfl | rfl | rfl | rfl | rfl | rfl | rfl | rfl | rfl | rfl | rfl | rfl
  · exact prophoto_k0
  · exact prophoto_k1
  · exact prophoto_k2
  · exact prophoto_k3
  · exact prophoto_k4
  · exact prophoto_k5
  · exact prophoto_k6
  · exact prophoto_k7
  · exact prophoto_k8
  · exact prophoto_k9
  · exact prophoto_k10
  · exact prophoto_k11
  · exact prophoto_k12
  · exact prophoto_k13
  · exact prophoto_k14
  · exact prophoto_k15

end Prism.C01
