import Prism.Check.C01

/-! Kernel-checked chunks of the regenerated 16-bit decode table (generated boiler-plate). -/
namespace Prism.C01

theorem prophoto_k16 : chunkOk16 .prophoto 16 = true := by decide +kernel
theorem prophoto_k17 : chunkOk16 .prophoto 17 = true := by decide +kernel
theorem prophoto_k18 : chunkOk16 .prophoto 18 = true := by decide +kernel
theorem prophoto_k19 : chunkOk16 .prophoto 19 = true := by decide +kernel
theorem prophoto_k20 : chunkOk16 .prophoto 20 = true := by decide +kernel
theorem prophoto_k21 : chunkOk16 .prophoto 21 = true := by decide +kernel
theorem prophoto_k22 : chunkOk16 .prophoto 22 = true := by decide +kernel
theorem prophoto_k23 : chunkOk16 .prophoto 23 = true := by decide +kernel
theorem prophoto_k24 : chunkOk16 .prophoto 24 = true := by decide +kernel
theorem prophoto_k25 : chunkOk16 .prophoto 25 = true := by decide +kernel
theorem prophoto_k26 : chunkOk16 .prophoto 26 = true := by decide +kernel
theorem prophoto_k27 : chunkOk16 .prophoto 27 = true := by decide +kernel
theorem prophoto_k28 : chunkOk16 .prophoto 28 = true := by decide +kernel
theorem prophoto_k29 : chunkOk16 .prophoto 29 = true := by decide +kernel
theorem prophoto_k30 : chunkOk16 .prophoto 30 = true := by decide +kernel
theorem prophoto_k31 : chunkOk16 .prophoto 31 = true := by decide +kernel

theorem prophoto_file1 : ∀ k, 16 ≤ k → k < 32 → chunkOk16 .prophoto k = true := by
  intro k h1 h2
  have h : k = 16 ∨ k = 17 ∨ k = 18 ∨ k = 19 ∨ k = 20 ∨ k = 21 ∨ k = 22 ∨ k = 23 ∨ k = 24 ∨ k = 25 ∨ k = 26 ∨ k = 27 ∨ k = 28 ∨ k = 29 ∨ k = 30 ∨ k = 31 := by omega
  rcases h with rfl | rfl | rfl | rfl | rfl | rfl | rfl | rfl | rfl | rfl | rfl | rfl | rfl | rfl | rfl | rfl
  · exact prophoto_k16
  · exact prophoto_k17
  · exact prophoto_k18
  · exact prophoto_k19
  · exact prophoto_k20
  · exact prophoto_k21
  · exact prophoto_k22
  · exact prophoto_k23
  · exact prophoto_k24
  · exact prophoto_k25
  · exact prophoto_k26
  · exact prophoto_k27
  · exact prophoto_k28
  · exact prophoto_k29
  · exact prophoto_k30
  · exact prophoto_k31

end Prism.C01
