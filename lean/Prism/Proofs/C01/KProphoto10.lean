import Prism.Check.C01

/-! Kernel-checked chunks of the regenerated 16-bit decode table (generated boiler-plate). -/
namespace Prism.C01

theorem prophoto_k160 : chunkOk16 .prophoto 160 = true := by decide +kernel
theorem prophoto_k161 : chunkOk16 .prophoto 161 = true := by decide +kernel
theorem prophoto_k162 : chunkOk16 .prophoto 162 = true := by decide +kernel
theorem prophoto_k163 : chunkOk16 .prophoto 163 = true := by decide +kernel
theorem prophoto_k164 : chunkOk16 .prophoto 164 = true := by decide +kernel
theorem prophoto_k165 : chunkOk16 .prophoto 165 = true := by decide +kernel
theorem prophoto_k166 : chunkOk16 .prophoto 166 = true := by decide +kernel
theorem prophoto_k167 : chunkOk16 .prophoto 167 = true := by decide +kernel
theorem prophoto_k168 : chunkOk16 .prophoto 168 = true := by decide +kernel
theorem prophoto_k169 : chunkOk16 .prophoto 169 = true := by decide +kernel
theorem prophoto_k170 : chunkOk16 .prophoto 170 = true := by decide +kernel
theorem prophoto_k171 : chunkOk16 .prophoto 171 = true := by decide +kernel
theorem prophoto_k172 : chunkOk16 .prophoto 172 = true := by decide +kernel
theorem prophoto_k173 : chunkOk16 .prophoto 173 = true := by decide +kernel
theorem prophoto_k174 : chunkOk16 .prophoto 174 = true := by decide +kernel
theorem prophoto_k175 : chunkOk16 .prophoto 175 = true := by decide +kernel

theorem prophoto_file10 : ∀ k, 160 ≤ k → k < 176 → chunkOk16 .prophoto k = true := by
  intro k h1 h2
  have h : k = 160 ∨ k = 161 ∨ k = 162 ∨ k = 163 ∨ k = 164 ∨ k = 165 ∨ k = 166 ∨ k = 167 ∨ k = 168 ∨ k = 169 ∨ k = 170 ∨ k = 171 ∨ k = 172 ∨ k = 173 ∨ k = 174 ∨ k = 175 := by omega
  rcases h with rfl | rfl | rfl | rfl | rfl | rfl | rfl | rfl | rfl | rfl | rfl | rfl | rfl | rfl | rfl | rfl
  · exact prophoto_k160
  · exact prophoto_k161
  · exact prophoto_k162
  · exact prophoto_k163
  · exact prophoto_k164
  · exact prophoto_k165
  · exact prophoto_k166
  · exact prophoto_k167
  · exact prophoto_k168
  · exact prophoto_k169
  · exact prophoto_k170
  · exact prophoto_k171
  · exact prophoto_k172
  · exact prophoto_k173
  · exact prophoto_k174
  · exact prophoto_k175

end Prism.C01
