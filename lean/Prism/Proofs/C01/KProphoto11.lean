import Prism.Check.C01

/-! Kernel-checked chunks of the regenerated 16-bit decode table (generated boiler-plate). -/
namespace Prism.C01

theorem prophoto_k176 : chunkOk16 .prophoto 176 = true := by decide +kernel
theorem prophoto_k177 : chunkOk16 .prophoto 177 = true := by decide +kernel
theorem prophoto_k178 : chunkOk16 .prophoto 178 = true := by decide +kernel
theorem prophoto_k179 : chunkOk16 .prophoto 179 = true := by decide +kernel
theorem prophoto_k180 : chunkOk16 .prophoto 180 = true := by decide +kernel
theorem prophoto_k181 : chunkOk16 .prophoto 181 = true := by decide +kernel
theorem prophoto_k182 : chunkOk16 .prophoto 182 = true := by decide +kernel
theorem prophoto_k183 : chunkOk16 .prophoto 183 = true := by decide +kernel
theorem prophoto_k184 : chunkOk16 .prophoto 184 = true := by decide +kernel
theorem prophoto_k185 : chunkOk16 .prophoto 185 = true := by decide +kernel
theorem prophoto_k186 : chunkOk16 .prophoto 186 = true := by decide +kernel
theorem prophoto_k187 : chunkOk16 .prophoto 187 = true := by decide +kernel
theorem prophoto_k188 : chunkOk16 .prophoto 188 = true := by decide +kernel
theorem prophoto_k189 : chunkOk16 .prophoto 189 = true := by decide +kernel
theorem prophoto_k190 : chunkOk16 .prophoto 190 = true := by decide +kernel
theorem prophoto_k191 : chunkOk16 .prophoto 191 = true := by decide +kernel

theorem prophoto_file11 : ∀ k, 176 ≤ k → k < 192 → chunkOk16 .prophoto k = true := by
  intro k h1 h2
  have h : k = 176 ∨ k = 177 ∨ k = 178 ∨ k = 179 ∨ k = 180 ∨ k = 181 ∨ k = 182 ∨ k = 183 ∨ k = 184 ∨ k = 185 ∨ k = 186 ∨ k = 187 ∨ k = 188 ∨ k = 189 ∨ k = 190 ∨ k = 191 := by omega
  rcases h with rfl | rfl | rfl | rfl | rfl | rfl | rfl | rfl | rfl | rfl | rfl | rfl | rfl | rfl | rfl | rfl
  · exact prophoto_k176
  · exact prophoto_k177
  · exact prophoto_k178
  · exact prophoto_k179
  · exact prophoto_k180
  · exact prophoto_k181
  · exact prophoto_k182
  · exact prophoto_k183
  · exact prophoto_k184
  · exact prophoto_k185
  · exact prophoto_k186
  · exact prophoto_k187
  · exact prophoto_k188
  · exact prophoto_k189
  · exact prophoto_k190
  · exact prophoto_k191

end Prism.C01
