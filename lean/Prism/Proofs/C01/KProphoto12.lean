import Prism.Check.C01

/-! Kernel-checked chunks of the regenerated 16-bit decode table (generated boiler-plate). -/
namespace Prism.C01

theorem prophoto_k192 : chunkOk16 .prophoto 192 = true := by decide +kernel
theorem prophoto_k193 : chunkOk16 .prophoto 193 = true := by decide +kernel
theorem prophoto_k194 : chunkOk16 .prophoto 194 = true := by decide +kernel
theorem prophoto_k195 : chunkOk16 .prophoto 195 = true := by decide +kernel
theorem prophoto_k196 : chunkOk16 .prophoto 196 = true := by decide +kernel
theorem prophoto_k197 : chunkOk16 .prophoto 197 = true := by decide +kernel
theorem prophoto_k198 : chunkOk16 .prophoto 198 = true := by decide +kernel
theorem prophoto_k199 : chunkOk16 .prophoto 199 = true := by decide +kernel
theorem prophoto_k200 : chunkOk16 .prophoto 200 = true := by decide +kernel
theorem prophoto_k201 : chunkOk16 .prophoto 201 = true := by decide +kernel
theorem prophoto_k202 : chunkOk16 .prophoto 202 = true := by decide +kernel
theorem prophoto_k203 : chunkOk16 .prophoto 203 = true := by decide +kernel
theorem prophoto_k204 : chunkOk16 .prophoto 204 = true := by decide +kernel
theorem prophoto_k205 : chunkOk16 .prophoto 205 = true := by decide +kernel
theorem prophoto_k206 : chunkOk16 .prophoto 206 = true := by decide +kernel
theorem prophoto_k207 : chunkOk16 .prophoto 207 = true := by decide +kernel

theorem prophoto_file12 : ∀ k, 192 ≤ k → k < 208 → chunkOk16 .prophoto k = true := by
  intro k h1 h2
  have h : k = 192 ∨ k = 193 ∨ k = 194 ∨ k = 195 ∨ k = 196 ∨ k = 197 ∨ k = 198 ∨ k = 199 ∨ k = 200 ∨ k = 201 ∨ k = 202 ∨ k = 203 ∨ k = 204 ∨ k = 205 ∨ k = 206 ∨ k = 207 := by omega
  rcases h with rfl | rfl | rfl | rfl | rfl | rfl | rfl | rfl | rfl | rfl | rfl | rfl | rfl | rfl | rfl | rfl
  · exact prophoto_k192
  · exact prophoto_k193
  · exact prophoto_k194
  · exact prophoto_k195
  · exact prophoto_k196
  · exact prophoto_k197
  · exact prophoto_k198
  · exact prophoto_k199
  · exact prophoto_k200
  · exact prophoto_k201
  · exact prophoto_k202
  · exact prophoto_k203
  · exact prophoto_k204
  · exact prophoto_k205
  · exact prophoto_k206
  · exact prophoto_k207

end Prism.C01
