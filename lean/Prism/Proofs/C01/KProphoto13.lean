import Prism.Check.C01

/-! Kernel-checked chunks of the regenerated 16-bit decode table (generated boiler-plate). -/
namespace Prism.C01

theorem prophoto_k208 : chunkOk16 .prophoto 208 = true := by decide +kernel
theorem prophoto_k209 : chunkOk16 .prophoto 209 = true := by decide +kernel
theorem prophoto_k210 : chunkOk16 .prophoto 210 = true := by decide +kernel
theorem prophoto_k211 : chunkOk16 .prophoto 211 = true := by decide +kernel
theorem prophoto_k212 : chunkOk16 .prophoto 212 = true := by decide +kernel
theorem prophoto_k213 : chunkOk16 .prophoto 213 = true := by decide +kernel
theorem prophoto_k214 : chunkOk16 .prophoto 214 = true := by decide +kernel
theorem prophoto_k215 : chunkOk16 .prophoto 215 = true := by decide +kernel
theorem prophoto_k216 : chunkOk16 .prophoto 216 = true := by decide +kernel
theorem prophoto_k217 : chunkOk16 .prophoto 217 = true := by decide +kernel
theorem prophoto_k218 : chunkOk16 .prophoto 218 = true := by decide +kernel
theorem prophoto_k219 : chunkOk16 .prophoto 219 = true := by decide +kernel
theorem prophoto_k220 : chunkOk16 .prophoto 220 = true := by decide +kernel
theorem prophoto_k221 : chunkOk16 .prophoto 221 = true := by decide +kernel
theorem prophoto_k222 : chunkOk16 .prophoto 222 = true := by decide +kernel
theorem prophoto_k223 : chunkOk16 .prophoto 223 = true := by decide +kernel

theorem prophoto_file13 : ∀ k, 208 ≤ k → k < 224 → chunkOk16 .prophoto k = true := by
  intro k h1 h2
  have h : k = 208 ∨ k = 209 ∨ k = 210 ∨ k = 211 ∨ k = 212 ∨ k = 213 ∨ k = 214 ∨ k = 215 ∨ k = 216 ∨ k = 217 ∨ k = 218 ∨ k = 219 ∨ k = 220 ∨ k = 221 ∨ k = 222 ∨ k = 223 := by omega
  rcases h with rfl | rfl | rfl | rfl | rfl | rfl | rfl | rfl | rfl | rfl | rfl | rfl | rfl | rfl | rfl | rfl
  · exact prophoto_k208
  · exact prophoto_k209
  · exact prophoto_k210
  · exact prophoto_k211
  · exact prophoto_k212
  · exact prophoto_k213
  · exact prophoto_k214
  · exact prophoto_k215
  · exact prophoto_k216
  · exact prophoto_k217
  · exact prophoto_k218
  · exact prophoto_k219
  · exact prophoto_k220
  · exact prophoto_k221
  · exact prophoto_k222
  · exact prophoto_k223

end Prism.C01
