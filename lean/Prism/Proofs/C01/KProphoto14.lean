import Prism.Check.C01

/-! Kernel-checked chunks of the regenerated 16-bit decode table (generated boiler-plate). -/
namespace Prism.C01

theorem prophoto_k224 : chunkOk16 .prophoto 224 = true := by decide +kernel
theorem prophoto_k225 : chunkOk16 .prophoto 225 = true := by decide +kernel
theorem prophoto_k226 : chunkOk16 .prophoto 226 = true := by decide +kernel
theorem prophoto_k227 : chunkOk16 .prophoto 227 = true := by decide +kernel
theorem prophoto_k228 : chunkOk16 .prophoto 228 = true := by decide +kernel
theorem prophoto_k229 : chunkOk16 .prophoto 229 = true := by decide +kernel
theorem prophoto_k230 : chunkOk16 .prophoto 230 = true := by decide +kernel
theorem prophoto_k231 : chunkOk16 .prophoto 231 = true := by decide +kernel
theorem prophoto_k232 : chunkOk16 .prophoto 232 = true := by decide +kernel
theorem prophoto_k233 : chunkOk16 .prophoto 233 = true := by decide +kernel
theorem prophoto_k234 : chunkOk16 .prophoto 234 = true := by decide +kernel
theorem prophoto_k235 : chunkOk16 .prophoto 235 = true := by decide +kernel
theorem prophoto_k236 : chunkOk16 .prophoto 236 = true := by decide +kernel
theorem prophoto_k237 : chunkOk16 .prophoto 237 = true := by decide +kernel
theorem prophoto_k238 : chunkOk16 .prophoto 238 = true := by decide +kernel
theorem prophoto_k239 : chunkOk16 .prophoto 239 = true := by decide +kernel

theorem prophoto_file14 : ∀ k, 224 ≤ k → k < 240 → chunkOk16 .prophoto k = true := by
  intro k h1 h2
  have h : k = 224 ∨ k = 225 ∨ k = 226 ∨ k = 227 ∨ k = 228 ∨ k = 229 ∨ k = 230 ∨ k = 231 ∨ k = 232 ∨ k = 233 ∨ k = 234 ∨ k = 235 ∨ k = 236 ∨ k = 237 ∨ k = 238 ∨ k = 239 := by omega
  rcases h with rfl | rfl | rfl | rfl | rfl | rfl | rfl | rfl | rfl | rfl | rfl | rfl | rfl | rfl | rfl | rfl
  · exact prophoto_k224
  · exact prophoto_k225
  · exact prophoto_k226
  · exact prophoto_k227
  · exact prophoto_k228
  · exact prophoto_k229
  · exact prophoto_k230
  · exact prophoto_k231
  · exact prophoto_k232
  · exact prophoto_k233
  · exact prophoto_k234
  · exact prophoto_k235
  · exact prophoto_k236
  · exact prophoto_k237
  · exact prophoto_k238
  · exact prophoto_k239

end Prism.C01
