import Prism.Check.C01

/-! Kernel-checked chunks of the regenerated 16-bit decode table (generated boiler-plate). -/
namespace Prism.C01

theorem prophoto_k240 : chunkOk16 .prophoto 240 = true := by decide +kernel
theorem prophoto_k241 : chunkOk16 .prophoto 241 = true := by decide +kernel
theorem prophoto_k242 : chunkOk16 .prophoto 242 = true := by decide +kernel
theorem prophoto_k243 : chunkOk16 .prophoto 243 = true := by decide +kernel
theorem prophoto_k244 : chunkOk16 .prophoto 244 = true := by decide +kernel
theorem prophoto_k245 : chunkOk16 .prophoto 245 = true := by decide +kernel
theorem prophoto_k246 : chunkOk16 .prophoto 246 = true := by decide +kernel
theorem prophoto_k247 : chunkOk16 .prophoto 247 = true := by decide +kernel
theorem prophoto_k248 : chunkOk16 .prophoto 248 = true := by decide +kernel
theorem prophoto_k249 : chunkOk16 .prophoto 249 = true := by decide +kernel
theorem prophoto_k250 : chunkOk16 .prophoto 250 = true := by decide +kernel
theorem prophoto_k251 : chunkOk16 .prophoto 251 = true := by decide +kernel
theorem prophoto_k252 : chunkOk16 .prophoto 252 = true := by decide +kernel
theorem prophoto_k253 : chunkOk16 .prophoto 253 = true := by decide +kernel
theorem prophoto_k254 : chunkOk16 .prophoto 254 = true := by decide +kernel
theorem prophoto_k255 : chunkOk16 .prophoto 255 = true := by decide +kernel

theorem prophoto_file15 : ∀ k, 240 ≤ k → k < 256 → chunkOk16 .prophoto k = true := by
  intro k h1 h2
  have h : k = 240 ∨ k = 241 ∨ k = 242 ∨ k = 243 ∨ k = 244 ∨ k = 245 ∨ k = 246 ∨ k = 247 ∨ k = 248 ∨ k = 249 ∨ k = 250 ∨ k = 251 ∨ k = 252 ∨ k = 253 ∨ k = 254 ∨ k = 255 := by omega
  rcases h with rfl | rfl | rfl | rfl | rfl | rfl | rfl | rfl | rfl | rfl | rfl | rfl | rfl | rfl | rfl | rfl
  · exact prophoto_k240
  · exact prophoto_k241
  · exact prophoto_k242
  · exact prophoto_k243
  · exact prophoto_k244
  · exact prophoto_k245
  · exact prophoto_k246
  · exact prophoto_k247
  · exact prophoto_k248
  · exact prophoto_k249
  · exact prophoto_k250
  · exact prophoto_k251
  · exact prophoto_k252
  · exact prophoto_k253
  · exact prophoto_k254
  · exact prophoto_k255

end Prism.C01
