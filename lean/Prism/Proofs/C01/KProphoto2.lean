import Prism.Check.C01

/-! Kernel-checked chunks of the regenerated 16-bit decode table (generated boiler-plate). -/
namespace Prism.C01

theorem prophoto_k32 : chunkOk16 .prophoto 32 = true := by decide +kernel
theorem prophoto_k33 : chunkOk16 .prophoto 33 = true := by decide +kernel
theorem prophoto_k34 : chunkOk16 .prophoto 34 = true := by decide +kernel
theorem prophoto_k35 : chunkOk16 .prophoto 35 = true := by decide +kernel
theorem prophoto_k36 : chunkOk16 .prophoto 36 = true := by decide +kernel
theorem prophoto_k37 : chunkOk16 .prophoto 37 = true := by decide +kernel
theorem prophoto_k38 : chunkOk16 .prophoto 38 = true := by decide +kernel
theorem prophoto_k39 : chunkOk16 .prophoto 39 = true := by decide +kernel
theorem prophoto_k40 : chunkOk16 .prophoto 40 = true := by decide +kernel
theorem prophoto_k41 : chunkOk16 .prophoto 41 = true := by decide +kernel
theorem prophoto_k42 : chunkOk16 .prophoto 42 = true := by decide +kernel
theorem prophoto_k43 : chunkOk16 .prophoto 43 = true := by decide +kernel
theorem prophoto_k44 : chunkOk16 .prophoto 44 = true := by decide +kernel
theorem prophoto_k45 : chunkOk16 .prophoto 45 = true := by decide +kernel
theorem prophoto_k46 : chunkOk16 .prophoto 46 = true := by decide +kernel
theorem prophoto_k47 : chunkOk16 .prophoto 47 = true := by decide +kernel

theorem prophoto_file2 : ∀ k, 32 ≤ k → k < 48 → chunkOk16 .prophoto k = true := by
  intro k h1 h2
  have h : k = 32 ∨ k = 33 ∨ k = 34 ∨ k = 35 ∨ k = 36 ∨ k = 37 ∨ k = 38 ∨ k = 39 ∨ k = 40 ∨ k = 41 ∨ k = 42 ∨ k = 43 ∨ k = 44 ∨ k = 45 ∨ k = 46 ∨ k = 47 := by omega
  rcases h with rfl | rfl | rfl | rfl | rfl | rfl | rfl | rfl | rfl | rfl | rfl | rfl | rfl | rfl | rfl | rfl
  · exact prophoto_k32
  · exact prophoto_k33
  · exact prophoto_k34
  · exact prophoto_k35
  · exact prophoto_k36
  · exact prophoto_k37
  · exact prophoto_k38
  · exact prophoto_k39
  · exact prophoto_k40
  · exact prophoto_k41
  · exact prophoto_k42
  · exact prophoto_k43
  · exact prophoto_k44
  · exact prophoto_k45
  · exact prophoto_k46
  · exact prophoto_k47

end Prism.C01
