import Prism.Check.C01

/-! Kernel-checked chunks of the regenerated 16-bit decode table (generated boiler-plate). -/
namespace Prism.C01

theorem prophoto_k48 : chunkOk16 .prophoto 48 = true := by decide +kernel
theorem prophoto_k49 : chunkOk16 .prophoto 49 = true := by decide +kernel
theorem prophoto_k50 : chunkOk16 .prophoto 50 = true := by decide +kernel
theorem prophoto_k51 : chunkOk16 .prophoto 51 = true := by decide +kernel
theorem prophoto_k52 : chunkOk16 .prophoto 52 = true := by decide +kernel
theorem prophoto_k53 : chunkOk16 .prophoto 53 = true := by decide +kernel
theorem prophoto_k54 : chunkOk16 .prophoto 54 = true := by decide +kernel
theorem prophoto_k55 : chunkOk16 .prophoto 55 = true := by decide +kernel
theorem prophoto_k56 : chunkOk16 .prophoto 56 = true := by decide +kernel
theorem prophoto_k57 : chunkOk16 .prophoto 57 = true := by decide +kernel
theorem prophoto_k58 : chunkOk16 .prophoto 58 = true := by decide +kernel
theorem prophoto_k59 : chunkOk16 .prophoto 59 = true := by decide +kernel
theorem prophoto_k60 : chunkOk16 .prophoto 60 = true := by decide +kernel
theorem prophoto_k61 : chunkOk16 .prophoto 61 = true := by decide +kernel
theorem prophoto_k62 : chunkOk16 .prophoto 62 = true := by decide +kernel
theorem prophoto_k63 : chunkOk16 .prophoto 63 = true := by decide +kernel

theorem prophoto_file3 : ∀ k, 48 ≤ k → k < 64 → chunkOk16 .prophoto k = true := by
  intro k h1 h2
  have h : k = 48 ∨ k = 49 ∨ k = 50 ∨ k = 51 ∨ k = 52 ∨ k = 53 ∨ k = 54 ∨ k = 55 ∨ k = 56 ∨ k = 57 ∨ k = 58 ∨ k = 59 ∨ k = 60 ∨ k = 61 ∨ k = 62 ∨ k = 63 := by omega
  rcases h with rfl | rfl | rfl | rfl | rfl | rfl | rfl | rfl | rfl | rfl | rfl | rfl | rfl | rfl | rfl | rfl
  · exact prophoto_k48
  · exact prophoto_k49
  · exact prophoto_k50
  · exact prophoto_k51
  · exact prophoto_k52
  · exact prophoto_k53
  · exact prophoto_k54
  · exact prophoto_k55
  · exact prophoto_k56
  · exact prophoto_k57
  · exact prophoto_k58
  · exact prophoto_k59
  · exact prophoto_k60
  · exact prophoto_k61
  · exact prophoto_k62
  · exact prophoto_k63

end Prism.C01
