import Prism.Check.C01

/-! Kernel-checked chunks of the regenerated 16-bit decode table (generated boiler-plate). -/
namespace Prism.C01

theorem prophoto_k64 : chunkOk16 .prophoto 64 = true := by decide +kernel
theorem prophoto_k65 : chunkOk16 .prophoto 65 = true := by decide +kernel
theorem prophoto_k66 : chunkOk16 .prophoto 66 = true := by decide +kernel
theorem prophoto_k67 : chunkOk16 .prophoto 67 = true := by decide +kernel
theorem prophoto_k68 : chunkOk16 .prophoto 68 = true := by decide +kernel
theorem prophoto_k69 : chunkOk16 .prophoto 69 = true := by decide +kernel
theorem prophoto_k70 : chunkOk16 .prophoto 70 = true := by decide +kernel
theorem prophoto_k71 : chunkOk16 .prophoto 71 = true := by decide +kernel
theorem prophoto_k72 : chunkOk16 .prophoto 72 = true := by decide +kernel
theorem prophoto_k73 : chunkOk16 .prophoto 73 = true := by decide +kernel
theorem prophoto_k74 : chunkOk16 .prophoto 74 = true := by decide +kernel
theorem prophoto_k75 : chunkOk16 .prophoto 75 = true := by decide +kernel
theorem prophoto_k76 : chunkOk16 .prophoto 76 = true := by decide +kernel
theorem prophoto_k77 : chunkOk16 .prophoto 77 = true := by decide +kernel
theorem prophoto_k78 : chunkOk16 .prophoto 78 = true := by decide +kernel
theorem prophoto_k79 : chunkOk16 .prophoto 79 = true := by decide +kernel

theorem prophoto_file4 : ∀ k, 64 ≤ k → k < 80 → chunkOk16 .prophoto k = true := by
  intro k h1 h2
  have h : k = 64 ∨ k = 65 ∨ k = 66 ∨ k = 67 ∨ k = 68 ∨ k = 69 ∨ k = 70 ∨ k = 71 ∨ k = 72 ∨ k = 73 ∨ k = 74 ∨ k = 75 ∨ k = 76 ∨ k = 77 ∨ k = 78 ∨ k = 79 := by omega
  rcases h with rfl | rfl | rfl | rfl | rfl | rfl | rfl | rfl | rfl | rfl | rfl | rfl | rfl | rfl | rfl | rfl
  · exact prophoto_k64
  · exact prophoto_k65
  · exact prophoto_k66
  · exact prophoto_k67
  · exact prophoto_k68
  · exact prophoto_k69
  · exact prophoto_k70
  · exact prophoto_k71
  · exact prophoto_k72
  · exact prophoto_k73
  · exact prophoto_k74
  · exact prophoto_k75
  · exact prophoto_k76
  · exact prophoto_k77
  · exact prophoto_k78
  · exact prophoto_k79

end Prism.C01
