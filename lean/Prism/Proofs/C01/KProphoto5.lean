import Prism.Check.C01

/-! Kernel-checked chunks of the regenerated 16-bit decode table (generated boiler-plate). -/
namespace Prism.C01

theorem prophoto_k80 : chunkOk16 .prophoto 80 = true := by decide +kernel
theorem prophoto_k81 : chunkOk16 .prophoto 81 = true := by decide +kernel
theorem prophoto_k82 : chunkOk16 .prophoto 82 = true := by decide +kernel
theorem prophoto_k83 : chunkOk16 .prophoto 83 = true := by decide +kernel
theorem prophoto_k84 : chunkOk16 .prophoto 84 = true := by decide +kernel
theorem prophoto_k85 : chunkOk16 .prophoto 85 = true := by decide +kernel
theorem prophoto_k86 : chunkOk16 .prophoto 86 = true := by decide +kernel
theorem prophoto_k87 : chunkOk16 .prophoto 87 = true := by decide +kernel
theorem prophoto_k88 : chunkOk16 .prophoto 88 = true := by decide +kernel
theorem prophoto_k89 : chunkOk16 .prophoto 89 = true := by decide +kernel
theorem prophoto_k90 : chunkOk16 .prophoto 90 = true := by decide +kernel
theorem prophoto_k91 : chunkOk16 .prophoto 91 = true := by decide +kernel
theorem prophoto_k92 : chunkOk16 .prophoto 92 = true := by decide +kernel
theorem prophoto_k93 : chunkOk16 .prophoto 93 = true := by decide +kernel
theorem prophoto_k94 : chunkOk16 .prophoto 94 = true := by decide +kernel
theorem prophoto_k95 : chunkOk16 .prophoto 95 = true := by decide +kernel

theorem prophoto_file5 : ∀ k, 80 ≤ k → k < 96 → chunkOk16 .prophoto k = true := by
  intro k h1 h2
  have h : k = 80 ∨ k = 81 ∨ k = 82 ∨ k = 83 ∨ k = 84 ∨ k = 85 ∨ k = 86 ∨ k = 87 ∨ k = 88 ∨ k = 89 ∨ k = 90 ∨ k = 91 ∨ k = 92 ∨ k = 93 ∨ k = 94 ∨ k = 95 := by omega
  rcases h with rfl | rfl | rfl | rfl | rfl | rfl | rfl | rfl | rfl | rfl | rfl | rfl | rfl | rfl | rfl | rfl
  · exact prophoto_k80
  · exact prophoto_k81
  · exact prophoto_k82
  · exact prophoto_k83
  · exact prophoto_k84
  · exact prophoto_k85
  · exact prophoto_k86
  · exact prophoto_k87
  · exact prophoto_k88
  · exact prophoto_k89
  · exact prophoto_k90
  · exact prophoto_k91
  · exact prophoto_k92
  · exact prophoto_k93
  · exact prophoto_k94
  · exact prophoto_k95

end Prism.C01
