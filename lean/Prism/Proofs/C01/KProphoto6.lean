import Prism.Check.C01

/-! Kernel-checked chunks of the regenerated 16-bit decode table (generated boiler-plate). -/
namespace Prism.C01

theorem prophoto_k96 : chunkOk16 .prophoto 96 = true := by decide +kernel
theorem prophoto_k97 : chunkOk16 .prophoto 97 = true := by decide +kernel
theorem prophoto_k98 : chunkOk16 .prophoto 98 = true := by decide +kernel
theorem prophoto_k99 : chunkOk16 .prophoto 99 = true := by decide +kernel
theorem prophoto_k100 : chunkOk16 .prophoto 100 = true := by decide +kernel
theorem prophoto_k101 : chunkOk16 .prophoto 101 = true := by decide +kernel
theorem prophoto_k102 : chunkOk16 .prophoto 102 = true := by decide +kernel
theorem prophoto_k103 : chunkOk16 .prophoto 103 = true := by decide +kernel
theorem prophoto_k104 : chunkOk16 .prophoto 104 = true := by decide +kernel
theorem prophoto_k105 : chunkOk16 .prophoto 105 = true := by decide +kernel
theorem prophoto_k106 : chunkOk16 .prophoto 106 = true := by decide +kernel
theorem prophoto_k107 : chunkOk16 .prophoto 107 = true := by decide +kernel
theorem prophoto_k108 : chunkOk16 .prophoto 108 = true := by decide +kernel
theorem prophoto_k109 : chunkOk16 .prophoto 109 = true := by decide +kernel
theorem prophoto_k110 : chunkOk16 .prophoto 110 = true := by decide +kernel
theorem prophoto_k111 : chunkOk16 .prophoto 111 = true := by decide +kernel

theorem prophoto_file6 : ∀ k, 96 ≤ k → k < 112 → chunkOk16 .prophoto k = true := by
  intro k h1 h2
  have h : k = 96 ∨ k = 97 ∨ k = 98 ∨ k = 99 ∨ k = 100 ∨ k = 101 ∨ k = 102 ∨ k = 103 ∨ k = 104 ∨ k = 105 ∨ k = 106 ∨ k = 107 ∨ k = 108 ∨ k = 109 ∨ k = 110 ∨ k = 111 := by omega
  rcases h with rfl | rfl | rfl | rfl | rfl | rfl | rfl | rfl | rfl | rfl | rfl | rfl | rfl | rfl | rfl | rfl
  · exact prophoto_k96
  · exact prophoto_k97
  · exact prophoto_k98
  · exact prophoto_k99
  · exact prophoto_k100
  · exact prophoto_k101
  · exact prophoto_k102
  · exact prophoto_k103
  · exact prophoto_k104
  · exact prophoto_k105
  · exact prophoto_k106
  · exact prophoto_k107
  · exact prophoto_k108
  · exact prophoto_k109
  · exact prophoto_k110
  · exact prophoto_k111

end Prism.C01
