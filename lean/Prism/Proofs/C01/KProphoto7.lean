import Prism.Check.C01

/-! Kernel-checked chunks of the regenerated 16-bit decode table (generated boiler-plate). -/
namespace Prism.C01

theorem prophoto_k112 : chunkOk16 .prophoto 112 = true := by decide +kernel
theorem prophoto_k113 : chunkOk16 .prophoto 113 = true := by decide +kernel
theorem prophoto_k114 : chunkOk16 .prophoto 114 = true := by decide +kernel
theorem prophoto_k115 : chunkOk16 .prophoto 115 = true := by decide +kernel
theorem prophoto_k116 : chunkOk16 .prophoto 116 = true := by decide +kernel
theorem prophoto_k117 : chunkOk16 .prophoto 117 = true := by decide +kernel
theorem prophoto_k118 : chunkOk16 .prophoto 118 = true := by decide +kernel
theorem prophoto_k119 : chunkOk16 .prophoto 119 = true := by decide +kernel
theorem prophoto_k120 : chunkOk16 .prophoto 120 = true := by decide +kernel
theorem prophoto_k121 : chunkOk16 .prophoto 121 = true := by decide +kernel
theorem prophoto_k122 : chunkOk16 .prophoto 122 = true := by decide +kernel
theorem prophoto_k123 : chunkOk16 .prophoto 123 = true := by decide +kernel
theorem prophoto_k124 : chunkOk16 .prophoto 124 = true := by decide +kernel
theorem prophoto_k125 : chunkOk16 .prophoto 125 = true := by decide +kernel
theorem prophoto_k126 : chunkOk16 .prophoto 126 = true := by decide +kernel
theorem prophoto_k127 : chunkOk16 .prophoto 127 = true := by decide +kernel

theorem prophoto_file7 : ∀ k, 112 ≤ k → k < 128 → chunkOk16 .prophoto k = true := by
  intro k h1 h2
  have h : k = 112 ∨ k = 113 ∨ k = 114 ∨ k = 115 ∨ k = 116 ∨ k = 117 ∨ k = 118 ∨ k = 119 ∨ k = 120 ∨ k = 121 ∨ k = 122 ∨ k = 123 ∨ k = 124 ∨ k = 125 ∨ k = 126 ∨ k = 127 := by omega
  rcases h with rfl | rfl | rfl | rfl | rfl | rfl | rfl | rfl | rfl | rfl | rfl | rfl | rfl | rfl | rfl | rfl
  · exact prophoto_k112
  · exact prophoto_k113
  · exact prophoto_k114
  · exact prophoto_k115
  · exact prophoto_k116
  · exact prophoto_k117
  · exact prophoto_k118
  · exact prophoto_k119
  · exact prophoto_k120
  · exact prophoto_k121
  · exact prophoto_k122
  · exact prophoto_k123
  · exact prophoto_k124
  · exact prophoto_k125
  · exact prophoto_k126
  · exact prophoto_k127

end Prism.C01
