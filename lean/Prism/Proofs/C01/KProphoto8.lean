import Prism.Check.C01

/-! Kernel-checked chunks of the regenerated 16-bit decode table (generated boiler-plate). -/
namespace Prism.C01

theorem prophoto_k128 : chunkOk16 .prophoto 128 = true := by decide +kernel
theorem prophoto_k129 : chunkOk16 .prophoto 129 = true := by decide +kernel
theorem prophoto_k130 : chunkOk16 .prophoto 130 = true := by decide +kernel
theorem prophoto_k131 : chunkOk16 .prophoto 131 = true := by decide +kernel
theorem prophoto_k132 : chunkOk16 .prophoto 132 = true := by decide +kernel
theorem prophoto_k133 : chunkOk16 .prophoto 133 = true := by decide +kernel
theorem prophoto_k134 : chunkOk16 .prophoto 134 = true := by decide +kernel
theorem prophoto_k135 : chunkOk16 .prophoto 135 = true := by decide +kernel
theorem prophoto_k136 : chunkOk16 .prophoto 136 = true := by decide +kernel
theorem prophoto_k137 : chunkOk16 .prophoto 137 = true := by decide +kernel
theorem prophoto_k138 : chunkOk16 .prophoto 138 = true := by decide +kernel
theorem prophoto_k139 : chunkOk16 .prophoto 139 = true := by decide +kernel
theorem prophoto_k140 : chunkOk16 .prophoto 140 = true := by decide +kernel
theorem prophoto_k141 : chunkOk16 .prophoto 141 = true := by decide +kernel
theorem prophoto_k142 : chunkOk16 .prophoto 142 = true := by decide +kernel
theorem prophoto_k143 : chunkOk16 .prophoto 143 = true := by decide +kernel

theorem prophoto_file8 : ∀ k, 128 ≤ k → k < 144 → chunkOk16 .prophoto k = true := by
  intro k h1 h2
  have h : k = 128 ∨ k = 129 ∨ k = 130 ∨ k = 131 ∨ k = 132 ∨ k = 133 ∨ k = 134 ∨ k = 135 ∨ k = 136 ∨ k = 137 ∨ k = 138 ∨ k = 139 ∨ k = 140 ∨ k = 141 ∨ k = 142 ∨ k = 143 := by omega
  rcases h with rfl | rfl | rfl | rfl | rfl | rfl | rfl | rfl | rfl | rfl | rfl | rfl | rfl | rfl | rfl | rfl
  · exact prophoto_k128
  · exact prophoto_k129
  · exact prophoto_k130
  · exact prophoto_k131
  · exact prophoto_k132
  · exact prophoto_k133
  · exact prophoto_k134
  · exact prophoto_k135
  · exact prophoto_k136
  · exact prophoto_k137
  · exact prophoto_k138
  · exact prophoto_k139
  · exact prophoto_k140
  · exact prophoto_k141
  · exact prophoto_k142
  · exact prophoto_k143

end Prism.C01
