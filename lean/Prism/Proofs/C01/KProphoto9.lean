import Prism.Check.C01

/-! Kernel-checked chunks of the regenerated 16-bit decode table (generated boiler-plate). -/
namespace Prism.C01

theorem prophoto_k144 : chunkOk16 .prophoto 144 = true := by decide +kernel
theorem prophoto_k145 : chunkOk16 .prophoto 145 = true := by decide +kernel
theorem prophoto_k146 : chunkOk16 .prophoto 146 = true := by decide +kernel
theorem prophoto_k147 : chunkOk16 .prophoto 147 = true := by decide +kernel
theorem prophoto_k148 : chunkOk16 .prophoto 148 = true := by decide +kernel
theorem prophoto_k149 : chunkOk16 .prophoto 149 = true := by decide +kernel
theorem prophoto_k150 : chunkOk16 .prophoto 150 = true := by decide +kernel
theorem prophoto_k151 : chunkOk16 .prophoto 151 = true := by decide +kernel
theorem prophoto_k152 : chunkOk16 .prophoto 152 = true := by decide +kernel
theorem prophoto_k153 : chunkOk16 .prophoto 153 = true := by decide +kernel
theorem prophoto_k154 : chunkOk16 .prophoto 154 = true := by decide +kernel
theorem prophoto_k155 : chunkOk16 .prophoto 155 = true := by decide +kernel
theorem prophoto_k156 : chunkOk16 .prophoto 156 = true := by decide +kernel
theorem prophoto_k157 : chunkOk16 .prophoto 157 = true := by decide +kernel
theorem prophoto_k158 : chunkOk16 .prophoto 158 = true := by decide +kernel
theorem prophoto_k159 : chunkOk16 .prophoto 159 = true := by decide +kernel

theorem prophoto_file9 : ∀ k, 144 ≤ k → k < 160 → chunkOk16 .prophoto k = true := by
  intro k h1 h2
  have h : k = 144 ∨ k = 145 ∨ k = 146 ∨ k = 147 ∨ k = 148 ∨ k = 149 ∨ k = 150 ∨ k = 151 ∨ k = 152 ∨ k = 153 ∨ k = 154 ∨ k = 155 ∨ k = 156 ∨ k = 157 ∨ k = 158 ∨ k = 159 := by omega
  rcases h with rfl | rfl | rfl | rfl | rfl | rfl | rfl | rfl | rfl | rfl | rfl | rfl | rfl | rfl | rfl | rfl
  · exact prophoto_k144
  · exact prophoto_k145
  · exact prophoto_k146
  · exact prophoto_k147
  · exact prophoto_k148
  · exact prophoto_k149
  · exact prophoto_k150
  · exact prophoto_k151
  · exact prophoto_k152
  · exact prophoto_k153
  · exact prophoto_k154
  · exact prophoto_k155
  · exact prophoto_k156
  · exact prophoto_k157
  · exact prophoto_k158
  · exact prophoto_k159

end Prism.C01
