import Prism.Check.C01

/-! Kernel-checked chunks of the regenerated 16-bit decode table (generated boiler-plate). -/
namespace Prism.C01

theorem srgb_k0 : chunkOk16 .srgb 0 = true := by decide +kernel
theorem srgb_k1 : chunkOk16 .srgb 1 = true := by decide +kernel
theorem srgb_k2 : chunkOk16 .srgb 2 = true := by decide +kernel
theorem srgb_k3 : chunkOk16 .srgb 3 = true := by decide +kernel
theorem srgb_k4 : chunkOk16 .srgb 4 = true := by decide +kernel
theorem srgb_k5 : chunkOk16 .srgb 5 = true := by decide +kernel
theorem srgb_k6 : chunkOk16 .srgb 6 = true := by decide +kernel
theorem srgb_k7 : chunkOk16 .srgb 7 = true := by decide +kernel
theorem srgb_k8 : chunkOk16 .srgb 8 = true := by decide +kernel
theorem srgb_k9 : chunkOk16 .srgb 9 = true := by decide +kernel
theorem srgb_k10 : chunkOk16 .srgb 10 = true := by decide +kernel
theorem srgb_k11 : chunkOk16 .srgb 11 = true := by decide +kernel
theorem srgb_k12 : chunkOk16 .srgb 12 = true := by decide +kernel
theorem srgb_k13 : chunkOk16 .srgb 13 = true := by decide +kernel
theorem srgb_k14 : chunkOk16 .srgb 14 = true := by decide +kernel
theorem srgb_k15 : chunkOk16 .srgb 15 = true := by decide +kernel

theorem srgb_file0 : ∀ k, 0 ≤ k → k < 16 → chunkOk16 .srgb k = true := by
  intro k h1 h2
  have h : k = 0 ∨ k = 1 ∨ k = 2 ∨ k = 3 ∨ k = 4 ∨ k = 5 ∨ k = 6 ∨ k = 7 ∨ k = 8 ∨ k = 9 ∨ k = 10 ∨ k = 11 ∨ k = 12 ∨ k = 13 ∨ k = 14 ∨ k = 15 := by omega
  rcases h with rfl | rfl | rfl | rfl | rfl | rfl | rfl | rfl | rfl | rfl | rfl | rfl | rfl | rfl | rfl | rfl
  · exact srgb_k0
  · exact srgb_k1
  · exact srgb_k2
  · exact srgb_k3
  · exact srgb_k4
  · exact srgb_k5
  · exact srgb_k6
  · exact srgb_k7
  · exact srgb_k8
  · exact srgb_k9
  · exact srgb_k10
  · exact srgb_k11
  · exact srgb_k12
  · exact srgb_k13
  · exact srgb_k14
  · exact srgb_k15

end Prism.C01
