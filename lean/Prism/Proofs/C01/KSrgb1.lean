import Prism.Check.C01

/-! Kernel-checked chunks of the regenerated 16-bit decode table (generated boiler-plate). -/
namespace Prism.C01

theorem srgb_k16 : chunkOk16 .srgb 16 = true := by decide +kernel
theorem srgb_k17 : chunkOk16 .srgb 17 = true := by decide +kernel
theorem srgb_k18 : chunkOk16 .srgb 18 = true := by decide +kernel
theorem srgb_k19 : chunkOk16 .srgb 19 = true := by decide +kernel
theorem srgb_k20 : chunkOk16 .srgb 20 = true := by decide +kernel
theorem srgb_k21 : chunkOk16 .srgb 21 = true := by decide +kernel
theorem srgb_k22 : chunkOk16 .srgb 22 = true := by decide +kernel
theorem srgb_k23 : chunkOk16 .srgb 23 = true := by decide +kernel
theorem srgb_k24 : chunkOk16 .srgb 24 = true := by decide +kernel
theorem srgb_k25 : chunkOk16 .srgb 25 = true := by decide +kernel
theorem srgb_k26 : chunkOk16 .srgb 26 = true := by decide +kernel
theorem srgb_k27 : chunkOk16 .srgb 27 = true := by decide +kernel
theorem srgb_k28 : chunkOk16 .srgb 28 = true := by decide +kernel
theorem srgb_k29 : chunkOk16 .srgb 29 = true := by decide +kernel
theorem srgb_k30 : chunkOk16 .srgb 30 = true := by decide +kernel
theorem srgb_k31 : chunkOk16 .srgb 31 = true := by decide +kernel

theorem srgb_file1 : ∀ k, 16 ≤ k → k < 32 → chunkOk16 .srgb k = true := by
  intro k h1 h2
  have h : k = 16 ∨ k = 17 ∨ k = 18 ∨ k = 19 ∨ k = 20 ∨ k = 21 ∨ k = 22 ∨ k = 23 ∨ k = 24 ∨ k = 25 ∨ k = 26 ∨ k = 27 ∨ k = 28 ∨ k = 29 ∨ k = 30 ∨ k = 31 := by omega
  rcases h with rfl | rfl | rfl | rfl | rfl | rfl | rfl | rfl | rfl | rfl | rfl | rfl | rfl | rfl | rfl | rfl
  · exact srgb_k16
  · exact srgb_k17
  · exact srgb_k18
  · exact srgb_k19
  · exact srgb_k20
  · exact srgb_k21
  · exact srgb_k22
  · exact srgb_k23
  · exact srgb_k24
  · exact srgb_k25
  · exact srgb_k26
  · exact srgb_k27
  · exact srgb_k28
  · exact srgb_k29
  · exact srgb_k30
  · exact srgb_k31

end Prism.C01
