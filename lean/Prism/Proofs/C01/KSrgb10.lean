import Prism.Check.C01

/-! Kernel-checked chunks of the regenerated 16-bit decode table (generated boiler-plate). -/
namespace Prism.C01

theorem srgb_k160 : chunkOk16 .srgb 160 = true := by decide +kernel
theorem srgb_k161 : chunkOk16 .srgb 161 = true := by decide +kernel
theorem srgb_k162 : chunkOk16 .srgb 162 = true := by decide +kernel
theorem srgb_k163 : chunkOk16 .srgb 163 = true := by decide +kernel
theorem srgb_k164 : chunkOk16 .srgb 164 = true := by decide +kernel
theorem srgb_k165 : chunkOk16 .srgb 165 = true := by decide +kernel
theorem srgb_k166 : chunkOk16 .srgb 166 = true := by decide +kernel
theorem srgb_k167 : chunkOk16 .srgb 167 = true := by decide +kernel
theorem srgb_k168 : chunkOk16 .srgb 168 = true := by decide +kernel
theorem srgb_k169 : chunkOk16 .srgb 169 = true := by decide +kernel
theorem srgb_k170 : chunkOk16 .srgb 170 = true := by decide +kernel
theorem srgb_k171 : chunkOk16 .srgb 171 = true := by decide +kernel
theorem srgb_k172 : chunkOk16 .srgb 172 = true := by decide +kernel
theorem srgb_k173 : chunkOk16 .srgb 173 = true := by decide +kernel
theorem srgb_k174 : chunkOk16 .srgb 174 = true := by decide +kernel
theorem srgb_k175 : chunkOk16 .srgb 175 = true := by decide +kernel

theorem srgb_file10 : ∀ k, 160 ≤ k → k < 176 → chunkOk16 .srgb k = true := by
  intro k h1 h2
  have h : k = 160 ∨ k = 161 ∨ k = 162 ∨ k = 163 ∨ k = 164 ∨ k = 165 ∨ k = 166 ∨ k = 167 ∨ k = 168 ∨ k = 169 ∨ k = 170 ∨ k = 171 ∨ k = 172 ∨ k = 173 ∨ k = 174 ∨ k = 175 := by omega
  rcases h with rfl | rfl | rfl | rfl | rfl | rfl | rfl | rfl | rfl | rfl | rfl | rfl | rfl | rfl | rfl | rfl
  · exact srgb_k160
  · exact srgb_k161
  · exact srgb_k162
  · exact srgb_k163
  · exact srgb_k164
  · exact srgb_k165
  · exact srgb_k166
  · exact srgb_k167
  · exact srgb_k168
  · exact srgb_k169
  · exact srgb_k170
  · exact srgb_k171
  · exact srgb_k172
  · exact srgb_k173
  · exact srgb_k174
  · exact srgb_k175

end Prism.C01
