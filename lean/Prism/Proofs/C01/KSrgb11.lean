import Prism.Check.C01

/-! Kernel-checked chunks of the regenerated 16-bit decode table (generated boiler-plate). -/
namespace Prism.C01

theorem srgb_k176 : chunkOk16 .srgb 176 = true := by decide +kernel
theorem srgb_k177 : chunkOk16 .srgb 177 = true := by decide +kernel
theorem srgb_k178 : chunkOk16 .srgb 178 = true := by decide +kernel
theorem srgb_k179 : chunkOk16 .srgb 179 = true := by decide +kernel
theorem srgb_k180 : chunkOk16 .srgb 180 = true := by decide +kernel
theorem srgb_k181 : chunkOk16 .srgb 181 = true := by decide +kernel
theorem srgb_k182 : chunkOk16 .srgb 182 = true := by decide +kernel
theorem srgb_k183 : chunkOk16 .srgb 183 = true := by decide +kernel
theorem srgb_k184 : chunkOk16 .srgb 184 = true := by decide +kernel
theorem srgb_k185 : chunkOk16 .srgb 185 = true := by decide +kernel
theorem srgb_k186 : chunkOk16 .srgb 186 = true := by decide +kernel
theorem srgb_k187 : chunkOk16 .srgb 187 = true := by decide +kernel
theorem srgb_k188 : chunkOk16 .srgb 188 = true := by decide +kernel
theorem srgb_k189 : chunkOk16 .srgb 189 = true := by decide +kernel
theorem srgb_k190 : chunkOk16 .srgb 190 = true := by decide +kernel
theorem srgb_k191 : chunkOk16 .srgb 191 = true := by decide +kernel

theorem srgb_file11 : ∀ k, 176 ≤ k → k < 192 → chunkOk16 .srgb k = true := by
  intro k h1 h2
  have h : k = 176 ∨ k = 177 ∨ k = 178 ∨ k = 179 ∨ k = 180 ∨ k = 181 ∨ k = 182 ∨ k = 183 ∨ k = 184 ∨ k = 185 ∨ k = 186 ∨ k = 187 ∨ k = 188 ∨ k = 189 ∨ k = 190 ∨ k = 191 := by omega
  rcases h with rfl | rfl | rfl | rfl | rfl | rfl | rfl | rfl | rfl | rfl | rfl | rfl | rfl | rfl | rfl | rfl
  · exact srgb_k176
  · exact srgb_k177
  · exact srgb_k178
  · exact srgb_k179
  · exact srgb_k180
  · exact srgb_k181
  · exact srgb_k182
  · exact srgb_k183
  · exact srgb_k184
  · exact srgb_k185
  · exact srgb_k186
  · exact srgb_k187
  · exact srgb_k188
  · exact srgb_k189
  · exact srgb_k190
  · exact srgb_k191

end Prism.C01
