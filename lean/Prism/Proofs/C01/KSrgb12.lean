import Prism.Check.C01

/-! Kernel-checked chunks of the regenerated 16-bit decode table (generated boiler-plate). -/
namespace Prism.C01

theorem srgb_k192 : chunkOk16 .srgb 192 = true := by decide +kernel
theorem srgb_k193 : chunkOk16 .srgb 193 = true := by decide +kernel
theorem srgb_k194 : chunkOk16 .srgb 194 = true := by decide +kernel
theorem srgb_k195 : chunkOk16 .srgb 195 = true := by decide +kernel
theorem srgb_k196 : chunkOk16 .srgb 196 = true := by decide +kernel
theorem srgb_k197 : chunkOk16 .srgb 197 = true := by decide +kernel
theorem srgb_k198 : chunkOk16 .srgb 198 = true := by decide +kernel
theorem srgb_k199 : chunkOk16 .srgb 199 = true := by decide +kernel
theorem srgb_k200 : chunkOk16 .srgb 200 = true := by decide +kernel
theorem srgb_k201 : chunkOk16 .srgb 201 = true := by decide +kernel
theorem srgb_k202 : chunkOk16 .srgb 202 = true := by decide +kernel
theorem srgb_k203 : chunkOk16 .srgb 203 = true := by decide +kernel
theorem srgb_k204 : chunkOk16 .srgb 204 = true := by decide +kernel
theorem srgb_k205 : chunkOk16 .srgb 205 = true := by decide +kernel
theorem srgb_k206 : chunkOk16 .srgb 206 = true := by decide +kernel
theorem srgb_k207 : chunkOk16 .srgb 207 = true := by decide +kernel

theorem srgb_file12 : ∀ k, 192 ≤ k → k < 208 → chunkOk16 .srgb k = true := by
  intro k h1 h2
  have h : k = 192 ∨ k = 193 ∨ k = 194 ∨ k = 195 ∨ k = 196 ∨ k = 197 ∨ k = 198 ∨ k = 199 ∨ k = 200 ∨ k = 201 ∨ k = 202 ∨ k = 203 ∨ k = 204 ∨ k = 205 ∨ k = 206 ∨ k = 207 := by omega
  rcases h with rfl | rfl | rfl | rfl | rfl | rfl | rfl | rfl | rfl | rfl | rfl | rfl | rfl | rfl | rfl | rfl
  · exact srgb_k192
  · exact srgb_k193
  · exact srgb_k194
  · exact srgb_k195
  · exact srgb_k196
  · exact srgb_k197
  · exact srgb_k198
  · exact srgb_k199
  · exact srgb_k200
  · exact srgb_k201
  · exact srgb_k202
  · exact srgb_k203
  · exact srgb_k204
  · exact srgb_k205
  · exact srgb_k206
  · exact srgb_k207

end Prism.C01
