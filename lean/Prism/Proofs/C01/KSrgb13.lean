import Prism.Check.C01

/-! Kernel-checked chunks of the regenerated 16-bit decode table (generated boiler-plate). -/
namespace Prism.C01

theorem srgb_k208 : chunkOk16 .srgb 208 = true := by decide +kernel
theorem srgb_k209 : chunkOk16 .srgb 209 = true := by decide +kernel
theorem srgb_k210 : chunkOk16 .srgb 210 = true := by decide +kernel
theorem srgb_k211 : chunkOk16 .srgb 211 = true := by decide +kernel
theorem srgb_k212 : chunkOk16 .srgb 212 = true := by decide +kernel
theorem srgb_k213 : chunkOk16 .srgb 213 = true := by decide +kernel
theorem srgb_k214 : chunkOk16 .srgb 214 = true := by decide +kernel
theorem srgb_k215 : chunkOk16 .srgb 215 = true := by decide +kernel
theorem srgb_k216 : chunkOk16 .srgb 216 = true := by decide +kernel
theorem srgb_k217 : chunkOk16 .srgb 217 = true := by decide +kernel
theorem srgb_k218 : chunkOk16 .srgb 218 = true := by decide +kernel
theorem srgb_k219 : chunkOk16 .srgb 219 = true := by decide +kernel
theorem srgb_k220 : chunkOk16 .srgb 220 = true := by decide +kernel
theorem srgb_k221 : chunkOk16 .srgb 221 = true := by decide +kernel
theorem srgb_k222 : chunkOk16 .srgb 222 = true := by decide +kernel
theorem srgb_k223 : chunkOk16 .srgb 223 = true := by decide +kernel

theorem srgb_file13 : ∀ k, 208 ≤ k → k < 224 → chunkOk16 .srgb k = true := by
  intro k h1 h2
  have h : k = 208 ∨ k = 209 ∨ k = 210 ∨ k = 211 ∨ k = 212 ∨ k = 213 ∨ k = 214 ∨ k = 215 ∨ k = 216 ∨ k = 217 ∨ k = 218 ∨ k = 219 ∨ k = 220 ∨ k = 221 ∨ k = 222 ∨ k = 223 := by omega
  rcases h with rfl | rfl | rfl | rfl | rfl | rfl | rfl | rfl | rfl | rfl | rfl | rfl | rfl | rfl | rfl | rfl
  · exact srgb_k208
  · exact srgb_k209
  · exact srgb_k210
  · exact srgb_k211
  · exact srgb_k212
  · exact srgb_k213
  · exact srgb_k214
  · exact srgb_k215
  · exact srgb_k216
  · exact srgb_k217
  · exact srgb_k218
  · exact srgb_k219
  · exact srgb_k220
  · exact srgb_k221
  · exact srgb_k222
  · exact srgb_k223

end Prism.C01
