import Prism.Check.C01

/-! Kernel-checked chunks of the regenerated 16-bit decode table (generated boiler-plate). -/
namespace Prism.C01

theorem srgb_k224 : chunkOk16 .srgb 224 = true := by decide +kernel
theorem srgb_k225 : chunkOk16 .srgb 225 = true := by decide +kernel
theorem srgb_k226 : chunkOk16 .srgb 226 = true := by decide +kernel
theorem srgb_k227 : chunkOk16 .srgb 227 = true := by decide +kernel
theorem srgb_k228 : chunkOk16 .srgb 228 = true := by decide +kernel
theorem srgb_k229 : chunkOk16 .srgb 229 = true := by decide +kernel
theorem srgb_k230 : chunkOk16 .srgb 230 = true := by decide +kernel
theorem srgb_k231 : chunkOk16 .srgb 231 = true := by decide +kernel
theorem srgb_k232 : chunkOk16 .srgb 232 = true := by decide +kernel
theorem srgb_k233 : chunkOk16 .srgb 233 = true := by decide +kernel
theorem srgb_k234 : chunkOk16 .srgb 234 = true := by decide +kernel
theorem srgb_k235 : chunkOk16 .srgb 235 = true := by decide +kernel
theorem srgb_k236 : chunkOk16 .srgb 236 = true := by decide +kernel
theorem srgb_k237 : chunkOk16 .srgb 237 = true := by decide +kernel
theorem srgb_k238 : chunkOk16 .srgb 238 = true := by decide +kernel
theorem srgb_k239 : chunkOk16 .srgb 239 = true := by decide +kernel

theorem srgb_file14 : ∀ k, 224 ≤ k → k < 240 → chunkOk16 .srgb k = true := by
  intro k h1 h2
  have h : k = 224 ∨ k = 225 ∨ k = 226 ∨ k = 227 ∨ k = 228 ∨ k = 229 ∨ k = 230 ∨ k = 231 ∨ k = 232 ∨ k = 233 ∨ k = 234 ∨ k = 235 ∨ k = 236 ∨ k = 237 ∨ k = 238 ∨ k = 239 := by omega
  rcases h with rfl | rfl | rfl | rfl | rfl | rfl | rfl | rfl | rfl | rfl | rfl | rfl | rfl | rfl | rfl | rfl
  · exact srgb_k224
  · exact srgb_k225
  · exact srgb_k226
  · exact srgb_k227
  · exact srgb_k228
  · exact srgb_k229
  · exact srgb_k230
  · exact srgb_k231
  · exact srgb_k232
  · exact srgb_k233
  · exact srgb_k234
  · exact srgb_k235
  · exact srgb_k236
  · exact srgb_k237
  · exact srgb_k238
  · exact srgb_k239

end Prism.C01
