import Prism.Check.C01

/-! Kernel-checked chunks of the regenerated 16-bit decode table (generated boiler-plate). -/
namespace Prism.C01

theorem srgb_k240 : chunkOk16 .srgb 240 = true := by decide +kernel
theorem srgb_k241 : chunkOk16 .srgb 241 = true := by decide +kernel
theorem srgb_k242 : chunkOk16 .srgb 242 = true := by decide +kernel
theorem srgb_k243 : chunkOk16 .srgb 243 = true := by decide +kernel
theorem srgb_k244 : chunkOk16 .srgb 244 = true := by decide +kernel
theorem srgb_k245 : chunkOk16 .srgb 245 = true := by decide +kernel
theorem srgb_k246 : chunkOk16 .srgb 246 = true := by decide +kernel
theorem srgb_k247 : chunkOk16 .srgb 247 = true := by decide +kernel
theorem srgb_k248 : chunkOk16 .srgb 248 = true := by decide +kernel
theorem srgb_k249 : chunkOk16 .srgb 249 = true := by decide +kernel
theorem srgb_k250 : chunkOk16 .srgb 250 = true := by decide +kernel
theorem srgb_k251 : chunkOk16 .srgb 251 = true := by decide +kernel
theorem srgb_k252 : chunkOk16 .srgb 252 = true := by decide +kernel
theorem srgb_k253 : chunkOk16 .srgb 253 = true := by decide +kernel
theorem srgb_k254 : chunkOk16 .srgb 254 = true := by decide +kernel
theorem srgb_k255 : chunkOk16 .srgb 255 = true := by decide +kernel

theorem srgb_file15 : ∀ k, 240 ≤ k → k < 256 → chunkOk16 .srgb k = true := by
  intro k h1 h2
  have h : k = 240 ∨ k = 241 ∨ k = 242 ∨ k = 243 ∨ k = 244 ∨ k = 245 ∨ k = 246 ∨ k = 247 ∨ k = 248 ∨ k = 249 ∨ k = 250 ∨ k = 251 ∨ k = 252 ∨ k = 253 ∨ k = 254 ∨ k = 255 := by omega
  rcases h with rfl | rfl | rfl | rfl | rfl | rfl | rfl | rfl | rfl | rfl | rfl | rfl | rfl | rfl | rfl | rfl
  · exact srgb_k240
  · exact srgb_k241
  · exact srgb_k242
  · exact srgb_k243
  · exact srgb_k244
  · exact srgb_k245
  · exact srgb_k246
  · exact srgb_k247
  · exact srgb_k248
  · exact srgb_k249
  · exact srgb_k250
  · exact srgb_k251
  · exact srgb_k252
  · exact srgb_k253
  · exact srgb_k254
  · exact srgb_k255

end Prism.C01
