import Prism.Check.C01

/-! Kernel-checked chunks of the regenerated 16-bit decode table (generated boiler-plate). -/
namespace Prism.C01

theorem srgb_k32 : chunkOk16 .srgb 32 = true := by decide +kernel
theorem srgb_k33 : chunkOk16 .srgb 33 = true := by decide +kernel
theorem srgb_k34 : chunkOk16 .srgb 34 = true := by decide +kernel
theorem srgb_k35 : chunkOk16 .srgb 35 = true := by decide +kernel
theorem srgb_k36 : chunkOk16 .srgb 36 = true := by decide +kernel
theorem srgb_k37 : chunkOk16 .srgb 37 = true := by decide +kernel
theorem srgb_k38 : chunkOk16 .srgb 38 = true := by decide +kernel
theorem srgb_k39 : chunkOk16 .srgb 39 = true := by decide +kernel
theorem srgb_k40 : chunkOk16 .srgb 40 = true := by decide +kernel
theorem srgb_k41 : chunkOk16 .srgb 41 = true := by decide +kernel
theorem srgb_k42 : chunkOk16 .srgb 42 = true := by decide +kernel
theorem srgb_k43 : chunkOk16 .srgb 43 = true := by decide +kernel
theorem srgb_k44 : chunkOk16 .srgb 44 = true := by decide +kernel
theorem srgb_k45 : chunkOk16 .srgb 45 = true := by decide +kernel
theorem srgb_k46 : chunkOk16 .srgb 46 = true := by decide +kernel
theorem srgb_k47 : chunkOk16 .srgb 47 = true := by decide +kernel

theorem srgb_file2 : ∀ k, 32 ≤ k → k < 48 → chunkOk16 .srgb k = true := by
  intro k h1 h2
  have h : k = 32 ∨ k = 33 ∨ k = 34 ∨ k = 35 ∨ k = 36 ∨ k = 37 ∨ k = 38 ∨ k = 39 ∨ k = 40 ∨ k = 41 ∨ k = 42 ∨ k = 43 ∨ k = 44 ∨ k = 45 ∨ k = 46 ∨ k = 47 := by omega
  rcases h with rfl | rfl | rfl | rfl | rfl | rfl | rfl | rfl | rfl | rfl | rfl | rfl | rfl | rfl | rfl | rfl
  · exact srgb_k32
  · exact srgb_k33
  · exact srgb_k34
  · exact srgb_k35
  · exact srgb_k36
  · exact srgb_k37
  · exact srgb_k38
  · exact srgb_k39
  · exact srgb_k40
  · exact srgb_k41
  · exact srgb_k42
  · exact srgb_k43
  · exact srgb_k44
  · exact srgb_k45
  · exact srgb_k46
  · exact srgb_k47

end Prism.C01
