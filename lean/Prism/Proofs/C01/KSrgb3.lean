import Prism.Check.C01

/-! Kernel-checked chunks of the regenerated 16-bit decode table (generated boiler-plate). -/
namespace Prism.C01

theorem srgb_k48 : chunkOk16 .srgb 48 = true := by decide +kernel
theorem srgb_k49 : chunkOk16 .srgb 49 = true := by decide +kernel
theorem srgb_k50 : chunkOk16 .srgb 50 = true := by decide +kernel
theorem srgb_k51 : chunkOk16 .srgb 51 = true := by decide +kernel
theorem srgb_k52 : chunkOk16 .srgb 52 = true := by decide +kernel
theorem srgb_k53 : chunkOk16 .srgb 53 = true := by decide +kernel
theorem srgb_k54 : chunkOk16 .srgb 54 = true := by decide +kernel
theorem srgb_k55 : chunkOk16 .srgb 55 = true := by decide +kernel
theorem srgb_k56 : chunkOk16 .srgb 56 = true := by decide +kernel
theorem srgb_k57 : chunkOk16 .srgb 57 = true := by decide +kernel
theorem srgb_k58 : chunkOk16 .srgb 58 = true := by decide +kernel
theorem srgb_k59 : chunkOk16 .srgb 59 = true := by decide +kernel
theorem srgb_k60 : chunkOk16 .srgb 60 = true := by decide +kernel
theorem srgb_k61 : chunkOk16 .srgb 61 = true := by decide +kernel
theorem srgb_k62 : chunkOk16 .srgb 62 = true := by decide +kernel
theorem srgb_k63 : chunkOk16 .srgb 63 = true := by decide +kernel

theorem srgb_file3 : ∀ k, 48 ≤ k → k < 64 → chunkOk16 .srgb k = true := by
  intro k h1 h2
  have h : k = 48 ∨ k = 49 ∨ k = 50 ∨ k = 51 ∨ k = 52 ∨ k = 53 ∨ k = 54 ∨ k = 55 ∨ k = 56 ∨ k = 57 ∨ k = 58 ∨ k = 59 ∨ k = 60 ∨ k = 61 ∨ k = 62 ∨ k = 63 := by omega
  rcases h with rfl | rfl | rfl | rfl | rfl | rfl | rfl | rfl | rfl | rfl | rfl | rfl | rfl | rfl | rfl | rfl
  · exact srgb_k48
  · exact srgb_k49
  · exact srgb_k50
  · exact srgb_k51
  · exact srgb_k52
  · exact srgb_k53
  · exact srgb_k54
  · exact srgb_k55
  · exact srgb_k56
  · exact srgb_k57
  · exact srgb_k58
  · exact srgb_k59
  · exact srgb_k60
  · exact srgb_k61
  · exact srgb_k62
  · exact srgb_k63

end Prism.C01
