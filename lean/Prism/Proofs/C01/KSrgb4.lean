import Prism.Check.C01

/-! Kernel-checked chunks of the regenerated 16-bit decode table (generated boiler-plate). -/
namespace Prism.C01

theorem srgb_k64 : chunkOk16 .srgb 64 = true := by decide +kernel
theorem srgb_k65 : chunkOk16 .srgb 65 = true := by decide +kernel
theorem srgb_k66 : chunkOk16 .srgb 66 = true := by decide +kernel
theorem srgb_k67 : chunkOk16 .srgb 67 = true := by decide +kernel
theorem srgb_k68 : chunkOk16 .srgb 68 = true := by decide +kernel
theorem srgb_k69 : chunkOk16 .srgb 69 = true := by decide +kernel
theorem srgb_k70 : chunkOk16 .srgb 70 = true := by decide +kernel
theorem srgb_k71 : chunkOk16 .srgb 71 = true := by decide +kernel
theorem srgb_k72 : chunkOk16 .srgb 72 = true := by decide +kernel
theorem srgb_k73 : chunkOk16 .srgb 73 = true := by decide +kernel
theorem srgb_k74 : chunkOk16 .srgb 74 = true := by decide +kernel
theorem srgb_k75 : chunkOk16 .srgb 75 = true := by decide +kernel
theorem srgb_k76 : chunkOk16 .srgb 76 = true := by decide +kernel
theorem srgb_k77 : chunkOk16 .srgb 77 = true := by decide +kernel
theorem srgb_k78 : chunkOk16 .srgb 78 = true := by decide +kernel
theorem srgb_k79 : chunkOk16 .srgb 79 = true := by decide +kernel

theorem srgb_file4 : ∀ k, 64 ≤ k → k < 80 → chunkOk16 .srgb k = true := by
  intro k h1 h2
  have h : k = 64 ∨ k = 65 ∨ k = 66 ∨ k = 67 ∨ k = 68 ∨ k = 69 ∨ k = 70 ∨ k = 71 ∨ k = 72 ∨ k = 73 ∨ k = 74 ∨ k = 75 ∨ k = 76 ∨ k = 77 ∨ k = 78 ∨ k = 79 := by omega
  rcases h with rfl | rfl | rfl | rfl | rfl | rfl | rfl | rfl | rfl | rfl | rfl | rfl | rfl | rfl | rfl | rfl
  · exact srgb_k64
  · exact srgb_k65
  · exact srgb_k66
  · exact srgb_k67
  · exact srgb_k68
  · exact srgb_k69
  · exact srgb_k70
  · exact srgb_k71
  · exact srgb_k72
  · exact srgb_k73
  · exact srgb_k74
  · exact srgb_k75
  · exact srgb_k76
  · exact srgb_k77
  · exact srgb_k78
  · exact srgb_k79

end Prism.C01
