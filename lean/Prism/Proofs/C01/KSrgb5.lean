import Prism.Check.C01

/-! Kernel-checked chunks of the regenerated 16-bit decode table (generated boiler-plate). -/
namespace Prism.C01

theorem srgb_k80 : chunkOk16 .srgb 80 = true := by decide +kernel
theorem srgb_k81 : chunkOk16 .srgb 81 = true := by decide +kernel
theorem srgb_k82 : chunkOk16 .srgb 82 = true := by decide +kernel
theorem srgb_k83 : chunkOk16 .srgb 83 = true := by decide +kernel
theorem srgb_k84 : chunkOk16 .srgb 84 = true := by decide +kernel
theorem srgb_k85 : chunkOk16 .srgb 85 = true := by decide +kernel
theorem srgb_k86 : chunkOk16 .srgb 86 = true := by decide +kernel
theorem srgb_k87 : chunkOk16 .srgb 87 = true := by decide +kernel
theorem srgb_k88 : chunkOk16 .srgb 88 = true := by decide +kernel
theorem srgb_k89 : chunkOk16 .srgb 89 = true := by decide +kernel
theorem srgb_k90 : chunkOk16 .srgb 90 = true := by decide +kernel
theorem srgb_k91 : chunkOk16 .srgb 91 = true := by decide +kernel
theorem srgb_k92 : chunkOk16 .srgb 92 = true := by decide +kernel
theorem srgb_k93 : chunkOk16 .srgb 93 = true := by decide +kernel
theorem srgb_k94 : chunkOk16 .srgb 94 = true := by decide +kernel
theorem srgb_k95 : chunkOk16 .srgb 95 = true := by decide +kernel

theorem srgb_file5 : ∀ k, 80 ≤ k → k < 96 → chunkOk16 .srgb k = true := by
  intro k h1 h2
  have h : k = 80 ∨ k = 81 ∨ k = 82 ∨ k = 83 ∨ k = 84 ∨ k = 85 ∨ k = 86 ∨ k = 87 ∨ k = 88 ∨ k = 89 ∨ k = 90 ∨ k = 91 ∨ k = 92 ∨ k = 93 ∨ k = 94 ∨ k = 95 := by omega
  rcases h with rfl | rfl | rfl | rfl | rfl | rfl | rfl | rfl | rfl | rfl | rfl | rfl | rfl | rfl | rfl | rfl
  · exact srgb_k80
  · exact srgb_k81
  · exact srgb_k82
  · exact srgb_k83
  · exact srgb_k84
  · exact srgb_k85
  · exact srgb_k86
  · exact srgb_k87
  · exact srgb_k88
  · exact srgb_k89
  · exact srgb_k90
  · exact srgb_k91
  · exact srgb_k92
  · exact srgb_k93
  · exact srgb_k94
  · exact srgb_k95

end Prism.C01
