import Prism.Check.C01

/-! Kernel-checked chunks of the regenerated 16-bit decode table (generated boiler-plate). -/
namespace Prism.C01

theorem srgb_k96 : chunkOk16 .srgb 96 = true := by decide +kernel
theorem srgb_k97 : chunkOk16 .srgb 97 = true := by decide +kernel
theorem srgb_k98 : chunkOk16 .srgb 98 = true := by decide +kernel
theorem srgb_k99 : chunkOk16 .srgb 99 = true := by decide +kernel
theorem srgb_k100 : chunkOk16 .srgb 100 = true := by decide +kernel
theorem srgb_k101 : chunkOk16 .srgb 101 = true := by decide +kernel
theorem srgb_k102 : chunkOk16 .srgb 102 = true := by decide +kernel
theorem srgb_k103 : chunkOk16 .srgb 103 = true := by decide +kernel
theorem srgb_k104 : chunkOk16 .srgb 104 = true := by decide +kernel
theorem srgb_k105 : chunkOk16 .srgb 105 = true := by decide +kernel
theorem srgb_k106 : chunkOk16 .srgb 106 = true := by decide +kernel
theorem srgb_k107 : chunkOk16 .srgb 107 = true := by decide +kernel
theorem srgb_k108 : chunkOk16 .srgb 108 = true := by decide +kernel
theorem srgb_k109 : chunkOk16 .srgb 109 = true := by decide +kernel
theorem srgb_k110 : chunkOk16 .srgb 110 = true := by decide +kernel
theorem srgb_k111 : chunkOk16 .srgb 111 = true := by decide +kernel

theorem srgb_file6 : ∀ k, 96 ≤ k → k < 112 → chunkOk16 .srgb k = true := by
  intro k h1 h2
  have h : k = 96 ∨ k = 97 ∨ k = 98 ∨ k = 99 ∨ k = 100 ∨ k = 101 ∨ k = 102 ∨ k = 103 ∨ k = 104 ∨ k = 105 ∨ k = 106 ∨ k = 107 ∨ k = 108 ∨ k = 109 ∨ k = 110 ∨ k = 111 := by omega
  rcases h with rfl | rfl | rfl | rfl | rfl | rfl | rfl | rfl | rfl | rfl | rfl | rfl | rfl | rfl | rfl | rfl
  · exact srgb_k96
  · exact srgb_k97
  · exact srgb_k98
  · exact srgb_k99
  · exact srgb_k100
  · exact srgb_k101
  · exact srgb_k102
  · exact srgb_k103
  · exact srgb_k104
  · exact srgb_k105
  · exact srgb_k106
  · exact srgb_k107
  · exact srgb_k108
  · exact srgb_k109
  · exact srgb_k110
  · exact srgb_k111

end Prism.C01
