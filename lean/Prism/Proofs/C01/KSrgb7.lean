import Prism.Check.C01

/-! Kernel-checked chunks of the regenerated 16-bit decode table (generated boiler-plate). -/
namespace Prism.C01

theorem srgb_k112 : chunkOk16 .srgb 112 = true := by decide +kernel
theorem srgb_k113 : chunkOk16 .srgb 113 = true := by decide +kernel
theorem srgb_k114 : chunkOk16 .srgb 114 = true := by decide +kernel
theorem srgb_k115 : chunkOk16 .srgb 115 = true := by decide +kernel
theorem srgb_k116 : chunkOk16 .srgb 116 = true := by decide +kernel
theorem srgb_k117 : chunkOk16 .srgb 117 = true := by decide +kernel
theorem srgb_k118 : chunkOk16 .srgb 118 = true := by decide +kernel
theorem srgb_k119 : chunkOk16 .srgb 119 = true := by decide +kernel
theorem srgb_k120 : chunkOk16 .srgb 120 = true := by decide +kernel
theorem srgb_k121 : chunkOk16 .srgb 121 = true := by decide +kernel
theorem srgb_k122 : chunkOk16 .srgb 122 = true := by decide +kernel
theorem srgb_k123 : chunkOk16 .srgb 123 = true := by decide +kernel
theorem srgb_k124 : chunkOk16 .srgb 124 = true := by decide +kernel
theorem srgb_k125 : chunkOk16 .srgb 125 = true := by decide +kernel
theorem srgb_k126 : chunkOk16 .srgb 126 = true := by decide +kernel
theorem srgb_k127 : chunkOk16 .srgb 127 = true := by decide +kernel

theorem srgb_file7 : ∀ k, 112 ≤ k → k < 128 → chunkOk16 .srgb k = true := by
  intro k h1 h2
  have h : k = 112 ∨ k = 113 ∨ k = 114 ∨ k = 115 ∨ k = 116 ∨ k = 117 ∨ k = 118 ∨ k = 119 ∨ k = 120 ∨ k = 121 ∨ k = 122 ∨ k = 123 ∨ k = 124 ∨ k = 125 ∨ k = 126 ∨ k = 127 := by omega
  rcases h with rfl | rfl | rfl | rfl | rfl | rfl | rfl | rfl | rfl | rfl | rfl | rfl | rfl | rfl | rfl | rfl
  · exact srgb_k112
  · exact srgb_k113
  · exact srgb_k114
  · exact srgb_k115
  · exact srgb_k116
  · exact srgb_k117
  · exact srgb_k118
  · exact srgb_k119
  · exact srgb_k120
  · exact srgb_k121
  · exact srgb_k122
  · exact srgb_k123
  · exact srgb_k124
  · exact srgb_k125
  · exact srgb_k126
  · exact srgb_k127

end Prism.C01
