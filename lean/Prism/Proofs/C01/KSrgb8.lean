import Prism.Check.C01

/-! Kernel-checked chunks of the regenerated 16-bit decode table (generated boiler-plate). -/
namespace Prism.C01

theorem srgb_k128 : chunkOk16 .srgb 128 = true := by decide +kernel
theorem srgb_k129 : chunkOk16 .srgb 129 = true := by decide +kernel
theorem srgb_k130 : chunkOk16 .srgb 130 = true := by decide +kernel
theorem srgb_k131 : chunkOk16 .srgb 131 = true := by decide +kernel
theorem srgb_k132 : chunkOk16 .srgb 132 = true := by decide +kernel
theorem srgb_k133 : chunkOk16 .srgb 133 = true := by decide +kernel
theorem srgb_k134 : chunkOk16 .srgb 134 = true := by decide +kernel
theorem srgb_k135 : chunkOk16 .srgb 135 = true := by decide +kernel
theorem srgb_k136 : chunkOk16 .srgb 136 = true := by decide +kernel
theorem srgb_k137 : chunkOk16 .srgb 137 = true := by decide +kernel
theorem srgb_k138 : chunkOk16 .srgb 138 = true := by decide +kernel
theorem srgb_k139 : chunkOk16 .srgb 139 = true := by decide +kernel
theorem srgb_k140 : chunkOk16 .srgb 140 = true := by decide +kernel
theorem srgb_k141 : chunkOk16 .srgb 141 = true := by decide +kernel
theorem srgb_k142 : chunkOk16 .srgb 142 = true := by decide +kernel
theorem srgb_k143 : chunkOk16 .srgb 143 = true := by decide +kernel

theorem srgb_file8 : ∀ k, 128 ≤ k → k < 144 → chunkOk16 .srgb k = true := by
  intro k h1 h2
  have h : k = 128 ∨ k = 129 ∨ k = 130 ∨ k = 131 ∨ k = 132 ∨ k = 133 ∨ k = 134 ∨ k = 135 ∨ k = 136 ∨ k = 137 ∨ k = 138 ∨ k = 139 ∨ k = 140 ∨ k = 141 ∨ k = 142 ∨ k = 143 := by omega
  rcases h with rfl | rfl | rfl | rfl | rfl | rfl | rfl | rfl | rfl | rfl | rfl | rfl | rfl | rfl | rfl | rfl
  · exact srgb_k128
  · exact srgb_k129
  · exact srgb_k130
  · exact srgb_k131
  · exact srgb_k132
  · exact srgb_k133
  · exact srgb_k134
  · exact srgb_k135
  · exact srgb_k136
  · exact srgb_k137
  · exact srgb_k138
  · exact srgb_k139
  · exact srgb_k140
  · exact srgb_k141
  · exact srgb_k142
  · exact srgb_k143

end Prism.C01
