import Prism.Check.C01

/-! Kernel-checked chunks of the regenerated 16-bit decode table (generated boiler-plate). -/
namespace Prism.C01

theorem srgb_k144 : chunkOk16 .srgb 144 = true := by decide +kernel
theorem srgb_k145 : chunkOk16 .srgb 145 = true := by decide +kernel
theorem srgb_k146 : chunkOk16 .srgb 146 = true := by decide +kernel
theorem srgb_k147 : chunkOk16 .srgb 147 = true := by decide +kernel
theorem srgb_k148 : chunkOk16 .srgb 148 = true := by decide +kernel
theorem srgb_k149 : chunkOk16 .srgb 149 = true := by decide +kernel
theorem srgb_k150 : chunkOk16 .srgb 150 = true := by decide +kernel
theorem srgb_k151 : chunkOk16 .srgb 151 = true := by decide +kernel
theorem srgb_k152 : chunkOk16 .srgb 152 = true := by decide +kernel
theorem srgb_k153 : chunkOk16 .srgb 153 = true := by decide +kernel
theorem srgb_k154 : chunkOk16 .srgb 154 = true := by decide +kernel
theorem srgb_k155 : chunkOk16 .srgb 155 = true := by decide +kernel
theorem srgb_k156 : chunkOk16 .srgb 156 = true := by decide +kernel
theorem srgb_k157 : chunkOk16 .srgb 157 = true := by decide +kernel
theorem srgb_k158 : chunkOk16 .srgb 158 = true := by decide +kernel
theorem srgb_k159 : chunkOk16 .srgb 159 = true := by decide +kernel

theorem srgb_file9 : ∀ k, 144 ≤ k → k < 160 → chunkOk16 .srgb k = true := by
  intro k h1 h2
  have h : k = 144 ∨ k = 145 ∨ k = 146 ∨ k = 147 ∨ k = 148 ∨ k = 149 ∨ k = 150 ∨ k = 151 ∨ k = 152 ∨ k = 153 ∨ k = 154 ∨ k = 155 ∨ k = 156 ∨ k = 157 ∨ k = 158 ∨ k = 159 := by omega
  rcases h with rfl | rfl | rfl | rfl | rfl | rfl | rfl | rfl | rfl | rfl | rfl | rfl | rfl | rfl | rfl | rfl
  · exact srgb_k144
  · exact srgb_k145
  · exact srgb_k146
  · exact srgb_k147
  · exact srgb_k148
  · exact srgb_k149
  · exact srgb_k150
  · exact srgb_k151
  · exact srgb_k152
  · exact srgb_k153
  · exact srgb_k154
  · exact srgb_k155
  · exact srgb_k156
  · exact srgb_k157
  · exact srgb_k158
  · exact srgb_k159

end Prism.C01
