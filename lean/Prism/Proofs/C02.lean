import Prism.Proofs.C02.AllEncsrgb
import Prism.Proofs.C02.AllEncadobe
import Prism.Proofs.C02.AllEncprophoto
import Prism.Proofs.C02.AllEncp3
import Prism.Proofs.C14

/-!
# C02 — encoding is clipped, monotone and accurate to table resolution for every float (partial)

What is proved here for **every** float32 bit pattern: the clamping clauses (`x ≤ 0 → 0`,
`x ≥ 1 → max`, NaN → the platform's `uint(NaN)`), for the three quantisers and for the
8/16-bit encoders of the four spaces; and that the encoders are a monotone table applied to
the quantiser index (tables non-decreasing, end points exact — kernel-checked over the
regenerated tables).

Partial: monotonicity and range of the quantiser's *middle branch*
`trunc(fl(fl(x·N) + ½))` for 0 < x < 1 rest on monotonicity of IEEE rounding, which is not yet
proved for the executable softfloat; those clauses are covered by the exhaustive run-length
correspondence (every float32 in [0,1], thorough tier) and the bucket-boundary sweep (quick).
-/

namespace Prism
open SF

theorem enc16_chunks (s : Space) : ∀ k, k < 256 → enc16ChunkOk s k = true := by
  cases s
  · exact C02.encsrgb_chunks
  · exact C02.encadobe_chunks
  · exact C02.encprophoto_chunks
  · exact C02.encp3_chunks

theorem enc16_entry (s : Space) (i : Nat) (hi : i < 65536) : enc16EntryOk s i = true :=
  allDepth_spec _ 8 _ (enc16_chunks s (i / 256) (by omega)) i (by omega) (by omega)

theorem enc8_table (s : Space) : enc8TableOk s = true := by
  cases s
  · exact C02.encsrgb_8
  · exact C02.encadobe_8
  · exact C02.encprophoto_8
  · exact C02.encp3_8

theorem enc_endpoints (s : Space) : enc8 s 0 = 0 ∧ enc8 s 511 = 255 ∧ enc16 s 0 = 0 ∧ enc16 s 65535 = 65535 := by
  have h : encEndpointsOk s = true := by
    cases s
    · exact C02.encsrgb_ends
    · exact C02.encadobe_ends
    · exact C02.encprophoto_ends
    · exact C02.encp3_ends
  unfold encEndpointsOk at h
  simp only [Bool.and_eq_true, beq_iff_eq] at h
  exact ⟨h.1.1.1, h.1.1.2, h.1.2, h.2⟩

/-- **C02 (tables are monotone).** The 16-bit encode table never decreases. -/
theorem C02_enc16_mono (s : Space) (i j : Nat) (hij : i ≤ j) (hj : j < 65536) : enc16 s i ≤ enc16 s j := by
  induction j with
  | zero => have : i = 0 := by omega
            subst this; exact Nat.le_refl _
  | succ n ih =>
    by_cases h : i = n + 1
    · subst h; exact Nat.le_refl _
    · have h1 := ih (by omega) (by omega)
      have h2 := enc16_entry s n (by omega)
      unfold enc16EntryOk at h2
      simp only [force_eq, Bool.and_eq_true, Bool.or_eq_true, beq_iff_eq, Nat.ble_eq] at h2
      rcases h2.2 with h3 | h3
      · omega
      · exact Nat.le_trans h1 h3

theorem C02_enc8_mono (s : Space) (i j : Nat) (hij : i ≤ j) (hj : j < 512) : enc8 s i ≤ enc8 s j := by
  induction j with
  | zero => have : i = 0 := by omega
            subst this; exact Nat.le_refl _
  | succ n ih =>
    by_cases h : i = n + 1
    · subst h; exact Nat.le_refl _
    · have h1 := ih (by omega) (by omega)
      have h2 := allDepth_spec _ 9 _ (enc8_table s) n (by omega) (by omega)
      unfold enc8EntryOk at h2
      simp only [force_eq, Bool.and_eq_true, Bool.or_eq_true, beq_iff_eq, Nat.ble_eq] at h2
      rcases h2.2 with h3 | h3
      · omega
      · exact Nat.le_trans h1 h3

/-- **C02 (clip low).** For every float32 `x ≤ 0` (−0, negatives, −∞ included) every quantiser
and encoder returns 0. -/
theorem C02_clip_low (s : Space) (N x : Nat) (h : F32.le x F32.zero = true) :
    quant N x = 0 ∧ to8 s x = 0 ∧ to16 s x = 0 := by
  have hq : ∀ M, quant M x = 0 := by intro M; unfold quant; simp [h]
  refine ⟨hq N, ?_, ?_⟩
  · unfold to8 quant9; rw [hq]; exact (enc_endpoints s).1
  · unfold to16 quant16; rw [hq]; exact (enc_endpoints s).2.2.1

/-- **C02 (clip high).** For every float32 `x ≥ 1` (+∞ included) they return the maximum code. -/
theorem C02_clip_high (s : Space) (N x : Nat) (h0 : F32.le x F32.zero = false) (h : F32.ge x F32.one = true) :
    quant N x = N ∧ to8 s x = 255 ∧ to16 s x = 65535 := by
  have hq : ∀ M, quant M x = M := by intro M; unfold quant; simp [h0, h]
  refine ⟨hq N, ?_, ?_⟩
  · unfold to8 quant9; rw [hq]; exact (enc_endpoints s).2.1
  · unfold to16 quant16; rw [hq]; exact (enc_endpoints s).2.2.2

/-- **C02 (NaN does not panic).** A NaN input yields the platform's `uint(NaN)` (0 on amd64,
re-measured by the harness on every run), an in-range table index. -/
theorem C02_nan (s : Space) (N x : Nat) (h : isNaN b32 x = true) :
    quant N x = nanToUInt ∧ to8 s x = 0 ∧ to16 s x = 0 := by
  have hle : F32.le x F32.zero = false := by
    unfold F32.le SF.le SF.lt SF.eq; simp [force_eq, h]
  have hge : F32.ge x F32.one = false := by
    unfold F32.ge SF.ge SF.le SF.lt SF.eq; simp [force_eq, h]
  have hq : ∀ M, quant M x = nanToUInt := by intro M; unfold quant; simp [hle, hge, h]
  refine ⟨hq N, ?_, ?_⟩
  · unfold to8 quant9; rw [hq]; exact (enc_endpoints s).1
  · unfold to16 quant16; rw [hq]; exact (enc_endpoints s).2.2.1

/-- **C02 (encoders factor through the quantiser index).** `To8Bit x = LUT8[quant9 x]`,
`To16Bit x = LUT16[quant16 x]`: with the tables monotone, the encoder is monotone wherever the
quantiser is, and clipped wherever the quantiser is. -/
theorem C02_encoder_factors (s : Space) (x : Nat) : to8 s x = enc8 s (quant9 x) ∧ to16 s x = enc16 s (quant16 x) :=
  ⟨rfl, rfl⟩

theorem C02_encoder_mono_of_index (s : Space) (x y : Nat) (hy : quant16 y < 65536) (h : quant16 x ≤ quant16 y) :
    to16 s x ≤ to16 s y := C02_enc16_mono s _ _ h hy

/-- the table probes `float32(i)/65535` of the dumper land exactly in bucket `i` (this is C14's
alpha round trip): every 16-bit table entry is read -/
theorem C02_probe16 (i : Nat) (hi : i < 65536) : quant16 (F32.div (F32.ofNat i) f65535) = i :=
  C14_alpha16_roundtrip i hi

end Prism
