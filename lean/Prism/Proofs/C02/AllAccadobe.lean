import Prism.Proofs.C02.KAccadobe0
import Prism.Proofs.C02.KAccadobe1
import Prism.Proofs.C02.KAccadobe2
import Prism.Proofs.C02.KAccadobe3
import Prism.Proofs.C02.KAccadobe4
import Prism.Proofs.C02.KAccadobe5
import Prism.Proofs.C02.KAccadobe6
import Prism.Proofs.C02.KAccadobe7
import Prism.Proofs.C02.KAccadobe8
import Prism.Proofs.C02.KAccadobe9
import Prism.Proofs.C02.KAccadobe10
import Prism.Proofs.C02.KAccadobe11
import Prism.Proofs.C02.KAccadobe12
import Prism.Proofs.C02.KAccadobe13
import Prism.Proofs.C02.KAccadobe14
import Prism.Proofs.C02.KAccadobe15

namespace Prism.C02

theorem accadobe_chunks : ∀ k, k < 256 → enc16AccChunk .adobe k = true := by
  intro k hk
  have h : (0 ≤ k ∧ k < 16) ∨ (16 ≤ k ∧ k < 32) ∨ (32 ≤ k ∧ k < 48) ∨ (48 ≤ k ∧ k < 64) ∨ (64 ≤ k ∧ k < 80) ∨ (80 ≤ k ∧ k < 96) ∨ (96 ≤ k ∧ k < 112) ∨ (112 ≤ k ∧ k < 128) ∨ (128 ≤ k ∧ k < 144) ∨ (144 ≤ k ∧ k < 160) ∨ (160 ≤ k ∧ k < 176) ∨ (176 ≤ k ∧ k < 192) ∨ (192 ≤ k ∧ k < 208) ∨ (208 ≤ k ∧ k < 224) ∨ (224 ≤ k ∧ k < 240) ∨ (240 ≤ k ∧ k < 256) := by omega
  rcases h with h | h | h | h | h | h | h | h | h | h | h | h | h | h | h | h
  · exact accadobe_file0 k h.1 h.2
  · exact accadobe_file1 k h.1 h.2
  · exact accadobe_file2 k h.1 h.2
  · exact accadobe_file3 k h.1 h.2
  · exact accadobe_file4 k h.1 h.2
  · exact accadobe_file5 k h.1 h.2
  · exact accadobe_file6 k h.1 h.2
  · exact accadobe_file7 k h.1 h.2
  · exact accadobe_file8 k h.1 h.2
  · exact accadobe_file9 k h.1 h.2
  · exact accadobe_file10 k h.1 h.2
  · exact accadobe_file11 k h.1 h.2
  · exact accadobe_file12 k h.1 h.2
  · exact accadobe_file13 k h.1 h.2
  · exact accadobe_file14 k h.1 h.2
  · exact accadobe_file15 k h.1 h.2

theorem accadobe_8 : enc8AccTable .adobe = true := by decide +kernel

end Prism.C02
