import Prism.Proofs.C02.KAccp30
import Prism.Proofs.C02.KAccp31
import Prism.Proofs.C02.KAccp32
import Prism.Proofs.C02.KAccp33
import Prism.Proofs.C02.KAccp34
import Prism.Proofs.C02.KAccp35
import Prism.Proofs.C02.KAccp36
import Prism.Proofs.C02.KAccp37
import Prism.Proofs.C02.KAccp38
import Prism.Proofs.C02.KAccp39
import Prism.Proofs.C02.KAccp310
import Prism.Proofs.C02.KAccp311
import Prism.Proofs.C02.KAccp312
import Prism.Proofs.C02.KAccp313
import Prism.Proofs.C02.KAccp314
import Prism.Proofs.C02.KAccp315

namespace Prism.C02

theorem accp3_chunks : ∀ k, k < 256 → enc16AccChunk .p3 k = true := by
  intro k hk
  have h : (0 ≤ k ∧ k < 16) ∨ (16 ≤ k ∧ k < 32) ∨ (32 ≤ k ∧ k < 48) ∨ (48 ≤ k ∧ k < 64) ∨ (64 ≤ k ∧ k < 80) ∨ (80 ≤ k ∧ k < 96) ∨ (96 ≤ k ∧ k < 112) ∨ (112 ≤ k ∧ k < 128) ∨ (128 ≤ k ∧ k < 144) ∨ (144 ≤ k ∧ k < 160) ∨ (160 ≤ k ∧ k < 176) ∨ (176 ≤ k ∧ k < 192) ∨ (192 ≤ k ∧ k < 208) ∨ (208 ≤ k ∧ k < 224) ∨ (224 ≤ k ∧ k < 240) ∨ (240 ≤ k ∧ k < 256) := by omega
  rcases h with h | h | h | h | h | h | h | h | h | h | h | h | h | h | h | h
  · exact accp3_file0 k h.1 h.2
  · exact accp3_file1 k h.1 h.2
  · exact accp3_file2 k h.1 h.2
  · exact accp3_file3 k h.1 h.2
  · exact accp3_file4 k h.1 h.2
  · exact accp3_file5 k h.1 h.2
  · exact accp3_file6 k h.1 h.2
  · exact accp3_file7 k h.1 h.2
  · exact accp3_file8 k h.1 h.2
  · exact accp3_file9 k h.1 h.2
  · exact accp3_file10 k h.1 h.2
  · exact accp3_file11 k h.1 h.2
  · exact accp3_file12 k h.1 h.2
  · exact accp3_file13 k h.1 h.2
  · exact accp3_file14 k h.1 h.2
  · exact accp3_file15 k h.1 h.2

theorem accp3_8 : enc8AccTable .p3 = true := by decide +kernel

end Prism.C02
