import Prism.Proofs.C02.KAccprophoto0
import Prism.Proofs.C02.KAccprophoto1
import Prism.Proofs.C02.KAccprophoto2
import Prism.Proofs.C02.KAccprophoto3
import Prism.Proofs.C02.KAccprophoto4
import Prism.Proofs.C02.KAccprophoto5
import Prism.Proofs.C02.KAccprophoto6
import Prism.Proofs.C02.KAccprophoto7
import Prism.Proofs.C02.KAccprophoto8
import Prism.Proofs.C02.KAccprophoto9
import Prism.Proofs.C02.KAccprophoto10
import Prism.Proofs.C02.KAccprophoto11
import Prism.Proofs.C02.KAccprophoto12
import Prism.Proofs.C02.KAccprophoto13
import Prism.Proofs.C02.KAccprophoto14
import Prism.Proofs.C02.KAccprophoto15

namespace Prism.C02

theorem accprophoto_chunks : ∀ k, k < 256 → enc16AccChunk .prophoto k = true := by
  intro k hk
  have h : (0 ≤ k ∧ k < 16) ∨ (16 ≤ k ∧ k < 32) ∨ (32 ≤ k ∧ k < 48) ∨ (48 ≤ k ∧ k < 64) ∨ (64 ≤ k ∧ k < 80) ∨ (80 ≤ k ∧ k < 96) ∨ (96 ≤ k ∧ k < 112) ∨ (112 ≤ k ∧ k < 128) ∨ (128 ≤ k ∧ k < 144) ∨ (144 ≤ k ∧ k < 160) ∨ (160 ≤ k ∧ k < 176) ∨ (176 ≤ k ∧ k < 192) ∨ (192 ≤ k ∧ k < 208) ∨ (208 ≤ k ∧ k < 224) ∨ (224 ≤ k ∧ k < 240) ∨ (240 ≤ k ∧ k < 256) := by omega
  rcases h with h | h | h | h | h | h | h | h | h | h | h | h | h | h | h | h
  · exact accprophoto_file0 k h.1 h.2
  · exact accprophoto_file1 k h.1 h.2
  · exact accprophoto_file2 k h.1 h.2
  · exact accprophoto_file3 k h.1 h.2
  · exact accprophoto_file4 k h.1 h.2
  · exact accprophoto_file5 k h.1 h.2
  · exact accprophoto_file6 k h.1 h.2
  · exact accprophoto_file7 k h.1 h.2
  · exact accprophoto_file8 k h.1 h.2
  · exact accprophoto_file9 k h.1 h.2
  · exact accprophoto_file10 k h.1 h.2
  · exact accprophoto_file11 k h.1 h.2
  · exact accprophoto_file12 k h.1 h.2
  · exact accprophoto_file13 k h.1 h.2
  · exact accprophoto_file14 k h.1 h.2
  · exact accprophoto_file15 k h.1 h.2

theorem accprophoto_8 : enc8AccTable .prophoto = true := by decide +kernel

end Prism.C02
