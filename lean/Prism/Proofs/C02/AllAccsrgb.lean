import Prism.Proofs.C02.KAccsrgb0
import Prism.Proofs.C02.KAccsrgb1
import Prism.Proofs.C02.KAccsrgb2
import Prism.Proofs.C02.KAccsrgb3
import Prism.Proofs.C02.KAccsrgb4
import Prism.Proofs.C02.KAccsrgb5
import Prism.Proofs.C02.KAccsrgb6
import Prism.Proofs.C02.KAccsrgb7
import Prism.Proofs.C02.KAccsrgb8
import Prism.Proofs.C02.KAccsrgb9
import Prism.Proofs.C02.KAccsrgb10
import Prism.Proofs.C02.KAccsrgb11
import Prism.Proofs.C02.KAccsrgb12
import Prism.Proofs.C02.KAccsrgb13
import Prism.Proofs.C02.KAccsrgb14
import Prism.Proofs.C02.KAccsrgb15

namespace Prism.C02

theorem accsrgb_chunks : ∀ k, k < 256 → enc16AccChunk .srgb k = true := by
  intro k hk
  have h : (0 ≤ k ∧ k < 16) ∨ (16 ≤ k ∧ k < 32) ∨ (32 ≤ k ∧ k < 48) ∨ (48 ≤ k ∧ k < 64) ∨ (64 ≤ k ∧ k < 80) ∨ (80 ≤ k ∧ k < 96) ∨ (96 ≤ k ∧ k < 112) ∨ (112 ≤ k ∧ k < 128) ∨ (128 ≤ k ∧ k < 144) ∨ (144 ≤ k ∧ k < 160) ∨ (160 ≤ k ∧ k < 176) ∨ (176 ≤ k ∧ k < 192) ∨ (192 ≤ k ∧ k < 208) ∨ (208 ≤ k ∧ k < 224) ∨ (224 ≤ k ∧ k < 240) ∨ (240 ≤ k ∧ k < 256) := by omega
  rcases h with h | h | h | h | h | h | h | h | h | h | h | h | h | h | h | h
  · exact accsrgb_file0 k h.1 h.2
  · exact accsrgb_file1 k h.1 h.2
  · exact accsrgb_file2 k h.1 h.2
  · exact accsrgb_file3 k h.1 h.2
  · exact accsrgb_file4 k h.1 h.2
  · exact accsrgb_file5 k h.1 h.2
  · exact accsrgb_file6 k h.1 h.2
  · exact accsrgb_file7 k h.1 h.2
  · exact accsrgb_file8 k h.1 h.2
  · exact accsrgb_file9 k h.1 h.2
  · exact accsrgb_file10 k h.1 h.2
  · exact accsrgb_file11 k h.1 h.2
  · exact accsrgb_file12 k h.1 h.2
  · exact accsrgb_file13 k h.1 h.2
  · exact accsrgb_file14 k h.1 h.2
  · exact accsrgb_file15 k h.1 h.2

theorem accsrgb_8 : enc8AccTable .srgb = true := by decide +kernel

end Prism.C02
