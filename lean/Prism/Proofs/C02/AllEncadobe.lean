import Prism.Proofs.C02.KEncadobe0
import Prism.Proofs.C02.KEncadobe1
import Prism.Proofs.C02.KEncadobe2
import Prism.Proofs.C02.KEncadobe3
import Prism.Proofs.C02.KEncadobe4
import Prism.Proofs.C02.KEncadobe5
import Prism.Proofs.C02.KEncadobe6
import Prism.Proofs.C02.KEncadobe7
import Prism.Proofs.C02.KEncadobe8
import Prism.Proofs.C02.KEncadobe9
import Prism.Proofs.C02.KEncadobe10
import Prism.Proofs.C02.KEncadobe11
import Prism.Proofs.C02.KEncadobe12
import Prism.Proofs.C02.KEncadobe13
import Prism.Proofs.C02.KEncadobe14
import Prism.Proofs.C02.KEncadobe15

namespace Prism.C02

theorem encadobe_chunks : ∀ k, k < 256 → enc16ChunkOk .adobe k = true := by
  intro k hk
  have h : (0 ≤ k ∧ k < 16) ∨ (16 ≤ k ∧ k < 32) ∨ (32 ≤ k ∧ k < 48) ∨ (48 ≤ k ∧ k < 64) ∨ (64 ≤ k ∧ k < 80) ∨ (80 ≤ k ∧ k < 96) ∨ (96 ≤ k ∧ k < 112) ∨ (112 ≤ k ∧ k < 128) ∨ (128 ≤ k ∧ k < 144) ∨ (144 ≤ k ∧ k < 160) ∨ (160 ≤ k ∧ k < 176) ∨ (176 ≤ k ∧ k < 192) ∨ (192 ≤ k ∧ k < 208) ∨ (208 ≤ k ∧ k < 224) ∨ (224 ≤ k ∧ k < 240) ∨ (240 ≤ k ∧ k < 256) := by omega
  rcases h with h | h | h | h | h | h | h | h | h | h | h | h | h | h | h | h
  · exact encadobe_file0 k h.1 h.2
  · exact encadobe_file1 k h.1 h.2
  · exact encadobe_file2 k h.1 h.2
  · exact encadobe_file3 k h.1 h.2
  · exact encadobe_file4 k h.1 h.2
  · exact encadobe_file5 k h.1 h.2
  · exact encadobe_file6 k h.1 h.2
  · exact encadobe_file7 k h.1 h.2
  · exact encadobe_file8 k h.1 h.2
  · exact encadobe_file9 k h.1 h.2
  · exact encadobe_file10 k h.1 h.2
  · exact encadobe_file11 k h.1 h.2
  · exact encadobe_file12 k h.1 h.2
  · exact encadobe_file13 k h.1 h.2
  · exact encadobe_file14 k h.1 h.2
  · exact encadobe_file15 k h.1 h.2

theorem encadobe_8 : enc8TableOk .adobe = true := by decide +kernel
theorem encadobe_ends : encEndpointsOk .adobe = true := by decide +kernel

end Prism.C02
