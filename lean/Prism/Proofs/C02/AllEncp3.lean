import Prism.Proofs.C02.KEncp30
import Prism.Proofs.C02.KEncp31
import Prism.Proofs.C02.KEncp32
import Prism.Proofs.C02.KEncp33
import Prism.Proofs.C02.KEncp34
import Prism.Proofs.C02.KEncp35
import Prism.Proofs.C02.KEncp36
import Prism.Proofs.C02.KEncp37
import Prism.Proofs.C02.KEncp38
import Prism.Proofs.C02.KEncp39
import Prism.Proofs.C02.KEncp310
import Prism.Proofs.C02.KEncp311
import Prism.Proofs.C02.KEncp312
import Prism.Proofs.C02.KEncp313
import Prism.Proofs.C02.KEncp314
import Prism.Proofs.C02.KEncp315

namespace Prism.C02

theorem encp3_chunks : ∀ k, k < 256 → enc16ChunkOk .p3 k = true := by
  intro k hk
  have h : (0 ≤ k ∧ k < 16) ∨ (16 ≤ k ∧ k < 32) ∨ (32 ≤ k ∧ k < 48) ∨ (48 ≤ k ∧ k < 64) ∨ (64 ≤ k ∧ k < 80) ∨ (80 ≤ k ∧ k < 96) ∨ (96 ≤ k ∧ k < 112) ∨ (112 ≤ k ∧ k < 128) ∨ (128 ≤ k ∧ k < 144) ∨ (144 ≤ k ∧ k < 160) ∨ (160 ≤ k ∧ k < 176) ∨ (176 ≤ k ∧ k < 192) ∨ (192 ≤ k ∧ k < 208) ∨ (208 ≤ k ∧ k < 224) ∨ (224 ≤ k ∧ k < 240) ∨ (240 ≤ k ∧ k < 256) := by omega
  rcases h with h | h | h | h | h | h | h | h | h | h | h | h | h | h | h | h
  · exact encp3_file0 k h.1 h.2
  · exact encp3_file1 k h.1 h.2
  · exact encp3_file2 k h.1 h.2
  · exact encp3_file3 k h.1 h.2
  · exact encp3_file4 k h.1 h.2
  · exact encp3_file5 k h.1 h.2
  · exact encp3_file6 k h.1 h.2
  · exact encp3_file7 k h.1 h.2
  · exact encp3_file8 k h.1 h.2
  · exact encp3_file9 k h.1 h.2
  · exact encp3_file10 k h.1 h.2
  · exact encp3_file11 k h.1 h.2
  · exact encp3_file12 k h.1 h.2
  · exact encp3_file13 k h.1 h.2
  · exact encp3_file14 k h.1 h.2
  · exact encp3_file15 k h.1 h.2

theorem encp3_8 : enc8TableOk .p3 = true := by decide +kernel
theorem encp3_ends : encEndpointsOk .p3 = true := by decide +kernel

end Prism.C02
