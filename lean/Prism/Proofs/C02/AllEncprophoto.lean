import Prism.Proofs.C02.KEncprophoto0
import Prism.Proofs.C02.KEncprophoto1
import Prism.Proofs.C02.KEncprophoto2
import Prism.Proofs.C02.KEncprophoto3
import Prism.Proofs.C02.KEncprophoto4
import Prism.Proofs.C02.KEncprophoto5
import Prism.Proofs.C02.KEncprophoto6
import Prism.Proofs.C02.KEncprophoto7
import Prism.Proofs.C02.KEncprophoto8
import Prism.Proofs.C02.KEncprophoto9
import Prism.Proofs.C02.KEncprophoto10
import Prism.Proofs.C02.KEncprophoto11
import Prism.Proofs.C02.KEncprophoto12
import Prism.Proofs.C02.KEncprophoto13
import Prism.Proofs.C02.KEncprophoto14
import Prism.Proofs.C02.KEncprophoto15

namespace Prism.C02

theorem encprophoto_chunks : ∀ k, k < 256 → enc16ChunkOk .prophoto k = true := by
  intro k hk
  have h : (0 ≤ k ∧ k < 16) ∨ (16 ≤ k ∧ k < 32) ∨ (32 ≤ k ∧ k < 48) ∨ (48 ≤ k ∧ k < 64) ∨ (64 ≤ k ∧ k < 80) ∨ (80 ≤ k ∧ k < 96) ∨ (96 ≤ k ∧ k < 112) ∨ (112 ≤ k ∧ k < 128) ∨ (128 ≤ k ∧ k < 144) ∨ (144 ≤ k ∧ k < 160) ∨ (160 ≤ k ∧ k < 176) ∨ (176 ≤ k ∧ k < 192) ∨ (192 ≤ k ∧ k < 208) ∨ (208 ≤ k ∧ k < 224) ∨ (224 ≤ k ∧ k < 240) ∨ (240 ≤ k ∧ k < 256) := by omega
  rcases h with h | h | h | h | h | h | h | h | h | h | h | h | h | h | h | h
  · exact encprophoto_file0 k h.1 h.2
  · exact encprophoto_file1 k h.1 h.2
  · exact encprophoto_file2 k h.1 h.2
  · exact encprophoto_file3 k h.1 h.2
  · exact encprophoto_file4 k h.1 h.2
  · exact encprophoto_file5 k h.1 h.2
  · exact encprophoto_file6 k h.1 h.2
  · exact encprophoto_file7 k h.1 h.2
  · exact encprophoto_file8 k h.1 h.2
  · exact encprophoto_file9 k h.1 h.2
  · exact encprophoto_file10 k h.1 h.2
  · exact encprophoto_file11 k h.1 h.2
  · exact encprophoto_file12 k h.1 h.2
  · exact encprophoto_file13 k h.1 h.2
  · exact encprophoto_file14 k h.1 h.2
  · exact encprophoto_file15 k h.1 h.2

theorem encprophoto_8 : enc8TableOk .prophoto = true := by decide +kernel
theorem encprophoto_ends : encEndpointsOk .prophoto = true := by decide +kernel

end Prism.C02
