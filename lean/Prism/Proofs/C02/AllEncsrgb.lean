import Prism.Proofs.C02.KEncsrgb0
import Prism.Proofs.C02.KEncsrgb1
import Prism.Proofs.C02.KEncsrgb2
import Prism.Proofs.C02.KEncsrgb3
import Prism.Proofs.C02.KEncsrgb4
import Prism.Proofs.C02.KEncsrgb5
import Prism.Proofs.C02.KEncsrgb6
import Prism.Proofs.C02.KEncsrgb7
import Prism.Proofs.C02.KEncsrgb8
import Prism.Proofs.C02.KEncsrgb9
import Prism.Proofs.C02.KEncsrgb10
import Prism.Proofs.C02.KEncsrgb11
import Prism.Proofs.C02.KEncsrgb12
import Prism.Proofs.C02.KEncsrgb13
import Prism.Proofs.C02.KEncsrgb14
import Prism.Proofs.C02.KEncsrgb15

namespace Prism.C02

theorem encsrgb_chunks : ∀ k, k < 256 → enc16ChunkOk .srgb k = true := by
  intro k hk
  have h : (0 ≤ k ∧ k < 16) ∨ (16 ≤ k ∧ k < 32) ∨ (32 ≤ k ∧ k < 48) ∨ (48 ≤ k ∧ k < 64) ∨ (64 ≤ k ∧ k < 80) ∨ (80 ≤ k ∧ k < 96) ∨ (96 ≤ k ∧ k < 112) ∨ (112 ≤ k ∧ k < 128) ∨ (128 ≤ k ∧ k < 144) ∨ (144 ≤ k ∧ k < 160) ∨ (160 ≤ k ∧ k < 176) ∨ (176 ≤ k ∧ k < 192) ∨ (192 ≤ k ∧ k < 208) ∨ (208 ≤ k ∧ k < 224) ∨ (224 ≤ k ∧ k < 240) ∨ (240 ≤ k ∧ k < 256) := by omega
  rcases h with h | h | h | h | h | h | h | h | h | h | h | h | h | h | h | h
  · exact encsrgb_file0 k h.1 h.2
  · exact encsrgb_file1 k h.1 h.2
  · exact encsrgb_file2 k h.1 h.2
  · exact encsrgb_file3 k h.1 h.2
  · exact encsrgb_file4 k h.1 h.2
  · exact encsrgb_file5 k h.1 h.2
  · exact encsrgb_file6 k h.1 h.2
  · exact encsrgb_file7 k h.1 h.2
  · exact encsrgb_file8 k h.1 h.2
  · exact encsrgb_file9 k h.1 h.2
  · exact encsrgb_file10 k h.1 h.2
  · exact encsrgb_file11 k h.1 h.2
  · exact encsrgb_file12 k h.1 h.2
  · exact encsrgb_file13 k h.1 h.2
  · exact encsrgb_file14 k h.1 h.2
  · exact encsrgb_file15 k h.1 h.2

theorem encsrgb_8 : enc8TableOk .srgb = true := by decide +kernel
theorem encsrgb_ends : encEndpointsOk .srgb = true := by decide +kernel

end Prism.C02
