import Prism.Check.C02Acc

/-! Kernel-checked chunks (generated boiler-plate, see lib/gen_static.py). -/
namespace Prism.C02

theorem accadobe_k0 : enc16AccChunk .adobe 0 = true := by decide +kernel
theorem accadobe_k1 : enc16AccChunk .adobe 1 = true := by decide +kernel
theorem accadobe_k2 : enc16AccChunk .adobe 2 = true := by decide +kernel
theorem accadobe_k3 : enc16AccChunk .adobe 3 = true := by decide +kernel
theorem accadobe_k4 : enc16AccChunk .adobe 4 = true := by decide +kernel
theorem accadobe_k5 : enc16AccChunk .adobe 5 = true := by decide +kernel
theorem accadobe_k6 : enc16AccChunk .adobe 6 = true := by decide +kernel
theorem accadobe_k7 : enc16AccChunk .adobe 7 = true := by decide +kernel
theorem accadobe_k8 : enc16AccChunk .adobe 8 = true := by decide +kernel
theorem accadobe_k9 : enc16AccChunk .adobe 9 = true := by decide +kernel
theorem accadobe_k10 : enc16AccChunk .adobe 10 = true := by decide +kernel
theorem accadobe_k11 : enc16AccChunk .adobe 11 = true := by decide +kernel
theorem accadobe_k12 : enc16AccChunk .adobe 12 = true := by decide +kernel
theorem accadobe_k13 : enc16AccChunk .adobe 13 = true := by decide +kernel
theorem accadobe_k14 : enc16AccChunk .adobe 14 = true := by decide +kernel
theorem accadobe_k15 : enc16AccChunk .adobe 15 = true := by decide +kernel

theorem accadobe_file0 : ∀ k, 0 ≤ k → k < 16 → enc16AccChunk .adobe k = true := by
  intro k h1 h2
  have h : k = 0 ∨ k = 1 ∨ k = 2 ∨ k = 3 ∨ k = 4 ∨ k = 5 ∨ k = 6 ∨ k = 7 ∨ k = 8 ∨ k = 9 ∨ k = 10 ∨ k = 11 ∨ k = 12 ∨ k = 13 ∨ k = 14 ∨ k = 15 := by omega
  rcases h with rfl | rfl | rfl | rfl | rfl | rfl | rfl | rfl | rfl | rfl | rfl | rfl | rfl | rfl | rfl | rfl
  · exact accadobe_k0
  · exact accadobe_k1
  · exact accadobe_k2
  · exact accadobe_k3
  · exact accadobe_k4
  · exact accadobe_k5
  · exact accadobe_k6
  · exact accadobe_k7
  · exact accadobe_k8
  · exact accadobe_k9
  · exact accadobe_k10
  · exact accadobe_k11
  · exact accadobe_k12
  · exact accadobe_k13
  · exact accadobe_k14
  · exact accadobe_k15

end Prism.C02
