import Prism.Check.C02Acc

/-! Kernel-checked chunks (generated boiler-plate, see lib/gen_static.py). -/
namespace Prism.C02

theorem accadobe_k16 : enc16AccChunk .adobe 16 = true := by decide +kernel
theorem accadobe_k17 : enc16AccChunk .adobe 17 = true := by decide +kernel
theorem accadobe_k18 : enc16AccChunk .adobe 18 = true := by decide +kernel
theorem accadobe_k19 : enc16AccChunk .adobe 19 = true := by decide +kernel
theorem accadobe_k20 : enc16AccChunk .adobe 20 = true := by decide +kernel
theorem accadobe_k21 : enc16AccChunk .adobe 21 = true := by decide +kernel
theorem accadobe_k22 : enc16AccChunk .adobe 22 = true := by decide +kernel
theorem accadobe_k23 : enc16AccChunk .adobe 23 = true := by decide +kernel
theorem accadobe_k24 : enc16AccChunk .adobe 24 = true := by decide +kernel
theorem accadobe_k25 : enc16AccChunk .adobe 25 = true := by decide +kernel
theorem accadobe_k26 : enc16AccChunk .adobe 26 = true := by decide +kernel
theorem accadobe_k27 : enc16AccChunk .adobe 27 = true := by decide +kernel
theorem accadobe_k28 : enc16AccChunk .adobe 28 = true := by decide +kernel
theorem accadobe_k29 : enc16AccChunk .adobe 29 = true := by decide +kernel
theorem accadobe_k30 : enc16AccChunk .adobe 30 = true := by decide +kernel
theorem accadobe_k31 : enc16AccChunk .adobe 31 = true := by decide +kernel

theorem accadobe_file1 : ∀ k, 16 ≤ k → k < 32 → enc16AccChunk .adobe k = true := by
  intro k h1 h2
  have h : k = 16 ∨ k = 17 ∨ k = 18 ∨ k = 19 ∨ k = 20 ∨ k = 21 ∨ k = 22 ∨ k = 23 ∨ k = 24 ∨ k = 25 ∨ k = 26 ∨ k = 27 ∨ k = 28 ∨ k = 29 ∨ k = 30 ∨ k = 31 := by omega
  rcases h with rfl | rfl | rfl | rfl | rfl | rfl | rfl | rfl | rfl | rfl | rfl | rfl | rfl | rfl | rfl | rfl
  · exact accadobe_k16
  · exact accadobe_k17
  · exact accadobe_k18
  · exact accadobe_k19
  · exact accadobe_k20
  · exact accadobe_k21
  · exact accadobe_k22
  · exact accadobe_k23
  · exact accadobe_k24
  · exact accadobe_k25
  · exact accadobe_k26
  · exact accadobe_k27
  · exact accadobe_k28
  · exact accadobe_k29
  · exact accadobe_k30
  · exact accadobe_k31

end Prism.C02
