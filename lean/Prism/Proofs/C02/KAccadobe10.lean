import Prism.Check.C02Acc

/-! Kernel-checked chunks (generated boiler-plate, see lib/gen_static.py). -/
namespace Prism.C02

theorem accadobe_k160 : enc16AccChunk .adobe 160 = true := by decide +kernel
theorem accadobe_k161 : enc16AccChunk .adobe 161 = true := by decide +kernel
theorem accadobe_k162 : enc16AccChunk .adobe 162 = true := by decide +kernel
theorem accadobe_k163 : enc16AccChunk .adobe 163 = true := by decide +kernel
theorem accadobe_k164 : enc16AccChunk .adobe 164 = true := by decide +kernel
theorem accadobe_k165 : enc16AccChunk .adobe 165 = true := by decide +kernel
theorem accadobe_k166 : enc16AccChunk .adobe 166 = true := by decide +kernel
theorem accadobe_k167 : enc16AccChunk .adobe 167 = true := by decide +kernel
theorem accadobe_k168 : enc16AccChunk .adobe 168 = true := by decide +kernel
theorem accadobe_k169 : enc16AccChunk .adobe 169 = true := by decide +kernel
theorem accadobe_k170 : enc16AccChunk .adobe 170 = true := by decide +kernel
theorem accadobe_k171 : enc16AccChunk .adobe 171 = true := by decide +kernel
theorem accadobe_k172 : enc16AccChunk .adobe 172 = true := by decide +kernel
theorem accadobe_k173 : enc16AccChunk .adobe 173 = true := by decide +kernel
theorem accadobe_k174 : enc16AccChunk .adobe 174 = true := by decide +kernel
theorem accadobe_k175 : enc16AccChunk .adobe 175 = true := by decide +kernel

theorem accadobe_file10 : ∀ k, 160 ≤ k → k < 176 → enc16AccChunk .adobe k = true := by
  intro k h1 h2
  have h : k = 160 ∨ k = 161 ∨ k = 162 ∨ k = 163 ∨ k = 164 ∨ k = 165 ∨ k = 166 ∨ k = 167 ∨ k = 168 ∨ k = 169 ∨ k = 170 ∨ k = 171 ∨ k = 172 ∨ k = 173 ∨ k = 174 ∨ k = 175 := by omega
  rcases h with rfl | rfl | rfl | rfl | rfl | rfl | rfl | rfl | rfl | rfl | rfl | rfl | rfl | rfl | rfl | rfl
  · exact accadobe_k160
  · exact accadobe_k161
  · exact accadobe_k162
  · exact accadobe_k163
  · exact accadobe_k164
  · exact accadobe_k165
  · exact accadobe_k166
  · exact accadobe_k167
  · exact accadobe_k168
  · exact accadobe_k169
  · exact accadobe_k170
  · exact accadobe_k171
  · exact accadobe_k172
  · exact accadobe_k173
  · exact accadobe_k174
  · exact accadobe_k175

end Prism.C02
