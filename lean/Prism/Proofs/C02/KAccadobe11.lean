import Prism.Check.C02Acc

/-! Kernel-checked chunks (generated boiler-plate, see lib/gen_static.py). -/
namespace Prism.C02

theorem accadobe_k176 : enc16AccChunk .adobe 176 = true := by decide +kernel
theorem accadobe_k177 : enc16AccChunk .adobe 177 = true := by decide +kernel
theorem accadobe_k178 : enc16AccChunk .adobe 178 = true := by decide +kernel
theorem accadobe_k179 : enc16AccChunk .adobe 179 = true := by decide +kernel
theorem accadobe_k180 : enc16AccChunk .adobe 180 = true := by decide +kernel
theorem accadobe_k181 : enc16AccChunk .adobe 181 = true := by decide +kernel
theorem accadobe_k182 : enc16AccChunk .adobe 182 = true := by decide +kernel
theorem accadobe_k183 : enc16AccChunk .adobe 183 = true := by decide +kernel
theorem accadobe_k184 : enc16AccChunk .adobe 184 = true := by decide +kernel
theorem accadobe_k185 : enc16AccChunk .adobe 185 = true := by decide +kernel
theorem accadobe_k186 : enc16AccChunk .adobe 186 = true := by decide +kernel
theorem accadobe_k187 : enc16AccChunk .adobe 187 = true := by decide +kernel
theorem accadobe_k188 : enc16AccChunk .adobe 188 = true := by decide +kernel
theorem accadobe_k189 : enc16AccChunk .adobe 189 = true := by decide +kernel
theorem accadobe_k190 : enc16AccChunk .adobe 190 = true := by decide +kernel
theorem accadobe_k191 : enc16AccChunk .adobe 191 = true := by decide +kernel

theorem accadobe_file11 : ∀ k, 176 ≤ k → k < 192 → enc16AccChunk .adobe k = true := by
  intro k h1 h2
  have h : k = 176 ∨ k = 177 ∨ k = 178 ∨ k = 179 ∨ k = 180 ∨ k = 181 ∨ k = 182 ∨ k = 183 ∨ k = 184 ∨ k = 185 ∨ k = 186 ∨ k = 187 ∨ k = 188 ∨ k = 189 ∨ k = 190 ∨ k = 191 := by omega
  rcases h with rfl | rfl | rfl | rfl | rfl | rfl | rfl | rfl | rfl | rfl | rfl | rfl | rfl | rfl | rfl | rfl
  · exact accadobe_k176
  · exact accadobe_k177
  · exact accadobe_k178
  · exact accadobe_k179
  · exact accadobe_k180
  · exact accadobe_k181
  · exact accadobe_k182
  · exact accadobe_k183
  · exact accadobe_k184
  · exact accadobe_k185
  · exact accadobe_k186
  · exact accadobe_k187
  · exact accadobe_k188
  · exact accadobe_k189
  · exact accadobe_k190
  · exact accadobe_k191

end Prism.C02
