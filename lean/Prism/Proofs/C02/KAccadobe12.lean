import Prism.Check.C02Acc

/-! Kernel-checked chunks (generated boiler-plate, see lib/gen_static.py). -/
namespace Prism.C02

theorem accadobe_k192 : enc16AccChunk .adobe 192 = true := by decide +kernel
theorem accadobe_k193 : enc16AccChunk .adobe 193 = true := by decide +kernel
theorem accadobe_k194 : enc16AccChunk .adobe 194 = true := by decide +kernel
theorem accadobe_k195 : enc16AccChunk .adobe 195 = true := by decide +kernel
theorem accadobe_k196 : enc16AccChunk .adobe 196 = true := by decide +kernel
theorem accadobe_k197 : enc16AccChunk .adobe 197 = true := by decide +kernel
theorem accadobe_k198 : enc16AccChunk .adobe 198 = true := by decide +kernel
theorem accadobe_k199 : enc16AccChunk .adobe 199 = true := by decide +kernel
theorem accadobe_k200 : enc16AccChunk .adobe 200 = true := by decide +kernel
theorem accadobe_k201 : enc16AccChunk .adobe 201 = true := by decide +kernel
theorem accadobe_k202 : enc16AccChunk .adobe 202 = true := by decide +kernel
theorem accadobe_k203 : enc16AccChunk .adobe 203 = true := by decide +kernel
theorem accadobe_k204 : enc16AccChunk .adobe 204 = true := by decide +kernel
theorem accadobe_k205 : enc16AccChunk .adobe 205 = true := by decide +kernel
theorem accadobe_k206 : enc16AccChunk .adobe 206 = true := by decide +kernel
theorem accadobe_k207 : enc16AccChunk .adobe 207 = true := by decide +kernel

theorem accadobe_file12 : ∀ k, 192 ≤ k → k < 208 → enc16AccChunk .adobe k = true := by
  intro k h1 h2
  have h : k = 192 ∨ k = 193 ∨ k = 194 ∨ k = 195 ∨ k = 196 ∨ k = 197 ∨ k = 198 ∨ k = 199 ∨ k = 200 ∨ k = 201 ∨ k = 202 ∨ k = 203 ∨ k = 204 ∨ k = 205 ∨ k = 206 ∨ k = 207 := by omega
  rcases h with rfl | rfl | rfl | rfl | rfl | rfl | rfl | rfl | rfl | rfl | rfl | rfl | rfl | rfl | rfl | rfl
  · exact accadobe_k192
  · exact accadobe_k193
  · exact accadobe_k194
  · exact accadobe_k195
  · exact accadobe_k196
  · exact accadobe_k197
  · exact accadobe_k198
  · exact accadobe_k199
  · exact accadobe_k200
  · exact accadobe_k201
  · exact accadobe_k202
  · exact accadobe_k203
  · exact accadobe_k204
  · exact accadobe_k205
  · exact accadobe_k206
  · exact accadobe_k207

end Prism.C02
