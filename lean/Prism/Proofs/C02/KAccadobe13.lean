import Prism.Check.C02Acc

/-! Kernel-checked chunks (generated boiler-plate, see lib/gen_static.py). -/
namespace Prism.C02

theorem accadobe_k208 : enc16AccChunk .adobe 208 = true := by decide +kernel
theorem accadobe_k209 : enc16AccChunk .adobe 209 = true := by decide +kernel
theorem accadobe_k210 : enc16AccChunk .adobe 210 = true := by decide +kernel
theorem accadobe_k211 : enc16AccChunk .adobe 211 = true := by decide +kernel
theorem accadobe_k212 : enc16AccChunk .adobe 212 = true := by decide +kernel
theorem accadobe_k213 : enc16AccChunk .adobe 213 = true := by decide +kernel
theorem accadobe_k214 : enc16AccChunk .adobe 214 = true := by decide +kernel
theorem accadobe_k215 : enc16AccChunk .adobe 215 = true := by decide +kernel
theorem accadobe_k216 : enc16AccChunk .adobe 216 = true := by decide +kernel
theorem accadobe_k217 : enc16AccChunk .adobe 217 = true := by decide +kernel
theorem accadobe_k218 : enc16AccChunk .adobe 218 = true := by decide +kernel
theorem accadobe_k219 : enc16AccChunk .adobe 219 = true := by decide +kernel
theorem accadobe_k220 : enc16AccChunk .adobe 220 = true := by decide +kernel
theorem accadobe_k221 : enc16AccChunk .adobe 221 = true := by decide +kernel
theorem accadobe_k222 : enc16AccChunk .adobe 222 = true := by decide +kernel
theorem accadobe_k223 : enc16AccChunk .adobe 223 = true := by decide +kernel

theorem accadobe_file13 : ∀ k, 208 ≤ k → k < 224 → enc16AccChunk .adobe k = true := by
  intro k h1 h2
  have h : k = 208 ∨ k = 209 ∨ k = 210 ∨ k = 211 ∨ k = 212 ∨ k = 213 ∨ k = 214 ∨ k = 215 ∨ k = 216 ∨ k = 217 ∨ k = 218 ∨ k = 219 ∨ k = 220 ∨ k = 221 ∨ k = 222 ∨ k = 223 := by omega
  rcases h with rfl | rfl | rfl | rfl | rfl | rfl | rfl | rfl | rfl | rfl | rfl | rfl | rfl | rfl | rfl | rfl
  · exact accadobe_k208
  · exact accadobe_k209
  · exact accadobe_k210
  · exact accadobe_k211
  · exact accadobe_k212
  · exact accadobe_k213
  · exact accadobe_k214
  · exact accadobe_k215
  · exact accadobe_k216
  · exact accadobe_k217
  · exact accadobe_k218
  · exact accadobe_k219
  · exact accadobe_k220
  · exact accadobe_k221
  · exact accadobe_k222
  · exact accadobe_k223

end Prism.C02
