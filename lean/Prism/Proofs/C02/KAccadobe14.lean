import Prism.Check.C02Acc

/-! Kernel-checked chunks (generated boiler-plate, see lib/gen_static.py). -/
namespace Prism.C02

theorem accadobe_k224 : enc16AccChunk .adobe 224 = true := by decide +kernel
theorem accadobe_k225 : enc16AccChunk .adobe 225 = true := by decide +kernel
theorem accadobe_k226 : enc16AccChunk .adobe 226 = true := by decide +kernel
theorem accadobe_k227 : enc16AccChunk .adobe 227 = true := by decide +kernel
theorem accadobe_k228 : enc16AccChunk .adobe 228 = true := by decide +kernel
theorem accadobe_k229 : enc16AccChunk .adobe 229 = true := by decide +kernel
theorem accadobe_k230 : enc16AccChunk .adobe 230 = true := by decide +kernel
theorem accadobe_k231 : enc16AccChunk .adobe 231 = true := by decide +kernel
theorem accadobe_k232 : enc16AccChunk .adobe 232 = true := by decide +kernel
theorem accadobe_k233 : enc16AccChunk .adobe 233 = true := by decide +kernel
theorem accadobe_k234 : enc16AccChunk .adobe 234 = true := by decide +kernel
theorem accadobe_k235 : enc16AccChunk .adobe 235 = true := by decide +kernel
theorem accadobe_k236 : enc16AccChunk .adobe 236 = true := by decide +kernel
theorem accadobe_k237 : enc16AccChunk .adobe 237 = true := by decide +kernel
theorem accadobe_k238 : enc16AccChunk .adobe 238 = true := by decide +kernel
theorem accadobe_k239 : enc16AccChunk .adobe 239 = true := by decide +kernel

theorem accadobe_file14 : ∀ k, 224 ≤ k → k < 240 → enc16AccChunk .adobe k = true := by
  intro k h1 h2
  have h : k = 224 ∨ k = 225 ∨ k = 226 ∨ k = 227 ∨ k = 228 ∨ k = 229 ∨ k = 230 ∨ k = 231 ∨ k = 232 ∨ k = 233 ∨ k = 234 ∨ k = 235 ∨ k = 236 ∨ k = 237 ∨ k = 238 ∨ k = 239 := by omega
  rcases h with rfl | rfl | rfl | rfl | rfl | rfl | rfl | rfl | rfl | rfl | rfl | rfl | rfl | rfl | rfl | rfl
  · exact accadobe_k224
  · exact accadobe_k225
  · exact accadobe_k226
  · exact accadobe_k227
  · exact accadobe_k228
  · exact accadobe_k229
  · exact accadobe_k230
  · exact accadobe_k231
  · exact accadobe_k232
  · exact accadobe_k233
  · exact accadobe_k234
  · exact accadobe_k235
  · exact accadobe_k236
  · exact accadobe_k237
  · exact accadobe_k238
  · exact accadobe_k239

end Prism.C02
