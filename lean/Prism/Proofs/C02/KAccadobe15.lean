import Prism.Check.C02Acc

/-! Kernel-checked chunks (generated boiler-plate, see lib/gen_static.py). -/
namespace Prism.C02

theorem accadobe_k240 : enc16AccChunk .adobe 240 = true := by decide +kernel
theorem accadobe_k241 : enc16AccChunk .adobe 241 = true := by decide +kernel
theorem accadobe_k242 : enc16AccChunk .adobe 242 = true := by decide +kernel
theorem accadobe_k243 : enc16AccChunk .adobe 243 = true := by decide +kernel
theorem accadobe_k244 : enc16AccChunk .adobe 244 = true := by decide +kernel
theorem accadobe_k245 : enc16AccChunk .adobe 245 = true := by decide +kernel
theorem accadobe_k246 : enc16AccChunk .adobe 246 = true := by decide +kernel
theorem accadobe_k247 : enc16AccChunk .adobe 247 = true := by decide +kernel
theorem accadobe_k248 : enc16AccChunk .adobe 248 = true := by decide +kernel
theorem accadobe_k249 : enc16AccChunk .adobe 249 = true := by decide +kernel
theorem accadobe_k250 : enc16AccChunk .adobe 250 = true := by decide +kernel
theorem accadobe_k251 : enc16AccChunk .adobe 251 = true := by decide +kernel
theorem accadobe_k252 : enc16AccChunk .adobe 252 = true := by decide +kernel
theorem accadobe_k253 : enc16AccChunk .adobe 253 = true := by decide +kernel
theorem accadobe_k254 : enc16AccChunk .adobe 254 = true := by decide +kernel
theorem accadobe_k255 : enc16AccChunk .adobe 255 = true := by decide +kernel

theorem accadobe_file15 : ∀ k, 240 ≤ k → k < 256 → enc16AccChunk .adobe k = true := by
  intro k h1 h2
  have h : k = 240 ∨ k = 241 ∨ k = 242 ∨ k = 243 ∨ k = 244 ∨ k = 245 ∨ k = 246 ∨ k = 247 ∨ k = 248 ∨ k = 249 ∨ k = 250 ∨ k = 251 ∨ k = 252 ∨ k = 253 ∨ k = 254 ∨ k = 255 := by omega
  rcases h with rfl | rfl | rfl | rfl | rfl | rfl | rfl | rfl | rfl | rfl | rfl | rfl | rfl | rfl | rfl | rfl
  · exact accadobe_k240
  · exact accadobe_k241
  · exact accadobe_k242
  · exact accadobe_k243
  · exact accadobe_k244
  · exact accadobe_k245
  · exact accadobe_k246
  · exact accadobe_k247
  · exact accadobe_k248
  · exact accadobe_k249
  · exact accadobe_k250
  · exact accadobe_k251
  · exact accadobe_k252
  · exact accadobe_k253
  · exact accadobe_k254
  · exact accadobe_k255

end Prism.C02
