import Prism.Check.C02Acc

/-! Kernel-checked chunks (generated boiler-plate, see lib/gen_static.py). -/
namespace Prism.C02

theorem accadobe_k32 : enc16AccChunk .adobe 32 = true := by decide +kernel
theorem accadobe_k33 : enc16AccChunk .adobe 33 = true := by decide +kernel
theorem accadobe_k34 : enc16AccChunk .adobe 34 = true := by decide +kernel
theorem accadobe_k35 : enc16AccChunk .adobe 35 = true := by decide +kernel
theorem accadobe_k36 : enc16AccChunk .adobe 36 = true := by decide +kernel
theorem accadobe_k37 : enc16AccChunk .adobe 37 = true := by decide +kernel
theorem accadobe_k38 : enc16AccChunk .adobe 38 = true := by decide +kernel
theorem accadobe_k39 : enc16AccChunk .adobe 39 = true := by decide +kernel
theorem accadobe_k40 : enc16AccChunk .adobe 40 = true := by decide +kernel
theorem accadobe_k41 : enc16AccChunk .adobe 41 = true := by decide +kernel
theorem accadobe_k42 : enc16AccChunk .adobe 42 = true := by decide +kernel
theorem accadobe_k43 : enc16AccChunk .adobe 43 = true := by decide +kernel
theorem accadobe_k44 : enc16AccChunk .adobe 44 = true := by decide +kernel
theorem accadobe_k45 : enc16AccChunk .adobe 45 = true := by decide +kernel
theorem accadobe_k46 : enc16AccChunk .adobe 46 = true := by decide +kernel
theorem accadobe_k47 : enc16AccChunk .adobe 47 = true := by decide +kernel

theorem accadobe_file2 : ∀ k, 32 ≤ k → k < 48 → enc16AccChunk .adobe k = true := by
  intro k h1 h2
  have h : k = 32 ∨ k = 33 ∨ k = 34 ∨ k = 35 ∨ k = 36 ∨ k = 37 ∨ k = 38 ∨ k = 39 ∨ k = 40 ∨ k = 41 ∨ k = 42 ∨ k = 43 ∨ k = 44 ∨ k = 45 ∨ k = 46 ∨ k = 47 := by omega
  rcases h with rfl | rfl | rfl | rfl | rfl | rfl | rfl | rfl | rfl | rfl | rfl | rfl | rfl | rfl | rfl | rfl
  · exact accadobe_k32
  · exact accadobe_k33
  · exact accadobe_k34
  · exact accadobe_k35
  · exact accadobe_k36
  · exact accadobe_k37
  · exact accadobe_k38
  · exact accadobe_k39
  · exact accadobe_k40
  · exact accadobe_k41
  · exact accadobe_k42
  · exact accadobe_k43
  · exact accadobe_k44
  · exact accadobe_k45
  · exact accadobe_k46
  · exact accadobe_k47

end Prism.C02
