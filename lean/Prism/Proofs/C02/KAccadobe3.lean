import Prism.Check.C02Acc

/-! Kernel-checked chunks (generated boiler-plate, see lib/gen_static.py). -/
namespace Prism.C02

theorem accadobe_k48 : enc16AccChunk .adobe 48 = true := by decide +kernel
theorem accadobe_k49 : enc16AccChunk .adobe 49 = true := by decide +kernel
theorem accadobe_k50 : enc16AccChunk .adobe 50 = true := by decide +kernel
theorem accadobe_k51 : enc16AccChunk .adobe 51 = true := by decide +kernel
theorem accadobe_k52 : enc16AccChunk .adobe 52 = true := by decide +kernel
theorem accadobe_k53 : enc16AccChunk .adobe 53 = true := by decide +kernel
theorem accadobe_k54 : enc16AccChunk .adobe 54 = true := by decide +kernel
theorem accadobe_k55 : enc16AccChunk .adobe 55 = true := by decide +kernel
theorem accadobe_k56 : enc16AccChunk .adobe 56 = true := by decide +kernel
theorem accadobe_k57 : enc16AccChunk .adobe 57 = true := by decide +kernel
theorem accadobe_k58 : enc16AccChunk .adobe 58 = true := by decide +kernel
theorem accadobe_k59 : enc16AccChunk .adobe 59 = true := by decide +kernel
theorem accadobe_k60 : enc16AccChunk .adobe 60 = true := by decide +kernel
theorem accadobe_k61 : enc16AccChunk .adobe 61 = true := by decide +kernel
theorem accadobe_k62 : enc16AccChunk .adobe 62 = true := by decide +kernel
theorem accadobe_k63 : enc16AccChunk .adobe 63 = true := by decide +kernel

theorem accadobe_file3 : ∀ k, 48 ≤ k → k < 64 → enc16AccChunk .adobe k = true := by
  intro k h1 h2
  have h : k = 48 ∨ k = 49 ∨ k = 50 ∨ k = 51 ∨ k = 52 ∨ k = 53 ∨ k = 54 ∨ k = 55 ∨ k = 56 ∨ k = 57 ∨ k = 58 ∨ k = 59 ∨ k = 60 ∨ k = 61 ∨ k = 62 ∨ k = 63 := by omega
  rcases h with rfl | rfl | rfl | rfl | rfl | rfl | rfl | rfl | rfl | rfl | rfl | rfl | rfl | rfl | rfl | rfl
  · exact accadobe_k48
  · exact accadobe_k49
  · exact accadobe_k50
  · exact accadobe_k51
  · exact accadobe_k52
  · exact accadobe_k53
  · exact accadobe_k54
  · exact accadobe_k55
  · exact accadobe_k56
  · exact accadobe_k57
  · exact accadobe_k58
  · exact accadobe_k59
  · exact accadobe_k60
  · exact accadobe_k61
  · exact accadobe_k62
  · exact accadobe_k63

end Prism.C02
