import Prism.Check.C02Acc

/-! Kernel-checked chunks (generated boiler-plate, see lib/gen_static.py). -/
namespace Prism.C02

theorem accadobe_k64 : enc16AccChunk .adobe 64 = true := by decide +kernel
theorem accadobe_k65 : enc16AccChunk .adobe 65 = true := by decide +kernel
theorem accadobe_k66 : enc16AccChunk .adobe 66 = true := by decide +kernel
theorem accadobe_k67 : enc16AccChunk .adobe 67 = true := by decide +kernel
theorem accadobe_k68 : enc16AccChunk .adobe 68 = true := by decide +kernel
theorem accadobe_k69 : enc16AccChunk .adobe 69 = true := by decide +kernel
theorem accadobe_k70 : enc16AccChunk .adobe 70 = true := by decide +kernel
theorem accadobe_k71 : enc16AccChunk .adobe 71 = true := by decide +kernel
theorem accadobe_k72 : enc16AccChunk .adobe 72 = true := by decide +kernel
theorem accadobe_k73 : enc16AccChunk .adobe 73 = true := by decide +kernel
theorem accadobe_k74 : enc16AccChunk .adobe 74 = true := by decide +kernel
theorem accadobe_k75 : enc16AccChunk .adobe 75 = true := by decide +kernel
theorem accadobe_k76 : enc16AccChunk .adobe 76 = true := by decide +kernel
theorem accadobe_k77 : enc16AccChunk .adobe 77 = true := by decide +kernel
theorem accadobe_k78 : enc16AccChunk .adobe 78 = true := by decide +kernel
theorem accadobe_k79 : enc16AccChunk .adobe 79 = true := by decide +kernel

theorem accadobe_file4 : ∀ k, 64 ≤ k → k < 80 → enc16AccChunk .adobe k = true := by
  intro k h1 h2
  have h : k = 64 ∨ k = 65 ∨ k = 66 ∨ k = 67 ∨ k = 68 ∨ k = 69 ∨ k = 70 ∨ k = 71 ∨ k = 72 ∨ k = 73 ∨ k = 74 ∨ k = 75 ∨ k = 76 ∨ k = 77 ∨ k = 78 ∨ k = 79 := by omega
  rcases h with rfl | rfl | rfl | rfl | rfl | rfl | rfl | rfl | rfl | rfl | rfl | rfl | rfl | rfl | rfl | rfl
  · exact accadobe_k64
  · exact accadobe_k65
  · exact accadobe_k66
  · exact accadobe_k67
  · exact accadobe_k68
  · exact accadobe_k69
  · exact accadobe_k70
  · exact accadobe_k71
  · exact accadobe_k72
  · exact accadobe_k73
  · exact accadobe_k74
  · exact accadobe_k75
  · exact accadobe_k76
  · exact accadobe_k77
  · exact accadobe_k78
  · exact accadobe_k79

end Prism.C02
