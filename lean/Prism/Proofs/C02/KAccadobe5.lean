import Prism.Check.C02Acc

/-! Kernel-checked chunks (generated boiler-plate, see lib/gen_static.py). -/
namespace Prism.C02

theorem accadobe_k80 : enc16AccChunk .adobe 80 = true := by decide +kernel
theorem accadobe_k81 : enc16AccChunk .adobe 81 = true := by decide +kernel
theorem accadobe_k82 : enc16AccChunk .adobe 82 = true := by decide +kernel
theorem accadobe_k83 : enc16AccChunk .adobe 83 = true := by decide +kernel
theorem accadobe_k84 : enc16AccChunk .adobe 84 = true := by decide +kernel
theorem accadobe_k85 : enc16AccChunk .adobe 85 = true := by decide +kernel
theorem accadobe_k86 : enc16AccChunk .adobe 86 = true := by decide +kernel
theorem accadobe_k87 : enc16AccChunk .adobe 87 = true := by decide +kernel
theorem accadobe_k88 : enc16AccChunk .adobe 88 = true := by decide +kernel
theorem accadobe_k89 : enc16AccChunk .adobe 89 = true := by decide +kernel
theorem accadobe_k90 : enc16AccChunk .adobe 90 = true := by decide +kernel
theorem accadobe_k91 : enc16AccChunk .adobe 91 = true := by decide +kernel
theorem accadobe_k92 : enc16AccChunk .adobe 92 = true := by decide +kernel
theorem accadobe_k93 : enc16AccChunk .adobe 93 = true := by decide +kernel
theorem accadobe_k94 : enc16AccChunk .adobe 94 = true := by decide +kernel
theorem accadobe_k95 : enc16AccChunk .adobe 95 = true := by decide +kernel

theorem accadobe_file5 : ∀ k, 80 ≤ k → k < 96 → enc16AccChunk .adobe k = true := by
  intro k h1 h2
  have h : k = 80 ∨ k = 81 ∨ k = 82 ∨ k = 83 ∨ k = 84 ∨ k = 85 ∨ k = 86 ∨ k = 87 ∨ k = 88 ∨ k = 89 ∨ k = 90 ∨ k = 91 ∨ k = 92 ∨ k = 93 ∨ k = 94 ∨ k = 95 := by omega
  rcases h with rfl | rfl | rfl | rfl | rfl | rfl | rfl | rfl | rfl | rfl | rfl | rfl | rfl | rfl | rfl | rfl
  · exact accadobe_k80
  · exact accadobe_k81
  · exact accadobe_k82
  · exact accadobe_k83
  · exact accadobe_k84
  · exact accadobe_k85
  · exact accadobe_k86
  · exact accadobe_k87
  · exact accadobe_k88
  · exact accadobe_k89
  · exact accadobe_k90
  · exact accadobe_k91
  · exact accadobe_k92
  · exact accadobe_k93
  · exact accadobe_k94
  · exact accadobe_k95

end Prism.C02
