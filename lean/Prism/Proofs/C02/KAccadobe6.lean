import Prism.Check.C02Acc

/-! Kernel-checked chunks (generated boiler-plate, see lib/gen_static.py). -/
namespace Prism.C02

theorem accadobe_k96 : enc16AccChunk .adobe 96 = true := by decide +kernel
theorem accadobe_k97 : enc16AccChunk .adobe 97 = true := by decide +kernel
theorem accadobe_k98 : enc16AccChunk .adobe 98 = true := by decide +kernel
theorem accadobe_k99 : enc16AccChunk .adobe 99 = true := by decide +kernel
theorem accadobe_k100 : enc16AccChunk .adobe 100 = true := by decide +kernel
theorem accadobe_k101 : enc16AccChunk .adobe 101 = true := by decide +kernel
theorem accadobe_k102 : enc16AccChunk .adobe 102 = true := by decide +kernel
theorem accadobe_k103 : enc16AccChunk .adobe 103 = true := by decide +kernel
theorem accadobe_k104 : enc16AccChunk .adobe 104 = true := by decide +kernel
theorem accadobe_k105 : enc16AccChunk .adobe 105 = true := by decide +kernel
theorem accadobe_k106 : enc16AccChunk .adobe 106 = true := by decide +kernel
theorem accadobe_k107 : enc16AccChunk .adobe 107 = true := by decide +kernel
theorem accadobe_k108 : enc16AccChunk .adobe 108 = true := by decide +kernel
theorem accadobe_k109 : enc16AccChunk .adobe 109 = true := by decide +kernel
theorem accadobe_k110 : enc16AccChunk .adobe 110 = true := by decide +kernel
theorem accadobe_k111 : enc16AccChunk .adobe 111 = true := by decide +kernel

theorem accadobe_file6 : ∀ k, 96 ≤ k → k < 112 → enc16AccChunk .adobe k = true := by
  intro k h1 h2
  have h : k = 96 ∨ k = 97 ∨ k = 98 ∨ k = 99 ∨ k = 100 ∨ k = 101 ∨ k = 102 ∨ k = 103 ∨ k = 104 ∨ k = 105 ∨ k = 106 ∨ k = 107 ∨ k = 108 ∨ k = 109 ∨ k = 110 ∨ k = 111 := by omega
  rcases h with rfl | rfl | rfl | rfl | rfl | rfl | rfl | rfl | rfl | rfl | rfl | rfl | rfl | rfl | rfl | rfl
  · exact accadobe_k96
  · exact accadobe_k97
  · exact accadobe_k98
  · exact accadobe_k99
  · exact accadobe_k100
  · exact accadobe_k101
  · exact accadobe_k102
  · exact accadobe_k103
  · exact accadobe_k104
  · exact accadobe_k105
  · exact accadobe_k106
  · exact accadobe_k107
  · exact accadobe_k108
  · exact accadobe_k109
  · exact accadobe_k110
  · exact accadobe_k111

end Prism.C02
