import Prism.Check.C02Acc

/-! Kernel-checked chunks (generated boiler-plate, see lib/gen_static.py). -/
namespace Prism.C02

theorem accadobe_k112 : enc16AccChunk .adobe 112 = true := by decide +kernel
theorem accadobe_k113 : enc16AccChunk .adobe 113 = true := by decide +kernel
theorem accadobe_k114 : enc16AccChunk .adobe 114 = true := by decide +kernel
theorem accadobe_k115 : enc16AccChunk .adobe 115 = true := by decide +kernel
theorem accadobe_k116 : enc16AccChunk .adobe 116 = true := by decide +kernel
theorem accadobe_k117 : enc16AccChunk .adobe 117 = true := by decide +kernel
theorem accadobe_k118 : enc16AccChunk .adobe 118 = true := by decide +kernel
theorem accadobe_k119 : enc16AccChunk .adobe 119 = true := by decide +kernel
theorem accadobe_k120 : enc16AccChunk .adobe 120 = true := by decide +kernel
theorem accadobe_k121 : enc16AccChunk .adobe 121 = true := by decide +kernel
theorem accadobe_k122 : enc16AccChunk .adobe 122 = true := by decide +kernel
theorem accadobe_k123 : enc16AccChunk .adobe 123 = true := by decide +kernel
theorem accadobe_k124 : enc16AccChunk .adobe 124 = true := by decide +kernel
theorem accadobe_k125 : enc16AccChunk .adobe 125 = true := by decide +kernel
theorem accadobe_k126 : enc16AccChunk .adobe 126 = true := by decide +kernel
theorem accadobe_k127 : enc16AccChunk .adobe 127 = true := by decide +kernel

theorem accadobe_file7 : ∀ k, 112 ≤ k → k < 128 → enc16AccChunk .adobe k = true := by
  intro k h1 h2
  have h : k = 112 ∨ k = 113 ∨ k = 114 ∨ k = 115 ∨ k = 116 ∨ k = 117 ∨ k = 118 ∨ k = 119 ∨ k = 120 ∨ k = 121 ∨ k = 122 ∨ k = 123 ∨ k = 124 ∨ k = 125 ∨ k = 126 ∨ k = 127 := by omega
  rcases h with rfl | rfl | rfl | rfl | rfl | rfl | rfl | rfl | rfl | rfl | rfl | rfl | rfl | rfl | rfl | rfl
  · exact accadobe_k112
  · exact accadobe_k113
  · exact accadobe_k114
  · exact accadobe_k115
  · exact accadobe_k116
  · exact accadobe_k117
  · exact accadobe_k118
  · exact accadobe_k119
  · exact accadobe_k120
  · exact accadobe_k121
  · exact accadobe_k122
  · exact accadobe_k123
  · exact accadobe_k124
  · exact accadobe_k125
  · exact accadobe_k126
  · exact accadobe_k127

end Prism.C02
