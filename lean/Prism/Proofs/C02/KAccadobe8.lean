import Prism.Check.C02Acc

/-! Kernel-checked chunks (generated boiler-plate, see lib/gen_static.py). -/
namespace Prism.C02

theorem accadobe_k128 : enc16AccChunk .adobe 128 = true := by decide +kernel
theorem accadobe_k129 : enc16AccChunk .adobe 129 = true := by decide +kernel
theorem accadobe_k130 : enc16AccChunk .adobe 130 = true := by decide +kernel
theorem accadobe_k131 : enc16AccChunk .adobe 131 = true := by decide +kernel
theorem accadobe_k132 : enc16AccChunk .adobe 132 = true := by decide +kernel
theorem accadobe_k133 : enc16AccChunk .adobe 133 = true := by decide +kernel
theorem accadobe_k134 : enc16AccChunk .adobe 134 = true := by decide +kernel
theorem accadobe_k135 : enc16AccChunk .adobe 135 = true := by decide +kernel
theorem accadobe_k136 : enc16AccChunk .adobe 136 = true := by decide +kernel
theorem accadobe_k137 : enc16AccChunk .adobe 137 = true := by decide +kernel
theorem accadobe_k138 : enc16AccChunk .adobe 138 = true := by decide +kernel
theorem accadobe_k139 : enc16AccChunk .adobe 139 = true := by decide +kernel
theorem accadobe_k140 : enc16AccChunk .adobe 140 = true := by decide +kernel
theorem accadobe_k141 : enc16AccChunk .adobe 141 = true := by decide +kernel
theorem accadobe_k142 : enc16AccChunk .adobe 142 = true := by decide +kernel
theorem accadobe_k143 : enc16AccChunk .adobe 143 = true := by decide +kernel

theorem accadobe_file8 : ∀ k, 128 ≤ k → k < 144 → enc16AccChunk .adobe k = true := by
  intro k h1 h2
  have h : k = 128 ∨ k = 129 ∨ k = 130 ∨ k = 131 ∨ k = 132 ∨ k = 133 ∨ k = 134 ∨ k = 135 ∨ k = 136 ∨ k = 137 ∨ k = 138 ∨ k = 139 ∨ k = 140 ∨ k = 141 ∨ k = 142 ∨ k = 143 := by omega
  rcases h with rfl | rfl | rfl | rfl | rfl | rfl | rfl | rfl | rfl | rfl | rfl | rfl | rfl | rfl | rfl | rfl
  · exact accadobe_k128
  · exact accadobe_k129
  · exact accadobe_k130
  · exact accadobe_k131
  · exact accadobe_k132
  · exact accadobe_k133
  · exact accadobe_k134
  · exact accadobe_k135
  · exact accadobe_k136
  · exact accadobe_k137
  · exact accadobe_k138
  · exact accadobe_k139
  · exact accadobe_k140
  · exact accadobe_k141
  · exact accadobe_k142
  · exact accadobe_k143

end Prism.C02
