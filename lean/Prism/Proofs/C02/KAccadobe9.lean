import Prism.Check.C02Acc

/-! Kernel-checked chunks (generated boiler-plate, see lib/gen_static.py). -/
namespace Prism.C02

theorem accadobe_k144 : enc16AccChunk .adobe 144 = true := by decide +kernel
theorem accadobe_k145 : enc16AccChunk .adobe 145 = true := by decide +kernel
theorem accadobe_k146 : enc16AccChunk .adobe 146 = true := by decide +kernel
theorem accadobe_k147 : enc16AccChunk .adobe 147 = true := by decide +kernel
theorem accadobe_k148 : enc16AccChunk .adobe 148 = true := by decide +kernel
theorem accadobe_k149 : enc16AccChunk .adobe 149 = true := by decide +kernel
theorem accadobe_k150 : enc16AccChunk .adobe 150 = true := by decide +kernel
theorem accadobe_k151 : enc16AccChunk .adobe 151 = true := by decide +kernel
theorem accadobe_k152 : enc16AccChunk .adobe 152 = true := by decide +kernel
theorem accadobe_k153 : enc16AccChunk .adobe 153 = true := by decide +kernel
theorem accadobe_k154 : enc16AccChunk .adobe 154 = true := by decide +kernel
theorem accadobe_k155 : enc16AccChunk .adobe 155 = true := by decide +kernel
theorem accadobe_k156 : enc16AccChunk .adobe 156 = true := by decide +kernel
theorem accadobe_k157 : enc16AccChunk .adobe 157 = true := by decide +kernel
theorem accadobe_k158 : enc16AccChunk .adobe 158 = true := by decide +kernel
theorem accadobe_k159 : enc16AccChunk .adobe 159 = true := by decide +kernel

theorem accadobe_file9 : ∀ k, 144 ≤ k → k < 160 → enc16AccChunk .adobe k = true := by
  intro k h1 h2
  have h : k = 144 ∨ k = 145 ∨ k = 146 ∨ k = 147 ∨ k = 148 ∨ k = 149 ∨ k = 150 ∨ k = 151 ∨ k = 152 ∨ k = 153 ∨ k = 154 ∨ k = 155 ∨ k = 156 ∨ k = 157 ∨ k = 158 ∨ k = 159 := by omega
  rcases h with rfl | rfl | rfl | rfl | rfl | rfl | rfl | rfl | rfl | rfl | rfl | rfl | rfl | rfl | rfl | rfl
  · exact accadobe_k144
  · exact accadobe_k145
  · exact accadobe_k146
  · exact accadobe_k147
  · exact accadobe_k148
  · exact accadobe_k149
  · exact accadobe_k150
  · exact accadobe_k151
  · exact accadobe_k152
  · exact accadobe_k153
  · exact accadobe_k154
  · exact accadobe_k155
  · exact accadobe_k156
  · exact accadobe_k157
  · exact accadobe_k158
  · exact accadobe_k159

end Prism.C02
