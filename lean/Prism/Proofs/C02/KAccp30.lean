import Prism.Check.C02Acc

/-! Kernel-checked chunks (generated boiler-plate, see lib/gen_static.py). -/
namespace Prism.C02

theorem accp3_k0 : enc16AccChunk .p3 0 = true := by decide +kernel
theorem accp3_k1 : enc16AccChunk .p3 1 = true := by decide +kernel
theorem accp3_k2 : enc16AccChunk .p3 2 = true := by decide +kernel
theorem accp3_k3 : enc16AccChunk .p3 3 = true := by decide +kernel
theorem accp3_k4 : enc16AccChunk .p3 4 = true := by decide +kernel
theorem accp3_k5 : enc16AccChunk .p3 5 = true := by decide +kernel
theorem accp3_k6 : enc16AccChunk .p3 6 = true := by decide +kernel
theorem accp3_k7 : enc16AccChunk .p3 7 = true := by decide +kernel
theorem accp3_k8 : enc16AccChunk .p3 8 = true := by decide +kernel
theorem accp3_k9 : enc16AccChunk .p3 9 = true := by decide +kernel
theorem accp3_k10 : enc16AccChunk .p3 10 = true := by decide +kernel
theorem accp3_k11 : enc16AccChunk .p3 11 = true := by decide +kernel
theorem accp3_k12 : enc16AccChunk .p3 12 = true := by decide +kernel
theorem accp3_k13 : enc16AccChunk .p3 13 = true := by decide +kernel
theorem accp3_k14 : enc16AccChunk .p3 14 = true := by decide +kernel
theorem accp3_k15 : enc16AccChunk .p3 15 = true := by decide +kernel

theorem accp3_file0 : ∀ k, 0 ≤ k → k < 16 → enc16AccChunk .p3 k = true := by
  intro k h1 h2
  have h : k = 0 ∨ k = 1 ∨ k = 2 ∨ k = 3 ∨ k = 4 ∨ k = 5 ∨ k = 6 ∨ k = 7 ∨ k = 8 ∨ k = 9 ∨ k = 10 ∨ k = 11 ∨ k = 12 ∨ k = 13 ∨ k = 14 ∨ k = 15 := by omega
  rcases h with rfl | rfl | rfl | rfl | rfl | rfl | rfl | rfl | rfl | rfl | rfl | rfl | rfl | rfl | rfl | rfl
  · exact accp3_k0
  · exact accp3_k1
  · exact accp3_k2
  · exact accp3_k3
  · exact accp3_k4
  · exact accp3_k5
  · exact accp3_k6
  · exact accp3_k7
  · exact accp3_k8
  · exact accp3_k9
  · exact accp3_k10
  · exact accp3_k11
  · exact accp3_k12
  · exact accp3_k13
  · exact accp3_k14
  · exact accp3_k15

end Prism.C02
