import Prism.Check.C02Acc

/-! Kernel-checked chunks (generated boiler-plate, see lib/gen_static.py). -/
namespace Prism.C02

theorem accp3_k16 : enc16AccChunk .p3 16 = true := by decide +kernel
theorem accp3_k17 : enc16AccChunk .p3 17 = true := by decide +kernel
theorem accp3_k18 : enc16AccChunk .p3 18 = true := by decide +kernel
theorem accp3_k19 : enc16AccChunk .p3 19 = true := by decide +kernel
theorem accp3_k20 : enc16AccChunk .p3 20 = true := by decide +kernel
theorem accp3_k21 : enc16AccChunk .p3 21 = true := by decide +kernel
theorem accp3_k22 : enc16AccChunk .p3 22 = true := by decide +kernel
theorem accp3_k23 : enc16AccChunk .p3 23 = true := by decide +kernel
theorem accp3_k24 : enc16AccChunk .p3 24 = true := by decide +kernel
theorem accp3_k25 : enc16AccChunk .p3 25 = true := by decide +kernel
theorem accp3_k26 : enc16AccChunk .p3 26 = true := by decide +kernel
theorem accp3_k27 : enc16AccChunk .p3 27 = true := by decide +kernel
theorem accp3_k28 : enc16AccChunk .p3 28 = true := by decide +kernel
theorem accp3_k29 : enc16AccChunk .p3 29 = true := by decide +kernel
theorem accp3_k30 : enc16AccChunk .p3 30 = true := by decide +kernel
theorem accp3_k31 : enc16AccChunk .p3 31 = true := by decide +kernel

theorem accp3_file1 : ∀ k, 16 ≤ k → k < 32 → enc16AccChunk .p3 k = true := by
  intro k h1 h2
  have h : k = 16 ∨ k = 17 ∨ k = 18 ∨ k = 19 ∨ k = 20 ∨ k = 21 ∨ k = 22 ∨ k = 23 ∨ k = 24 ∨ k = 25 ∨ k = 26 ∨ k = 27 ∨ k = 28 ∨ k = 29 ∨ k = 30 ∨ k = 31 := by omega
  rcases h with rfl | rfl | rfl | rfl | rfl | rfl | rfl | rfl | rfl | rfl | rfl | rfl | rfl | rfl | rfl | rfl
  · exact accp3_k16
  · exact accp3_k17
  · exact accp3_k18
  · exact accp3_k19
  · exact accp3_k20
  · exact accp3_k21
  · exact accp3_k22
  · exact accp3_k23
  · exact accp3_k24
  · exact accp3_k25
  · exact accp3_k26
  · exact accp3_k27
  · exact accp3_k28
  · exact accp3_k29
  · exact accp3_k30
  · exact accp3_k31

end Prism.C02
