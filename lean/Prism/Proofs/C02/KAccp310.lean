import Prism.Check.C02Acc

/-! Kernel-checked chunks (generated boiler-plate, see lib/gen_static.py). -/
namespace Prism.C02

theorem accp3_k160 : enc16AccChunk .p3 160 = true := by decide +kernel
theorem accp3_k161 : enc16AccChunk .p3 161 = true := by decide +kernel
theorem accp3_k162 : enc16AccChunk .p3 162 = true := by decide +kernel
theorem accp3_k163 : enc16AccChunk .p3 163 = true := by decide +kernel
theorem accp3_k164 : enc16AccChunk .p3 164 = true := by decide +kernel
theorem accp3_k165 : enc16AccChunk .p3 165 = true := by decide +kernel
theorem accp3_k166 : enc16AccChunk .p3 166 = true := by decide +kernel
theorem accp3_k167 : enc16AccChunk .p3 167 = true := by decide +kernel
theorem accp3_k168 : enc16AccChunk .p3 168 = true := by decide +kernel
theorem accp3_k169 : enc16AccChunk .p3 169 = true := by decide +kernel
theorem accp3_k170 : enc16AccChunk .p3 170 = true := by decide +kernel
theorem accp3_k171 : enc16AccChunk .p3 171 = true := by decide +kernel
theorem accp3_k172 : enc16AccChunk .p3 172 = true := by decide +kernel
theorem accp3_k173 : enc16AccChunk .p3 173 = true := by decide +kernel
theorem accp3_k174 : enc16AccChunk .p3 174 = true := by decide +kernel
theorem accp3_k175 : enc16AccChunk .p3 175 = true := by decide +kernel

theorem accp3_file10 : ∀ k, 160 ≤ k → k < 176 → enc16AccChunk .p3 k = true := by
  intro k h1 h2
  have h : k = 160 ∨ k = 161 ∨ k = 162 ∨ k = 163 ∨ k = 164 ∨ k = 165 ∨ k = 166 ∨ k = 167 ∨ k = 168 ∨ k = 169 ∨ k = 170 ∨ k = 171 ∨ k = 172 ∨ k = 173 ∨ k = 174 ∨ k = 175 := by omega
  rcases h with rfl | rfl | rfl | rfl | rfl | rfl | rfl | rfl | rfl | rfl | rfl | rfl | rfl | rfl | rfl | rfl
  · exact accp3_k160
  · exact accp3_k161
  · exact accp3_k162
  · exact accp3_k163
  · exact accp3_k164
  · exact accp3_k165
  · exact accp3_k166
  · exact accp3_k167
  · exact accp3_k168
  · exact accp3_k169
  · exact accp3_k170
  · exact accp3_k171
  · exact accp3_k172
  · exact accp3_k173
  · exact accp3_k174
  · exact accp3_k175

end Prism.C02
