import Prism.Check.C02Acc

/-! Kernel-checked chunks (generated boiler-plate, see lib/gen_static.py). -/
namespace Prism.C02

theorem accp3_k176 : enc16AccChunk .p3 176 = true := by decide +kernel
theorem accp3_k177 : enc16AccChunk .p3 177 = true := by decide +kernel
theorem accp3_k178 : enc16AccChunk .p3 178 = true := by decide +kernel
theorem accp3_k179 : enc16AccChunk .p3 179 = true := by decide +kernel
theorem accp3_k180 : enc16AccChunk .p3 180 = true := by decide +kernel
theorem accp3_k181 : enc16AccChunk .p3 181 = true := by decide +kernel
theorem accp3_k182 : enc16AccChunk .p3 182 = true := by decide +kernel
theorem accp3_k183 : enc16AccChunk .p3 183 = true := by decide +kernel
theorem accp3_k184 : enc16AccChunk .p3 184 = true := by decide +kernel
theorem accp3_k185 : enc16AccChunk .p3 185 = true := by decide +kernel
theorem accp3_k186 : enc16AccChunk .p3 186 = true := by decide +kernel
theorem accp3_k187 : enc16AccChunk .p3 187 = true := by decide +kernel
theorem accp3_k188 : enc16AccChunk .p3 188 = true := by decide +kernel
theorem accp3_k189 : enc16AccChunk .p3 189 = true := by decide +kernel
theorem accp3_k190 : enc16AccChunk .p3 190 = true := by decide +kernel
theorem accp3_k191 : enc16AccChunk .p3 191 = true := by decide +kernel

theorem accp3_file11 : ∀ k, 176 ≤ k → k < 192 → enc16AccChunk .p3 k = true := by
  intro k h1 h2
  have h : k = 176 ∨ k = 177 ∨ k = 178 ∨ k = 179 ∨ k = 180 ∨ k = 181 ∨ k = 182 ∨ k = 183 ∨ k = 184 ∨ k = 185 ∨ k = 186 ∨ k = 187 ∨ k = 188 ∨ k = 189 ∨ k = 190 ∨ k = 191 := by omega
  rcases h with rfl | rfl | rfl | rfl | rfl | rfl | rfl | rfl | rfl | rfl | rfl | rfl | rfl | rfl | rfl | rfl
  · exact accp3_k176
  · exact accp3_k177
  · exact accp3_k178
  · exact accp3_k179
  · exact accp3_k180
  · exact accp3_k181
  · exact accp3_k182
  · exact accp3_k183
  · exact accp3_k184
  · exact accp3_k185
  · exact accp3_k186
  · exact accp3_k187
  · exact accp3_k188
  · exact accp3_k189
  · exact accp3_k190
  · exact accp3_k191

end Prism.C02
