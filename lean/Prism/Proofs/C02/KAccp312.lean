import Prism.Check.C02Acc

/-! Kernel-checked chunks (generated boiler-plate, see lib/gen_static.py). -/
namespace Prism.C02

theorem accp3_k192 : enc16AccChunk .p3 192 = true := by decide +kernel
theorem accp3_k193 : enc16AccChunk .p3 193 = true := by decide +kernel
theorem accp3_k194 : enc16AccChunk .p3 194 = true := by decide +kernel
theorem accp3_k195 : enc16AccChunk .p3 195 = true := by decide +kernel
theorem accp3_k196 : enc16AccChunk .p3 196 = true := by decide +kernel
theorem accp3_k197 : enc16AccChunk .p3 197 = true := by decide +kernel
theorem accp3_k198 : enc16AccChunk .p3 198 = true := by decide +kernel
theorem accp3_k199 : enc16AccChunk .p3 199 = true := by decide +kernel
theorem accp3_k200 : enc16AccChunk .p3 200 = true := by decide +kernel
theorem accp3_k201 : enc16AccChunk .p3 201 = true := by decide +kernel
theorem accp3_k202 : enc16AccChunk .p3 202 = true := by decide +kernel
theorem accp3_k203 : enc16AccChunk .p3 203 = true := by decide +kernel
theorem accp3_k204 : enc16AccChunk .p3 204 = true := by decide +kernel
theorem accp3_k205 : enc16AccChunk .p3 205 = true := by decide +kernel
theorem accp3_k206 : enc16AccChunk .p3 206 = true := by decide +kernel
theorem accp3_k207 : enc16AccChunk .p3 207 = true := by decide +kernel

theorem accp3_file12 : ∀ k, 192 ≤ k → k < 208 → enc16AccChunk .p3 k = true := by
  intro k h1 h2
  have h : k = 192 ∨ k = 193 ∨ k = 194 ∨ k = 195 ∨ k = 196 ∨ k = 197 ∨ k = 198 ∨ k = 199 ∨ k = 200 ∨ k = 201 ∨ k = 202 ∨ k = 203 ∨ k = 204 ∨ k = 205 ∨ k = 206 ∨ k = 207 := by omega
  rcases h with rfl | rfl | rfl | rfl | rfl | rfl | rfl | rfl | rfl | rfl | rfl | rfl | rfl | rfl | rfl | rfl
  · exact accp3_k192
  · exact accp3_k193
  · exact accp3_k194
  · exact accp3_k195
  · exact accp3_k196
  · exact accp3_k197
  · exact accp3_k198
  · exact accp3_k199
  · exact accp3_k200
  · exact accp3_k201
  · exact accp3_k202
  · exact accp3_k203
  · exact accp3_k204
  · exact accp3_k205
  · exact accp3_k206
  · exact accp3_k207

end Prism.C02
