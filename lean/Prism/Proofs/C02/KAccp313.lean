import Prism.Check.C02Acc

/-! Kernel-checked chunks (generated boiler-plate, see lib/gen_static.py). -/
namespace Prism.C02

theorem accp3_k208 : enc16AccChunk .p3 208 = true := by decide +kernel
theorem accp3_k209 : enc16AccChunk .p3 209 = true := by decide +kernel
theorem accp3_k210 : enc16AccChunk .p3 210 = true := by decide +kernel
theorem accp3_k211 : enc16AccChunk .p3 211 = true := by decide +kernel
theorem accp3_k212 : enc16AccChunk .p3 212 = true := by decide +kernel
theorem accp3_k213 : enc16AccChunk .p3 213 = true := by decide +kernel
theorem accp3_k214 : enc16AccChunk .p3 214 = true := by decide +kernel
theorem accp3_k215 : enc16AccChunk .p3 215 = true := by decide +kernel
theorem accp3_k216 : enc16AccChunk .p3 216 = true := by decide +kernel
theorem accp3_k217 : enc16AccChunk .p3 217 = true := by decide +kernel
theorem accp3_k218 : enc16AccChunk .p3 218 = true := by decide +kernel
theorem accp3_k219 : enc16AccChunk .p3 219 = true := by decide +kernel
theorem accp3_k220 : enc16AccChunk .p3 220 = true := by decide +kernel
theorem accp3_k221 : enc16AccChunk .p3 221 = true := by decide +kernel
theorem accp3_k222 : enc16AccChunk .p3 222 = true := by decide +kernel
theorem accp3_k223 : enc16AccChunk .p3 223 = true := by decide +kernel

theorem accp3_file13 : ∀ k, 208 ≤ k → k < 224 → enc16AccChunk .p3 k = true := by
  intro k h1 h2
  have h : k = 208 ∨ k = 209 ∨ k = 210 ∨ k = 211 ∨ k = 212 ∨ k = 213 ∨ k = 214 ∨ k = 215 ∨ k = 216 ∨ k = 217 ∨ k = 218 ∨ k = 219 ∨ k = 220 ∨ k = 221 ∨ k = 222 ∨ k = 223 := by omega
  rcases h with rfl | rfl | rfl | rfl | rfl | rfl | rfl | rfl | rfl | rfl | rfl | rfl | rfl | rfl | rfl | rfl
  · exact accp3_k208
  · exact accp3_k209
  · exact accp3_k210
  · exact accp3_k211
  · exact accp3_k212
  · exact accp3_k213
  · exact accp3_k214
  · exact accp3_k215
  · exact accp3_k216
  · exact accp3_k217
  · exact accp3_k218
  · exact accp3_k219
  · exact accp3_k220
  · exact accp3_k221
  · exact accp3_k222
  · exact accp3_k223

end Prism.C02
