import Prism.Check.C02Acc

/-! Kernel-checked chunks (generated boiler-plate, see lib/gen_static.py). -/
namespace Prism.C02

theorem accp3_k224 : enc16AccChunk .p3 224 = true := by decide +kernel
theorem accp3_k225 : enc16AccChunk .p3 225 = true := by decide +kernel
theorem accp3_k226 : enc16AccChunk .p3 226 = true := by decide +kernel
theorem accp3_k227 : enc16AccChunk .p3 227 = true := by decide +kernel
theorem accp3_k228 : enc16AccChunk .p3 228 = true := by decide +kernel
theorem accp3_k229 : enc16AccChunk .p3 229 = true := by decide +kernel
theorem accp3_k230 : enc16AccChunk .p3 230 = true := by decide +kernel
theorem accp3_k231 : enc16AccChunk .p3 231 = true := by decide +kernel
theorem accp3_k232 : enc16AccChunk .p3 232 = true := by decide +kernel
theorem accp3_k233 : enc16AccChunk .p3 233 = true := by decide +kernel
theorem accp3_k234 : enc16AccChunk .p3 234 = true := by decide +kernel
theorem accp3_k235 : enc16AccChunk .p3 235 = true := by decide +kernel
theorem accp3_k236 : enc16AccChunk .p3 236 = true := by decide +kernel
theorem accp3_k237 : enc16AccChunk .p3 237 = true := by decide +kernel
theorem accp3_k238 : enc16AccChunk .p3 238 = true := by decide +kernel
theorem accp3_k239 : enc16AccChunk .p3 239 = true := by decide +kernel

theorem accp3_file14 : ∀ k, 224 ≤ k → k < 240 → enc16AccChunk .p3 k = true := by
  intro k h1 h2
  have h : k = 224 ∨ k = 225 ∨ k = 226 ∨ k = 227 ∨ k = 228 ∨ k = 229 ∨ k = 230 ∨ k = 231 ∨ k = 232 ∨ k = 233 ∨ k = 234 ∨ k = 235 ∨ k = 236 ∨ k = 237 ∨ k = 238 ∨ k = 239 := by omega
  rcases h with rfl | rfl | rfl | rfl | rfl | rfl | rfl | rfl | rfl | rfl | rfl | rfl | rfl | rfl | rfl | rfl
  · exact accp3_k224
  · exact accp3_k225
  · exact accp3_k226
  · exact accp3_k227
  · exact accp3_k228
  · exact accp3_k229
  · exact accp3_k230
  · exact accp3_k231
  · exact accp3_k232
  · exact accp3_k233
  · exact accp3_k234
  · exact accp3_k235
  · exact accp3_k236
  · exact accp3_k237
  · exact accp3_k238
  · exact accp3_k239

end Prism.C02
