import Prism.Check.C02Acc

/-! Kernel-checked chunks (generated boiler-plate, see lib/gen_static.py). -/
namespace Prism.C02

theorem accp3_k240 : enc16AccChunk .p3 240 = true := by decide +kernel
theorem accp3_k241 : enc16AccChunk .p3 241 = true := by decide +kernel
theorem accp3_k242 : enc16AccChunk .p3 242 = true := by decide +kernel
theorem accp3_k243 : enc16AccChunk .p3 243 = true := by decide +kernel
theorem accp3_k244 : enc16AccChunk .p3 244 = true := by decide +kernel
theorem accp3_k245 : enc16AccChunk .p3 245 = true := by decide +kernel
theorem accp3_k246 : enc16AccChunk .p3 246 = true := by decide +kernel
theorem accp3_k247 : enc16AccChunk .p3 247 = true := by decide +kernel
theorem accp3_k248 : enc16AccChunk .p3 248 = true := by decide +kernel
theorem accp3_k249 : enc16AccChunk .p3 249 = true := by decide +kernel
theorem accp3_k250 : enc16AccChunk .p3 250 = true := by decide +kernel
theorem accp3_k251 : enc16AccChunk .p3 251 = true := by decide +kernel
theorem accp3_k252 : enc16AccChunk .p3 252 = true := by decide +kernel
theorem accp3_k253 : enc16AccChunk .p3 253 = true := by decide +kernel
theorem accp3_k254 : enc16AccChunk .p3 254 = true := by decide +kernel
theorem accp3_k255 : enc16AccChunk .p3 255 = true := by decide +kernel

theorem accp3_file15 : ∀ k, 240 ≤ k → k < 256 → enc16AccChunk .p3 k = true := by
  intro k h1 h2
  have h : k = 240 ∨ k = 241 ∨ k = 242 ∨ k = 243 ∨ k = 244 ∨ k = 245 ∨ k = 246 ∨ k = 247 ∨ k = 248 ∨ k = 249 ∨ k = 250 ∨ k = 251 ∨ k = 252 ∨ k = 253 ∨ k = 254 ∨ k = 255 := by omega
  rcases h with rfl | rfl | rfl | rfl | rfl | rfl | rfl | rfl | rfl | rfl | rfl | rfl | rfl | rfl | rfl | rfl
  · exact accp3_k240
  · exact accp3_k241
  · exact accp3_k242
  · exact accp3_k243
  · exact accp3_k244
  · exact accp3_k245
  · exact accp3_k246
  · exact accp3_k247
  · exact accp3_k248
  · exact accp3_k249
  · exact accp3_k250
  · exact accp3_k251
  · exact accp3_k252
  · exact accp3_k253
  · exact accp3_k254
  · exact accp3_k255

end Prism.C02
