import Prism.Check.C02Acc

/-! Kernel-checked chunks (generated boiler-plate, see lib/gen_static.py). -/
namespace Prism.C02

theorem accp3_k32 : enc16AccChunk .p3 32 = true := by decide +kernel
theorem accp3_k33 : enc16AccChunk .p3 33 = true := by decide +kernel
theorem accp3_k34 : enc16AccChunk .p3 34 = true := by decide +kernel
theorem accp3_k35 : enc16AccChunk .p3 35 = true := by decide +kernel
theorem accp3_k36 : enc16AccChunk .p3 36 = true := by decide +kernel
theorem accp3_k37 : enc16AccChunk .p3 37 = true := by decide +kernel
theorem accp3_k38 : enc16AccChunk .p3 38 = true := by decide +kernel
theorem accp3_k39 : enc16AccChunk .p3 39 = true := by decide +kernel
theorem accp3_k40 : enc16AccChunk .p3 40 = true := by decide +kernel
theorem accp3_k41 : enc16AccChunk .p3 41 = true := by decide +kernel
theorem accp3_k42 : enc16AccChunk .p3 42 = true := by decide +kernel
theorem accp3_k43 : enc16AccChunk .p3 43 = true := by decide +kernel
theorem accp3_k44 : enc16AccChunk .p3 44 = true := by decide +kernel
theorem accp3_k45 : enc16AccChunk .p3 45 = true := by decide +kernel
theorem accp3_k46 : enc16AccChunk .p3 46 = true := by decide +kernel
theorem accp3_k47 : enc16AccChunk .p3 47 = true := by decide +kernel

theorem accp3_file2 : ∀ k, 32 ≤ k → k < 48 → enc16AccChunk .p3 k = true := by
  intro k h1 h2
  have h : k = 32 ∨ k = 33 ∨ k = 34 ∨ k = 35 ∨ k = 36 ∨ k = 37 ∨ k = 38 ∨ k = 39 ∨ k = 40 ∨ k = 41 ∨ k = 42 ∨ k = 43 ∨ k = 44 ∨ k = 45 ∨ k = 46 ∨ k = 47 := by omega
  rcases h with rfl | rfl | rfl | rfl | rfl | rfl | rfl | rfl | rfl | rfl | rfl | rfl | rfl | rfl | rfl | rfl
  · exact accp3_k32
  · exact accp3_k33
  · exact accp3_k34
  · exact accp3_k35
  · exact accp3_k36
  · exact accp3_k37
  · exact accp3_k38
  · exact accp3_k39
  · exact accp3_k40
  · exact accp3_k41
  · exact accp3_k42
  · exact accp3_k43
  · exact accp3_k44
  · exact accp3_k45
  · exact accp3_k46
  · exact accp3_k47

end Prism.C02
