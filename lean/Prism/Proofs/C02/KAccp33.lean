import Prism.Check.C02Acc

/-! Kernel-checked chunks (generated boiler-plate, see lib/gen_static.py). -/
namespace Prism.C02

theorem accp3_k48 : enc16AccChunk .p3 48 = true := by decide +kernel
theorem accp3_k49 : enc16AccChunk .p3 49 = true := by decide +kernel
theorem accp3_k50 : enc16AccChunk .p3 50 = true := by decide +kernel
theorem accp3_k51 : enc16AccChunk .p3 51 = true := by decide +kernel
theorem accp3_k52 : enc16AccChunk .p3 52 = true := by decide +kernel
theorem accp3_k53 : enc16AccChunk .p3 53 = true := by decide +kernel
theorem accp3_k54 : enc16AccChunk .p3 54 = true := by decide +kernel
theorem accp3_k55 : enc16AccChunk .p3 55 = true := by decide +kernel
theorem accp3_k56 : enc16AccChunk .p3 56 = true := by decide +kernel
theorem accp3_k57 : enc16AccChunk .p3 57 = true := by decide +kernel
theorem accp3_k58 : enc16AccChunk .p3 58 = true := by decide +kernel
theorem accp3_k59 : enc16AccChunk .p3 59 = true := by decide +kernel
theorem accp3_k60 : enc16AccChunk .p3 60 = true := by decide +kernel
theorem accp3_k61 : enc16AccChunk .p3 61 = true := by decide +kernel
theorem accp3_k62 : enc16AccChunk .p3 62 = true := by decide +kernel
theorem accp3_k63 : enc16AccChunk .p3 63 = true := by decide +kernel

theorem accp3_file3 : ∀ k, 48 ≤ k → k < 64 → enc16AccChunk .p3 k = true := by
  intro k h1 h2
  have h : k = 48 ∨ k = 49 ∨ k = 50 ∨ k = 51 ∨ k = 52 ∨ k = 53 ∨ k = 54 ∨ k = 55 ∨ k = 56 ∨ k = 57 ∨ k = 58 ∨ k = 59 ∨ k = 60 ∨ k = 61 ∨ k = 62 ∨ k = 63 := by omega
  rcases h with rfl | rfl | rfl | rfl | rfl | rfl | rfl | rfl | rfl | rfl | rfl | rfl | rfl | rfl | rfl | rfl
  · exact accp3_k48
  · exact accp3_k49
  · exact accp3_k50
  · exact accp3_k51
  · exact accp3_k52
  · exact accp3_k53
  · exact accp3_k54
  · exact accp3_k55
  · exact accp3_k56
  · exact accp3_k57
  · exact accp3_k58
  · exact accp3_k59
  · exact accp3_k60
  · exact accp3_k61
  · exact accp3_k62
  · exact accp3_k63

end Prism.C02
