import Prism.Check.C02Acc

/-! Kernel-checked chunks (generated boiler-plate, see lib/gen_static.py). -/
namespace Prism.C02

theorem accp3_k64 : enc16AccChunk .p3 64 = true := by decide +kernel
theorem accp3_k65 : enc16AccChunk .p3 65 = true := by decide +kernel
theorem accp3_k66 : enc16AccChunk .p3 66 = true := by decide +kernel
theorem accp3_k67 : enc16AccChunk .p3 67 = true := by decide +kernel
theorem accp3_k68 : enc16AccChunk .p3 68 = true := by decide +kernel
theorem accp3_k69 : enc16AccChunk .p3 69 = true := by decide +kernel
theorem accp3_k70 : enc16AccChunk .p3 70 = true := by decide +kernel
theorem accp3_k71 : enc16AccChunk .p3 71 = true := by decide +kernel
theorem accp3_k72 : enc16AccChunk .p3 72 = true := by decide +kernel
theorem accp3_k73 : enc16AccChunk .p3 73 = true := by decide +kernel
theorem accp3_k74 : enc16AccChunk .p3 74 = true := by decide +kernel
theorem accp3_k75 : enc16AccChunk .p3 75 = true := by decide +kernel
theorem accp3_k76 : enc16AccChunk .p3 76 = true := by decide +kernel
theorem accp3_k77 : enc16AccChunk .p3 77 = true := by decide +kernel
theorem accp3_k78 : enc16AccChunk .p3 78 = true := by decide +kernel
theorem accp3_k79 : enc16AccChunk .p3 79 = true := by decide +kernel

theorem accp3_file4 : ∀ k, 64 ≤ k → k < 80 → enc16AccChunk .p3 k = true := by
  intro k h1 h2
  have h : k = 64 ∨ k = 65 ∨ k = 66 ∨ k = 67 ∨ k = 68 ∨ k = 69 ∨ k = 70 ∨ k = 71 ∨ k = 72 ∨ k = 73 ∨ k = 74 ∨ k = 75 ∨ k = 76 ∨ k = 77 ∨ k = 78 ∨ k = 79 := by omega
  rcases h with rfl | rfl | rfl | rfl | rfl | rfl | rfl | rfl | rfl | rfl | rfl | rfl | rfl | rfl | rfl | rfl
  · exact accp3_k64
  · exact accp3_k65
  · exact accp3_k66
  · exact accp3_k67
  · exact accp3_k68
  · exact accp3_k69
  · exact accp3_k70
  · exact accp3_k71
  · exact accp3_k72
  · exact accp3_k73
  · exact accp3_k74
  · exact accp3_k75
  · exact accp3_k76
  · exact accp3_k77
  · exact accp3_k78
  · exact accp3_k79

end Prism.C02
