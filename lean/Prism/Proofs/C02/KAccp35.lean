import Prism.Check.C02Acc

/-! Kernel-checked chunks (generated boiler-plate, see lib/gen_static.py). -/
namespace Prism.C02

theorem accp3_k80 : enc16AccChunk .p3 80 = true := by decide +kernel
theorem accp3_k81 : enc16AccChunk .p3 81 = true := by decide +kernel
theorem accp3_k82 : enc16AccChunk .p3 82 = true := by decide +kernel
theorem accp3_k83 : enc16AccChunk .p3 83 = true := by decide +kernel
theorem accp3_k84 : enc16AccChunk .p3 84 = true := by decide +kernel
theorem accp3_k85 : enc16AccChunk .p3 85 = true := by decide +kernel
theorem accp3_k86 : enc16AccChunk .p3 86 = true := by decide +kernel
theorem accp3_k87 : enc16AccChunk .p3 87 = true := by decide +kernel
theorem accp3_k88 : enc16AccChunk .p3 88 = true := by decide +kernel
theorem accp3_k89 : enc16AccChunk .p3 89 = true := by decide +kernel
theorem accp3_k90 : enc16AccChunk .p3 90 = true := by decide +kernel
theorem accp3_k91 : enc16AccChunk .p3 91 = true := by decide +kernel
theorem accp3_k92 : enc16AccChunk .p3 92 = true := by decide +kernel
theorem accp3_k93 : enc16AccChunk .p3 93 = true := by decide +kernel
theorem accp3_k94 : enc16AccChunk .p3 94 = true := by decide +kernel
theorem accp3_k95 : enc16AccChunk .p3 95 = true := by decide +kernel

theorem accp3_file5 : ∀ k, 80 ≤ k → k < 96 → enc16AccChunk .p3 k = true := by
  intro k h1 h2
  have h : k = 80 ∨ k = 81 ∨ k = 82 ∨ k = 83 ∨ k = 84 ∨ k = 85 ∨ k = 86 ∨ k = 87 ∨ k = 88 ∨ k = 89 ∨ k = 90 ∨ k = 91 ∨ k = 92 ∨ k = 93 ∨ k = 94 ∨ k = 95 := by omega
  rcases h with rfl | rfl | rfl | rfl | rfl | rfl | rfl | rfl | rfl | rfl | rfl | rfl | rfl | rfl | rfl | rfl
  · exact accp3_k80
  · exact accp3_k81
  · exact accp3_k82
  · exact accp3_k83
  · exact accp3_k84
  · exact accp3_k85
  · exact accp3_k86
  · exact accp3_k87
  · exact accp3_k88
  · exact accp3_k89
  · exact accp3_k90
  · exact accp3_k91
  · exact accp3_k92
  · exact accp3_k93
  · exact accp3_k94
  · exact accp3_k95

end Prism.C02
