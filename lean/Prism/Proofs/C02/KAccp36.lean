import Prism.Check.C02Acc

/-! Kernel-checked chunks (generated boiler-plate, see lib/gen_static.py). -/
namespace Prism.C02

theorem accp3_k96 : enc16AccChunk .p3 96 = true := by decide +kernel
theorem accp3_k97 : enc16AccChunk .p3 97 = true := by decide +kernel
theorem accp3_k98 : enc16AccChunk .p3 98 = true := by decide +kernel
theorem accp3_k99 : enc16AccChunk .p3 99 = true := by decide +kernel
theorem accp3_k100 : enc16AccChunk .p3 100 = true := by decide +kernel
theorem accp3_k101 : enc16AccChunk .p3 101 = true := by decide +kernel
theorem accp3_k102 : enc16AccChunk .p3 102 = true := by decide +kernel
theorem accp3_k103 : enc16AccChunk .p3 103 = true := by decide +kernel
theorem accp3_k104 : enc16AccChunk .p3 104 = true := by decide +kernel
theorem accp3_k105 : enc16AccChunk .p3 105 = true := by decide +kernel
theorem accp3_k106 : enc16AccChunk .p3 106 = true := by decide +kernel
theorem accp3_k107 : enc16AccChunk .p3 107 = true := by decide +kernel
theorem accp3_k108 : enc16AccChunk .p3 108 = true := by decide +kernel
theorem accp3_k109 : enc16AccChunk .p3 109 = true := by decide +kernel
theorem accp3_k110 : enc16AccChunk .p3 110 = true := by decide +kernel
theorem accp3_k111 : enc16AccChunk .p3 111 = true := by decide +kernel

theorem accp3_file6 : ∀ k, 96 ≤ k → k < 112 → enc16AccChunk .p3 k = true := by
  intro k h1 h2
  have h : k = 96 ∨ k = 97 ∨ k = 98 ∨ k = 99 ∨ k = 100 ∨ k = 101 ∨ k = 102 ∨ k = 103 ∨ k = 104 ∨ k = 105 ∨ k = 106 ∨ k = 107 ∨ k = 108 ∨ k = 109 ∨ k = 110 ∨ k = 111 := by omega
  rcases h with rfl | rfl | rfl | rfl | rfl | rfl | rfl | rfl | rfl | rfl | rfl | rfl | rfl | rfl | rfl | rfl
  · exact accp3_k96
  · exact accp3_k97
  · exact accp3_k98
  · exact accp3_k99
  · exact accp3_k100
  · exact accp3_k101
  · exact accp3_k102
  · exact accp3_k103
  · exact accp3_k104
  · exact accp3_k105
  · exact accp3_k106
  · exact accp3_k107
  · exact accp3_k108
  · exact accp3_k109
  · exact accp3_k110
  · exact accp3_k111

end Prism.C02
