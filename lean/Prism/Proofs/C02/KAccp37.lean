import Prism.Check.C02Acc

/-! Kernel-checked chunks (generated boiler-plate, see lib/gen_static.py). -/
namespace Prism.C02

theorem accp3_k112 : enc16AccChunk .p3 112 = true := by decide +kernel
theorem accp3_k113 : enc16AccChunk .p3 113 = true := by decide +kernel
theorem accp3_k114 : enc16AccChunk .p3 114 = true := by decide +kernel
theorem accp3_k115 : enc16AccChunk .p3 115 = true := by decide +kernel
theorem accp3_k116 : enc16AccChunk .p3 116 = true := by decide +kernel
theorem accp3_k117 : enc16AccChunk .p3 117 = true := by decide +kernel
theorem accp3_k118 : enc16AccChunk .p3 118 = true := by decide +kernel
theorem accp3_k119 : enc16AccChunk .p3 119 = true := by decide +kernel
theorem accp3_k120 : enc16AccChunk .p3 120 = true := by decide +kernel
theorem accp3_k121 : enc16AccChunk .p3 121 = true := by decide +kernel
theorem accp3_k122 : enc16AccChunk .p3 122 = true := by decide +kernel
theorem accp3_k123 : enc16AccChunk .p3 123 = true := by decide +kernel
theorem accp3_k124 : enc16AccChunk .p3 124 = true := by decide +kernel
theorem accp3_k125 : enc16AccChunk .p3 125 = true := by decide +kernel
theorem accp3_k126 : enc16AccChunk .p3 126 = true := by decide +kernel
theorem accp3_k127 : enc16AccChunk .p3 127 = true := by decide +kernel

theorem accp3_file7 : ∀ k, 112 ≤ k → k < 128 → enc16AccChunk .p3 k = true := by
  intro k h1 h2
  have h : k = 112 ∨ k = 113 ∨ k = 114 ∨ k = 115 ∨ k = 116 ∨ k = 117 ∨ k = 118 ∨ k = 119 ∨ k = 120 ∨ k = 121 ∨ k = 122 ∨ k = 123 ∨ k = 124 ∨ k = 125 ∨ k = 126 ∨ k = 127 := by omega
  rcases h with rfl | rfl | rfl | rfl | rfl | rfl | rfl | rfl | rfl | rfl | rfl | rfl | rfl | rfl | rfl | rfl
  · exact accp3_k112
  · exact accp3_k113
  · exact accp3_k114
  · exact accp3_k115
  · exact accp3_k116
  · exact accp3_k117
  · exact accp3_k118
  · exact accp3_k119
  · exact accp3_k120
  · exact accp3_k121
  · exact accp3_k122
  · exact accp3_k123
  · exact accp3_k124
  · exact accp3_k125
  · exact accp3_k126
  · exact accp3_k127

end Prism.C02
