import Prism.Check.C02Acc

/-! Kernel-checked chunks (generated boiler-plate, see lib/gen_static.py). -/
namespace Prism.C02

theorem accp3_k128 : enc16AccChunk .p3 128 = true := by decide +kernel
theorem accp3_k129 : enc16AccChunk .p3 129 = true := by decide +kernel
theorem accp3_k130 : enc16AccChunk .p3 130 = true := by decide +kernel
theorem accp3_k131 : enc16AccChunk .p3 131 = true := by decide +kernel
theorem accp3_k132 : enc16AccChunk .p3 132 = true := by decide +kernel
theorem accp3_k133 : enc16AccChunk .p3 133 = true := by decide +kernel
theorem accp3_k134 : enc16AccChunk .p3 134 = true := by decide +kernel
theorem accp3_k135 : enc16AccChunk .p3 135 = true := by decide +kernel
theorem accp3_k136 : enc16AccChunk .p3 136 = true := by decide +kernel
theorem accp3_k137 : enc16AccChunk .p3 137 = true := by decide +kernel
theorem accp3_k138 : enc16AccChunk .p3 138 = true := by decide +kernel
theorem accp3_k139 : enc16AccChunk .p3 139 = true := by decide +kernel
theorem accp3_k140 : enc16AccChunk .p3 140 = true := by decide +kernel
theorem accp3_k141 : enc16AccChunk .p3 141 = true := by decide +kernel
theorem accp3_k142 : enc16AccChunk .p3 142 = true := by decide +kernel
theorem accp3_k143 : enc16AccChunk .p3 143 = true := by decide +kernel

theorem accp3_file8 : ∀ k, 128 ≤ k → k < 144 → enc16AccChunk .p3 k = true := by
  intro k h1 h2
  have h : k = 128 ∨ k = 129 ∨ k = 130 ∨ k = 131 ∨ k = 132 ∨ k = 133 ∨ k = 134 ∨ k = 135 ∨ k = 136 ∨ k = 137 ∨ k = 138 ∨ k = 139 ∨ k = 140 ∨ k = 141 ∨ k = 142 ∨ k = 143 := by omega
  rcases h with rfl | rfl | rfl | rfl | rfl | rfl | rfl | rfl | rfl | rfl | rfl | rfl | rfl | rfl | rfl | rfl
  · exact accp3_k128
  · exact accp3_k129
  · exact accp3_k130
  · exact accp3_k131
  · exact accp3_k132
  · exact accp3_k133
  · exact accp3_k134
  · exact accp3_k135
  · exact accp3_k136
  · exact accp3_k137
  · exact accp3_k138
  · exact accp3_k139
  · exact accp3_k140
  · exact accp3_k141
  · exact accp3_k142
  · exact accp3_k143

end Prism.C02
