import Prism.Check.C02Acc

/-! Kernel-checked chunks (generated boiler-plate, see lib/gen_static.py). -/
namespace Prism.C02

theorem accp3_k144 : enc16AccChunk .p3 144 = true := by decide +kernel
theorem accp3_k145 : enc16AccChunk .p3 145 = true := by decide +kernel
theorem accp3_k146 : enc16AccChunk .p3 146 = true := by decide +kernel
theorem accp3_k147 : enc16AccChunk .p3 147 = true := by decide +kernel
theorem accp3_k148 : enc16AccChunk .p3 148 = true := by decide +kernel
theorem accp3_k149 : enc16AccChunk .p3 149 = true := by decide +kernel
theorem accp3_k150 : enc16AccChunk .p3 150 = true := by decide +kernel
theorem accp3_k151 : enc16AccChunk .p3 151 = true := by decide +kernel
theorem accp3_k152 : enc16AccChunk .p3 152 = true := by decide +kernel
theorem accp3_k153 : enc16AccChunk .p3 153 = true := by decide +kernel
theorem accp3_k154 : enc16AccChunk .p3 154 = true := by decide +kernel
theorem accp3_k155 : enc16AccChunk .p3 155 = true := by decide +kernel
theorem accp3_k156 : enc16AccChunk .p3 156 = true := by decide +kernel
theorem accp3_k157 : enc16AccChunk .p3 157 = true := by decide +kernel
theorem accp3_k158 : enc16AccChunk .p3 158 = true := by decide +kernel
theorem accp3_k159 : enc16AccChunk .p3 159 = true := by decide +kernel

theorem accp3_file9 : ∀ k, 144 ≤ k → k < 160 → enc16AccChunk .p3 k = true := by
  intro k h1 h2
  have h : k = 144 ∨ k = 145 ∨ k = 146 ∨ k = 147 ∨ k = 148 ∨ k = 149 ∨ k = 150 ∨ k = 151 ∨ k = 152 ∨ k = 153 ∨ k = 154 ∨ k = 155 ∨ k = 156 ∨ k = 157 ∨ k = 158 ∨ k = 159 := by omega
  rcases h with rfl | rfl | rfl | rfl | rfl | rfl | rfl | rfl | rfl | rfl | rfl | rfl | rfl | rfl | rfl | rfl
  · exact accp3_k144
  · exact accp3_k145
  · exact accp3_k146
  · exact accp3_k147
  · exact accp3_k148
  · exact accp3_k149
  · exact accp3_k150
  · exact accp3_k151
  · exact accp3_k152
  · exact accp3_k153
  · exact accp3_k154
  · exact accp3_k155
  · exact accp3_k156
  · exact accp3_k157
  · exact accp3_k158
  · exact accp3_k159

end Prism.C02
