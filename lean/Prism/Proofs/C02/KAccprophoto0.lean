import Prism.Check.C02Acc

/-! Kernel-checked chunks (generated boiler-plate, see lib/gen_static.py). -/
namespace Prism.C02

theorem accprophoto_k0 : enc16AccChunk .prophoto 0 = true := by decide +kernel
theorem accprophoto_k1 : enc16AccChunk .prophoto 1 = true := by decide +kernel
theorem accprophoto_k2 : enc16AccChunk .prophoto 2 = true := by decide +kernel
theorem accprophoto_k3 : enc16AccChunk .prophoto 3 = true := by decide +kernel
theorem accprophoto_k4 : enc16AccChunk .prophoto 4 = true := by decide +kernel
theorem accprophoto_k5 : enc16AccChunk .prophoto 5 = true := by decide +kernel
theorem accprophoto_k6 : enc16AccChunk .prophoto 6 = true := by decide +kernel
theorem accprophoto_k7 : enc16AccChunk .prophoto 7 = true := by decide +kernel
theorem accprophoto_k8 : enc16AccChunk .prophoto 8 = true := by decide +kernel
theorem accprophoto_k9 : enc16AccChunk .prophoto 9 = true := by decide +kernel
theorem accprophoto_k10 : enc16AccChunk .prophoto 10 = true := by decide +kernel
theorem accprophoto_k11 : enc16AccChunk .prophoto 11 = true := by decide +kernel
theorem accprophoto_k12 : enc16AccChunk .prophoto 12 = true := by decide +kernel
theorem accprophoto_k13 : enc16AccChunk .prophoto 13 = true := by decide +kernel
theorem accprophoto_k14 : enc16AccChunk .prophoto 14 = true := by decide +kernel
theorem accprophoto_k15 : enc16AccChunk .prophoto 15 = true := by decide +kernel

theorem accprophoto_file0 : ∀ k, 0 ≤ k → k < 16 → enc16AccChunk .prophoto k = true := by
  intro k h1 h2
  have h : k = 0 ∨ k = 1 ∨ k = 2 ∨ k = 3 ∨ k = 4 ∨ k = 5 ∨ k = 6 ∨ k = 7 ∨ k = 8 ∨ k = 9 ∨ k = 10 ∨ k = 11 ∨ k = 12 ∨ k = 13 ∨ k = 14 ∨ k = 15 := by omega
  rcases h with rfl | rfl | rfl | rfl | rfl | rfl | rfl | rfl | rfl | rfl | rfl | rfl | rfl | rfl | rfl | rfl
  · exact accprophoto_k0
  · exact accprophoto_k1
  · exact accprophoto_k2
  · exact accprophoto_k3
  · exact accprophoto_k4
  · exact accprophoto_k5
  · exact accprophoto_k6
  · exact accprophoto_k7
  · exact accprophoto_k8
  · exact accprophoto_k9
  · exact accprophoto_k10
  · exact accprophoto_k11
  · exact accprophoto_k12
  · exact accprophoto_k13
  · exact accprophoto_k14
  · exact accprophoto_k15

end Prism.C02
