import Prism.Check.C02Acc

/-! Kernel-checked chunks (generated boiler-plate, see lib/gen_static.py). -/
namespace Prism.C02

theorem accprophoto_k16 : enc16AccChunk .prophoto 16 = true := by decide +kernel
theorem accprophoto_k17 : enc16AccChunk .prophoto 17 = true := by decide +kernel
theorem accprophoto_k18 : enc16AccChunk .prophoto 18 = true := by decide +kernel
theorem accprophoto_k19 : enc16AccChunk .prophoto 19 = true := by decide +kernel
theorem accprophoto_k20 : enc16AccChunk .prophoto 20 = true := by decide +kernel
theorem accprophoto_k21 : enc16AccChunk .prophoto 21 = true := by decide +kernel
theorem accprophoto_k22 : enc16AccChunk .prophoto 22 = true := by decide +kernel
theorem accprophoto_k23 : enc16AccChunk .prophoto 23 = true := by decide +kernel
theorem accprophoto_k24 : enc16AccChunk .prophoto 24 = true := by decide +kernel
theorem accprophoto_k25 : enc16AccChunk .prophoto 25 = true := by decide +kernel
theorem accprophoto_k26 : enc16AccChunk .prophoto 26 = true := by decide +kernel
theorem accprophoto_k27 : enc16AccChunk .prophoto 27 = true := by decide +kernel
theorem accprophoto_k28 : enc16AccChunk .prophoto 28 = true := by decide +kernel
theorem accprophoto_k29 : enc16AccChunk .prophoto 29 = true := by decide +kernel
theorem accprophoto_k30 : enc16AccChunk .prophoto 30 = true := by decide +kernel
theorem accprophoto_k31 : enc16AccChunk .prophoto 31 = true := by decide +kernel

theorem accprophoto_file1 : ∀ k, 16 ≤ k → k < 32 → enc16AccChunk .prophoto k = true := by
  intro k h1 h2
  have h : k = 16 ∨ k = 17 ∨ k = 18 ∨ k = 19 ∨ k = 20 ∨ k = 21 ∨ k = 22 ∨ k = 23 ∨ k = 24 ∨ k = 25 ∨ k = 26 ∨ k = 27 ∨ k = 28 ∨ k = 29 ∨ k = 30 ∨ k = 31 := by omega
  rcases h with rfl | rfl | rfl | rfl | rfl | rfl | rfl | rfl | rfl | rfl | rfl | rfl | rfl | rfl | rfl | rfl
  · exact accprophoto_k16
  · exact accprophoto_k17
  · exact accprophoto_k18
  · exact accprophoto_k19
  · exact accprophoto_k20
  · exact accprophoto_k21
  · exact accprophoto_k22
  · exact accprophoto_k23
  · exact accprophoto_k24
  · exact accprophoto_k25
  · exact accprophoto_k26
  · exact accprophoto_k27
  · exact accprophoto_k28
  · exact accprophoto_k29
  · exact accprophoto_k30
  · exact accprophoto_k31

end Prism.C02
