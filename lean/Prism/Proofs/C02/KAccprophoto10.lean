import Prism.Check.C02Acc

/-! Kernel-checked chunks (generated boiler-plate, see lib/gen_static.py). -/
namespace Prism.C02

theorem accprophoto_k160 : enc16AccChunk .prophoto 160 = true := by decide +kernel
theorem accprophoto_k161 : enc16AccChunk .prophoto 161 = true := by decide +kernel
theorem accprophoto_k162 : enc16AccChunk .prophoto 162 = true := by decide +kernel
theorem accprophoto_k163 : enc16AccChunk .prophoto 163 = true := by decide +kernel
theorem accprophoto_k164 : enc16AccChunk .prophoto 164 = true := by decide +kernel
theorem accprophoto_k165 : enc16AccChunk .prophoto 165 = true := by decide +kernel
theorem accprophoto_k166 : enc16AccChunk .prophoto 166 = true := by decide +kernel
theorem accprophoto_k167 : enc16AccChunk .prophoto 167 = true := by decide +kernel
theorem accprophoto_k168 : enc16AccChunk .prophoto 168 = true := by decide +kernel
theorem accprophoto_k169 : enc16AccChunk .prophoto 169 = true := by decide +kernel
theorem accprophoto_k170 : enc16AccChunk .prophoto 170 = true := by decide +kernel
theorem accprophoto_k171 : enc16AccChunk .prophoto 171 = true := by decide +kernel
theorem accprophoto_k172 : enc16AccChunk .prophoto 172 = true := by decide +kernel
theorem accprophoto_k173 : enc16AccChunk .prophoto 173 = true := by decide +kernel
theorem accprophoto_k174 : enc16AccChunk .prophoto 174 = true := by decide +kernel
theorem accprophoto_k175 : enc16AccChunk .prophoto 175 = true := by decide +kernel

theorem accprophoto_file10 : ∀ k, 160 ≤ k → k < 176 → enc16AccChunk .prophoto k = true := by
  intro k h1 h2
  have h : k = 160 ∨ k = 161 ∨ k = 162 ∨ k = 163 ∨ k = 164 ∨ k = 165 ∨ k = 166 ∨ k = 167 ∨ k = 168 ∨ k = 169 ∨ k = 170 ∨ k = 171 ∨ k = 172 ∨ k = 173 ∨ k = 174 ∨ k = 175 := by omega
  rcases h with rfl | rfl | rfl | rfl | rfl | rfl | rfl | rfl | rfl | rfl | rfl | rfl | rfl | rfl | rfl | rfl
  · exact accprophoto_k160
  · exact accprophoto_k161
  · exact accprophoto_k162
  · exact accprophoto_k163
  · exact accprophoto_k164
  · exact accprophoto_k165
  · exact accprophoto_k166
  · exact accprophoto_k167
  · exact accprophoto_k168
  · exact accprophoto_k169
  · exact accprophoto_k170
  · exact accprophoto_k171
  · exact accprophoto_k172
  · exact accprophoto_k173
  · exact accprophoto_k174
  · exact accprophoto_k175

end Prism.C02
