import Prism.Check.C02Acc

/-! Kernel-checked chunks (generated boiler-plate, see lib/gen_static.py). -/
namespace Prism.C02

theorem accprophoto_k176 : enc16AccChunk .prophoto 176 = true := by decide +kernel
theorem accprophoto_k177 : enc16AccChunk .prophoto 177 = true := by decide +kernel
theorem accprophoto_k178 : enc16AccChunk .prophoto 178 = true := by decide +kernel
theorem accprophoto_k179 : enc16AccChunk .prophoto 179 = true := by decide +kernel
theorem accprophoto_k180 : enc16AccChunk .prophoto 180 = true := by decide +kernel
theorem accprophoto_k181 : enc16AccChunk .prophoto 181 = true := by decide +kernel
theorem accprophoto_k182 : enc16AccChunk .prophoto 182 = true := by decide +kernel
theorem accprophoto_k183 : enc16AccChunk .prophoto 183 = true := by decide +kernel
theorem accprophoto_k184 : enc16AccChunk .prophoto 184 = true := by decide +kernel
theorem accprophoto_k185 : enc16AccChunk .prophoto 185 = true := by decide +kernel
theorem accprophoto_k186 : enc16AccChunk .prophoto 186 = true := by decide +kernel
theorem accprophoto_k187 : enc16AccChunk .prophoto 187 = true := by decide +kernel
theorem accprophoto_k188 : enc16AccChunk .prophoto 188 = true := by decide +kernel
theorem accprophoto_k189 : enc16AccChunk .prophoto 189 = true := by decide +kernel
theorem accprophoto_k190 : enc16AccChunk .prophoto 190 = true := by decide +kernel
theorem accprophoto_k191 : enc16AccChunk .prophoto 191 = true := by decide +kernel

theorem accprophoto_file11 : ∀ k, 176 ≤ k → k < 192 → enc16AccChunk .prophoto k = true := by
  intro k h1 h2
  have h : k = 176 ∨ k = 177 ∨ k = 178 ∨ k = 179 ∨ k = 180 ∨ k = 181 ∨ k = 182 ∨ k = 183 ∨ k = 184 ∨ k = 185 ∨ k = 186 ∨ k = 187 ∨ k = 188 ∨ k = 189 ∨ k = 190 ∨ k = 191 := by omega
  rcases h with rfl | rfl | rfl | rfl | rfl | rfl | rfl | rfl | rfl | rfl | rfl | rfl | rfl | rfl | rfl | rfl
  · exact accprophoto_k176
  · exact accprophoto_k177
  · exact accprophoto_k178
  · exact accprophoto_k179
  · exact accprophoto_k180
  · exact accprophoto_k181
  · exact accprophoto_k182
  · exact accprophoto_k183
  · exact accprophoto_k184
  · exact accprophoto_k185
  · exact accprophoto_k186
  · exact accprophoto_k187
  · exact accprophoto_k188
  · exact accprophoto_k189
  · exact accprophoto_k190
  · exact accprophoto_k191

end Prism.C02
