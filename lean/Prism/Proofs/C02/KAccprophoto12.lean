import Prism.Check.C02Acc

/-! Kernel-checked chunks (generated boiler-plate, see lib/gen_static.py). -/
namespace Prism.C02

theorem accprophoto_k192 : enc16AccChunk .prophoto 192 = true := by decide +kernel
theorem accprophoto_k193 : enc16AccChunk .prophoto 193 = true := by decide +kernel
theorem accprophoto_k194 : enc16AccChunk .prophoto 194 = true := by decide +kernel
theorem accprophoto_k195 : enc16AccChunk .prophoto 195 = true := by decide +kernel
theorem accprophoto_k196 : enc16AccChunk .prophoto 196 = true := by decide +kernel
theorem accprophoto_k197 : enc16AccChunk .prophoto 197 = true := by decide +kernel
theorem accprophoto_k198 : enc16AccChunk .prophoto 198 = true := by decide +kernel
theorem accprophoto_k199 : enc16AccChunk .prophoto 199 = true := by decide +kernel
theorem accprophoto_k200 : enc16AccChunk .prophoto 200 = true := by decide +kernel
theorem accprophoto_k201 : enc16AccChunk .prophoto 201 = true := by decide +kernel
theorem accprophoto_k202 : enc16AccChunk .prophoto 202 = true := by decide +kernel
theorem accprophoto_k203 : enc16AccChunk .prophoto 203 = true := by decide +kernel
theorem accprophoto_k204 : enc16AccChunk .prophoto 204 = true := by decide +kernel
theorem accprophoto_k205 : enc16AccChunk .prophoto 205 = true := by decide +kernel
theorem accprophoto_k206 : enc16AccChunk .prophoto 206 = true := by decide +kernel
theorem accprophoto_k207 : enc16AccChunk .prophoto 207 = true := by decide +kernel

theorem accprophoto_file12 : ∀ k, 192 ≤ k → k < 208 → enc16AccChunk .prophoto k = true := by
  intro k h1 h2
  have h : k = 192 ∨ k = 193 ∨ k = 194 ∨ k = 195 ∨ k = 196 ∨ k = 197 ∨ k = 198 ∨ k = 199 ∨ k = 200 ∨ k = 201 ∨ k = 202 ∨ k = 203 ∨ k = 204 ∨ k = 205 ∨ k = 206 ∨ k = 207 := by omega
  rcases h with rfl | rfl | rfl | rfl | rfl | rfl | rfl | rfl | rfl | rfl | rfl | rfl | rfl | rfl | rfl | rfl
  · exact accprophoto_k192
  · exact accprophoto_k193
  · exact accprophoto_k194
  · exact accprophoto_k195
  · exact accprophoto_k196
  · exact accprophoto_k197
  · exact accprophoto_k198
  · exact accprophoto_k199
  · exact accprophoto_k200
  · exact accprophoto_k201
  · exact accprophoto_k202
  · exact accprophoto_k203
  · exact accprophoto_k204
  · exact accprophoto_k205
  · exact accprophoto_k206
  · exact accprophoto_k207

end Prism.C02
