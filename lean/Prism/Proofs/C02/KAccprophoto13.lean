import Prism.Check.C02Acc

/-! Kernel-checked chunks (generated boiler-plate, see lib/gen_static.py). -/
namespace Prism.C02

theorem accprophoto_k208 : enc16AccChunk .prophoto 208 = true := by decide +kernel
theorem accprophoto_k209 : enc16AccChunk .prophoto 209 = true := by decide +kernel
theorem accprophoto_k210 : enc16AccChunk .prophoto 210 = true := by decide +kernel
theorem accprophoto_k211 : enc16AccChunk .prophoto 211 = true := by decide +kernel
theorem accprophoto_k212 : enc16AccChunk .prophoto 212 = true := by decide +kernel
theorem accprophoto_k213 : enc16AccChunk .prophoto 213 = true := by decide +kernel
theorem accprophoto_k214 : enc16AccChunk .prophoto 214 = true := by decide +kernel
theorem accprophoto_k215 : enc16AccChunk .prophoto 215 = true := by decide +kernel
theorem accprophoto_k216 : enc16AccChunk .prophoto 216 = true := by decide +kernel
theorem accprophoto_k217 : enc16AccChunk .prophoto 217 = true := by decide +kernel
theorem accprophoto_k218 : enc16AccChunk .prophoto 218 = true := by decide +kernel
theorem accprophoto_k219 : enc16AccChunk .prophoto 219 = true := by decide +kernel
theorem accprophoto_k220 : enc16AccChunk .prophoto 220 = true := by decide +kernel
theorem accprophoto_k221 : enc16AccChunk .prophoto 221 = true := by decide +kernel
theorem accprophoto_k222 : enc16AccChunk .prophoto 222 = true := by decide +kernel
theorem accprophoto_k223 : enc16AccChunk .prophoto 223 = true := by decide +kernel

theorem accprophoto_file13 : ∀ k, 208 ≤ k → k < 224 → enc16AccChunk .prophoto k = true := by
  intro k h1 h2
  have h : k = 208 ∨ k = 209 ∨ k = 210 ∨ k = 211 ∨ k = 212 ∨ k = 213 ∨ k = 214 ∨ k = 215 ∨ k = 216 ∨ k = 217 ∨ k = 218 ∨ k = 219 ∨ k = 220 ∨ k = 221 ∨ k = 222 ∨ k = 223 := by omega
  rcases h with rfl | rfl | rfl | rfl | rfl | rfl | rfl | rfl | rfl | rfl | rfl | rfl | rfl | rfl | rfl | rfl
  · exact accprophoto_k208
  · exact accprophoto_k209
  · exact accprophoto_k210
  · exact accprophoto_k211
  · exact accprophoto_k212
  · exact accprophoto_k213
  · exact accprophoto_k214
  · exact accprophoto_k215
  · exact accprophoto_k216
  · exact accprophoto_k217
  · exact accprophoto_k218
  · exact accprophoto_k219
  · exact accprophoto_k220
  · exact accprophoto_k221
  · exact accprophoto_k222
  · exact accprophoto_k223

end Prism.C02
