import Prism.Check.C02Acc

/-! Kernel-checked chunks (generated boiler-plate, see lib/gen_static.py). -/
namespace Prism.C02

theorem accprophoto_k224 : enc16AccChunk .prophoto 224 = true := by decide +kernel
theorem accprophoto_k225 : enc16AccChunk .prophoto 225 = true := by decide +kernel
theorem accprophoto_k226 : enc16AccChunk .prophoto 226 = true := by decide +kernel
theorem accprophoto_k227 : enc16AccChunk .prophoto 227 = true := by decide +kernel
theorem accprophoto_k228 : enc16AccChunk .prophoto 228 = true := by decide +kernel
theorem accprophoto_k229 : enc16AccChunk .prophoto 229 = true := by decide +kernel
theorem accprophoto_k230 : enc16AccChunk .prophoto 230 = true := by decide +kernel
theorem accprophoto_k231 : enc16AccChunk .prophoto 231 = true := by decide +kernel
theorem accprophoto_k232 : enc16AccChunk .prophoto 232 = true := by decide +kernel
theorem accprophoto_k233 : enc16AccChunk .prophoto 233 = true := by decide +kernel
theorem accprophoto_k234 : enc16AccChunk .prophoto 234 = true := by decide +kernel
theorem accprophoto_k235 : enc16AccChunk .prophoto 235 = true := by decide +kernel
theorem accprophoto_k236 : enc16AccChunk .prophoto 236 = true := by decide +kernel
theorem accprophoto_k237 : enc16AccChunk .prophoto 237 = true := by decide +kernel
theorem accprophoto_k238 : enc16AccChunk .prophoto 238 = true := by decide +kernel
theorem accprophoto_k239 : enc16AccChunk .prophoto 239 = true := by decide +kernel

theorem accprophoto_file14 : ∀ k, 224 ≤ k → k < 240 → enc16AccChunk .prophoto k = true := by
  intro k h1 h2
  have h : k = 224 ∨ k = 225 ∨ k = 226 ∨ k = 227 ∨ k = 228 ∨ k = 229 ∨ k = 230 ∨ k = 231 ∨ k = 232 ∨ k = 233 ∨ k = 234 ∨ k = 235 ∨ k = 236 ∨ k = 237 ∨ k = 238 ∨ k = 239 := by omega
  rcases h with rfl | rfl | rfl | rfl | rfl | rfl | rfl | rfl | rfl | rfl | rfl | rfl | rfl | rfl | rfl | rfl
  · exact accprophoto_k224
  · exact accprophoto_k225
  · exact accprophoto_k226
  · exact accprophoto_k227
  · exact accprophoto_k228
  · exact accprophoto_k229
  · exact accprophoto_k230
  · exact accprophoto_k231
  · exact accprophoto_k232
  · exact accprophoto_k233
  · exact accprophoto_k234
  · exact accprophoto_k235
  · exact accprophoto_k236
  · exact accprophoto_k237
  · exact accprophoto_k238
  · exact accprophoto_k239

end Prism.C02
