import Prism.Check.C02Acc

/-! Kernel-checked chunks (generated boiler-plate, see lib/gen_static.py). -/
namespace Prism.C02

theorem accprophoto_k240 : enc16AccChunk .prophoto 240 = true := by decide +kernel
theorem accprophoto_k241 : enc16AccChunk .prophoto 241 = true := by decide +kernel
theorem accprophoto_k242 : enc16AccChunk .prophoto 242 = true := by decide +kernel
theorem accprophoto_k243 : enc16AccChunk .prophoto 243 = true := by decide +kernel
theorem accprophoto_k244 : enc16AccChunk .prophoto 244 = true := by decide +kernel
theorem accprophoto_k245 : enc16AccChunk .prophoto 245 = true := by decide +kernel
theorem accprophoto_k246 : enc16AccChunk .prophoto 246 = true := by decide +kernel
theorem accprophoto_k247 : enc16AccChunk .prophoto 247 = true := by decide +kernel
theorem accprophoto_k248 : enc16AccChunk .prophoto 248 = true := by decide +kernel
theorem accprophoto_k249 : enc16AccChunk .prophoto 249 = true := by decide +kernel
theorem accprophoto_k250 : enc16AccChunk .prophoto 250 = true := by decide +kernel
theorem accprophoto_k251 : enc16AccChunk .prophoto 251 = true := by decide +kernel
theorem accprophoto_k252 : enc16AccChunk .prophoto 252 = true := by decide +kernel
theorem accprophoto_k253 : enc16AccChunk .prophoto 253 = true := by decide +kernel
theorem accprophoto_k254 : enc16AccChunk .prophoto 254 = true := by decide +kernel
theorem accprophoto_k255 : enc16AccChunk .prophoto 255 = true := by decide +kernel

theorem accprophoto_file15 : ∀ k, 240 ≤ k → k < 256 → enc16AccChunk .prophoto k = true := by
  intro k h1 h2
  have h : k = 240 ∨ k = 241 ∨ k = 242 ∨ k = 243 ∨ k = 244 ∨ k = 245 ∨ k = 246 ∨ k = 247 ∨ k = 248 ∨ k = 249 ∨ k = 250 ∨ k = 251 ∨ k = 252 ∨ k = 253 ∨ k = 254 ∨ k = 255 := by omega
  rcases h with rfl | rfl | rfl | rfl | rfl | rfl | rfl | rfl | rfl | rfl | rfl | rfl | rfl | rfl | rfl | rfl
  · exact accprophoto_k240
  · exact accprophoto_k241
  · exact accprophoto_k242
  · exact accprophoto_k243
  · exact accprophoto_k244
  · exact accprophoto_k245
  · exact accprophoto_k246
  · exact accprophoto_k247
  · exact accprophoto_k248
  · exact accprophoto_k249
  · exact accprophoto_k250
  · exact accprophoto_k251
  · exact accprophoto_k252
  · exact accprophoto_k253
  · exact accprophoto_k254
  · exact accprophoto_k255

end Prism.C02
