import Prism.Check.C02Acc

/-! Kernel-checked chunks (generated boiler-plate, see lib/gen_static.py). -/
namespace Prism.C02

theorem accprophoto_k32 : enc16AccChunk .prophoto 32 = true := by decide +kernel
theorem accprophoto_k33 : enc16AccChunk .prophoto 33 = true := by decide +kernel
theorem accprophoto_k34 : enc16AccChunk .prophoto 34 = true := by decide +kernel
theorem accprophoto_k35 : enc16AccChunk .prophoto 35 = true := by decide +kernel
theorem accprophoto_k36 : enc16AccChunk .prophoto 36 = true := by decide +kernel
theorem accprophoto_k37 : enc16AccChunk .prophoto 37 = true := by decide +kernel
theorem accprophoto_k38 : enc16AccChunk .prophoto 38 = true := by decide +kernel
theorem accprophoto_k39 : enc16AccChunk .prophoto 39 = true := by decide +kernel
theorem accprophoto_k40 : enc16AccChunk .prophoto 40 = true := by decide +kernel
theorem accprophoto_k41 : enc16AccChunk .prophoto 41 = true := by decide +kernel
theorem accprophoto_k42 : enc16AccChunk .prophoto 42 = true := by decide +kernel
theorem accprophoto_k43 : enc16AccChunk .prophoto 43 = true := by decide +kernel
theorem accprophoto_k44 : enc16AccChunk .prophoto 44 = true := by decide +kernel
theorem accprophoto_k45 : enc16AccChunk .prophoto 45 = true := by decide +kernel
theorem accprophoto_k46 : enc16AccChunk .prophoto 46 = true := by decide +kernel
theorem accprophoto_k47 : enc16AccChunk .prophoto 47 = true := by decide +kernel

theorem accprophoto_file2 : ∀ k, 32 ≤ k → k < 48 → enc16AccChunk .prophoto k = true := by
  intro k h1 h2
  have h : k = 32 ∨ k = 33 ∨ k = 34 ∨ k = 35 ∨ k = 36 ∨ k = 37 ∨ k = 38 ∨ k = 39 ∨ k = 40 ∨ k = 41 ∨ k = 42 ∨ k = 43 ∨ k = 44 ∨ k = 45 ∨ k = 46 ∨ k = 47 := by omega
  rcases h with rfl | rfl | rfl | rfl | rfl | rfl | rfl | rfl | rfl | rfl | rfl | rfl | rfl | rfl | rfl | rfl
  · exact accprophoto_k32
  · exact accprophoto_k33
  · exact accprophoto_k34
  · exact accprophoto_k35
  · exact accprophoto_k36
  · exact accprophoto_k37
  · exact accprophoto_k38
  · exact accprophoto_k39
  · exact accprophoto_k40
  · exact accprophoto_k41
  · exact accprophoto_k42
  · exact accprophoto_k43
  · exact accprophoto_k44
  · exact accprophoto_k45
  · exact accprophoto_k46
  · exact accprophoto_k47

end Prism.C02
