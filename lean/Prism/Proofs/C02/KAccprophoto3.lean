import Prism.Check.C02Acc

/-! Kernel-checked chunks (generated boiler-plate, see lib/gen_static.py). -/
namespace Prism.C02

theorem accprophoto_k48 : enc16AccChunk .prophoto 48 = true := by decide +kernel
theorem accprophoto_k49 : enc16AccChunk .prophoto 49 = true := by decide +kernel
theorem accprophoto_k50 : enc16AccChunk .prophoto 50 = true := by decide +kernel
theorem accprophoto_k51 : enc16AccChunk .prophoto 51 = true := by decide +kernel
theorem accprophoto_k52 : enc16AccChunk .prophoto 52 = true := by decide +kernel
theorem accprophoto_k53 : enc16AccChunk .prophoto 53 = true := by decide +kernel
theorem accprophoto_k54 : enc16AccChunk .prophoto 54 = true := by decide +kernel
theorem accprophoto_k55 : enc16AccChunk .prophoto 55 = true := by decide +kernel
theorem accprophoto_k56 : enc16AccChunk .prophoto 56 = true := by decide +kernel
theorem accprophoto_k57 : enc16AccChunk .prophoto 57 = true := by decide +kernel
theorem accprophoto_k58 : enc16AccChunk .prophoto 58 = true := by decide +kernel
theorem accprophoto_k59 : enc16AccChunk .prophoto 59 = true := by decide +kernel
theorem accprophoto_k60 : enc16AccChunk .prophoto 60 = true := by decide +kernel
theorem accprophoto_k61 : enc16AccChunk .prophoto 61 = true := by decide +kernel
theorem accprophoto_k62 : enc16AccChunk .prophoto 62 = true := by decide +kernel
theorem accprophoto_k63 : enc16AccChunk .prophoto 63 = true := by decide +kernel

theorem accprophoto_file3 : ∀ k, 48 ≤ k → k < 64 → enc16AccChunk .prophoto k = true := by
  intro k h1 h2
  have h : k = 48 ∨ k = 49 ∨ k = 50 ∨ k = 51 ∨ k = 52 ∨ k = 53 ∨ k = 54 ∨ k = 55 ∨ k = 56 ∨ k = 57 ∨ k = 58 ∨ k = 59 ∨ k = 60 ∨ k = 61 ∨ k = 62 ∨ k = 63 := by omega
  rcases h with rfl | rfl | rfl | rfl | rfl | rfl | rfl | rfl | rfl | rfl | rfl | rfl | rfl | rfl | rfl | rfl
  · exact accprophoto_k48
  · exact accprophoto_k49
  · exact accprophoto_k50
  · exact accprophoto_k51
  · exact accprophoto_k52
  · exact accprophoto_k53
  · exact accprophoto_k54
  · exact accprophoto_k55
  · exact accprophoto_k56
  · exact accprophoto_k57
  · exact accprophoto_k58
  · exact accprophoto_k59
  · exact accprophoto_k60
  · exact accprophoto_k61
  · exact accprophoto_k62
  · exact accprophoto_k63

end Prism.C02
