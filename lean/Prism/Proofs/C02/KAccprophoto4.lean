import Prism.Check.C02Acc

/-! Kernel-checked chunks (generated boiler-plate, see lib/gen_static.py). -/
namespace Prism.C02

theorem accprophoto_k64 : enc16AccChunk .prophoto 64 = true := by decide +kernel
theorem accprophoto_k65 : enc16AccChunk .prophoto 65 = true := by decide +kernel
theorem accprophoto_k66 : enc16AccChunk .prophoto 66 = true := by decide +kernel
theorem accprophoto_k67 : enc16AccChunk .prophoto 67 = true := by decide +kernel
theorem accprophoto_k68 : enc16AccChunk .prophoto 68 = true := by decide +kernel
theorem accprophoto_k69 : enc16AccChunk .prophoto 69 = true := by decide +kernel
theorem accprophoto_k70 : enc16AccChunk .prophoto 70 = true := by decide +kernel
theorem accprophoto_k71 : enc16AccChunk .prophoto 71 = true := by decide +kernel
theorem accprophoto_k72 : enc16AccChunk .prophoto 72 = true := by decide +kernel
theorem accprophoto_k73 : enc16AccChunk .prophoto 73 = true := by decide +kernel
theorem accprophoto_k74 : enc16AccChunk .prophoto 74 = true := by decide +kernel
theorem accprophoto_k75 : enc16AccChunk .prophoto 75 = true := by decide +kernel
theorem accprophoto_k76 : enc16AccChunk .prophoto 76 = true := by decide +kernel
theorem accprophoto_k77 : enc16AccChunk .prophoto 77 = true := by decide +kernel
theorem accprophoto_k78 : enc16AccChunk .prophoto 78 = true := by decide +kernel
theorem accprophoto_k79 : enc16AccChunk .prophoto 79 = true := by decide +kernel

theorem accprophoto_file4 : ∀ k, 64 ≤ k → k < 80 → enc16AccChunk .prophoto k = true := by
  intro k h1 h2
  have h : k = 64 ∨ k = 65 ∨ k = 66 ∨ k = 67 ∨ k = 68 ∨ k = 69 ∨ k = 70 ∨ k = 71 ∨ k = 72 ∨ k = 73 ∨ k = 74 ∨ k = 75 ∨ k = 76 ∨ k = 77 ∨ k = 78 ∨ k = 79 := by omega
  rcases h with rfl | rfl | rfl | rfl | rfl | rfl | rfl | rfl | rfl | rfl | rfl | rfl | rfl | rfl | rfl | rfl
  · exact accprophoto_k64
  · exact accprophoto_k65
  · exact accprophoto_k66
  · exact accprophoto_k67
  · exact accprophoto_k68
  · exact accprophoto_k69
  · exact accprophoto_k70
  · exact accprophoto_k71
  · exact accprophoto_k72
  · exact accprophoto_k73
  · exact accprophoto_k74
  · exact accprophoto_k75
  · exact accprophoto_k76
  · exact accprophoto_k77
  · exact accprophoto_k78
  · exact accprophoto_k79

end Prism.C02
