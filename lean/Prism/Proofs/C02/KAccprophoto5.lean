import Prism.Check.C02Acc

/-! Kernel-checked chunks (generated boiler-plate, see lib/gen_static.py). -/
namespace Prism.C02

theorem accprophoto_k80 : enc16AccChunk .prophoto 80 = true := by decide +kernel
theorem accprophoto_k81 : enc16AccChunk .prophoto 81 = true := by decide +kernel
theorem accprophoto_k82 : enc16AccChunk .prophoto 82 = true := by decide +kernel
theorem accprophoto_k83 : enc16AccChunk .prophoto 83 = true := by decide +kernel
theorem accprophoto_k84 : enc16AccChunk .prophoto 84 = true := by decide +kernel
theorem accprophoto_k85 : enc16AccChunk .prophoto 85 = true := by decide +kernel
theorem accprophoto_k86 : enc16AccChunk .prophoto 86 = true := by decide +kernel
theorem accprophoto_k87 : enc16AccChunk .prophoto 87 = true := by decide +kernel
theorem accprophoto_k88 : enc16AccChunk .prophoto 88 = true := by decide +kernel
theorem accprophoto_k89 : enc16AccChunk .prophoto 89 = true := by decide +kernel
theorem accprophoto_k90 : enc16AccChunk .prophoto 90 = true := by decide +kernel
theorem accprophoto_k91 : enc16AccChunk .prophoto 91 = true := by decide +kernel
theorem accprophoto_k92 : enc16AccChunk .prophoto 92 = true := by decide +kernel
theorem accprophoto_k93 : enc16AccChunk .prophoto 93 = true := by decide +kernel
theorem accprophoto_k94 : enc16AccChunk .prophoto 94 = true := by decide +kernel
theorem accprophoto_k95 : enc16AccChunk .prophoto 95 = true := by decide +kernel

theorem accprophoto_file5 : ∀ k, 80 ≤ k → k < 96 → enc16AccChunk .prophoto k = true := by
  intro k h1 h2
  have h : k = 80 ∨ k = 81 ∨ k = 82 ∨ k = 83 ∨ k = 84 ∨ k = 85 ∨ k = 86 ∨ k = 87 ∨ k = 88 ∨ k = 89 ∨ k = 90 ∨ k = 91 ∨ k = 92 ∨ k = 93 ∨ k = 94 ∨ k = 95 := by omega
  rcases h with rfl | rfl | rfl | rfl | rfl | rfl | rfl | rfl | rfl | rfl | rfl | rfl | rfl | rfl | rfl | rfl
  · exact accprophoto_k80
  · exact accprophoto_k81
  · exact accprophoto_k82
  · exact accprophoto_k83
  · exact accprophoto_k84
  · exact accprophoto_k85
  · exact accprophoto_k86
  · exact accprophoto_k87
  · exact accprophoto_k88
  · exact accprophoto_k89
  · exact accprophoto_k90
  · exact accprophoto_k91
  · exact accprophoto_k92
  · exact accprophoto_k93
  · exact accprophoto_k94
  · exact accprophoto_k95

end Prism.C02
