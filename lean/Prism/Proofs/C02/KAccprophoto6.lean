import Prism.Check.C02Acc

/-! Kernel-checked chunks (generated boiler-plate, see lib/gen_static.py). -/
namespace Prism.C02

theorem accprophoto_k96 : enc16AccChunk .prophoto 96 = true := by decide +kernel
theorem accprophoto_k97 : enc16AccChunk .prophoto 97 = true := by decide +kernel
theorem accprophoto_k98 : enc16AccChunk .prophoto 98 = true := by decide +kernel
theorem accprophoto_k99 : enc16AccChunk .prophoto 99 = true := by decide +kernel
theorem accprophoto_k100 : enc16AccChunk .prophoto 100 = true := by decide +kernel
theorem accprophoto_k101 : enc16AccChunk .prophoto 101 = true := by decide +kernel
theorem accprophoto_k102 : enc16AccChunk .prophoto 102 = true := by decide +kernel
theorem accprophoto_k103 : enc16AccChunk .prophoto 103 = true := by decide +kernel
theorem accprophoto_k104 : enc16AccChunk .prophoto 104 = true := by decide +kernel
theorem accprophoto_k105 : enc16AccChunk .prophoto 105 = true := by decide +kernel
theorem accprophoto_k106 : enc16AccChunk .prophoto 106 = true := by decide +kernel
theorem accprophoto_k107 : enc16AccChunk .prophoto 107 = true := by decide +kernel
theorem accprophoto_k108 : enc16AccChunk .prophoto 108 = true := by decide +kernel
theorem accprophoto_k109 : enc16AccChunk .prophoto 109 = true := by decide +kernel
theorem accprophoto_k110 : enc16AccChunk .prophoto 110 = true := by decide +kernel
theorem accprophoto_k111 : enc16AccChunk .prophoto 111 = true := by decide +kernel

theorem accprophoto_file6 : ∀ k, 96 ≤ k → k < 112 → enc16AccChunk .prophoto k = true := by
  intro k h1 h2
  have h : k = 96 ∨ k = 97 ∨ k = 98 ∨ k = 99 ∨ k = 100 ∨ k = 101 ∨ k = 102 ∨ k = 103 ∨ k = 104 ∨ k = 105 ∨ k = 106 ∨ k = 107 ∨ k = 108 ∨ k = 109 ∨ k = 110 ∨ k = 111 := by omega
  rcases h with rfl | rfl | rfl | rfl | rfl | rfl | rfl | rfl | rfl | rfl | rfl | rfl | rfl | rfl | rfl | rfl
  · exact accprophoto_k96
  · exact accprophoto_k97
  · exact accprophoto_k98
  · exact accprophoto_k99
  · exact accprophoto_k100
  · exact accprophoto_k101
  · exact accprophoto_k102
  · exact accprophoto_k103
  · exact accprophoto_k104
  · exact accprophoto_k105
  · exact accprophoto_k106
  · exact accprophoto_k107
  · exact accprophoto_k108
  · exact accprophoto_k109
  · exact accprophoto_k110
  · exact accprophoto_k111

end Prism.C02
