import Prism.Check.C02Acc

/-! Kernel-checked chunks (generated boiler-plate, see lib/gen_static.py). -/
namespace Prism.C02

theorem accprophoto_k112 : enc16AccChunk .prophoto 112 = true := by decide +kernel
theorem accprophoto_k113 : enc16AccChunk .prophoto 113 = true := by decide +kernel
theorem accprophoto_k114 : enc16AccChunk .prophoto 114 = true := by decide +kernel
theorem accprophoto_k115 : enc16AccChunk .prophoto 115 = true := by decide +kernel
theorem accprophoto_k116 : enc16AccChunk .prophoto 116 = true := by decide +kernel
theorem accprophoto_k117 : enc16AccChunk .prophoto 117 = true := by decide +kernel
theorem accprophoto_k118 : enc16AccChunk .prophoto 118 = true := by decide +kernel
theorem accprophoto_k119 : enc16AccChunk .prophoto 119 = true := by decide +kernel
theorem accprophoto_k120 : enc16AccChunk .prophoto 120 = true := by decide +kernel
theorem accprophoto_k121 : enc16AccChunk .prophoto 121 = true := by decide +kernel
theorem accprophoto_k122 : enc16AccChunk .prophoto 122 = true := by decide +kernel
theorem accprophoto_k123 : enc16AccChunk .prophoto 123 = true := by decide +kernel
theorem accprophoto_k124 : enc16AccChunk .prophoto 124 = true := by decide +kernel
theorem accprophoto_k125 : enc16AccChunk .prophoto 125 = true := by decide +kernel
theorem accprophoto_k126 : enc16AccChunk .prophoto 126 = true := by decide +kernel
theorem accprophoto_k127 : enc16AccChunk .prophoto 127 = true := by decide +kernel

theorem accprophoto_file7 : ∀ k, 112 ≤ k → k < 128 → enc16AccChunk .prophoto k = true := by
  intro k h1 h2
  have h : k = 112 ∨ k = 113 ∨ k = 114 ∨ k = 115 ∨ k = 116 ∨ k = 117 ∨ k = 118 ∨ k = 119 ∨ k = 120 ∨ k = 121 ∨ k = 122 ∨ k = 123 ∨ k = 124 ∨ k = 125 ∨ k = 126 ∨ k = 127 := by omega
  rcases h with rfl | rfl | rfl | rfl | rfl | rfl | rfl | rfl | rfl | rfl | rfl | rfl | rfl | rfl | rfl | rfl
  · exact accprophoto_k112
  · exact accprophoto_k113
  · exact accprophoto_k114
  · exact accprophoto_k115
  · exact accprophoto_k116
  · exact accprophoto_k117
  · exact accprophoto_k118
  · exact accprophoto_k119
  · exact accprophoto_k120
  · exact accprophoto_k121
  · exact accprophoto_k122
  · exact accprophoto_k123
  · exact accprophoto_k124
  · exact accprophoto_k125
  · exact accprophoto_k126
  · exact accprophoto_k127

end Prism.C02
