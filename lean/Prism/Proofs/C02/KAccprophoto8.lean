import Prism.Check.C02Acc

/-! Kernel-checked chunks (generated boiler-plate, see lib/gen_static.py). -/
namespace Prism.C02

theorem accprophoto_k128 : enc16AccChunk .prophoto 128 = true := by decide +kernel
theorem accprophoto_k129 : enc16AccChunk .prophoto 129 = true := by decide +kernel
theorem accprophoto_k130 : enc16AccChunk .prophoto 130 = true := by decide +kernel
theorem accprophoto_k131 : enc16AccChunk .prophoto 131 = true := by decide +kernel
theorem accprophoto_k132 : enc16AccChunk .prophoto 132 = true := by decide +kernel
theorem accprophoto_k133 : enc16AccChunk .prophoto 133 = true := by decide +kernel
theorem accprophoto_k134 : enc16AccChunk .prophoto 134 = true := by decide +kernel
theorem accprophoto_k135 : enc16AccChunk .prophoto 135 = true := by decide +kernel
theorem accprophoto_k136 : enc16AccChunk .prophoto 136 = true := by decide +kernel
theorem accprophoto_k137 : enc16AccChunk .prophoto 137 = true := by decide +kernel
theorem accprophoto_k138 : enc16AccChunk .prophoto 138 = true := by decide +kernel
theorem accprophoto_k139 : enc16AccChunk .prophoto 139 = true := by decide +kernel
theorem accprophoto_k140 : enc16AccChunk .prophoto 140 = true := by decide +kernel
theorem accprophoto_k141 : enc16AccChunk .prophoto 141 = true := by decide +kernel
theorem accprophoto_k142 : enc16AccChunk .prophoto 142 = true := by decide +kernel
theorem accprophoto_k143 : enc16AccChunk .prophoto 143 = true := by decide +kernel

theorem accprophoto_file8 : ∀ k, 128 ≤ k → k < 144 → enc16AccChunk .prophoto k = true := by
  intro k h1 h2
  have h : k = 128 ∨ k = 129 ∨ k = 130 ∨ k = 131 ∨ k = 132 ∨ k = 133 ∨ k = 134 ∨ k = 135 ∨ k = 136 ∨ k = 137 ∨ k = 138 ∨ k = 139 ∨ k = 140 ∨ k = 141 ∨ k = 142 ∨ k = 143 := by omega
  rcases h with rfl | rfl | rfl | rfl | rfl | rfl | rfl | rfl | rfl | rfl | rfl | rfl | rfl | rfl | rfl | rfl
  · exact accprophoto_k128
  · exact accprophoto_k129
  · exact accprophoto_k130
  · exact accprophoto_k131
  · exact accprophoto_k132
  · exact accprophoto_k133
  · exact accprophoto_k134
  · exact accprophoto_k135
  · exact accprophoto_k136
  · exact accprophoto_k137
  · exact accprophoto_k138
  · exact accprophoto_k139
  · exact accprophoto_k140
  · exact accprophoto_k141
  · exact accprophoto_k142
  · exact accprophoto_k143

end Prism.C02
