import Prism.Check.C02Acc

/-! Kernel-checked chunks (generated boiler-plate, see lib/gen_static.py). -/
namespace Prism.C02

theorem accprophoto_k144 : enc16AccChunk .prophoto 144 = true := by decide +kernel
theorem accprophoto_k145 : enc16AccChunk .prophoto 145 = true := by decide +kernel
theorem accprophoto_k146 : enc16AccChunk .prophoto 146 = true := by decide +kernel
theorem accprophoto_k147 : enc16AccChunk .prophoto 147 = true := by decide +kernel
theorem accprophoto_k148 : enc16AccChunk .prophoto 148 = true := by decide +kernel
theorem accprophoto_k149 : enc16AccChunk .prophoto 149 = true := by decide +kernel
theorem accprophoto_k150 : enc16AccChunk .prophoto 150 = true := by decide +kernel
theorem accprophoto_k151 : enc16AccChunk .prophoto 151 = true := by decide +kernel
theorem accprophoto_k152 : enc16AccChunk .prophoto 152 = true := by decide +kernel
theorem accprophoto_k153 : enc16AccChunk .prophoto 153 = true := by decide +kernel
theorem accprophoto_k154 : enc16AccChunk .prophoto 154 = true := by decide +kernel
theorem accprophoto_k155 : enc16AccChunk .prophoto 155 = true := by decide +kernel
theorem accprophoto_k156 : enc16AccChunk .prophoto 156 = true := by decide +kernel
theorem accprophoto_k157 : enc16AccChunk .prophoto 157 = true := by decide +kernel
theorem accprophoto_k158 : enc16AccChunk .prophoto 158 = true := by decide +kernel
theorem accprophoto_k159 : enc16AccChunk .prophoto 159 = true := by decide +kernel

theorem accprophoto_file9 : ∀ k, 144 ≤ k → k < 160 → enc16AccChunk .prophoto k = true := by
  intro k h1 h2
  have h : k = 144 ∨ k = 145 ∨ k = 146 ∨ k = 147 ∨ k = 148 ∨ k = 149 ∨ k = 150 ∨ k = 151 ∨ k = 152 ∨ k = 153 ∨ k = 154 ∨ k = 155 ∨ k = 156 ∨ k = 157 ∨ k = 158 ∨ k = 159 := by omega
  rcases h with rfl | rfl | rfl | rfl | rfl | rfl | rfl | rfl | rfl | rfl | rfl | rfl | rfl | rfl | rfl | rfl
  · exact accprophoto_k144
  · exact accprophoto_k145
  · exact accprophoto_k146
  · exact accprophoto_k147
  · exact accprophoto_k148
  · exact accprophoto_k149
  · exact accprophoto_k150
  · exact accprophoto_k151
  · exact accprophoto_k152
  · exact accprophoto_k153
  · exact accprophoto_k154
  · exact accprophoto_k155
  · exact accprophoto_k156
  · exact accprophoto_k157
  · exact accprophoto_k158
  · exact accprophoto_k159

end Prism.C02
