import Prism.Check.C02Acc

/-! Kernel-checked chunks (generated boiler-plate, see lib/gen_static.py). -/
namespace Prism.C02

theorem accsrgb_k0 : enc16AccChunk .srgb 0 = true := by decide +kernel
theorem accsrgb_k1 : enc16AccChunk .srgb 1 = true := by decide +kernel
theorem accsrgb_k2 : enc16AccChunk .srgb 2 = true := by decide +kernel
theorem accsrgb_k3 : enc16AccChunk .srgb 3 = true := by decide +kernel
theorem accsrgb_k4 : enc16AccChunk .srgb 4 = true := by decide +kernel
theorem accsrgb_k5 : enc16AccChunk .srgb 5 = true := by decide +kernel
theorem accsrgb_k6 : enc16AccChunk .srgb 6 = true := by decide +kernel
theorem accsrgb_k7 : enc16AccChunk .srgb 7 = true := by decide +kernel
theorem accsrgb_k8 : enc16AccChunk .srgb 8 = true := by decide +kernel
theorem accsrgb_k9 : enc16AccChunk .srgb 9 = true := by decide +kernel
theorem accsrgb_k10 : enc16AccChunk .srgb 10 = true := by decide +kernel
theorem accsrgb_k11 : enc16AccChunk .srgb 11 = true := by decide +kernel
theorem accsrgb_k12 : enc16AccChunk .srgb 12 = true := by decide +kernel
theorem accsrgb_k13 : enc16AccChunk .srgb 13 = true := by decide +kernel
theorem accsrgb_k14 : enc16AccChunk .srgb 14 = true := by decide +kernel
theorem accsrgb_k15 : enc16AccChunk .srgb 15 = true := by decide +kernel

theorem accsrgb_file0 : ∀ k, 0 ≤ k → k < 16 → enc16AccChunk .srgb k = true := by
  intro k h1 h2
  have h : k = 0 ∨ k = 1 ∨ k = 2 ∨ k = 3 ∨ k = 4 ∨ k = 5 ∨ k = 6 ∨ k = 7 ∨ k = 8 ∨ k = 9 ∨ k = 10 ∨ k = 11 ∨ k = 12 ∨ k = 13 ∨ k = 14 ∨ k = 15 := by omega
  rcases h with rfl | rfl | rfl | rfl | rfl | rfl | rfl | rfl | rfl | rfl | rfl | rfl | rfl | rfl | rfl | rfl
  · exact accsrgb_k0
  · exact accsrgb_k1
  · exact accsrgb_k2
  · exact accsrgb_k3
  · exact accsrgb_k4
  · exact accsrgb_k5
  · exact accsrgb_k6
  · exact accsrgb_k7
  · exact accsrgb_k8
  · exact accsrgb_k9
  · exact accsrgb_k10
  · exact accsrgb_k11
  · exact accsrgb_k12
  · exact accsrgb_k13
  · exact accsrgb_k14
  · exact accsrgb_k15

end Prism.C02
