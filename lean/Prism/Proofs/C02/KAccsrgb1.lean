import Prism.Check.C02Acc

/-! Kernel-checked chunks (generated boiler-plate, see lib/gen_static.py). -/
namespace Prism.C02

theorem accsrgb_k16 : enc16AccChunk .srgb 16 = true := by decide +kernel
theorem accsrgb_k17 : enc16AccChunk .srgb 17 = true := by decide +kernel
theorem accsrgb_k18 : enc16AccChunk .srgb 18 = true := by decide +kernel
theorem accsrgb_k19 : enc16AccChunk .srgb 19 = true := by decide +kernel
theorem accsrgb_k20 : enc16AccChunk .srgb 20 = true := by decide +kernel
theorem accsrgb_k21 : enc16AccChunk .srgb 21 = true := by decide +kernel
theorem accsrgb_k22 : enc16AccChunk .srgb 22 = true := by decide +kernel
theorem accsrgb_k23 : enc16AccChunk .srgb 23 = true := by decide +kernel
theorem accsrgb_k24 : enc16AccChunk .srgb 24 = true := by decide +kernel
theorem accsrgb_k25 : enc16AccChunk .srgb 25 = true := by decide +kernel
theorem accsrgb_k26 : enc16AccChunk .srgb 26 = true := by decide +kernel
theorem accsrgb_k27 : enc16AccChunk .srgb 27 = true := by decide +kernel
theorem accsrgb_k28 : enc16AccChunk .srgb 28 = true := by decide +kernel
theorem accsrgb_k29 : enc16AccChunk .srgb 29 = true := by decide +kernel
theorem accsrgb_k30 : enc16AccChunk .srgb 30 = true := by decide +kernel
theorem accsrgb_k31 : enc16AccChunk .srgb 31 = true := by decide +kernel

theorem accsrgb_file1 : ∀ k, 16 ≤ k → k < 32 → enc16AccChunk .srgb k = true := by
  intro k h1 h2
  have h : k = 16 ∨ k = 17 ∨ k = 18 ∨ k = 19 ∨ k = 20 ∨ k = 21 ∨ k = 22 ∨ k = 23 ∨ k = 24 ∨ k = 25 ∨ k = 26 ∨ k = 27 ∨ k = 28 ∨ k = 29 ∨ k = 30 ∨ k = 31 := by omega
  rcases h with rfl | rfl | rfl | rfl | rfl | rfl | rfl | rfl | rfl | rfl | rfl | rfl | rfl | rfl | rfl | rfl
  · exact accsrgb_k16
  · exact accsrgb_k17
  · exact accsrgb_k18
  · exact accsrgb_k19
  · exact accsrgb_k20
  · exact accsrgb_k21
  · exact accsrgb_k22
  · exact accsrgb_k23
  · exact accsrgb_k24
  · exact accsrgb_k25
  · exact accsrgb_k26
  · exact accsrgb_k27
  · exact accsrgb_k28
  · exact accsrgb_k29
  · exact accsrgb_k30
  · exact accsrgb_k31

end Prism.C02
