import Prism.Check.C02Acc

/-! Kernel-checked chunks (generated boiler-plate, see lib/gen_static.py). -/
namespace Prism.C02

theorem accsrgb_k160 : enc16AccChunk .srgb 160 = true := by decide +kernel
theorem accsrgb_k161 : enc16AccChunk .srgb 161 = true := by decide +kernel
theorem accsrgb_k162 : enc16AccChunk .srgb 162 = true := by decide +kernel
theorem accsrgb_k163 : enc16AccChunk .srgb 163 = true := by decide +kernel
theorem accsrgb_k164 : enc16AccChunk .srgb 164 = true := by decide +kernel
theorem accsrgb_k165 : enc16AccChunk .srgb 165 = true := by decide +kernel
theorem accsrgb_k166 : enc16AccChunk .srgb 166 = true := by decide +kernel
theorem accsrgb_k167 : enc16AccChunk .srgb 167 = true := by decide +kernel
theorem accsrgb_k168 : enc16AccChunk .srgb 168 = true := by decide +kernel
theorem accsrgb_k169 : enc16AccChunk .srgb 169 = true := by decide +kernel
theorem accsrgb_k170 : enc16AccChunk .srgb 170 = true := by decide +kernel
theorem accsrgb_k171 : enc16AccChunk .srgb 171 = true := by decide +kernel
theorem accsrgb_k172 : enc16AccChunk .srgb 172 = true := by decide +kernel
theorem accsrgb_k173 : enc16AccChunk .srgb 173 = true := by decide +kernel
theorem accsrgb_k174 : enc16AccChunk .srgb 174 = true := by decide +kernel
theorem accsrgb_k175 : enc16AccChunk .srgb 175 = true := by decide +kernel

theorem accsrgb_file10 : ∀ k, 160 ≤ k → k < 176 → enc16AccChunk .srgb k = true := by
  intro k h1 h2
  have h : k = 160 ∨ k = 161 ∨ k = 162 ∨ k = 163 ∨ k = 164 ∨ k = 165 ∨ k = 166 ∨ k = 167 ∨ k = 168 ∨ k = 169 ∨ k = 170 ∨ k = 171 ∨ k = 172 ∨ k = 173 ∨ k = 174 ∨ k = 175 := by omega
  rcases h with rfl | rfl | rfl | rfl | rfl | rfl | rfl | rfl | rfl | rfl | rfl | rfl | rfl | rfl | rfl | rfl
  · exact accsrgb_k160
  · exact accsrgb_k161
  · exact accsrgb_k162
  · exact accsrgb_k163
  · exact accsrgb_k164
  · exact accsrgb_k165
  · exact accsrgb_k166
  · exact accsrgb_k167
  · exact accsrgb_k168
  · exact accsrgb_k169
  · exact accsrgb_k170
  · exact accsrgb_k171
  · exact accsrgb_k172
  · exact accsrgb_k173
  · exact accsrgb_k174
  · exact accsrgb_k175

end Prism.C02
