import Prism.Check.C02Acc

/-! Kernel-checked chunks (generated boiler-plate, see lib/gen_static.py). -/
namespace Prism.C02

theorem accsrgb_k176 : enc16AccChunk .srgb 176 = true := by decide +kernel
theorem accsrgb_k177 : enc16AccChunk .srgb 177 = true := by decide +kernel
theorem accsrgb_k178 : enc16AccChunk .srgb 178 = true := by decide +kernel
theorem accsrgb_k179 : enc16AccChunk .srgb 179 = true := by decide +kernel
theorem accsrgb_k180 : enc16AccChunk .srgb 180 = true := by decide +kernel
theorem accsrgb_k181 : enc16AccChunk .srgb 181 = true := by decide +kernel
theorem accsrgb_k182 : enc16AccChunk .srgb 182 = true := by decide +kernel
theorem accsrgb_k183 : enc16AccChunk .srgb 183 = true := by decide +kernel
theorem accsrgb_k184 : enc16AccChunk .srgb 184 = true := by decide +kernel
theorem accsrgb_k185 : enc16AccChunk .srgb 185 = true := by decide +kernel
theorem accsrgb_k186 : enc16AccChunk .srgb 186 = true := by decide +kernel
theorem accsrgb_k187 : enc16AccChunk .srgb 187 = true := by decide +kernel
theorem accsrgb_k188 : enc16AccChunk .srgb 188 = true := by decide +kernel
theorem accsrgb_k189 : enc16AccChunk .srgb 189 = true := by decide +kernel
theorem accsrgb_k190 : enc16AccChunk .srgb 190 = true := by decide +kernel
theorem accsrgb_k191 : enc16AccChunk .srgb 191 = true := by decide +kernel

theorem accsrgb_file11 : ∀ k, 176 ≤ k → k < 192 → enc16AccChunk .srgb k = true := by
  intro k h1 h2
  have h : k = 176 ∨ k = 177 ∨ k = 178 ∨ k = 179 ∨ k = 180 ∨ k = 181 ∨ k = 182 ∨ k = 183 ∨ k = 184 ∨ k = 185 ∨ k = 186 ∨ k = 187 ∨ k = 188 ∨ k = 189 ∨ k = 190 ∨ k = 191 := by omega
  rcases h with rfl | rfl | rfl | rfl | rfl | rfl | rfl | rfl | rfl | rfl | rfl | rfl | rfl | rfl | rfl | rfl
  · exact accsrgb_k176
  · exact accsrgb_k177
  · exact accsrgb_k178
  · exact accsrgb_k179
  · exact accsrgb_k180
  · exact accsrgb_k181
  · exact accsrgb_k182
  · exact accsrgb_k183
  · exact accsrgb_k184
  · exact accsrgb_k185
  · exact accsrgb_k186
  · exact accsrgb_k187
  · exact accsrgb_k188
  · exact accsrgb_k189
  · exact accsrgb_k190
  · exact accsrgb_k191

end Prism.C02
