import Prism.Check.C02Acc

/-! Kernel-checked chunks (generated boiler-plate, see lib/gen_static.py). -/
namespace Prism.C02

theorem accsrgb_k192 : enc16AccChunk .srgb 192 = true := by decide +kernel
theorem accsrgb_k193 : enc16AccChunk .srgb 193 = true := by decide +kernel
theorem accsrgb_k194 : enc16AccChunk .srgb 194 = true := by decide +kernel
theorem accsrgb_k195 : enc16AccChunk .srgb 195 = true := by decide +kernel
theorem accsrgb_k196 : enc16AccChunk .srgb 196 = true := by decide +kernel
theorem accsrgb_k197 : enc16AccChunk .srgb 197 = true := by decide +kernel
theorem accsrgb_k198 : enc16AccChunk .srgb 198 = true := by decide +kernel
theorem accsrgb_k199 : enc16AccChunk .srgb 199 = true := by decide +kernel
theorem accsrgb_k200 : enc16AccChunk .srgb 200 = true := by decide +kernel
theorem accsrgb_k201 : enc16AccChunk .srgb 201 = true := by decide +kernel
theorem accsrgb_k202 : enc16AccChunk .srgb 202 = true := by decide +kernel
theorem accsrgb_k203 : enc16AccChunk .srgb 203 = true := by decide +kernel
theorem accsrgb_k204 : enc16AccChunk .srgb 204 = true := by decide +kernel
theorem accsrgb_k205 : enc16AccChunk .srgb 205 = true := by decide +kernel
theorem accsrgb_k206 : enc16AccChunk .srgb 206 = true := by decide +kernel
theorem accsrgb_k207 : enc16AccChunk .srgb 207 = true := by decide +kernel

theorem accsrgb_file12 : ∀ k, 192 ≤ k → k < 208 → enc16AccChunk .srgb k = true := by
  intro k h1 h2
  have h : k = 192 ∨ k = 193 ∨ k = 194 ∨ k = 195 ∨ k = 196 ∨ k = 197 ∨ k = 198 ∨ k = 199 ∨ k = 200 ∨ k = 201 ∨ k = 202 ∨ k = 203 ∨ k = 204 ∨ k = 205 ∨ k = 206 ∨ k = 207 := by omega
  rcases h with rfl | rfl | rfl | rfl | rfl | rfl | rfl | rfl | rfl | rfl | rfl | rfl | rfl | rfl | rfl | rfl
  · exact accsrgb_k192
  · exact accsrgb_k193
  · exact accsrgb_k194
  · exact accsrgb_k195
  · exact accsrgb_k196
  · exact accsrgb_k197
  · exact accsrgb_k198
  · exact accsrgb_k199
  · exact accsrgb_k200
  · exact accsrgb_k201
  · exact accsrgb_k202
  · exact accsrgb_k203
  · exact accsrgb_k204
  · exact accsrgb_k205
  · exact accsrgb_k206
  · exact accsrgb_k207

end Prism.C02
