import Prism.Check.C02Acc

/-! Kernel-checked chunks (generated boiler-plate, see lib/gen_static.py). -/
namespace Prism.C02

theorem accsrgb_k208 : enc16AccChunk .srgb 208 = true := by decide +kernel
theorem accsrgb_k209 : enc16AccChunk .srgb 209 = true := by decide +kernel
theorem accsrgb_k210 : enc16AccChunk .srgb 210 = true := by decide +kernel
theorem accsrgb_k211 : enc16AccChunk .srgb 211 = true := by decide +kernel
theorem accsrgb_k212 : enc16AccChunk .srgb 212 = true := by decide +kernel
theorem accsrgb_k213 : enc16AccChunk .srgb 213 = true := by decide +kernel
theorem accsrgb_k214 : enc16AccChunk .srgb 214 = true := by decide +kernel
theorem accsrgb_k215 : enc16AccChunk .srgb 215 = true := by decide +kernel
theorem accsrgb_k216 : enc16AccChunk .srgb 216 = true := by decide +kernel
theorem accsrgb_k217 : enc16AccChunk .srgb 217 = true := by decide +kernel
theorem accsrgb_k218 : enc16AccChunk .srgb 218 = true := by decide +kernel
theorem accsrgb_k219 : enc16AccChunk .srgb 219 = true := by decide +kernel
theorem accsrgb_k220 : enc16AccChunk .srgb 220 = true := by decide +kernel
theorem accsrgb_k221 : enc16AccChunk .srgb 221 = true := by decide +kernel
theorem accsrgb_k222 : enc16AccChunk .srgb 222 = true := by decide +kernel
theorem accsrgb_k223 : enc16AccChunk .srgb 223 = true := by decide +kernel

theorem accsrgb_file13 : ∀ k, 208 ≤ k → k < 224 → enc16AccChunk .srgb k = true := by
  intro k h1 h2
  have h : k = 208 ∨ k = 209 ∨ k = 210 ∨ k = 211 ∨ k = 212 ∨ k = 213 ∨ k = 214 ∨ k = 215 ∨ k = 216 ∨ k = 217 ∨ k = 218 ∨ k = 219 ∨ k = 220 ∨ k = 221 ∨ k = 222 ∨ k = 223 := by omega
  rcases h with rfl | rfl | rfl | rfl | rfl | rfl | rfl | rfl | rfl | rfl | rfl | rfl | rfl | rfl | rfl | rfl
  · exact accsrgb_k208
  · exact accsrgb_k209
  · exact accsrgb_k210
  · exact accsrgb_k211
  · exact accsrgb_k212
  · exact accsrgb_k213
  · exact accsrgb_k214
  · exact accsrgb_k215
  · exact accsrgb_k216
  · exact accsrgb_k217
  · exact accsrgb_k218
  · exact accsrgb_k219
  · exact accsrgb_k220
  · exact accsrgb_k221
  · exact accsrgb_k222
  · exact accsrgb_k223

end Prism.C02
