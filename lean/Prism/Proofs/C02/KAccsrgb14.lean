import Prism.Check.C02Acc

/-! Kernel-checked chunks (generated boiler-plate, see lib/gen_static.py). -/
namespace Prism.C02

theorem accsrgb_k224 : enc16AccChunk .srgb 224 = true := by decide +kernel
theorem accsrgb_k225 : enc16AccChunk .srgb 225 = true := by decide +kernel
theorem accsrgb_k226 : enc16AccChunk .srgb 226 = true := by decide +kernel
theorem accsrgb_k227 : enc16AccChunk .srgb 227 = true := by decide +kernel
theorem accsrgb_k228 : enc16AccChunk .srgb 228 = true := by decide +kernel
theorem accsrgb_k229 : enc16AccChunk .srgb 229 = true := by decide +kernel
theorem accsrgb_k230 : enc16AccChunk .srgb 230 = true := by decide +kernel
theorem accsrgb_k231 : enc16AccChunk .srgb 231 = true := by decide +kernel
theorem accsrgb_k232 : enc16AccChunk .srgb 232 = true := by decide +kernel
theorem accsrgb_k233 : enc16AccChunk .srgb 233 = true := by decide +kernel
theorem accsrgb_k234 : enc16AccChunk .srgb 234 = true := by decide +kernel
theorem accsrgb_k235 : enc16AccChunk .srgb 235 = true := by decide +kernel
theorem accsrgb_k236 : enc16AccChunk .srgb 236 = true := by decide +kernel
theorem accsrgb_k237 : enc16AccChunk .srgb 237 = true := by decide +kernel
theorem accsrgb_k238 : enc16AccChunk .srgb 238 = true := by decide +kernel
theorem accsrgb_k239 : enc16AccChunk .srgb 239 = true := by decide +kernel

theorem accsrgb_file14 : ∀ k, 224 ≤ k → k < 240 → enc16AccChunk .srgb k = true := by
  intro k h1 h2
  have h : k = 224 ∨ k = 225 ∨ k = 226 ∨ k = 227 ∨ k = 228 ∨ k = 229 ∨ k = 230 ∨ k = 231 ∨ k = 232 ∨ k = 233 ∨ k = 234 ∨ k = 235 ∨ k = 236 ∨ k = 237 ∨ k = 238 ∨ k = 239 := by omega
  rcases h with rfl | rfl | rfl | rfl | rfl | rfl | rfl | rfl | rfl | rfl | rfl | rfl | rfl | rfl | rfl | rfl
  · exact accsrgb_k224
  · exact accsrgb_k225
  · exact accsrgb_k226
  · exact accsrgb_k227
  · exact accsrgb_k228
  · exact accsrgb_k229
  · exact accsrgb_k230
  · exact accsrgb_k231
  · exact accsrgb_k232
  · exact accsrgb_k233
  · exact accsrgb_k234
  · exact accsrgb_k235
  · exact accsrgb_k236
  · exact accsrgb_k237
  · exact accsrgb_k238
  · exact accsrgb_k239

end Prism.C02
