import Prism.Check.C02Acc

/-! Kernel-checked chunks (generated boiler-plate, see lib/gen_static.py). -/
namespace Prism.C02

theorem accsrgb_k240 : enc16AccChunk .srgb 240 = true := by decide +kernel
theorem accsrgb_k241 : enc16AccChunk .srgb 241 = true := by decide +kernel
theorem accsrgb_k242 : enc16AccChunk .srgb 242 = true := by decide +kernel
theorem accsrgb_k243 : enc16AccChunk .srgb 243 = true := by decide +kernel
theorem accsrgb_k244 : enc16AccChunk .srgb 244 = true := by decide +kernel
theorem accsrgb_k245 : enc16AccChunk .srgb 245 = true := by decide +kernel
theorem accsrgb_k246 : enc16AccChunk .srgb 246 = true := by decide +kernel
theorem accsrgb_k247 : enc16AccChunk .srgb 247 = true := by decide +kernel
theorem accsrgb_k248 : enc16AccChunk .srgb 248 = true := by decide +kernel
theorem accsrgb_k249 : enc16AccChunk .srgb 249 = true := by decide +kernel
theorem accsrgb_k250 : enc16AccChunk .srgb 250 = true := by decide +kernel
theorem accsrgb_k251 : enc16AccChunk .srgb 251 = true := by decide +kernel
theorem accsrgb_k252 : enc16AccChunk .srgb 252 = true := by decide +kernel
theorem accsrgb_k253 : enc16AccChunk .srgb 253 = true := by decide +kernel
theorem accsrgb_k254 : enc16AccChunk .srgb 254 = true := by decide +kernel
theorem accsrgb_k255 : enc16AccChunk .srgb 255 = true := by decide +kernel

theorem accsrgb_file15 : ∀ k, 240 ≤ k → k < 256 → enc16AccChunk .srgb k = true := by
  intro k h1 h2
  have h : k = 240 ∨ k = 241 ∨ k = 242 ∨ k = 243 ∨ k = 244 ∨ k = 245 ∨ k = 246 ∨ k = 247 ∨ k = 248 ∨ k = 249 ∨ k = 250 ∨ k = 251 ∨ k = 252 ∨ k = 253 ∨ k = 254 ∨ k = 255 := by omega
  rcases h with rfl | rfl | rfl | rfl | rfl | rfl | rfl | rfl | rfl | rfl | rfl | rfl | rfl | rfl | rfl | rfl
  · exact accsrgb_k240
  · exact accsrgb_k241
  · exact accsrgb_k242
  · exact accsrgb_k243
  · exact accsrgb_k244
  · exact accsrgb_k245
  · exact accsrgb_k246
  · exact accsrgb_k247
  · exact accsrgb_k248
  · exact accsrgb_k249
  · exact accsrgb_k250
  · exact accsrgb_k251
  · exact accsrgb_k252
  · exact accsrgb_k253
  · exact accsrgb_k254
  · exact accsrgb_k255

end Prism.C02
