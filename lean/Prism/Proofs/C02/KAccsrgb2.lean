import Prism.Check.C02Acc

/-! Kernel-checked chunks (generated boiler-plate, see lib/gen_static.py). -/
namespace Prism.C02

theorem accsrgb_k32 : enc16AccChunk .srgb 32 = true := by decide +kernel
theorem accsrgb_k33 : enc16AccChunk .srgb 33 = true := by decide +kernel
theorem accsrgb_k34 : enc16AccChunk .srgb 34 = true := by decide +kernel
theorem accsrgb_k35 : enc16AccChunk .srgb 35 = true := by decide +kernel
theorem accsrgb_k36 : enc16AccChunk .srgb 36 = true := by decide +kernel
theorem accsrgb_k37 : enc16AccChunk .srgb 37 = true := by decide +kernel
theorem accsrgb_k38 : enc16AccChunk .srgb 38 = true := by decide +kernel
theorem accsrgb_k39 : enc16AccChunk .srgb 39 = true := by decide +kernel
theorem accsrgb_k40 : enc16AccChunk .srgb 40 = true := by decide +kernel
theorem accsrgb_k41 : enc16AccChunk .srgb 41 = true := by decide +kernel
theorem accsrgb_k42 : enc16AccChunk .srgb 42 = true := by decide +kernel
theorem accsrgb_k43 : enc16AccChunk .srgb 43 = true := by decide +kernel
theorem accsrgb_k44 : enc16AccChunk .srgb 44 = true := by decide +kernel
theorem accsrgb_k45 : enc16AccChunk .srgb 45 = true := by decide +kernel
theorem accsrgb_k46 : enc16AccChunk .srgb 46 = true := by decide +kernel
theorem accsrgb_k47 : enc16AccChunk .srgb 47 = true := by decide +kernel

theorem accsrgb_file2 : ∀ k, 32 ≤ k → k < 48 → enc16AccChunk .srgb k = true := by
  intro k h1 h2
  have h : k = 32 ∨ k = 33 ∨ k = 34 ∨ k = 35 ∨ k = 36 ∨ k = 37 ∨ k = 38 ∨ k = 39 ∨ k = 40 ∨ k = 41 ∨ k = 42 ∨ k = 43 ∨ k = 44 ∨ k = 45 ∨ k = 46 ∨ k = 47 := by omega
  rcases h with rfl | rfl | rfl | rfl | rfl | rfl | rfl | rfl | rfl | rfl | rfl | rfl | rfl | rfl | rfl | rfl
  · exact accsrgb_k32
  · exact accsrgb_k33
  · exact accsrgb_k34
  · exact accsrgb_k35
  · exact accsrgb_k36
  · exact accsrgb_k37
  · exact accsrgb_k38
  · exact accsrgb_k39
  · exact accsrgb_k40
  · exact accsrgb_k41
  · exact accsrgb_k42
  · exact accsrgb_k43
  · exact accsrgb_k44
  · exact accsrgb_k45
  · exact accsrgb_k46
  · exact accsrgb_k47

end Prism.C02
