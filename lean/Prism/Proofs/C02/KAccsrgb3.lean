import Prism.Check.C02Acc

/-! Kernel-checked chunks (generated boiler-plate, see lib/gen_static.py). -/
namespace Prism.C02

theorem accsrgb_k48 : enc16AccChunk .srgb 48 = true := by decide +kernel
theorem accsrgb_k49 : enc16AccChunk .srgb 49 = true := by decide +kernel
theorem accsrgb_k50 : enc16AccChunk .srgb 50 = true := by decide +kernel
theorem accsrgb_k51 : enc16AccChunk .srgb 51 = true := by decide +kernel
theorem accsrgb_k52 : enc16AccChunk .srgb 52 = true := by decide +kernel
theorem accsrgb_k53 : enc16AccChunk .srgb 53 = true := by decide +kernel
theorem accsrgb_k54 : enc16AccChunk .srgb 54 = true := by decide +kernel
theorem accsrgb_k55 : enc16AccChunk .srgb 55 = true := by decide +kernel
theorem accsrgb_k56 : enc16AccChunk .srgb 56 = true := by decide +kernel
theorem accsrgb_k57 : enc16AccChunk .srgb 57 = true := by decide +kernel
theorem accsrgb_k58 : enc16AccChunk .srgb 58 = true := by decide +kernel
theorem accsrgb_k59 : enc16AccChunk .srgb 59 = true := by decide +kernel
theorem accsrgb_k60 : enc16AccChunk .srgb 60 = true := by decide +kernel
theorem accsrgb_k61 : enc16AccChunk .srgb 61 = true := by decide +kernel
theorem accsrgb_k62 : enc16AccChunk .srgb 62 = true := by decide +kernel
theorem accsrgb_k63 : enc16AccChunk .srgb 63 = true := by decide +kernel

theorem accsrgb_file3 : ∀ k, 48 ≤ k → k < 64 → enc16AccChunk .srgb k = true := by
  intro k h1 h2
  have h : k = 48 ∨ k = 49 ∨ k = 50 ∨ k = 51 ∨ k = 52 ∨ k = 53 ∨ k = 54 ∨ k = 55 ∨ k = 56 ∨ k = 57 ∨ k = 58 ∨ k = 59 ∨ k = 60 ∨ k = 61 ∨ k = 62 ∨ k = 63 := by omega
  rcases h with rfl | rfl | rfl | rfl | rfl | rfl | rfl | rfl | rfl | rfl | rfl | rfl | rfl | rfl | rfl | rfl
  · exact accsrgb_k48
  · exact accsrgb_k49
  · exact accsrgb_k50
  · exact accsrgb_k51
  · exact accsrgb_k52
  · exact accsrgb_k53
  · exact accsrgb_k54
  · exact accsrgb_k55
  · exact accsrgb_k56
  · exact accsrgb_k57
  · exact accsrgb_k58
  · exact accsrgb_k59
  · exact accsrgb_k60
  · exact accsrgb_k61
  · exact accsrgb_k62
  · exact accsrgb_k63

end Prism.C02
