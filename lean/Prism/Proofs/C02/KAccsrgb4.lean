import Prism.Check.C02Acc

/-! Kernel-checked chunks (generated boiler-plate, see lib/gen_static.py). -/
namespace Prism.C02

theorem accsrgb_k64 : enc16AccChunk .srgb 64 = true := by decide +kernel
theorem accsrgb_k65 : enc16AccChunk .srgb 65 = true := by decide +kernel
theorem accsrgb_k66 : enc16AccChunk .srgb 66 = true := by decide +kernel
theorem accsrgb_k67 : enc16AccChunk .srgb 67 = true := by decide +kernel
theorem accsrgb_k68 : enc16AccChunk .srgb 68 = true := by decide +kernel
theorem accsrgb_k69 : enc16AccChunk .srgb 69 = true := by decide +kernel
theorem accsrgb_k70 : enc16AccChunk .srgb 70 = true := by decide +kernel
theorem accsrgb_k71 : enc16AccChunk .srgb 71 = true := by decide +kernel
theorem accsrgb_k72 : enc16AccChunk .srgb 72 = true := by decide +kernel
theorem accsrgb_k73 : enc16AccChunk .srgb 73 = true := by decide +kernel
theorem accsrgb_k74 : enc16AccChunk .srgb 74 = true := by decide +kernel
theorem accsrgb_k75 : enc16AccChunk .srgb 75 = true := by decide +kernel
theorem accsrgb_k76 : enc16AccChunk .srgb 76 = true := by decide +kernel
theorem accsrgb_k77 : enc16AccChunk .srgb 77 = true := by decide +kernel
theorem accsrgb_k78 : enc16AccChunk .srgb 78 = true := by decide +kernel
theorem accsrgb_k79 : enc16AccChunk .srgb 79 = true := by decide +kernel

theorem accsrgb_file4 : ∀ k, 64 ≤ k → k < 80 → enc16AccChunk .srgb k = true := by
  intro k h1 h2
  have h : k = 64 ∨ k = 65 ∨ k = 66 ∨ k = 67 ∨ k = 68 ∨ k = 69 ∨ k = 70 ∨ k = 71 ∨ k = 72 ∨ k = 73 ∨ k = 74 ∨ k = 75 ∨ k = 76 ∨ k = 77 ∨ k = 78 ∨ k = 79 := by omega
  rcases h with rfl | rfl | rfl | rfl | rfl | rfl | rfl | rfl | rfl | rfl | rfl | rfl | rfl | rfl | rfl | rfl
  · exact accsrgb_k64
  · exact accsrgb_k65
  · exact accsrgb_k66
  · exact accsrgb_k67
  · exact accsrgb_k68
  · exact accsrgb_k69
  · exact accsrgb_k70
  · exact accsrgb_k71
  · exact accsrgb_k72
  · exact accsrgb_k73
  · exact accsrgb_k74
  · exact accsrgb_k75
  · exact accsrgb_k76
  · exact accsrgb_k77
  · exact accsrgb_k78
  · exact accsrgb_k79

end Prism.C02
