import Prism.Check.C02Acc

/-! Kernel-checked chunks (generated boiler-plate, see lib/gen_static.py). -/
namespace Prism.C02

theorem accsrgb_k80 : enc16AccChunk .srgb 80 = true := by decide +kernel
theorem accsrgb_k81 : enc16AccChunk .srgb 81 = true := by decide +kernel
theorem accsrgb_k82 : enc16AccChunk .srgb 82 = true := by decide +kernel
theorem accsrgb_k83 : enc16AccChunk .srgb 83 = true := by decide +kernel
theorem accsrgb_k84 : enc16AccChunk .srgb 84 = true := by decide +kernel
theorem accsrgb_k85 : enc16AccChunk .srgb 85 = true := by decide +kernel
theorem accsrgb_k86 : enc16AccChunk .srgb 86 = true := by decide +kernel
theorem accsrgb_k87 : enc16AccChunk .srgb 87 = true := by decide +kernel
theorem accsrgb_k88 : enc16AccChunk .srgb 88 = true := by decide +kernel
theorem accsrgb_k89 : enc16AccChunk .srgb 89 = true := by decide +kernel
theorem accsrgb_k90 : enc16AccChunk .srgb 90 = true := by decide +kernel
theorem accsrgb_k91 : enc16AccChunk .srgb 91 = true := by decide +kernel
theorem accsrgb_k92 : enc16AccChunk .srgb 92 = true := by decide +kernel
theorem accsrgb_k93 : enc16AccChunk .srgb 93 = true := by decide +kernel
theorem accsrgb_k94 : enc16AccChunk .srgb 94 = true := by decide +kernel
theorem accsrgb_k95 : enc16AccChunk .srgb 95 = true := by decide +kernel

theorem accsrgb_file5 : ∀ k, 80 ≤ k → k < 96 → enc16AccChunk .srgb k = true := by
  intro k h1 h2
  have h : k = 80 ∨ k = 81 ∨ k = 82 ∨ k = 83 ∨ k = 84 ∨ k = 85 ∨ k = 86 ∨ k = 87 ∨ k = 88 ∨ k = 89 ∨ k = 90 ∨ k = 91 ∨ k = 92 ∨ k = 93 ∨ k = 94 ∨ k = 95 := by omega
  rcases h with rfl | rfl | rfl | rfl | rfl | rfl | rfl | rfl | rfl | rfl | rfl | rfl | rfl | rfl | rfl | rfl
  · exact accsrgb_k80
  · exact accsrgb_k81
  · exact accsrgb_k82
  · exact accsrgb_k83
  · exact accsrgb_k84
  · exact accsrgb_k85
  · exact accsrgb_k86
  · exact accsrgb_k87
  · exact accsrgb_k88
  · exact accsrgb_k89
  · exact accsrgb_k90
  · exact accsrgb_k91
  · exact accsrgb_k92
  · exact accsrgb_k93
  · exact accsrgb_k94
  · exact accsrgb_k95

end Prism.C02
