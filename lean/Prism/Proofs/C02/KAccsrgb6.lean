import Prism.Check.C02Acc

/-! Kernel-checked chunks (generated boiler-plate, see lib/gen_static.py). -/
namespace Prism.C02

theorem accsrgb_k96 : enc16AccChunk .srgb 96 = true := by decide +kernel
theorem accsrgb_k97 : enc16AccChunk .srgb 97 = true := by decide +kernel
theorem accsrgb_k98 : enc16AccChunk .srgb 98 = true := by decide +kernel
theorem accsrgb_k99 : enc16AccChunk .srgb 99 = true := by decide +kernel
theorem accsrgb_k100 : enc16AccChunk .srgb 100 = true := by decide +kernel
theorem accsrgb_k101 : enc16AccChunk .srgb 101 = true := by decide +kernel
theorem accsrgb_k102 : enc16AccChunk .srgb 102 = true := by decide +kernel
theorem accsrgb_k103 : enc16AccChunk .srgb 103 = true := by decide +kernel
theorem accsrgb_k104 : enc16AccChunk .srgb 104 = true := by decide +kernel
theorem accsrgb_k105 : enc16AccChunk .srgb 105 = true := by decide +kernel
theorem accsrgb_k106 : enc16AccChunk .srgb 106 = true := by decide +kernel
theorem accsrgb_k107 : enc16AccChunk .srgb 107 = true := by decide +kernel
theorem accsrgb_k108 : enc16AccChunk .srgb 108 = true := by decide +kernel
theorem accsrgb_k109 : enc16AccChunk .srgb 109 = true := by decide +kernel
theorem accsrgb_k110 : enc16AccChunk .srgb 110 = true := by decide +kernel
theorem accsrgb_k111 : enc16AccChunk .srgb 111 = true := by decide +kernel

theorem accsrgb_file6 : ∀ k, 96 ≤ k → k < 112 → enc16AccChunk .srgb k = true := by
  intro k h1 h2
  have h : k = 96 ∨ k = 97 ∨ k = 98 ∨ k = 99 ∨ k = 100 ∨ k = 101 ∨ k = 102 ∨ k = 103 ∨ k = 104 ∨ k = 105 ∨ k = 106 ∨ k = 107 ∨ k = 108 ∨ k = 109 ∨ k = 110 ∨ k = 111 := by omega
  rcases h with rfl | rfl | rfl | rfl | rfl | rfl | rfl | rfl | rfl | rfl | rfl | rfl | rfl | rfl | rfl | rfl
  · exact accsrgb_k96
  · exact accsrgb_k97
  · exact accsrgb_k98
  · exact accsrgb_k99
  · exact accsrgb_k100
  · exact accsrgb_k101
  · exact accsrgb_k102
  · exact accsrgb_k103
  · exact accsrgb_k104
  · exact accsrgb_k105
  · exact accsrgb_k106
  · exact accsrgb_k107
  · exact accsrgb_k108
  · exact accsrgb_k109
  · exact accsrgb_k110
  · exact accsrgb_k111

end Prism.C02
