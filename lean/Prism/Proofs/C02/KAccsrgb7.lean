import Prism.Check.C02Acc

/-! Kernel-checked chunks (generated boiler-plate, see lib/gen_static.py). -/
namespace Prism.C02

theorem accsrgb_k112 : enc16AccChunk .srgb 112 = true := by decide +kernel
theorem accsrgb_k113 : enc16AccChunk .srgb 113 = true := by decide +kernel
theorem accsrgb_k114 : enc16AccChunk .srgb 114 = true := by decide +kernel
theorem accsrgb_k115 : enc16AccChunk .srgb 115 = true := by decide +kernel
theorem accsrgb_k116 : enc16AccChunk .srgb 116 = true := by decide +kernel
theorem accsrgb_k117 : enc16AccChunk .srgb 117 = true := by decide +kernel
theorem accsrgb_k118 : enc16AccChunk .srgb 118 = true := by decide +kernel
theorem accsrgb_k119 : enc16AccChunk .srgb 119 = true := by decide +kernel
theorem accsrgb_k120 : enc16AccChunk .srgb 120 = true := by decide +kernel
theorem accsrgb_k121 : enc16AccChunk .srgb 121 = true := by decide +kernel
theorem accsrgb_k122 : enc16AccChunk .srgb 122 = true := by decide +kernel
theorem accsrgb_k123 : enc16AccChunk .srgb 123 = true := by decide +kernel
theorem accsrgb_k124 : enc16AccChunk .srgb 124 = true := by decide +kernel
theorem accsrgb_k125 : enc16AccChunk .srgb 125 = true := by decide +kernel
theorem accsrgb_k126 : enc16AccChunk .srgb 126 = true := by decide +kernel
theorem accsrgb_k127 : enc16AccChunk .srgb 127 = true := by decide +kernel

theorem accsrgb_file7 : ∀ k, 112 ≤ k → k < 128 → enc16AccChunk .srgb k = true := by
  intro k h1 h2
  have h : k = 112 ∨ k = 113 ∨ k = 114 ∨ k = 115 ∨ k = 116 ∨ k = 117 ∨ k = 118 ∨ k = 119 ∨ k = 120 ∨ k = 121 ∨ k = 122 ∨ k = 123 ∨ k = 124 ∨ k = 125 ∨ k = 126 ∨ k = 127 := by omega
  rcases h with rfl | rfl | rfl | rfl | rfl | rfl | rfl | rfl | rfl | rfl | rfl | rfl | rfl | rfl | rfl | rfl
  · exact accsrgb_k112
  · exact accsrgb_k113
  · exact accsrgb_k114
  · exact accsrgb_k115
  · exact accsrgb_k116
  · exact accsrgb_k117
  · exact accsrgb_k118
  · exact accsrgb_k119
  · exact accsrgb_k120
  · exact accsrgb_k121
  · exact accsrgb_k122
  · exact accsrgb_k123
  · exact accsrgb_k124
  · exact accsrgb_k125
  · exact accsrgb_k126
  · exact accsrgb_k127

end Prism.C02
