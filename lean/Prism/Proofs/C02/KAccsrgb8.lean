import Prism.Check.C02Acc

/-! Kernel-checked chunks (generated boiler-plate, see lib/gen_static.py). -/
namespace Prism.C02

theorem accsrgb_k128 : enc16AccChunk .srgb 128 = true := by decide +kernel
theorem accsrgb_k129 : enc16AccChunk .srgb 129 = true := by decide +kernel
theorem accsrgb_k130 : enc16AccChunk .srgb 130 = true := by decide +kernel
theorem accsrgb_k131 : enc16AccChunk .srgb 131 = true := by decide +kernel
theorem accsrgb_k132 : enc16AccChunk .srgb 132 = true := by decide +kernel
theorem accsrgb_k133 : enc16AccChunk .srgb 133 = true := by decide +kernel
theorem accsrgb_k134 : enc16AccChunk .srgb 134 = true := by decide +kernel
theorem accsrgb_k135 : enc16AccChunk .srgb 135 = true := by decide +kernel
theorem accsrgb_k136 : enc16AccChunk .srgb 136 = true := by decide +kernel
theorem accsrgb_k137 : enc16AccChunk .srgb 137 = true := by decide +kernel
theorem accsrgb_k138 : enc16AccChunk .srgb 138 = true := by decide +kernel
theorem accsrgb_k139 : enc16AccChunk .srgb 139 = true := by decide +kernel
theorem accsrgb_k140 : enc16AccChunk .srgb 140 = true := by decide +kernel
theorem accsrgb_k141 : enc16AccChunk .srgb 141 = true := by decide +kernel
theorem accsrgb_k142 : enc16AccChunk .srgb 142 = true := by decide +kernel
theorem accsrgb_k143 : enc16AccChunk .srgb 143 = true := by decide +kernel

theorem accsrgb_file8 : ∀ k, 128 ≤ k → k < 144 → enc16AccChunk .srgb k = true := by
  intro k h1 h2
  have h : k = 128 ∨ k = 129 ∨ k = 130 ∨ k = 131 ∨ k = 132 ∨ k = 133 ∨ k = 134 ∨ k = 135 ∨ k = 136 ∨ k = 137 ∨ k = 138 ∨ k = 139 ∨ k = 140 ∨ k = 141 ∨ k = 142 ∨ k = 143 := by omega
  rcases h with rfl | rfl | rfl | rfl | rfl | rfl | rfl | rfl | rfl | rfl | rfl | rfl | rfl | rfl | rfl | rfl
  · exact accsrgb_k128
  · exact accsrgb_k129
  · exact accsrgb_k130
  · exact accsrgb_k131
  · exact accsrgb_k132
  · exact accsrgb_k133
  · exact accsrgb_k134
  · exact accsrgb_k135
  · exact accsrgb_k136
  · exact accsrgb_k137
  · exact accsrgb_k138
  · exact accsrgb_k139
  · exact accsrgb_k140
  · exact accsrgb_k141
  · exact accsrgb_k142
  · exact accsrgb_k143

end Prism.C02
