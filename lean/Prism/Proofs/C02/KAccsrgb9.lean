import Prism.Check.C02Acc

/-! Kernel-checked chunks (generated boiler-plate, see lib/gen_static.py). -/
namespace Prism.C02

theorem accsrgb_k144 : enc16AccChunk .srgb 144 = true := by decide +kernel
theorem accsrgb_k145 : enc16AccChunk .srgb 145 = true := by decide +kernel
theorem accsrgb_k146 : enc16AccChunk .srgb 146 = true := by decide +kernel
theorem accsrgb_k147 : enc16AccChunk .srgb 147 = true := by decide +kernel
theorem accsrgb_k148 : enc16AccChunk .srgb 148 = true := by decide +kernel
theorem accsrgb_k149 : enc16AccChunk .srgb 149 = true := by decide +kernel
theorem accsrgb_k150 : enc16AccChunk .srgb 150 = true := by decide +kernel
theorem accsrgb_k151 : enc16AccChunk .srgb 151 = true := by decide +kernel
theorem accsrgb_k152 : enc16AccChunk .srgb 152 = true := by decide +kernel
theorem accsrgb_k153 : enc16AccChunk .srgb 153 = true := by decide +kernel
theorem accsrgb_k154 : enc16AccChunk .srgb 154 = true := by decide +kernel
theorem accsrgb_k155 : enc16AccChunk .srgb 155 = true := by decide +kernel
theorem accsrgb_k156 : enc16AccChunk .srgb 156 = true := by decide +kernel
theorem accsrgb_k157 : enc16AccChunk .srgb 157 = true := by decide +kernel
theorem accsrgb_k158 : enc16AccChunk .srgb 158 = true := by decide +kernel
theorem accsrgb_k159 : enc16AccChunk .srgb 159 = true := by decide +kernel

theorem accsrgb_file9 : ∀ k, 144 ≤ k → k < 160 → enc16AccChunk .srgb k = true := by
  intro k h1 h2
  have h : k = 144 ∨ k = 145 ∨ k = 146 ∨ k = 147 ∨ k = 148 ∨ k = 149 ∨ k = 150 ∨ k = 151 ∨ k = 152 ∨ k = 153 ∨ k = 154 ∨ k = 155 ∨ k = 156 ∨ k = 157 ∨ k = 158 ∨ k = 159 := by omega
  rcases h with rfl | rfl | rfl | rfl | rfl | rfl | rfl | rfl | rfl | rfl | rfl | rfl | rfl | rfl | rfl | rfl
  · exact accsrgb_k144
  · exact accsrgb_k145
  · exact accsrgb_k146
  · exact accsrgb_k147
  · exact accsrgb_k148
  · exact accsrgb_k149
  · exact accsrgb_k150
  · exact accsrgb_k151
  · exact accsrgb_k152
  · exact accsrgb_k153
  · exact accsrgb_k154
  · exact accsrgb_k155
  · exact accsrgb_k156
  · exact accsrgb_k157
  · exact accsrgb_k158
  · exact accsrgb_k159

end Prism.C02
