import Prism.Check.C02

/-! Kernel-checked chunks (generated boiler-plate, see lib/gen_static.py). -/
namespace Prism.C02

theorem encadobe_k0 : enc16ChunkOk .adobe 0 = true := by decide +kernel
theorem encadobe_k1 : enc16ChunkOk .adobe 1 = true := by decide +kernel
theorem encadobe_k2 : enc16ChunkOk .adobe 2 = true := by decide +kernel
theorem encadobe_k3 : enc16ChunkOk .adobe 3 = true := by decide +kernel
theorem encadobe_k4 : enc16ChunkOk .adobe 4 = true := by decide +kernel
theorem encadobe_k5 : enc16ChunkOk .adobe 5 = true := by decide +kernel
theorem encadobe_k6 : enc16ChunkOk .adobe 6 = true := by decide +kernel
theorem encadobe_k7 : enc16ChunkOk .adobe 7 = true := by decide +kernel
theorem encadobe_k8 : enc16ChunkOk .adobe 8 = true := by decide +kernel
theorem encadobe_k9 : enc16ChunkOk .adobe 9 = true := by decide +kernel
theorem encadobe_k10 : enc16ChunkOk .adobe 10 = true := by decide +kernel
theorem encadobe_k11 : enc16ChunkOk .adobe 11 = true := by decide +kernel
theorem encadobe_k12 : enc16ChunkOk .adobe 12 = true := by decide +kernel
theorem encadobe_k13 : enc16ChunkOk .adobe 13 = true := by decide +kernel
theorem encadobe_k14 : enc16ChunkOk .adobe 14 = true := by decide +kernel
theorem encadobe_k15 : enc16ChunkOk .adobe 15 = true := by decide +kernel

theorem encadobe_file0 : ∀ k, 0 ≤ k → k < 16 → enc16ChunkOk .adobe k = true := by
  intro k h1 h2
  have h : k = 0 ∨ k = 1 ∨ k = 2 ∨ k = 3 ∨ k = 4 ∨ k = 5 ∨ k = 6 ∨ k = 7 ∨ k = 8 ∨ k = 9 ∨ k = 10 ∨ k = 11 ∨ k = 12 ∨ k = 13 ∨ k = 14 ∨ k = 15 := by omega
  rcases h with rfl | rfl | rfl | rfl | rfl | rfl | rfl | rfl | rfl | rfl | rfl | rfl | rfl | rfl | rfl | rfl
  · exact encadobe_k0
  · exact encadobe_k1
  · exact encadobe_k2
  · exact encadobe_k3
  · exact encadobe_k4
  · exact encadobe_k5
  · exact encadobe_k6
  · exact encadobe_k7
  · exact encadobe_k8
  · exact encadobe_k9
  · exact encadobe_k10
  · exact encadobe_k11
  · exact encadobe_k12
  · exact encadobe_k13
  · exact encadobe_k14
  · exact encadobe_k15

end Prism.C02
