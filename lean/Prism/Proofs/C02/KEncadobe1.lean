import Prism.Check.C02

/-! Kernel-checked chunks (generated boiler-plate, see lib/gen_static.py). -/
namespace Prism.C02

theorem encadobe_k16 : enc16ChunkOk .adobe 16 = true := by decide +kernel
theorem encadobe_k17 : enc16ChunkOk .adobe 17 = true := by decide +kernel
theorem encadobe_k18 : enc16ChunkOk .adobe 18 = true := by decide +kernel
theorem encadobe_k19 : enc16ChunkOk .adobe 19 = true := by decide +kernel
theorem encadobe_k20 : enc16ChunkOk .adobe 20 = true := by decide +kernel
theorem encadobe_k21 : enc16ChunkOk .adobe 21 = true := by decide +kernel
theorem encadobe_k22 : enc16ChunkOk .adobe 22 = true := by decide +kernel
theorem encadobe_k23 : enc16ChunkOk .adobe 23 = true := by decide +kernel
theorem encadobe_k24 : enc16ChunkOk .adobe 24 = true := by decide +kernel
theorem encadobe_k25 : enc16ChunkOk .adobe 25 = true := by decide +kernel
theorem encadobe_k26 : enc16ChunkOk .adobe 26 = true := by decide +kernel
theorem encadobe_k27 : enc16ChunkOk .adobe 27 = true := by decide +kernel
theorem encadobe_k28 : enc16ChunkOk .adobe 28 = true := by decide +kernel
theorem encadobe_k29 : enc16ChunkOk .adobe 29 = true := by decide +kernel
theorem encadobe_k30 : enc16ChunkOk .adobe 30 = true := by decide +kernel
theorem encadobe_k31 : enc16ChunkOk .adobe 31 = true := by decide +kernel

theorem encadobe_file1 : ∀ k, 16 ≤ k → k < 32 → enc16ChunkOk .adobe k = true := by
  intro k h1 h2
  have h : k = 16 ∨ k = 17 ∨ k = 18 ∨ k = 19 ∨ k = 20 ∨ k = 21 ∨ k = 22 ∨ k = 23 ∨ k = 24 ∨ k = 25 ∨ k = 26 ∨ k = 27 ∨ k = 28 ∨ k = 29 ∨ k = 30 ∨ k = 31 := by omega
  rcases h with rfl | rfl | rfl | rfl | rfl | rfl | rfl | rfl | rfl | rfl | rfl | rfl | rfl | rfl | rfl | rfl
  · exact encadobe_k16
  · exact encadobe_k17
  · exact encadobe_k18
  · exact encadobe_k19
  · exact encadobe_k20
  · exact encadobe_k21
  · exact encadobe_k22
  · exact encadobe_k23
  · exact encadobe_k24
  · exact encadobe_k25
  · exact encadobe_k26
  · exact encadobe_k27
  · exact encadobe_k28
  · exact encadobe_k29
  · exact encadobe_k30
  · exact encadobe_k31

end Prism.C02
