import Prism.Check.C02

/-! Kernel-checked chunks (generated boiler-plate, see lib/gen_static.py). -/
namespace Prism.C02

theorem encadobe_k160 : enc16ChunkOk .adobe 160 = true := by decide +kernel
theorem encadobe_k161 : enc16ChunkOk .adobe 161 = true := by decide +kernel
theorem encadobe_k162 : enc16ChunkOk .adobe 162 = true := by decide +kernel
theorem encadobe_k163 : enc16ChunkOk .adobe 163 = true := by decide +kernel
theorem encadobe_k164 : enc16ChunkOk .adobe 164 = true := by decide +kernel
theorem encadobe_k165 : enc16ChunkOk .adobe 165 = true := by decide +kernel
theorem encadobe_k166 : enc16ChunkOk .adobe 166 = true := by decide +kernel
theorem encadobe_k167 : enc16ChunkOk .adobe 167 = true := by decide +kernel
theorem encadobe_k168 : enc16ChunkOk .adobe 168 = true := by decide +kernel
theorem encadobe_k169 : enc16ChunkOk .adobe 169 = true := by decide +kernel
theorem encadobe_k170 : enc16ChunkOk .adobe 170 = true := by decide +kernel
theorem encadobe_k171 : enc16ChunkOk .adobe 171 = true := by decide +kernel
theorem encadobe_k172 : enc16ChunkOk .adobe 172 = true := by decide +kernel
theorem encadobe_k173 : enc16ChunkOk .adobe 173 = true := by decide +kernel
theorem encadobe_k174 : enc16ChunkOk .adobe 174 = true := by decide +kernel
theorem encadobe_k175 : enc16ChunkOk .adobe 175 = true := by decide +kernel

theorem encadobe_file10 : ∀ k, 160 ≤ k → k < 176 → enc16ChunkOk .adobe k = true := by
  intro k h1 h2
  have h : k = 160 ∨ k = 161 ∨ k = 162 ∨ k = 163 ∨ k = 164 ∨ k = 165 ∨ k = 166 ∨ k = 167 ∨ k = 168 ∨ k = 169 ∨ k = 170 ∨ k = 171 ∨ k = 172 ∨ k = 173 ∨ k = 174 ∨ k = 175 := by omega
  rcases h with rfl | rfl | rfl | rfl | rfl | rfl | rfl | rfl | rfl | rfl | rfl | rfl | rfl | rfl | rfl | rfl
  · exact encadobe_k160
  · exact encadobe_k161
  · exact encadobe_k162
  · exact encadobe_k163
  · exact encadobe_k164
  · exact encadobe_k165
  · exact encadobe_k166
  · exact encadobe_k167
  · exact encadobe_k168
  · exact encadobe_k169
  · exact encadobe_k170
  · exact encadobe_k171
  · exact encadobe_k172
  · exact encadobe_k173
  · exact encadobe_k174
  · exact encadobe_k175

end Prism.C02
