import Prism.Check.C02

/-! Kernel-checked chunks (generated boiler-plate, see lib/gen_static.py). -/
namespace Prism.C02

theorem encadobe_k176 : enc16ChunkOk .adobe 176 = true := by decide +kernel
theorem encadobe_k177 : enc16ChunkOk .adobe 177 = true := by decide +kernel
theorem encadobe_k178 : enc16ChunkOk .adobe 178 = true := by decide +kernel
theorem encadobe_k179 : enc16ChunkOk .adobe 179 = true := by decide +kernel
theorem encadobe_k180 : enc16ChunkOk .adobe 180 = true := by decide +kernel
theorem encadobe_k181 : enc16ChunkOk .adobe 181 = true := by decide +kernel
theorem encadobe_k182 : enc16ChunkOk .adobe 182 = true := by decide +kernel
theorem encadobe_k183 : enc16ChunkOk .adobe 183 = true := by decide +kernel
theorem encadobe_k184 : enc16ChunkOk .adobe 184 = true := by decide +kernel
theorem encadobe_k185 : enc16ChunkOk .adobe 185 = true := by decide +kernel
theorem encadobe_k186 : enc16ChunkOk .adobe 186 = true := by decide +kernel
theorem encadobe_k187 : enc16ChunkOk .adobe 187 = true := by decide +kernel
theorem encadobe_k188 : enc16ChunkOk .adobe 188 = true := by decide +kernel
theorem encadobe_k189 : enc16ChunkOk .adobe 189 = true := by decide +kernel
theorem encadobe_k190 : enc16ChunkOk .adobe 190 = true := by decide +kernel
theorem encadobe_k191 : enc16ChunkOk .adobe 191 = true := by decide +kernel

theorem encadobe_file11 : ∀ k, 176 ≤ k → k < 192 → enc16ChunkOk .adobe k = true := by
  intro k h1 h2
  have h : k = 176 ∨ k = 177 ∨ k = 178 ∨ k = 179 ∨ k = 180 ∨ k = 181 ∨ k = 182 ∨ k = 183 ∨ k = 184 ∨ k = 185 ∨ k = 186 ∨ k = 187 ∨ k = 188 ∨ k = 189 ∨ k = 190 ∨ k = 191 := by omega
  rcases h with rfl | rfl | rfl | rfl | rfl | rfl | rfl | rfl | rfl | rfl | rfl | rfl | rfl | rfl | rfl | rfl
  · exact encadobe_k176
  · exact encadobe_k177
  · exact encadobe_k178
  · exact encadobe_k179
  · exact encadobe_k180
  · exact encadobe_k181
  · exact encadobe_k182
  · exact encadobe_k183
  · exact encadobe_k184
  · exact encadobe_k185
  · exact encadobe_k186
  · exact encadobe_k187
  · exact encadobe_k188
  · exact encadobe_k189
  · exact encadobe_k190
  · exact encadobe_k191

end Prism.C02
