import Prism.Check.C02

/-! Kernel-checked chunks (generated boiler-plate, see lib/gen_static.py). -/
namespace Prism.C02

theorem encadobe_k192 : enc16ChunkOk .adobe 192 = true := by decide +kernel
theorem encadobe_k193 : enc16ChunkOk .adobe 193 = true := by decide +kernel
theorem encadobe_k194 : enc16ChunkOk .adobe 194 = true := by decide +kernel
theorem encadobe_k195 : enc16ChunkOk .adobe 195 = true := by decide +kernel
theorem encadobe_k196 : enc16ChunkOk .adobe 196 = true := by decide +kernel
theorem encadobe_k197 : enc16ChunkOk .adobe 197 = true := by decide +kernel
theorem encadobe_k198 : enc16ChunkOk .adobe 198 = true := by decide +kernel
theorem encadobe_k199 : enc16ChunkOk .adobe 199 = true := by decide +kernel
theorem encadobe_k200 : enc16ChunkOk .adobe 200 = true := by decide +kernel
theorem encadobe_k201 : enc16ChunkOk .adobe 201 = true := by decide +kernel
theorem encadobe_k202 : enc16ChunkOk .adobe 202 = true := by decide +kernel
theorem encadobe_k203 : enc16ChunkOk .adobe 203 = true := by decide +kernel
theorem encadobe_k204 : enc16ChunkOk .adobe 204 = true := by decide +kernel
theorem encadobe_k205 : enc16ChunkOk .adobe 205 = true := by decide +kernel
theorem encadobe_k206 : enc16ChunkOk .adobe 206 = true := by decide +kernel
theorem encadobe_k207 : enc16ChunkOk .adobe 207 = true := by decide +kernel

theorem encadobe_file12 : ∀ k, 192 ≤ k → k < 208 → enc16ChunkOk .adobe k = true := by
  intro k h1 h2
  have h : k = 192 ∨ k = 193 ∨ k = 194 ∨ k = 195 ∨ k = 196 ∨ k = 197 ∨ k = 198 ∨ k = 199 ∨ k = 200 ∨ k = 201 ∨ k = 202 ∨ k = 203 ∨ k = 204 ∨ k = 205 ∨ k = 206 ∨ k = 207 := by omega
  rcases h with rfl | rfl | rfl | rfl | rfl | rfl | rfl | rfl | rfl | rfl | rfl | rfl | rfl | rfl | rfl | rfl
  · exact encadobe_k192
  · exact encadobe_k193
  · exact encadobe_k194
  · exact encadobe_k195
  · exact encadobe_k196
  · exact encadobe_k197
  · exact encadobe_k198
  · exact encadobe_k199
  · exact encadobe_k200
  · exact encadobe_k201
  · exact encadobe_k202
  · exact encadobe_k203
  · exact encadobe_k204
  · exact encadobe_k205
  · exact encadobe_k206
  · exact encadobe_k207

end Prism.C02
