import Prism.Check.C02

/-! Kernel-checked chunks (generated boiler-plate, see lib/gen_static.py). -/
namespace Prism.C02

theorem encadobe_k208 : enc16ChunkOk .adobe 208 = true := by decide +kernel
theorem encadobe_k209 : enc16ChunkOk .adobe 209 = true := by decide +kernel
theorem encadobe_k210 : enc16ChunkOk .adobe 210 = true := by decide +kernel
theorem encadobe_k211 : enc16ChunkOk .adobe 211 = true := by decide +kernel
theorem encadobe_k212 : enc16ChunkOk .adobe 212 = true := by decide +kernel
theorem encadobe_k213 : enc16ChunkOk .adobe 213 = true := by decide +kernel
theorem encadobe_k214 : enc16ChunkOk .adobe 214 = true := by decide +kernel
theorem encadobe_k215 : enc16ChunkOk .adobe 215 = true := by decide +kernel
theorem encadobe_k216 : enc16ChunkOk .adobe 216 = true := by decide +kernel
theorem encadobe_k217 : enc16ChunkOk .adobe 217 = true := by decide +kernel
theorem encadobe_k218 : enc16ChunkOk .adobe 218 = true := by decide +kernel
theorem encadobe_k219 : enc16ChunkOk .adobe 219 = true := by decide +kernel
theorem encadobe_k220 : enc16ChunkOk .adobe 220 = true := by decide +kernel
theorem encadobe_k221 : enc16ChunkOk .adobe 221 = true := by decide +kernel
theorem encadobe_k222 : enc16ChunkOk .adobe 222 = true := by decide +kernel
theorem encadobe_k223 : enc16ChunkOk .adobe 223 = true := by decide +kernel

theorem encadobe_file13 : ∀ k, 208 ≤ k → k < 224 → enc16ChunkOk .adobe k = true := by
  intro k h1 h2
  have h : k = 208 ∨ k = 209 ∨ k = 210 ∨ k = 211 ∨ k = 212 ∨ k = 213 ∨ k = 214 ∨ k = 215 ∨ k = 216 ∨ k = 217 ∨ k = 218 ∨ k = 219 ∨ k = 220 ∨ k = 221 ∨ k = 222 ∨ k = 223 := by omega
  rcases h with rfl | rfl | rfl | rfl | rfl | rfl | rfl | rfl | rfl | rfl | rfl | rfl | rfl | rfl | rfl | rfl
  · exact encadobe_k208
  · exact encadobe_k209
  · exact encadobe_k210
  · exact encadobe_k211
  · exact encadobe_k212
  · exact encadobe_k213
  · exact encadobe_k214
  · exact encadobe_k215
  · exact encadobe_k216
  · exact encadobe_k217
  · exact encadobe_k218
  · exact encadobe_k219
  · exact encadobe_k220
  · exact encadobe_k221
  · exact encadobe_k222
  · exact encadobe_k223

end Prism.C02
