import Prism.Check.C02

/-! Kernel-checked chunks (generated boiler-plate, see lib/gen_static.py). -/
namespace Prism.C02

theorem encadobe_k224 : enc16ChunkOk .adobe 224 = true := by decide +kernel
theorem encadobe_k225 : enc16ChunkOk .adobe 225 = true := by decide +kernel
theorem encadobe_k226 : enc16ChunkOk .adobe 226 = true := by decide +kernel
theorem encadobe_k227 : enc16ChunkOk .adobe 227 = true := by decide +kernel
theorem encadobe_k228 : enc16ChunkOk .adobe 228 = true := by decide +kernel
theorem encadobe_k229 : enc16ChunkOk .adobe 229 = true := by decide +kernel
theorem encadobe_k230 : enc16ChunkOk .adobe 230 = true := by decide +kernel
theorem encadobe_k231 : enc16ChunkOk .adobe 231 = true := by decide +kernel
theorem encadobe_k232 : enc16ChunkOk .adobe 232 = true := by decide +kernel
theorem encadobe_k233 : enc16ChunkOk .adobe 233 = true := by decide +kernel
theorem encadobe_k234 : enc16ChunkOk .adobe 234 = true := by decide +kernel
theorem encadobe_k235 : enc16ChunkOk .adobe 235 = true := by decide +kernel
theorem encadobe_k236 : enc16ChunkOk .adobe 236 = true := by decide +kernel
theorem encadobe_k237 : enc16ChunkOk .adobe 237 = true := by decide +kernel
theorem encadobe_k238 : enc16ChunkOk .adobe 238 = true := by decide +kernel
theorem encadobe_k239 : enc16ChunkOk .adobe 239 = true := by decide +kernel

theorem encadobe_file14 : ∀ k, 224 ≤ k → k < 240 → enc16ChunkOk .adobe k = true := by
  intro k h1 h2
  have h : k = 224 ∨ k = 225 ∨ k = 226 ∨ k = 227 ∨ k = 228 ∨ k = 229 ∨ k = 230 ∨ k = 231 ∨ k = 232 ∨ k = 233 ∨ k = 234 ∨ k = 235 ∨ k = 236 ∨ k = 237 ∨ k = 238 ∨ k = 239 := by omega
  rcases h with rfl | rfl | rfl | rfl | rfl | rfl | rfl | rfl | rfl | rfl | rfl | rfl | rfl | rfl | rfl | rfl
  · exact encadobe_k224
  · exact encadobe_k225
  · exact encadobe_k226
  · exact encadobe_k227
  · exact encadobe_k228
  · exact encadobe_k229
  · exact encadobe_k230
  · exact encadobe_k231
  · exact encadobe_k232
  · exact encadobe_k233
  · exact encadobe_k234
  · exact encadobe_k235
  · exact encadobe_k236
  · exact encadobe_k237
  · exact encadobe_k238
  · exact encadobe_k239

end Prism.C02
