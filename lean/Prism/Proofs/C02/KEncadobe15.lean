import Prism.Check.C02

/-! Kernel-checked chunks (generated boiler-plate, see lib/gen_static.py). -/
namespace Prism.C02

theorem encadobe_k240 : enc16ChunkOk .adobe 240 = true := by decide +kernel
theorem encadobe_k241 : enc16ChunkOk .adobe 241 = true := by decide +kernel
theorem encadobe_k242 : enc16ChunkOk .adobe 242 = true := by decide +kernel
theorem encadobe_k243 : enc16ChunkOk .adobe 243 = true := by decide +kernel
theorem encadobe_k244 : enc16ChunkOk .adobe 244 = true := by decide +kernel
theorem encadobe_k245 : enc16ChunkOk .adobe 245 = true := by decide +kernel
theorem encadobe_k246 : enc16ChunkOk .adobe 246 = true := by decide +kernel
theorem encadobe_k247 : enc16ChunkOk .adobe 247 = true := by decide +kernel
theorem encadobe_k248 : enc16ChunkOk .adobe 248 = true := by decide +kernel
theorem encadobe_k249 : enc16ChunkOk .adobe 249 = true := by decide +kernel
theorem encadobe_k250 : enc16ChunkOk .adobe 250 = true := by decide +kernel
theorem encadobe_k251 : enc16ChunkOk .adobe 251 = true := by decide +kernel
theorem encadobe_k252 : enc16ChunkOk .adobe 252 = true := by decide +kernel
theorem encadobe_k253 : enc16ChunkOk .adobe 253 = true := by decide +kernel
theorem encadobe_k254 : enc16ChunkOk .adobe 254 = true := by decide +kernel
theorem encadobe_k255 : enc16ChunkOk .adobe 255 = true := by decide +kernel

theorem encadobe_file15 : ∀ k, 240 ≤ k → k < 256 → enc16ChunkOk .adobe k = true := by
  intro k h1 h2
  have h : k = 240 ∨ k = 241 ∨ k = 242 ∨ k = 243 ∨ k = 244 ∨ k = 245 ∨ k = 246 ∨ k = 247 ∨ k = 248 ∨ k = 249 ∨ k = 250 ∨ k = 251 ∨ k = 252 ∨ k = 253 ∨ k = 254 ∨ k = 255 := by omega
  rcases h with rfl | rfl | rfl | rfl | rfl | rfl | rfl | rfl | rfl | rfl | rfl | rfl | rfl | rfl | rfl | rfl
  · exact encadobe_k240
  · exact encadobe_k241
  · exact encadobe_k242
  · exact encadobe_k243
  · exact encadobe_k244
  · exact encadobe_k245
  · exact encadobe_k246
  · exact encadobe_k247
  · exact encadobe_k248
  · exact encadobe_k249
  · exact encadobe_k250
  · exact encadobe_k251
  · exact encadobe_k252
  · exact encadobe_k253
  · exact encadobe_k254
  · exact encadobe_k255

end Prism.C02
