import Prism.Check.C02

/-! Kernel-checked chunks (generated boiler-plate, see lib/gen_static.py). -/
namespace Prism.C02

theorem encadobe_k32 : enc16ChunkOk .adobe 32 = true := by decide +kernel
theorem encadobe_k33 : enc16ChunkOk .adobe 33 = true := by decide +kernel
theorem encadobe_k34 : enc16ChunkOk .adobe 34 = true := by decide +kernel
theorem encadobe_k35 : enc16ChunkOk .adobe 35 = true := by decide +kernel
theorem encadobe_k36 : enc16ChunkOk .adobe 36 = true := by decide +kernel
theorem encadobe_k37 : enc16ChunkOk .adobe 37 = true := by decide +kernel
theorem encadobe_k38 : enc16ChunkOk .adobe 38 = true := by decide +kernel
theorem encadobe_k39 : enc16ChunkOk .adobe 39 = true := by decide +kernel
theorem encadobe_k40 : enc16ChunkOk .adobe 40 = true := by decide +kernel
theorem encadobe_k41 : enc16ChunkOk .adobe 41 = true := by decide +kernel
theorem encadobe_k42 : enc16ChunkOk .adobe 42 = true := by decide +kernel
theorem encadobe_k43 : enc16ChunkOk .adobe 43 = true := by decide +kernel
theorem encadobe_k44 : enc16ChunkOk .adobe 44 = true := by decide +kernel
theorem encadobe_k45 : enc16ChunkOk .adobe 45 = true := by decide +kernel
theorem encadobe_k46 : enc16ChunkOk .adobe 46 = true := by decide +kernel
theorem encadobe_k47 : enc16ChunkOk .adobe 47 = true := by decide +kernel

theorem encadobe_file2 : ∀ k, 32 ≤ k → k < 48 → enc16ChunkOk .adobe k = true := by
  intro k h1 h2
  have h : k = 32 ∨ k = 33 ∨ k = 34 ∨ k = 35 ∨ k = 36 ∨ k = 37 ∨ k = 38 ∨ k = 39 ∨ k = 40 ∨ k = 41 ∨ k = 42 ∨ k = 43 ∨ k = 44 ∨ k = 45 ∨ k = 46 ∨ k = 47 := by omega
  rcases h with rfl | rfl | rfl | rfl | rfl | rfl | rfl | rfl | rfl | rfl | rfl | rfl | rfl | rfl | rfl | rfl
  · exact encadobe_k32
  · exact encadobe_k33
  · exact encadobe_k34
  · exact encadobe_k35
  · exact encadobe_k36
  · exact encadobe_k37
  · exact encadobe_k38
  · exact encadobe_k39
  · exact encadobe_k40
  · exact encadobe_k41
  · exact encadobe_k42
  · exact encadobe_k43
  · exact encadobe_k44
  · exact encadobe_k45
  · exact encadobe_k46
  · exact encadobe_k47

end Prism.C02
