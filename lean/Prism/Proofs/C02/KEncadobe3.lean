import Prism.Check.C02

/-! Kernel-checked chunks (generated boiler-plate, see lib/gen_static.py). -/
namespace Prism.C02

theorem encadobe_k48 : enc16ChunkOk .adobe 48 = true := by decide +kernel
theorem encadobe_k49 : enc16ChunkOk .adobe 49 = true := by decide +kernel
theorem encadobe_k50 : enc16ChunkOk .adobe 50 = true := by decide +kernel
theorem encadobe_k51 : enc16ChunkOk .adobe 51 = true := by decide +kernel
theorem encadobe_k52 : enc16ChunkOk .adobe 52 = true := by decide +kernel
theorem encadobe_k53 : enc16ChunkOk .adobe 53 = true := by decide +kernel
theorem encadobe_k54 : enc16ChunkOk .adobe 54 = true := by decide +kernel
theorem encadobe_k55 : enc16ChunkOk .adobe 55 = true := by decide +kernel
theorem encadobe_k56 : enc16ChunkOk .adobe 56 = true := by decide +kernel
theorem encadobe_k57 : enc16ChunkOk .adobe 57 = true := by decide +kernel
theorem encadobe_k58 : enc16ChunkOk .adobe 58 = true := by decide +kernel
theorem encadobe_k59 : enc16ChunkOk .adobe 59 = true := by decide +kernel
theorem encadobe_k60 : enc16ChunkOk .adobe 60 = true := by decide +kernel
theorem encadobe_k61 : enc16ChunkOk .adobe 61 = true := by decide +kernel
theorem encadobe_k62 : enc16ChunkOk .adobe 62 = true := by decide +kernel
theorem encadobe_k63 : enc16ChunkOk .adobe 63 = true := by decide +kernel

theorem encadobe_file3 : ∀ k, 48 ≤ k → k < 64 → enc16ChunkOk .adobe k = true := by
  intro k h1 h2
  have h : k = 48 ∨ k = 49 ∨ k = 50 ∨ k = 51 ∨ k = 52 ∨ k = 53 ∨ k = 54 ∨ k = 55 ∨ k = 56 ∨ k = 57 ∨ k = 58 ∨ k = 59 ∨ k = 60 ∨ k = 61 ∨ k = 62 ∨ k = 63 := by omega
  rcases h with rfl | rfl | rfl | rfl | rfl | rfl | rfl | rfl | rfl | rfl | rfl | rfl | rfl | rfl | rfl | rfl
  · exact encadobe_k48
  · exact encadobe_k49
  · exact encadobe_k50
  · exact encadobe_k51
  · exact encadobe_k52
  · exact encadobe_k53
  · exact encadobe_k54
  · exact encadobe_k55
  · exact encadobe_k56
  · exact encadobe_k57
  · exact encadobe_k58
  · exact encadobe_k59
  · exact encadobe_k60
  · exact encadobe_k61
  · exact encadobe_k62
  · exact encadobe_k63

end Prism.C02
