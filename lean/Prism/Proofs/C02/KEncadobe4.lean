import Prism.Check.C02

/-! Kernel-checked chunks (generated boiler-plate, see lib/gen_static.py). -/
namespace Prism.C02

theorem encadobe_k64 : enc16ChunkOk .adobe 64 = true := by decide +kernel
theorem encadobe_k65 : enc16ChunkOk .adobe 65 = true := by decide +kernel
theorem encadobe_k66 : enc16ChunkOk .adobe 66 = true := by decide +kernel
theorem encadobe_k67 : enc16ChunkOk .adobe 67 = true := by decide +kernel
theorem encadobe_k68 : enc16ChunkOk .adobe 68 = true := by decide +kernel
theorem encadobe_k69 : enc16ChunkOk .adobe 69 = true := by decide +kernel
theorem encadobe_k70 : enc16ChunkOk .adobe 70 = true := by decide +kernel
theorem encadobe_k71 : enc16ChunkOk .adobe 71 = true := by decide +kernel
theorem encadobe_k72 : enc16ChunkOk .adobe 72 = true := by decide +kernel
theorem encadobe_k73 : enc16ChunkOk .adobe 73 = true := by decide +kernel
theorem encadobe_k74 : enc16ChunkOk .adobe 74 = true := by decide +kernel
theorem encadobe_k75 : enc16ChunkOk .adobe 75 = true := by decide +kernel
theorem encadobe_k76 : enc16ChunkOk .adobe 76 = true := by decide +kernel
theorem encadobe_k77 : enc16ChunkOk .adobe 77 = true := by decide +kernel
theorem encadobe_k78 : enc16ChunkOk .adobe 78 = true := by decide +kernel
theorem encadobe_k79 : enc16ChunkOk .adobe 79 = true := by decide +kernel

theorem encadobe_file4 : ∀ k, 64 ≤ k → k < 80 → enc16ChunkOk .adobe k = true := by
  intro k h1 h2
  have h : k = 64 ∨ k = 65 ∨ k = 66 ∨ k = 67 ∨ k = 68 ∨ k = 69 ∨ k = 70 ∨ k = 71 ∨ k = 72 ∨ k = 73 ∨ k = 74 ∨ k = 75 ∨ k = 76 ∨ k = 77 ∨ k = 78 ∨ k = 79 := by omega
  rcases h with rfl | rfl | rfl | rfl | rfl | rfl | rfl | rfl | rfl | rfl | rfl | rfl | rfl | rfl | rfl | rfl
  · exact encadobe_k64
  · exact encadobe_k65
  · exact encadobe_k66
  · exact encadobe_k67
  · exact encadobe_k68
  · exact encadobe_k69
  · exact encadobe_k70
  · exact encadobe_k71
  · exact encadobe_k72
  · exact encadobe_k73
  · exact encadobe_k74
  · exact encadobe_k75
  · exact encadobe_k76
  · exact encadobe_k77
  · exact encadobe_k78
  · exact encadobe_k79

end Prism.C02
