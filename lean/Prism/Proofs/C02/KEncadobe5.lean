import Prism.Check.C02

/-! Kernel-checked chunks (generated boiler-plate, see lib/gen_static.py). -/
namespace Prism.C02

theorem encadobe_k80 : enc16ChunkOk .adobe 80 = true := by decide +kernel
theorem encadobe_k81 : enc16ChunkOk .adobe 81 = true := by decide +kernel
theorem encadobe_k82 : enc16ChunkOk .adobe 82 = true := by decide +kernel
theorem encadobe_k83 : enc16ChunkOk .adobe 83 = true := by decide +kernel
theorem encadobe_k84 : enc16ChunkOk .adobe 84 = true := by decide +kernel
theorem encadobe_k85 : enc16ChunkOk .adobe 85 = true := by decide +kernel
theorem encadobe_k86 : enc16ChunkOk .adobe 86 = true := by decide +kernel
theorem encadobe_k87 : enc16ChunkOk .adobe 87 = true := by decide +kernel
theorem encadobe_k88 : enc16ChunkOk .adobe 88 = true := by decide +kernel
theorem encadobe_k89 : enc16ChunkOk .adobe 89 = true := by decide +kernel
theorem encadobe_k90 : enc16ChunkOk .adobe 90 = true := by decide +kernel
theorem encadobe_k91 : enc16ChunkOk .adobe 91 = true := by decide +kernel
theorem encadobe_k92 : enc16ChunkOk .adobe 92 = true := by decide +kernel
theorem encadobe_k93 : enc16ChunkOk .adobe 93 = true := by decide +kernel
theorem encadobe_k94 : enc16ChunkOk .adobe 94 = true := by decide +kernel
theorem encadobe_k95 : enc16ChunkOk .adobe 95 = true := by decide +kernel

theorem encadobe_file5 : ∀ k, 80 ≤ k → k < 96 → enc16ChunkOk .adobe k = true := by
  intro k h1 h2
  have h : k = 80 ∨ k = 81 ∨ k = 82 ∨ k = 83 ∨ k = 84 ∨ k = 85 ∨ k = 86 ∨ k = 87 ∨ k = 88 ∨ k = 89 ∨ k = 90 ∨ k = 91 ∨ k = 92 ∨ k = 93 ∨ k = 94 ∨ k = 95 := by omega
  rcases h with rfl | rfl | rfl | rfl | rfl | rfl | rfl | rfl | rfl | rfl | rfl | rfl | rfl | rfl | rfl | rfl
  · exact encadobe_k80
  · exact encadobe_k81
  · exact encadobe_k82
  · exact encadobe_k83
  · exact encadobe_k84
  · exact encadobe_k85
  · exact encadobe_k86
  · exact encadobe_k87
  · exact encadobe_k88
  · exact encadobe_k89
  · exact encadobe_k90
  · exact encadobe_k91
  · exact encadobe_k92
  · exact encadobe_k93
  · exact encadobe_k94
  · exact encadobe_k95

end Prism.C02
