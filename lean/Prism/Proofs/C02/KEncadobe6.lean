import Prism.Check.C02

/-! Kernel-checked chunks (generated boiler-plate, see lib/gen_static.py). -/
namespace Prism.C02

theorem encadobe_k96 : enc16ChunkOk .adobe 96 = true := by decide +kernel
theorem encadobe_k97 : enc16ChunkOk .adobe 97 = true := by decide +kernel
theorem encadobe_k98 : enc16ChunkOk .adobe 98 = true := by decide +kernel
theorem encadobe_k99 : enc16ChunkOk .adobe 99 = true := by decide +kernel
theorem encadobe_k100 : enc16ChunkOk .adobe 100 = true := by decide +kernel
theorem encadobe_k101 : enc16ChunkOk .adobe 101 = true := by decide +kernel
theorem encadobe_k102 : enc16ChunkOk .adobe 102 = true := by decide +kernel
theorem encadobe_k103 : enc16ChunkOk .adobe 103 = true := by decide +kernel
theorem encadobe_k104 : enc16ChunkOk .adobe 104 = true := by decide +kernel
theorem encadobe_k105 : enc16ChunkOk .adobe 105 = true := by decide +kernel
theorem encadobe_k106 : enc16ChunkOk .adobe 106 = true := by decide +kernel
theorem encadobe_k107 : enc16ChunkOk .adobe 107 = true := by decide +kernel
theorem encadobe_k108 : enc16ChunkOk .adobe 108 = true := by decide +kernel
theorem encadobe_k109 : enc16ChunkOk .adobe 109 = true := by decide +kernel
theorem encadobe_k110 : enc16ChunkOk .adobe 110 = true := by decide +kernel
theorem encadobe_k111 : enc16ChunkOk .adobe 111 = true := by decide +kernel

theorem encadobe_file6 : ∀ k, 96 ≤ k → k < 112 → enc16ChunkOk .adobe k = true := by
  intro k h1 h2
  have h : k = 96 ∨ k = 97 ∨ k = 98 ∨ k = 99 ∨ k = 100 ∨ k = 101 ∨ k = 102 ∨ k = 103 ∨ k = 104 ∨ k = 105 ∨ k = 106 ∨ k = 107 ∨ k = 108 ∨ k = 109 ∨ k = 110 ∨ k = 111 := by omega
  rcases h with rfl | rfl | rfl | rfl | rfl | rfl | rfl | rfl | rfl | rfl | rfl | rfl | rfl | rfl | rfl | rfl
  · exact encadobe_k96
  · exact encadobe_k97
  · exact encadobe_k98
  · exact encadobe_k99
  · exact encadobe_k100
  · exact encadobe_k101
  · exact encadobe_k102
  · exact encadobe_k103
  · exact encadobe_k104
  · exact encadobe_k105
  · exact encadobe_k106
  · exact encadobe_k107
  · exact encadobe_k108
  · exact encadobe_k109
  · exact encadobe_k110
  · exact encadobe_k111

end Prism.C02
