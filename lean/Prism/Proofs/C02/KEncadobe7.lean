import Prism.Check.C02

/-! Kernel-checked chunks (generated boiler-plate, see lib/gen_static.py). -/
namespace Prism.C02

theorem encadobe_k112 : enc16ChunkOk .adobe 112 = true := by decide +kernel
theorem encadobe_k113 : enc16ChunkOk .adobe 113 = true := by decide +kernel
theorem encadobe_k114 : enc16ChunkOk .adobe 114 = true := by decide +kernel
theorem encadobe_k115 : enc16ChunkOk .adobe 115 = true := by decide +kernel
theorem encadobe_k116 : enc16ChunkOk .adobe 116 = true := by decide +kernel
theorem encadobe_k117 : enc16ChunkOk .adobe 117 = true := by decide +kernel
theorem encadobe_k118 : enc16ChunkOk .adobe 118 = true := by decide +kernel
theorem encadobe_k119 : enc16ChunkOk .adobe 119 = true := by decide +kernel
theorem encadobe_k120 : enc16ChunkOk .adobe 120 = true := by decide +kernel
theorem encadobe_k121 : enc16ChunkOk .adobe 121 = true := by decide +kernel
theorem encadobe_k122 : enc16ChunkOk .adobe 122 = true := by decide +kernel
theorem encadobe_k123 : enc16ChunkOk .adobe 123 = true := by decide +kernel
theorem encadobe_k124 : enc16ChunkOk .adobe 124 = true := by decide +kernel
theorem encadobe_k125 : enc16ChunkOk .adobe 125 = true := by decide +kernel
theorem encadobe_k126 : enc16ChunkOk .adobe 126 = true := by decide +kernel
theorem encadobe_k127 : enc16ChunkOk .adobe 127 = true := by decide +kernel

theorem encadobe_file7 : ∀ k, 112 ≤ k → k < 128 → enc16ChunkOk .adobe k = true := by
  intro k h1 h2
  have h : k = 112 ∨ k = 113 ∨ k = 114 ∨ k = 115 ∨ k = 116 ∨ k = 117 ∨ k = 118 ∨ k = 119 ∨ k = 120 ∨ k = 121 ∨ k = 122 ∨ k = 123 ∨ k = 124 ∨ k = 125 ∨ k = 126 ∨ k = 127 := by omega
  rcases h with rfl | rfl | rfl | rfl | rfl | rfl | rfl | rfl | rfl | rfl | rfl | rfl | rfl | rfl | rfl | rfl
  · exact encadobe_k112
  · exact encadobe_k113
  · exact encadobe_k114
  · exact encadobe_k115
  · exact encadobe_k116
  · exact encadobe_k117
  · exact encadobe_k118
  · exact encadobe_k119
  · exact encadobe_k120
  · exact encadobe_k121
  · exact encadobe_k122
  · exact encadobe_k123
  · exact encadobe_k124
  · exact encadobe_k125
  · exact encadobe_k126
  · exact encadobe_k127

end Prism.C02
