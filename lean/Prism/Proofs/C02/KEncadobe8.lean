import Prism.Check.C02

/-! Kernel-checked chunks (generated boiler-plate, see lib/gen_static.py). -/
namespace Prism.C02

theorem encadobe_k128 : enc16ChunkOk .adobe 128 = true := by decide +kernel
theorem encadobe_k129 : enc16ChunkOk .adobe 129 = true := by decide +kernel
theorem encadobe_k130 : enc16ChunkOk .adobe 130 = true := by decide +kernel
theorem encadobe_k131 : enc16ChunkOk .adobe 131 = true := by decide +kernel
theorem encadobe_k132 : enc16ChunkOk .adobe 132 = true := by decide +kernel
theorem encadobe_k133 : enc16ChunkOk .adobe 133 = true := by decide +kernel
theorem encadobe_k134 : enc16ChunkOk .adobe 134 = true := by decide +kernel
theorem encadobe_k135 : enc16ChunkOk .adobe 135 = true := by decide +kernel
theorem encadobe_k136 : enc16ChunkOk .adobe 136 = true := by decide +kernel
theorem encadobe_k137 : enc16ChunkOk .adobe 137 = true := by decide +kernel
theorem encadobe_k138 : enc16ChunkOk .adobe 138 = true := by decide +kernel
theorem encadobe_k139 : enc16ChunkOk .adobe 139 = true := by decide +kernel
theorem encadobe_k140 : enc16ChunkOk .adobe 140 = true := by decide +kernel
theorem encadobe_k141 : enc16ChunkOk .adobe 141 = true := by decide +kernel
theorem encadobe_k142 : enc16ChunkOk .adobe 142 = true := by decide +kernel
theorem encadobe_k143 : enc16ChunkOk .adobe 143 = true := by decide +kernel

theorem encadobe_file8 : ∀ k, 128 ≤ k → k < 144 → enc16ChunkOk .adobe k = true := by
  intro k h1 h2
  have h : k = 128 ∨ k = 129 ∨ k = 130 ∨ k = 131 ∨ k = 132 ∨ k = 133 ∨ k = 134 ∨ k = 135 ∨ k = 136 ∨ k = 137 ∨ k = 138 ∨ k = 139 ∨ k = 140 ∨ k = 141 ∨ k = 142 ∨ k = 143 := by omega
  rcases h with rfl | rfl | rfl | rfl | rfl | rfl | rfl | rfl | rfl | rfl | rfl | rfl | rfl | rfl | rfl | rfl
  · exact encadobe_k128
  · exact encadobe_k129
  · exact encadobe_k130
  · exact encadobe_k131
  · exact encadobe_k132
  · exact encadobe_k133
  · exact encadobe_k134
  · exact encadobe_k135
  · exact encadobe_k136
  · exact encadobe_k137
  · exact encadobe_k138
  · exact encadobe_k139
  · exact encadobe_k140
  · exact encadobe_k141
  · exact encadobe_k142
  · exact encadobe_k143

end Prism.C02
