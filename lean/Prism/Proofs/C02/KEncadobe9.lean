import Prism.Check.C02

/-! Kernel-checked chunks (generated boiler-plate, see lib/gen_static.py). -/
namespace Prism.C02

theorem encadobe_k144 : enc16ChunkOk .adobe 144 = true := by decide +kernel
theorem encadobe_k145 : enc16ChunkOk .adobe 145 = true := by decide +kernel
theorem encadobe_k146 : enc16ChunkOk .adobe 146 = true := by decide +kernel
theorem encadobe_k147 : enc16ChunkOk .adobe 147 = true := by decide +kernel
theorem encadobe_k148 : enc16ChunkOk .adobe 148 = true := by decide +kernel
theorem encadobe_k149 : enc16ChunkOk .adobe 149 = true := by decide +kernel
theorem encadobe_k150 : enc16ChunkOk .adobe 150 = true := by decide +kernel
theorem encadobe_k151 : enc16ChunkOk .adobe 151 = true := by decide +kernel
theorem encadobe_k152 : enc16ChunkOk .adobe 152 = true := by decide +kernel
theorem encadobe_k153 : enc16ChunkOk .adobe 153 = true := by decide +kernel
theorem encadobe_k154 : enc16ChunkOk .adobe 154 = true := by decide +kernel
theorem encadobe_k155 : enc16ChunkOk .adobe 155 = true := by decide +kernel
theorem encadobe_k156 : enc16ChunkOk .adobe 156 = true := by decide +kernel
theorem encadobe_k157 : enc16ChunkOk .adobe 157 = true := by decide +kernel
theorem encadobe_k158 : enc16ChunkOk .adobe 158 = true := by decide +kernel
theorem encadobe_k159 : enc16ChunkOk .adobe 159 = true := by decide +kernel

theorem encadobe_file9 : ∀ k, 144 ≤ k → k < 160 → enc16ChunkOk .adobe k = true := by
  intro k h1 h2
  have h : k = 144 ∨ k = 145 ∨ k = 146 ∨ k = 147 ∨ k = 148 ∨ k = 149 ∨ k = 150 ∨ k = 151 ∨ k = 152 ∨ k = 153 ∨ k = 154 ∨ k = 155 ∨ k = 156 ∨ k = 157 ∨ k = 158 ∨ k = 159 := by omega
  rcases h with rfl | rfl | rfl | rfl | rfl | rfl | rfl | rfl | rfl | rfl | rfl | rfl | rfl | rfl | rfl | rfl
  · exact encadobe_k144
  · exact encadobe_k145
  · exact encadobe_k146
  · exact encadobe_k147
  · exact encadobe_k148
  · exact encadobe_k149
  · exact encadobe_k150
  · exact encadobe_k151
  · exact encadobe_k152
  · exact encadobe_k153
  · exact encadobe_k154
  · exact encadobe_k155
  · exact encadobe_k156
  · exact encadobe_k157
  · exact encadobe_k158
  · exact encadobe_k159

end Prism.C02
