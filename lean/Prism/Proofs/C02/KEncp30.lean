import Prism.Check.C02

/-! Kernel-checked chunks (generated boiler-plate, see lib/gen_static.py). -/
namespace Prism.C02

theorem encp3_k0 : enc16ChunkOk .p3 0 = true := by decide +kernel
theorem encp3_k1 : enc16ChunkOk .p3 1 = true := by decide +kernel
theorem encp3_k2 : enc16ChunkOk .p3 2 = true := by decide +kernel
theorem encp3_k3 : enc16ChunkOk .p3 3 = true := by decide +kernel
theorem encp3_k4 : enc16ChunkOk .p3 4 = true := by decide +kernel
theorem encp3_k5 : enc16ChunkOk .p3 5 = true := by decide +kernel
theorem encp3_k6 : enc16ChunkOk .p3 6 = true := by decide +kernel
theorem encp3_k7 : enc16ChunkOk .p3 7 = true := by decide +kernel
theorem encp3_k8 : enc16ChunkOk .p3 8 = true := by decide +kernel
theorem encp3_k9 : enc16ChunkOk .p3 9 = true := by decide +kernel
theorem encp3_k10 : enc16ChunkOk .p3 10 = true := by decide +kernel
theorem encp3_k11 : enc16ChunkOk .p3 11 = true := by decide +kernel
theorem encp3_k12 : enc16ChunkOk .p3 12 = true := by decide +kernel
theorem encp3_k13 : enc16ChunkOk .p3 13 = true := by decide +kernel
theorem encp3_k14 : enc16ChunkOk .p3 14 = true := by decide +kernel
theorem encp3_k15 : enc16ChunkOk .p3 15 = true := by decide +kernel

theorem encp3_file0 : ∀ k, 0 ≤ k → k < 16 → enc16ChunkOk .p3 k = true := by
  intro k h1 h2
  have h : k = 0 ∨ k = 1 ∨ k = 2 ∨ k = 3 ∨ k = 4 ∨ k = 5 ∨ k = 6 ∨ k = 7 ∨ k = 8 ∨ k = 9 ∨ k = 10 ∨ k = 11 ∨ k = 12 ∨ k = 13 ∨ k = 14 ∨ k = 15 := by omega
  rcases h with rfl | rfl | rfl | rfl | rfl | rfl | rfl | rfl | rfl | rfl | rfl | rfl | rfl | rfl | rfl | rfl
  · exact encp3_k0
  · exact encp3_k1
  · exact encp3_k2
  · exact encp3_k3
  · exact encp3_k4
  · exact encp3_k5
  · exact encp3_k6
  · exact encp3_k7
  · exact encp3_k8
  · exact encp3_k9
  · exact encp3_k10
  · exact encp3_k11
  · exact encp3_k12
  · exact encp3_k13
  · exact encp3_k14
  · exact encp3_k15

end Prism.C02
