import Prism.Check.C02

/-! Kernel-checked chunks (generated boiler-plate, see lib/gen_static.py). -/
namespace Prism.C02

theorem encp3_k192 : enc16ChunkOk .p3 192 = true := by decide +kernel
theorem encp3_k193 : enc16ChunkOk .p3 193 = true := by decide +kernel
theorem encp3_k194 : enc16ChunkOk .p3 194 = true := by decide +kernel
theorem encp3_k195 : enc16ChunkOk .p3 195 = true := by decide +kernel
theorem encp3_k196 : enc16ChunkOk .p3 196 = true := by decide +kernel
theorem encp3_k197 : enc16ChunkOk .p3 197 = true := by decide +kernel
theorem encp3_k198 : enc16ChunkOk .p3 198 = true := by decide +kernel
theorem encp3_k199 : enc16ChunkOk .p3 199 = true := by decide +kernel
theorem encp3_k200 : enc16ChunkOk .p3 200 = true := by decide +kernel
theorem encp3_k201 : enc16ChunkOk .p3 201 = true := by decide +kernel
theorem encp3_k202 : enc16ChunkOk .p3 202 = true := by decide +kernel
theorem encp3_k203 : enc16ChunkOk .p3 203 = true := by decide +kernel
theorem encp3_k204 : enc16ChunkOk .p3 204 = true := by decide +kernel
theorem encp3_k205 : enc16ChunkOk .p3 205 = true := by decide +kernel
theorem encp3_k206 : enc16ChunkOk .p3 206 = true := by decide +kernel
theorem encp3_k207 : enc16ChunkOk .p3 207 = true := by decide +kernel

theorem encp3_file12 : ∀ k, 192 ≤ k → k < 208 → enc16ChunkOk .p3 k = true := by
  intro k h1 h2
  have h : k = 192 ∨ k = 193 ∨ k = 194 ∨ k = 195 ∨ k = 196 ∨ k = 197 ∨ k = 198 ∨ k = 199 ∨ k = 200 ∨ k = 201 ∨ k = 202 ∨ k = 203 ∨ k = 204 ∨ k = 205 ∨ k = 206 ∨ k = 207 := by omega
  rcases h with rfl | rfl | rfl | rfl | rfl | rfl | rfl | rfl | rfl | rfl | rfl | rfl | rfl | rfl | rfl | rfl
  · exact encp3_k192
  · exact encp3_k193
  · exact encp3_k194
  · exact encp3_k195
  · exact encp3_k196
  · exact encp3_k197
  · exact encp3_k198
  · exact encp3_k199
  · exact encp3_k200
  · exact encp3_k201
  · exact encp3_k202
  · exact encp3_k203
  · exact encp3_k204
  · exact encp3_k205
  · exact encp3_k206
  · exact encp3_k207

end Prism.C02
