import Prism.Check.C02

/-! Kernel-checked chunks (generated boiler-plate, see lib/gen_static.py). -/
namespace Prism.C02

theorem encp3_k208 : enc16ChunkOk .p3 208 = true := by decide +kernel
theorem encp3_k209 : enc16ChunkOk .p3 209 = true := by decide +kernel
theorem encp3_k210 : enc16ChunkOk .p3 210 = true := by decide +kernel
theorem encp3_k211 : enc16ChunkOk .p3 211 = true := by decide +kernel
theorem encp3_k212 : enc16ChunkOk .p3 212 = true := by decide +kernel
theorem encp3_k213 : enc16ChunkOk .p3 213 = true := by decide +kernel
theorem encp3_k214 : enc16ChunkOk .p3 214 = true := by decide +kernel
theorem encp3_k215 : enc16ChunkOk .p3 215 = true := by decide +kernel
theorem encp3_k216 : enc16ChunkOk .p3 216 = true := by decide +kernel
theorem encp3_k217 : enc16ChunkOk .p3 217 = true := by decide +kernel
theorem encp3_k218 : enc16ChunkOk .p3 218 = true := by decide +kernel
theorem encp3_k219 : enc16ChunkOk .p3 219 = true := by decide +kernel
theorem encp3_k220 : enc16ChunkOk .p3 220 = true := by decide +kernel
theorem encp3_k221 : enc16ChunkOk .p3 221 = true := by decide +kernel
theorem encp3_k222 : enc16ChunkOk .p3 222 = true := by decide +kernel
theorem encp3_k223 : enc16ChunkOk .p3 223 = true := by decide +kernel

theorem encp3_file13 : ∀ k, 208 ≤ k → k < 224 → enc16ChunkOk .p3 k = true := by
  intro k h1 h2
  have h : k = 208 ∨ k = 209 ∨ k = 210 ∨ k = 211 ∨ k = 212 ∨ k = 213 ∨ k = 214 ∨ k = 215 ∨ k = 216 ∨ k = 217 ∨ k = 218 ∨ k = 219 ∨ k = 220 ∨ k = 221 ∨ k = 222 ∨ k = 223 := by omega
  rcases h with rfl | rfl | rfl | rfl | rfl | rfl | rfl | rfl | rfl | rfl | rfl | rfl | rfl | rfl | rfl | rfl
  · exact encp3_k208
  · exact encp3_k209
  · exact encp3_k210
  · exact encp3_k211
  · exact encp3_k212
  · exact encp3_k213
  · exact encp3_k214
  · exact encp3_k215
  · exact encp3_k216
  · exact encp3_k217
  · exact encp3_k218
  · exact encp3_k219
  · exact encp3_k220
  · exact encp3_k221
  · exact encp3_k222
  · exact encp3_k223

end Prism.C02
