import Prism.Check.C02

/-! Kernel-checked chunks (generated boiler-plate, see lib/gen_static.py). -/
namespace Prism.C02

theorem encp3_k224 : enc16ChunkOk .p3 224 = true := by decide +kernel
theorem encp3_k225 : enc16ChunkOk .p3 225 = true := by decide +kernel
theorem encp3_k226 : enc16ChunkOk .p3 226 = true := by decide +kernel
theorem encp3_k227 : enc16ChunkOk .p3 227 = true := by decide +kernel
theorem encp3_k228 : enc16ChunkOk .p3 228 = true := by decide +kernel
theorem encp3_k229 : enc16ChunkOk .p3 229 = true := by decide +kernel
theorem encp3_k230 : enc16ChunkOk .p3 230 = true := by decide +kernel
theorem encp3_k231 : enc16ChunkOk .p3 231 = true := by decide +kernel
theorem encp3_k232 : enc16ChunkOk .p3 232 = true := by decide +kernel
theorem encp3_k233 : enc16ChunkOk .p3 233 = true := by decide +kernel
theorem encp3_k234 : enc16ChunkOk .p3 234 = true := by decide +kernel
theorem encp3_k235 : enc16ChunkOk .p3 235 = true := by decide +kernel
theorem encp3_k236 : enc16ChunkOk .p3 236 = true := by decide +kernel
theorem encp3_k237 : enc16ChunkOk .p3 237 = true := by decide +kernel
theorem encp3_k238 : enc16ChunkOk .p3 238 = true := by decide +kernel
theorem encp3_k239 : enc16ChunkOk .p3 239 = true := by decide +kernel

theorem encp3_file14 : ∀ k, 224 ≤ k → k < 240 → enc16ChunkOk .p3 k = true := by
  intro k h1 h2
  have h : k = 224 ∨ k = 225 ∨ k = 226 ∨ k = 227 ∨ k = 228 ∨ k = 229 ∨ k = 230 ∨ k = 231 ∨ k = 232 ∨ k = 233 ∨ k = 234 ∨ k = 235 ∨ k = 236 ∨ k = 237 ∨ k = 238 ∨ k = 239 := by omega
  rcases h with rfl | rfl | rfl | rfl | rfl | rfl | rfl | rfl | rfl | rfl | rfl | rfl | rfl | rfl | rfl | rfl
  · exact encp3_k224
  · exact encp3_k225
  · exact encp3_k226
  · exact encp3_k227
  · exact encp3_k228
  · exact encp3_k229
  · exact encp3_k230
  · exact encp3_k231
  · exact encp3_k232
  · exact encp3_k233
  · exact encp3_k234
  · exact encp3_k235
  · exact encp3_k236
  · exact encp3_k237
  · exact encp3_k238
  · exact encp3_k239

end Prism.C02
