import Prism.Check.C02

/-! Kernel-checked chunks (generated boiler-plate, see lib/gen_static.py). -/
namespace Prism.C02

theorem encp3_k32 : enc16ChunkOk .p3 32 = true := by decide +kernel
theorem encp3_k33 : enc16ChunkOk .p3 33 = true := by decide +kernel
theorem encp3_k34 : enc16ChunkOk .p3 34 = true := by decide +kernel
theorem encp3_k35 : enc16ChunkOk .p3 35 = true := by decide +kernel
theorem encp3_k36 : enc16ChunkOk .p3 36 = true := by decide +kernel
theorem encp3_k37 : enc16ChunkOk .p3 37 = true := by decide +kernel
theorem encp3_k38 : enc16ChunkOk .p3 38 = true := by decide +kernel
theorem encp3_k39 : enc16ChunkOk .p3 39 = true := by decide +kernel
theorem encp3_k40 : enc16ChunkOk .p3 40 = true := by decide +kernel
theorem encp3_k41 : enc16ChunkOk .p3 41 = true := by decide +kernel
theorem encp3_k42 : enc16ChunkOk .p3 42 = true := by decide +kernel
theorem encp3_k43 : enc16ChunkOk .p3 43 = true := by decide +kernel
theorem encp3_k44 : enc16ChunkOk .p3 44 = true := by decide +kernel
theorem encp3_k45 : enc16ChunkOk .p3 45 = true := by decide +kernel
theorem encp3_k46 : enc16ChunkOk .p3 46 = true := by decide +kernel
theorem encp3_k47 : enc16ChunkOk .p3 47 = true := by decide +kernel

theorem encp3_file2 : ∀ k, 32 ≤ k → k < 48 → enc16ChunkOk .p3 k = true := by
  intro k h1 h2
  have h : k = 32 ∨ k = 33 ∨ k = 34 ∨ k = 35 ∨ k = 36 ∨ k = 37 ∨ k = 38 ∨ k = 39 ∨ k = 40 ∨ k = 41 ∨ k = 42 ∨ k = 43 ∨ k = 44 ∨ k = 45 ∨ k = 46 ∨ k = 47 := by omega
  rcases h with rfl | rfl | rfl | rfl | rfl | rfl | rfl | rfl | rfl | rfl | rfl | rfl | rfl | rfl | rfl | rfl
  · exact encp3_k32
  · exact encp3_k33
  · exact encp3_k34
  · exact encp3_k35
  · exact encp3_k36
  · exact encp3_k37
  · exact encp3_k38
  · exact encp3_k39
  · exact encp3_k40
  · exact encp3_k41
  · exact encp3_k42
  · exact encp3_k43
  · exact encp3_k44
  · exact encp3_k45
  · exact encp3_k46
  · exact encp3_k47

end Prism.C02
