import Prism.Check.C02

/-! Kernel-checked chunks (generated boiler-plate, see lib/gen_static.py). -/
namespace Prism.C02

theorem encp3_k48 : enc16ChunkOk .p3 48 = true := by decide +kernel
theorem encp3_k49 : enc16ChunkOk .p3 49 = true := by decide +kernel
theorem encp3_k50 : enc16ChunkOk .p3 50 = true := by decide +kernel
theorem encp3_k51 : enc16ChunkOk .p3 51 = true := by decide +kernel
theorem encp3_k52 : enc16ChunkOk .p3 52 = true := by decide +kernel
theorem encp3_k53 : enc16ChunkOk .p3 53 = true := by decide +kernel
theorem encp3_k54 : enc16ChunkOk .p3 54 = true := by decide +kernel
theorem encp3_k55 : enc16ChunkOk .p3 55 = true := by decide +kernel
theorem encp3_k56 : enc16ChunkOk .p3 56 = true := by decide +kernel
theorem encp3_k57 : enc16ChunkOk .p3 57 = true := by decide +kernel
theorem encp3_k58 : enc16ChunkOk .p3 58 = true := by decide +kernel
theorem encp3_k59 : enc16ChunkOk .p3 59 = true := by decide +kernel
theorem encp3_k60 : enc16ChunkOk .p3 60 = true := by decide +kernel
theorem encp3_k61 : enc16ChunkOk .p3 61 = true := by decide +kernel
theorem encp3_k62 : enc16ChunkOk .p3 62 = true := by decide +kernel
theorem encp3_k63 : enc16ChunkOk .p3 63 = true := by decide +kernel

theorem encp3_file3 : ∀ k, 48 ≤ k → k < 64 → enc16ChunkOk .p3 k = true := by
  intro k h1 h2
  have h : k = 48 ∨ k = 49 ∨ k = 50 ∨ k = 51 ∨ k = 52 ∨ k = 53 ∨ k = 54 ∨ k = 55 ∨ k = 56 ∨ k = 57 ∨ k = 58 ∨ k = 59 ∨ k = 60 ∨ k = 61 ∨ k = 62 ∨ k = 63 := by omega
  rcases h with rfl | rfl | rfl | rfl | rfl | rfl | rfl | rfl | rfl | rfl | rfl | rfl | rfl | rfl | rfl | rfl
  · exact encp3_k48
  · exact encp3_k49
  · exact encp3_k50
  · exact encp3_k51
  · exact encp3_k52
  · exact encp3_k53
  · exact encp3_k54
  · exact encp3_k55
  · exact encp3_k56
  · exact encp3_k57
  · exact encp3_k58
  · exact encp3_k59
  · exact encp3_k60
  · exact encp3_k61
  · exact encp3_k62
  · exact encp3_k63

end Prism.C02
