import Prism.Check.C02

/-! Kernel-checked chunks (generated boiler-plate, see lib/gen_static.py). -/
namespace Prism.C02

theorem encp3_k80 : enc16ChunkOk .p3 80 = true := by decide +kernel
theorem encp3_k81 : enc16ChunkOk .p3 81 = true := by decide +kernel
theorem encp3_k82 : enc16ChunkOk .p3 82 = true := by decide +kernel
theorem encp3_k83 : enc16ChunkOk .p3 83 = true := by decide +kernel
theorem encp3_k84 : enc16ChunkOk .p3 84 = true := by decide +kernel
theorem encp3_k85 : enc16ChunkOk .p3 85 = true := by decide +kernel
theorem encp3_k86 : enc16ChunkOk .p3 86 = true := by decide +kernel
theorem encp3_k87 : enc16ChunkOk .p3 87 = true := by decide +kernel
theorem encp3_k88 : enc16ChunkOk .p3 88 = true := by decide +kernel
theorem encp3_k89 : enc16ChunkOk .p3 89 = true := by decide +kernel
theorem encp3_k90 : enc16ChunkOk .p3 90 = true := by decide +kernel
theorem encp3_k91 : enc16ChunkOk .p3 91 = true := by decide +kernel
theorem encp3_k92 : enc16ChunkOk .p3 92 = true := by decide +kernel
theorem encp3_k93 : enc16ChunkOk .p3 93 = true := by decide +kernel
theorem encp3_k94 : enc16ChunkOk .p3 94 = true := by decide +kernel
theorem encp3_k95 : enc16ChunkOk .p3 95 = true := by decide +kernel

theorem encp3_file5 : ∀ k, 80 ≤ k → k < 96 → enc16ChunkOk .p3 k = true := by
  intro k h1 h2
  have h : k = 80 ∨ k = 81 ∨ k = 82 ∨ k = 83 ∨ k = 84 ∨ k = 85 ∨ k = 86 ∨ k = 87 ∨ k = 88 ∨ k = 89 ∨ k = 90 ∨ k = 91 ∨ k = 92 ∨ k = 93 ∨ k = 94 ∨ k = 95 := by omega
  rcases h with rfl | rfl | rfl | rfl | rfl | rfl | rfl | rfl | rfl | rfl | rfl | rfl | rfl | rfl | rfl | rfl
  · exact encp3_k80
  · exact encp3_k81
  · exact encp3_k82
  · exact encp3_k83
  · exact encp3_k84
  · exact encp3_k85
  · exact encp3_k86
  · exact encp3_k87
  · exact encp3_k88
  · exact encp3_k89
  · exact encp3_k90
  · exact encp3_k91
  · exact encp3_k92
  · exact encp3_k93
  · exact encp3_k94
  · exact encp3_k95

end Prism.C02
