import Prism.Check.C02

/-! Kernel-checked chunks (generated boiler-plate, see lib/gen_static.py). -/
namespace Prism.C02

theorem encp3_k96 : enc16ChunkOk .p3 96 = true := by decide +kernel
theorem encp3_k97 : enc16ChunkOk .p3 97 = true := by decide +kernel
theorem encp3_k98 : enc16ChunkOk .p3 98 = true := by decide +kernel
theorem encp3_k99 : enc16ChunkOk .p3 99 = true := by decide +kernel
theorem encp3_k100 : enc16ChunkOk .p3 100 = true := by decide +kernel
theorem encp3_k101 : enc16ChunkOk .p3 101 = true := by decide +kernel
theorem encp3_k102 : enc16ChunkOk .p3 102 = true := by decide +kernel
theorem encp3_k103 : enc16ChunkOk .p3 103 = true := by decide +kernel
theorem encp3_k104 : enc16ChunkOk .p3 104 = true := by decide +kernel
theorem encp3_k105 : enc16ChunkOk .p3 105 = true := by decide +kernel
theorem encp3_k106 : enc16ChunkOk .p3 106 = true := by decide +kernel
theorem encp3_k107 : enc16ChunkOk .p3 107 = true := by decide +kernel
theorem encp3_k108 : enc16ChunkOk .p3 108 = true := by decide +kernel
theorem encp3_k109 : enc16ChunkOk .p3 109 = true := by decide +kernel
theorem encp3_k110 : enc16ChunkOk .p3 110 = true := by decide +kernel
theorem encp3_k111 : enc16ChunkOk .p3 111 = true := by decide +kernel

theorem encp3_file6 : ∀ k, 96 ≤ k → k < 112 → enc16ChunkOk .p3 k = true := by
  intro k h1 h2
  have h : k = 96 ∨ k = 97 ∨ k = 98 ∨ k = 99 ∨ k = 100 ∨ k = 101 ∨ k = 102 ∨ k = 103 ∨ k = 104 ∨ k = 105 ∨ k = 106 ∨ k = 107 ∨ k = 108 ∨ k = 109 ∨ k = 110 ∨ k = 111 := by omega
  rcases h with rfl | rfl | rfl | rfl | rfl | rfl | rfl | rfl | rfl | rfl | rfl | rfl | rfl | rfl | rfl | rfl
  · exact encp3_k96
  · exact encp3_k97
  · exact encp3_k98
  · exact encp3_k99
  · exact encp3_k100
  · exact encp3_k101
  · exact encp3_k102
  · exact encp3_k103
  · exact encp3_k104
  · exact encp3_k105
  · exact encp3_k106
  · exact encp3_k107
  · exact encp3_k108
  · exact encp3_k109
  · exact encp3_k110
  · exact encp3_k111

end Prism.C02
